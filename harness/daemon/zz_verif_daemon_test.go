//go:build verif

package yubiagent

// Driver / observer for spec/Daemon.tla (the yubiagent daemon as a whole; beyond the listed properties).
// One instance = one real NewServer(upSock, true) whose single upstream connection ends at verifh.Proxy in front of a
// verifh.FlexAgent, a second unix socket whose accepted connections are each served by the real ServeAgent (what a
// daemon main does), and K client connections: real yubiagent clients, plain x/crypto agent clients, raw frame
// writers.  The harness drives and records; TLC judges (spec/TraceDaemon.tla, spec/TraceDaemonLin.tla).
// This file: types, instance construction, observation.  Every package-level identifier starts with zvd.

import (
	"crypto/sha256"
	"encoding/binary"
	"encoding/hex"
	"errors"
	"fmt"
	"io"
	"math"
	mrand "math/rand"
	"net"
	"os"
	"reflect"
	"sort"
	"strings"
	"sync"
	"time"
	"unsafe"

	"github.com/theparanoids/ysshra/agent/shimagent"
	"github.com/theparanoids/ysshra/verifh"
	"golang.org/x/crypto/ssh"
	"golang.org/x/crypto/ssh/agent"
)

type zvdCertDef struct {
	Key string `json:"key"`
	V0  bool   `json:"v0"`
	V1  bool   `json:"v1"`
	Yss bool   `json:"yss"`
}

type zvdUniverse struct {
	Keys  []string              `json:"keys"`
	Certs map[string]zvdCertDef `json:"certs"`
	Pass  []string              `json:"pass"`
}

type zvdKRec struct {
	C int    `json:"c"`
	S string `json:"s"`
	W int    `json:"w"`
}

type zvdState struct {
	U  []string  `json:"u"`
	Ul bool      `json:"ul"`
	Up string    `json:"up"`
	M  []string  `json:"m"`
	C  []string  `json:"c"`
	L  bool      `json:"l"`
	Nu bool      `json:"nu"`
	N  int       `json:"n"`
	D  bool      `json:"d"`
	Fv []string  `json:"fv"`
	K  []zvdKRec `json:"k"`
}

type zvdRq struct {
	Op   string `json:"op"`
	Arg  string `json:"arg"`
	Code int    `json:"code"`
	Enc  string `json:"enc"`
}

type zvdRes struct {
	Ok  bool     `json:"ok"`
	Pan bool     `json:"pan"`
	L1  []string `json:"l1"`
	L2  []string `json:"l2"`
	By  string   `json:"by"`
}

type zvdEv struct {
	K   string   `json:"k"`
	C   int      `json:"c"`
	Rq  zvdRq    `json:"rq"`
	Rel []int    `json:"rel"`
	Np  int      `json:"np"`
	Wr  [][2]int `json:"wr"`
	Res zvdRes   `json:"res"`
}

type zvdRec struct {
	Ev   string      `json:"ev"`
	Tid  string      `json:"tid"`
	I    int         `json:"i"`
	Pre  *zvdState   `json:"pre,omitempty"`
	E    *zvdEv      `json:"e,omitempty"`
	Post zvdState    `json:"post"`
	Info interface{} `json:"info,omitempty"`
}

var zvdNoRq = zvdRq{Op: "none", Code: -1}

func zvdSet(s []string) []string {
	if s == nil {
		return []string{}
	}
	o := append([]string{}, s...)
	sort.Strings(o)
	return o
}

func (r zvdRes) norm() zvdRes {
	r.L1, r.L2 = zvdSet(r.L1), zvdSet(r.L2)
	return r
}

const zvdHangAfter = 25 * time.Second

var zvdCA = verifh.GenKey("ca", "ed25519")

// ---------------------------------------------------------------------------------------------
// server side of a client connection: what the handler (ServeAgent) read and wrote, observed on the byte stream

type zvdSrvSide struct {
	net.Conn
	mu       sync.Mutex
	rbuf     []byte // bytes the handler consumed that do not yet form a complete frame
	frames   int    // complete request frames consumed
	lastHead []byte // first two bytes of the last complete frame
	wbuf     []byte
	replies  int // complete reply frames written
	repAt    int // value of replies when the last frame was consumed
	returned bool
	retErr   string
	pan      bool
}

func zvdFrames(buf []byte, onFrame func(body []byte)) []byte {
	for len(buf) >= 4 {
		l := int(binary.BigEndian.Uint32(buf[:4]))
		if l > 16<<20 || len(buf) < 4+l {
			break
		}
		onFrame(buf[4 : 4+l])
		buf = buf[4+l:]
	}
	return buf
}

func (s *zvdSrvSide) Read(p []byte) (int, error) {
	n, err := s.Conn.Read(p)
	if n > 0 {
		s.mu.Lock()
		s.rbuf = append(s.rbuf, p[:n]...)
		s.rbuf = zvdFrames(s.rbuf, func(b []byte) {
			s.frames++
			s.repAt = s.replies
			h := b
			if len(h) > 2 {
				h = h[:2]
			}
			s.lastHead = append([]byte{}, h...)
		})
		s.mu.Unlock()
	}
	return n, err
}

func (s *zvdSrvSide) Write(p []byte) (int, error) {
	n, err := s.Conn.Write(p)
	if n > 0 {
		s.mu.Lock()
		s.wbuf = append(s.wbuf, p[:n]...)
		s.wbuf = zvdFrames(s.wbuf, func(b []byte) { s.replies++ })
		s.mu.Unlock()
	}
	return n, err
}

// snapshot: stage of the handler: "returned", "idle" (waiting for a frame), "busy" (inside a request: the last frame
// it consumed has no reply yet); head = first bytes of that frame.
func (s *zvdSrvSide) stage() (st string, head []byte, replies int) {
	s.mu.Lock()
	defer s.mu.Unlock()
	switch {
	case s.returned:
		st = "returned"
	case s.frames > 0 && s.replies == s.repAt:
		st = "busy"
	default:
		st = "idle"
	}
	return st, append([]byte{}, s.lastHead...), s.replies
}

// ---------------------------------------------------------------------------------------------

type zvdWaitCall struct {
	code int
	done chan struct{}
	ok   bool
	err  string
	seq  int64 // global sequence number taken after the call returned (concurrent phases)
}

type zvdConn struct {
	id      int
	kind    string // "yubi" | "std" | "pipe"
	nc      net.Conn
	sc      *zvdSrvSide
	ycl     YubiAgent
	acl     agent.ExtendedAgent
	open    bool
	wait    *zvdWaitCall // outstanding Wait call of this client (nil when none)
	waitOp  int          // index of that call's operation in the current batch (concurrent phases)
	zombieW int          // code the handler is (believed to be) parked on after the client left; -1 none
}

type zvdInst struct {
	u       *zvdUniverse
	rnd     *mrand.Rand
	rmu     sync.Mutex
	keys    map[string]*verifh.KeyPair
	certs   map[string]*ssh.Certificate
	byBlob  map[string]string
	byHash  map[[32]byte]string
	classes map[string]string
	fx      *verifh.FlexAgent
	px      *verifh.Proxy
	srv     YubiAgent
	shim    *shimagent.Server
	dir     string
	upLn    net.Listener
	ln      net.Listener
	accCh   chan *zvdSrvSide
	conns   map[int]*zvdConn
	all     []*zvdSrvSide
	kinds   map[int]string
	now     int
	T       int64
	hasTick bool
	fv      []string
	wedged  bool
	late    bool // a pre-tick step ended too close to the lapse second: the instance is discarded
	qmu     sync.Mutex
	q       int64
	errs    []string
	hint    []string // identities seen at the last projection (biases the draw of arguments, nothing else)
}

func (in *zvdInst) rint(n int) int {
	in.rmu.Lock()
	defer in.rmu.Unlock()
	return in.rnd.Intn(n)
}

func (in *zvdInst) seq() int64 {
	in.qmu.Lock()
	defer in.qmu.Unlock()
	in.q++
	return in.q
}

func (in *zvdInst) fail(f string, a ...interface{}) {
	in.qmu.Lock()
	in.errs = append(in.errs, fmt.Sprintf(f, a...))
	in.qmu.Unlock()
}

// window picks concrete validity bounds for an abstract validity class (as the shim family does).
func (in *zvdInst) window(d zvdCertDef, forever bool, now0 int64) (va, vb uint64, class string) {
	r := in.rnd
	T := uint64(in.T)
	n := uint64(now0)
	switch {
	case d.V0 && d.V1:
		if forever {
			return 0, math.MaxUint64, "forever"
		}
		switch r.Intn(3) {
		case 0:
			return n - 3600, n + 86400, "current"
		case 1:
			return 0, n + 10*365*86400, "current-long"
		default:
			return n - 1 - uint64(r.Intn(100)), T + 3600, "current-short"
		}
	case d.V0 && !d.V1:
		if r.Intn(2) == 0 {
			return n - 3600, T, "lapsing"
		}
		return 0, T, "lapsing-from-zero"
	case !d.V0 && d.V1:
		if r.Intn(2) == 0 {
			return T + 1, T + 86400, "becoming-valid"
		}
		return T + 1, math.MaxUint64, "becoming-valid-forever"
	default:
		switch r.Intn(5) {
		case 0:
			return n - 7200, n - 3600, "past"
		case 1:
			return 0, 0, "zero"
		case 2:
			return n + 86400, n + 2*86400, "future"
		case 3:
			return 1, 2, "epoch-start"
		default:
			return n - 3, n - 2, "just-expired"
		}
	}
}

func zvdKeyKindFor(slot int) string {
	return verifh.KeyKinds[(int(verifh.Seed())+slot)%len(verifh.KeyKinds)]
}

func zvdSortedCerts(u *zvdUniverse) []string {
	cids := make([]string, 0, len(u.Certs))
	for c := range u.Certs {
		cids = append(cids, c)
	}
	sort.Strings(cids)
	return cids
}

// zvdNewInst builds a fresh daemon whose underlying agent holds the identities `under`.
// force: "key:<id>" -> key kind, "<cert>" -> "window/keyid class" are not re-forced (windows are relative to now); only key kinds are.
func zvdNewInst(u *zvdUniverse, under []string, fv []string, hasTick bool, rnd *mrand.Rand, force map[string]string) (ret *zvdInst, err error) {
	in := &zvdInst{u: u, rnd: rnd, keys: map[string]*verifh.KeyPair{}, certs: map[string]*ssh.Certificate{}, byBlob: map[string]string{},
		byHash: map[[32]byte]string{}, classes: map[string]string{}, conns: map[int]*zvdConn{}, kinds: map[int]string{}, fv: zvdSet(fv), hasTick: hasTick}
	now0 := time.Now().Unix()
	if hasTick {
		in.T = now0 + 6
	} else {
		in.T = now0 + 7200
	}
	all := append([]string{}, u.Keys...)
	for _, d := range u.Certs {
		found := false
		for _, k := range all {
			found = found || k == d.Key
		}
		if !found {
			all = append(all, d.Key)
		}
	}
	sort.Strings(all)
	for i, k := range all {
		kind := zvdKeyKindFor(i)
		if f, ok := force["key:"+k]; ok {
			kind = f
		}
		kp := verifh.PoolKey(i, kind)
		in.keys[k] = kp
		in.classes["key:"+k] = kind
		in.byBlob[string(kp.Pub.Marshal())] = k
	}
	fvset := map[string]bool{}
	for _, c := range in.fv {
		fvset[c] = true
	}
	for i, c := range zvdSortedCerts(u) {
		d := u.Certs[c]
		va, vb, class := in.window(d, fvset[c], now0)
		var kclass string
		if d.Yss {
			kclass = verifh.YssKeyIDs[rnd.Intn(len(verifh.YssKeyIDs))]
		} else {
			kclass = verifh.NonYssKeyIDs[rnd.Intn(len(verifh.NonYssKeyIDs))]
		}
		kid := verifh.KeyIDText(kclass, fmt.Sprintf("%010x", rnd.Int63n(1<<40)), rnd)
		crt := verifh.Mint(zvdCA.Signer, verifh.CertSpec{Key: in.keys[d.Key].Pub, KeyID: kid, ValidAfter: va, ValidBefore: vb,
			Principals: []string{"p" + c}, Serial: uint64(i + 1)})
		in.certs[c] = crt
		in.byBlob[string(crt.Marshal())] = c
		in.byHash[sha256.Sum256(crt.Marshal())] = c
		in.classes[c] = class + "/" + kclass
	}
	in.fx = verifh.NewFlexAgent()
	for _, id := range zvdSet(under) {
		if err := in.fx.Add(in.addedKey(id)); err != nil {
			return nil, err
		}
	}
	in.dir, err = os.MkdirTemp("", "vdm")
	if err != nil {
		return nil, err
	}
	defer func() {
		if err != nil {
			in.close()
		}
	}()
	if in.upLn, err = net.Listen("unix", in.dir+"/up.sock"); err != nil {
		return nil, err
	}
	in.px = verifh.NewProxyIdle(in.fx, mrand.New(mrand.NewSource(rnd.Int63())))
	in.px.Frag = rnd.Intn(2) == 0
	in.px.Rewrite = func(req, reply []byte) []byte {
		if len(req) > 0 && verifh.ReqKind(req[0]) == "raw" { // raw-forwarded requests are answered with an echo: a reply identifies its request
			return append([]byte{req[0] + 2}, req...)
		}
		return reply
	}
	go func() {
		c, err := in.upLn.Accept()
		if err == nil {
			in.px.Serve(c)
		}
	}()
	if in.srv, err = NewServer(in.dir+"/up.sock", true); err != nil {
		return nil, fmt.Errorf("NewServer failed on a healthy agent: %v", err)
	}
	s, ok := in.srv.(*server)
	if !ok {
		return nil, errors.New("NewServer did not return a *server")
	}
	if in.shim, ok = s.ShimAgent.(*shimagent.Server); !ok {
		return nil, errors.New("the server does not wrap a *shimagent.Server")
	}
	if in.ln, err = net.Listen("unix", in.dir+"/y.sock"); err != nil {
		return nil, err
	}
	in.accCh = make(chan *zvdSrvSide, 64)
	go func() {
		for {
			c, err := in.ln.Accept()
			if err != nil {
				return
			}
			sc := &zvdSrvSide{Conn: c}
			in.accCh <- sc
			go func() {
				var err error
				defer func() {
					r := recover()
					sc.mu.Lock()
					sc.returned = true
					if r != nil {
						sc.pan, sc.retErr = true, fmt.Sprint(r)
					} else if err != nil {
						sc.retErr = err.Error()
						// a panic contained by ServeAgent is reported as an error of that connection
					}
					sc.mu.Unlock()
					c.Close()
				}()
				err = ServeAgent(in.srv, sc)
			}()
		}
	}()
	return in, nil
}

func (in *zvdInst) addedKey(id string) agent.AddedKey {
	if c, ok := in.certs[id]; ok {
		return agent.AddedKey{PrivateKey: in.keys[in.u.Certs[id].Key].Priv, Certificate: c, Comment: "cmt-" + id}
	}
	return agent.AddedKey{PrivateKey: in.keys[id].Priv, Comment: "cmt-" + id}
}

func (in *zvdInst) pub(id string) ssh.PublicKey {
	if c, ok := in.certs[id]; ok {
		return c
	}
	if k, ok := in.keys[id]; ok {
		return k.Pub
	}
	panic("verif: harness error: unknown identity " + id)
}

func (in *zvdInst) idOf(blob []byte) string {
	if id, ok := in.byBlob[string(blob)]; ok {
		return id
	}
	n := len(blob)
	if n > 8 {
		n = 8
	}
	return "?" + hex.EncodeToString(blob[:n])
}

// connect opens connection id c (a new connection may re-use the id of a closed one).
func (in *zvdInst) connect(c int, kind string) error {
	nc, err := net.Dial("unix", in.dir+"/y.sock")
	if err != nil {
		return err
	}
	var sc *zvdSrvSide
	select {
	case sc = <-in.accCh:
	case <-time.After(zvdHangAfter):
		return errors.New("the daemon socket did not accept")
	}
	cn := &zvdConn{id: c, kind: kind, nc: nc, sc: sc, open: true, zombieW: -1}
	switch kind {
	case "yubi":
		if cn.ycl, err = NewClientFromConn(nc); err != nil {
			return err
		}
	case "std":
		cn.acl = agent.NewClient(nc)
	}
	in.conns[c] = cn
	in.all = append(in.all, sc)
	in.kinds[c] = kind
	return nil
}

func (in *zvdInst) close() {
	for _, cn := range in.conns {
		if cn.nc != nil {
			cn.nc.Close()
		}
	}
	if in.shim != nil {
		done := make(chan struct{})
		go func() {
			for b := 0; b < 256; b++ {
				in.shim.Broadcast(byte(b))
			}
			close(done)
		}()
		select {
		case <-done:
		case <-time.After(5 * time.Second):
		}
	}
	if in.ln != nil {
		in.ln.Close()
	}
	if in.srv != nil && !in.wedged {
		done := make(chan struct{})
		go func() {
			// Close refuses while the shim is locked: unlock first (teardown only, nothing is recorded any more)
			for _, p := range in.u.Pass {
				if in.srv.Unlock([]byte(p)) == nil {
					break
				}
			}
			in.srv.Close()
			close(done)
		}()
		select {
		case <-done:
		case <-time.After(5 * time.Second):
		}
	}
	if in.px != nil {
		in.px.Close()
	}
	if in.upLn != nil {
		in.upLn.Close()
	}
	if in.dir != "" {
		os.RemoveAll(in.dir)
	}
}

// ---------------------------------------------------------------------------------------------
// observation

// zvdShimPeek reads the in-memory certificate table and the lock flag off the real shim server (unexported fields of
// another package: by name, through reflection).
func zvdShimPeek(sh *shimagent.Server) (mem [][32]byte, locked bool, dead bool, err error) {
	defer func() {
		if r := recover(); r != nil {
			err = fmt.Errorf("cannot read the shim server's fields: %v", r)
		}
	}()
	v := reflect.ValueOf(sh).Elem()
	f := v.FieldByName("certs")
	if !f.IsValid() || f.Kind() != reflect.Map {
		return nil, false, false, errors.New("shimagent.Server has no map field certs")
	}
	f = reflect.NewAt(f.Type(), unsafe.Pointer(f.UnsafeAddr())).Elem()
	it := f.MapRange()
	for it.Next() {
		k := it.Key()
		if k.Kind() != reflect.Array || k.Len() != 32 {
			return nil, false, false, errors.New("certs is not keyed by a 32-byte array")
		}
		var h [32]byte
		for i := 0; i < 32; i++ {
			h[i] = byte(k.Index(i).Uint())
		}
		mem = append(mem, h)
	}
	lf := v.FieldByName("locked")
	if !lf.IsValid() || lf.Kind() != reflect.Bool {
		return nil, false, false, errors.New("shimagent.Server has no bool field locked")
	}
	locked = reflect.NewAt(lf.Type(), unsafe.Pointer(lf.UnsafeAddr())).Elem().Bool()
	// is the single upstream connection still open?  (a write of zero bytes puts nothing on the wire and fails on a closed one)
	if cf := v.FieldByName("conn"); cf.IsValid() && cf.Kind() == reflect.Interface {
		if w, ok := reflect.NewAt(cf.Type(), unsafe.Pointer(cf.UnsafeAddr())).Elem().Interface().(io.Writer); ok && w != nil {
			if _, werr := w.Write([]byte{}); werr != nil {
				dead = true
			}
		}
	}
	return mem, locked, dead, nil
}

// connStates reads the state of every connection off the handlers (only meaningful when settled).
func (in *zvdInst) connStates() []zvdKRec {
	ids := make([]int, 0, len(in.conns))
	for c := range in.conns {
		ids = append(ids, c)
	}
	sort.Ints(ids)
	out := []zvdKRec{}
	for _, c := range ids {
		cn := in.conns[c]
		st, head, _ := cn.sc.stage()
		r := zvdKRec{C: c, W: -1}
		isWait := st == "busy" && len(head) == 2 && head[0] == AgentMessageWait
		switch {
		case st == "returned":
			r.S = "closed"
			if cn.open {
				r.S = "srvclosed" // the handler ended the connection although the client did nothing wrong
			}
		case isWait && cn.open:
			r.S, r.W = "parked", int(head[1])
		case isWait && !cn.open:
			r.S, r.W = "zombie", int(head[1])
		case st == "idle" && cn.open:
			r.S = "idle"
		default:
			r.S = "busy"
		}
		out = append(out, r)
	}
	return out
}

// settle waits until nothing is in flight: every handler is idle, has returned, or is inside a request AND the
// number of goroutines on the notify lists equals the number of such handlers (so each of them is parked in Wait);
// every Wait call whose handler is no longer inside the request has returned to its client.
func (in *zvdInst) settle() (np int, ok bool) {
	deadline := time.Now().Add(zvdHangAfter)
	good := 0
	for {
		total, _, err := verifh.CondCounts(in.shim)
		if err != nil {
			in.fail("notify lists unreadable: %v", err)
			return 0, false
		}
		busy, quiet := 0, true
		for _, cn := range in.conns {
			st, _, _ := cn.sc.stage()
			if st == "busy" {
				busy++
			}
			if !cn.open && st == "idle" {
				quiet = false // the client is gone: the handler is about to see the end of the stream
			}
			if cn.wait != nil {
				select {
				case <-cn.wait.done:
					if st == "busy" {
						quiet = false
					}
				default:
					if st != "busy" && cn.open {
						quiet = false // released (or never parked): the call is about to return
					}
				}
			}
		}
		if quiet && busy == total {
			good++
			if good >= 2 {
				return total, true
			}
		} else {
			good = 0
		}
		if time.Now().After(deadline) {
			return total, false
		}
		time.Sleep(time.Duration(200+300*good) * time.Microsecond)
	}
}

func (in *zvdInst) project() zvdState {
	st := zvdState{Nu: false, N: in.now, Fv: in.fv, C: []string{}, Up: "none"}
	cands := append([]string{}, in.u.Pass...)
	err := in.fx.Unlock([]byte("\x00verif-probe"))
	if err != nil && err.Error() == "agent: not locked" {
		st.Ul = false
	} else {
		st.Ul, st.Up = true, "?"
		for _, p := range cands {
			if in.fx.Unlock([]byte(p)) == nil {
				st.Up = p
				break
			}
		}
	}
	if !st.Ul || st.Up != "?" {
		ks, _ := in.fx.List()
		for _, k := range ks {
			st.U = append(st.U, in.idOf(k.Blob))
		}
		if st.Ul {
			if err := in.fx.Lock([]byte(st.Up)); err != nil {
				panic(err)
			}
		}
	}
	mem, locked, dead, err := zvdShimPeek(in.shim)
	if err != nil {
		in.fail("%v", err)
	}
	for _, h := range mem {
		if id, ok := in.byHash[h]; ok {
			st.M = append(st.M, id)
		} else {
			st.M = append(st.M, "?"+hex.EncodeToString(h[:4]))
		}
	}
	st.L, st.D = locked, dead
	st.U, st.M = zvdSet(st.U), zvdSet(st.M)
	st.K = in.connStates()
	return st
}

func zvdBag(ids []string) (l1, l2 []string) {
	cnt := map[string]int{}
	for _, id := range ids {
		cnt[id]++
	}
	for id, n := range cnt {
		l1 = append(l1, id)
		if n >= 2 {
			l2 = append(l2, id)
		}
		if n >= 3 {
			l2 = append(l2, fmt.Sprintf("%dx:%s", n, id))
		}
	}
	return
}

func (in *zvdInst) signedBy(data []byte, sig *ssh.Signature) string {
	ids := make([]string, 0, len(in.keys))
	for id := range in.keys {
		ids = append(ids, id)
	}
	sort.Strings(ids)
	for _, id := range ids {
		if in.keys[id].Pub.Verify(data, sig) == nil {
			return id
		}
	}
	return "none"
}

func zvdIsClosedErr(err error) bool {
	if err == nil {
		return false
	}
	if err == io.EOF || err == io.ErrUnexpectedEOF || errors.Is(err, net.ErrClosed) {
		return true
	}
	s := err.Error()
	return strings.Contains(s, "connection reset") || strings.Contains(s, "broken pipe") || strings.Contains(s, "EOF") || strings.Contains(s, "closed")
}
