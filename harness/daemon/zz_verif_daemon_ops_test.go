//go:build verif

package yubiagent

// Operations of the daemon harness: request frames, execution through the three kinds of clients, one whole
// sequential step (operation + observation).

import (
	"bytes"
	"crypto/rand"
	"encoding/binary"
	"fmt"
	"net"
	"os"
	"sort"
	"time"

	"github.com/theparanoids/ysshra/verifh"
	"golang.org/x/crypto/ssh"
	"golang.org/x/crypto/ssh/agent"
)

var zvdExtHdr = []byte{27, 0, 0, 0, 7, 'v', 'e', 'r', 'i', 'f', '@', 'x'}

type zvdAddHardReq struct {
	KeyBlob []byte `sshtype:"31"`
	Comment string
}

// zvdCapture runs f against a client end whose peer only records the first frame written.
func zvdCapture(f func(c net.Conn)) []byte {
	c1, c2 := net.Pipe()
	go func() {
		defer func() { recover() }()
		f(c1)
	}()
	c2.SetDeadline(time.Now().Add(10 * time.Second))
	fr, err := verifh.ReadFrame(c2)
	c2.Close()
	c1.Close()
	if err != nil {
		panic("verif: harness error: cannot capture a request frame: " + err.Error())
	}
	return fr
}

// frame renders the request bytes of rq (aux = the data to be signed for a signing request).
func (in *zvdInst) frame(rq zvdRq) (req, aux []byte) {
	switch rq.Op {
	case "list":
		return []byte{11}, nil
	case "sign":
		data := make([]byte, 16+in.rint(48))
		rand.Read(data)
		return append([]byte{13}, ssh.Marshal(struct {
			KeyBlob []byte
			Data    []byte
			Flags   uint32
		}{in.pub(rq.Arg).Marshal(), data, 0})...), data
	case "add":
		ak := in.addedKeyFor(rq)
		return zvdCapture(func(c net.Conn) { agent.NewClient(c).Add(ak) }), nil
	case "remove":
		return ssh.Marshal(struct {
			KeyBlob []byte `sshtype:"18"`
		}{in.pub(rq.Arg).Marshal()}), nil
	case "removeall":
		return []byte{19}, nil
	case "lock":
		return ssh.Marshal(struct {
			P []byte `sshtype:"22"`
		}{[]byte(rq.Arg)}), nil
	case "unlock":
		return ssh.Marshal(struct {
			P []byte `sshtype:"23"`
		}{[]byte(rq.Arg)}), nil
	case "addhard":
		if rq.Enc == "old" {
			return append([]byte{AgentMessageAddHardCert}, in.pub(rq.Arg).Marshal()...), nil
		}
		return ssh.Marshal(zvdAddHardReq{KeyBlob: in.pub(rq.Arg).Marshal(), Comment: []string{"", "sfx", "my card"}[in.rint(3)]}), nil
	case "listslots":
		return []byte{AgentMessageListSlots}, nil
	case "wait":
		return []byte{AgentMessageWait, byte(rq.Code)}, nil
	case "forward":
		sz := 4 + in.rint(200)
		if in.rint(10) == 0 {
			sz = 1000 + in.rint(5000)
		}
		pad := make([]byte, sz)
		rand.Read(pad)
		if rq.Code == 27 {
			return append(append([]byte{}, zvdExtHdr...), pad...), nil
		}
		return append([]byte{byte(rq.Code)}, pad...), nil
	case "badreq":
		g := make([]byte, in.rint(12))
		rand.Read(g)
		return append([]byte{byte(rq.Code), 0xff, 0xff, 0xff, 0xff}, g...), nil
	}
	panic("verif: harness error: no frame for op " + rq.Op)
}

func (in *zvdInst) addedKeyFor(rq zvdRq) agent.AddedKey {
	ak := in.addedKey(rq.Arg)
	if rq.Code == 25 {
		ak.LifetimeSecs = 7200 + uint32(in.rint(1000))
	}
	return ak
}

// junkBytes renders what a confused or dying client writes (raw bytes, length prefixes included).
func (in *zvdInst) junkBytes(rq zvdRq) []byte {
	fr := func(b []byte) []byte {
		o := make([]byte, 4+len(b))
		binary.BigEndian.PutUint32(o, uint32(len(b)))
		copy(o[4:], b)
		return o
	}
	switch rq.Arg {
	case "ahc":
		switch in.rint(3) {
		case 0:
			return fr([]byte{AgentMessageAddHardCert})
		case 1:
			g := make([]byte, 1+in.rint(20))
			rand.Read(g)
			return fr(append([]byte{AgentMessageAddHardCert, 0xff, 0xff, 0xff}, g...))
		default: // the newer encoding, with a key blob that is no public key
			g := make([]byte, 5+in.rint(30))
			rand.Read(g)
			g[0], g[1], g[2], g[3] = 0xff, 0xff, 0xff, 0xff
			return fr(ssh.Marshal(zvdAddHardReq{KeyBlob: g, Comment: "x"}))
		}
	case "w35":
		return fr([]byte{AgentMessageWait})
	case "c25":
		// add-identity-constrained whose lifetime constraint is cut short (x/crypto's parser indexes past the end)
		ids := append([]string{}, in.u.Keys...)
		ak := in.addedKey(ids[in.rint(len(ids))])
		ak.LifetimeSecs = 3600
		full := zvdCapture(func(c net.Conn) { agent.NewClient(c).Add(ak) })
		return fr(full[:len(full)-1-in.rint(3)])
	case "empty":
		return []byte{0, 0, 0, 0}
	case "oversize":
		o := make([]byte, 4+in.rint(6))
		rand.Read(o)
		binary.BigEndian.PutUint32(o, uint32(16<<20+1+in.rint(1<<20)))
		return o
	case "midframe":
		l := 2 + in.rint(40)
		o := make([]byte, 4+1+in.rint(l-1))
		rand.Read(o)
		binary.BigEndian.PutUint32(o, uint32(l))
		o[4] = byte(rq.Code)
		return o
	case "midhdr":
		return make([]byte, 1+in.rint(3))
	}
	panic("verif: harness error: unknown junk class " + rq.Arg)
}

// parse turns the reply frame of a raw exchange into the abstract result.
func (in *zvdInst) parse(rq zvdRq, req, aux, reply []byte) zvdRes {
	fail := len(reply) == 1 && reply[0] == 5
	succ := len(reply) == 1 && reply[0] == 6
	bad := zvdRes{Ok: true, By: "badreply"}
	switch rq.Op {
	case "list":
		if fail {
			return zvdRes{}
		}
		if len(reply) < 5 || reply[0] != 12 {
			return bad
		}
		n := int(binary.BigEndian.Uint32(reply[1:5]))
		rest := reply[5:]
		var ids []string
		for i := 0; i < n; i++ {
			var rec struct {
				Blob    []byte
				Comment string
				Rest    []byte `ssh:"rest"`
			}
			if err := ssh.Unmarshal(rest, &rec); err != nil {
				return bad
			}
			ids = append(ids, in.idOf(rec.Blob))
			rest = rec.Rest
		}
		if len(rest) != 0 {
			return bad
		}
		l1, l2 := zvdBag(ids)
		return zvdRes{Ok: true, L1: l1, L2: l2}
	case "sign":
		if fail {
			return zvdRes{}
		}
		var m struct {
			Sig []byte `sshtype:"14"`
		}
		var sig ssh.Signature
		if ssh.Unmarshal(reply, &m) != nil || ssh.Unmarshal(m.Sig, &sig) != nil {
			return bad
		}
		return zvdRes{Ok: true, By: in.signedBy(aux, &sig)}
	case "add", "remove", "removeall", "lock", "unlock":
		if succ {
			return zvdRes{Ok: true}
		}
		if fail {
			return zvdRes{}
		}
		return bad
	case "addhard", "wait":
		return zvdRes{Ok: string(reply) == "SUCCESS"}
	case "listslots":
		var m struct {
			Slots []string
			Err   string
		}
		if ssh.Unmarshal(reply, &m) != nil {
			return bad
		}
		return zvdRes{Ok: m.Err == ""}
	case "forward":
		if len(reply) == 1+len(req) && reply[0] == req[0]+2 && bytes.Equal(reply[1:], req) {
			return zvdRes{Ok: true, By: "relayed"}
		}
		return zvdRes{Ok: true, By: "altered"}
	case "badreq":
		if fail {
			return zvdRes{}
		}
		return zvdRes{Ok: true, By: "reply"}
	}
	return bad
}

func zvdErrRes(err error) zvdRes {
	if zvdIsClosedErr(err) {
		return zvdRes{By: "closed"}
	}
	return zvdRes{}
}

// raw performs one request / reply exchange with hand-made frames on the connection.
func (in *zvdInst) raw(cn *zvdConn, rq zvdRq) zvdRes {
	req, aux := in.frame(rq)
	var reply []byte
	var err error
	if cn.kind == "yubi" {
		reply, err = cn.ycl.Forward(req) // the real client's write-then-read under its connection lock
	} else {
		if err = verifh.WriteFrame(cn.nc, req); err == nil {
			reply, err = verifh.ReadFrame(cn.nc)
		}
	}
	if err != nil {
		return zvdErrRes(err)
	}
	return in.parse(rq, req, aux, reply)
}

// call executes rq on the connection with the client the connection is made of and returns what that client saw.
func (in *zvdInst) call(cn *zvdConn, rq zvdRq) (res zvdRes) {
	defer func() {
		if r := recover(); r != nil {
			res = zvdRes{Pan: true}
			fmt.Fprintf(os.Stderr, "verif: PANIC in client call %s(%s): %v\n", rq.Op, rq.Arg, r)
		}
		res = res.norm()
	}()
	var ag agent.ExtendedAgent
	switch cn.kind {
	case "yubi":
		ag = cn.ycl
	case "std":
		ag = cn.acl
	default:
		return in.raw(cn, rq)
	}
	okIf := func(err error) zvdRes {
		if err == nil {
			return zvdRes{Ok: true}
		}
		return zvdErrRes(err)
	}
	switch rq.Op {
	case "list":
		ks, err := ag.List()
		if err != nil {
			return zvdErrRes(err)
		}
		var ids []string
		for _, k := range ks {
			ids = append(ids, in.idOf(k.Blob))
		}
		l1, l2 := zvdBag(ids)
		return zvdRes{Ok: true, L1: l1, L2: l2}
	case "sign":
		data := make([]byte, 16+in.rint(48))
		rand.Read(data)
		var sig *ssh.Signature
		var err error
		if in.rint(2) == 0 {
			sig, err = ag.Sign(in.pub(rq.Arg), data)
		} else {
			sig, err = ag.SignWithFlags(in.pub(rq.Arg), data, 0)
		}
		if err != nil {
			return zvdErrRes(err)
		}
		return zvdRes{Ok: true, By: in.signedBy(data, sig)}
	case "add":
		return okIf(ag.Add(in.addedKeyFor(rq)))
	case "remove":
		return okIf(ag.Remove(in.pub(rq.Arg)))
	case "removeall":
		return okIf(ag.RemoveAll())
	case "lock":
		return okIf(ag.Lock([]byte(rq.Arg)))
	case "unlock":
		return okIf(ag.Unlock([]byte(rq.Arg)))
	}
	if cn.kind == "yubi" {
		switch rq.Op {
		case "addhard":
			if rq.Enc != "old" {
				return okIf(cn.ycl.AddHardCert(in.pub(rq.Arg), []string{"", "sfx"}[in.rint(2)]))
			}
		case "listslots":
			_, err := cn.ycl.ListSlots()
			return okIf(err)
		case "wait":
			return okIf(cn.ycl.Wait(byte(rq.Code)))
		}
	}
	return in.raw(cn, rq)
}

// junk writes what the class says and observes how the connection ends.
func (in *zvdInst) junk(cn *zvdConn, rq zvdRq) zvdRes {
	b := in.junkBytes(rq)
	cn.nc.SetDeadline(time.Now().Add(zvdHangAfter))
	if len(b) > 3 && in.rint(3) == 0 { // in two segments, as a stream socket may deliver it
		k := 1 + in.rint(len(b)-1)
		cn.nc.Write(b[:k])
		time.Sleep(time.Millisecond)
		cn.nc.Write(b[k:])
	} else {
		cn.nc.Write(b)
	}
	res := zvdRes{By: "closed"}
	if rq.Arg != "midframe" && rq.Arg != "midhdr" {
		if fr, err := verifh.ReadFrame(cn.nc); err == nil {
			res = zvdRes{Ok: true, By: fmt.Sprintf("reply:%d", len(fr))}
		} else if ne, ok := err.(net.Error); ok && ne.Timeout() {
			res = zvdRes{By: "hang"}
		}
	}
	cn.nc.Close()
	cn.open = false
	return res.norm()
}

func (in *zvdInst) replyCounts() map[*zvdSrvSide]int {
	m := map[*zvdSrvSide]int{}
	for _, cn := range in.conns {
		_, _, n := cn.sc.stage()
		m[cn.sc] = n
	}
	return m
}

// step performs one whole sequential operation (k = "op" | "drop" | "reopen" | "tick") and observes the outcome.
func (in *zvdInst) step(k string, c int, rq zvdRq) (zvdEv, zvdState) {
	ev := zvdEv{K: k, C: c, Rq: rq, Rel: []int{}, Wr: [][2]int{}, Res: zvdRes{Ok: true}.norm()}
	before := in.replyCounts()
	cn := in.conns[c]
	switch k {
	case "tick":
		for time.Now().Unix() < in.T+2 {
			time.Sleep(50 * time.Millisecond)
		}
		in.now = 1
	case "drop":
		cn.nc.Close()
		cn.open = false
		if cn.wait != nil {
			select {
			case <-cn.wait.done:
			case <-time.After(zvdHangAfter):
				ev.Res.By = "hang"
			}
			cn.wait = nil
		}
	case "reopen":
		kinds := []string{"yubi", "std", "pipe"}
		if err := in.connect(c, kinds[in.rint(3)]); err != nil {
			in.fail("reopen: %v", err)
		}
		cn = in.conns[c]
	case "op":
		switch {
		case rq.Op == "junk":
			ev.Res = in.junk(cn, rq)
		case rq.Op == "wait":
			wc := &zvdWaitCall{code: rq.Code, done: make(chan struct{})}
			cn.wait = wc
			go func() {
				r := in.call(cn, rq)
				wc.ok, wc.err = r.Ok, r.By
				if r.Pan {
					wc.err = "panic"
				}
				close(wc.done)
			}()
		default:
			ch := make(chan zvdRes, 1)
			go func() { ch <- in.call(cn, rq) }()
			select {
			case ev.Res = <-ch:
			case <-time.After(zvdHangAfter):
				ev.Res = zvdRes{By: "hang"}.norm()
				in.wedged = true
				fmt.Fprintf(os.Stderr, "verif: %s(%s) on connection %d did not return within %v\n", rq.Op, rq.Arg, c, zvdHangAfter)
			}
		}
	}
	np, ok := in.settle()
	ev.Np = np
	if !ok {
		in.wedged = true
		if ev.Res.By == "" || ev.Res.By == "parked" {
			ev.Res.By = "hang"
		}
	}
	// Wait calls that returned in this step
	ids := make([]int, 0, len(in.conns))
	for id := range in.conns {
		ids = append(ids, id)
	}
	sort.Ints(ids)
	for _, id := range ids {
		x := in.conns[id]
		if x.wait == nil {
			continue
		}
		select {
		case <-x.wait.done:
			if id == c && k == "op" && rq.Op == "wait" {
				ev.Res = zvdRes{Ok: x.wait.ok, By: ""}.norm()
				if !x.wait.ok {
					ev.Res.By = x.wait.err
				}
			} else if x.wait.ok {
				ev.Rel = append(ev.Rel, id)
			}
			x.wait = nil
		default:
			if id == c && k == "op" && rq.Op == "wait" && ok {
				ev.Res = zvdRes{Ok: true, By: "parked"}.norm()
			}
		}
	}
	for _, id := range ids {
		x := in.conns[id]
		_, _, n := x.sc.stage()
		if d := n - before[x.sc]; d > 0 {
			ev.Wr = append(ev.Wr, [2]int{id, d})
		}
	}
	// a handler that ended a connection whose client did nothing wrong: the client notices at its next request;
	// record the connection as closed from here on
	post := in.project()
	for i, r := range post.K {
		if r.S == "srvclosed" {
			in.conns[r.C].nc.Close()
			in.conns[r.C].open = false
			post.K[i].S = "closed"
		}
	}
	if in.hasTick && in.now == 0 && time.Now().Unix() >= in.T {
		in.late = true
	}
	return ev, post
}
