//go:build verif

package yubiagent

// Test entry of the daemon harness: planned walks (direction A), seeded random sequential histories (direction B),
// concurrent batches (zz_verif_daemon_conc_test.go), replays.

import (
	"encoding/json"
	"fmt"
	mrand "math/rand"
	"os"
	"sort"
	"sync"
	"sync/atomic"
	"syscall"
	"testing"

	"github.com/theparanoids/ysshra/verifh"
)

type zvdLab struct {
	K  string `json:"k"`
	C  int    `json:"c"`
	Rq zvdRq  `json:"rq"`
}

type zvdWalk struct {
	Init  int   `json:"init"`
	Steps []int `json:"steps"`
}

type zvdRandomCfg struct {
	N        int         `json:"n"`
	MinLen   int         `json:"minlen"`
	MaxLen   int         `json:"maxlen"`
	MaxConns int         `json:"maxconns"`
	Universe zvdUniverse `json:"universe"`
}

type zvdConcCfg struct {
	N        int         `json:"n"`
	Rounds   int         `json:"rounds"`
	MaxOps   int         `json:"maxops"`
	MaxConns int         `json:"maxconns"`
	Universe zvdUniverse `json:"universe"`
}

// zvdInfo travels with every recorded trace / batch: everything needed to execute it again.
type zvdInfo struct {
	Universe zvdUniverse       `json:"universe"`
	Under    []string          `json:"under"`
	Fv       []string          `json:"fv"`
	Conns    int               `json:"conns"`
	Kinds    map[string]string `json:"kinds"`   // connection id -> kind of client
	Classes  map[string]string `json:"classes"` // concrete classes of keys and certificates
	Steps    []zvdLab          `json:"steps,omitempty"`
	Rounds   [][]zvdPlanOp     `json:"rounds,omitempty"`
	Seed     int64             `json:"seed"`
}

type zvdPlan struct {
	Universe zvdUniverse   `json:"universe"`
	Conns    int           `json:"conns"`
	States   []zvdState    `json:"states"`
	Labels   []zvdLab      `json:"labels"`
	Walks    []zvdWalk     `json:"walks"`
	Random   *zvdRandomCfg `json:"random"`
	Conc     *zvdConcCfg   `json:"conc"`
	Replays  []zvdInfo     `json:"replays"`
	Par      int           `json:"par"`
}

type zvdStats struct {
	walks, steps, discarded, wedged, randomTraces, randomSteps, batches, batchOps, errors int64
	mu                                                                                     sync.Mutex
	errText                                                                                []string
	ops                                                                                    map[string]int
}

func (st *zvdStats) err(s string) {
	st.mu.Lock()
	if len(st.errText) < 5 {
		st.errText = append(st.errText, s)
	}
	st.mu.Unlock()
	atomic.AddInt64(&st.errors, 1)
}

func (st *zvdStats) count(op string) {
	st.mu.Lock()
	st.ops[op]++
	st.mu.Unlock()
}

var zvdKinds = []string{"yubi", "std", "pipe"}

func zvdPickKinds(n int, rnd *mrand.Rand, force map[string]string) map[int]string {
	m := map[int]string{}
	for c := 1; c <= n; c++ {
		m[c] = zvdKinds[rnd.Intn(3)]
		if c == 1 && force == nil {
			m[c] = "yubi" // at least one real yubiagent client per instance
		}
		if k, ok := force[fmt.Sprint(c)]; ok {
			m[c] = k
		}
	}
	return m
}

func zvdInfoOf(in *zvdInst, under []string, n int, steps []zvdLab) zvdInfo {
	kinds := map[string]string{}
	for c, k := range in.kinds {
		kinds[fmt.Sprint(c)] = k
	}
	return zvdInfo{Universe: *in.u, Under: zvdSet(under), Fv: in.fv, Conns: n, Kinds: kinds, Classes: in.classes, Steps: steps, Seed: verifh.Seed()}
}

// applicable: can the harness execute this step at all in the situation it is in?
func (in *zvdInst) applicable(l zvdLab) bool {
	if l.K == "tick" {
		return in.now == 0
	}
	cn := in.conns[l.C]
	if cn == nil {
		return false
	}
	switch l.K {
	case "op":
		return cn.open && cn.wait == nil
	case "drop":
		return cn.open
	case "reopen":
		st, _, _ := cn.sc.stage()
		return !cn.open && st == "returned" // a handler still parked for the departed client keeps the id taken
	}
	return false
}

// zvdRunSteps executes a planned sequence of whole operations on a fresh daemon and records every step.
func zvdRunSteps(tid string, u *zvdUniverse, under, fv []string, nconns int, steps []zvdLab, rnd *mrand.Rand, forceKinds, forceClasses map[string]string,
	sem chan struct{}, st *zvdStats) []interface{} {
	hasTick := false
	for _, s := range steps {
		hasTick = hasTick || s.K == "tick"
	}
	in, err := zvdNewInst(u, under, fv, hasTick, rnd, forceClasses)
	if err != nil {
		st.err("instance: " + err.Error())
		return nil
	}
	defer in.close()
	for c, k := range zvdPickKinds(nconns, rnd, forceKinds) {
		if err := in.connect(c, k); err != nil {
			st.err("connect: " + err.Error())
			return nil
		}
	}
	in.settle()
	post := in.project()
	recs := []interface{}{zvdRec{Ev: "reset", Tid: tid, Post: post, Info: zvdInfoOf(in, under, nconns, steps)}}
	for i, l := range steps {
		if !in.applicable(l) {
			break // an earlier deviation left the daemon somewhere the plan does not continue from
		}
		if l.K == "tick" {
			<-sem // waiting for the clock holds no worker slot
		}
		pre := post
		var ev zvdEv
		ev, post = in.step(l.K, l.C, l.Rq)
		if l.K == "tick" {
			sem <- struct{}{}
		}
		if in.late {
			atomic.AddInt64(&st.discarded, 1)
			return nil
		}
		p := pre
		recs = append(recs, zvdRec{Ev: "step", Tid: tid, I: i, Pre: &p, E: &ev, Post: post})
		st.count(l.Rq.Op + "/" + l.K)
		if in.wedged {
			atomic.AddInt64(&st.wedged, 1)
			break
		}
	}
	for _, e := range in.errs {
		st.err(e)
	}
	return recs
}

var zvdWaitCodes = []int{11, 13, 35, 200, 11, 13, 35, 31, 17, 18, 22, 27, 0, 39, 40, 255}

// zvdRandomOp draws a request for an idle connection.
func zvdRandomOp(u *zvdUniverse, r *mrand.Rand, junkOK bool) zvdRq {
	return zvdRandomOpHint(u, r, junkOK, nil)
}

// hint: identities believed to be held at the moment (the driver's own earlier observation); half of the draws that
// name an identity prefer them, so that signing / removal / hardware certificates meet something.  Never used to judge.
func zvdRandomOpHint(u *zvdUniverse, r *mrand.Rand, junkOK bool, hint []string) zvdRq {
	ids := append(append([]string{}, u.Keys...), zvdSortedCerts(u)...)
	certs := zvdSortedCerts(u)
	held := map[string]bool{}
	for _, h := range hint {
		held[h] = true
	}
	if hint == nil { // no observation: plain keys are usually there
		for _, k := range u.Keys {
			held[k] = true
		}
	}
	pick := func(xs []string) string {
		if r.Intn(2) == 0 {
			var pref []string
			for _, x := range xs {
				if d, isCert := u.Certs[x]; held[x] || (isCert && held[d.Key]) {
					pref = append(pref, x)
				}
			}
			if len(pref) > 0 {
				return pref[r.Intn(len(pref))]
			}
		}
		return xs[r.Intn(len(xs))]
	}
	x := r.Intn(100)
	switch {
	case x < 14:
		return zvdRq{Op: "list", Code: 11}
	case x < 26:
		return zvdRq{Op: "sign", Arg: pick(ids), Code: 13}
	case x < 36:
		return zvdRq{Op: "add", Arg: ids[r.Intn(len(ids))], Code: []int{17, 25}[r.Intn(2)]}
	case x < 44:
		return zvdRq{Op: "remove", Arg: pick(ids), Code: 18}
	case x < 45:
		return zvdRq{Op: "removeall", Code: 19}
	case x < 50:
		return zvdRq{Op: "lock", Arg: pick(u.Pass), Code: 22}
	case x < 57:
		return zvdRq{Op: "unlock", Arg: pick(u.Pass), Code: 23}
	case x < 70:
		a := pick(certs)
		if r.Intn(8) == 0 {
			a = pick(u.Keys) // a plain key offered as hardware certificate
		}
		return zvdRq{Op: "addhard", Arg: a, Code: 31, Enc: []string{"new", "old"}[r.Intn(2)]}
	case x < 72:
		return zvdRq{Op: "listslots", Code: 32}
	case x < 83:
		return zvdRq{Op: "wait", Code: zvdWaitCodes[r.Intn(len(zvdWaitCodes))]}
	case x < 89:
		return zvdRq{Op: "forward", Arg: "ext", Code: []int{200, 27, 9, 240}[r.Intn(4)]}
	case x < 92:
		return zvdRq{Op: "badreq", Code: []int{13, 18, 22, 23, 17}[r.Intn(5)]}
	}
	if !junkOK {
		return zvdRq{Op: "list", Code: 11}
	}
	switch r.Intn(7) {
	case 0:
		return zvdRq{Op: "junk", Arg: "ahc", Code: 31}
	case 1:
		return zvdRq{Op: "junk", Arg: "w35", Code: 35}
	case 2:
		return zvdRq{Op: "junk", Arg: "c25", Code: 25}
	case 3:
		return zvdRq{Op: "junk", Arg: "empty", Code: -1}
	case 4:
		return zvdRq{Op: "junk", Arg: "oversize", Code: -1}
	case 5:
		return zvdRq{Op: "junk", Arg: "midframe", Code: []int{11, 13, 35, 31}[r.Intn(4)]}
	}
	return zvdRq{Op: "junk", Arg: "midhdr", Code: -1}
}

// zvdRandomUnder: most keys present, a few certificates loaded as agent identities.
func zvdRandomUnder(u *zvdUniverse, r *mrand.Rand) []string {
	var out []string
	for _, k := range u.Keys {
		if r.Intn(5) != 0 {
			out = append(out, k)
		}
	}
	for _, c := range zvdSortedCerts(u) {
		if r.Intn(6) == 0 {
			out = append(out, c)
		}
	}
	return out
}

// zvdRandomSteps plans a random sequential history (the plan depends only on the seed: which connections are
// open / blocked is tracked symbolically from the requests themselves).
func zvdRandomSteps(cfg *zvdRandomCfg, r *mrand.Rand) (nconns int, steps []zvdLab) {
	nconns = 2 + r.Intn(cfg.MaxConns-1)
	n := cfg.MinLen + r.Intn(cfg.MaxLen-cfg.MinLen+1)
	open := map[int]bool{}
	waiting := map[int]int{} // connection -> code (only codes that park: < 40)
	zombie := map[int]int{}  // departed client whose handler is still parked -> code
	for c := 1; c <= nconns; c++ {
		open[c] = true
	}
	tickAt := -1
	if r.Intn(5) < 2 {
		tickAt = 3 + r.Intn(25)
	}
	for tries := 0; len(steps) < n && tries < 20*n; tries++ {
		if len(steps) == tickAt {
			steps = append(steps, zvdLab{K: "tick", Rq: zvdNoRq})
			continue
		}
		c := 1 + r.Intn(nconns)
		_, parked := waiting[c]
		switch {
		case !open[c]:
			if _, z := zombie[c]; !z && r.Intn(2) == 0 {
				steps = append(steps, zvdLab{K: "reopen", C: c, Rq: zvdNoRq})
				open[c] = true
			}
		case parked:
			if r.Intn(6) == 0 {
				steps = append(steps, zvdLab{K: "drop", C: c, Rq: zvdNoRq})
				open[c] = false
				zombie[c] = waiting[c]
				delete(waiting, c)
			}
		case r.Intn(40) == 0:
			steps = append(steps, zvdLab{K: "drop", C: c, Rq: zvdNoRq})
			open[c] = false
		default:
			rq := zvdRandomOp(&cfg.Universe, r, true)
			steps = append(steps, zvdLab{K: "op", C: c, Rq: rq})
			// who this request releases (first byte), as far as the plan must know to keep going
			fb := rq.Code
			switch rq.Op {
			case "list":
				fb = 11
			case "sign":
				fb = 13
			case "remove":
				fb = 18
			case "removeall":
				fb = 19
			case "lock":
				fb = 22
			case "unlock":
				fb = 23
			case "addhard":
				fb = 31
			case "listslots":
				fb = 32
			case "wait":
				fb = 35
			case "junk":
				if rq.Arg != "ahc" && rq.Arg != "w35" && rq.Arg != "c25" {
					fb = -1
				}
			}
			for w, code := range waiting {
				if code == fb {
					delete(waiting, w)
				}
			}
			for w, code := range zombie {
				if code == fb {
					delete(zombie, w)
				}
			}
			if rq.Op == "wait" && rq.Code < 40 {
				waiting[c] = rq.Code
			}
			if rq.Op == "junk" {
				open[c] = false
			}
		}
	}
	return nconns, steps
}

func TestVerifDaemon(t *testing.T) {
	planPath, outPath := os.Getenv("VERIF_PLAN"), os.Getenv("VERIF_OUT")
	if planPath == "" || outPath == "" {
		t.Skip("VERIF_PLAN / VERIF_OUT not set")
	}
	var plan zvdPlan
	b, err := os.ReadFile(planPath)
	if err != nil {
		t.Fatal(err)
	}
	if err := json.Unmarshal(b, &plan); err != nil {
		t.Fatal(err)
	}
	tr, err := verifh.OpenTrace(outPath)
	if err != nil {
		t.Fatal(err)
	}
	var btr *verifh.Trace
	if bp := os.Getenv("VERIF_OUT_BATCH"); bp != "" {
		if btr, err = verifh.OpenTrace(bp); err != nil {
			t.Fatal(err)
		}
	}
	par := plan.Par
	if par <= 0 {
		par = 6
	}
	st := &zvdStats{ops: map[string]int{}}
	sem := make(chan struct{}, par)
	// instances waiting for the clock hold no worker slot but do hold their sockets: bound the instances alive at once
	maxLive := 900
	var rl syscall.Rlimit
	if syscall.Getrlimit(syscall.RLIMIT_NOFILE, &rl) == nil && int(rl.Cur) > 0 && (int(rl.Cur)-200)/16 < maxLive {
		maxLive = (int(rl.Cur) - 200) / 16
	}
	if maxLive < par {
		maxLive = par
	}
	live := make(chan struct{}, maxLive)
	var wg sync.WaitGroup
	var skipped int64
	run := func(f func()) {
		// once a dozen instances have got stuck (each costs a 25 s watchdog) the evidence is in: launch nothing more
		if atomic.LoadInt64(&st.wedged) >= 12 {
			atomic.AddInt64(&skipped, 1)
			return
		}
		wg.Add(1)
		live <- struct{}{}
		sem <- struct{}{}
		go func() {
			defer wg.Done()
			defer func() { <-live }()
			defer func() { <-sem }()
			f()
		}()
	}
	// direction A: walks through the exported transition system
	order := make([]int, len(plan.Walks))
	for i := range order {
		order[i] = i
	}
	// walks with a tick first: they wait for the clock while the others run
	sort.SliceStable(order, func(x, y int) bool {
		tx, ty := false, false
		for _, s := range plan.Walks[order[x]].Steps {
			tx = tx || plan.Labels[s].K == "tick"
		}
		for _, s := range plan.Walks[order[y]].Steps {
			ty = ty || plan.Labels[s].K == "tick"
		}
		return tx && !ty
	})
	for _, wi := range order {
		wi := wi
		w := plan.Walks[wi]
		run(func() {
			steps := make([]zvdLab, len(w.Steps))
			for i, s := range w.Steps {
				steps[i] = plan.Labels[s]
			}
			init := plan.States[w.Init]
			recs := zvdRunSteps(fmt.Sprintf("w%d", wi), &plan.Universe, init.U, init.Fv, plan.Conns, steps, verifh.NewRand("dmn-walk", int64(wi)), nil, nil, sem, st)
			if recs != nil {
				tr.EmitAll(recs)
				atomic.AddInt64(&st.walks, 1)
				atomic.AddInt64(&st.steps, int64(len(recs)-1))
			}
		})
	}
	// direction B: random sequential histories
	if plan.Random != nil {
		for ti := 0; ti < plan.Random.N; ti++ {
			ti := ti
			run(func() {
				r := verifh.NewRand("dmn-random", int64(ti))
				n, steps := zvdRandomSteps(plan.Random, r)
				under := zvdRandomUnder(&plan.Random.Universe, r)
				recs := zvdRunSteps(fmt.Sprintf("r%d", ti), &plan.Random.Universe, under, nil, n, steps, r, nil, nil, sem, st)
				if recs != nil {
					tr.EmitAll(recs)
					atomic.AddInt64(&st.randomTraces, 1)
					atomic.AddInt64(&st.randomSteps, int64(len(recs)-1))
				}
			})
		}
	}
	// concurrent batches
	if plan.Conc != nil && btr != nil {
		for ci := 0; ci < plan.Conc.N; ci++ {
			ci := ci
			run(func() { zvdConcInstance(fmt.Sprintf("c%d", ci), plan.Conc, verifh.NewRand("dmn-conc", int64(ci)), nil, btr, st) })
		}
	}
	// replays of recorded traces / batches
	for ri, rp := range plan.Replays {
		ri, rp := ri, rp
		run(func() {
			r := verifh.NewRand("dmn-replay", int64(ri))
			if len(rp.Rounds) > 0 {
				if btr != nil {
					cfg := &zvdConcCfg{Universe: rp.Universe, MaxConns: rp.Conns}
					zvdConcInstance(fmt.Sprintf("p%d", ri), cfg, r, &rp, btr, st)
				}
				return
			}
			recs := zvdRunSteps(fmt.Sprintf("p%d", ri), &rp.Universe, rp.Under, rp.Fv, rp.Conns, rp.Steps, r, rp.Kinds, rp.Classes, sem, st)
			if recs != nil {
				tr.EmitAll(recs)
				atomic.AddInt64(&st.walks, 1)
				atomic.AddInt64(&st.steps, int64(len(recs)-1))
			}
		})
	}
	wg.Wait()
	if err := tr.Close(); err != nil {
		t.Fatal(err)
	}
	if btr != nil {
		if err := btr.Close(); err != nil {
			t.Fatal(err)
		}
	}
	sum := map[string]interface{}{"walks": st.walks, "steps": st.steps, "discarded": st.discarded, "wedged": st.wedged, "random_traces": st.randomTraces,
		"random_steps": st.randomSteps, "batches": st.batches, "batch_ops": st.batchOps, "errors": st.errors, "error_text": st.errText, "ops": st.ops, "skipped": skipped}
	sb, _ := json.Marshal(sum)
	fmt.Printf("VERIF-SUMMARY %s\n", sb)
}
