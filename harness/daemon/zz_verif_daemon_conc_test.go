//go:build verif

package yubiagent

// Concurrent phases of the daemon harness: several connections issue requests at the same time.  Every operation
// carries global sequence numbers taken under one mutex before its request is written and after its reply is read;
// the projected state before and after the batch is recorded; TLC searches the linearisation (TraceDaemonLin.tla).

import (
	"fmt"
	mrand "math/rand"
	"os"
	"sort"
	"sync"
	"sync/atomic"
	"time"

	"github.com/theparanoids/ysshra/verifh"
)

// zvdPlanOp: one planned operation of a round.  Mode: "rr" the connection's client, one request at a time;
// "pipe" raw frames written back to back, replies read in order; "leave" raw frames written back to back, then the
// writer closes without reading; "reopen" (before the round starts) a new connection takes the id.
type zvdPlanOp struct {
	C    int    `json:"c"`
	Rq   zvdRq  `json:"r"`
	Mode string `json:"mode"`
}

type zvdBatchOp struct {
	C   int    `json:"c"`
	N   int    `json:"n"`
	Sq  int64  `json:"sq"`
	Rs  int64  `json:"rq"`
	R   zvdRq  `json:"r"`
	Res zvdRes `json:"res"`
	Opt bool   `json:"opt"`
}

type zvdBatch struct {
	Ev    string       `json:"ev"`
	Bid   string       `json:"bid"`
	Init  zvdState     `json:"init"`
	Ops   []zvdBatchOp `json:"ops"`
	Final zvdState     `json:"final"`
	Hang  bool         `json:"hang"`
	Info  zvdInfo      `json:"info"`
}

func zvdParks(rq zvdRq) bool { return rq.Op == "wait" && rq.Code >= 0 && rq.Code < 40 }

// zvdPlanRound draws the operations of one round from what the harness knows about its connections.
func zvdPlanRound(in *zvdInst, cfg *zvdConcCfg, r *mrand.Rand) []zvdPlanOp {
	var plan []zvdPlanOp
	ids := make([]int, 0, len(in.conns))
	for c := range in.conns {
		ids = append(ids, c)
	}
	sort.Ints(ids)
	parked := 0
	var idle []int
	for _, c := range ids {
		cn := in.conns[c]
		switch {
		case !cn.open:
			if st, _, _ := cn.sc.stage(); st == "returned" && r.Intn(2) == 0 {
				plan = append(plan, zvdPlanOp{C: c, Rq: zvdNoRq, Mode: "reopen"})
				idle = append(idle, c)
			} else if st != "returned" {
				parked++
			}
		case cn.wait != nil:
			parked++
		default:
			idle = append(idle, c)
		}
	}
	r.Shuffle(len(idle), func(i, j int) { idle[i], idle[j] = idle[j], idle[i] })
	budget := cfg.MaxOps - parked
	if budget < 2 {
		budget = 2
	}
	m := 2 + r.Intn(3)
	if m > len(idle) {
		m = len(idle)
	}
	for _, c := range idle[:m] {
		if budget <= 0 {
			break
		}
		kind := in.kinds[c]
		for _, p := range plan {
			if p.C == c && p.Mode == "reopen" {
				kind = "" // decided when the connection is made: plan request-reply only
			}
		}
		mode, k := "rr", 1+r.Intn(2)
		if kind == "pipe" {
			switch x := r.Intn(10); {
			case x < 6:
				mode, k = "pipe", 1+r.Intn(3)
			case x < 8:
				mode, k = "leave", 1+r.Intn(3)
			}
		}
		if k > budget {
			k = budget
		}
		for i := 0; i < k; i++ {
			last := i == k-1
			rq := zvdRandomOpHint(&cfg.Universe, r, last && mode != "leave", in.hint)
			if zvdParks(rq) && (!last || parked >= 3) {
				rq = zvdRq{Op: "list", Code: 11}
			}
			if zvdParks(rq) {
				parked++
			}
			plan = append(plan, zvdPlanOp{C: c, Rq: rq, Mode: mode})
			budget--
		}
		if mode == "leave" && r.Intn(3) == 0 { // the writer dies inside one more frame
			plan = append(plan, zvdPlanOp{C: c, Rq: zvdRq{Op: "junk", Arg: "midframe", Code: []int{11, 13, 35}[r.Intn(3)]}, Mode: "leave"})
		}
	}
	return plan
}

// zvdRunRound executes one round and returns the batch record.
func (in *zvdInst) zvdRunRound(bid string, plan []zvdPlanOp) zvdBatch {
	for _, p := range plan {
		if p.Mode == "reopen" {
			if cn := in.conns[p.C]; cn != nil && !cn.open {
				if err := in.connect(p.C, zvdKinds[in.rint(3)]); err != nil {
					in.fail("reopen: %v", err)
				}
			}
		}
	}
	in.settle()
	b := zvdBatch{Ev: "batch", Bid: bid, Init: in.project(), Ops: []zvdBatchOp{}}
	ids := make([]int, 0, len(in.conns))
	for c := range in.conns {
		ids = append(ids, c)
	}
	sort.Ints(ids)
	// waits that are already parked take part with n = 0
	for _, c := range ids {
		if cn := in.conns[c]; cn.open && cn.wait != nil {
			cn.waitOp = len(b.Ops)
			b.Ops = append(b.Ops, zvdBatchOp{C: c, N: 0, R: zvdRq{Op: "wait", Code: cn.wait.code}, Res: zvdRes{Ok: true, By: "parked"}.norm()})
		}
	}
	per := map[int][]int{} // connection -> indices into b.Ops
	mode := map[int]string{}
	for _, p := range plan {
		if p.Mode == "reopen" {
			continue
		}
		cn := in.conns[p.C]
		if cn == nil || !cn.open || cn.wait != nil {
			continue
		}
		m := p.Mode
		if m != "rr" && cn.kind != "pipe" {
			m = "rr"
		}
		mode[p.C] = m
		per[p.C] = append(per[p.C], len(b.Ops))
		b.Ops = append(b.Ops, zvdBatchOp{C: p.C, N: len(per[p.C]), R: p.Rq, Opt: m == "leave", Res: zvdRes{}.norm()})
	}
	var mu sync.Mutex // guards b.Ops while the connections run
	var hang int32
	start := make(chan struct{})
	var wg sync.WaitGroup
	set := func(i int, f func(o *zvdBatchOp)) {
		mu.Lock()
		f(&b.Ops[i])
		mu.Unlock()
	}
	for c, idx := range per {
		c, idx := c, idx
		cn := in.conns[c]
		wg.Add(1)
		go func() {
			defer wg.Done()
			<-start
			switch mode[c] {
			case "rr":
				for _, i := range idx {
					rq := b.Ops[i].R
					sq := in.seq()
					set(i, func(o *zvdBatchOp) { o.Sq = sq })
					if rq.Op == "junk" {
						res := in.junk(cn, rq)
						rs := in.seq()
						set(i, func(o *zvdBatchOp) { o.Res, o.Rs = res, rs })
						return
					}
					if zvdParks(rq) {
						wc := &zvdWaitCall{code: rq.Code, done: make(chan struct{})}
						cn.wait, cn.waitOp = wc, i
						go func() {
							r := in.call(cn, rq)
							wc.ok, wc.err = r.Ok, r.By
							wc.seq = in.seq()
							close(wc.done)
						}()
						return // a wait is the last request of its connection in a round
					}
					ch := make(chan zvdRes, 1)
					go func() { ch <- in.call(cn, rq) }()
					select {
					case res := <-ch:
						rs := in.seq()
						set(i, func(o *zvdBatchOp) { o.Res, o.Rs = res, rs })
					case <-time.After(zvdHangAfter):
						atomic.StoreInt32(&hang, 1)
						set(i, func(o *zvdBatchOp) { o.Res = zvdRes{By: "hang"}.norm() })
						return
					}
				}
			case "pipe", "leave":
				var out []byte
				reqs := make([][]byte, len(idx))
				auxs := make([][]byte, len(idx))
				for k, i := range idx {
					rq := b.Ops[i].R
					if rq.Op == "junk" {
						out = append(out, in.junkBytes(rq)...)
					} else {
						reqs[k], auxs[k] = in.frame(rq)
						l := make([]byte, 4)
						l[0], l[1], l[2], l[3] = byte(len(reqs[k])>>24), byte(len(reqs[k])>>16), byte(len(reqs[k])>>8), byte(len(reqs[k]))
						out = append(append(out, l...), reqs[k]...)
					}
					sq := in.seq()
					set(i, func(o *zvdBatchOp) { o.Sq = sq })
				}
				cn.nc.SetDeadline(time.Now().Add(zvdHangAfter))
				cn.nc.Write(out) // every frame of the burst in one write
				if mode[c] == "leave" {
					cn.nc.Close()
					cn.open = false
					return
				}
				for k, i := range idx {
					rq := b.Ops[i].R
					if rq.Op == "junk" {
						res := zvdRes{By: "closed"}
						if rq.Arg != "midframe" && rq.Arg != "midhdr" {
							if fr, err := verifh.ReadFrame(cn.nc); err == nil {
								res = zvdRes{Ok: true, By: fmt.Sprintf("reply:%d", len(fr))}
							} else if !zvdIsClosedErr(err) {
								res = zvdRes{By: "hang"}
								atomic.StoreInt32(&hang, 1)
							}
						}
						cn.nc.Close()
						cn.open = false
						rs := in.seq()
						set(i, func(o *zvdBatchOp) { o.Res, o.Rs = res.norm(), rs })
						return
					}
					if zvdParks(rq) {
						wc := &zvdWaitCall{code: rq.Code, done: make(chan struct{})}
						cn.wait, cn.waitOp = wc, i
						cn.nc.SetDeadline(time.Time{})
						req, aux := reqs[k], auxs[k]
						go func() {
							fr, err := verifh.ReadFrame(cn.nc)
							if err == nil {
								r := in.parse(rq, req, aux, fr)
								wc.ok, wc.err = r.Ok, r.By
							} else {
								wc.err = "closed"
							}
							wc.seq = in.seq()
							close(wc.done)
						}()
						return
					}
					fr, err := verifh.ReadFrame(cn.nc)
					rs := in.seq()
					if err != nil {
						res := zvdErrRes(err)
						if !zvdIsClosedErr(err) {
							res = zvdRes{By: "hang"}
							atomic.StoreInt32(&hang, 1)
						}
						set(i, func(o *zvdBatchOp) { o.Res, o.Rs = res.norm(), rs })
						return
					}
					res := in.parse(rq, reqs[k], auxs[k], fr).norm()
					set(i, func(o *zvdBatchOp) { o.Res, o.Rs = res, rs })
				}
				cn.nc.SetDeadline(time.Time{})
			}
		}()
	}
	close(start)
	fin := make(chan struct{})
	go func() { wg.Wait(); close(fin) }()
	select {
	case <-fin:
	case <-time.After(zvdHangAfter + 5*time.Second):
		atomic.StoreInt32(&hang, 1)
	}
	_, ok := in.settle()
	if !ok || atomic.LoadInt32(&hang) == 1 {
		b.Hang = true
		in.wedged = true
	}
	mu.Lock()
	for _, c := range ids {
		cn := in.conns[c]
		if cn == nil || cn.wait == nil {
			continue
		}
		select {
		case <-cn.wait.done:
			o := &b.Ops[cn.waitOp]
			o.Rs = cn.wait.seq
			o.Res = zvdRes{Ok: cn.wait.ok}.norm()
			if !cn.wait.ok {
				o.Res.By = cn.wait.err
			}
			cn.wait = nil
		default:
			if o := &b.Ops[cn.waitOp]; o.N > 0 {
				o.Res = zvdRes{Ok: true, By: "parked"}.norm()
			}
		}
	}
	// requests that were never written (the connection ended before their turn) are not part of the batch
	kept := b.Ops[:0]
	for _, o := range b.Ops {
		if o.N == 0 || o.Sq > 0 {
			kept = append(kept, o)
		}
	}
	b.Ops = kept
	mu.Unlock()
	b.Final = in.project()
	in.hint = append(append([]string{}, b.Final.U...), b.Final.M...)
	for i, r := range b.Final.K {
		if r.S == "srvclosed" {
			in.conns[r.C].nc.Close()
			in.conns[r.C].open = false
			b.Final.K[i].S = "closed"
		}
	}
	return b
}

// zvdConcInstance runs one daemon through several concurrent rounds.
func zvdConcInstance(tid string, cfg *zvdConcCfg, r *mrand.Rand, rp *zvdInfo, btr *verifh.Trace, st *zvdStats) {
	var under []string
	n := 3
	var forceKinds, forceClasses map[string]string
	if rp != nil {
		under, n, forceKinds, forceClasses = rp.Under, rp.Conns, rp.Kinds, rp.Classes
	} else {
		under = zvdRandomUnder(&cfg.Universe, r)
		n = 3 + r.Intn(cfg.MaxConns-2)
	}
	in, err := zvdNewInst(&cfg.Universe, under, nil, false, r, forceClasses)
	if err != nil {
		st.err("instance: " + err.Error())
		return
	}
	defer in.close()
	kinds := zvdPickKinds(n, r, forceKinds)
	if rp == nil {
		kinds[2] = "pipe" // at least one raw frame writer
	}
	for c := 1; c <= n; c++ {
		if err := in.connect(c, kinds[c]); err != nil {
			st.err("connect: " + err.Error())
			return
		}
	}
	info := zvdInfoOf(in, under, n, nil)
	rounds := cfg.Rounds
	if rp != nil {
		rounds = len(rp.Rounds)
	}
	var out []interface{}
	for ri := 0; ri < rounds && !in.wedged; ri++ {
		var plan []zvdPlanOp
		if rp != nil {
			plan = rp.Rounds[ri]
		} else {
			plan = zvdPlanRound(in, cfg, r)
		}
		info.Rounds = append(info.Rounds, plan)
		b := in.zvdRunRound(fmt.Sprintf("%s.%d", tid, ri), plan)
		b.Info = info
		b.Info.Rounds = append([][]zvdPlanOp{}, info.Rounds...)
		out = append(out, b)
		atomic.AddInt64(&st.batches, 1)
		atomic.AddInt64(&st.batchOps, int64(len(b.Ops)))
		for _, o := range b.Ops {
			st.count(o.R.Op + "/conc")
		}
		if b.Hang {
			atomic.AddInt64(&st.wedged, 1)
			fmt.Fprintf(os.Stderr, "verif: batch %s did not complete\n", b.Bid)
		}
	}
	for _, e := range in.errs {
		st.err(e)
	}
	btr.EmitAll(out)
}
