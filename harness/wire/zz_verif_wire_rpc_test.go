//go:build verif

package yubiagent

// Conformance harness for spec/AgentWire.tla, part 2 (property C13): operations through the real yubiagent client
// connected (net.Pipe) to the real ServeAgent serving
//   "rec"  a recording YubiAgent (records the arguments it receives, returns scripted results / errors),
//   "real" a real *server (remote mode) over a real shim over a real keyring, next to a zvwTwin driven directly,
//   "tool" a real *server with remote=false whose pivtoolpath is a fake yubico-piv-tool (shell script).
// The harness logs equalities (arguments received = arguments sent, result seen = result returned, state via the
// client = state of the zvwTwin) and facts (method called, code on the wire, tool invoked, errors); TLC demands them
// (C13_Step in spec/TraceWire.tla).

import (
	"bytes"
	"crypto/ecdsa"
	"crypto/ed25519"
	"crypto/elliptic"
	"crypto/rand"
	"crypto/rsa"
	"crypto/sha256"
	"crypto/x509"
	"crypto/x509/pkix"
	"encoding/asn1"
	"encoding/hex"
	"encoding/json"
	"encoding/pem"
	"errors"
	"fmt"
	"io"
	stdlog "log"
	"math/big"
	mrand "math/rand"
	"net"
	"os"
	"path/filepath"
	"sort"
	"strings"
	"sync"
	"testing"
	"time"

	"github.com/theparanoids/ysshra/attestation/yubiattest"
	"github.com/theparanoids/ysshra/verifh"
	"golang.org/x/crypto/ssh"
	"golang.org/x/crypto/ssh/agent"
)

// ---------------------------------------------------------------------------------------------
// plan and records

type zvwRCase struct {
	Op string            `json:"op"`
	A  map[string]string `json:"a"`
}

type zvwRTool struct {
	Text []string `json:"text"`
	Exit int      `json:"exit"`
}

type zvwRGen struct {
	Kind    string    `json:"kind"` // "case" | "tool" | "hist"
	I       int       `json:"i"`
	R       int       `json:"r"`
	Seed    int64     `json:"seed"`
	Case    *zvwRCase `json:"case,omitempty"`
	Tool    *zvwRTool `json:"tool,omitempty"`
	HistLen int       `json:"histlen,omitempty"`
}

type zvwRPlan struct {
	Cases   []zvwRCase `json:"cases"`
	Tools   []zvwRTool `json:"tools"`
	Random  int        `json:"random"`
	HistLen int        `json:"histlen"`
	Reps    int        `json:"reps"`
	Replays []zvwRGen  `json:"replays"`
	Workers int        `json:"workers"`
}

type zvwRLine struct {
	P bool   `json:"p"`
	S bool   `json:"s"`
	N int    `json:"n"`
	C string `json:"c"`
}

type zvwRLabel struct {
	Op      string     `json:"op"`
	Code    int        `json:"code"`
	Method  string     `json:"method"`
	Ncalls  int        `json:"ncalls"`
	Argeq   bool       `json:"argeq"`
	Reseq   bool       `json:"reseq"`
	Aerr    bool       `json:"aerr"`
	Cerr    bool       `json:"cerr"`
	Pan     bool       `json:"pan"`
	Remote  bool       `json:"remote"`
	Toolran bool       `json:"toolran"`
	Lines   []zvwRLine `json:"lines"`
	Slots   []string   `json:"slots"`
	Exit    int        `json:"exit"`
	Steq    bool       `json:"steq"`
	Mode    string     `json:"mode"`
	Shape   string     `json:"shape"` // scripted result of the served agent: normal | both (result AND error) | neither
}

type zvwRSt struct {
	H string `json:"h"`
}

type zvwRRec struct {
	Ev   string      `json:"ev"`
	Fam  string      `json:"fam"`
	Tid  string      `json:"tid"`
	Pre  *zvwRSt     `json:"pre,omitempty"`
	E    *zvwRLabel  `json:"e,omitempty"`
	Post zvwRSt      `json:"post"`
	Info interface{} `json:"info,omitempty"`
}

// ---------------------------------------------------------------------------------------------
// the recording agent

type zvwRecCall struct {
	method string
	b      map[string][]byte
	n      map[string]uint64
}

type zvwRecScript struct {
	err   error
	keys  []*agent.Key
	sig   *ssh.Signature
	slots []string
	cert  *x509.Certificate
	reply []byte
}

type zvwRecAgent struct {
	mu     sync.Mutex
	calls  []zvwRecCall
	script zvwRecScript
}

func (r *zvwRecAgent) rec(method string, b map[string][]byte, n map[string]uint64) zvwRecScript {
	r.mu.Lock()
	defer r.mu.Unlock()
	r.calls = append(r.calls, zvwRecCall{method, b, n})
	return r.script
}
func (r *zvwRecAgent) take() []zvwRecCall {
	r.mu.Lock()
	defer r.mu.Unlock()
	c := r.calls
	r.calls = nil
	return c
}
func (r *zvwRecAgent) set(s zvwRecScript) {
	r.mu.Lock()
	r.script = s
	r.calls = nil
	r.mu.Unlock()
}
func zvwPubBlob(k ssh.PublicKey) []byte {
	if k == nil {
		return nil
	}
	return k.Marshal()
}

func (r *zvwRecAgent) List() ([]*agent.Key, error) {
	s := r.rec("List", nil, nil)
	return s.keys, s.err
}
func (r *zvwRecAgent) Sign(key ssh.PublicKey, data []byte) (*ssh.Signature, error) {
	s := r.rec("Sign", map[string][]byte{"key": zvwPubBlob(key), "data": data}, nil)
	return s.sig, s.err
}
func (r *zvwRecAgent) SignWithFlags(key ssh.PublicKey, data []byte, flags agent.SignatureFlags) (*ssh.Signature, error) {
	s := r.rec("SignWithFlags", map[string][]byte{"key": zvwPubBlob(key), "data": data}, map[string]uint64{"flags": uint64(flags)})
	return s.sig, s.err
}
func (r *zvwRecAgent) Add(key agent.AddedKey) error {
	b := map[string][]byte{"priv": zvwPrivBytes(key.PrivateKey), "comment": []byte(key.Comment)}
	if key.Certificate != nil {
		b["cert"] = key.Certificate.Marshal()
	}
	cf := uint64(0)
	if key.ConfirmBeforeUse {
		cf = 1
	}
	s := r.rec("Add", b, map[string]uint64{"lt": uint64(key.LifetimeSecs), "cf": cf, "ext": uint64(len(key.ConstraintExtensions))})
	return s.err
}
func (r *zvwRecAgent) Remove(key ssh.PublicKey) error {
	return r.rec("Remove", map[string][]byte{"key": zvwPubBlob(key)}, nil).err
}
func (r *zvwRecAgent) RemoveAll() error { return r.rec("RemoveAll", nil, nil).err }
func (r *zvwRecAgent) Lock(p []byte) error {
	return r.rec("Lock", map[string][]byte{"pass": append([]byte{}, p...)}, nil).err
}
func (r *zvwRecAgent) Unlock(p []byte) error {
	return r.rec("Unlock", map[string][]byte{"pass": append([]byte{}, p...)}, nil).err
}
func (r *zvwRecAgent) Signers() ([]ssh.Signer, error) { return nil, r.rec("Signers", nil, nil).err }
func (r *zvwRecAgent) Extension(t string, c []byte) ([]byte, error) {
	s := r.rec("Extension", map[string][]byte{"type": []byte(t), "contents": c}, nil)
	return s.reply, s.err
}
func (r *zvwRecAgent) Forward(req []byte) ([]byte, error) {
	s := r.rec("Forward", map[string][]byte{"raw": append([]byte{}, req...)}, nil)
	return s.reply, s.err
}
func (r *zvwRecAgent) AddHardCert(key ssh.PublicKey, comment string) error {
	return r.rec("AddHardCert", map[string][]byte{"key": zvwPubBlob(key), "comment": []byte(comment)}, nil).err
}
func (r *zvwRecAgent) Wait(m byte) error {
	return r.rec("Wait", nil, map[string]uint64{"w": uint64(m)}).err
}
func (r *zvwRecAgent) Close() error { return r.rec("Close", nil, nil).err }
func (r *zvwRecAgent) ListSlots() ([]string, error) {
	s := r.rec("ListSlots", nil, nil)
	return s.slots, s.err
}
func (r *zvwRecAgent) ReadSlot(slot string) (*x509.Certificate, error) {
	s := r.rec("ReadSlot", map[string][]byte{"slot": []byte(slot)}, nil)
	return s.cert, s.err
}
func (r *zvwRecAgent) AttestSlot(slot string) (*x509.Certificate, error) {
	s := r.rec("AttestSlot", map[string][]byte{"slot": []byte(slot)}, nil)
	return s.cert, s.err
}
func (r *zvwRecAgent) AddSmartcardKey(id string, pin []byte, lt time.Duration, cf bool) error {
	return r.rec("AddSmartcardKey", nil, nil).err
}
func (r *zvwRecAgent) RemoveSmartcardKey(id string, pin []byte) error {
	return r.rec("RemoveSmartcardKey", nil, nil).err
}

// zvwPrivBytes canonicalises a private key as received by an agent (pointer or value forms).
func zvwPrivBytes(k interface{}) []byte {
	switch p := k.(type) {
	case *ed25519.PrivateKey:
		return append([]byte("ed25519:"), []byte(*p)...)
	case ed25519.PrivateKey:
		return append([]byte("ed25519:"), []byte(p)...)
	case *ecdsa.PrivateKey:
		return []byte(fmt.Sprintf("ecdsa:%s:%x:%x:%x", p.Curve.Params().Name, p.D, p.X, p.Y))
	case *rsa.PrivateKey:
		ps := []string{}
		for _, q := range p.Primes {
			ps = append(ps, q.Text(16))
		}
		sort.Strings(ps)
		return []byte(fmt.Sprintf("rsa:%x:%x:%x:%s", p.N, p.E, p.D, strings.Join(ps, ",")))
	case rsa.PrivateKey:
		return zvwPrivBytes(&p)
	}
	return []byte(fmt.Sprintf("unknown:%T", k))
}

// ---------------------------------------------------------------------------------------------
// connection pair: client <-> ServeAgent, with a tee that sees the message code the client writes

type zvwCodeTee struct {
	net.Conn
	mu    sync.Mutex
	hdr   []byte
	need  int
	codes []int
}

func (t *zvwCodeTee) Write(p []byte) (int, error) {
	// a response that never completes (e.g. a frame cut short) must not hang the harness: the caller gets a time-out
	t.Conn.SetDeadline(time.Now().Add(8 * time.Second))
	t.observe(p)
	if len(p) == 0 {
		return 0, nil // a zero-length write on a net.Pipe would block until the peer reads (a socket returns at once)
	}
	return t.Conn.Write(p)
}

// observe follows the frames the client writes (the first byte of each is the message code).
func (t *zvwCodeTee) observe(p []byte) {
	t.mu.Lock()
	defer t.mu.Unlock()
	d := p
	for len(d) > 0 {
		if t.need == 0 {
			k := 4 - len(t.hdr)
			if k > len(d) {
				k = len(d)
			}
			t.hdr = append(t.hdr, d[:k]...)
			d = d[k:]
			if len(t.hdr) == 4 {
				t.need = int(uint32(t.hdr[0])<<24 | uint32(t.hdr[1])<<16 | uint32(t.hdr[2])<<8 | uint32(t.hdr[3]))
				t.hdr = nil
				if t.need == 0 {
					t.codes = append(t.codes, -1)
				} else {
					t.codes = append(t.codes, -2) // code byte not seen yet
				}
			}
		} else {
			if len(t.codes) > 0 && t.codes[len(t.codes)-1] == -2 {
				t.codes[len(t.codes)-1] = int(d[0])
			}
			k := t.need
			if k > len(d) {
				k = len(d)
			}
			d = d[k:]
			t.need -= k
		}
	}
}

// zvwNzConn drops zero-length writes (net.Pipe artefact, see above).
type zvwNzConn struct{ net.Conn }

func (c zvwNzConn) Write(p []byte) (int, error) {
	if len(p) == 0 {
		return 0, nil
	}
	return c.Conn.Write(p)
}
func (t *zvwCodeTee) take() []int {
	t.mu.Lock()
	defer t.mu.Unlock()
	c := t.codes
	t.codes, t.hdr, t.need = nil, nil, 0 // every operation starts on a frame boundary of its own
	return c
}

type zvwRPair struct {
	cl   YubiAgent
	tee  *zvwCodeTee
	done chan struct{}
	mu   sync.Mutex
	pan  interface{}
	err  error
	s    net.Conn
}

func zvwNewPair(served YubiAgent) *zvwRPair {
	c1, c2 := net.Pipe()
	p := &zvwRPair{tee: &zvwCodeTee{Conn: c1}, done: make(chan struct{}), s: c2}
	cl, err := NewClientFromConn(p.tee)
	if err != nil {
		panic(err)
	}
	p.cl = cl
	go func() {
		defer close(p.done)
		defer c2.Close()
		defer func() {
			if r := recover(); r != nil {
				p.mu.Lock()
				p.pan = r
				p.mu.Unlock()
			}
		}()
		e := ServeAgent(served, zvwNzConn{c2})
		p.mu.Lock()
		p.err = e
		p.mu.Unlock()
	}()
	return p
}
func (p *zvwRPair) ended() bool {
	select {
	case <-p.done:
		return true
	default:
		return false
	}
}
func (p *zvwRPair) panicked() bool {
	// a crashing server goroutine records its panic before it closes its end of the pipe
	p.mu.Lock()
	defer p.mu.Unlock()
	return p.pan != nil
}
func (p *zvwRPair) close() {
	p.tee.Conn.Close()
	<-p.done
}

// ---------------------------------------------------------------------------------------------
// concrete values

var zvwRCertPool []*x509.Certificate
var zvwRCertTags []string // per certificate: how it was built, and "/std" or "/lenient-only" (what crypto/x509 says about it)
var zvwRCertOnce sync.Once

// zvwRebuildCert re-encodes a certificate after editing the fields of its TBSCertificate (version, serial, signature
// algorithm, issuer, validity, subject, SubjectPublicKeyInfo, extensions) and / or the outer signature algorithm.
// The signature is left as it is: parsers do not verify it.
func zvwRebuildCert(der []byte, edit func(tbs []asn1.RawValue, outerAlg *asn1.RawValue) []asn1.RawValue) []byte {
	var outer struct {
		TBS    asn1.RawValue
		SigAlg asn1.RawValue
		Sig    asn1.BitString
	}
	if _, err := asn1.Unmarshal(der, &outer); err != nil {
		return nil
	}
	var fields []asn1.RawValue
	if _, err := asn1.Unmarshal(outer.TBS.FullBytes, &fields); err != nil {
		return nil
	}
	fields = edit(fields, &outer.SigAlg)
	if fields == nil {
		return nil
	}
	for i := range fields { // re-marshal from the full encoding of every field
		if fields[i].FullBytes == nil {
			b, err := asn1.Marshal(fields[i])
			if err != nil {
				return nil
			}
			fields[i] = asn1.RawValue{FullBytes: b}
		}
	}
	tbs, err := asn1.Marshal(fields)
	if err != nil {
		return nil
	}
	outer.TBS = asn1.RawValue{FullBytes: tbs}
	if outer.SigAlg.FullBytes == nil {
		b, err := asn1.Marshal(outer.SigAlg)
		if err != nil {
			return nil
		}
		outer.SigAlg = asn1.RawValue{FullBytes: b}
	}
	out, err := asn1.Marshal(outer)
	if err != nil {
		return nil
	}
	return out
}

type zvwAlgID struct {
	Algorithm  asn1.ObjectIdentifier
	Parameters asn1.RawValue `asn1:"optional"`
}

// zvwX509Pool: slot certificates a served agent can hold = everything the repository's lenient certificate parser
// (attestation/yubiattest, written for old YubiKey firmware) reads back byte-identically: standard certificates of
// several key types and sizes, and hand-re-encoded ones with the deviations old firmware / old tools produce.
func zvwX509Pool() []*x509.Certificate {
	zvwRCertOnce.Do(func() {
		ek, _ := ecdsa.GenerateKey(elliptic.P256(), rand.Reader)
		ek3, _ := ecdsa.GenerateKey(elliptic.P384(), rand.Reader)
		rk, _ := rsa.GenerateKey(rand.Reader, 2048)
		add := func(der []byte, tag string) {
			if der == nil {
				return
			}
			c, err := yubiattest.ParseCertificate(der)
			if err != nil || !bytes.Equal(c.Raw, der) {
				return
			}
			if _, err := x509.ParseCertificate(der); err == nil {
				tag += "/std"
			} else {
				tag += "/lenient-only"
			}
			zvwRCertPool = append(zvwRCertPool, c)
			zvwRCertTags = append(zvwRCertTags, tag)
		}
		mk := func(pub, priv interface{}, pad int, cn string) []byte {
			tpl := &x509.Certificate{SerialNumber: big.NewInt(int64(1000 + pad)), Subject: pkix.Name{CommonName: cn, Organization: []string{"verif"}},
				NotBefore: time.Now().Add(-time.Hour), NotAfter: time.Now().Add(24 * time.Hour)}
			v, _ := asn1.Marshal(bytes.Repeat([]byte{0x5a}, pad+1))
			tpl.ExtraExtensions = []pkix.Extension{{Id: asn1.ObjectIdentifier{1, 3, 6, 1, 4, 1, 41482, 3, 99}, Value: v}}
			der, err := x509.CreateCertificate(rand.Reader, tpl, tpl, pub, priv)
			if err != nil {
				return nil
			}
			add(der, cn)
			return der
		}
		ecDer := mk(&ek.PublicKey, ek, 0, "slot 9a")
		mk(&ek.PublicKey, ek, 700, "attestation ü")
		mk(&ek3.PublicKey, ek3, 3000, "p384")
		rsaDer := mk(&rk.PublicKey, rk, 0, "rsa")
		mk(&rk.PublicKey, rk, 9000, "rsa-large")
		mk(&ek.PublicKey, ek, 60000, "huge")
		if ecDer == nil || rsaDer == nil {
			return
		}
		noParams := func(f asn1.RawValue) asn1.RawValue { // an AlgorithmIdentifier without its parameters
			var a zvwAlgID
			if _, err := asn1.Unmarshal(f.FullBytes, &a); err != nil {
				return f
			}
			b, _ := asn1.Marshal(zvwAlgID{Algorithm: a.Algorithm})
			return asn1.RawValue{FullBytes: b}
		}
		// RSA SubjectPublicKeyInfo whose AlgorithmIdentifier omits the NULL parameters (YubiKey firmware before 4.3.3)
		add(zvwRebuildCert(rsaDer, func(t []asn1.RawValue, _ *asn1.RawValue) []asn1.RawValue {
			var spki struct {
				Algorithm zvwAlgID
				PublicKey asn1.BitString
			}
			if _, err := asn1.Unmarshal(t[6].FullBytes, &spki); err != nil {
				return nil
			}
			spki.Algorithm.Parameters = asn1.RawValue{}
			b, _ := asn1.Marshal(spki)
			t[6] = asn1.RawValue{FullBytes: b}
			return t
		}), "rsa-spki-without-null")
		// signature AlgorithmIdentifier (inner and outer) without the NULL parameters
		add(zvwRebuildCert(rsaDer, func(t []asn1.RawValue, o *asn1.RawValue) []asn1.RawValue {
			t[2] = noParams(t[2])
			*o = noParams(*o)
			return t
		}), "rsa-sigalg-without-null")
		for _, base := range []struct {
			der []byte
			n   string
		}{{ecDer, "ec"}, {rsaDer, "rsa"}} {
			base := base
			// negative serial number
			add(zvwRebuildCert(base.der, func(t []asn1.RawValue, _ *asn1.RawValue) []asn1.RawValue {
				t[1] = asn1.RawValue{Class: 0, Tag: 2, Bytes: []byte{0x85, 0x01, 0x02}}
				return t
			}), base.n+"-serial-negative")
			// serial number of 21 octets
			add(zvwRebuildCert(base.der, func(t []asn1.RawValue, _ *asn1.RawValue) []asn1.RawValue {
				t[1] = asn1.RawValue{Class: 0, Tag: 2, Bytes: append([]byte{0x01}, bytes.Repeat([]byte{0x77}, 20)...)}
				return t
			}), base.n+"-serial-21-octets")
			// serial number zero
			add(zvwRebuildCert(base.der, func(t []asn1.RawValue, _ *asn1.RawValue) []asn1.RawValue {
				t[1] = asn1.RawValue{Class: 0, Tag: 2, Bytes: []byte{0}}
				return t
			}), base.n+"-serial-zero")
			// the same extension twice
			add(zvwRebuildCert(base.der, func(t []asn1.RawValue, _ *asn1.RawValue) []asn1.RawValue {
				last := t[len(t)-1]
				if last.Class != 2 || last.Tag != 3 {
					return nil
				}
				var exts []asn1.RawValue
				if _, err := asn1.Unmarshal(last.Bytes, &exts); err != nil || len(exts) == 0 {
					return nil
				}
				exts = append(exts, exts[len(exts)-1])
				b, _ := asn1.Marshal(exts)
				t[len(t)-1] = asn1.RawValue{Class: 2, Tag: 3, IsCompound: true, Bytes: b}
				return t
			}), base.n+"-extension-twice")
			// version 1 encoding (no version field) that still carries extensions
			add(zvwRebuildCert(base.der, func(t []asn1.RawValue, _ *asn1.RawValue) []asn1.RawValue {
				if t[0].Class != 2 || t[0].Tag != 0 {
					return nil
				}
				return t[1:]
			}), base.n+"-v1-with-extensions")
			// a critical extension nobody knows
			add(zvwRebuildCert(base.der, func(t []asn1.RawValue, _ *asn1.RawValue) []asn1.RawValue {
				last := t[len(t)-1]
				var exts []asn1.RawValue
				if _, err := asn1.Unmarshal(last.Bytes, &exts); err != nil {
					return nil
				}
				e, _ := asn1.Marshal(pkix.Extension{Id: asn1.ObjectIdentifier{1, 3, 6, 1, 4, 1, 41482, 3, 77}, Critical: true, Value: []byte{4, 1, 1}})
				exts = append(exts, asn1.RawValue{FullBytes: e})
				b, _ := asn1.Marshal(exts)
				t[len(t)-1] = asn1.RawValue{Class: 2, Tag: 3, IsCompound: true, Bytes: b}
				return t
			}), base.n+"-unknown-critical-extension")
		}
	})
	return zvwRCertPool
}

var zvwRErrTexts = []string{"agent: failure", "yubiagent: not found", "fehler: schlüssel nicht gefunden", "エラー", "e", "error with \"quotes\" and \\ and \n newline",
	"SUCCESS ", "success", strings.Repeat("long error text ", 300), "\xff\xfe binary \x00 text"}

// zvwBoundSizes: payload sizes around the buffer sizes a framing layer is likely to use (4 KiB, 64 KiB: the sizes
// themselves, the sizes minus the 4-byte length prefix, their neighbours).
var zvwBoundSizes = []int{4091, 4092, 4093, 4094, 4095, 4096, 4097, 4098, 65531, 65532, 65533, 65534, 65535, 65536, 65537, 65538, 65539, 65540}

// zvwSizedText: an error text of exactly n bytes (printable, so that it is neither empty nor the success marker).
func zvwSizedText(r *mrand.Rand, n int) string {
	if n < 1 {
		n = 1
	}
	b := make([]byte, n)
	for i := range b {
		b[i] = byte('a' + r.Intn(26))
	}
	return string(b)
}

func zvwRndErr(r *mrand.Rand) error {
	if r.Intn(4) == 0 { // a text whose frame (alone, or behind the 8 bytes of a slot response) has a boundary size
		return errors.New(zvwSizedText(r, zvwBoundSizes[r.Intn(len(zvwBoundSizes))]-8*r.Intn(2)))
	}
	return errors.New(zvwRErrTexts[r.Intn(len(zvwRErrTexts))])
}

// zvwRndFwdCode: a message code of a raw request whose forwarding is compared: the OpenSSH requests the x/crypto
// server does not implement (smartcard add / remove / add constrained, extension) and codes far away from the ones
// yubiagent defines (a protocol extension may take a free code next to 31..35; C12 sweeps all 256 codes).
func zvwRndFwdCode(r *mrand.Rand) byte {
	if r.Intn(2) == 0 {
		return []byte{20, 21, 26, 27}[r.Intn(4)]
	}
	return byte(64 + r.Intn(192))
}

func zvwRndSize(r *mrand.Rand, max int) int {
	if max >= 65536 && r.Intn(4) == 0 {
		return zvwBoundSizes[r.Intn(len(zvwBoundSizes))] - r.Intn(2) // (a request has its code byte in front)
	}
	switch r.Intn(10) {
	case 0:
		return 0
	case 1:
		return 1
	case 2:
		return max
	case 3:
		return r.Intn(max + 1)
	}
	if max > 300 {
		max = 300
	}
	return r.Intn(max + 1)
}

var zvwRKinds = []string{"ed25519", "ecdsa256", "ecdsa384", "ecdsa521", "rsa2048"}

func zvwRndKeyPair(r *mrand.Rand, abstract string) *verifh.KeyPair {
	slot := 20
	if abstract == "k2" {
		slot = 21
	}
	kp := verifh.PoolKey(slot+2*r.Intn(2), zvwRKinds[r.Intn(len(zvwRKinds))])
	if rk, ok := kp.Priv.(*rsa.PrivateKey); ok {
		zvwRPreMu.Lock()
		rk.Precompute() // the x/crypto client does this on every Add; do it once, not concurrently
		zvwRPreMu.Unlock()
	}
	return kp
}

var zvwRPreMu sync.Mutex

func zvwRndPub(r *mrand.Rand, abstract string) ssh.PublicKey {
	k := zvwRndKeyPair(r, abstract)
	if r.Intn(3) == 0 {
		return verifh.Mint(zvwWCA.Signer, verifh.CertSpec{Key: k.Pub, KeyID: zvwRndComment(r), ValidBefore: uint64(time.Now().Unix() + 3600),
			Principals: []string{"a", zvwRndComment(r)}, Serial: uint64(r.Int63())})
	}
	return k.Pub
}

func zvwKeysEq(a, b []*agent.Key) bool { // multisets of (format, blob, comment)
	f := func(ks []*agent.Key) []string {
		o := []string{}
		for _, k := range ks {
			o = append(o, k.Format+"\x00"+string(k.Blob)+"\x00"+k.Comment)
		}
		sort.Strings(o)
		return o
	}
	x, y := f(a), f(b)
	if len(x) != len(y) {
		return false
	}
	for i := range x {
		if x[i] != y[i] {
			return false
		}
	}
	return true
}

func zvwSigEq(a, b *ssh.Signature) bool {
	if a == nil || b == nil {
		return a == b
	}
	return a.Format == b.Format && bytes.Equal(a.Blob, b.Blob) && bytes.Equal(a.Rest, b.Rest)
}

func zvwStrsEq(a, b []string) bool {
	if len(a) != len(b) {
		return false
	}
	for i := range a {
		if a[i] != b[i] {
			return false
		}
	}
	return true
}

// ---------------------------------------------------------------------------------------------
// one operation against the recording agent

type zvwRCtx struct {
	r    *mrand.Rand
	rec  *zvwRecAgent
	pair *zvwRPair
	kind int // >= 0: exported case run number; add-hardware-certificate cases walk every key type, plain and certificate
}

func (c *zvwRCtx) ensure() {
	if c.pair == nil || c.pair.ended() {
		if c.pair != nil {
			c.pair.close()
		}
		c.pair = zvwNewPair(c.rec)
	}
}

func zvwOnly(calls []zvwRecCall) (zvwRecCall, int) {
	if len(calls) == 0 {
		return zvwRecCall{}, 0
	}
	return calls[0], len(calls)
}

// recOp runs one operation through the client against the recording agent and reports what both ends saw.
func (c *zvwRCtx) recOp(op string, a map[string]string) (lab zvwRLabel, vr string) {
	r := c.r
	c.ensure()
	lab = zvwRLabel{Op: op, Code: -1, Mode: "rec", Lines: []zvwRLine{}, Slots: []string{}, Steq: true, Argeq: true, Reseq: true}
	cl := c.pair.cl
	fail := r.Intn(3) == 0
	var sc zvwRecScript
	if c.kind >= 0 && c.kind < len(zvwBoundSizes) && (op == "ahc_s" || op == "wait") {
		// exported cases: the error text (= the whole response) has every boundary size once
		fail = true
		sc.err = errors.New(zvwSizedText(r, zvwBoundSizes[c.kind]))
	} else if fail {
		sc.err = zvwRndErr(r)
	}
	var cerr error
	check := func(call zvwRecCall, want map[string][]byte, wantN map[string]uint64) bool {
		for k, v := range want {
			if !bytes.Equal(call.b[k], v) {
				return false
			}
		}
		for k, v := range wantN {
			if call.n[k] != v {
				return false
			}
		}
		return true
	}
	var want map[string][]byte
	var wantN map[string]uint64
	func() {
		defer func() {
			if p := recover(); p != nil {
				lab.Pan = true
				cerr = fmt.Errorf("panic: %v", p)
			}
		}()
		switch op {
		case "list", "signers":
			for i := r.Intn(5); i > 0; i-- {
				pk := zvwRndPub(r, []string{"k1", "k2"}[r.Intn(2)])
				sc.keys = append(sc.keys, &agent.Key{Format: pk.Type(), Blob: pk.Marshal(), Comment: zvwRndComment(r)})
			}
			if fail {
				sc.keys = nil
			}
			c.rec.set(sc)
			vr = fmt.Sprintf("n%d", len(sc.keys))
			if op == "list" {
				ks, err := cl.List()
				cerr = err
				lab.Reseq = fail || zvwKeysEq(ks, sc.keys)
			} else {
				ss, err := cl.Signers()
				cerr = err
				got := []*agent.Key{}
				for _, s := range ss {
					pk := s.PublicKey()
					got = append(got, &agent.Key{Format: pk.Type(), Blob: pk.Marshal()})
				}
				exp := []*agent.Key{}
				for _, k := range sc.keys {
					exp = append(exp, &agent.Key{Format: k.Format, Blob: k.Blob})
				}
				lab.Reseq = fail || zvwKeysEq(got, exp)
			}
		case "sign":
			key := zvwRndPub(r, a["key"])
			n := 0
			if a["data"] != "d0" {
				n = zvwRndSize(r, 65536)
			}
			data := zvwRndBytes(r, n)
			fl := map[string]agent.SignatureFlags{"f0": 0, "f2": agent.SignatureFlagRsaSha256, "f4": agent.SignatureFlagRsaSha512}[a["flags"]]
			if r.Intn(6) == 0 {
				fl = agent.SignatureFlags(r.Uint32())
			}
			if !fail {
				sc.sig = &ssh.Signature{Format: key.Type(), Blob: zvwRndBytes(r, 1+zvwRndSize(r, 600))}
				if r.Intn(4) == 0 {
					sc.sig.Rest = zvwRndBytes(r, 1+r.Intn(40))
				}
			}
			c.rec.set(sc)
			vr = fmt.Sprintf("d%d-f%d", n, fl)
			var sig *ssh.Signature
			if fl == 0 && r.Intn(2) == 0 {
				sig, cerr = cl.Sign(key, data)
			} else {
				sig, cerr = cl.SignWithFlags(key, data, fl)
			}
			want, wantN = map[string][]byte{"key": key.Marshal(), "data": data}, map[string]uint64{"flags": uint64(fl)}
			lab.Reseq = fail || zvwSigEq(sig, sc.sig)
		case "add", "addc":
			kp := zvwRndKeyPair(r, a["key"])
			ak := agent.AddedKey{PrivateKey: kp.Priv, Comment: zvwRndComment(r)}
			if a["comment"] == "" {
				ak.Comment = ""
			}
			if p, ok := kp.Priv.(*ed25519.PrivateKey); ok && r.Intn(2) == 0 {
				ak.PrivateKey = *p // the value form is accepted as well
			}
			want = map[string][]byte{"priv": zvwPrivBytes(kp.Priv), "comment": []byte(ak.Comment)}
			if r.Intn(3) == 0 {
				ak.Certificate = verifh.Mint(zvwWCA.Signer, verifh.CertSpec{Key: kp.Pub, KeyID: zvwRndComment(r), ValidBefore: uint64(time.Now().Unix() + 3600)})
				want["cert"] = ak.Certificate.Marshal()
			}
			if op == "addc" {
				if a["lt"] != "0" {
					ak.LifetimeSecs = uint32(1 + r.Int63n(1<<32-1))
				}
				ak.ConfirmBeforeUse = a["cf"] == "y"
				if ak.LifetimeSecs == 0 && !ak.ConfirmBeforeUse {
					ak.LifetimeSecs = 1 + uint32(r.Intn(1000)) // "addc" is an add with at least one constraint
				}
			}
			cf := uint64(0)
			if ak.ConfirmBeforeUse {
				cf = 1
			}
			wantN = map[string]uint64{"lt": uint64(ak.LifetimeSecs), "cf": cf}
			c.rec.set(sc)
			vr = fmt.Sprintf("%s-lt%d-cf%d", kp.Kind, ak.LifetimeSecs, cf)
			cerr = cl.Add(ak)
		case "remove":
			key := zvwRndPub(r, a["key"])
			c.rec.set(sc)
			cerr = cl.Remove(key)
			want = map[string][]byte{"key": key.Marshal()}
		case "removeall":
			c.rec.set(sc)
			cerr = cl.RemoveAll()
		case "lock", "unlock":
			p := zvwRndBytes(r, zvwRndSize(r, 200))
			c.rec.set(sc)
			vr = fmt.Sprintf("p%d", len(p))
			if op == "lock" {
				cerr = cl.Lock(p)
			} else {
				cerr = cl.Unlock(p)
			}
			want = map[string][]byte{"pass": p}
		case "ahc_s", "ahc_l":
			key := zvwRndPub(r, a["key"])
			cm := zvwRndComment(r)
			if a["comment"] == "" {
				cm = ""
			}
			if c.kind >= 0 {
				kp := verifh.PoolKey(20, zvwRKinds[c.kind%len(zvwRKinds)])
				key = kp.Pub
				vr = "plain-" + kp.Kind
				if a["comment"] != "" {
					key = verifh.Mint(zvwWCA.Signer, verifh.CertSpec{Key: kp.Pub, KeyID: zvwRndComment(r), ValidBefore: uint64(time.Now().Unix() + 3600)})
					vr = "cert-" + kp.Kind
				}
			}
			c.rec.set(sc)
			if op == "ahc_s" {
				cerr = cl.AddHardCert(key, cm)
				want = map[string][]byte{"key": key.Marshal(), "comment": []byte(cm)}
			} else {
				// the legacy encoding: the code byte followed by the bare key blob
				resp, err := cl.Forward(append([]byte{AgentMessageAddHardCert}, key.Marshal()...))
				cerr = err
				if err == nil && string(resp) != "SUCCESS" {
					cerr = errors.New(string(resp))
				}
				want = map[string][]byte{"key": key.Marshal(), "comment": {}}
			}
			if fail && cerr != nil && cerr.Error() != sc.err.Error() && !lab.Pan {
				vr += "-errtext-differs"
			}
		case "listslots":
			// four shapes: slots zvwOnly, error zvwOnly, slots AND error, neither (= an empty listing)
			if !fail || r.Intn(2) == 0 {
				for i := r.Intn(5); i > 0; i-- {
					sc.slots = append(sc.slots, zvwWSlots[r.Intn(7)])
				}
				if fail && len(sc.slots) > 0 {
					lab.Shape, vr = "both", "slots-and-error"
				}
			}
			c.rec.set(sc)
			sl, err := cl.ListSlots()
			cerr = err
			lab.Reseq = fail || zvwStrsEq(sl, sc.slots)
		case "readslot", "attestslot":
			slot := a["slot"]
			if r.Intn(2) == 0 {
				slot = strings.ReplaceAll(zvwRndComment(r), "\x00", "")
			}
			// four shapes: certificate zvwOnly, error zvwOnly, certificate AND error, neither (nil, nil)
			shape := "cert"
			switch {
			case fail && r.Intn(2) == 0:
				shape = "both"
			case fail:
				shape = "err"
			case r.Intn(8) == 0:
				shape = "neither"
			}
			if c.kind >= 0 {
				shape = []string{"cert", "err", "both", "neither"}[c.kind%4] // exported cases walk all four
			}
			if c.kind >= 4 {
				shape = "err" // ... and then an error text that gives the response every boundary size
			}
			fail = shape == "err" || shape == "both"
			sc.err = nil
			if fail {
				sc.err = zvwRndErr(r)
			}
			if c.kind >= 4 && c.kind-4 < len(zvwBoundSizes) {
				sc.err = errors.New(zvwSizedText(r, zvwBoundSizes[c.kind-4]-8)) // 4 bytes empty certificate + 4 bytes length in front
			}
			ctag := ""
			if k := c.kind - 4 - len(zvwBoundSizes); k >= 0 {
				// exported cases: then every certificate class a served agent can hold
				shape, fail = "cert", false
				sc.err = nil
				sc.cert, ctag = zvwX509Pool()[k%len(zvwX509Pool())], zvwRCertTags[k%len(zvwX509Pool())]
				lab.Shape = ""
			} else if shape == "cert" || shape == "both" {
				i := r.Intn(len(zvwX509Pool()))
				sc.cert, ctag = zvwX509Pool()[i], zvwRCertTags[i]
			}
			if shape == "both" || shape == "neither" {
				lab.Shape = shape
			}
			c.rec.set(sc)
			vr = shape + "-" + ctag + "-slot-" + hex.EncodeToString([]byte(slot))
			var crt *x509.Certificate
			if op == "readslot" {
				crt, cerr = cl.ReadSlot(slot)
			} else {
				crt, cerr = cl.AttestSlot(slot)
			}
			want = map[string][]byte{"slot": []byte(slot)}
			lab.Reseq = fail || shape == "neither" || (crt != nil && bytes.Equal(crt.Raw, sc.cert.Raw))
		case "wait":
			w := byte(r.Intn(256))
			c.rec.set(sc)
			vr = fmt.Sprintf("w%d", w)
			cerr = cl.Wait(w)
			wantN = map[string]uint64{"w": uint64(w)}
		case "forward":
			req := append([]byte{zvwRndFwdCode(r)}, zvwRndBytes(r, zvwRndSize(r, 65536))...)
			if !fail {
				sc.reply = zvwRndBytes(r, zvwRndSize(r, 65536))
			}
			if c.kind >= 0 && c.kind < 2*len(zvwBoundSizes) {
				// exported cases: every boundary size once as request size and once as response size
				n := zvwBoundSizes[c.kind%len(zvwBoundSizes)]
				fail, sc.err = false, nil
				if c.kind < len(zvwBoundSizes) {
					req = append([]byte{zvwRndFwdCode(r)}, zvwRndBytes(r, n-1)...)
					sc.reply = zvwRndBytes(r, zvwRndSize(r, 300))
				} else {
					req = append([]byte{zvwRndFwdCode(r)}, zvwRndBytes(r, zvwRndSize(r, 300))...)
					sc.reply = zvwRndBytes(r, n)
				}
			}
			c.rec.set(sc)
			vr = fmt.Sprintf("code%d-req%d-reply%d", req[0], len(req), len(sc.reply))
			resp, err := cl.Forward(req)
			cerr = err
			want = map[string][]byte{"raw": req}
			lab.Reseq = fail || bytes.Equal(resp, sc.reply)
		case "addsc", "rmsc":
			id, pin := zvwRndComment(r), zvwRndBytes(r, zvwRndSize(r, 64))
			ok := r.Intn(3) != 0
			if !fail {
				sc.reply = []byte{agentSuccess}
				if !ok {
					sc.reply = []byte{agentFailure}
				}
			}
			c.rec.set(sc)
			var exp []byte
			if op == "addsc" {
				lt := time.Duration(r.Intn(3)) * time.Duration(1+r.Intn(100000)) * time.Second
				cf := r.Intn(2) == 0
				cerr = cl.AddSmartcardKey(id, pin, lt, cf)
				var cons []byte
				if lt != 0 {
					cons = append(cons, ssh.Marshal(agentLifetimeConstraint{uint32(lt.Seconds())})...)
				}
				if cf {
					cons = append(cons, agentConstrainConfirm)
				}
				exp = ssh.Marshal(agentAddSmartcardKeyReq{ID: id, PIN: pin, Constraints: cons})
			} else {
				cerr = cl.RemoveSmartcardKey(id, pin)
				exp = ssh.Marshal(agentRemoveSmartcardKeyReq{ID: id, PIN: pin})
			}
			want = map[string][]byte{"raw": exp}
			lab.Aerr = fail || !ok
		default:
			panic("verif: unknown operation " + op)
		}
	}()
	if op != "addsc" && op != "rmsc" {
		lab.Aerr = fail
	}
	lab.Cerr = cerr != nil
	calls := c.rec.take()
	call, n := zvwOnly(calls)
	lab.Method, lab.Ncalls = call.method, n
	if n >= 1 {
		lab.Argeq = check(call, want, wantN)
	} else {
		lab.Argeq = false
	}
	codes := c.pair.tee.take()
	if len(codes) >= 1 {
		lab.Code = codes[0]
	}
	if c.pair.panicked() {
		lab.Pan = true
	}
	if lab.Pan || (fail && call.method == "Forward") {
		// service on this connection ends (by design when the served agent's Forward fails): wait for it, so
		// that the next operation gets a fresh connection
		select {
		case <-c.pair.done:
		case <-time.After(5 * time.Second):
		}
	}
	return lab, vr
}

// ---------------------------------------------------------------------------------------------
// the fake PIV tool

type zvwRToolDir struct{ dir, path string }

func zvwNewToolDir(base string, n int) *zvwRToolDir {
	d := filepath.Join(base, fmt.Sprintf("tool%d", n))
	os.MkdirAll(d, 0o755)
	p := filepath.Join(d, "yubico-piv-tool")
	script := "#!/bin/sh\nd=$(dirname \"$0\")\nfor a in \"$@\"; do printf '%s\\n' \"$a\" >> \"$d/args\"; done\nprintf 'END\\n' >> \"$d/args\"\ncat \"$d/out\"\nexit $(cat \"$d/rc\")\n"
	if err := os.WriteFile(p, []byte(script), 0o755); err != nil {
		panic(err)
	}
	return &zvwRToolDir{d, p}
}
func (t *zvwRToolDir) arm(out []byte, rc int) {
	os.WriteFile(filepath.Join(t.dir, "out"), out, 0o644)
	os.WriteFile(filepath.Join(t.dir, "rc"), []byte(fmt.Sprint(rc)), 0o644)
	os.Remove(filepath.Join(t.dir, "args"))
}

// ran returns the argument lists of the invocations since arm.
func (t *zvwRToolDir) ran() [][]string {
	b, err := os.ReadFile(filepath.Join(t.dir, "args"))
	if err != nil {
		return nil
	}
	var out [][]string
	cur := []string{}
	for _, l := range strings.Split(strings.TrimSuffix(string(b), "\n"), "\n") {
		if l == "END" {
			out = append(out, cur)
			cur = []string{}
		} else {
			cur = append(cur, l)
		}
	}
	return out
}

var zvwRLineTexts = map[string][]string{
	"wf":     {"Slot 9a:\t"},
	"wf2":    {"Slot 9c:\t"},
	"slot4":  {"Slot"},
	"slot6":  {"Slot 9"},
	"slot7":  {"Slot 9a"},
	"slots8": {"Slots: 2"},
	"other":  {"\tAlgorithm:\tECCP256", "CHUID:\t3019d4e739da739ced39ce739d836858210842108421c84210c3eb", "Version:\t5.4.3", "PIN tries left:\t3"},
	"empty":  {""},
}

func zvwDescribeLines(out string) ([]zvwRLine, []string) {
	var ls []zvwRLine
	var toks []string
	for _, l := range strings.Split(out, "\n") {
		d := zvwRLine{P: strings.HasPrefix(l, "Slot"), S: strings.HasPrefix(l, "Slot "), N: len(l)}
		if len(l) >= 7 {
			d.C = hex.EncodeToString([]byte(l[5:7]))
		}
		ls = append(ls, d)
		switch {
		case d.P && d.N < 7:
			toks = append(toks, fmt.Sprintf("slot%d", d.N))
		case d.S:
			toks = append(toks, "wf")
		case d.P:
			toks = append(toks, "slotx")
		case d.N == 0:
			toks = append(toks, "empty")
		default:
			toks = append(toks, "other")
		}
	}
	return ls, toks
}

func zvwHexAll(s []string) []string {
	o := []string{}
	for _, x := range s {
		o = append(o, hex.EncodeToString([]byte(x)))
	}
	return o
}

// zvwToolListSlots runs ListSlots on a real *server with the fake tool, directly and through the client.
func zvwToolListSlots(env *zvwWEnv, td *zvwRToolDir, out string, exit int, remote bool) []struct {
	lab zvwRLabel
	vr  string
} {
	srv := &server{ShimAgent: env.shim, pivtoolpath: td.path, remote: remote}
	lines, toks := zvwDescribeLines(out)
	vr := strings.Join(toks, "|")
	var res []struct {
		lab zvwRLabel
		vr  string
	}
	for _, via := range []string{"direct", "client"} {
		lab := zvwRLabel{Op: "listslots", Code: 32, Mode: "tool", Method: "ListSlots", Ncalls: 1, Lines: lines, Slots: []string{}, Exit: exit,
			Remote: remote, Steq: true, Reseq: true, Argeq: true}
		td.arm([]byte(out), exit)
		var sl []string
		var err error
		var pair *zvwRPair
		func() {
			defer func() {
				if p := recover(); p != nil {
					lab.Pan = true
					err = fmt.Errorf("panic: %v", p)
				}
			}()
			if via == "direct" {
				sl, err = srv.ListSlots()
			} else {
				pair = zvwNewPair(srv)
				sl, err = pair.cl.ListSlots()
			}
		}()
		if pair != nil {
			pair.close()
			if pair.pan != nil {
				lab.Pan = true
			}
		}
		lab.Cerr, lab.Aerr = err != nil, err != nil
		lab.Slots = zvwHexAll(sl)
		inv := td.ran()
		lab.Toolran = len(inv) > 0
		if !remote {
			lab.Argeq = len(inv) == 0 || (len(inv) == 1 && zvwStrsEq(inv[0], []string{"-a", "status"}))
		}
		res = append(res, struct {
			lab zvwRLabel
			vr  string
		}{lab, vr + "/" + via})
	}
	return res
}

// zvwToolCertOp runs ReadSlot / AttestSlot with the fake tool, directly and through the client.
func zvwToolCertOp(env *zvwWEnv, td *zvwRToolDir, r *mrand.Rand, op string, remote bool, force int) (zvwRLabel, string) {
	srv := &server{ShimAgent: env.shim, pivtoolpath: td.path, remote: remote}
	slot := zvwWSlots[r.Intn(7)] // two hex digits
	if r.Intn(4) == 0 {
		slot = zvwWSlots[r.Intn(len(zvwWSlots))] // any name: a served agent may refuse it before it runs the tool
	}
	var out []byte
	kind := []string{"pem", "pem-trailing-text", "garbage", "empty", "two-pem"}[r.Intn(5)]
	ci := r.Intn(len(zvwX509Pool()))
	if force >= 0 { // exported: the tool prints this certificate, for a well-formed slot name
		kind, ci, slot = "pem", force%len(zvwX509Pool()), zvwWSlots[force%7]
	}
	crt := zvwX509Pool()[ci]
	p := pem.EncodeToMemory(&pem.Block{Type: "CERTIFICATE", Bytes: crt.Raw})
	switch kind {
	case "pem":
		out = p
	case "pem-trailing-text":
		out = append(append([]byte{}, p...), []byte("Successfully read certificate\n")...)
	case "garbage":
		out = zvwRndBytes(r, 1+r.Intn(200))
	case "empty":
		out = nil
	case "two-pem":
		out = append(append([]byte{}, p...), pem.EncodeToMemory(&pem.Block{Type: "CERTIFICATE", Bytes: zvwX509Pool()[0].Raw})...)
	}
	exit := 0
	if r.Intn(4) == 0 && force < 0 {
		exit = 1 + r.Intn(3)
	}
	lab := zvwRLabel{Op: op, Mode: "tool", Method: map[string]string{"readslot": "ReadSlot", "attestslot": "AttestSlot"}[op], Ncalls: 1,
		Lines: []zvwRLine{}, Slots: []string{}, Exit: exit, Remote: remote, Steq: true, Code: map[string]int{"readslot": 33, "attestslot": 34}[op]}
	action := map[string]string{"readslot": "read-certificate", "attestslot": "attest"}[op]
	call := func(a YubiAgent) (*x509.Certificate, error) {
		if op == "readslot" {
			return a.ReadSlot(slot)
		}
		return a.AttestSlot(slot)
	}
	var dc, cc *x509.Certificate
	var derr, cerr error
	func() {
		defer func() {
			if p := recover(); p != nil {
				lab.Pan = true
			}
		}()
		td.arm(out, exit)
		dc, derr = call(srv)
		inv1 := td.ran()
		td.arm(out, exit)
		pair := zvwNewPair(srv)
		cc, cerr = call(pair.cl)
		pair.close()
		if pair.pan != nil {
			lab.Pan = true
		}
		inv2 := td.ran()
		lab.Toolran = len(inv1) > 0 || len(inv2) > 0
		want := []string{"-a", action, "-s", slot}
		// whenever the tool ran it was asked for this action and this slot (a served agent may refuse a request
		// without running it)
		lab.Argeq = true
		for _, inv := range [][][]string{inv1, inv2} {
			if len(inv) > 1 || (len(inv) == 1 && !zvwStrsEq(inv[0], want)) {
				lab.Argeq = false
			}
		}
	}()
	lab.Aerr, lab.Cerr = derr != nil, cerr != nil
	lab.Reseq = (dc == nil && cc == nil) || (dc != nil && cc != nil && bytes.Equal(dc.Raw, cc.Raw))
	if derr == nil && (dc == nil || !bytes.Equal(dc.Raw, crt.Raw)) {
		lab.Reseq = false // the agent itself must return the certificate the tool printed first
	}
	if kind == "pem" || kind == "two-pem" {
		lab.Shape = "toolpem" // the tool printed certificates a served agent can hold (and nothing else)
	}
	return lab, fmt.Sprintf("%s-%s-slot%s", kind, zvwRCertTags[ci], hex.EncodeToString([]byte(slot)))
}

// ---------------------------------------------------------------------------------------------
// the real zvwTwin

func zvwStateTag(e *zvwWEnv) string {
	h := sha256.New()
	lockedProbe := e.kr.Unlock([]byte("\x00verif-probe"))
	if lockedProbe != nil && lockedProbe.Error() == "agent: not locked" {
		h.Write([]byte("unlocked"))
	} else {
		h.Write([]byte("locked"))
	}
	add := func(ks []*agent.Key, err error) {
		o := []string{}
		for _, k := range ks {
			o = append(o, string(k.Blob)+"\x00"+k.Comment)
		}
		sort.Strings(o)
		fmt.Fprintf(h, "|%d|%v|", len(o), err != nil)
		for _, s := range o {
			h.Write([]byte(s))
			h.Write([]byte{0})
		}
	}
	add(e.kr.List())
	add(e.srv.List()) // includes the in-memory hardware certificates of the shim
	return hex.EncodeToString(h.Sum(nil))[:16]
}

type zvwTwin struct {
	a, b *zvwWEnv
	pair *zvwRPair
	td   *zvwRToolDir
	pass [][]byte
}

func (t *zvwTwin) ensure() {
	if t.pair == nil || t.pair.ended() {
		if t.pair != nil {
			t.pair.close()
		}
		t.pair = zvwNewPair(t.a.srv)
	}
}

// realOp applies one operation through the client to server A and directly to server B.
func (t *zvwTwin) realOp(r *mrand.Rand, op string) (lab zvwRLabel, vr string) {
	t.ensure()
	lab = zvwRLabel{Op: op, Code: -1, Mode: "real", Remote: true, Lines: []zvwRLine{}, Slots: []string{}, Steq: true, Argeq: true, Reseq: true, Ncalls: 1}
	cl, d := t.pair.cl, YubiAgent(t.b.srv)
	var ce, de error
	t.td.arm([]byte("Slot 9a:\t\n"), 0)
	func() {
		defer func() {
			if p := recover(); p != nil {
				lab.Pan = true
			}
		}()
		pickPub := func() ssh.PublicKey {
			switch r.Intn(4) {
			case 0:
				return t.a.held[0].Pub
			case 1:
				return t.a.held[1].Pub
			case 2:
				return zvwWHeldCert()
			}
			return zvwRndPub(r, "k1")
		}
		switch op {
		case "list":
			x, e1 := cl.List()
			y, e2 := d.List()
			ce, de = e1, e2
			lab.Reseq = zvwKeysEq(x, y)
		case "signers":
			// the agent protocol has no "signers" request: the client builds its signers from a list request, so
			// the reference is the served agent's List (AgentWire: MethodOf["signers"] = "List")
			x, e1 := cl.Signers()
			y, e2 := d.List()
			ce, de = e1, e2
			got := []*agent.Key{}
			for _, s := range x {
				got = append(got, &agent.Key{Format: s.PublicKey().Type(), Blob: s.PublicKey().Marshal()})
			}
			exp := []*agent.Key{}
			for _, k := range y {
				exp = append(exp, &agent.Key{Format: k.Format, Blob: k.Blob})
			}
			lab.Reseq = zvwKeysEq(got, exp)
		case "sign":
			key := pickPub()
			data := zvwRndBytes(r, zvwRndSize(r, 65536))
			fl := []agent.SignatureFlags{0, 2, 4}[r.Intn(3)]
			x, e1 := cl.SignWithFlags(key, data, fl)
			y, e2 := d.SignWithFlags(key, data, fl)
			ce, de = e1, e2
			vk := key
			if c, ok := key.(*ssh.Certificate); ok {
				vk = c.Key
			}
			lab.Reseq = (e1 == nil) == (e2 == nil)
			if e1 == nil && e2 == nil {
				lab.Reseq = x.Format == y.Format && vk.Verify(data, x) == nil && vk.Verify(data, y) == nil
			}
			vr = fmt.Sprintf("d%d-f%d", len(data), fl)
		case "add", "addc":
			kp := zvwRndKeyPair(r, "k2")
			ak := agent.AddedKey{PrivateKey: kp.Priv, Comment: zvwRndComment(r)}
			if op == "addc" {
				ak.LifetimeSecs = 1000 + uint32(r.Intn(100000))
				ak.ConfirmBeforeUse = false
			}
			ce, de = cl.Add(ak), d.Add(ak)
			vr = kp.Kind
		case "remove":
			key := pickPub()
			ce, de = cl.Remove(key), d.Remove(key)
		case "removeall":
			ce, de = cl.RemoveAll(), d.RemoveAll()
		case "lock", "unlock":
			p := t.pass[r.Intn(len(t.pass))]
			if op == "lock" {
				ce, de = cl.Lock(p), d.Lock(p)
			} else {
				ce, de = cl.Unlock(p), d.Unlock(p)
			}
		case "ahc_s", "ahc_l":
			var key ssh.PublicKey = zvwWHeldCert()
			if r.Intn(3) == 0 {
				key = pickPub()
			}
			cm := zvwRndComment(r)
			if op == "ahc_s" {
				ce, de = cl.AddHardCert(key, cm), d.AddHardCert(key, cm)
			} else {
				resp, err := cl.Forward(append([]byte{AgentMessageAddHardCert}, key.Marshal()...))
				ce = err
				if err == nil && string(resp) != "SUCCESS" {
					ce = errors.New(string(resp))
				}
				de = d.AddHardCert(key, "")
			}
		case "listslots":
			_, ce = cl.ListSlots()
			_, de = d.ListSlots()
		case "readslot":
			_, ce = cl.ReadSlot("9a")
			_, de = d.ReadSlot("9a")
		case "attestslot":
			_, ce = cl.AttestSlot("9a")
			_, de = d.AttestSlot("9a")
		case "wait":
			w := byte(40 + r.Intn(216))
			ce, de = cl.Wait(w), d.Wait(w)
		case "forward":
			req := append([]byte{zvwRndFwdCode(r)}, zvwRndBytes(r, zvwRndSize(r, 2000))...)
			x, e1 := cl.Forward(req)
			y, e2 := d.Forward(req)
			ce, de = e1, e2
			lab.Reseq = bytes.Equal(x, y)
		}
	}()
	lab.Cerr, lab.Aerr = ce != nil, de != nil
	if lab.Cerr != lab.Aerr {
		lab.Reseq = false
	}
	lab.Toolran = len(t.td.ran()) > 0
	if t.pair.panicked() {
		lab.Pan = true
		select {
		case <-t.pair.done:
		case <-time.After(5 * time.Second):
		}
	}
	lab.Steq = zvwStateTag(t.a) == zvwStateTag(t.b)
	return lab, vr
}

// ---------------------------------------------------------------------------------------------

func TestVerifRpc(t *testing.T) {
	planPath, outPath := os.Getenv("VERIF_PLAN"), os.Getenv("VERIF_OUT")
	if planPath == "" || outPath == "" {
		t.Skip("VERIF_PLAN / VERIF_OUT not set")
	}
	stdlog.SetOutput(io.Discard)
	var plan zvwRPlan
	raw, err := os.ReadFile(planPath)
	if err != nil {
		t.Fatal(err)
	}
	if err := json.Unmarshal(raw, &plan); err != nil {
		t.Fatal(err)
	}
	tr, err := verifh.OpenTrace(outPath)
	if err != nil {
		t.Fatal(err)
	}
	base, err := os.MkdirTemp(filepath.Dir(outPath), "s")
	if err != nil {
		t.Fatal(err)
	}
	defer os.RemoveAll(base)
	if plan.Workers <= 0 {
		plan.Workers = 3
	}
	if plan.Reps <= 0 {
		plan.Reps = 1
	}
	zvwX509Pool()
	seed := verifh.Seed()

	var jobs []zvwRGen
	for i := range plan.Cases {
		reps := plan.Reps
		if (plan.Cases[i].Op == "ahc_s" || plan.Cases[i].Op == "ahc_l") && reps < len(zvwRKinds) {
			reps = len(zvwRKinds) // every key type
		}
		if op := plan.Cases[i].Op; (op == "readslot" || op == "attestslot") && reps < 4+len(zvwBoundSizes)+len(zvwX509Pool()) {
			reps = 4 + len(zvwBoundSizes) + len(zvwX509Pool()) // every result shape, every boundary size of the response, every certificate class
		}
		if op := plan.Cases[i].Op; (op == "ahc_s" || op == "wait") && reps < len(zvwBoundSizes)+2 {
			reps = len(zvwBoundSizes) + 2
		}
		if plan.Cases[i].Op == "forward" && reps < 2*len(zvwBoundSizes)+2 {
			reps = 2*len(zvwBoundSizes) + 2
		}
		for r := 0; r < reps; r++ {
			c := plan.Cases[i]
			jobs = append(jobs, zvwRGen{Kind: "case", I: i, R: r, Seed: seed, Case: &c})
		}
	}
	for i := range plan.Tools {
		tl := plan.Tools[i]
		jobs = append(jobs, zvwRGen{Kind: "tool", I: i, Seed: seed, Tool: &tl})
	}
	for i := 0; i < 2*len(zvwX509Pool()); i++ { // every certificate class printed by the tool, for read and for attest
		jobs = append(jobs, zvwRGen{Kind: "toolcert", I: i, Seed: seed})
	}
	for i := 0; i < plan.Random; i++ {
		jobs = append(jobs, zvwRGen{Kind: "hist", I: i, Seed: seed, HistLen: plan.HistLen})
	}
	jobs = append(jobs, plan.Replays...)

	var mu sync.Mutex
	stats := map[string]int{}
	labels := map[string]bool{}
	var samples []interface{}
	type step struct {
		lab  zvwRLabel
		vr   string
		post string
	}
	emit := func(g zvwRGen, tid string, steps []step, h0 string) {
		recs := []interface{}{zvwRRec{Ev: "reset", Fam: "r", Tid: tid, Post: zvwRSt{H: h0}, Info: map[string]interface{}{"gen": g}}}
		pre := h0
		mu.Lock()
		for i := range steps {
			p := zvwRSt{H: pre}
			l := steps[i].lab
			if l.Lines == nil {
				l.Lines = []zvwRLine{}
			}
			if l.Slots == nil {
				l.Slots = []string{}
			}
			if l.Shape == "" {
				l.Shape = "normal"
			}
			recs = append(recs, zvwRRec{Ev: "step", Fam: "r", Tid: tid, Pre: &p, E: &l, Post: zvwRSt{H: steps[i].post}, Info: map[string]string{"var": steps[i].vr}})
			pre = steps[i].post
			stats["steps"]++
			if l.Pan {
				stats["panics"]++
			}
			labels[fmt.Sprintf("%s/%s/%v/%v/%v/%v/%v/%v/%d/%v/%s", l.Mode, l.Op, l.Argeq, l.Reseq, l.Aerr, l.Cerr, l.Pan, l.Remote, l.Exit, l.Toolran, l.Shape)] = true
			if len(samples) < 8 && stats["steps"]%211 == 1 {
				samples = append(samples, map[string]interface{}{"tid": tid, "mode": l.Mode, "op": l.Op, "variant": steps[i].vr, "code_on_wire": l.Code,
					"agent_method": l.Method, "args_equal": l.Argeq, "result_equal": l.Reseq, "agent_error": l.Aerr, "client_error": l.Cerr})
			}
		}
		stats[g.Kind+"s"]++
		mu.Unlock()
		tr.EmitAll(recs)
	}

	opsAll := []string{"list", "sign", "add", "addc", "remove", "removeall", "lock", "unlock", "signers", "ahc_s", "ahc_l", "listslots",
		"readslot", "attestslot", "wait", "forward", "addsc", "rmsc"}
	opsReal := []string{"list", "sign", "sign", "add", "addc", "remove", "removeall", "lock", "unlock", "signers", "ahc_s", "ahc_l", "listslots",
		"readslot", "attestslot", "wait", "forward", "list"}
	defArgs := map[string]string{"key": "k1", "data": "d1", "flags": "f0", "lt": "60", "cf": "y", "pass": "p1", "comment": "c1", "slot": "9a", "w": "w40", "raw": "r1"}

	var wg sync.WaitGroup
	ch := make(chan zvwRGen, 64)
	for w := 0; w < plan.Workers; w++ {
		wg.Add(1)
		go func(wid int) {
			defer wg.Done()
			td := zvwNewToolDir(base, wid)
			var env *zvwWEnv
			getEnv := func() *zvwWEnv {
				if env == nil {
					env = zvwNewWEnv(base, verifh.NewRand("rpc-env", int64(wid)), true, td.path)
				}
				return env
			}
			defer func() {
				if env != nil {
					env.close()
				}
			}()
			for g := range ch {
				switch g.Kind {
				case "case":
					r := verifh.NewRand("rpc-case", int64(g.I*1000+g.R))
					c := &zvwRCtx{r: r, rec: &zvwRecAgent{}, kind: g.R}
					lab, vr := c.recOp(g.Case.Op, g.Case.A)
					c.pair.close()
					emit(g, fmt.Sprintf("c%d_%d", g.I, g.R), []step{{lab, vr, ""}}, "")
				case "toolcert":
					r := verifh.NewRand("rpc-toolcert", int64(g.I))
					lab, vr := zvwToolCertOp(getEnv(), td, r, []string{"readslot", "attestslot"}[g.I%2], false, g.I/2)
					emit(g, fmt.Sprintf("tc%d", g.I), []step{{lab, vr, ""}}, "")
				case "tool":
					var parts []string
					r := verifh.NewRand("rpc-tool", int64(g.I))
					for _, tk := range g.Tool.Text {
						v := zvwRLineTexts[tk]
						parts = append(parts, v[r.Intn(len(v))])
					}
					out := strings.Join(parts, "\n")
					if len(parts) > 0 && r.Intn(2) == 0 {
						out += "\n"
					}
					var steps []step
					for _, x := range zvwToolListSlots(getEnv(), td, out, g.Tool.Exit, false) {
						steps = append(steps, step{x.lab, x.vr, ""})
					}
					if g.I%16 == 0 { // the same output behind a remote-mode server: refused, tool not run
						for _, x := range zvwToolListSlots(getEnv(), td, out, g.Tool.Exit, true) {
							steps = append(steps, step{x.lab, x.vr, ""})
						}
					}
					emit(g, fmt.Sprintf("t%d", g.I), steps, "")
				case "hist":
					r := verifh.NewRand("rpc-hist", int64(g.I))
					var steps []step
					h0 := ""
					switch g.I % 3 {
					case 0: // recording agent, one connection
						c := &zvwRCtx{r: r, rec: &zvwRecAgent{}, kind: -1}
						for k := 0; k < g.HistLen; k++ {
							op := opsAll[r.Intn(len(opsAll))]
							a := map[string]string{}
							for f, v := range defArgs {
								a[f] = v
							}
							if r.Intn(2) == 0 {
								a["comment"], a["data"] = "", "d0"
							}
							a["flags"] = []string{"f0", "f2", "f4"}[r.Intn(3)]
							a["lt"], a["cf"] = []string{"0", "60"}[r.Intn(2)], []string{"n", "y"}[r.Intn(2)]
							lab, vr := c.recOp(op, a)
							steps = append(steps, step{lab, vr, ""})
						}
						if c.pair != nil {
							c.pair.close()
						}
					case 1: // real zvwTwin
						tw := &zvwTwin{a: zvwNewWEnv(base, verifh.NewRand("rpc-twa", int64(g.I)), true, td.path),
							b: zvwNewWEnv(base, verifh.NewRand("rpc-twb", int64(g.I)), true, td.path), td: td,
							pass: [][]byte{zvwRndBytes(r, r.Intn(30)), zvwRndBytes(r, 1+r.Intn(30))}}
						h0 = zvwStateTag(tw.a)
						for k := 0; k < g.HistLen; k++ {
							lab, vr := tw.realOp(r, opsReal[r.Intn(len(opsReal))])
							steps = append(steps, step{lab, vr, zvwStateTag(tw.a)})
						}
						if tw.pair != nil {
							tw.pair.close()
						}
						tw.a.close()
						tw.b.close()
					default: // the fake tool: random outputs for ListSlots, certificates for ReadSlot / AttestSlot
						for k := 0; k < g.HistLen; k++ {
							remote := r.Intn(5) == 0
							switch r.Intn(3) {
							case 0:
								var parts []string
								for n := r.Intn(7); n > 0; n-- {
									switch r.Intn(4) {
									case 0:
										s := zvwWSlots[r.Intn(7)]
										parts = append(parts, "Slot "+s+[]string{":\t", "", ":", " extra text"}[r.Intn(4)])
									case 1:
										parts = append(parts, "Slot 9a:\t"[:r.Intn(10)])
									case 2:
										parts = append(parts, strings.ReplaceAll(strings.ReplaceAll(zvwRndComment(r), "\n", " "), ",", ";"))
									default:
										v := zvwRLineTexts["other"]
										parts = append(parts, v[r.Intn(len(v))])
									}
								}
								out := strings.Join(parts, "\n")
								if r.Intn(2) == 0 {
									out += "\n"
								}
								exit := 0
								if r.Intn(5) == 0 {
									exit = 1
								}
								for _, x := range zvwToolListSlots(getEnv(), td, out, exit, remote) {
									steps = append(steps, step{x.lab, x.vr, ""})
								}
							case 1:
								lab, vr := zvwToolCertOp(getEnv(), td, r, "readslot", remote, -1)
								steps = append(steps, step{lab, vr, ""})
							default:
								lab, vr := zvwToolCertOp(getEnv(), td, r, "attestslot", remote, -1)
								steps = append(steps, step{lab, vr, ""})
							}
						}
					}
					emit(g, fmt.Sprintf("h%d", g.I), steps, h0)
				}
			}
		}(w)
	}
	for _, g := range jobs {
		ch <- g
	}
	close(ch)
	wg.Wait()
	if err := tr.Close(); err != nil {
		t.Fatal(err)
	}
	stats["distinct_labels"] = len(labels)
	stats["histories"] = stats["hists"]
	b, _ := json.Marshal(map[string]interface{}{"stats": stats, "samples": samples})
	fmt.Printf("VERIF-SUMMARY %s\n", b)
}
