//go:build verif

package yubiagent

// Conformance harness for spec/AgentWire.tla, part 1 (property C12): the real ServeAgent as a consumer of byte
// streams.  The harness zvwOnly drives and observes: it instantiates abstract items (exported by TLC, or drawn from a
// seeded grammar) with concrete bytes, feeds them to ServeAgent serving a real *server (remote mode) whose
// ShimAgent is a real shimagent.Server over a real x/crypto keyring (behind verifh.Proxy on a unix socket), parses
// the response bytes with its own framer, attributes every response to the item the server had consumed when it
// was written, and records one step per item.  TLC judges the steps (spec/TraceWire.tla).

import (
	"bytes"
	"crypto/ed25519"
	crand "crypto/rand"
	"crypto/sha256"
	"encoding/binary"
	"encoding/hex"
	"encoding/json"
	"errors"
	"fmt"
	"io"
	stdlog "log"
	mrand "math/rand"
	"net"
	"os"
	"path/filepath"
	"reflect"
	"runtime"
	"runtime/debug"
	"sort"
	"sync"
	"testing"
	"time"

	"github.com/theparanoids/ysshra/agent/shimagent"
	"github.com/theparanoids/ysshra/verifh"
	"golang.org/x/crypto/ssh"
	"golang.org/x/crypto/ssh/agent"
)

// ---------------------------------------------------------------------------------------------
// plan and records

type zvwWIt struct {
	K    string `json:"k"`
	Code int    `json:"code"`
	Len  string `json:"len"`
	Body string `json:"body"`
	Aux  string `json:"aux"`
}

// zvwWCItem is an item with its concrete bytes.
type zvwWCItem struct {
	It   zvwWIt `json:"it"`
	Var  string `json:"var"` // concrete variant (diagnostics and violation keys zvwOnly)
	Det  string `json:"det"` // further detail (lengths)
	Hex  string `json:"hex"`
	b    []byte
	base int // add requests: length of the part before the constraint bytes
}

type zvwWReplay struct {
	Items []zvwWCItem `json:"items"`
	Conn  string      `json:"conn"`
}

type zvwWPlan struct {
	Streams   [][]zvwWIt        `json:"streams"` // abstract streams exported by TLC
	Groups    map[string][]int  `json:"groups"`  // dispatch group -> all codes of the group (from TLC)
	GroupOf   map[string]string `json:"group_of"`
	RespSizes map[string][]int  `json:"resp_sizes"` // response size class -> every size of the class (from TLC)
	Sweep     bool              `json:"sweep"`      // every code 0..255 in every frame shape
	Random    int               `json:"random"`     // number of random / grammar-derived streams
	MaxLen    int               `json:"maxlen"`
	PipeEvery int               `json:"pipe_every"` // every n-th stream runs over a net.Pipe instead of the in-memory connection
	Replays   []zvwWReplay      `json:"replays"`
	Workers   int               `json:"workers"`
}

type zvwWSt struct {
	Pos int    `json:"pos"`
	St  string `json:"st"`
	Out []int  `json:"out"`
}

// zvwWLabel is what was observed for one whole stream (independent of how the server reads its input).
type zvwWLabel struct {
	Items   []zvwWIt `json:"items"`
	Nrep    int      `json:"nrep"` // response frames written (a trailing incomplete frame counts as one)
	Nrel    int      `json:"nrel"` // pending waits released from a second connection
	Pan     bool     `json:"pan"`
	Big     bool     `json:"big"`
	Sized   int      `json:"sized"`   // requests whose response content the harness knows (sized responses of the underlying agent)
	SizedOK int      `json:"sizedok"` // ... of which arrived as intact frames with that content, in request order
	Conc    int      `json:"conc"`    // connections served by the same server at the same time (1 = this one alone)
	Kinds   []string `json:"kinds"`   // conc > 1 (lock step): kind of the response to the i-th frame
}

type zvwWRec struct {
	Ev   string      `json:"ev"`
	Fam  string      `json:"fam"`
	Tid  string      `json:"tid"`
	Pre  *zvwWSt     `json:"pre,omitempty"`
	E    *zvwWLabel  `json:"e,omitempty"`
	Post zvwWSt      `json:"post"`
	Info interface{} `json:"info,omitempty"`
}

// ---------------------------------------------------------------------------------------------
// the connection handed to ServeAgent: records when the server asks for input and what it writes

type zvwWEvent struct {
	kind byte // 'r' = Read entered, 'w' = bytes written, 'x' = the harness releases a pending wait
	off  int  // input bytes consumed so far
	data []byte
}

type zvwWConn struct {
	mu   sync.Mutex
	in   []byte   // in-memory mode: the whole stream
	pipe net.Conn // pipe mode: the server's end of a net.Pipe
	off  int
	log  []zvwWEvent
	sig  chan struct{}
	// allocation measurement: TotalAlloc is sampled when the server asks for the first byte of the (first)
	// oversize item and again when ServeAgent returns
	markOff int
	m0      *runtime.MemStats
}

func (c *zvwWConn) note(e zvwWEvent) {
	c.mu.Lock()
	e.off = c.off
	c.log = append(c.log, e)
	c.mu.Unlock()
	select {
	case c.sig <- struct{}{}:
	default:
	}
}

func (c *zvwWConn) Read(p []byte) (int, error) {
	c.note(zvwWEvent{kind: 'r'})
	if off := c.consumed(); c.markOff >= 0 && c.m0 == nil && off <= c.markOff && off+len(p) > c.markOff {
		c.m0 = &runtime.MemStats{}
		runtime.ReadMemStats(c.m0)
	}
	if c.pipe != nil {
		n, err := c.pipe.Read(p)
		c.mu.Lock()
		c.off += n
		c.mu.Unlock()
		return n, err
	}
	c.mu.Lock()
	defer c.mu.Unlock()
	if c.off >= len(c.in) {
		return 0, io.EOF
	}
	n := copy(p, c.in[c.off:])
	c.off += n
	return n, nil
}

func (c *zvwWConn) Write(p []byte) (int, error) {
	c.note(zvwWEvent{kind: 'w', data: append([]byte{}, p...)})
	if c.pipe != nil && len(p) > 0 { // (a zero-length write on a net.Pipe would block until the peer reads)
		return c.pipe.Write(p)
	}
	return len(p), nil
}

func (c *zvwWConn) consumed() int {
	c.mu.Lock()
	defer c.mu.Unlock()
	return c.off
}

func (c *zvwWConn) lastReadAt() int {
	c.mu.Lock()
	defer c.mu.Unlock()
	for i := len(c.log) - 1; i >= 0; i-- {
		if c.log[i].kind == 'r' {
			return c.log[i].off
		}
	}
	return -1
}

// ---------------------------------------------------------------------------------------------
// environment: a real *server over a real shim over a real keyring

var zvwWCA = verifh.GenKey("wire-ca", "ed25519")

var zvwWHeldCertOnce sync.Once
var zvwWHeldCertV *ssh.Certificate

// zvwWHeldCert is a certificate for the first key every environment holds.
func zvwWHeldCert() *ssh.Certificate {
	zvwWHeldCertOnce.Do(func() {
		zvwWHeldCertV = verifh.Mint(zvwWCA.Signer, verifh.CertSpec{Key: verifh.PoolKey(0, "ed25519").Pub, KeyID: "wire-cert", ValidAfter: 0,
			ValidBefore: uint64(time.Now().Unix() + 86400), Principals: []string{"u"}, Serial: 7})
	})
	return zvwWHeldCertV
}

type zvwWEnv struct {
	dir    string
	kr     agent.Agent
	px     *verifh.Proxy
	ln     net.Listener
	shim   shimagent.ShimAgent
	srv    *server
	held   []*verifh.KeyPair
	cert   *ssh.Certificate // certificate for held[0]
	pmu    sync.Mutex
	poison map[string]bool
	sized  map[string]int // request -> size of the response the underlying agent gives to it
	rnd    *mrand.Rand
	n      int
}

var zvwWSockSeq int
var zvwWSockMu sync.Mutex

func zvwNewWEnv(base string, rnd *mrand.Rand, remote bool, tool string) *zvwWEnv {
	e := &zvwWEnv{rnd: rnd, poison: map[string]bool{}, sized: map[string]int{}}
	zvwWSockMu.Lock()
	zvwWSockSeq++
	sock := filepath.Join(base, fmt.Sprintf("a%d.sock", zvwWSockSeq))
	zvwWSockMu.Unlock()
	e.dir = sock
	e.kr = agent.NewKeyring()
	e.held = []*verifh.KeyPair{verifh.PoolKey(0, "ed25519"), verifh.PoolKey(1, "ecdsa256")}
	for i, k := range e.held {
		if err := e.kr.Add(agent.AddedKey{PrivateKey: k.Priv, Comment: fmt.Sprintf("held-%d", i)}); err != nil {
			panic(err)
		}
	}
	e.cert = zvwWHeldCert()
	ln, err := net.Listen("unix", sock)
	if err != nil {
		panic(err)
	}
	e.ln = ln
	e.px = verifh.NewProxyIdle(e.kr, mrand.New(mrand.NewSource(rnd.Int63())))
	e.px.Gate = func(req []byte) {
		e.pmu.Lock()
		hit := e.poison[string(req)]
		e.pmu.Unlock()
		if hit { // the underlying agent goes away on this request
			e.px.ArmAt("close", len(e.px.Frames())+1)
		}
	}
	e.px.Rewrite = func(req, reply []byte) []byte {
		e.pmu.Lock()
		n, ok := e.sized[string(req)]
		e.pmu.Unlock()
		if ok { // the underlying agent answers this request with a response of exactly n bytes
			return zvwSizedReply(req, n)
		}
		return reply
	}
	acc := make(chan struct{})
	go func() {
		c, err := ln.Accept()
		if err == nil {
			e.px.Serve(c)
		}
		close(acc)
	}()
	if remote && tool == "" {
		// the exported constructor: shimagent.New over the socket, wrapped into the yubiagent server
		ya, err := NewServer(sock, true)
		if err != nil {
			panic(fmt.Sprintf("verif: NewServer failed on a healthy agent: %v", err))
		}
		<-acc
		e.srv = ya.(*server)
		e.shim = e.srv.ShimAgent
		return e
	}
	shim, err := shimagent.New(shimagent.Option{Address: sock})
	if err != nil {
		panic(fmt.Sprintf("verif: shimagent.New failed on a healthy agent: %v", err))
	}
	<-acc
	e.shim = shim
	e.srv = &server{ShimAgent: shim, pivtoolpath: tool, remote: remote}
	return e
}

// zvwSizedReply: the n response bytes the underlying agent gives to req (a pattern derived from the request).
func zvwSizedReply(req []byte, n int) []byte {
	out := make([]byte, n)
	h := sha256.Sum256(req)
	for i := 0; i < n; i += len(h) {
		copy(out[i:], h[:])
		h[0]++
		h[i%len(h)] ^= byte(i >> 5)
	}
	return out
}

// zvwRespSize reads the response size off the variant name of a sized item ("resp-<n>"), -1 when there is none.
func zvwRespSize(it zvwWCItem) int {
	var n int
	if it.It.K == "frame" && len(it.It.Aux) > 1 && it.It.Aux[0] == 'r' {
		if _, err := fmt.Sscanf(it.Var, "resp-%d", &n); err == nil {
			return n
		}
	}
	return -1
}

func (e *zvwWEnv) close() {
	e.ln.Close()
	e.px.Close()
	os.Remove(e.dir)
}

// waiters returns, per message code, the number of goroutines parked in shimagent.Server.Wait(code), or nil when the
// implementation does not keep them where this observer can count them (then zvwRunStream falls back to "nothing
// happened on the connection for a while").
func (e *zvwWEnv) waiters() (out map[int]int) {
	defer func() {
		if recover() != nil {
			out = nil
		}
	}()
	s, ok := e.shim.(*shimagent.Server)
	if !ok {
		return nil
	}
	conds := reflect.ValueOf(s).Elem().FieldByName("conds")
	if !conds.IsValid() || (conds.Kind() != reflect.Array && conds.Kind() != reflect.Slice) {
		return nil
	}
	out = map[int]int{}
	for i := 0; i < conds.Len(); i++ {
		c := conds.Index(i)
		if c.Kind() != reflect.Ptr || c.IsNil() {
			return nil
		}
		nl := c.Elem().FieldByName("notify")
		if !nl.IsValid() || !nl.FieldByName("wait").IsValid() || !nl.FieldByName("notify").IsValid() {
			return nil
		}
		if n := int(uint32(nl.FieldByName("wait").Uint()) - uint32(nl.FieldByName("notify").Uint())); n > 0 {
			out[i] = n
		}
	}
	return out
}

// ---------------------------------------------------------------------------------------------
// concrete instantiation of abstract items

func zvwWFrame(body []byte) []byte {
	b := make([]byte, 4+len(body))
	binary.BigEndian.PutUint32(b, uint32(len(body)))
	copy(b[4:], body)
	return b
}

// capture returns the request the x/crypto client writes for a call.
type zvwWCapture struct {
	req   []byte
	reply []byte
	rd    *bytes.Reader
}

func (c *zvwWCapture) Write(p []byte) (int, error) {
	c.req = append(c.req, p...)
	return len(p), nil
}
func (c *zvwWCapture) Read(p []byte) (int, error) {
	if c.rd == nil {
		c.rd = bytes.NewReader(zvwWFrame(c.reply))
	}
	return c.rd.Read(p)
}
func zvwWCaptureReq(f func(a agent.ExtendedAgent)) []byte {
	c := &zvwWCapture{reply: []byte{5}}
	f(agent.NewClient(c))
	if len(c.req) < 5 {
		panic("verif: nothing captured")
	}
	return c.req[4:]
}

func zvwRndBytes(r *mrand.Rand, n int) []byte {
	b := make([]byte, n)
	r.Read(b)
	return b
}

var zvwWUTF8 = []string{"", "plain", "héllo wörld", "日本語のコメント", "emoji \U0001F511 key", "quote\"back\\slash", "nul\x00byte", "line\nbreak", "\xff\xfe not utf8"}

func zvwRndComment(r *mrand.Rand) string {
	s := zvwWUTF8[r.Intn(len(zvwWUTF8))]
	if r.Intn(3) == 0 {
		s += string(zvwRndBytes(r, r.Intn(40)))
	}
	return s
}

// zvwTruncLifetime reports whether constraint bytes make x/crypto v0.35.0 parseConstraints slice beyond the buffer:
// a lifetime constraint (type 1) with fewer than four bytes behind it, reached after well-formed constraints.
func zvwTruncLifetime(c []byte) bool {
	for len(c) > 0 {
		switch c[0] {
		case 1:
			if len(c) < 5 {
				return true
			}
			c = c[5:]
		case 2:
			c = c[1:]
		default:
			return false
		}
	}
	return false
}

// zvwXcryptoPanics: does the pinned x/crypto agent server itself panic on this request (served on a scratch keyring)?
func zvwXcryptoPanics(body []byte) (pan bool) {
	defer func() {
		if recover() != nil {
			pan = true
		}
	}()
	var out bytes.Buffer
	_ = agent.ServeAgent(agent.NewKeyring(), struct {
		io.Reader
		io.Writer
	}{bytes.NewReader(zvwWFrame(body)), &out})
	return false
}

type zvwWGen struct {
	env       *zvwWEnv
	r         *mrand.Rand
	groups    map[string][]int
	small     bool // keep every body small (streams whose allocation is measured)
	rot       map[string]int
	respSizes map[string][]int
}

func (g *zvwWGen) size(max int) int {
	if g.small && max > 2048 {
		max = 2048
	}
	switch g.r.Intn(24) {
	case 0, 1, 2:
		return 0
	case 3, 4, 5:
		return 1
	case 6:
		return g.r.Intn(max + 1)
	default:
		if max > 200 {
			max = 200
		}
		return g.r.Intn(max + 1)
	}
}

func (g *zvwWGen) freshKey() *verifh.KeyPair {
	kinds := []string{"ed25519", "ecdsa256", "ecdsa384", "ecdsa521", "rsa2048"}
	return verifh.PoolKey(10+g.r.Intn(3), kinds[g.r.Intn(len(kinds))])
}

func (g *zvwWGen) anyPub() (ssh.PublicKey, string) {
	switch g.r.Intn(4) {
	case 0:
		return g.env.held[g.r.Intn(len(g.env.held))].Pub, "held"
	case 1:
		return g.env.cert, "heldcert"
	case 2:
		k := g.freshKey()
		return verifh.Mint(zvwWCA.Signer, verifh.CertSpec{Key: k.Pub, KeyID: zvwRndComment(g.r), ValidBefore: uint64(time.Now().Unix() + 3600)}), "unheldcert"
	default:
		return g.freshKey().Pub, "unheld"
	}
}

// validStd builds a well-formed request of a standard code with arguments.  base is the length of the part
// before the constraint bytes for add requests (0 otherwise).
func (g *zvwWGen) validStd(code int) (body []byte, v string, base int) {
	r := g.r
	switch code {
	case 13:
		k, kv := g.anyPub()
		data := zvwRndBytes(r, g.size(65536))
		fl := []agent.SignatureFlags{0, 2, 4, 0}[r.Intn(4)]
		return zvwWCaptureReq(func(a agent.ExtendedAgent) { a.SignWithFlags(k, data, fl) }), fmt.Sprintf("sign-%s-d%d-f%d", kv, len(data), fl), 0
	case 17, 25:
		k := g.freshKey()
		ak := agent.AddedKey{PrivateKey: k.Priv, Comment: zvwRndComment(r)}
		v = "add-" + k.Kind
		if r.Intn(3) == 0 {
			ak.Certificate = verifh.Mint(zvwWCA.Signer, verifh.CertSpec{Key: k.Pub, KeyID: "w", ValidBefore: uint64(time.Now().Unix() + 3600)})
			v += "-cert"
		}
		plain := zvwWCaptureReq(func(a agent.ExtendedAgent) { a.Add(ak) })
		if code == 25 {
			ak.LifetimeSecs = uint32(1 + r.Intn(100000))
			ak.ConfirmBeforeUse = r.Intn(2) == 0
			v += fmt.Sprintf("-lt%d-cf%v", ak.LifetimeSecs, ak.ConfirmBeforeUse)
			return zvwWCaptureReq(func(a agent.ExtendedAgent) { a.Add(ak) }), v, len(plain)
		}
		return plain, v, len(plain)
	case 18:
		k, kv := g.anyPub()
		return zvwWCaptureReq(func(a agent.ExtendedAgent) { a.Remove(k) }), "remove-" + kv, 0
	case 22:
		p := zvwRndBytes(r, g.size(100))
		return zvwWCaptureReq(func(a agent.ExtendedAgent) { a.Lock(p) }), fmt.Sprintf("lock-p%d", len(p)), 0
	case 23:
		p := zvwRndBytes(r, g.size(100))
		return zvwWCaptureReq(func(a agent.ExtendedAgent) { a.Unlock(p) }), fmt.Sprintf("unlock-p%d", len(p)), 0
	}
	panic(fmt.Sprintf("verif: no valid body for code %d", code))
}

func (g *zvwWGen) validAHC(enc string) ([]byte, string) {
	k, kv := g.anyPub()
	if enc == "legacy" {
		return append([]byte{31}, k.Marshal()...), "legacy-" + kv
	}
	return ssh.Marshal(agentAddHardCertReq{KeyBlob: k.Marshal(), Comment: zvwRndComment(g.r)}), "struct-" + kv
}

var zvwWSlots = []string{"9a", "9c", "9d", "9e", "f9", "82", "95", "zz", "9", "9ab", "ü", "a b"}

// invalidStd: structurally broken request of a standard code with arguments.
func (g *zvwWGen) invalidStd(code int) ([]byte, string) {
	r := g.r
	if code == 17 || code == 25 {
		switch r.Intn(4) {
		case 0: // a truncated lifetime constraint behind a well-formed key
			k := g.freshKey()
			plain := zvwWCaptureReq(func(a agent.ExtendedAgent) { a.Add(agent.AddedKey{PrivateKey: k.Priv, Comment: "c"}) })
			plain[0] = byte(code)
			pre := [][]byte{{}, {2}, {1, 0, 0, 0, 9}, {1, 0, 0, 1, 0, 2}}[r.Intn(4)]
			tail := [][]byte{{1}, {1, 0}, {1, 0, 0}, {1, 0, 0, 0}}[r.Intn(4)]
			return append(append(plain, pre...), tail...), "lifetime-trunc"
		case 1: // unknown constraint type
			k := g.freshKey()
			plain := zvwWCaptureReq(func(a agent.ExtendedAgent) { a.Add(agent.AddedKey{PrivateKey: k.Priv, Comment: "c"}) })
			plain[0] = byte(code)
			return append(plain, byte(9+r.Intn(200)), 1, 2), "constraint-unknown"
		case 2: // unknown key type
			return append([]byte{byte(code)}, ssh.Marshal(struct{ T, R string }{"ssh-unknown", "x"})...), "keytype-unknown"
		}
	}
	b, v, base := g.validStd(code)
	// cut inside the fixed part (never inside the constraint bytes: that is the lifetime-trunc variant)
	lim := len(b)
	if base > 0 && base < lim {
		lim = base
	}
	cut := 1 + r.Intn(lim-1)
	return b[:cut], "cut-" + v
}

// concrete instantiates an abstract item.
func (g *zvwWGen) concrete(it zvwWIt) zvwWCItem {
	r := g.r
	ci := zvwWCItem{It: it}
	switch it.K {
	case "eof":
		ci.b, ci.Var = nil, "eof"
	case "tprefix":
		n := int(it.Len[1] - '0')
		p := [][]byte{{0, 0, 0, 5}, {0, 1, 0, 0}, {255, 255, 255, 255}, {1, 0, 0, 0}}[r.Intn(4)]
		ci.b, ci.Var = p[:n], fmt.Sprintf("prefix%d", n)
	case "tbody":
		var decl, have int
		if it.Code == -1 {
			decl, have = 1+r.Intn(300), 0
			if !g.small && r.Intn(40) == 0 {
				decl = 16 << 20
			}
		} else {
			decl = 2 + r.Intn(300)
			have = 1 + r.Intn(decl-1)
		}
		b := make([]byte, 4)
		binary.BigEndian.PutUint32(b, uint32(decl))
		ci.b, ci.Var, ci.Det = append(b, zvwRndBytes(r, have)...), "partial", fmt.Sprintf("declared %d, %d present", decl, have)
		if have == 0 {
			ci.Var = "have0"
		}
	case "oversize":
		ls := []uint32{16<<20 + 1, 16<<20 + 2, 17 << 20, 32 << 20, 64 << 20, 1<<31 - 1, 1 << 31, 1<<32 - 1, 16<<20 + 1 + uint32(r.Intn(48<<20)), uint32(1<<30) + uint32(r.Int31())}
		l := ls[r.Intn(len(ls))]
		b := make([]byte, 4)
		binary.BigEndian.PutUint32(b, l)
		ci.b, ci.Var, ci.Det = append(b, zvwRndBytes(r, r.Intn(17))...), "oversize", fmt.Sprintf("declared %d", l)
	case "frame":
		var body []byte
		c := it.Code
		switch {
		case it.Len == "0":
			body, ci.Var = []byte{}, "empty"
		case it.Len == "1":
			body, ci.Var = []byte{byte(c)}, "codeonly"
		case it.Body == "valid" && (c == 13 || c == 17 || c == 18 || c == 22 || c == 23 || c == 25):
			body, ci.Var, ci.base = g.validStd(c)
		case it.Body == "invalid" && c != 31:
			body, ci.Var = g.invalidStd(c)
		case c == 31 && it.Body == "valid":
			body, ci.Var = g.validAHC(it.Aux)
		case c == 31 && it.Body == "invalid":
			b, v := g.validAHC([]string{"legacy", "struct"}[r.Intn(2)])
			body, ci.Var = b[:1+r.Intn(len(b)-1)], "cut-"+v
			if len(body) == 1 {
				body = append(body, 0)
			}
		case (c == 33 || c == 34) && it.Body == "valid":
			s := zvwWSlots[r.Intn(len(zvwWSlots))]
			body, ci.Var = append([]byte{byte(c)}, s...), "slot-"+s
		case c == 35 && it.Body == "valid":
			w := 40 + r.Intn(216)
			if it.Aux == "pend" {
				w = r.Intn(40)
			}
			body, ci.Var = []byte{35, byte(w)}, fmt.Sprintf("wait-%d", w)
		case c == 35: // unknown body: waited code of the immediate class plus trailing bytes
			w := 40 + r.Intn(216)
			body, ci.Var = append([]byte{35, byte(w)}, zvwRndBytes(r, 1+r.Intn(20))...), fmt.Sprintf("wait-%d-extra", w)
		case len(it.Aux) > 1 && it.Aux[0] == 'r': // the underlying agent answers with a response of a size of this class
			// the relayed content is only demanded for codes that stay forwarded: the OpenSSH requests the standard
			// server does not implement and the band far away from yubiagent's own codes (a protocol extension may
			// answer a free code next to 31..35 itself)
			if !(c == 20 || c == 21 || c == 26 || c == 27 || c >= 64) {
				g.rot["rcode"]++
				c = append([]int{20, 21, 26, 27}, 64+(g.rot["rcode"]*37)%192)[g.rot["rcode"]%5]
				ci.It.Code = c
			}
			body = append([]byte{byte(c)}, zvwRndBytes(r, 12)...)
			cls := it.Aux
			if g.small && (cls == "r16m" || cls == "rover") {
				cls = "r64k" // (streams whose allocation is measured stay small; never happens for exported streams)
				ci.It.Aux = cls
			}
			sizes := g.respSizes[cls]
			if len(sizes) == 0 {
				sizes = map[string][]int{"rtiny": {0, 1, 2, 5}, "r4k": {4091, 4092, 4093, 4094, 4095, 4096, 4097, 4098},
					"r64k": {65531, 65532, 65533, 65534, 65535, 65536, 65537, 65538, 65539, 65540},
					"r16m": {16777212, 16777213, 16777214, 16777215, 16777216}, "rover": {16777217}}[cls]
			}
			g.rot[cls]++
			ci.Var = fmt.Sprintf("resp-%d", sizes[g.rot[cls]%len(sizes)])
		case it.Aux == "ufail":
			body = append([]byte{byte(c)}, zvwRndBytes(r, 12)...)
			g.env.pmu.Lock()
			g.env.poison[string(body)] = true
			g.env.pmu.Unlock()
			ci.Var = "underlying-closes"
		default: // unknown body
			body, ci.Var = append([]byte{byte(c)}, zvwRndBytes(r, 1+g.size(65536))...), "random"
		}
		ci.b = zvwWFrame(body)
		if (c == 17 || c == 25) && it.Len == "n" && ci.Var != "lifetime-trunc" && it.Body != "valid" && zvwXcryptoPanics(body) {
			ci.Var = "xcrypto-panic-other"
		}
	default:
		panic("verif: unknown item kind " + it.K)
	}
	ci.Hex = hex.EncodeToString(ci.b)
	return ci
}

// pick maps the code of an abstract item to a concrete code of the same dispatch group: every other time the
// model's own code, otherwise round robin over the whole group.
func (g *zvwWGen) pick(it zvwWIt, groupOf map[string]string) zvwWIt {
	if it.K != "frame" || it.Code < 0 {
		return it
	}
	grp := groupOf[fmt.Sprint(it.Code)]
	cs := g.groups[grp]
	if len(cs) == 0 {
		return it
	}
	g.rot[grp]++
	if g.rot[grp]%2 == 0 {
		return it
	}
	it.Code = cs[(g.rot[grp]/2)%len(cs)]
	return it
}

// ---------------------------------------------------------------------------------------------
// running one stream

type zvwWResult struct {
	lab     zvwWLabel
	final   string // ok | err | crashed | hung
	retErr  error
	pan     interface{}
	hung    bool
	alloc   uint64
	replies [][]byte
	attrib  []int // diagnostics only: responses per item under the assumption that the server does not read ahead
}

func (e *zvwWEnv) poisoned(items []zvwWCItem) bool {
	for _, it := range items {
		if it.It.Aux == "ufail" || it.It.Aux == "rover" || it.It.Aux == "r16m" {
			return true // (after a 16 MiB response the environment is rebuilt as well: memory)
		}
	}
	return false
}

// zvwRunStream feeds the items to ServeAgent and returns one step per item the server entered.
func zvwRunStream(e *zvwWEnv, items []zvwWCItem, mode string, measure bool) zvwWResult {
	var in []byte
	starts := make([]int, len(items))
	for i, it := range items {
		starts[i] = len(in)
		in = append(in, it.b...)
	}
	total := len(in)
	c := &zvwWConn{sig: make(chan struct{}, 1), markOff: -1}
	if measure {
		for i, it := range items {
			if it.It.K == "oversize" {
				c.markOff = starts[i]
				break
			}
		}
	}
	var hside net.Conn
	var drained bytes.Buffer
	var dmu sync.Mutex
	drainDone := make(chan struct{})
	if mode == "pipe" {
		var sside net.Conn
		sside, hside = net.Pipe()
		c.pipe = sside
		go func() { // the harness reads whatever the server writes
			buf := make([]byte, 32768)
			for {
				n, err := hside.Read(buf)
				dmu.Lock()
				drained.Write(buf[:n])
				dmu.Unlock()
				if err != nil {
					close(drainDone)
					return
				}
			}
		}()
		go func() { hside.Write(in) }()
	} else {
		c.in = in
		close(drainDone)
	}
	e.px.Begin()
	type ret struct {
		err error
		pan interface{}
	}
	done := make(chan ret, 1)
	var m1 runtime.MemStats
	if measure {
		runtime.GC()
	}
	go func() {
		var r ret
		defer func() {
			if p := recover(); p != nil {
				r.pan = p
			}
			if measure {
				runtime.ReadMemStats(&m1)
			}
			done <- r
		}()
		r.err = ServeAgent(e.srv, c)
	}()
	res := zvwWResult{}
	var r ret
	deadline := time.After(30 * time.Second)
	tick := time.NewTicker(200 * time.Microsecond)
	defer tick.Stop()
	closed := false
	lastLog, lastChange := 0, time.Now()
	released := map[int]int{}
loop:
	for {
		select {
		case r = <-done:
			break loop
		case <-deadline:
			res.hung = true
			break loop
		case <-c.sig:
		case <-tick.C:
		}
		if mode == "pipe" && !closed && c.consumed() == total && c.lastReadAt() == total {
			// the server consumed everything and asks for more: end of stream
			closed = true
			hside.Close()
		}
		// pending waits: the server is parked in Wait(w) until a request with code w arrives on another connection.
		// Observed by the parked-waiter count per code; when the implementation does not expose one: "some wait item
		// for a code < 40 has been read (at least partly) and nothing happened on the connection for 40 ms".  Neither
		// depends on how far the server has read ahead.
		c.mu.Lock()
		off, nlog := c.off, len(c.log)
		c.mu.Unlock()
		if nlog != lastLog {
			lastLog, lastChange = nlog, time.Now()
		}
		var codes []int
		if ws := e.waiters(); ws != nil {
			for w := range ws {
				codes = append(codes, w)
			}
		} else if time.Since(lastChange) > 40*time.Millisecond {
			// the first wait item not yet released whose bytes the server has started to read; when all are
			// released and the server is still silent, the last one again (the release may have come too early)
			pick := -1
			for i := range items {
				if items[i].It.K == "frame" && len(items[i].b) >= 6 && items[i].b[4] == 35 && items[i].b[5] < 40 && starts[i] < off {
					if released[i] == 0 {
						pick = i
						break
					}
					if released[i] < 20 {
						pick = i
					}
				}
			}
			if pick >= 0 {
				released[pick]++
				codes = append(codes, int(items[pick].b[5]))
			}
		}
		for _, w := range codes {
			res.lab.Nrel++
			other := &zvwWConn{in: zvwWFrame([]byte{byte(w), 40}), sig: make(chan struct{}, 1), markOff: -1}
			func() {
				defer func() { recover() }()
				_ = ServeAgent(e.srv, other)
			}()
			for k := 0; k < 2000 && len(e.waiters()) > 0; k++ {
				time.Sleep(50 * time.Microsecond)
			}
			c.mu.Lock()
			lastLog, lastChange = len(c.log), time.Now()
			c.mu.Unlock()
		}
	}
	if measure && c.m0 != nil && !res.hung {
		res.alloc = m1.TotalAlloc - c.m0.TotalAlloc
		if res.alloc > 8<<20 {
			debug.FreeOSMemory()
		}
	}
	if mode == "pipe" {
		if !closed {
			hside.Close()
		}
		<-drainDone
		c.pipe.Close()
	}
	res.retErr, res.pan = r.err, r.pan
	res.final = "ok"
	switch {
	case res.hung:
		res.final = "hung"
	case res.pan != nil:
		res.final = "crashed"
	case res.retErr != nil:
		res.final = "err"
	}

	// the response frames: everything the server wrote, cut by the harness's own framer
	c.mu.Lock()
	log := c.log
	c.mu.Unlock()
	ends := make([]int, len(items))
	for i := range items {
		ends[i] = starts[i] + len(items[i].b)
	}
	res.attrib = make([]int, len(items))
	cur := 0
	var outBytes, wbuf []byte
	need := 0
	for _, ev := range log {
		switch ev.kind {
		case 'r':
			for cur+1 < len(items) && ev.off >= ends[cur] {
				cur++
			}
		case 'w':
			outBytes = append(outBytes, ev.data...)
			data := ev.data
			for len(data) > 0 {
				if need == 0 {
					k := 4 - len(wbuf)
					if k > len(data) {
						k = len(data)
					}
					if len(wbuf) == 0 {
						res.lab.Nrep++ // a response frame begins
						res.attrib[cur]++
					}
					wbuf = append(wbuf, data[:k]...)
					data = data[k:]
					if len(wbuf) == 4 {
						need = int(binary.BigEndian.Uint32(wbuf))
						wbuf = nil
						res.replies = append(res.replies, []byte{})
					}
				} else {
					k := need
					if k > len(data) {
						k = len(data)
					}
					res.replies[len(res.replies)-1] = append(res.replies[len(res.replies)-1], data[:k]...)
					data = data[k:]
					need -= k
				}
			}
		}
	}
	if mode == "pipe" && !res.hung {
		dmu.Lock()
		same := bytes.Equal(drained.Bytes(), outBytes)
		dmu.Unlock()
		if !same {
			// what arrived on the harness side of the pipe differs from what the server wrote: count as an extra response
			res.lab.Nrep++
		}
	}
	for _, it := range items {
		res.lab.Items = append(res.lab.Items, it.It)
	}
	res.lab.Pan = res.pan != nil
	res.lab.Big = measure && res.alloc >= 1<<20
	res.lab.Conc, res.lab.Kinds = 1, []string{}
	// responses whose content is known: intact frames with exactly that content, in request order
	ri := 0
	for _, it := range items {
		n := zvwRespSize(it)
		if n < 0 || len(it.b) <= 4 {
			continue
		}
		res.lab.Sized++
		want := zvwSizedReply(it.b[4:], n)
		for ri < len(res.replies) {
			ri++
			if bytes.Equal(res.replies[ri-1], want) {
				res.lab.SizedOK++
				break
			}
		}
	}
	return res
}

// ---------------------------------------------------------------------------------------------
// stream sources

func zvwRespKind(b []byte) string {
	switch {
	case len(b) == 0:
		return "empty"
	case string(b) == "SUCCESS":
		return "text-success"
	case len(b) == 1 && b[0] == 5:
		return "failure"
	case len(b) == 1 && b[0] == 6:
		return "success"
	case b[0] == 12:
		return "identities"
	case b[0] == 14:
		return "signature"
	case b[0] == 2:
		return "v1-identities"
	}
	return "other"
}

type zvwWJob struct {
	tid   string
	items []zvwWIt    // abstract (to be instantiated by the worker) ...
	conc  []zvwWCItem // ... or concrete (replay, sweep)
	mode  string
	dirB  bool
	over  bool // contains an oversize item: runs alone, allocation measured
}

func zvwContainsKind(items []zvwWIt, k string) bool {
	for _, it := range items {
		if it.K == k {
			return true
		}
	}
	return false
}

func zvwGroupOfCode(c int) string {
	switch {
	case c == 1 || c == 11 || c == 19:
		return "stdnoarg"
	case c == 13 || c == 17 || c == 18 || c == 22 || c == 23 || c == 25:
		return "stdarg"
	case c == 31:
		return "ahc"
	case c == 32:
		return "slot0"
	case c == 33 || c == 34:
		return "slot1"
	case c == 35:
		return "wait"
	}
	return "fwd"
}

// zvwShapesOf lists the frame shapes the generator can build for a code (the same table as FramesOf in the spec,
// used zvwOnly to draw inputs; TLC classifies the recorded items itself).
func zvwShapesOf(c int) []zvwWIt {
	f := func(l, b, a string) zvwWIt { return zvwWIt{K: "frame", Code: c, Len: l, Body: b, Aux: a} }
	switch zvwGroupOfCode(c) {
	case "stdnoarg":
		return []zvwWIt{f("1", "none", "none"), f("n", "unknown", "none")}
	case "stdarg":
		return []zvwWIt{f("1", "none", "none"), f("n", "valid", "none"), f("n", "invalid", "none"), f("n", "unknown", "none")}
	case "ahc":
		return []zvwWIt{f("1", "none", "none"), f("n", "valid", "legacy"), f("n", "valid", "struct"), f("n", "invalid", "none"), f("n", "unknown", "none")}
	case "slot0":
		return []zvwWIt{f("1", "none", "none"), f("n", "unknown", "none")}
	case "slot1":
		return []zvwWIt{f("1", "none", "none"), f("n", "valid", "none"), f("n", "unknown", "none")}
	case "wait":
		return []zvwWIt{f("1", "none", "none"), f("n", "valid", "imm"), f("n", "valid", "pend"), f("n", "unknown", "imm")}
	}
	return []zvwWIt{f("1", "none", "none"), f("n", "unknown", "none"), f("n", "unknown", "ufail"),
		f("n", "unknown", "rtiny"), f("n", "unknown", "r4k"), f("n", "unknown", "r4k"), f("n", "unknown", "r64k"), f("n", "unknown", "r64k")}
}

var zvwWTerms = []zvwWIt{
	{K: "eof", Code: -1, Len: "none", Body: "none", Aux: "none"},
	{K: "tprefix", Code: -1, Len: "p1", Body: "none", Aux: "none"}, {K: "tprefix", Code: -1, Len: "p2", Body: "none", Aux: "none"},
	{K: "tprefix", Code: -1, Len: "p3", Body: "none", Aux: "none"},
	{K: "tbody", Code: -1, Len: "n", Body: "none", Aux: "none"}, {K: "tbody", Code: -2, Len: "n", Body: "none", Aux: "none"},
}

// mutate derives an item of unknown body class from a valid one: truncated / extended / bit-flipped body.
func (g *zvwWGen) mutate(ci zvwWCItem) zvwWCItem {
	r := g.r
	body := append([]byte{}, ci.b[4:]...)
	if len(body) < 2 {
		return ci
	}
	how := r.Intn(3)
	c := int(body[0])
	v := ci.Var
	switch how {
	case 0: // truncate (keep the code and at least one byte)
		body = body[:2+r.Intn(len(body)-1)]
		if len(body) > 2 {
			body = body[:len(body)-1]
		}
		v = "mut-cut-" + v
	case 1: // extend
		var ext []byte
		if c == 17 || c == 25 {
			// constraint grammar: lifetime / confirm / unknown / truncated lifetime
			for k := r.Intn(3); k > 0; k-- {
				if r.Intn(2) == 0 {
					ext = append(ext, 2)
				} else {
					ext = append(ext, 1, byte(r.Intn(2)), 0, 0, byte(r.Intn(256)))
				}
			}
			switch r.Intn(3) {
			case 0:
				ext = append(ext, [][]byte{{1}, {1, 0}, {1, 0, 0}, {1, 0, 0, 0}}[r.Intn(4)]...)
			case 1:
				ext = append(ext, byte(3+r.Intn(250)))
			}
		} else {
			ext = zvwRndBytes(r, 1+r.Intn(40))
		}
		body = append(body, ext...)
		v = "mut-ext-" + v
	default: // flip one bit behind the code byte
		i := 1 + r.Intn(len(body)-1)
		body[i] ^= 1 << uint(r.Intn(8))
		v = "mut-flip-" + v
	}
	it := zvwWIt{K: "frame", Code: c, Len: "n", Body: "unknown", Aux: "none"}
	if c == 35 {
		it.Aux = "imm"
		if body[1] < 40 {
			it.Aux = "pend"
		}
	}
	if (c == 17 || c == 25) && zvwXcryptoPanics(body) {
		// name the variant after what makes the pinned x/crypto server panic on it
		v = "xcrypto-panic-other"
		base := ci.base
		if base == 0 {
			base = len(ci.b) - 4
		}
		if base <= len(body) && zvwTruncLifetime(body[base:]) {
			v = "lifetime-trunc"
		}
	}
	out := zvwWCItem{It: it, Var: v, b: zvwWFrame(body)}
	out.Hex = hex.EncodeToString(out.b)
	return out
}

// randomStream: grammar-derived concatenation of valid, mutated and malformed items.
func (g *zvwWGen) randomStream(maxlen int, over bool) []zvwWCItem {
	r := g.r
	n := 1 + r.Intn(maxlen)
	overAt := -1
	if over {
		overAt = r.Intn(n)
	}
	var items []zvwWCItem
	special := []int{0, 1, 11, 13, 17, 18, 19, 22, 23, 25, 30, 31, 32, 33, 34, 35, 36, 39, 40, 255, 9, 20, 21, 26, 27}
	for i := 0; i < n; i++ {
		var c int
		if r.Intn(4) == 0 {
			c = r.Intn(256)
		} else {
			c = special[r.Intn(len(special))]
		}
		x := r.Intn(100)
		switch {
		case i == overAt:
			items = append(items, g.concrete(zvwWIt{K: "oversize", Code: -1, Len: "big", Body: "none", Aux: "none"}))
		case x < 3:
			items = append(items, g.concrete(zvwWIt{K: "frame", Code: -1, Len: "0", Body: "none", Aux: "none"}))
		default:
			sh := zvwShapesOf(c)
			it := sh[r.Intn(len(sh))]
			if it.Aux == "ufail" && r.Intn(4) != 0 {
				it.Aux = "none"
			}
			ci := g.concrete(it)
			if it.Body == "valid" && r.Intn(3) == 0 {
				ci = g.mutate(ci)
			}
			items = append(items, ci)
		}
	}
	items = append(items, g.concrete(zvwWTerms[r.Intn(len(zvwWTerms))]))
	return items
}

// ---------------------------------------------------------------------------------------------

func TestVerifWire(t *testing.T) {
	planPath, outPath := os.Getenv("VERIF_PLAN"), os.Getenv("VERIF_OUT")
	if planPath == "" || outPath == "" {
		t.Skip("VERIF_PLAN / VERIF_OUT not set")
	}
	stdlog.SetOutput(io.Discard) // x/crypto's agent server logs every refused request
	var plan zvwWPlan
	raw, err := os.ReadFile(planPath)
	if err != nil {
		t.Fatal(err)
	}
	if err := json.Unmarshal(raw, &plan); err != nil {
		t.Fatal(err)
	}
	tr, err := verifh.OpenTrace(outPath)
	if err != nil {
		t.Fatal(err)
	}
	base, err := os.MkdirTemp(filepath.Dir(outPath), "s")
	if err != nil {
		t.Fatal(err)
	}
	defer os.RemoveAll(base)
	if plan.Workers <= 0 {
		plan.Workers = 3
	}
	if plan.PipeEvery <= 0 {
		plan.PipeEvery = 7
	}

	// jobs
	var jobs []zvwWJob
	for i, s := range plan.Streams {
		jobs = append(jobs, zvwWJob{tid: fmt.Sprintf("a%d", i), items: s, over: zvwContainsKind(s, "oversize")})
	}
	if plan.Sweep {
		list := zvwWIt{K: "frame", Code: 11, Len: "1", Body: "none", Aux: "none"}
		for c := 0; c < 256; c++ {
			for li, l := range []string{"1", "n"} {
				it := zvwWIt{K: "frame", Code: c, Len: l, Body: "unknown", Aux: "none"}
				if l == "1" {
					it.Body = "none"
				}
				if c == 35 && l == "n" {
					it.Aux = "imm"
				}
				for k, s := range [][]zvwWIt{{it, zvwWTerms[0]}, {list, it, list, zvwWTerms[0]}, {it, it, zvwWTerms[(c+3*li)%len(zvwWTerms)]}} {
					jobs = append(jobs, zvwWJob{tid: fmt.Sprintf("s%d_%s_%d", c, l, k), items: s})
				}
			}
			// a truncated body that starts with this code
			tb := zvwWCItem{It: zvwWIt{K: "tbody", Code: -2, Len: "n", Body: "none", Aux: "none"}, Var: "partial", Det: fmt.Sprintf("declared 9, 3 present, code %d", c),
				b: []byte{0, 0, 0, 9, byte(c), 40, 0}}
			tb.Hex = hex.EncodeToString(tb.b)
			jobs = append(jobs, zvwWJob{tid: fmt.Sprintf("s%d_tb", c), conc: []zvwWCItem{tb}})
		}
	}
	if plan.Sweep {
		// every response size of every class, between two list requests (plus twice in a row for the 4 KiB / 64 KiB classes)
		list := zvwWIt{K: "frame", Code: 11, Len: "1", Body: "none", Aux: "none"}
		classes := []string{"rtiny", "r4k", "r64k", "r16m", "rover"}
		for _, cls := range classes {
			for si, n := range plan.RespSizes[cls] {
				mk := func(k int) zvwWCItem {
					c := []int{27, 64, 100, 200, 255, 20}[(si+k)%6]
					body := append([]byte{byte(c)}, []byte(fmt.Sprintf("sz-%s-%d-%d-%d", cls, n, k, zvwWSockSeq))...)
					ci := zvwWCItem{It: zvwWIt{K: "frame", Code: c, Len: "n", Body: "unknown", Aux: cls}, Var: fmt.Sprintf("resp-%d", n), b: zvwWFrame(body)}
					ci.Hex = hex.EncodeToString(ci.b)
					return ci
				}
				l := zvwWCItem{It: list, Var: "codeonly", b: zvwWFrame([]byte{11})}
				l.Hex = hex.EncodeToString(l.b)
				e := zvwWCItem{It: zvwWTerms[0], Var: "eof"}
				st := []zvwWCItem{l, mk(0), l, e}
				if cls == "r4k" || cls == "r64k" {
					st = []zvwWCItem{mk(0), mk(1), l, mk(2), e}
				}
				jobs = append(jobs, zvwWJob{tid: fmt.Sprintf("z%s_%d", cls, n), conc: st})
			}
		}
	}
	for i := 0; i < plan.Random; i++ {
		j := zvwWJob{tid: fmt.Sprintf("r%d", i), dirB: true}
		// the first draw of the stream's generator decides whether it contains an oversize item
		j.over = verifh.NewRand("wire-"+j.tid, int64(len(jobs))).Intn(6) == 0
		jobs = append(jobs, j)
	}
	for i, rp := range plan.Replays {
		items := rp.Items
		over := false
		for k := range items {
			items[k].b, _ = hex.DecodeString(items[k].Hex)
			over = over || items[k].It.K == "oversize"
		}
		jobs = append(jobs, zvwWJob{tid: fmt.Sprintf("p%d", i), conc: items, mode: rp.Conn, over: over})
	}

	var mu sync.Mutex
	stats := map[string]int{}
	labels := map[string]bool{}
	codesSeen := map[int]bool{}
	var samples []interface{}
	emit := func(j zvwWJob, items []zvwWCItem, mode string, res zvwWResult) {
		info := map[string]interface{}{"items": items, "conn": mode, "ret": fmt.Sprint(res.retErr), "alloc": res.alloc}
		if res.pan != nil {
			info["panic"] = fmt.Sprint(res.pan)
		}
		kinds := []string{}
		for _, rp := range res.replies {
			kinds = append(kinds, zvwRespKind(rp))
		}
		info["replies"] = kinds
		info["attributed"] = res.attrib
		vars := []string{}
		for _, it := range items {
			vars = append(vars, it.Var)
		}
		recs := []interface{}{zvwWRec{Ev: "reset", Fam: "w", Tid: j.tid, Post: zvwWSt{Pos: 1, St: "running", Out: []int{}}, Info: info}}
		pre := zvwWSt{Pos: 1, St: "running", Out: []int{}}
		l := res.lab
		recs = append(recs, zvwWRec{Ev: "step", Fam: "w", Tid: j.tid, Pre: &pre, E: &l, Post: zvwWSt{Pos: len(items) + 1, St: res.final, Out: []int{}},
			Info: map[string]interface{}{"vars": vars, "ret": fmt.Sprint(res.retErr), "replies": kinds, "attributed": res.attrib}})
		mu.Lock()
		for i, it := range items {
			if it.It.K == "frame" && it.It.Code >= 0 {
				codesSeen[it.It.Code] = true
			}
			// distinct (item class, responses while it was the current item, how service ended there) observed
			end := "-"
			if i == len(items)-1 || (res.attrib[i] == 0 && res.final != "ok" && i+1 < len(items) && res.attrib[i+1] == 0) {
				end = res.final
			}
			labels[fmt.Sprintf("%s/%d/%s/%s/%s|%d|%s", it.It.K, zvwGroupClass(it.It.Code), it.It.Len, it.It.Body, it.It.Aux, res.attrib[i], end)] = true
			stats["steps"]++
		}
		if l.Pan {
			stats["panics"]++
		}
		stats["sized"] += l.Sized
		stats["sizedok"] += l.SizedOK
		stats["streams"]++
		stats["streams_"+mode]++
		if len(samples) < 6 && len(items) > 1 && stats["streams"]%97 == 1 {
			samples = append(samples, map[string]interface{}{"tid": j.tid, "items": func() []string {
				o := []string{}
				for _, it := range items {
					o = append(o, fmt.Sprintf("%s code=%d len=%s body=%s aux=%s (%s, %d bytes)", it.It.K, it.It.Code, it.It.Len, it.It.Body, it.It.Aux, it.Var, len(it.b)))
				}
				return o
			}(), "replies": kinds, "returned": fmt.Sprint(res.retErr)})
		}
		mu.Unlock()
		tr.EmitAll(recs)
	}

	// phase 1: everything without an oversize item, in parallel workers; phase 2: oversize streams one at a time
	// (their allocation is measured, and every body in them is small)
	var par, seq []int
	for i, j := range jobs {
		if j.over {
			seq = append(seq, i)
		} else {
			par = append(par, i)
		}
	}
	runJob := func(env **zvwWEnv, wid int, ji int, measure bool) {
		j := jobs[ji]
		rnd := verifh.NewRand("wire-"+j.tid, int64(ji))
		if *env == nil {
			*env = zvwNewWEnv(base, verifh.NewRand("wire-env", int64(wid*100000+ji)), true, "")
		}
		g := &zvwWGen{env: *env, r: rnd, groups: plan.Groups, rot: map[string]int{}, small: measure, respSizes: plan.RespSizes}
		for k := range g.groups {
			g.rot[k] = ji + len(k)
		}
		var items []zvwWCItem
		switch {
		case j.conc != nil:
			items = j.conc
		case j.dirB:
			over := rnd.Intn(6) == 0
			items = g.randomStream(plan.MaxLen, over)
		default:
			for _, it := range j.items {
				if j.tid[0] == 'a' {
					it = g.pick(it, plan.GroupOf)
				}
				items = append(items, g.concrete(it))
			}
		}
		dirty := false
		(*env).pmu.Lock()
		for _, it := range items {
			if it.It.Aux == "ufail" && len(it.b) > 4 {
				(*env).poison[string(it.b[4:])] = true
			}
			if n := zvwRespSize(it); n >= 0 && len(it.b) > 4 {
				(*env).sized[string(it.b[4:])] = n
			}
			if it.It.K == "frame" && (it.It.Code == 18 || it.It.Code == 19 || it.It.Code == 22) {
				dirty = true // may remove the held keys or lock the agent
			}
		}
		(*env).pmu.Unlock()
		mode := j.mode
		if mode == "" {
			mode = "mem"
			if ji%plan.PipeEvery == 3 {
				mode = "pipe"
			}
		}
		res := zvwRunStream(*env, items, mode, measure)
		emit(j, items, mode, res)
		(*env).n++
		if dirty || res.pan != nil || res.hung || (*env).poisoned(items) || (*env).n >= 400 {
			(*env).close()
			*env = nil
		}
	}
	var wg sync.WaitGroup
	ch := make(chan int, 64)
	for w := 0; w < plan.Workers; w++ {
		wg.Add(1)
		go func(wid int) {
			defer wg.Done()
			var env *zvwWEnv
			for ji := range ch {
				runJob(&env, wid, ji, false)
			}
			if env != nil {
				env.close()
			}
		}(w)
	}
	for _, ji := range par {
		ch <- ji
	}
	close(ch)
	wg.Wait()
	var env *zvwWEnv
	sort.Ints(seq)
	for _, ji := range seq {
		runJob(&env, 99, ji, true)
	}
	if env != nil {
		env.close()
	}
	if err := tr.Close(); err != nil {
		t.Fatal(err)
	}
	stats["distinct_labels"] = len(labels)
	stats["codes_seen"] = len(codesSeen)
	sum := map[string]interface{}{"stats": stats, "samples": samples}
	b, _ := json.Marshal(sum)
	fmt.Printf("VERIF-SUMMARY %s\n", b)
}

func zvwGroupClass(c int) int {
	// dispatch group as a small number (for counting distinct abstract labels zvwOnly)
	if c < 0 {
		return c
	}
	switch zvwGroupOfCode(c) {
	case "stdnoarg":
		return 1
	case "stdarg":
		return 2
	case "ahc":
		return 3
	case "slot0":
		return 4
	case "slot1":
		return 5
	case "wait":
		return 6
	}
	return 7
}

var _ = errors.New

// ---------------------------------------------------------------------------------------------
// several connections to ONE server (AgentWire part 3)

type zvwCPlan struct {
	Sessions int `json:"sessions"`
	Rounds   int `json:"rounds"`
}

type zvwCConn struct {
	wc    *zvwWConn // the server's side (records what the server writes)
	cl    net.Conn  // the harness's side
	done  chan struct{}
	err   error
	pan   interface{}
	items []zvwWCItem
	kinds []string
	hung  bool
}

// do sends one frame and reads exactly one response (lock step); false when nothing came back.
func (cc *zvwCConn) do(it zvwWCItem) bool {
	cc.items = append(cc.items, it)
	cc.cl.SetDeadline(time.Now().Add(20 * time.Second))
	if _, err := cc.cl.Write(it.b); err != nil {
		cc.kinds = append(cc.kinds, "none")
		return false
	}
	rp, err := verifh.ReadFrame(cc.cl)
	if err != nil {
		cc.kinds = append(cc.kinds, "none")
		if ne, ok := err.(net.Error); ok && ne.Timeout() {
			cc.hung = true
		}
		return false
	}
	cc.kinds = append(cc.kinds, zvwRespKind(rp))
	return true
}

// zvwExpiredCert: a fresh key and a self-signed certificate for it whose validity ended long ago.
func zvwExpiredCert(r *mrand.Rand, serial uint64, stale bool) (agent.AddedKey, *ssh.Certificate) {
	seed := make([]byte, ed25519.SeedSize)
	r.Read(seed)
	priv := ed25519.NewKeyFromSeed(seed)
	signer, err := ssh.NewSignerFromKey(priv)
	if err != nil {
		panic(err)
	}
	crt := &ssh.Certificate{Key: signer.PublicKey(), Serial: serial, CertType: ssh.UserCert, KeyId: fmt.Sprintf("conc-%d", serial),
		ValidPrincipals: []string{"user"}, ValidAfter: 1000, ValidBefore: 2000}
	if !stale {
		crt.ValidAfter, crt.ValidBefore = 0, uint64(time.Now().Unix()+86400)
	}
	if err := crt.SignCert(crand.Reader, signer); err != nil {
		panic(err)
	}
	return agent.AddedKey{PrivateKey: &priv, Comment: "conc"}, crt
}

func zvwFrameItem(code int, l, body, aux, v string, b []byte) zvwWCItem {
	ci := zvwWCItem{It: zvwWIt{K: "frame", Code: code, Len: l, Body: body, Aux: aux}, Var: v, b: zvwWFrame(b)}
	ci.Hex = hex.EncodeToString(ci.b)
	return ci
}

// TestVerifWireConc: K connections (2..8) to one real server (NewServer over a real shim over a real keyring), each
// sending its own well-formed frames in lock step, all of them at the same time, while the shim holds stale hardware
// certificates that the next listing has to purge.  One record per connection (items, kinds, responses, end).
func TestVerifWireConc(t *testing.T) {
	planPath, outPath := os.Getenv("VERIF_PLAN"), os.Getenv("VERIF_OUT")
	if planPath == "" || outPath == "" {
		t.Skip("VERIF_PLAN / VERIF_OUT not set")
	}
	stdlog.SetOutput(io.Discard)
	var plan zvwCPlan
	raw, err := os.ReadFile(planPath)
	if err != nil {
		t.Fatal(err)
	}
	if err := json.Unmarshal(raw, &plan); err != nil {
		t.Fatal(err)
	}
	tr, err := verifh.OpenTrace(outPath)
	if err != nil {
		t.Fatal(err)
	}
	base, err := os.MkdirTemp(filepath.Dir(outPath), "s")
	if err != nil {
		t.Fatal(err)
	}
	defer os.RemoveAll(base)
	stats := map[string]int{}
	var samples []interface{}
	var serial uint64
	for si := 0; si < plan.Sessions; si++ {
		r := verifh.NewRand("wire-conc", int64(si))
		env := zvwNewWEnv(base, verifh.NewRand("wire-conc-env", int64(si)), true, "")
		k := 2 + r.Intn(7)
		conns := make([]*zvwCConn, k)
		for i := range conns {
			sside, hside := net.Pipe()
			cc := &zvwCConn{wc: &zvwWConn{pipe: sside, sig: make(chan struct{}, 1), markOff: -1}, cl: hside, done: make(chan struct{})}
			conns[i] = cc
			go func() {
				defer close(cc.done)
				defer sside.Close()
				defer func() {
					if p := recover(); p != nil {
						cc.pan = p
					}
				}()
				cc.err = ServeAgent(env.srv, cc.wc)
			}()
		}
		g := &zvwWGen{env: env, r: r, rot: map[string]int{}, small: true}
		ok := true
		for round := 0; round < plan.Rounds && ok; round++ {
			// prepared state, by connection 0 alone: forget everything, then fresh keys with hardware certificates,
			// most of them expired long ago (nothing refuses them), some valid
			admin := conns[0]
			ok = admin.do(zvwFrameItem(19, "1", "none", "none", "removeall", []byte{19}))
			for m := 1 + r.Intn(4); m > 0 && ok; m-- {
				serial++
				ak, crt := zvwExpiredCert(r, serial, r.Intn(5) != 0)
				add := zvwWCaptureReq(func(a agent.ExtendedAgent) { a.Add(ak) })
				ok = admin.do(zvwFrameItem(17, "n", "valid", "none", "add-ed25519", add))
				if !ok {
					break
				}
				if r.Intn(2) == 0 {
					ok = admin.do(zvwFrameItem(31, "n", "valid", "struct", "struct-stalecert",
						ssh.Marshal(agentAddHardCertReq{KeyBlob: crt.Marshal(), Comment: "hw"})))
				} else {
					ok = admin.do(zvwFrameItem(31, "n", "valid", "legacy", "legacy-stalecert", append([]byte{31}, crt.Marshal()...)))
				}
			}
			if !ok {
				break
			}
			// every connection prepares its own burst; all start at the same moment
			bursts := make([][]zvwWCItem, k)
			for i := range bursts {
				bursts[i] = append(bursts[i], zvwFrameItem(11, "1", "none", "none", "list", []byte{11}))
				for n := r.Intn(3); n > 0; n-- {
					switch r.Intn(7) {
					case 0, 1:
						bursts[i] = append(bursts[i], zvwFrameItem(11, "1", "none", "none", "list", []byte{11}))
					case 2:
						bursts[i] = append(bursts[i], zvwFrameItem(1, "1", "none", "none", "list-v1", []byte{1}))
					case 3:
						b, v, _ := g.validStd(13)
						bursts[i] = append(bursts[i], zvwFrameItem(13, "n", "valid", "none", v, b))
					case 4:
						bursts[i] = append(bursts[i], zvwFrameItem(35, "n", "valid", "imm", "wait-imm", []byte{35, byte(40 + r.Intn(216))}))
					case 5:
						bursts[i] = append(bursts[i], zvwFrameItem(32, "1", "none", "none", "listslots", []byte{32}))
					default:
						c := 64 + r.Intn(192)
						bursts[i] = append(bursts[i], zvwFrameItem(c, "n", "unknown", "none", "forward", append([]byte{byte(c)}, zvwRndBytes(r, 1+r.Intn(30))...)))
					}
				}
			}
			start := make(chan struct{})
			var wg sync.WaitGroup
			res := make([]bool, k)
			for i := range conns {
				wg.Add(1)
				go func(i int) {
					defer wg.Done()
					<-start
					res[i] = true
					for _, it := range bursts[i] {
						if !conns[i].do(it) {
							res[i] = false
							return
						}
					}
				}(i)
			}
			close(start)
			wg.Wait()
			for i := range res {
				ok = ok && res[i]
			}
			stats["rounds"]++
		}
		// clean end of stream on every connection
		for _, cc := range conns {
			cc.cl.Close()
		}
		var recs []interface{}
		for i, cc := range conns {
			select {
			case <-cc.done:
			case <-time.After(20 * time.Second):
				cc.hung = true
			}
			eof := zvwWCItem{It: zvwWTerms[0], Var: "eof"}
			cc.items = append(cc.items, eof)
			lab := zvwWLabel{Conc: k, Kinds: cc.kinds, Pan: cc.pan != nil}
			for _, it := range cc.items {
				lab.Items = append(lab.Items, it.It)
			}
			// the response frames the server wrote on this connection (own framer over its writes)
			cc.wc.mu.Lock()
			var buf []byte
			for _, ev := range cc.wc.log {
				if ev.kind == 'w' {
					buf = append(buf, ev.data...)
				}
			}
			cc.wc.mu.Unlock()
			for len(buf) > 0 {
				lab.Nrep++
				if len(buf) < 4 {
					break
				}
				n := int(binary.BigEndian.Uint32(buf))
				if 4+n > len(buf) {
					break
				}
				buf = buf[4+n:]
			}
			final := "ok"
			switch {
			case cc.hung:
				final = "hung"
			case cc.pan != nil:
				final = "crashed"
			case cc.err != nil:
				final = "err"
			}
			if lab.Kinds == nil {
				lab.Kinds = []string{}
			}
			tid := fmt.Sprintf("k%d_%d", si, i)
			vars := []string{}
			for _, it := range cc.items {
				vars = append(vars, it.Var)
			}
			pre := zvwWSt{Pos: 1, St: "running", Out: []int{}}
			recs = append(recs, zvwWRec{Ev: "reset", Fam: "w", Tid: tid, Post: pre,
				Info: map[string]interface{}{"conc": map[string]interface{}{"session": si, "conn": i, "conns": k, "sessions": plan.Sessions, "rounds": plan.Rounds, "seed": verifh.Seed()}}})
			recs = append(recs, zvwWRec{Ev: "step", Fam: "w", Tid: tid, Pre: &pre, E: &lab, Post: zvwWSt{Pos: len(cc.items) + 1, St: final, Out: []int{}},
				Info: map[string]interface{}{"vars": vars, "ret": fmt.Sprint(cc.err), "replies": cc.kinds, "attributed": []int{}}})
			stats["connections"]++
			stats["frames"] += len(cc.items) - 1
			if len(samples) < 3 && i == 1 && si%7 == 0 {
				n := len(cc.kinds)
				if n > 8 {
					n = 8
				}
				samples = append(samples, map[string]interface{}{"tid": tid, "connections": k, "frames": len(cc.items) - 1, "first_response_kinds": cc.kinds[:n], "returned": fmt.Sprint(cc.err)})
			}
		}
		tr.EmitAll(recs)
		stats["sessions"]++
		env.close()
	}
	if err := tr.Close(); err != nil {
		t.Fatal(err)
	}
	b, _ := json.Marshal(map[string]interface{}{"stats": stats, "samples": samples})
	fmt.Printf("VERIF-SUMMARY %s\n", b)
}
