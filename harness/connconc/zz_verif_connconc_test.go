//go:build verif

package yubiagent

// Connection-level concurrency harness for property C11 (spec/ConnServe.tla, spec/TraceConn.tla).
// K client connections are served by the real ServeAgent (one goroutine per connection, as the daemon does)
// on ONE real server (NewServer -> shimagent.New over a unix socket) whose single upstream connection ends at
// the harness's frame proxy in front of an x/crypto keyring.  Raw-forwarded requests are answered by the
// proxy with a copy of the request, so every reply identifies the request it answers.  The harness only
// drives and records; TLC judges the recorded events against ConnServe (tools/fam_conc.py).

import (
	"bytes"
	"encoding/binary"
	"fmt"
	mrand "math/rand"
	"net"
	"os"
	"runtime"
	"sync"
	"testing"
	"time"

	"github.com/theparanoids/ysshra/verifh"
	"golang.org/x/crypto/ssh"
	"golang.org/x/crypto/ssh/agent"
)

type zvcEvent struct {
	Q     int64  `json:"q"`
	Ev    string `json:"ev"`
	Round int    `json:"round"`
	C     int    `json:"c"`
	N     int    `json:"n"`
	Kind  string `json:"kind"`
	Rc    int    `json:"rc"`
	Rn    int    `json:"rn"`
	Shape string `json:"shape"`
}

type zvcLog struct {
	mu  sync.Mutex
	q   int64
	evs []interface{}
}

func (l *zvcLog) add(e zvcEvent) {
	l.mu.Lock()
	l.q++
	e.Q = l.q
	l.evs = append(l.evs, e)
	l.mu.Unlock()
}

const zvcTagLen = 12 // "c%03d-n%05d|"

func zvcTag(c, n int) []byte { return []byte(fmt.Sprintf("c%03d-n%05d|", c, n)) }

// zvcFindTag looks for a tag at the given offset.
func zvcParseTag(b []byte) (c, n int, ok bool) {
	if len(b) < zvcTagLen {
		return 0, 0, false
	}
	if _, err := fmt.Sscanf(string(b[:zvcTagLen]), "c%03d-n%05d|", &c, &n); err != nil {
		return 0, 0, false
	}
	return c, n, true
}

// echo requests: code 27 (extension "verif@x") or code 200 (unknown to x/crypto); both are raw-forwarded by ServeAgent
var zvcExtHdr = []byte{27, 0, 0, 0, 7, 'v', 'e', 'r', 'i', 'f', '@', 'x'}

func zvcEchoReq(code byte, c, n int, pad []byte) []byte {
	var req []byte
	if code == 27 {
		req = append(req, zvcExtHdr...)
	} else {
		req = append(req, code)
	}
	req = append(req, zvcTag(c, n)...)
	return append(req, pad...)
}

func zvcTagOfReq(req []byte) (c, n int, ok bool) {
	if len(req) == 0 {
		return 0, 0, false
	}
	if req[0] == 27 && len(req) >= len(zvcExtHdr) && bytes.Equal(req[:len(zvcExtHdr)], zvcExtHdr) {
		return zvcParseTag(req[len(zvcExtHdr):])
	}
	if req[0] == 200 {
		return zvcParseTag(req[1:])
	}
	return 0, 0, false
}

func zvcIsEcho(req []byte) bool { return len(req) > 0 && (req[0] == 27 || req[0] == 200) }

func zvcRound(ri int, rnd *mrand.Rand, log *zvcLog) (requests int, hang bool) {
	K := 2 + rnd.Intn(7)
	M := 8 + rnd.Intn(25)
	if verifh.Tier() == "thorough" && ri%5 == 4 {
		K, M = 12+rnd.Intn(5), 40+rnd.Intn(40)
	}
	if ri%2 == 1 {
		old := runtime.GOMAXPROCS(2) // few Ps: goroutines of different connections share per-P caches
		defer runtime.GOMAXPROCS(old)
	}
	log.add(zvcEvent{Ev: "reset", Round: ri, C: K, N: M})

	kr := agent.NewKeyring()
	k1, k2 := verifh.PoolKey(0, "ed25519"), verifh.PoolKey(1, "ecdsa256")
	for i, k := range []*verifh.KeyPair{k1, k2} {
		if err := kr.Add(agent.AddedKey{PrivateKey: k.Priv, Comment: fmt.Sprintf("k%d", i+1)}); err != nil {
			panic(err)
		}
	}
	dir, err := os.MkdirTemp("", "vcc")
	if err != nil {
		panic(err)
	}
	defer os.RemoveAll(dir)
	upSock, mySock := dir+"/up.sock", dir+"/y.sock"
	upLn, err := net.Listen("unix", upSock)
	if err != nil {
		panic(err)
	}
	defer upLn.Close()
	px := verifh.NewProxyIdle(kr, mrand.New(mrand.NewSource(rnd.Int63())))
	defer px.Close()
	px.Frag = rnd.Intn(2) == 0
	var dmu sync.Mutex
	drnd := mrand.New(mrand.NewSource(rnd.Int63()))
	slow := rnd.Intn(3) != 0
	px.Gate = func(req []byte) {
		if zvcIsEcho(req) {
			c, n, _ := zvcTagOfReq(req)
			log.add(zvcEvent{Ev: "up", Round: ri, C: c, N: n})
		}
		if slow {
			// keep the upstream busy for a moment so that other connections' requests pile up behind the shim's lock
			dmu.Lock()
			d := time.Duration(drnd.Intn(1500)) * time.Microsecond
			dmu.Unlock()
			time.Sleep(d)
		}
	}
	px.AfterReply = func(req, reply []byte) {
		if zvcIsEcho(req) {
			c, n, _ := zvcTagOfReq(req)
			log.add(zvcEvent{Ev: "upr", Round: ri, C: c, N: n})
		}
	}
	px.Rewrite = func(req, reply []byte) []byte {
		if zvcIsEcho(req) {
			return append([]byte{req[0] + 2}, req...)
		}
		return reply
	}
	go func() {
		c, err := upLn.Accept()
		if err == nil {
			px.Serve(c)
		}
	}()
	srv, err := NewServer(upSock, true)
	if err != nil {
		panic("verif: NewServer failed on a healthy agent: " + err.Error())
	}
	ln, err := net.Listen("unix", mySock)
	if err != nil {
		panic(err)
	}
	defer ln.Close()
	go func() {
		for {
			c, err := ln.Accept()
			if err != nil {
				return
			}
			go func() {
				defer c.Close()
				_ = ServeAgent(srv, c)
			}()
		}
	}()

	var wg sync.WaitGroup
	var conns []net.Conn
	var cmu sync.Mutex
	for c := 1; c <= K; c++ {
		wg.Add(1)
		crnd := mrand.New(mrand.NewSource(rnd.Int63()))
		go func(c int) {
			defer wg.Done()
			conn, err := net.Dial("unix", mySock)
			if err != nil {
				panic(err)
			}
			cmu.Lock()
			conns = append(conns, conn)
			cmu.Unlock()
			for n := 1; n <= M; n++ {
				kind := "echo"
				switch x := crnd.Intn(10); {
				case x < 2:
					kind = "sign"
				case x < 4:
					kind = "list"
				}
				var req, data []byte
				key := k1
				switch kind {
				case "echo":
					sz := 4 + crnd.Intn(300)
					if crnd.Intn(8) == 0 {
						sz = 1000 + crnd.Intn(6000)
					}
					pad := make([]byte, sz)
					crnd.Read(pad)
					code := byte(27)
					if crnd.Intn(3) == 0 {
						code = 200
					}
					req = zvcEchoReq(code, c, n, pad)
				case "sign":
					if crnd.Intn(2) == 0 {
						key = k2
					}
					data = append(zvcTag(c, n), make([]byte, 8+crnd.Intn(100))...)
					crnd.Read(data[zvcTagLen:])
					req = ssh.Marshal(struct {
						KeyBlob []byte
						Data    []byte
						Flags   uint32
					}{key.Pub.Marshal(), data, 0})
					req = append([]byte{13}, req...)
				case "list":
					req = []byte{11}
				}
				log.add(zvcEvent{Ev: "send", Round: ri, C: c, N: n, Kind: kind})
				conn.SetDeadline(time.Now().Add(25 * time.Second))
				if err := verifh.WriteFrame(conn, req); err != nil {
					log.add(zvcEvent{Ev: "recv", Round: ri, C: c, Shape: "write-error: " + err.Error()})
					return
				}
				reply, err := verifh.ReadFrame(conn)
				if err != nil {
					log.add(zvcEvent{Ev: "recv", Round: ri, C: c, Shape: "read-error: " + err.Error()})
					return
				}
				ev := zvcEvent{Ev: "recv", Round: ri, C: c, Shape: "other"}
				switch kind {
				case "echo":
					want := append([]byte{req[0] + 2}, req...)
					if bytes.Equal(reply, want) {
						ev.Rc, ev.Rn, ev.Shape = c, n, "echo"
					} else if len(reply) > 1 && zvcIsEcho(reply[1:]) {
						if rc, rn, ok := zvcTagOfReq(reply[1:]); ok {
							ev.Rc, ev.Rn, ev.Shape = rc, rn, "echo-altered"
						}
					}
				case "sign":
					ev.Rc, ev.Rn = c, n
					if len(reply) > 5 && reply[0] == 14 {
						var sig ssh.Signature
						l := int(binary.BigEndian.Uint32(reply[1:5]))
						if 5+l <= len(reply) && ssh.Unmarshal(reply[5:5+l], &sig) == nil && key.Pub.Verify(data, &sig) == nil {
							ev.Shape = "sig-own"
						} else {
							ev.Shape = "sig-foreign"
						}
					} else if len(reply) == 1 && reply[0] == 5 {
						ev.Shape = "failure"
					}
				case "list":
					ev.Rc, ev.Rn = c, n
					if len(reply) >= 5 && reply[0] == 12 {
						if binary.BigEndian.Uint32(reply[1:5]) == 2 {
							ev.Shape = "list"
						} else {
							ev.Shape = fmt.Sprintf("list-of-%d", binary.BigEndian.Uint32(reply[1:5]))
						}
					} else if len(reply) == 1 && reply[0] == 5 {
						ev.Shape = "failure"
					}
				}
				log.add(ev)
			}
		}(c)
	}
	fin := make(chan struct{})
	go func() { wg.Wait(); close(fin) }()
	select {
	case <-fin:
	case <-time.After(60 * time.Second):
		log.add(zvcEvent{Ev: "hang", Round: ri})
		hang = true
	}
	cmu.Lock()
	for _, c := range conns {
		c.Close()
	}
	cmu.Unlock()
	if !hang {
		// Close is an operation of the shim as well: it must complete once the clients are gone
		closed := make(chan struct{})
		go func() { srv.Close(); close(closed) }()
		select {
		case <-closed:
		case <-time.After(15 * time.Second):
			log.add(zvcEvent{Ev: "hang", Round: ri, Shape: "close"})
			hang = true
		}
	}
	return K * M, hang
}

func TestVerifConnConc(t *testing.T) {
	outPath := os.Getenv("VERIF_OUT")
	if outPath == "" {
		t.Skip("VERIF_OUT not set")
	}
	tr, err := verifh.OpenTrace(outPath)
	if err != nil {
		t.Fatal(err)
	}
	rnd := verifh.NewRand("connconc", 0)
	rounds := verifh.EnvInt("VERIF_CONN_ROUNDS", 12)
	log := &zvcLog{}
	total, hangs := 0, 0
	for ri := 0; ri < rounds; ri++ {
		n, h := zvcRound(ri, rnd, log)
		total += n
		if h {
			hangs++
			if hangs >= 2 {
				break
			}
		}
	}
	log.mu.Lock()
	tr.EmitAll(log.evs)
	log.mu.Unlock()
	if err := tr.Close(); err != nil {
		t.Fatal(err)
	}
	fmt.Printf("VERIF-SUMMARY {\"rounds\": %d, \"requests\": %d, \"hangs\": %d, \"events\": %d}\n", rounds, total, hangs, len(log.evs))
}
