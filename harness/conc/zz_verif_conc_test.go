//go:build verif

package shimagent

// Concurrency harness for spec/ShimConc.tla and spec/TraceLin.tla (property C11).
// Overlaid together with harness/shim/zz_verif_shim_test.go (reuses vInst and friends).
//
//  1. measures, per operation, the mode in which Server.mu is held while each of its upstream
//     requests is outstanding (TryLock/TryRLock probes while the proxy withholds the reply) and
//     whether the request went through the agent client's mutex;
//  2. forced-overlap experiments: for every ordered pair (A, B) and every upstream request of A,
//     A is suspended inside that request and B is started; a frame-aware monitor on the single
//     upstream connection reports a second request begun while one is outstanding; the race
//     detector (binary built with -race) reports unsynchronised accesses to the shared status;
//  3. batches of 2..16 goroutines issuing random operations at once; results and the final state
//     are recorded for the linearisation check by TLC (TraceLin.tla); a watchdog reports hangs.

import (
	"encoding/binary"
	"encoding/json"
	"fmt"
	"io"
	mrand "math/rand"
	"net"
	"os"
	"reflect"
	"sort"
	"sync"
	"testing"
	"time"
	"unsafe"

	"github.com/theparanoids/ysshra/verifh"
)

// monConn monitors the single connection to the underlying agent.
type monConn struct {
	net.Conn
	mu       sync.Mutex
	wneed    int // bytes of the current request frame still to be written (0 = at a frame boundary)
	whdr     []byte
	awaiting bool // a complete request was written and its reply has not been read completely
	rneed    int
	rhdr     []byte
	overlaps int
	frames   int
}

func (m *monConn) Write(p []byte) (int, error) {
	m.mu.Lock()
	if m.awaiting && m.wneed == 0 && len(m.whdr) == 0 {
		m.overlaps++ // a new request begins while another one is outstanding on the single connection
	}
	q := p
	for len(q) > 0 {
		if m.wneed == 0 {
			n := 4 - len(m.whdr)
			if n > len(q) {
				n = len(q)
			}
			m.whdr = append(m.whdr, q[:n]...)
			q = q[n:]
			if len(m.whdr) == 4 {
				m.wneed = int(binary.BigEndian.Uint32(m.whdr))
				m.whdr = m.whdr[:0]
				if m.wneed == 0 {
					m.awaiting = true
					m.frames++
				}
			}
			continue
		}
		n := m.wneed
		if n > len(q) {
			n = len(q)
		}
		m.wneed -= n
		q = q[n:]
		if m.wneed == 0 {
			m.awaiting = true
			m.frames++
		}
	}
	m.mu.Unlock()
	return m.Conn.Write(p)
}

func (m *monConn) Read(p []byte) (int, error) {
	n, err := m.Conn.Read(p)
	m.mu.Lock()
	q := p[:n]
	for len(q) > 0 {
		if m.rneed == 0 {
			k := 4 - len(m.rhdr)
			if k > len(q) {
				k = len(q)
			}
			m.rhdr = append(m.rhdr, q[:k]...)
			q = q[k:]
			if len(m.rhdr) == 4 {
				m.rneed = int(binary.BigEndian.Uint32(m.rhdr))
				m.rhdr = m.rhdr[:0]
				if m.rneed == 0 {
					m.awaiting = false
				}
			}
			continue
		}
		k := m.rneed
		if k > len(q) {
			k = len(q)
		}
		m.rneed -= k
		q = q[k:]
		if m.rneed == 0 {
			m.awaiting = false
		}
	}
	m.mu.Unlock()
	return n, err
}

func (m *monConn) Overlaps() int {
	m.mu.Lock()
	defer m.mu.Unlock()
	return m.overlaps
}

// gate suspends the proxy at the k-th request after arm().
type gate struct {
	mu      sync.Mutex
	n       int
	at      int
	reached chan struct{}
	release chan struct{}
}

func (g *gate) arm(at int) {
	g.mu.Lock()
	g.n, g.at = 0, at
	g.reached, g.release = make(chan struct{}), make(chan struct{})
	g.mu.Unlock()
}

func (g *gate) hook(req []byte) {
	g.mu.Lock()
	g.n++
	hit := g.at > 0 && g.n == g.at
	reached, release := g.reached, g.release
	g.mu.Unlock()
	if hit {
		close(reached)
		<-release
	}
}

// cInst is a vInst whose upstream connection is monitored and gated.
type cInst struct {
	*vInst
	mon *monConn
	g   *gate
}

var cUniverse = vUniverse{
	Keys: []string{"k1", "k2"},
	Certs: map[string]vCertDef{
		"c1": {Key: "k1", V0: true, V1: true, Yss: true},
		"c2": {Key: "k1", V0: false, V1: false, Yss: false},
		"c3": {Key: "k2", V0: true, V1: true, Yss: false},
		"c4": {Key: "k2", V0: false, V1: false, Yss: true},
		"c5": {Key: "k1", V0: true, V1: true, Yss: false},
	},
	Pass: []string{"p1", "p2"},
}

// newCInst builds a shim over a gated, monitored connection and brings it into a state in which
// listings have something to purge (expired certificates in memory and in the underlying agent).
func newCInst(rnd *mrand.Rand, noUp bool, rich bool) *cInst {
	g := &gate{}
	var mon *monConn
	vWrapConn = func(c net.Conn) io.ReadWriteCloser {
		mon = &monConn{Conn: c}
		return mon
	}
	init := vState{Nu: noUp, U: []string{"k1", "k2", "c1", "c3"}}
	if rich {
		init.U = append(init.U, "c2")
	}
	vInstMu.Lock()
	in := newInst(&cUniverse, init, false, mrand.New(mrand.NewSource(rnd.Int63()))) // own generator: operations of a hung batch may outlive it
	vWrapConn = nil
	vInstMu.Unlock()
	in.px.Gate = g.hook
	in.echo = true
	in.px.Rewrite = func(req, reply []byte) []byte {
		if len(req) > 0 && req[0] == 27 {
			return append([]byte{29}, req...)
		}
		return reply
	}
	c := &cInst{vInst: in, mon: mon, g: g}
	if rich {
		for _, id := range []string{"c5", "c4"} { // a valid and an expired hardware certificate
			if err := in.srv.AddHardCert(in.pub(id), ""); err != nil {
				panic("verif: setup addhard failed: " + err.Error())
			}
		}
	}
	return c
}

var cHung = map[string]bool{}

var cKinds = []string{"list", "signers", "sign", "add", "remove", "removeall", "addhard", "lock", "unlock", "extension", "forward"}

func cArg(kind string, rnd *mrand.Rand) string {
	switch kind {
	case "sign":
		return pick(rnd, []string{"k1", "c3", "c5", "c1", "k2"})
	case "add":
		return pick(rnd, []string{"k1", "c3", "c2", "k2"})
	case "remove":
		return pick(rnd, []string{"c3", "c5", "k2", "c1"})
	case "addhard":
		return pick(rnd, []string{"c1", "c3", "c2"})
	case "lock", "unlock":
		return "p1"
	case "forward":
		return pick(rnd, []string{"ext", "list"})
	}
	return ""
}

// clientMuHeld probes the x/crypto agent client's mutex.
func clientMuHeld(s *Server) bool {
	v := reflect.ValueOf(s.agent)
	if v.Kind() == reflect.Ptr {
		v = v.Elem()
	}
	f := v.FieldByName("mu")
	if !f.IsValid() || !f.CanAddr() {
		return false
	}
	mu := (*sync.Mutex)(unsafe.Pointer(f.UnsafeAddr()))
	if mu.TryLock() {
		mu.Unlock()
		return false
	}
	return true
}

func probeMu(s *Server) string {
	if s.mu.TryLock() {
		s.mu.Unlock()
		return "N"
	}
	if s.mu.TryRLock() {
		s.mu.RUnlock()
		return "R"
	}
	return "W"
}

type cMeasure struct {
	Hang  bool     `json:"hang"` // the operation did not complete although nothing ran concurrently
	Op    string   `json:"op"`
	Modes []string `json:"modes"` // mode of Server.mu while the i-th upstream request is outstanding
	Raw   []bool   `json:"raw"`   // request written without the agent client's mutex
}

func cExecExt(in *vInst, kind, arg string) vRes {
	return in.exec(kind, arg)
}

// measure runs one operation, suspending it inside each of its upstream requests in turn.
func measureOp(kind string, rnd *mrand.Rand) cMeasure {
	m := cMeasure{Op: kind}
	for k := 1; k <= 6; k++ {
		c := newCInst(rnd, rnd.Intn(2) == 0, true)
		if kind == "unlock" {
			if err := c.srv.Lock([]byte("p1")); err != nil {
				panic(err)
			}
		}
		arg := cArg(kind, rnd)
		if kind == "remove" {
			arg = "c3"
		}
		if kind == "addhard" {
			arg = "c1"
		}
		c.g.arm(k)
		done := make(chan struct{})
		go func() {
			cExecExt(c.vInst, kind, arg)
			close(done)
		}()
		reached := false
		select {
		case <-c.g.reached:
			reached = true
		case <-done:
		case <-time.After(20 * time.Second):
			m.Hang = true
			return m
		}
		if reached {
			m.Modes = append(m.Modes, probeMu(c.srv))
			m.Raw = append(m.Raw, !clientMuHeld(c.srv))
			close(c.g.release)
			select {
			case <-done:
			case <-time.After(20 * time.Second):
				m.Hang = true
				return m
			}
		}
		c.close()
		if !reached {
			break
		}
	}
	return m
}

type cExperiment struct {
	A, B      string
	ArgA      string `json:"argA"`
	ArgB      string `json:"argB"`
	Hold      int    `json:"hold"`
	Reached   bool   `json:"reached"`
	BDone     bool   `json:"b_done_during_hold"`
	Overlaps  int    `json:"overlaps"`
	Hang      bool   `json:"hang"`
	PanA      bool   `json:"panA"`
	PanB      bool   `json:"panB"`
	ModeAtHold string `json:"mode"`
}

func runExperiment(a, b string, hold int, rnd *mrand.Rand) cExperiment {
	e := cExperiment{A: a, B: b, Hold: hold}
	c := newCInst(rnd, rnd.Intn(2) == 0, true)
	defer c.close()
	if a == "unlock" || b == "unlock" {
		// one of them unlocks: start locked unless the other one is the locker
		if a != "lock" && b != "lock" {
			if err := c.srv.Lock([]byte("p1")); err != nil {
				panic(err)
			}
		}
	}
	e.ArgA, e.ArgB = cArg(a, rnd), cArg(b, rnd)
	c.g.arm(hold)
	doneA, doneB := make(chan vRes, 1), make(chan vRes, 1)
	go func() { doneA <- cExecExt(c.vInst, a, e.ArgA) }()
	select {
	case <-c.g.reached:
		e.Reached = true
	case r := <-doneA:
		e.PanA = r.Pan
		return e
	case <-time.After(30 * time.Second):
		e.Hang = true
		return e
	}
	e.ModeAtHold = probeMu(c.srv)
	go func() { doneB <- cExecExt(c.vInst, b, e.ArgB) }()
	var rb *vRes
	select {
	case r := <-doneB:
		rb = &r
		e.BDone = true
	case <-time.After(60 * time.Millisecond):
	}
	close(c.g.release)
	tmo := time.After(30 * time.Second)
	var ra *vRes
	for ra == nil || rb == nil {
		select {
		case r := <-doneA:
			ra = &r
		case r := <-doneB:
			rb = &r
		case <-tmo:
			e.Hang = true
			e.Overlaps = c.mon.Overlaps()
			return e
		}
	}
	e.PanA, e.PanB = ra.Pan, rb.Pan
	e.Overlaps = c.mon.Overlaps()
	return e
}

type cBatch struct {
	Ev    string   `json:"ev"`
	Bid   string   `json:"bid"`
	Init  vState   `json:"init"`
	Ops   []vLabel `json:"ops"`
	Final vState   `json:"final"`
	Hang  bool     `json:"hang"`
	Over  int      `json:"overlaps"`
}

func runBatch(bi int, n int, rnd *mrand.Rand) cBatch {
	c := newCInst(rnd, rnd.Intn(2) == 0, rnd.Intn(3) != 0)
	defer c.close()
	if rnd.Intn(5) == 0 {
		if err := c.srv.Lock([]byte("p1")); err != nil {
			panic(err)
		}
	}
	b := cBatch{Ev: "batch", Bid: fmt.Sprintf("b%d", bi), Init: c.project()}
	type job struct{ kind, arg string }
	jobs := make([]job, n)
	for i := range jobs {
		k := pick(rnd, cKinds)
		for cHung[k] {
			k = pick(rnd, cKinds)
		}
		jobs[i] = job{k, cArg(k, rnd)}
	}
	labs := make([]vLabel, n)
	start := make(chan struct{})
	var wg sync.WaitGroup
	for i := range jobs {
		wg.Add(1)
		go func(i int) {
			defer wg.Done()
			<-start
			res := cExecExt(c.vInst, jobs[i].kind, jobs[i].arg)
			labs[i] = vLabel{Op: jobs[i].kind, Arg: jobs[i].arg, F: vFault{"none", "none"}, Res: res}
		}(i)
	}
	close(start)
	fin := make(chan struct{})
	go func() { wg.Wait(); close(fin) }()
	select {
	case <-fin:
	case <-time.After(40 * time.Second):
		b.Hang = true
		return b
	}
	b.Ops = labs
	b.Final = c.project()
	b.Over = c.mon.Overlaps()
	return b
}

func TestVerifConc(t *testing.T) {
	outPath := os.Getenv("VERIF_OUT")
	if outPath == "" {
		t.Skip("VERIF_OUT not set")
	}
	tr, err := verifh.OpenTrace(outPath)
	if err != nil {
		t.Fatal(err)
	}
	rnd := verifh.NewRand("conc", 0)
	// 1. lock table
	var table []cMeasure
	for _, k := range cKinds {
		m := measureOp(k, rnd)
		table = append(table, m)
	}
	tr.Emit(map[string]interface{}{"ev": "measure", "table": table})

	// 2. forced-overlap experiments
	nreq := map[string]int{}
	hung := map[string]bool{}
	for _, m := range table {
		nreq[m.Op] = len(m.Modes)
		hung[m.Op] = m.Hang
		cHung[m.Op] = m.Hang
	}
	reps := verifh.EnvInt("VERIF_CONC_REPS", 1)
	nexp := 0
	for rep := 0; rep < reps; rep++ {
		for _, a := range cKinds {
			for _, b := range cKinds {
				if hung[a] || hung[b] {
					continue
				}
				for h := 1; h <= nreq[a]; h++ {
					e := runExperiment(a, b, h, rnd)
					tr.Emit(map[string]interface{}{"ev": "exp", "e": e})
					nexp++
				}
			}
		}
	}

	// 3. concurrent batches
	nb := verifh.EnvInt("VERIF_CONC_BATCHES", 60)
	for bi := 0; bi < nb; bi++ {
		n := 2 + rnd.Intn(5)
		if bi%10 == 9 {
			n = 8 + rnd.Intn(9)
		}
		b := runBatch(bi, n, rnd)
		tr.Emit(b)
	}
	if err := tr.Close(); err != nil {
		t.Fatal(err)
	}
	u, _ := json.Marshal(cUniverse)
	keys := make([]string, 0)
	for _, m := range table {
		keys = append(keys, fmt.Sprintf("%s:%v", m.Op, m.Modes))
	}
	sort.Strings(keys)
	fmt.Printf("VERIF-UNIVERSE %s\n", u)
	fmt.Printf("VERIF-SUMMARY {\"experiments\": %d, \"batches\": %d, \"ops_measured\": %d}\n", nexp, nb, len(table))
}
