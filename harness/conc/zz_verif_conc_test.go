//go:build verif

package shimagent

// Concurrency harness for spec/ShimConc.tla and spec/TraceLin.tla (property C11).
// Overlaid together with harness/shim/zz_verif_shim_test.go (reuses zvfVInst and friends).
//
//  1. measures, per operation, the mode in which Server.mu is held while each of its upstream
//     requests is outstanding (TryLock/TryRLock probes while the proxy withholds the reply) and
//     whether the request went through the agent client's mutex;
//  2. forced-overlap experiments: for every ordered pair (A, B) and every upstream request of A,
//     A is suspended inside that request and B is started; a frame-aware monitor on the single
//     upstream connection reports a second request begun while one is outstanding; the race
//     detector (binary built with -race) reports unsynchronised accesses to the shared status;
//  3. batches of 2..16 goroutines issuing random operations at once; results and the final state
//     are recorded for the linearisation check by TLC (TraceLin.tla); a watchdog reports hangs.

import (
	"encoding/binary"
	"encoding/json"
	"fmt"
	"io"
	mrand "math/rand"
	"net"
	"os"
	"reflect"
	"sort"
	"sync"
	"testing"
	"time"
	"unsafe"

	"github.com/theparanoids/ysshra/verifh"
)

// zvfMonConn monitors the single connection to the underlying agent.
type zvfMonConn struct {
	net.Conn
	mu       sync.Mutex
	wneed    int // bytes of the current request frame still to be written (0 = at a frame boundary)
	whdr     []byte
	awaiting bool // a complete request was written and its reply has not been read completely
	rneed    int
	rhdr     []byte
	overlaps int
	frames   int
}

func (m *zvfMonConn) Write(p []byte) (int, error) {
	m.mu.Lock()
	if m.awaiting && m.wneed == 0 && len(m.whdr) == 0 {
		m.overlaps++ // a new request begins while another one is outstanding on the single connection
	}
	q := p
	for len(q) > 0 {
		if m.wneed == 0 {
			n := 4 - len(m.whdr)
			if n > len(q) {
				n = len(q)
			}
			m.whdr = append(m.whdr, q[:n]...)
			q = q[n:]
			if len(m.whdr) == 4 {
				m.wneed = int(binary.BigEndian.Uint32(m.whdr))
				m.whdr = m.whdr[:0]
				if m.wneed == 0 {
					m.awaiting = true
					m.frames++
				}
			}
			continue
		}
		n := m.wneed
		if n > len(q) {
			n = len(q)
		}
		m.wneed -= n
		q = q[n:]
		if m.wneed == 0 {
			m.awaiting = true
			m.frames++
		}
	}
	m.mu.Unlock()
	return m.Conn.Write(p)
}

func (m *zvfMonConn) Read(p []byte) (int, error) {
	n, err := m.Conn.Read(p)
	m.mu.Lock()
	q := p[:n]
	for len(q) > 0 {
		if m.rneed == 0 {
			k := 4 - len(m.rhdr)
			if k > len(q) {
				k = len(q)
			}
			m.rhdr = append(m.rhdr, q[:k]...)
			q = q[k:]
			if len(m.rhdr) == 4 {
				m.rneed = int(binary.BigEndian.Uint32(m.rhdr))
				m.rhdr = m.rhdr[:0]
				if m.rneed == 0 {
					m.awaiting = false
				}
			}
			continue
		}
		k := m.rneed
		if k > len(q) {
			k = len(q)
		}
		m.rneed -= k
		q = q[k:]
		if m.rneed == 0 {
			m.awaiting = false
		}
	}
	m.mu.Unlock()
	return n, err
}

func (m *zvfMonConn) Overlaps() int {
	m.mu.Lock()
	defer m.mu.Unlock()
	return m.overlaps
}

// zvfGate suspends the proxy at the k-th request after arm().
type zvfGate struct {
	mu      sync.Mutex
	n       int
	at      int
	reached chan struct{}
	release chan struct{}
}

func (g *zvfGate) arm(at int) {
	g.mu.Lock()
	g.n, g.at = 0, at
	g.reached, g.release = make(chan struct{}), make(chan struct{})
	g.mu.Unlock()
}

func (g *zvfGate) hook(req []byte) {
	g.mu.Lock()
	g.n++
	hit := g.at > 0 && g.n == g.at
	reached, release := g.reached, g.release
	g.mu.Unlock()
	if hit {
		close(reached)
		<-release
	}
}

// zvfCInst is a zvfVInst whose upstream connection is monitored and gated.
type zvfCInst struct {
	*zvfVInst
	mon *zvfMonConn
	g   *zvfGate
}

var zvfCUniverse = zvfVUniverse{
	Keys: []string{"k1", "k2"},
	Certs: map[string]zvfVCertDef{
		"c1": {Key: "k1", V0: true, V1: true, Yss: true},
		"c2": {Key: "k1", V0: false, V1: false, Yss: false},
		"c3": {Key: "k2", V0: true, V1: true, Yss: false},
		"c4": {Key: "k2", V0: false, V1: false, Yss: true},
		"c5": {Key: "k1", V0: true, V1: true, Yss: false},
	},
	Pass: []string{"p1", "p2"},
}

// zvfNewCInst builds a shim over a gated, monitored connection and brings it into a state in which
// listings have something to purge (expired certificates in memory and in the underlying agent).
func zvfNewCInst(rnd *mrand.Rand, noUp bool, rich bool) *zvfCInst {
	g := &zvfGate{}
	var mon *zvfMonConn
	zvfVInstMu.Lock() // instances are built one at a time: the wrap hook is a package-level variable
	zvfVWrapConn = func(c net.Conn) io.ReadWriteCloser {
		mon = &zvfMonConn{Conn: c}
		return mon
	}
	init := zvfVState{Nu: noUp, U: []string{"k1", "k2", "c1", "c3"}}
	if rich {
		init.U = append(init.U, "c2")
	}
	in := zvfNewInst(&zvfCUniverse, init, false, mrand.New(mrand.NewSource(rnd.Int63()))) // own generator: operations of a hung batch may outlive it
	zvfVWrapConn = nil
	zvfVInstMu.Unlock()
	in.px.Gate = g.hook
	in.echo = true
	in.px.Rewrite = func(req, reply []byte) []byte {
		if len(req) > 0 && req[0] == 27 {
			return append([]byte{29}, req...)
		}
		return reply
	}
	c := &zvfCInst{zvfVInst: in, mon: mon, g: g}
	if rich {
		for _, id := range []string{"c5", "c4"} { // a valid and an expired hardware certificate
			if err := in.srv.AddHardCert(in.pub(id), ""); err != nil {
				panic("verif: setup addhard failed: " + err.Error())
			}
		}
	}
	return c
}

var zvfCHung = map[string]bool{}

var zvfCKinds = []string{"list", "signers", "sign", "add", "remove", "removeall", "addhard", "lock", "unlock", "extension", "forward"}

func zvfCArg(kind string, rnd *mrand.Rand) string {
	switch kind {
	case "sign":
		return zvfPick(rnd, []string{"k1", "c3", "c5", "c1", "k2"})
	case "add":
		return zvfPick(rnd, []string{"k1", "c3", "c2", "k2"})
	case "remove":
		return zvfPick(rnd, []string{"c3", "c5", "k2", "c1"})
	case "addhard":
		return zvfPick(rnd, []string{"c1", "c3", "c2"})
	case "lock", "unlock":
		return "p1"
	case "forward":
		return zvfPick(rnd, []string{"ext", "list"})
	}
	return ""
}

// zvfClientMuHeld probes the x/crypto agent client's mutex.
func zvfClientMuHeld(s *Server) bool {
	v := reflect.ValueOf(s.agent)
	if v.Kind() == reflect.Ptr {
		v = v.Elem()
	}
	f := v.FieldByName("mu")
	if !f.IsValid() || !f.CanAddr() {
		return false
	}
	mu := (*sync.Mutex)(unsafe.Pointer(f.UnsafeAddr()))
	if mu.TryLock() {
		mu.Unlock()
		return false
	}
	return true
}

func zvfProbeMu(s *Server) string {
	// works for sync.Mutex and sync.RWMutex alike (the type of Server.mu is not part of the property)
	var mu interface{} = &s.mu
	if l, ok := mu.(interface {
		TryLock() bool
		Unlock()
	}); ok && l.TryLock() {
		l.Unlock()
		return "N"
	}
	if rl, ok := mu.(interface {
		TryRLock() bool
		RUnlock()
	}); ok && rl.TryRLock() {
		rl.RUnlock()
		return "R"
	}
	return "W"
}

type zvfCMeasure struct {
	Hang  bool     `json:"hang"` // the operation did not complete although nothing ran concurrently
	Op    string   `json:"op"`
	Modes []string `json:"modes"` // mode of Server.mu while the i-th upstream request is outstanding
	Raw   []bool   `json:"raw"`   // request written without the agent client's mutex
}

func zvfCExecExt(in *zvfVInst, kind, arg string) zvfVRes {
	return in.exec(kind, arg)
}

// measure runs one operation, suspending it inside each of its upstream requests in turn.
func zvfMeasureOp(kind string, rnd *mrand.Rand) zvfCMeasure {
	m := zvfCMeasure{Op: kind}
	for k := 1; k <= 6; k++ {
		c := zvfNewCInst(rnd, rnd.Intn(2) == 0, true)
		if kind == "unlock" {
			if err := c.srv.Lock(c.pw("p1")); err != nil {
				panic(err)
			}
		}
		arg := zvfCArg(kind, rnd)
		if kind == "remove" {
			arg = "c3"
		}
		if kind == "addhard" {
			arg = "c1"
		}
		c.g.arm(k)
		done := make(chan struct{})
		go func() {
			zvfCExecExt(c.zvfVInst, kind, arg)
			close(done)
		}()
		reached := false
		select {
		case <-c.g.reached:
			reached = true
		case <-done:
		case <-time.After(20 * time.Second):
			m.Hang = true
			return m
		}
		if reached {
			m.Modes = append(m.Modes, zvfProbeMu(c.srv))
			m.Raw = append(m.Raw, !zvfClientMuHeld(c.srv))
			close(c.g.release)
			select {
			case <-done:
			case <-time.After(20 * time.Second):
				m.Hang = true
				return m
			}
		}
		c.close()
		if !reached {
			break
		}
	}
	return m
}

// zvfCLeak: the state of Server.mu after an operation returned although the k-th upstream request was faulted.
type zvfCLeak struct {
	Op       string `json:"op"`
	K        int    `json:"k"`
	Kind     string `json:"kind"`
	Fired    bool   `json:"fired"`
	Hang     bool   `json:"hang"`      // the faulted operation itself did not return
	Held     string `json:"held"`      // N / R / W: mode in which Server.mu is still held after the return
	NextHang bool   `json:"next_hang"` // a following operation did not complete
}

// zvfLeakScan faults each upstream request of each operation in turn and looks at the lock afterwards.
func zvfLeakScan(nreq map[string]int, rnd *mrand.Rand) []zvfCLeak {
	var out []zvfCLeak
	for _, kind := range zvfCKinds {
		for _, fk := range []string{"fail", "garbage", "close"} {
			for k := 1; k <= nreq[kind]; k++ {
				c := zvfNewCInst(rnd, rnd.Intn(2) == 0, true)
				if kind == "unlock" {
					if err := c.srv.Lock(c.pw("p1")); err != nil {
						panic(err)
					}
				}
				arg := zvfCArg(kind, rnd)
				if kind == "remove" {
					arg = "c3"
				}
				if kind == "addhard" {
					arg = "c1"
				}
				l := zvfCLeak{Op: kind, K: k, Kind: fk}
				c.px.Begin()
				c.px.ArmAt(fk, k)
				done := make(chan struct{})
				go func() {
					zvfCExecExt(c.zvfVInst, kind, arg)
					close(done)
				}()
				select {
				case <-done:
				case <-time.After(20 * time.Second):
					l.Hang = true
				}
				l.Fired, _ = c.px.Fired()
				if !l.Hang {
					l.Held = zvfProbeMu(c.srv)
					if l.Held != "N" {
						// confirm the consequence on the code: nobody else completes
						d2 := make(chan struct{})
						go func() {
							zvfCExecExt(c.zvfVInst, "addhard", "k1") // refused at once, but only after taking Server.mu
							close(d2)
						}()
						select {
						case <-d2:
						case <-time.After(5 * time.Second):
							l.NextHang = true
						}
					}
				}
				out = append(out, l)
				c.close()
			}
		}
	}
	return out
}

type zvfCExperiment struct {
	A, B      string
	ArgA      string `json:"argA"`
	ArgB      string `json:"argB"`
	Hold      int    `json:"hold"`
	Reached   bool   `json:"reached"`
	BDone     bool   `json:"b_done_during_hold"`
	Overlaps  int    `json:"overlaps"`
	Hang      bool   `json:"hang"`
	PanA      bool   `json:"panA"`
	PanB      bool   `json:"panB"`
	ModeAtHold string `json:"mode"`
	PatienceMs int    `json:"patience_ms"` // how long A's upstream request was left unanswered
	Init       *zvfVState `json:"init,omitempty"`  // projected state before / after and both results: the pair is also
	Final      *zvfVState `json:"final,omitempty"` // judged by the linearisation search (as a batch of two)
	LabA       *zvfVLabel `json:"labA,omitempty"`
	LabB       *zvfVLabel `json:"labB,omitempty"`
}

func zvfRunExperiment(a, b string, hold int, rnd *mrand.Rand) zvfCExperiment {
	return zvfRunExperimentP(a, b, hold, rnd, 60*time.Millisecond)
}

// zvfRunExperimentP: the underlying agent leaves A's hold-th request unanswered for `patience` (a hardware key waiting
// for a touch takes many seconds); B is started meanwhile.  A keeps its exclusive use of the connection for as long as
// the agent takes.
func zvfRunExperimentP(a, b string, hold int, rnd *mrand.Rand, patience time.Duration) zvfCExperiment {
	e := zvfCExperiment{A: a, B: b, Hold: hold, PatienceMs: int(patience / time.Millisecond)}
	c := zvfNewCInst(rnd, rnd.Intn(2) == 0, true)
	defer c.close()
	if a == "unlock" || b == "unlock" {
		// one of them unlocks: start locked unless the other one is the locker
		if a != "lock" && b != "lock" {
			if err := c.srv.Lock(c.pw("p1")); err != nil {
				panic(err)
			}
		}
	}
	e.ArgA, e.ArgB = zvfCArg(a, rnd), zvfCArg(b, rnd)
	init := c.project()
	c.g.arm(hold)
	doneA, doneB := make(chan zvfVRes, 1), make(chan zvfVRes, 1)
	go func() { doneA <- zvfCExecExt(c.zvfVInst, a, e.ArgA) }()
	select {
	case <-c.g.reached:
		e.Reached = true
	case r := <-doneA:
		e.PanA = r.Pan
		return e
	case <-time.After(30 * time.Second):
		e.Hang = true
		return e
	}
	e.ModeAtHold = zvfProbeMu(c.srv)
	go func() { doneB <- zvfCExecExt(c.zvfVInst, b, e.ArgB) }()
	var rb *zvfVRes
	select {
	case r := <-doneB:
		rb = &r
		e.BDone = true
	case <-time.After(patience):
	}
	close(c.g.release)
	tmo := time.After(30 * time.Second)
	var ra *zvfVRes
	for ra == nil || rb == nil {
		select {
		case r := <-doneA:
			ra = &r
		case r := <-doneB:
			rb = &r
		case <-tmo:
			e.Hang = true
			e.Overlaps = c.mon.Overlaps()
			return e
		}
	}
	e.PanA, e.PanB = ra.Pan, rb.Pan
	e.Overlaps = c.mon.Overlaps()
	fin := c.project()
	e.Init, e.Final = &init, &fin
	e.LabA = &zvfVLabel{Op: a, Arg: e.ArgA, F: zvfVFault{"none", "none"}, Res: *ra}
	e.LabB = &zvfVLabel{Op: b, Arg: e.ArgB, F: zvfVFault{"none", "none"}, Res: *rb}
	return e
}

type zvfCBatch struct {
	Ev    string   `json:"ev"`
	Bid   string   `json:"bid"`
	Init  zvfVState   `json:"init"`
	Ops   []zvfVLabel `json:"ops"`
	Final zvfVState   `json:"final"`
	Hang  bool     `json:"hang"`
	Over  int      `json:"overlaps"`
}

func zvfRunBatch(bi int, n int, rnd *mrand.Rand) zvfCBatch {
	c := zvfNewCInst(rnd, rnd.Intn(2) == 0, rnd.Intn(3) != 0)
	defer c.close()
	if rnd.Intn(5) == 0 {
		if err := c.srv.Lock(c.pw("p1")); err != nil {
			panic(err)
		}
	}
	b := zvfCBatch{Ev: "batch", Bid: fmt.Sprintf("b%d", bi), Init: c.project()}
	type job struct{ kind, arg string }
	jobs := make([]job, n)
	for i := range jobs {
		k := zvfPick(rnd, zvfCKinds)
		for zvfCHung[k] {
			k = zvfPick(rnd, zvfCKinds)
		}
		jobs[i] = job{k, zvfCArg(k, rnd)}
	}
	labs := make([]zvfVLabel, n)
	start := make(chan struct{})
	var wg sync.WaitGroup
	for i := range jobs {
		wg.Add(1)
		go func(i int) {
			defer wg.Done()
			<-start
			res := zvfCExecExt(c.zvfVInst, jobs[i].kind, jobs[i].arg)
			labs[i] = zvfVLabel{Op: jobs[i].kind, Arg: jobs[i].arg, F: zvfVFault{"none", "none"}, Res: res}
		}(i)
	}
	close(start)
	fin := make(chan struct{})
	go func() { wg.Wait(); close(fin) }()
	select {
	case <-fin:
	case <-time.After(40 * time.Second):
		b.Hang = true
		return b
	}
	b.Ops = labs
	b.Final = c.project()
	b.Over = c.mon.Overlaps()
	return b
}

func TestVerifConc(t *testing.T) {
	outPath := os.Getenv("VERIF_OUT")
	if outPath == "" {
		t.Skip("VERIF_OUT not set")
	}
	tr, err := verifh.OpenTrace(outPath)
	if err != nil {
		t.Fatal(err)
	}
	rnd := verifh.NewRand("conc", 0)
	// 1. lock table
	var table []zvfCMeasure
	for _, k := range zvfCKinds {
		m := zvfMeasureOp(k, rnd)
		table = append(table, m)
	}
	tr.Emit(map[string]interface{}{"ev": "measure", "table": table})

	// 2. forced-overlap experiments
	nreq := map[string]int{}
	hung := map[string]bool{}
	for _, m := range table {
		nreq[m.Op] = len(m.Modes)
		hung[m.Op] = m.Hang
		zvfCHung[m.Op] = m.Hang
	}
	tr.Emit(map[string]interface{}{"ev": "leaks", "table": zvfLeakScan(nreq, rnd)})
	reps := verifh.EnvInt("VERIF_CONC_REPS", 1)
	nexp := 0
	for rep := 0; rep < reps; rep++ {
		for _, a := range zvfCKinds {
			for _, b := range zvfCKinds {
				if hung[a] || hung[b] {
					continue
				}
				for h := 1; h <= nreq[a]; h++ {
					e := zvfRunExperiment(a, b, h, rnd)
					tr.Emit(map[string]interface{}{"ev": "exp", "e": e})
					nexp++
				}
			}
		}
	}

	// 2b. a slow underlying agent: A's first request stays unanswered for many seconds while B arrives
	pat := time.Duration(verifh.EnvInt("VERIF_CONC_PATIENCE_S", 12)) * time.Second
	{
		type pj struct{ a, b string }
		var jobs []pj
		for _, a := range zvfCKinds {
			if hung[a] || nreq[a] == 0 {
				continue
			}
			for _, b := range []string{"list", "forward"} {
				if !hung[b] {
					jobs = append(jobs, pj{a, b})
				}
			}
		}
		res := make([]zvfCExperiment, len(jobs))
		seeds := make([]int64, len(jobs))
		for i := range seeds {
			seeds[i] = rnd.Int63()
		}
		var pwg sync.WaitGroup
		for i, j := range jobs {
			pwg.Add(1)
			go func(i int, j pj) {
				defer pwg.Done()
				res[i] = zvfRunExperimentP(j.a, j.b, 1, mrand.New(mrand.NewSource(seeds[i])), pat)
			}(i, j)
		}
		pwg.Wait()
		for _, e := range res {
			tr.Emit(map[string]interface{}{"ev": "exp", "e": e})
			nexp++
		}
	}

	// 3. concurrent batches
	nb := verifh.EnvInt("VERIF_CONC_BATCHES", 60)
	for bi := 0; bi < nb; bi++ {
		n := 2 + rnd.Intn(5)
		if bi%10 == 9 {
			n = 8 + rnd.Intn(9)
		}
		b := zvfRunBatch(bi, n, rnd)
		tr.Emit(b)
	}
	if err := tr.Close(); err != nil {
		t.Fatal(err)
	}
	u, _ := json.Marshal(zvfCUniverse)
	keys := make([]string, 0)
	for _, m := range table {
		keys = append(keys, fmt.Sprintf("%s:%v", m.Op, m.Modes))
	}
	sort.Strings(keys)
	fmt.Printf("VERIF-UNIVERSE %s\n", u)
	fmt.Printf("VERIF-SUMMARY {\"experiments\": %d, \"batches\": %d, \"ops_measured\": %d}\n", nexp, nb, len(table))
}
