//go:build verif

package shimagent

// Conformance harness for spec/KeyID.tla (properties C05 and C19).
// It lives in package shimagent only because the shim listing (comment = label + "-" + comment) needs the
// unexported constructor; keyid and sshutils/cert are used through their exported API.
//
// Direction A: every case exported by TLC (MCKeyID, <<"CASE", ..>>) is instantiated with concrete strings
// (UTF-8, JSON metacharacters) and run through keyid.(*KeyID).Marshal / keyid.Unmarshal / cert.GetType /
// cert.Label / cert.GetPrincipals / (*Server).List.
// Direction B: seeded random drivers (byte-edited encoder outputs, grammar-generated objects, arbitrary JSON
// values, arbitrary bytes, random KeyID structs, random certificates and comments).
// The harness never judges: it records one event per call (input class + observed result) and the concrete
// input ("info", enough to re-execute the call); TLC judges the events in TraceKeyID.tla.

import (
	"bytes"
	"crypto/sha256"
	"encoding/hex"
	"encoding/json"
	"fmt"
	mrand "math/rand"
	"net"
	"os"
	"strings"
	"sync"
	"testing"
	"time"
	"unicode"

	"github.com/theparanoids/ysshra/keyid"
	certutil "github.com/theparanoids/ysshra/sshutils/cert"
	"github.com/theparanoids/ysshra/verifh"
	"golang.org/x/crypto/ssh"
	"golang.org/x/crypto/ssh/agent"
)

// ---- binding to the code under test (exported API only, except newShimAgent / pubKeyComp in zvkExecShim)

type zvkKidT = keyid.KeyID
type zvkCertType = certutil.Type

const (
	zvkCtUnknown              = certutil.UnknownCertType
	zvkCtTouchSudo            = certutil.TouchSudoCert
	zvkCtTouchless            = certutil.TouchlessCert
	zvkCtTouchlessSudo        = certutil.TouchlessSudoCert
	zvkCtFirefighter          = certutil.FirefighterCert
	zvkCtNonce                = certutil.NonceCert
	zvkCtTouchlessInAgent     = certutil.TouchlessInAgentCert
	zvkCtTouchlessSudoInAgent = certutil.TouchlessSudoInAgentCert
)

func zvkNewKid(prins []string, tid, ru, rip, rh string, ff, hw, hl, nonce bool, usage, tp int64, ver uint16) *zvkKidT {
	return &keyid.KeyID{Principals: prins, TransID: tid, ReqUser: ru, ReqIP: rip, ReqHost: rh, IsFirefighter: ff, IsHWKey: hw,
		IsHeadless: hl, IsNonce: nonce, Usage: keyid.Usage(usage), TouchPolicy: keyid.TouchPolicy(tp), Version: ver}
}

func zvkUnmarshal(s string) (*zvkKidT, error)             { return keyid.Unmarshal(s) }
func zvkGetType(c *ssh.Certificate) zvkCertType           { return certutil.GetType(c) }
func zvkLabel(c *ssh.Certificate) (string, error)         { return certutil.Label(c) }
func zvkGetPrincipals(p []string, t zvkCertType) []string { return certutil.GetPrincipals(p, t) }

// ---- abstract vocabulary shared with KeyID.tla

type zvkAbs struct {
	Ff    bool `json:"ff"`
	Hw    bool `json:"hw"`
	Hl    bool `json:"hl"`
	Nonce bool `json:"nonce"`
	Tp    int  `json:"tp"`
	Usage int  `json:"usage"`
	Ver   int  `json:"ver"`
}

type zvkCase struct {
	Kind string `json:"kind"`
	K    zvkAbs `json:"k"`
	F    string `json:"f"`
	M    string `json:"m"`
	V    int    `json:"v"`
	Opt  string `json:"opt"`
	J    string `json:"j"`
	Ty   string `json:"ty"`
	N    int    `json:"n"`
	Cm   string `json:"cm"`
	Path string `json:"path"`
}

type zvkEvent struct {
	Op      string   `json:"op"`
	Cs      zvkCase  `json:"cs"`
	K       zvkAbs   `json:"k"`
	Sin     string   `json:"sin"`
	Present []string `json:"present"`
	Nil     bool     `json:"nil"`
	Opt     string   `json:"opt"`
	Pin     []string `json:"pin"`
	Tyin    string   `json:"tyin"`
	Ocmt    string   `json:"ocmt"`
	Pan     bool     `json:"pan"`
	Ok      bool     `json:"ok"`
	Dok     bool     `json:"dok"`
	Dk      zvkAbs   `json:"dk"`
	Sout    string   `json:"sout"`
	Tid     string   `json:"tid"`
	Ty      string   `json:"ty"`
	Lok     bool     `json:"lok"`
	Label   string   `json:"label"`
	Pout    []string `json:"pout"`
	Found   bool     `json:"found"`
	Cmt     string   `json:"cmt"`
	Rep     int      `json:"rep"`
	Ok1     bool     `json:"ok1"`
	Dk1     zvkAbs   `json:"dk1"`
	S1      string   `json:"s1"`
	Pafter  []string `json:"pafter"`
	Pfirst  []string `json:"pfirst"`
	Pfirst2 []string `json:"pfirst2"`
}

// concrete KeyID contents (valid UTF-8 strings only, so plain JSON is faithful)
type zvkKid struct {
	Principals []string `json:"prins"`
	TransID    string   `json:"transID"`
	ReqUser    string   `json:"reqUser"`
	ReqIP      string   `json:"reqIP"`
	ReqHost    string   `json:"reqHost"`
	Ff         bool     `json:"ff"`
	Hw         bool     `json:"hw"`
	Hl         bool     `json:"hl"`
	Nonce      bool     `json:"nonce"`
	Usage      int64    `json:"usage"`
	Tp         int64    `json:"tp"`
	Ver        uint16   `json:"ver"`
}

// zvkInfo is the concrete input of one call; it is all that a replay needs.
type zvkInfo struct {
	Op      string            `json:"op"`
	Kid     *zvkKid           `json:"kid,omitempty"`  // enc
	Text    string            `json:"text,omitempty"` // hex of the KeyID text (dec, cert, shim)
	Nil     bool              `json:"nil,omitempty"`  // cert: nil certificate
	CritNil bool              `json:"critnil,omitempty"`
	Crit    map[string]string `json:"crit,omitempty"`
	Prins   []string          `json:"prins"`
	PrNil   bool              `json:"prnil,omitempty"`
	Ty      int               `json:"ty,omitempty"`   // prins: numeric certificate type
	Cmt     string            `json:"cmt,omitempty"`  // hex of the comment (shim)
	Path    string            `json:"path,omitempty"` // shim: "agent" / "hard"
	Signed  bool              `json:"signed,omitempty"`
	Pre     []string          `json:"pre,omitempty"`   // cert: hex KeyID texts of certificates examined immediately before, same goroutine
	Order   int               `json:"order,omitempty"` // cert: 1 = the label is asked for before the type
	Hist    []string          `json:"hist,omitempty"`  // cert: KeyID texts examined by this goroutine just before this record (a replay examines them first)
}

type zvkRec struct {
	Ev   string    `json:"ev"`
	Tid  string    `json:"tid"`
	E    *zvkEvent `json:"e,omitempty"`
	Info *zvkInfo  `json:"info,omitempty"`
}

type zvkReplay struct {
	Cs   zvkCase `json:"cs"`
	Info zvkInfo `json:"info"`
}

type zvkPlan struct {
	Cases   []zvkCase      `json:"cases"`
	Random  map[string]int `json:"random"`
	Replays []zvkReplay    `json:"replays"`
}

var zvkFree = zvkCase{Kind: "free", Opt: "absent"}

var zvkAllFields = []string{"prins", "transID", "reqUser", "reqIP", "reqHost", "isFirefighter", "isHWKey", "isHeadless", "isNonce", "usage", "touchPolicy", "ver"}

func zvkIsStr(f string) bool {
	return f == "prins" || f == "transID" || f == "reqUser" || f == "reqIP" || f == "reqHost"
}
func zvkIsBool(f string) bool {
	return f == "isFirefighter" || f == "isHWKey" || f == "isHeadless" || f == "isNonce"
}

func zvkTypeName(t zvkCertType) string {
	switch t {
	case zvkCtUnknown:
		return "Unknown"
	case zvkCtTouchSudo:
		return "TouchSudo"
	case zvkCtTouchless:
		return "Touchless"
	case zvkCtTouchlessSudo:
		return "TouchlessSudo"
	case zvkCtFirefighter:
		return "Firefighter"
	case zvkCtNonce:
		return "Nonce"
	case zvkCtTouchlessInAgent:
		return "TouchlessInAgent"
	case zvkCtTouchlessSudoInAgent:
		return "TouchlessSudoInAgent"
	}
	return "other"
}

func zvkTypeOfName(n string, r *mrand.Rand) zvkCertType {
	for _, t := range []zvkCertType{zvkCtUnknown, zvkCtTouchSudo, zvkCtTouchless, zvkCtTouchlessSudo, zvkCtFirefighter, zvkCtNonce, zvkCtTouchlessInAgent, zvkCtTouchlessSudoInAgent} {
		if zvkTypeName(t) == n {
			return t
		}
	}
	return []zvkCertType{6, 9, -1, 1000}[r.Intn(4)]
}

// zvkEnc renders a byte string for TLC: [A-Za-z0-9:-] literally, every other byte as _XX.  It is a homomorphism for
// concatenation, so "label = name \o "SSH-" \o tid" in the spec is equality of bytes in the code.
func zvkEnc(s string) string {
	var b strings.Builder
	for i := 0; i < len(s); i++ {
		c := s[i]
		if (c >= 'A' && c <= 'Z') || (c >= 'a' && c <= 'z') || (c >= '0' && c <= '9') || c == ':' || c == '-' {
			b.WriteByte(c)
		} else {
			fmt.Fprintf(&b, "_%02X", c)
		}
	}
	return b.String()
}

func zvkEncAll(xs []string) []string {
	o := make([]string, 0, len(xs))
	for _, x := range xs {
		o = append(o, zvkEnc(x))
	}
	return o
}

func zvkClamp(v int64) int {
	if v > 1000000 {
		return 1000001
	}
	if v < -1000000 {
		return -1000001
	}
	return int(v)
}

func zvkAbsOf(k *zvkKidT) zvkAbs {
	return zvkAbs{Ff: k.IsFirefighter, Hw: k.IsHWKey, Hl: k.IsHeadless, Nonce: k.IsNonce,
		Tp: zvkClamp(int64(k.TouchPolicy)), Usage: zvkClamp(int64(k.Usage)), Ver: int(k.Version)}
}

// zvkTag digests every concrete content of a KeyID (nil and empty principal lists differ).
func zvkTag(k *zvkKidT) string {
	var b bytes.Buffer
	if k.Principals == nil {
		b.WriteString("nil")
	} else {
		fmt.Fprintf(&b, "%d%q", len(k.Principals), k.Principals)
	}
	fmt.Fprintf(&b, "|%q|%q|%q|%q|%v|%v|%v|%v|%d|%d|%d", k.TransID, k.ReqUser, k.ReqIP, k.ReqHost,
		k.IsFirefighter, k.IsHWKey, k.IsHeadless, k.IsNonce, int64(k.Usage), int64(k.TouchPolicy), k.Version)
	h := sha256.Sum256(b.Bytes())
	return hex.EncodeToString(h[:8])
}

func (c *zvkKid) concrete() *zvkKidT {
	return zvkNewKid(c.Principals, c.TransID, c.ReqUser, c.ReqIP, c.ReqHost, c.Ff, c.Hw, c.Hl, c.Nonce, c.Usage, c.Tp, c.Ver)
}

// ---- an own scan of a JSON text: ordered top-level members (duplicates kept), nothing if the text is not one object

type zvkMember struct {
	Key string
	Raw json.RawMessage
}

func zvkScan(text []byte) ([]zvkMember, bool) {
	if !json.Valid(text) {
		return nil, false
	}
	dec := json.NewDecoder(bytes.NewReader(text))
	tok, err := dec.Token()
	if err != nil {
		return nil, false
	}
	if d, ok := tok.(json.Delim); !ok || d != '{' {
		return nil, false
	}
	var ms []zvkMember
	for dec.More() {
		kt, err := dec.Token()
		if err != nil {
			return nil, false
		}
		key, ok := kt.(string)
		if !ok {
			return nil, false
		}
		var raw json.RawMessage
		if err := dec.Decode(&raw); err != nil {
			return nil, false
		}
		ms = append(ms, zvkMember{key, raw})
	}
	return ms, true
}

// zvkPresent: which of the twelve field names the text contains as top-level member names (exact spelling).
func zvkPresent(text string) []string {
	out := []string{}
	ms, ok := zvkScan([]byte(text))
	if !ok {
		return out
	}
	for _, f := range zvkAllFields {
		for _, m := range ms {
			if m.Key == f {
				out = append(out, f)
				break
			}
		}
	}
	return out
}

func zvkJoin(ms []zvkMember) string {
	var b bytes.Buffer
	b.WriteByte('{')
	for i, m := range ms {
		if i > 0 {
			b.WriteByte(',')
		}
		kb, _ := json.Marshal(m.Key)
		b.Write(kb)
		b.WriteByte(':')
		b.Write(m.Raw)
	}
	b.WriteByte('}')
	return b.String()
}

// ---- concrete material

var zvkStrings = []string{"", "user", "üser-中文", `a"b\c`, "x\ny\tz", "<script>&amp;'", "  ", `{"ver":1}`, "null", "😀 grin",
	"a,b:c", " lead trail ", "\x00\x01\x7f", "transID", `","isNonce":true,"x":"`, "22dde224", "C02XF22WJHD3", "10.1.2.3", "fe80::1%eth0",
	"]}", "\\u0041", "ａｂｃ", "Ünïcödé-ПРИВЕТ-مرحبا", "TouchSudoSSH-", ":notouch", "-"}

func zvkRandStr(r *mrand.Rand) string {
	switch r.Intn(4) {
	case 0:
		n := r.Intn(12)
		rs := make([]rune, n)
		for i := range rs {
			switch r.Intn(4) {
			case 0:
				rs[i] = rune(0x20 + r.Intn(0x5f))
			case 1:
				rs[i] = rune(r.Intn(0x20))
			case 2:
				rs[i] = rune(0xa0 + r.Intn(0x2000))
			default:
				rs[i] = rune(0x1f300 + r.Intn(0x300))
			}
			if !unicode.IsPrint(rs[i]) && rs[i] > 0x7f {
				rs[i] = 'é'
			}
		}
		return string(rs)
	case 1:
		return fmt.Sprintf("%010x", r.Int63n(1<<40))
	default:
		return zvkStrings[r.Intn(len(zvkStrings))]
	}
}

func zvkRandPrins(r *mrand.Rand) []string {
	switch r.Intn(6) {
	case 0:
		return nil
	case 1:
		return []string{}
	}
	n := 1 + r.Intn(3)
	p := make([]string, n)
	for i := range p {
		p[i] = zvkRandStr(r)
	}
	return p
}

// zvkConcrete instantiates an abstract KeyID value with concrete strings.
func zvkConcrete(a zvkAbs, r *mrand.Rand) *zvkKid {
	// the model's 1000001 / -1000001 stand for every value beyond 10^6 in magnitude
	large := func(v int) int64 {
		switch {
		case v > 1000000:
			return []int64{1000001, 1 << 31, 1 << 40, 1<<62 + 12345}[r.Intn(4)] + int64(r.Intn(1000))
		case v < -1000000:
			return -([]int64{1000001, 1 << 31, 1 << 40, 1<<62 + 12345}[r.Intn(4)] + int64(r.Intn(1000)))
		}
		return int64(v)
	}
	return &zvkKid{Principals: zvkRandPrins(r), TransID: zvkRandStr(r), ReqUser: zvkRandStr(r), ReqIP: zvkRandStr(r), ReqHost: zvkRandStr(r),
		Ff: a.Ff, Hw: a.Hw, Hl: a.Hl, Nonce: a.Nonce, Usage: int64(a.Usage), Tp: large(a.Tp), Ver: uint16(a.Ver)}
}

// zvkOwnText writes the canonical text of a KeyID without using the encoder under test.
func zvkOwnText(c *zvkKid) string {
	q := func(v interface{}) json.RawMessage { b, _ := json.Marshal(v); return b }
	ms := []zvkMember{{"prins", q(c.Principals)}, {"transID", q(c.TransID)}, {"reqUser", q(c.ReqUser)}, {"reqIP", q(c.ReqIP)},
		{"reqHost", q(c.ReqHost)}, {"isFirefighter", q(c.Ff)}, {"isHWKey", q(c.Hw)}, {"isHeadless", q(c.Hl)}, {"isNonce", q(c.Nonce)},
		{"usage", q(c.Usage)}, {"touchPolicy", q(c.Tp)}, {"ver", q(c.Ver)}}
	return zvkJoin(ms)
}

// zvkBaseText is the text the near-miss / certificate stages start from.  It never depends on the encoder under test being
// right: the encoder's output is used only when it is structurally the canonical text (one object with exactly the twelve
// members, each once - checked with the harness's own scan); whenever the encoder refuses, crashes or produces anything
// else, the harness's own hand-written canonical text is used.  (What the encoder does is judged in the enc events.)
func zvkBaseText(c *zvkKid) (s string) {
	own := zvkOwnText(c)
	defer func() {
		if recover() != nil {
			s = own
		}
	}()
	out, err := c.concrete().Marshal()
	if err != nil || !zvkCanonicalShape(out) {
		return own
	}
	return out
}

func zvkCanonicalShape(text string) bool {
	ms, ok := zvkScan([]byte(text))
	if !ok || len(ms) != len(zvkAllFields) {
		return false
	}
	seen := map[string]bool{}
	for _, m := range ms {
		seen[m.Key] = true
	}
	for _, f := range zvkAllFields {
		if !seen[f] {
			return false
		}
	}
	return true
}

func zvkRecase(f string, r *mrand.Rand) string {
	for i := 0; i < 20; i++ {
		var v string
		switch r.Intn(4) {
		case 0:
			v = strings.ToUpper(f)
		case 1:
			v = strings.ToLower(f)
		case 2:
			v = strings.ToUpper(f[:1]) + f[1:]
		default:
			b := []byte(f)
			j := r.Intn(len(b))
			if b[j] >= 'a' && b[j] <= 'z' {
				b[j] -= 32
			} else if b[j] >= 'A' && b[j] <= 'Z' {
				b[j] += 32
			}
			v = string(b)
		}
		if v != f {
			return v
		}
	}
	return strings.ToUpper(f)
}

func zvkWrongType(f string, r *mrand.Rand) string {
	pick := func(xs ...string) string { return xs[r.Intn(len(xs))] }
	switch {
	case f == "prins":
		return pick(`"a"`, `5`, `[1]`, `{"a":"b"}`, `[["a"]]`, `true`, `[null,2]`)
	case zvkIsStr(f):
		return pick(`5`, `true`, `{}`, `["a"]`, `1.5`, `{"a":"b"}`)
	case zvkIsBool(f):
		return pick(`"true"`, `"false"`, `1`, `0`, `[true]`, `{}`, `"x"`)
	case f == "ver":
		return pick(`"1"`, `1.5`, `true`, `[1]`, `{}`, `-1`, `65536`, `1e99`)
	default:
		return pick(`"1"`, `1.5`, `true`, `[1]`, `{}`, `1e99`, `"never"`)
	}
}

func zvkValueRaw(f string, v int, r *mrand.Rand) json.RawMessage {
	switch {
	case f == "prins":
		b, _ := json.Marshal(zvkRandPrins(r))
		return b
	case zvkIsStr(f):
		b, _ := json.Marshal(zvkRandStr(r))
		return b
	case zvkIsBool(f):
		if v == 1 {
			return json.RawMessage("true")
		}
		return json.RawMessage("false")
	}
	return json.RawMessage(fmt.Sprintf("%d", v))
}

// zvkMutate applies one abstract mutation to the base text.
func zvkMutate(base string, f, m string, v int, r *mrand.Rand) string {
	// base comes from zvkBaseText and therefore has the canonical shape (every field exactly once)
	ms, _ := zvkScan([]byte(base))
	idx := -1
	for i, x := range ms {
		if x.Key == f {
			idx = i
		}
	}
	if idx < 0 {
		panic("verif: harness bug: base text without field " + f + " (zvkBaseText guarantees the canonical shape): " + base)
	}
	switch m {
	case "delete":
		ms = append(ms[:idx:idx], ms[idx+1:]...)
	case "rename":
		ms[idx].Key = zvkRecase(f, r)
	case "retype":
		ms[idx].Raw = json.RawMessage(zvkWrongType(f, r))
	case "null":
		ms[idx].Raw = json.RawMessage("null")
	case "dup":
		// a second occurrence AFTER the original (the last one is read)
		at := idx + 1 + r.Intn(len(ms)-idx)
		nm := zvkMember{f, zvkValueRaw(f, v, r)}
		ms = append(ms[:at:at], append([]zvkMember{nm}, ms[at:]...)...)
	default:
		panic("verif: unknown mutation " + m)
	}
	return zvkJoin(ms)
}

func zvkValidAbs(r *mrand.Rand) zvkAbs {
	good := []zvkAbs{{Tp: 1, Ver: 1}, {Hw: true, Tp: 2, Ver: 1}, {Hw: true, Tp: 3, Ver: 1}, {Ff: true, Hw: true, Tp: 3, Ver: 1}, {Ff: true, Tp: 1, Ver: 1},
		{Nonce: true, Tp: 1, Ver: 1}, {Nonce: true, Hw: true, Tp: 1, Ver: 1}, {Hl: true, Tp: 1, Ver: 1}, {Hw: true, Tp: 0, Ver: 1}, {Tp: 4, Ver: 1}, {Ff: true, Tp: 0, Ver: 1}}
	a := good[r.Intn(len(good))]
	a.Usage = r.Intn(3)
	return a
}

func zvkJunk(j string, r *mrand.Rand) string {
	valid := zvkBaseText(zvkConcrete(zvkValidAbs(r), r))
	pick := func(xs ...string) string { return xs[r.Intn(len(xs))] }
	switch j {
	case "null":
		return pick("null", " null ", "null\n")
	case "array":
		return pick("[]", "[1,2]", `["a"]`, `[null]`)
	case "number":
		return pick("0", "1", "-3.5e7", "12345678901234567890")
	case "string":
		return pick(`"abc"`, `""`, `"ver"`)
	case "true":
		return pick("true", "false")
	case "emptyobj":
		return pick("{}", " { } ")
	case "nested":
		return pick(`{"a":{"b":[1,{"c":null}]}}`, `{"x":{"ver":1,"prins":[]},"y":[{}]}`)
	case "wrapped":
		return `{"keyid":` + valid + `}`
	case "empty":
		return ""
	case "bytes":
		n := 1 + r.Intn(64)
		b := make([]byte, n)
		r.Read(b)
		if json.Valid(b) {
			b = append(b, 0xff, '{')
		}
		return string(b)
	case "truncated":
		return valid[:1+r.Intn(len(valid)-1)]
	case "trailing":
		return valid + pick("x", "}", ",", "{}", " 1", "\x00")
	case "concat":
		return valid + valid
	case "arrayofkeyid":
		return "[" + valid + "]"
	case "quoted":
		b, _ := json.Marshal(valid)
		return string(b)
	}
	panic("verif: unknown junk kind " + j)
}

func zvkCrit(opt string, r *mrand.Rand) (m map[string]string, isnil bool) {
	const name = "touchless-sudo-hosts"
	switch opt {
	case "absent":
		switch r.Intn(3) {
		case 0:
			return nil, true
		case 1:
			return map[string]string{}, false
		default:
			return map[string]string{"force-command": "/bin/true", "Touchless-Sudo-Hosts": "h1", "source-address": ""}, false
		}
	case "empty":
		if r.Intn(2) == 0 {
			return map[string]string{name: ""}, false
		}
		return map[string]string{name: "", "force-command": "x"}, false
	}
	return map[string]string{name: []string{"host1.example", "h1,h2", "*", " ", "0", "ünï"}[r.Intn(6)]}, false
}

func zvkOptClass(info *zvkInfo) string {
	if info.CritNil || info.Crit == nil {
		return "absent"
	}
	v, ok := info.Crit["touchless-sudo-hosts"]
	if !ok {
		return "absent"
	}
	if v == "" {
		return "empty"
	}
	return "set"
}

// ---- instantiate a case

func zvkInstantiate(c zvkCase, r *mrand.Rand) zvkInfo {
	switch c.Kind {
	case "enc":
		return zvkInfo{Op: "enc", Kid: zvkConcrete(c.K, r)}
	case "dec":
		return zvkInfo{Op: "dec", Text: hex.EncodeToString([]byte(zvkBaseText(zvkConcrete(c.K, r))))}
	case "mut":
		return zvkInfo{Op: "dec", Text: hex.EncodeToString([]byte(zvkMutate(zvkBaseText(zvkConcrete(c.K, r)), c.F, c.M, c.V, r)))}
	case "junk":
		return zvkInfo{Op: "dec", Text: hex.EncodeToString([]byte(zvkJunk(c.J, r)))}
	case "cert", "certjunk", "shim":
		var text string
		if c.Kind == "certjunk" {
			text = zvkJunk(c.J, r)
		} else {
			text = zvkBaseText(zvkConcrete(c.K, r))
		}
		crit, cn := zvkCrit(c.Opt, r)
		info := zvkInfo{Op: "cert", Text: hex.EncodeToString([]byte(text)), Crit: crit, CritNil: cn, Prins: zvkRandPrins(r), Signed: r.Intn(8) == 0}
		info.PrNil = info.Prins == nil
		if c.Kind == "shim" {
			info.Op = "shim"
			info.Path = c.Path
			info.Signed = true
			if c.Cm == "some" {
				s := zvkRandStr(r)
				if s == "" {
					s = "my key"
				}
				info.Cmt = hex.EncodeToString([]byte(s))
			}
		}
		return info
	case "certpair":
		base := zvkBaseText(zvkConcrete(c.K, r))
		crit, cn := zvkCrit(c.Opt, r)
		info := zvkInfo{Op: "cert", Text: hex.EncodeToString([]byte(zvkMutate(base, c.M, "delete", 0, r))),
			Pre:  []string{hex.EncodeToString([]byte(zvkMutate(base, c.F, "delete", 0, r)))},
			Crit: crit, CritNil: cn, Prins: []string{zvkRandStr(r), zvkRandStr(r)}, Order: c.V, Signed: r.Intn(16) == 0}
		return info
	case "nil":
		return zvkInfo{Op: "cert", Nil: true, PrNil: true}
	case "prins":
		p := make([]string, c.N)
		for i := range p {
			p[i] = zvkRandStr(r)
		}
		info := zvkInfo{Op: "prins", Ty: int(zvkTypeOfName(c.Ty, r)), Prins: p}
		if c.N == 0 && r.Intn(2) == 0 {
			info.Prins, info.PrNil = nil, true
		}
		return info
	}
	panic("verif: unknown case kind " + c.Kind)
}

// ---- execute

func zvkNewEvent(op string, cs zvkCase) *zvkEvent {
	return &zvkEvent{Op: op, Cs: cs, Present: []string{}, Opt: "absent", Pin: []string{}, Pout: []string{},
		Pafter: []string{}, Pfirst: []string{}, Pfirst2: []string{}}
}

func zvkText(info *zvkInfo) string {
	b, err := hex.DecodeString(info.Text)
	if err != nil {
		panic(err)
	}
	return string(b)
}

// zvkDecode observes keyid.Unmarshal on a text.
func zvkDecode(text string) (ok bool, k *zvkKidT, pan bool) {
	defer func() {
		if recover() != nil {
			ok, k, pan = false, nil, true
		}
	}()
	kk, err := zvkUnmarshal(text)
	return err == nil, kk, false
}

// zvkScramble overwrites every field of a KeyID the code under test handed out (a caller may do with its result what it
// likes): the elements of the principal list in place, then the list itself, every string, flag and number.
func zvkScramble(k *zvkKidT) {
	if k == nil {
		return
	}
	for i := range k.Principals {
		k.Principals[i] = "scrambled"
	}
	k.Principals = append(k.Principals, "extra")
	k.TransID, k.ReqUser, k.ReqIP, k.ReqHost = k.TransID+"!", "scrambled", "", k.ReqHost+k.ReqHost
	k.IsFirefighter, k.IsHWKey, k.IsHeadless, k.IsNonce = true, true, true, true
	k.TouchPolicy += 2
	k.Usage += 5
	k.Version = 7
}

type zvkObs struct {
	ok, pan  bool
	dk       zvkAbs
	tag, tid string
}

func zvkObserveDecode(text string) (o zvkObs, k *zvkKidT) {
	ok, k2, pan := zvkDecode(text)
	o.ok, o.pan = ok, pan
	if ok && k2 != nil {
		o.dk, o.tag, o.tid = zvkAbsOf(k2), zvkTag(k2), zvkEnc(k2.TransID)
	}
	return o, k2
}

// zvkExecEnc encodes the value (in the object obj when given: the same object is reused, overwritten, across calls) and decodes
// the produced text `calls` times, scrambling every returned KeyID before the next call.  One event per decode.
func zvkExecEnc(cs zvkCase, info *zvkInfo, obj *zvkKidT, calls int) []*zvkEvent {
	e := zvkNewEvent("enc", cs)
	orig := info.Kid.concrete()
	e.K, e.Sin = zvkAbsOf(orig), zvkTag(orig)
	var text string
	func() {
		defer func() {
			if recover() != nil {
				e.Pan = true
			}
		}()
		arg := info.Kid.concrete()
		if obj != nil {
			*obj = *arg
			arg = obj
		}
		s, err := arg.Marshal()
		e.Ok = err == nil
		text = s
	}()
	out := []*zvkEvent{e}
	if e.Ok && !e.Pan {
		e.Present = zvkPresent(text)
		for j := 0; j < calls; j++ {
			ej := e
			if j > 0 {
				c := *e
				ej = &c
				ej.Rep = j
				out = append(out, ej)
			}
			o, k2 := zvkObserveDecode(text)
			ej.Pan, ej.Dok, ej.Dk, ej.Sout, ej.Tid = o.pan, o.ok, o.dk, o.tag, o.tid
			zvkScramble(k2)
		}
	}
	return out
}

// zvkExecDec decodes the text `calls` times, scrambling every returned KeyID before the next call.  One event per call; the
// events of later calls carry what the first call produced.
func zvkExecDec(cs zvkCase, info *zvkInfo, calls int) []*zvkEvent {
	text := zvkText(info)
	present := zvkPresent(text)
	var first zvkObs
	var out []*zvkEvent
	for j := 0; j < calls; j++ {
		e := zvkNewEvent("dec", cs)
		e.Present = present
		o, k2 := zvkObserveDecode(text)
		if j == 0 {
			first = o
		}
		e.Ok, e.Pan, e.Dk, e.Sout, e.Tid = o.ok, o.pan, o.dk, o.tag, o.tid
		e.Rep, e.Ok1, e.Dk1, e.S1 = j, first.ok, first.dk, first.tag
		zvkScramble(k2)
		out = append(out, e)
	}
	return out
}

// zvkExecDecConc: one reference decode, then the same text decoded from several goroutines at once (each scrambles its result).
func zvkExecDecConc(cs zvkCase, info *zvkInfo, workers int) []*zvkEvent {
	text := zvkText(info)
	present := zvkPresent(text)
	first, k0 := zvkObserveDecode(text)
	mk := func(o zvkObs, rep int) *zvkEvent {
		e := zvkNewEvent("dec", cs)
		e.Present = present
		e.Ok, e.Pan, e.Dk, e.Sout, e.Tid = o.ok, o.pan, o.dk, o.tag, o.tid
		e.Rep, e.Ok1, e.Dk1, e.S1 = rep, first.ok, first.dk, first.tag
		return e
	}
	out := []*zvkEvent{mk(first, 0)}
	zvkScramble(k0)
	res := make([][]*zvkEvent, workers)
	var wg sync.WaitGroup
	for w := 0; w < workers; w++ {
		wg.Add(1)
		go func(w int) {
			defer wg.Done()
			for j := 0; j < 2; j++ {
				o, k2 := zvkObserveDecode(text)
				res[w] = append(res[w], mk(o, 1+w*2+j))
				zvkScramble(k2)
			}
		}(w)
	}
	wg.Wait()
	for _, r := range res {
		out = append(out, r...)
	}
	return out
}

var zvkCA = verifh.GenKey("keyid-ca", "ed25519")
var zvkUserKey = verifh.GenKey("keyid-user", "ed25519")

func zvkBuildCert(info *zvkInfo, serial uint64) *ssh.Certificate {
	if info.Nil {
		return nil
	}
	prins := info.Prins
	if info.PrNil {
		prins = nil
	}
	crit := info.Crit
	if info.CritNil {
		crit = nil
	}
	if info.Signed {
		now := uint64(time.Now().Unix())
		return verifh.Mint(zvkCA.Signer, verifh.CertSpec{Key: zvkUserKey.Pub, KeyID: zvkText(info), ValidAfter: now - 3600, ValidBefore: now + 86400,
			Principals: prins, Serial: serial, CritOpts: crit})
	}
	return &ssh.Certificate{Key: zvkUserKey.Pub, Serial: serial, CertType: ssh.UserCert, KeyId: zvkText(info), ValidPrincipals: prins,
		Permissions: ssh.Permissions{CriticalOptions: crit}}
}

func zvkObserveKeyID(e *zvkEvent, crt *ssh.Certificate) {
	if crt == nil {
		return
	}
	e.Present = zvkPresent(crt.KeyId)
	ok, k2, pan := zvkDecode(crt.KeyId)
	e.Ok = ok
	_ = pan // a crash of the decoder is C05's business; GetType's own call is observed below
	if ok && k2 != nil {
		e.Dk, e.Tid = zvkAbsOf(k2), zvkEnc(k2.TransID)
	}
}

// zvkExecCert examines the certificates with the KeyID texts info.Pre (if any) and then the one with info.Text, back to back
// in this goroutine; one event per certificate.  The harness's own observation of the decoder comes AFTER the calls under
// test, so that nothing is decoded between two certificates but what GetType / Label decode themselves.
func zvkExecCert(cs zvkCase, info *zvkInfo, replay bool) []*zvkEvent {
	var out []*zvkEvent
	if replay {
		for _, h := range info.Hist {
			in := *info
			in.Text, in.Pre, in.Hist = h, nil, nil
			e := zvkCertCall(zvkFree, &in)
			e.Rep = -1
			out = append(out, e)
		}
	} else {
		info.Hist = append([]string(nil), zvkCertHist...)
	}
	for i, pre := range info.Pre {
		in := *info
		in.Text, in.Pre = pre, nil
		c0 := cs
		if cs.Kind == "certpair" {
			c0.N = 0
		}
		e := zvkCertCall(c0, &in)
		e.Rep = i
		out = append(out, e)
	}
	e := zvkCertCall(cs, info)
	e.Rep = len(info.Pre)
	return append(out, e)
}

// zvkCertHist: the KeyID texts of the last certificates examined by the test goroutine.
var zvkCertHist []string

func zvkCertCall(cs zvkCase, info *zvkInfo) *zvkEvent {
	if !info.Nil {
		zvkCertHist = append(zvkCertHist, info.Text)
		if len(zvkCertHist) > 3 {
			zvkCertHist = zvkCertHist[len(zvkCertHist)-3:]
		}
	}
	e := zvkNewEvent("cert", cs)
	e.Nil = info.Nil
	crt := zvkBuildCert(info, 1)
	if crt != nil {
		// what the certificate object carries (a signed certificate went through marshal + parse)
		obs := zvkInfo{Crit: crt.CriticalOptions, CritNil: crt.CriticalOptions == nil}
		e.Opt = zvkOptClass(&obs)
		e.Pin = zvkEncAll(crt.ValidPrincipals)
	}
	func() {
		defer func() {
			if recover() != nil {
				e.Pan = true
			}
		}()
		label := func() {
			lab, err := zvkLabel(crt)
			e.Lok = err == nil
			if err == nil {
				e.Label = zvkEnc(lab)
			}
		}
		if info.Order == 1 {
			label()
		}
		ty := zvkGetType(crt)
		e.Ty = zvkTypeName(ty)
		if info.Order != 1 {
			label()
		}
		var pin []string
		if crt != nil {
			pin = crt.ValidPrincipals
		}
		e.Pout = zvkEncAll(zvkGetPrincipals(pin, ty))
		e.Pafter = zvkEncAll(pin)
	}()
	zvkObserveKeyID(e, crt)
	return e
}

// zvkExecPrins calls GetPrincipals twice with the same list (the caller's slice, with spare capacity behind it) and records for
// each call the result, the contents of the caller's list afterwards, and whether the first result still reads the same.
func zvkExecPrins(cs zvkCase, info *zvkInfo) []*zvkEvent {
	ty := zvkCertType(info.Ty)
	pin := info.Prins
	if info.PrNil {
		pin = nil
	}
	var in []string
	if pin != nil {
		in = make([]string, len(pin), len(pin)+(len(pin)%2)*3)
		copy(in, pin)
	}
	var out []*zvkEvent
	var firstRes, firstSnap []string
	for j := 0; j < 2; j++ {
		e := zvkNewEvent("prins", cs)
		e.Tyin, e.Pin, e.Rep = zvkTypeName(ty), zvkEncAll(pin), j
		func() {
			defer func() {
				if recover() != nil {
					e.Pan = true
				}
			}()
			res := zvkGetPrincipals(in, ty)
			e.Pout = zvkEncAll(res)
			e.Pafter = zvkEncAll(in)
			if j == 0 {
				firstRes, firstSnap = res, e.Pout
			}
			e.Pfirst, e.Pfirst2 = firstSnap, zvkEncAll(firstRes)
		}()
		out = append(out, e)
	}
	return out
}

type zvkShimJob struct {
	cs   zvkCase
	info *zvkInfo
	tid  string
}

// zvkExecShim lists a batch of certificates through one real shim agent over a real x/crypto keyring.
func zvkExecShim(t *testing.T, jobs []zvkShimJob) []*zvkEvent {
	kr := agent.NewKeyring()
	c1, c2 := net.Pipe()
	go func() {
		_ = agent.ServeAgent(kr, c2)
		c2.Close()
	}()
	// Whatever the shim does over this healthy keyring is behaviour of the code under test: it is recorded (found = false) and
	// judged, never a harness failure.  Only the keyring itself (x/crypto) failing aborts the run.
	srv, err := newShimAgent(c1, false)
	if err != nil {
		t.Logf("verif: newShimAgent failed on a healthy agent: %v", err)
		evs := make([]*zvkEvent, len(jobs))
		for i, j := range jobs {
			evs[i] = zvkNewEvent("shim", j.cs)
		}
		return evs
	}
	defer srv.Close()
	srv.pubKeyComp = func(x, y ssh.PublicKey) bool { return bytes.Compare(x.Marshal(), y.Marshal()) < 0 }
	if err := kr.Add(agent.AddedKey{PrivateKey: zvkUserKey.Priv, Comment: "plain key"}); err != nil {
		t.Fatalf("verif: keyring add: %v", err)
	}
	evs := make([]*zvkEvent, len(jobs))
	blobs := make([]string, len(jobs))
	certs := make([]*ssh.Certificate, len(jobs))
	for i, j := range jobs {
		e := zvkNewEvent("shim", j.cs)
		evs[i] = e
		crt := zvkBuildCert(j.info, uint64(i+1))
		blobs[i] = string(crt.Marshal())
		obs := zvkInfo{Crit: crt.CriticalOptions, CritNil: crt.CriticalOptions == nil}
		e.Opt = zvkOptClass(&obs)
		e.Pin = zvkEncAll(crt.ValidPrincipals)
		cb, _ := hex.DecodeString(j.info.Cmt)
		e.Ocmt = zvkEnc(string(cb))
		certs[i] = crt
		if j.info.Path == "hard" {
			func() {
				defer func() {
					if recover() != nil {
						e.Pan = true
					}
				}()
				if err := srv.AddHardCert(crt, string(cb)); err != nil {
					t.Logf("verif: AddHardCert refused a valid certificate whose key is in the agent (job %s): %v", j.tid, err)
				}
			}()
		} else {
			if err := kr.Add(agent.AddedKey{PrivateKey: zvkUserKey.Priv, Certificate: crt, Comment: string(cb)}); err != nil {
				t.Fatalf("verif: keyring add: %v", err)
			}
		}
	}
	var keys []*agent.Key
	pan := false
	func() {
		defer func() {
			if recover() != nil {
				pan = true
			}
		}()
		var err error
		keys, err = srv.List()
		if err != nil {
			t.Logf("verif: List failed on a healthy agent: %v", err)
			keys = nil
		}
	}()
	byBlob := map[string]string{}
	seen := map[string]bool{}
	for _, k := range keys {
		byBlob[string(k.Blob)] = k.Comment
		seen[string(k.Blob)] = true
	}
	for i, e := range evs {
		zvkObserveKeyID(e, certs[i]) // after the calls under test: nothing else decodes between the certificates of a listing
		e.Pan = e.Pan || pan
		if seen[blobs[i]] {
			e.Found = true
			e.Cmt = zvkEnc(byBlob[blobs[i]])
		}
	}
	return evs
}

// ---- random drivers (direction B)

func zvkRandAbs(r *mrand.Rand) zvkKid {
	tps := []int64{-1, 0, 1, 1, 1, 2, 3, 4, 7, -5, 1 << 40, -(1 << 40)}
	us := []int64{0, 0, 1, 2, -1, 99, 1 << 33}
	vs := []uint16{0, 1, 1, 1, 1, 2, 3, 65535}
	k := zvkKid{Principals: zvkRandPrins(r), TransID: zvkRandStr(r), ReqUser: zvkRandStr(r), ReqIP: zvkRandStr(r), ReqHost: zvkRandStr(r),
		Ff: r.Intn(3) == 0, Hw: r.Intn(2) == 0, Hl: r.Intn(4) == 0, Nonce: r.Intn(4) == 0,
		Usage: us[r.Intn(len(us))], Tp: tps[r.Intn(len(tps))], Ver: vs[r.Intn(len(vs))]}
	return k
}

func zvkRandJSON(r *mrand.Rand, depth int) string {
	switch n := r.Intn(9); {
	case n == 0:
		return "null"
	case n == 1:
		return []string{"true", "false"}[r.Intn(2)]
	case n == 2:
		return []string{"0", "1", "-1", "2", "3", "1.5", "1e3", "65536", "-0", "99999999999999999999"}[r.Intn(10)]
	case n == 3:
		b, _ := json.Marshal(zvkRandStr(r))
		return string(b)
	case n <= 5 && depth > 0:
		k := r.Intn(4)
		xs := make([]string, k)
		for i := range xs {
			xs[i] = zvkRandJSON(r, depth-1)
		}
		return "[" + strings.Join(xs, ",") + "]"
	case depth > 0:
		k := r.Intn(5)
		xs := make([]string, k)
		for i := range xs {
			name := zvkRandStr(r)
			if r.Intn(2) == 0 {
				name = zvkAllFields[r.Intn(len(zvkAllFields))]
			}
			nb, _ := json.Marshal(name)
			xs[i] = string(nb) + ":" + zvkRandJSON(r, depth-1)
		}
		return "{" + strings.Join(xs, ",") + "}"
	}
	return "7"
}

// zvkGrammarObject: an object over the KeyID field names with random presence, spelling, multiplicity, order and value types.
func zvkGrammarObject(r *mrand.Rand) string {
	k := zvkRandAbs(r)
	if r.Intn(2) == 0 {
		k.Ver = 1
	}
	ms, _ := zvkScan([]byte(zvkOwnText(&k)))
	var out []zvkMember
	for _, m := range ms {
		p := r.Intn(20)
		switch {
		case p == 0:
			continue // absent
		case p == 1:
			m.Key = zvkRecase(m.Key, r)
		case p == 2:
			m.Raw = json.RawMessage(zvkWrongType(m.Key, r))
		case p == 3:
			m.Raw = json.RawMessage("null")
		case p == 4:
			v := r.Intn(4)
			out = append(out, zvkMember{m.Key, zvkValueRaw(m.Key, v, r)})
		case p == 5:
			out = append(out, zvkMember{zvkRecase(m.Key, r), zvkValueRaw(m.Key, r.Intn(3), r)})
		case p == 6:
			nb, _ := json.Marshal(zvkRandStr(r))
			out = append(out, zvkMember{zvkRandStr(r), nb})
		}
		out = append(out, m)
	}
	if r.Intn(3) == 0 {
		r.Shuffle(len(out), func(i, j int) { out[i], out[j] = out[j], out[i] })
	}
	return zvkJoin(out)
}

func zvkByteEdit(s string, r *mrand.Rand) string {
	b := []byte(s)
	for n := 1 + r.Intn(3); n > 0 && len(b) > 0; n-- {
		i := r.Intn(len(b))
		switch r.Intn(6) {
		case 0:
			b[i] = byte(r.Intn(256))
		case 1:
			b = append(b[:i], b[i+1:]...)
		case 2:
			b = append(b[:i], append([]byte{byte(r.Intn(256))}, b[i:]...)...)
		case 3:
			b[i] = []byte(`{}[]",:0123456789tfn\ `)[r.Intn(22)]
		case 4:
			j := i + r.Intn(len(b)-i)
			b = append(b[:j], append(append([]byte{}, b[i:j]...), b[j:]...)...)
		default:
			b[i] ^= 1 << uint(r.Intn(8))
		}
	}
	return string(b)
}

func zvkRandText(r *mrand.Rand) string {
	valid := func() string {
		k := zvkConcrete(zvkValidAbs(r), r)
		return zvkBaseText(k)
	}
	switch n := r.Intn(20); {
	case n < 6:
		return zvkByteEdit(valid(), r)
	case n < 11:
		return zvkGrammarObject(r)
	case n < 13:
		return zvkRandJSON(r, 3)
	case n < 15:
		b := make([]byte, r.Intn(120))
		r.Read(b)
		return string(b)
	case n < 17:
		var buf bytes.Buffer
		if json.Indent(&buf, []byte(valid()), []string{"", " ", "\t"}[r.Intn(3)], []string{" ", "  ", "\t"}[r.Intn(3)]) == nil {
			return buf.String()
		}
		return valid()
	case n == 17:
		// escaped member names and values: still the same members
		s := valid()
		f := zvkAllFields[r.Intn(len(zvkAllFields))]
		esc := ""
		for _, c := range f {
			esc += fmt.Sprintf("\\u%04x", c)
		}
		return strings.Replace(s, `"`+f+`":`, `"`+esc+`":`, 1)
	case n == 18:
		k := zvkRandAbs(r)
		return zvkOwnText(&k)
	}
	return valid()
}

// ---- the test

func TestVerifKeyID(t *testing.T) {
	planPath, outPath := os.Getenv("VERIF_PLAN"), os.Getenv("VERIF_OUT")
	if planPath == "" || outPath == "" {
		t.Skip("VERIF_PLAN / VERIF_OUT not set")
	}
	var plan zvkPlan
	pb, err := os.ReadFile(planPath)
	if err != nil {
		t.Fatal(err)
	}
	if err := json.Unmarshal(pb, &plan); err != nil {
		t.Fatal(err)
	}
	tr, err := verifh.OpenTrace(outPath)
	if err != nil {
		t.Fatal(err)
	}
	defer tr.Close()
	tr.Emit(zvkRec{Ev: "reset", Tid: "keyid"})
	counts := map[string]int{}
	okCount, distinct := 0, map[string]bool{}
	emit := func(tid string, e *zvkEvent, info *zvkInfo) {
		tr.Emit(zvkRec{Ev: "step", Tid: tid, E: e, Info: info})
		counts[e.Op]++
		if e.Ok {
			okCount++
		}
		distinct[fmt.Sprintf("%s|%v|%v|%v|%s|%v|%s|%s|%v|%s|%s", e.Op, e.Ok, e.Dk, e.Present, e.Ty, e.Lok, e.Opt, e.Tyin, e.K, e.Cs.M, e.Cs.F)] = true
	}
	// the event of call number `main` carries the case's tid, the other calls tid.<n>
	emitAll := func(tid string, main int, evs []*zvkEvent, info *zvkInfo) {
		if main >= len(evs) {
			main = 0
		}
		for j, e := range evs {
			if j == main {
				emit(tid, e, info)
			} else {
				emit(fmt.Sprintf("%s.%d", tid, j), e, info)
			}
		}
	}
	var shimJobs []zvkShimJob
	flushShim := func() {
		if len(shimJobs) == 0 {
			return
		}
		evs := zvkExecShim(t, shimJobs)
		for i, e := range evs {
			emit(shimJobs[i].tid, e, shimJobs[i].info)
		}
		shimJobs = nil
	}
	run := func(tid string, cs zvkCase, info zvkInfo) {
		in := info
		switch info.Op {
		case "enc":
			emitAll(tid, 0, zvkExecEnc(cs, &in, nil, 3), &in)
		case "dec":
			main := 0
			if cs.Kind == "dec" {
				main = cs.N
			}
			calls := 3
			if cs.Kind == "free" {
				calls = 2
			}
			emitAll(tid, main, zvkExecDec(cs, &in, calls), &in)
		case "cert":
			evs := zvkExecCert(cs, &in, strings.HasPrefix(tid, "p"))
			emitAll(tid, len(evs)-1, evs, &in)
		case "prins":
			main := 0
			if cs.Kind == "prins" {
				main = cs.V
			}
			emitAll(tid, main, zvkExecPrins(cs, &in), &in)
		case "shim":
			shimJobs = append(shimJobs, zvkShimJob{cs, &in, tid})
			if len(shimJobs) >= 48 {
				flushShim()
			}
		default:
			t.Fatalf("verif: unknown op %q", info.Op)
		}
	}
	// replays (check --replay)
	for i, rp := range plan.Replays {
		run(fmt.Sprintf("p%d", i), rp.Cs, rp.Info)
	}
	flushShim()
	// direction A
	for i, c := range plan.Cases {
		r := verifh.NewRand("keyid-case", int64(i))
		run(fmt.Sprintf("a%d", i), c, zvkInstantiate(c, r))
	}
	flushShim()
	// direction B
	for i := 0; i < plan.Random["enc"]; i++ {
		r := verifh.NewRand("keyid-enc", int64(i))
		k := zvkRandAbs(r)
		run(fmt.Sprintf("be%d", i), zvkFree, zvkInfo{Op: "enc", Kid: &k})
	}
	for i := 0; i < plan.Random["dec"]; i++ {
		r := verifh.NewRand("keyid-dec", int64(i))
		run(fmt.Sprintf("bd%d", i), zvkFree, zvkInfo{Op: "dec", Text: hex.EncodeToString([]byte(zvkRandText(r)))})
	}
	for i := 0; i < plan.Random["mseq"]; i++ {
		// one KeyID object encoded again and again, overwritten with another value in between
		r := verifh.NewRand("keyid-mseq", int64(i))
		obj := &zvkKidT{}
		for j := 0; j < 3; j++ {
			k := zvkRandAbs(r)
			if j > 0 && r.Intn(2) == 0 {
				k.Ver = 1
			}
			in := zvkInfo{Op: "enc", Kid: &k}
			emitAll(fmt.Sprintf("bm%d_%d", i, j), 0, zvkExecEnc(zvkFree, &in, obj, 2), &in)
		}
	}
	for i := 0; i < plan.Random["conc"]; i++ {
		r := verifh.NewRand("keyid-conc", int64(i))
		in := zvkInfo{Op: "dec", Text: hex.EncodeToString([]byte(zvkRandText(r)))}
		emitAll(fmt.Sprintf("bq%d", i), 0, zvkExecDecConc(zvkFree, &in, 4), &in)
	}
	randCert := func(r *mrand.Rand) zvkInfo {
		text := zvkRandText(r)
		if r.Intn(2) == 0 {
			k := zvkRandAbs(r)
			k.Ver = 1
			text = zvkOwnText(&k)
		}
		crit, cn := zvkCrit([]string{"absent", "empty", "set"}[r.Intn(3)], r)
		info := zvkInfo{Op: "cert", Text: hex.EncodeToString([]byte(text)), Crit: crit, CritNil: cn, Prins: zvkRandPrins(r), Signed: r.Intn(4) == 0}
		info.PrNil = info.Prins == nil
		return info
	}
	for i := 0; i < plan.Random["cert"]; i++ {
		r := verifh.NewRand("keyid-cert", int64(i))
		if r.Intn(200) == 0 {
			run(fmt.Sprintf("bc%d", i), zvkFree, zvkInfo{Op: "cert", Nil: true, PrNil: true})
			continue
		}
		run(fmt.Sprintf("bc%d", i), zvkFree, randCert(r))
	}
	for i := 0; i < plan.Random["certpair"]; i++ {
		// a certificate whose KeyID lacks one field, then one lacking another field (any two of the twelve), back to back
		r := verifh.NewRand("keyid-certpair", int64(i))
		k := zvkConcrete(zvkValidAbs(r), r)
		base := zvkBaseText(k)
		x := zvkAllFields[r.Intn(len(zvkAllFields))]
		y := zvkAllFields[r.Intn(len(zvkAllFields))]
		crit, cn := zvkCrit([]string{"absent", "empty", "set"}[r.Intn(3)], r)
		info := zvkInfo{Op: "cert", Text: hex.EncodeToString([]byte(zvkMutate(base, y, "delete", 0, r))),
			Pre:  []string{hex.EncodeToString([]byte(zvkMutate(base, x, "delete", 0, r)))},
			Crit: crit, CritNil: cn, Prins: zvkRandPrins(r), Order: r.Intn(2)}
		info.PrNil = info.Prins == nil
		if r.Intn(3) == 0 {
			info.Pre = append(info.Pre, hex.EncodeToString([]byte(zvkRandText(r))))
		}
		run(fmt.Sprintf("bx%d", i), zvkFree, info)
	}
	for i := 0; i < plan.Random["prins"]; i++ {
		r := verifh.NewRand("keyid-prins", int64(i))
		info := zvkInfo{Op: "prins", Ty: r.Intn(12) - 1, Prins: zvkRandPrins(r)}
		info.PrNil = info.Prins == nil
		run(fmt.Sprintf("bp%d", i), zvkFree, info)
	}
	for i := 0; i < plan.Random["shim"]; i++ {
		r := verifh.NewRand("keyid-shim", int64(i))
		info := randCert(r)
		info.Op, info.Signed = "shim", true
		info.Path = []string{"agent", "hard"}[r.Intn(2)]
		if r.Intn(4) != 0 {
			info.Cmt = hex.EncodeToString([]byte(zvkRandStr(r)))
		}
		run(fmt.Sprintf("bs%d", i), zvkFree, info)
	}
	flushShim()
	sum := map[string]interface{}{"events": tr.N - 1, "by_op": counts, "ok_events": okCount, "distinct": len(distinct), "cases": len(plan.Cases)}
	sb, _ := json.Marshal(sum)
	fmt.Printf("VERIF-SUMMARY %s\n", sb)
}
