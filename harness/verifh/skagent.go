//go:build verif

package verifh

import (
	"bytes"
	"crypto/ecdsa"
	"crypto/ed25519"
	"crypto/elliptic"
	"crypto/rand"
	"crypto/sha256"
	"errors"
	"fmt"
	"io"
	"math/big"
	"sync"

	"golang.org/x/crypto/ssh"
	"golang.org/x/crypto/ssh/agent"
)

// Security-key (FIDO) identities.  golang.org/x/crypto's keyring cannot hold them (there is no private key to hand
// over), but a real ssh-agent can, and so can the agent behind the shim.  SKSigner is a software authenticator: it
// produces genuine sk-ssh-ed25519@openssh.com / sk-ecdsa-sha2-nistp256@openssh.com signatures that verify with
// x/crypto, and FlexAgent is a keyring that can additionally hold such identities.

// SKSigner signs like a FIDO authenticator for application "ssh:".
type SKSigner struct {
	pub     ssh.PublicKey
	ed      ed25519.PrivateKey
	ec      *ecdsa.PrivateKey
	app     string
	mu      sync.Mutex
	counter uint32
}

func (s *SKSigner) PublicKey() ssh.PublicKey { return s.pub }

func (s *SKSigner) Sign(_ io.Reader, data []byte) (*ssh.Signature, error) {
	s.mu.Lock()
	s.counter++
	ctr := s.counter
	s.mu.Unlock()
	ad := sha256.Sum256([]byte(s.app))
	dd := sha256.Sum256(data)
	flags := byte(1)
	original := ssh.Marshal(struct {
		ApplicationDigest []byte `ssh:"rest"`
		Flags             byte
		Counter           uint32
		MessageDigest     []byte `ssh:"rest"`
	}{ad[:], flags, ctr, dd[:]})
	rest := ssh.Marshal(struct {
		Flags   byte
		Counter uint32
	}{flags, ctr})
	if s.ed != nil {
		return &ssh.Signature{Format: s.pub.Type(), Blob: ed25519.Sign(s.ed, original), Rest: rest}, nil
	}
	dg := sha256.Sum256(original)
	r, t, err := ecdsa.Sign(rand.Reader, s.ec, dg[:])
	if err != nil {
		return nil, err
	}
	return &ssh.Signature{Format: s.pub.Type(), Blob: ssh.Marshal(struct{ R, S *big.Int }{r, t}), Rest: rest}, nil
}

// GenSKKey generates a security-key identity of kind "sk-ed25519" or "sk-ecdsa256".
func GenSKKey(name, kind string) *KeyPair {
	app := "ssh:"
	s := &SKSigner{app: app}
	var wire []byte
	switch kind {
	case "sk-ed25519":
		pub, priv, err := ed25519.GenerateKey(rand.Reader)
		if err != nil {
			panic(err)
		}
		s.ed = priv
		wire = ssh.Marshal(struct {
			Name        string
			KeyBytes    []byte
			Application string
		}{ssh.KeyAlgoSKED25519, []byte(pub), app})
	case "sk-ecdsa256":
		priv, err := ecdsa.GenerateKey(elliptic.P256(), rand.Reader)
		if err != nil {
			panic(err)
		}
		s.ec = priv
		wire = ssh.Marshal(struct {
			Name        string
			Curve       string
			KeyBytes    []byte
			Application string
		}{ssh.KeyAlgoSKECDSA256, "nistp256", elliptic.Marshal(elliptic.P256(), priv.X, priv.Y), app})
	default:
		panic("verifh: unknown sk key kind " + kind)
	}
	pk, err := ssh.ParsePublicKey(wire)
	if err != nil {
		panic(fmt.Sprintf("verifh: cannot parse generated %s key: %v", kind, err))
	}
	s.pub = pk
	// self-test: the software authenticator must produce signatures x/crypto accepts
	sig, err := s.Sign(nil, []byte("verifh-selftest"))
	if err != nil || pk.Verify([]byte("verifh-selftest"), sig) != nil {
		panic("verifh: software security key produces unverifiable signatures")
	}
	return &KeyPair{Name: name, Kind: kind, Priv: nil, Signer: s, Pub: pk}
}

// IsSKKind tells whether the key kind is a security-key kind.
func IsSKKind(kind string) bool { return kind == "sk-ed25519" || kind == "sk-ecdsa256" }

type flexID struct {
	pub     ssh.PublicKey // plain key or certificate
	signer  ssh.Signer    // signs with the plain key
	comment string
}

// FlexAgent is an x/crypto keyring that can also hold identities it is handed as (public key, signer) pairs
// ("somebody ran ssh-add -K behind the shim's back").  Locking covers both kinds alike.
type FlexAgent struct {
	mu     sync.Mutex
	inner  agent.Agent
	extra  []flexID
	locked bool
}

// NewFlexAgent wraps a fresh keyring.
func NewFlexAgent() *FlexAgent { return &FlexAgent{inner: agent.NewKeyring()} }

var errFlexLocked = errors.New("agent: locked")

// AddIdentity stores an identity whose private half is only reachable through signer.
func (a *FlexAgent) AddIdentity(pub ssh.PublicKey, signer ssh.Signer, comment string) error {
	a.mu.Lock()
	defer a.mu.Unlock()
	if a.locked {
		return errFlexLocked
	}
	for i, e := range a.extra {
		if bytes.Equal(e.pub.Marshal(), pub.Marshal()) {
			a.extra[i] = flexID{pub, signer, comment}
			return nil
		}
	}
	a.extra = append(a.extra, flexID{pub, signer, comment})
	return nil
}

func (a *FlexAgent) List() ([]*agent.Key, error) {
	a.mu.Lock()
	defer a.mu.Unlock()
	ks, err := a.inner.List()
	if err != nil || a.locked {
		return ks, err
	}
	for _, e := range a.extra {
		ks = append(ks, &agent.Key{Format: e.pub.Type(), Blob: e.pub.Marshal(), Comment: e.comment})
	}
	return ks, nil
}

func (a *FlexAgent) find(key ssh.PublicKey) *flexID {
	for i := range a.extra {
		if bytes.Equal(a.extra[i].pub.Marshal(), key.Marshal()) {
			return &a.extra[i]
		}
	}
	return nil
}

func (a *FlexAgent) Sign(key ssh.PublicKey, data []byte) (*ssh.Signature, error) {
	return a.SignWithFlags(key, data, 0)
}

func (a *FlexAgent) SignWithFlags(key ssh.PublicKey, data []byte, flags agent.SignatureFlags) (*ssh.Signature, error) {
	a.mu.Lock()
	defer a.mu.Unlock()
	if !a.locked {
		if e := a.find(key); e != nil {
			return e.signer.Sign(rand.Reader, data)
		}
	}
	if ea, ok := a.inner.(agent.ExtendedAgent); ok {
		return ea.SignWithFlags(key, data, flags)
	}
	return a.inner.Sign(key, data)
}

func (a *FlexAgent) Add(key agent.AddedKey) error {
	a.mu.Lock()
	defer a.mu.Unlock()
	return a.inner.Add(key)
}

func (a *FlexAgent) Remove(key ssh.PublicKey) error {
	a.mu.Lock()
	defer a.mu.Unlock()
	if !a.locked {
		for i := range a.extra {
			if bytes.Equal(a.extra[i].pub.Marshal(), key.Marshal()) {
				a.extra = append(a.extra[:i], a.extra[i+1:]...)
				return nil
			}
		}
	}
	return a.inner.Remove(key)
}

func (a *FlexAgent) RemoveAll() error {
	a.mu.Lock()
	defer a.mu.Unlock()
	if err := a.inner.RemoveAll(); err != nil {
		return err
	}
	a.extra = nil
	return nil
}

func (a *FlexAgent) Lock(passphrase []byte) error {
	a.mu.Lock()
	defer a.mu.Unlock()
	if err := a.inner.Lock(passphrase); err != nil {
		return err
	}
	a.locked = true
	return nil
}

func (a *FlexAgent) Unlock(passphrase []byte) error {
	a.mu.Lock()
	defer a.mu.Unlock()
	if err := a.inner.Unlock(passphrase); err != nil {
		return err
	}
	a.locked = false
	return nil
}

func (a *FlexAgent) Signers() ([]ssh.Signer, error) {
	a.mu.Lock()
	defer a.mu.Unlock()
	ss, err := a.inner.Signers()
	if err != nil || a.locked {
		return ss, err
	}
	for _, e := range a.extra {
		ss = append(ss, e.signer)
	}
	return ss, nil
}

func (a *FlexAgent) Extension(extensionType string, contents []byte) ([]byte, error) {
	if ea, ok := a.inner.(agent.ExtendedAgent); ok {
		return ea.Extension(extensionType, contents)
	}
	return nil, agent.ErrExtensionUnsupported
}
