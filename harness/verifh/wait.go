//go:build verif

package verifh

// Driver and observer for the "wait" family (C20): executes planned steps (registrations of waiters,
// requests, registrations racing with requests) on a binding of the real code and records what it
// observes.  It never judges: every recorded step is handed to TLC (spec/TraceWait.tla).

import (
	"encoding/json"
	"errors"
	"fmt"
	mrand "math/rand"
	"net"
	"os"
	"path/filepath"
	"reflect"
	"sort"
	"sync"
	"sync/atomic"
	"time"
	"unsafe"

	"golang.org/x/crypto/ssh/agent"
)

// KeyringListener listens on a fresh unix socket; every accepted connection is served by its own real keyring
// (holding one ed25519 key) behind a frame proxy.  Code under test reaches it with its exported constructors.
func KeyringListener(label string) (sock string, cleanup func(), err error) {
	dir, err := os.MkdirTemp("", "vw")
	if err != nil {
		return "", nil, err
	}
	sock = filepath.Join(dir, "a.sock")
	ln, err := net.Listen("unix", sock)
	if err != nil {
		os.RemoveAll(dir)
		return "", nil, err
	}
	go func() {
		n := int64(0)
		for {
			c, err := ln.Accept()
			if err != nil {
				return
			}
			n++
			kr := agent.NewKeyring()
			_ = kr.Add(agent.AddedKey{PrivateKey: PoolKey(0, "ed25519").Priv, Comment: "k0"})
			px := NewProxyIdle(kr, NewRand(label, n))
			px.Serve(c)
		}
	}()
	return sock, func() { ln.Close(); os.RemoveAll(dir) }, nil
}

// WaitBinding is one way of reaching the code under test.
type WaitBinding interface {
	// Via reports whether waiting and requests go through yubiagent.ServeAgent (true) or are direct
	// calls of (*shimagent.Server).Wait / Broadcast (false).
	Via() bool
	// Wait performs the blocking wait call for a code (on its own connection in a via binding) and
	// returns when the call returns.  pan reports a panic of the code under test.
	Wait(code byte) (pan bool, err error)
	// Request makes a request with this code arrive (on another connection in a via binding); it returns
	// when the request has been dispatched (reply received, connection closed, or Broadcast returned).
	Request(code byte, r *mrand.Rand) (pan bool, err error)
	// Counts reads the number of goroutines on the notify lists of all table entries.
	Counts() (total int, byCode [][2]int, err error)
	// Release wakes everything (harness cleanup, not part of any recorded step).
	Release()
	Close()
}

// StreamRequester is implemented by bindings in which requests travel as frames on a byte stream: all requests of a
// step are written to ONE connection without waiting for replies, in one write ("pipelined") or cut into several
// writes at arbitrary places ("fragmented").  It returns when every request was answered, or no more answers come.
type StreamRequester interface {
	RequestStream(codes []byte, dl string, r *mrand.Rand) (pan bool, err error)
}

// CondCounts reads, for a pointer to a struct with a field `conds [N]*sync.Cond`, the number of goroutines
// parked on every condition variable: notify.wait - notify.notify of the runtime notify list.
func CondCounts(server interface{}) (int, [][2]int, error) {
	v := reflect.ValueOf(server)
	if v.Kind() != reflect.Ptr || v.IsNil() || v.Elem().Kind() != reflect.Struct {
		return 0, nil, errors.New("verifh: CondCounts needs a pointer to a struct")
	}
	conds := v.Elem().FieldByName("conds")
	if !conds.IsValid() || conds.Kind() != reflect.Array {
		return 0, nil, errors.New("verifh: no array field conds")
	}
	total := 0
	var by [][2]int
	for i := 0; i < conds.Len(); i++ {
		p := conds.Index(i)
		if p.Kind() != reflect.Ptr || p.IsNil() {
			return 0, nil, fmt.Errorf("verifh: conds[%d] is not a non-nil pointer", i)
		}
		nl := p.Elem().FieldByName("notify")
		if !nl.IsValid() {
			return 0, nil, errors.New("verifh: sync.Cond has no field notify")
		}
		w, n := nl.FieldByName("wait"), nl.FieldByName("notify")
		if !w.IsValid() || !n.IsValid() || w.Kind() != reflect.Uint32 || n.Kind() != reflect.Uint32 {
			return 0, nil, errors.New("verifh: notify list layout not recognised")
		}
		// read notify first: wait only grows, so the difference is never negative
		nv := atomic.LoadUint32((*uint32)(unsafe.Pointer(n.UnsafeAddr())))
		wv := atomic.LoadUint32((*uint32)(unsafe.Pointer(w.UnsafeAddr())))
		d := int(int32(wv - nv))
		if d != 0 {
			by = append(by, [2]int{i, d})
			total += d
		}
	}
	return total, by, nil
}

// WaitStep is one planned step.
type WaitStep struct {
	Op string   `json:"op"` // "reg" | "request" | "race"
	Ws []string `json:"ws"` // waiters whose Wait call starts in this step
	Wc []int    `json:"wc"` // their codes
	Cs []int    `json:"cs"` // codes of the requests that arrive in this step, in sending order
	// Dl: delivery of the requests. "" / "single" = one connection each, one frame per write, reply awaited;
	// "pipelined" = all frames on ONE connection back to back in one write, replies not awaited in between;
	// "fragmented" = the byte stream of the frames cut at arbitrary places into several writes.
	Dl string `json:"dl"`
	// Rep > 1 (pipelined, one code): the request is sent Rep times back to back - a long history of the code.
	Rep int `json:"rep"`
	// Hold (race steps): forced schedule.  The harness plays a registrant that has taken the lock of the condition
	// variable of every arriving table code and is suspended inside that critical section (Wait holds it between
	// Lock and the unlock inside sync.Cond.Wait) while the requests arrive; it lets go HoldMs later.  Whatever the
	// requests do meanwhile, everybody parked before the step must be released by them (C20_Step says so already).
	Hold bool `json:"hold,omitempty"`
}

// CondOwner is implemented by bindings that can name the struct holding the table `conds [N]*sync.Cond`.
type CondOwner interface{ CondServer() interface{} }

// CondLocker returns the Locker of the condition variable of a table code (field L of conds[code]).
func CondLocker(server interface{}, code int) (sync.Locker, error) {
	v := reflect.ValueOf(server)
	if v.Kind() != reflect.Ptr || v.IsNil() || v.Elem().Kind() != reflect.Struct {
		return nil, errors.New("verifh: CondLocker needs a pointer to a struct")
	}
	conds := v.Elem().FieldByName("conds")
	if !conds.IsValid() || conds.Kind() != reflect.Array || code < 0 || code >= conds.Len() {
		return nil, errors.New("verifh: no table entry for this code")
	}
	p := conds.Index(code)
	if p.Kind() != reflect.Ptr || p.IsNil() || p.Type() != reflect.TypeOf((*sync.Cond)(nil)) {
		return nil, errors.New("verifh: table entry is not a *sync.Cond")
	}
	c := *(**sync.Cond)(unsafe.Pointer(p.UnsafeAddr()))
	if c == nil || c.L == nil {
		return nil, errors.New("verifh: condition variable without a Locker")
	}
	return c.L, nil
}

// WaitWalk is one planned trace on a fresh server.
type WaitWalk struct {
	ID    string     `json:"id"`
	Steps []WaitStep `json:"steps"`
}

// WaitPlan is the input of the harness.
type WaitPlan struct {
	Walks   []WaitWalk `json:"walks"`
	Par     int        `json:"par"`
	GraceMs int        `json:"grace_ms"`
	MaxPark int        `json:"max_park"`
	// RegMs: timing observer only - a Wait call that has not returned this long after it was issued counts as parked
	RegMs int `json:"reg_ms"`
}

// Hints of the timing observer (they decide how long it keeps looking, never what is recorded).
const (
	waitTableHint = 40
	waitCodeHint  = 35
)

// WaitSummary is printed as VERIF-SUMMARY.
type WaitSummary struct {
	Via       bool   `json:"via"`
	Walks     int    `json:"walks"`
	Steps     int    `json:"steps"`
	NoVerdict int    `json:"noverdict"`
	NVText    string `json:"nvtext"`
	Slow      int    `json:"slow"`
	Panics    int    `json:"panics"`
	Skipped   int    `json:"skipped"`
	MaxParked int    `json:"max_parked"`
	Held      int    `json:"held"` // condition-variable locks held by the harness across arriving requests (forced schedules)
	Leaked    int    `json:"leaked"`
	Aborted   int    `json:"aborted"` // walks not started because too many walks had got stuck
	// Observer: "notify-lists" (parked goroutines read from the condition variables) or "timing" (no such table in
	// the server: parked = the call has not returned reg_ms after it was issued)
	Observer string `json:"observer"`
	// Classes counts the requests sent by class (kind of frame / what the dispatcher did with it after the broadcast)
	Classes map[string]int `json:"classes"`
}

// classCounter is implemented by bindings that classify the requests they send.
type classCounter interface{ Classes() map[string]int }

type wState struct {
	Via  bool            `json:"via"`
	Reg  [][]interface{} `json:"reg"`
	Park []string        `json:"park"`
	Done []string        `json:"done"`
}

type wLabel struct {
	Op  string   `json:"op"`
	Ws  []string `json:"ws"`
	Wc  []int    `json:"wc"`
	Cs  []int    `json:"cs"`
	Dl  string   `json:"dl"`
	Rep int      `json:"rep"`
	Rel []string `json:"rel"`
	N   int      `json:"n"`
	Pan bool     `json:"pan"`
	Byc [][2]int `json:"byc"`
}

type wRec struct {
	Ev   string  `json:"ev"`
	Tid  string  `json:"tid"`
	I    int     `json:"i"`
	Pre  *wState `json:"pre,omitempty"`
	E    *wLabel `json:"e,omitempty"`
	Post *wState `json:"post"`
	Info string  `json:"info,omitempty"`
}

type walkRun struct {
	b      WaitBinding
	mu     sync.Mutex
	order  []string
	reg    map[string]int
	ret    map[string]bool
	open   int // Wait calls that have not returned
	pan    bool
	errs   []string
	grace  time.Duration
	rnd    *mrand.Rand
	slow   int
	maxPar int
	timing bool
	regMs  time.Duration
}

// expected lists the Wait calls that a step should make return (parked on an arriving code; new ones on a code
// outside the table).  Only the timing observer uses it, and only to know how long to keep looking.
func (w *walkRun) expected(st WaitStep) []string {
	arr := map[int]bool{}
	for _, c := range st.Cs {
		arr[c] = true
	}
	if w.b.Via() && len(st.Ws) > 0 {
		arr[waitCodeHint] = true
	}
	var out []string
	w.mu.Lock()
	for _, id := range w.order {
		if !w.ret[id] && w.reg[id] < waitTableHint && arr[w.reg[id]] {
			out = append(out, id)
		}
	}
	w.mu.Unlock()
	for k, id := range st.Ws {
		if st.Wc[k] >= waitTableHint {
			out = append(out, id)
		}
	}
	return out
}

// observeTiming: wait (up to 3 s) for the calls the step should release, then keep looking for `watch` and report
// the calls that have still not returned as parked.
func (w *walkRun) observeTiming(expect []string, watch time.Duration) (int, [][2]int, error) {
	t0 := time.Now()
	for {
		w.mu.Lock()
		all := true
		for _, id := range expect {
			if !w.ret[id] {
				all = false
			}
		}
		w.mu.Unlock()
		el := time.Since(t0)
		if all || el > 3*time.Second {
			if el > time.Second {
				w.slow++
			}
			break
		}
		if el < 5*time.Millisecond {
			time.Sleep(150 * time.Microsecond)
		} else {
			time.Sleep(time.Millisecond)
		}
	}
	for k := 0; k < 4; k++ { // several polls; a return seen at any of them is kept (returns are sticky)
		time.Sleep(watch / 4)
	}
	w.mu.Lock()
	defer w.mu.Unlock()
	cnt := map[int]int{}
	for _, id := range w.order {
		if !w.ret[id] {
			cnt[w.reg[id]]++
		}
	}
	by := [][2]int{}
	for c, n := range cnt {
		by = append(by, [2]int{c, n})
	}
	sort.Slice(by, func(i, j int) bool { return by[i][0] < by[j][0] })
	return w.open, by, nil
}

func (w *walkRun) snapshot() *wState {
	w.mu.Lock()
	defer w.mu.Unlock()
	s := &wState{Via: w.b.Via(), Reg: [][]interface{}{}, Park: []string{}, Done: []string{}}
	for _, id := range w.order {
		s.Reg = append(s.Reg, []interface{}{id, w.reg[id]})
		if w.ret[id] {
			s.Done = append(s.Done, id)
		} else {
			s.Park = append(s.Park, id)
		}
	}
	return s
}

func (w *walkRun) openCalls() int {
	w.mu.Lock()
	defer w.mu.Unlock()
	return w.open
}

func (w *walkRun) start(id string, code int, delay time.Duration) {
	w.mu.Lock()
	w.order = append(w.order, id)
	w.reg[id] = code
	w.open++
	w.mu.Unlock()
	go func() {
		if delay > 0 {
			time.Sleep(delay)
		}
		pan, err := w.b.Wait(byte(code))
		w.mu.Lock()
		w.ret[id] = true
		w.open--
		if pan {
			w.pan = true
		}
		if err != nil && len(w.errs) < 4 {
			w.errs = append(w.errs, "wait("+id+"): "+err.Error())
		}
		w.mu.Unlock()
	}()
}

func sameBy(a, b [][2]int) bool {
	if len(a) != len(b) {
		return false
	}
	for i := range a {
		if a[i] != b[i] {
			return false
		}
	}
	return true
}

// quiesce waits until every Wait call that has not returned is counted on a notify list (nobody is between
// "called" and "parked", nobody between "woken" and "returned"), seen in two consecutive identical readings.
// soft is the time after which a still-returning waiter counts as slow (reported, not judged).
func (w *walkRun) quiesce(soft, hard time.Duration) (n int, by [][2]int, err error) {
	t0 := time.Now()
	havePrev := false
	var pn int
	var pby [][2]int
	slowNoted := false
	for {
		r1 := w.openCalls()
		n, by, err = w.b.Counts()
		if err != nil {
			return 0, nil, err
		}
		r2 := w.openCalls()
		if r1 == r2 && n == r1 {
			if havePrev && pn == n && sameBy(pby, by) {
				return n, by, nil
			}
			havePrev, pn, pby = true, n, by
		} else {
			havePrev = false
		}
		el := time.Since(t0)
		if el > soft && !slowNoted {
			slowNoted = true
			w.slow++
		}
		if el > hard {
			return n, by, fmt.Errorf("no quiescent observation within %v: %d open Wait calls, %d goroutines on notify lists", hard, r2, n)
		}
		if el < 5*time.Millisecond {
			time.Sleep(150 * time.Microsecond)
		} else {
			time.Sleep(time.Millisecond)
		}
	}
}

// settle = quiesce, grace period, quiesce again; repeated until the two observations agree.  The claim "still
// waiting" therefore rests on the observed notify lists after the grace period, not on the sleep alone.
func (w *walkRun) settle() (int, [][2]int, error) {
	n, by, err := w.quiesce(2*time.Second, 30*time.Second)
	if err != nil {
		return n, by, err
	}
	for k := 0; k < 50; k++ {
		time.Sleep(w.grace)
		n2, by2, err := w.quiesce(2*time.Second, 30*time.Second)
		if err != nil {
			return n2, by2, err
		}
		if n2 == n && sameBy(by, by2) {
			return n2, by2, nil
		}
		n, by = n2, by2
	}
	return n, by, errors.New("observation does not settle")
}

func (w *walkRun) requests(cs []int, stagger bool, dl string, reps int) error {
	var wg sync.WaitGroup
	done := make(chan struct{})
	if dl == "pipelined" || dl == "fragmented" {
		// one sender, one connection, requests in the given order
		r := mrand.New(mrand.NewSource(w.rnd.Int63()))
		codes := make([]byte, 0, len(cs))
		for _, c := range cs {
			codes = append(codes, byte(c))
		}
		if reps > 1 && len(cs) == 1 {
			codes = make([]byte, reps)
			for i := range codes {
				codes[i] = byte(cs[0])
			}
		}
		wg.Add(1)
		go func() {
			defer wg.Done()
			var pan bool
			var err error
			if sr, ok := w.b.(StreamRequester); ok {
				// long repetitions travel as several streams of at most 256 frames, one after the other
				for len(codes) > 0 && err == nil {
					n := len(codes)
					if n > 256 {
						n = 256
					}
					var p bool
					p, err = sr.RequestStream(codes[:n], dl, r)
					pan = pan || p
					codes = codes[n:]
				}
			} else {
				for _, c := range codes {
					p, e := w.b.Request(c, r)
					pan = pan || p
					if e != nil {
						err = e
					}
				}
			}
			w.mu.Lock()
			if pan {
				w.pan = true
			}
			if err != nil && len(w.errs) < 4 {
				w.errs = append(w.errs, fmt.Sprintf("request stream %v (%s): %v", cs, dl, err))
			}
			w.mu.Unlock()
		}()
		cs = nil
	}
	for _, c := range cs {
		wg.Add(1)
		var d time.Duration
		if stagger {
			d = time.Duration(w.rnd.Intn(400)) * time.Microsecond
		}
		r := mrand.New(mrand.NewSource(w.rnd.Int63()))
		go func(c int, d time.Duration) {
			defer wg.Done()
			if d > 0 {
				time.Sleep(d)
			}
			pan, err := w.b.Request(byte(c), r)
			w.mu.Lock()
			if pan {
				w.pan = true
			}
			if err != nil && len(w.errs) < 4 {
				w.errs = append(w.errs, fmt.Sprintf("request(%d): %v", c, err))
			}
			w.mu.Unlock()
		}(c, d)
	}
	go func() { wg.Wait(); close(done) }()
	select {
	case <-done:
		return nil
	case <-time.After(40*time.Second + time.Duration(reps)*2*time.Millisecond):
		return errors.New("a request was not dispatched in time")
	}
}

func runWalk(wk WaitWalk, b WaitBinding, grace, regMs time.Duration, timing bool, maxPark int, rnd *mrand.Rand) (recs []interface{}, sum WaitSummary) {
	w := &walkRun{b: b, reg: map[string]int{}, ret: map[string]bool{}, grace: grace, rnd: rnd, timing: timing, regMs: regMs}
	cur := w.snapshot()
	recs = append(recs, wRec{Ev: "reset", Tid: wk.ID, Post: cur})
	nv := func(i int, err error) {
		sum.NoVerdict++
		sum.NVText = fmt.Sprintf("walk %s step %d: %v", wk.ID, i, err)
	}
	for i, st := range wk.Steps {
		if len(st.Ws) != len(st.Wc) {
			nv(i, errors.New("malformed step"))
			break
		}
		if len(st.Ws) > 0 {
			w.mu.Lock()
			open, dup := w.open, false
			for _, id := range st.Ws {
				if _, ok := w.reg[id]; ok {
					dup = true
				}
			}
			w.mu.Unlock()
			if dup || open+len(st.Ws) > maxPark {
				sum.Skipped++
				continue
			}
		}
		w.mu.Lock()
		w.pan = false
		w.errs = nil
		before := map[string]bool{}
		for k, v := range w.ret {
			before[k] = v
		}
		w.mu.Unlock()
		var n int
		var by [][2]int
		var err error
		expect := w.expected(st)
		watch := w.grace
		for _, c := range st.Wc {
			if c < waitTableHint {
				watch = w.regMs
			}
		}
		switch st.Op {
		case "reg":
			for k, id := range st.Ws {
				w.start(id, st.Wc[k], 0)
			}
			if w.timing {
				n, by, err = w.observeTiming(expect, watch)
			} else {
				n, by, err = w.quiesce(2*time.Second, 30*time.Second)
			}
		case "request":
			if err = w.requests(st.Cs, len(st.Cs) > 1, st.Dl, st.Rep); err == nil {
				if w.timing {
					n, by, err = w.observeTiming(expect, watch)
				} else {
					n, by, err = w.settle()
				}
			}
		case "race":
			var held []sync.Locker
			if co, ok := b.(CondOwner); ok && st.Hold && !w.timing && co.CondServer() != nil {
				seen := map[int]bool{}
				for _, c := range st.Cs {
					if l, e := CondLocker(co.CondServer(), c); e == nil && !seen[c] {
						seen[c] = true
						l.Lock()
						held = append(held, l)
					}
				}
				sum.Held += len(held)
			}
			for k, id := range st.Ws {
				w.start(id, st.Wc[k], time.Duration(rnd.Intn(400))*time.Microsecond)
			}
			if len(held) > 0 {
				rc := make(chan error, 1)
				go func() { rc <- w.requests(st.Cs, true, st.Dl, st.Rep) }()
				time.Sleep(time.Duration(2+rnd.Intn(4)) * time.Millisecond)
				for _, l := range held {
					l.Unlock()
				}
				err = <-rc
			} else {
				err = w.requests(st.Cs, true, st.Dl, st.Rep)
			}
			if err == nil {
				if w.timing {
					n, by, err = w.observeTiming(expect, watch)
				} else {
					n, by, err = w.settle()
				}
			}
		default:
			err = errors.New("unknown step kind " + st.Op)
		}
		if err != nil {
			nv(i, err)
			break
		}
		post := w.snapshot()
		w.mu.Lock()
		rel := []string{}
		for _, id := range w.order {
			if w.ret[id] && !before[id] {
				rel = append(rel, id)
			}
		}
		pan := w.pan
		info := ""
		if len(w.errs) > 0 {
			bb, _ := json.Marshal(w.errs)
			info = string(bb)
		}
		w.mu.Unlock()
		if pan {
			sum.Panics++
		}
		if n > sum.MaxParked {
			sum.MaxParked = n
		}
		if by == nil {
			by = [][2]int{}
		}
		lab := &wLabel{Op: st.Op, Ws: append([]string{}, st.Ws...), Wc: append([]int{}, st.Wc...), Cs: append([]int{}, st.Cs...), Rel: rel, N: n, Pan: pan, Byc: by}
		sort.Ints(lab.Cs)
		lab.Dl = st.Dl
		lab.Rep = st.Rep
		if lab.Rep <= 0 {
			lab.Rep = 1
			if len(st.Cs) == 0 {
				lab.Rep = 0
			}
		}
		if lab.Dl == "" {
			lab.Dl = "single"
			if len(st.Cs) == 0 {
				lab.Dl = "none"
			}
		}
		recs = append(recs, wRec{Ev: "step", Tid: wk.ID, I: i, Pre: cur, E: lab, Post: post, Info: info})
		cur = post
		sum.Steps++
	}
	// release whatever is still parked so that the goroutines (and connections) go away; the code under test may be
	// wedged (a panic with a lock held), so cleanup never blocks the walk
	cleaned := make(chan struct{})
	go func() {
		defer close(cleaned)
		for k := 0; k < 40 && w.openCalls() > 0; k++ {
			b.Release()
			time.Sleep(time.Duration(k+1) * 200 * time.Microsecond)
		}
		t0 := time.Now()
		for w.openCalls() > 0 && time.Since(t0) < 2*time.Second {
			time.Sleep(time.Millisecond)
		}
	}()
	select {
	case <-cleaned:
	case <-time.After(5 * time.Second):
	}
	sum.Leaked = w.openCalls()
	sum.Slow = w.slow
	if cc, ok := b.(classCounter); ok {
		sum.Classes = cc.Classes()
	}
	closed := make(chan struct{})
	go func() { defer close(closed); b.Close() }()
	select {
	case <-closed:
	case <-time.After(2 * time.Second):
	}
	sum.Walks = 1
	return recs, sum
}

// RunWaitPlan executes the plan named by VERIF_PLAN with bindings from mk and writes the observations to VERIF_OUT.
func RunWaitPlan(mk func(r *mrand.Rand) (WaitBinding, error)) (WaitSummary, error) {
	var plan WaitPlan
	raw, err := os.ReadFile(os.Getenv("VERIF_PLAN"))
	if err != nil {
		return WaitSummary{}, err
	}
	if err := json.Unmarshal(raw, &plan); err != nil {
		return WaitSummary{}, err
	}
	tr, err := OpenTrace(os.Getenv("VERIF_OUT"))
	if err != nil {
		return WaitSummary{}, err
	}
	if plan.Par <= 0 {
		plan.Par = 16
	}
	if plan.MaxPark <= 0 {
		plan.MaxPark = 8
	}
	grace := time.Duration(plan.GraceMs) * time.Millisecond
	if grace <= 0 {
		grace = 60 * time.Millisecond
	}
	regMs := time.Duration(plan.RegMs) * time.Millisecond
	if regMs <= 0 {
		regMs = 150 * time.Millisecond
	}
	var total WaitSummary
	// which observer: are the notify lists of a table of condition variables readable on this server?
	timing := false
	if pb, err := mk(NewRand("wait-probe", 0)); err != nil {
		return total, err
	} else {
		if _, _, cerr := pb.Counts(); cerr != nil {
			timing = true
			plan.Par *= 4 // the timing observer mostly sleeps
		}
		pb.Close()
	}
	total.Observer = "notify-lists"
	if timing {
		total.Observer = "timing"
	}
	var mu sync.Mutex
	var firstErr error
	var nvWalks int32
	sem := make(chan struct{}, plan.Par)
	var wg sync.WaitGroup
	for i, wk := range plan.Walks {
		wg.Add(1)
		sem <- struct{}{}
		go func(i int, wk WaitWalk) {
			defer wg.Done()
			defer func() { <-sem }()
			if atomic.LoadInt32(&nvWalks) >= 24 {
				// the code under test is wedged: the remaining walks are not started
				mu.Lock()
				total.Aborted++
				mu.Unlock()
				return
			}
			rnd := NewRand("wait-"+wk.ID, int64(i))
			b, err := mk(rnd)
			if err != nil {
				mu.Lock()
				if firstErr == nil {
					firstErr = err
				}
				mu.Unlock()
				return
			}
			recs, s := runWalk(wk, b, grace, regMs, timing, plan.MaxPark, rnd)
			if s.NoVerdict == 0 {
				tr.EmitAll(recs)
			} else {
				atomic.AddInt32(&nvWalks, 1)
				if len(recs) > 2 {
					tr.EmitAll(recs) // the steps observed before the walk got stuck are facts too
				}
			}
			mu.Lock()
			total.Via = b.Via()
			total.Walks += s.Walks
			total.Steps += s.Steps
			total.NoVerdict += s.NoVerdict
			if s.NVText != "" && total.NVText == "" {
				total.NVText = s.NVText
			}
			total.Slow += s.Slow
			total.Panics += s.Panics
			total.Skipped += s.Skipped
			total.Leaked += s.Leaked
			for k, v := range s.Classes {
				if total.Classes == nil {
					total.Classes = map[string]int{}
				}
				total.Classes[k] += v
			}
			total.Held += s.Held
			if s.MaxParked > total.MaxParked {
				total.MaxParked = s.MaxParked
			}
			mu.Unlock()
		}(i, wk)
	}
	wg.Wait()
	if err := tr.Close(); err != nil {
		return total, err
	}
	return total, firstErr
}
