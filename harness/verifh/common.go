//go:build verif

// Package verifh holds helpers shared by the conformance harnesses in /verif/harness.
// It is compiled into the ysshra module through `go test -overlay` only; it is not part of /repo.
package verifh

import (
	"bufio"
	"crypto/ecdsa"
	"crypto/ed25519"
	"crypto/elliptic"
	"crypto/rand"
	"crypto/rsa"
	"encoding/json"
	"fmt"
	mrand "math/rand"
	"os"
	"strconv"
	"sync"

	"golang.org/x/crypto/ssh"
)

// Seed returns VERIF_SEED (default 1).
func Seed() int64 {
	if s := os.Getenv("VERIF_SEED"); s != "" {
		if v, err := strconv.ParseInt(s, 10, 64); err == nil {
			return v
		}
	}
	return 1
}

// EnvInt reads an integer environment variable with a default.
func EnvInt(name string, def int) int {
	if s := os.Getenv(name); s != "" {
		if v, err := strconv.Atoi(s); err == nil {
			return v
		}
	}
	return def
}

// Tier returns "quick" or "thorough".
func Tier() string {
	if os.Getenv("VERIF_TIER") == "thorough" {
		return "thorough"
	}
	return "quick"
}

// NewRand returns a deterministic generator derived from the seed and a stream label.
func NewRand(label string, n int64) *mrand.Rand {
	h := int64(1469598103934665603)
	for _, c := range label {
		h ^= int64(c)
		h *= 1099511628211
	}
	return mrand.New(mrand.NewSource(Seed()*1000003 + h + n*7919))
}

// Trace is an ndjson writer safe for concurrent use.
type Trace struct {
	mu sync.Mutex
	f  *os.File
	w  *bufio.Writer
	N  int
}

// OpenTrace creates the file.
func OpenTrace(path string) (*Trace, error) {
	f, err := os.Create(path)
	if err != nil {
		return nil, err
	}
	return &Trace{f: f, w: bufio.NewWriterSize(f, 1<<20)}, nil
}

// Emit writes one JSON value per line.
func (t *Trace) Emit(v interface{}) {
	b, err := json.Marshal(v)
	if err != nil {
		panic(fmt.Sprintf("verifh: cannot marshal trace record: %v", err))
	}
	t.mu.Lock()
	t.w.Write(b)
	t.w.WriteByte('\n')
	t.N++
	t.mu.Unlock()
}

// EmitAll writes a batch atomically (one trace stays contiguous in the file).
func (t *Trace) EmitAll(vs []interface{}) {
	t.mu.Lock()
	defer t.mu.Unlock()
	for _, v := range vs {
		b, err := json.Marshal(v)
		if err != nil {
			panic(fmt.Sprintf("verifh: cannot marshal trace record: %v", err))
		}
		t.w.Write(b)
		t.w.WriteByte('\n')
		t.N++
	}
}

// Close flushes and closes.
func (t *Trace) Close() error {
	t.mu.Lock()
	defer t.mu.Unlock()
	if err := t.w.Flush(); err != nil {
		return err
	}
	return t.f.Close()
}

// KeyPair is a private key with its ssh public key.
type KeyPair struct {
	Name   string
	Kind   string
	Priv   interface{} // *rsa.PrivateKey, *ecdsa.PrivateKey or *ed25519.PrivateKey (as accepted by agent.AddedKey)
	Signer ssh.Signer
	Pub    ssh.PublicKey
}

// GenKey generates a key pair of the given kind: "ed25519", "ecdsa256", "ecdsa384", "ecdsa521", "rsa2048", "rsa3072".
func GenKey(name, kind string) *KeyPair {
	var priv interface{}
	var err error
	switch kind {
	case "ed25519":
		var p ed25519.PrivateKey
		_, p, err = ed25519.GenerateKey(rand.Reader)
		priv = &p
	case "ecdsa256":
		priv, err = ecdsa.GenerateKey(elliptic.P256(), rand.Reader)
	case "ecdsa384":
		priv, err = ecdsa.GenerateKey(elliptic.P384(), rand.Reader)
	case "ecdsa521":
		priv, err = ecdsa.GenerateKey(elliptic.P521(), rand.Reader)
	case "rsa2048":
		priv, err = rsa.GenerateKey(rand.Reader, 2048)
	case "rsa3072":
		priv, err = rsa.GenerateKey(rand.Reader, 3072)
	default:
		panic("verifh: unknown key kind " + kind)
	}
	if err != nil {
		panic(err)
	}
	var s ssh.Signer
	if p, ok := priv.(*ed25519.PrivateKey); ok {
		s, err = ssh.NewSignerFromKey(*p)
	} else {
		s, err = ssh.NewSignerFromKey(priv)
	}
	if err != nil {
		panic(err)
	}
	return &KeyPair{Name: name, Kind: kind, Priv: priv, Signer: s, Pub: s.PublicKey()}
}

// KeyKinds is the rotation of key types used to instantiate abstract key ids.
var KeyKinds = []string{"ed25519", "ecdsa256", "rsa2048", "ecdsa384", "ecdsa521"}

var (
	poolMu sync.Mutex
	pool   = map[string]*KeyPair{}
)

// PoolKey returns a process-wide cached key pair for (slot, kind); RSA generation is slow, so keys are reused
// across instances (every instance still has its own agent and its own certificates).
func PoolKey(slot int, kind string) *KeyPair {
	id := fmt.Sprintf("%s#%d", kind, slot)
	poolMu.Lock()
	defer poolMu.Unlock()
	if k, ok := pool[id]; ok {
		return k
	}
	var k *KeyPair
	if IsSKKind(kind) {
		k = GenSKKey(id, kind)
	} else {
		k = GenKey(id, kind)
	}
	pool[id] = k
	return k
}

// CertSpec describes a certificate to mint.
type CertSpec struct {
	Key         ssh.PublicKey
	KeyID       string
	ValidAfter  uint64
	ValidBefore uint64
	Principals  []string
	Serial      uint64
	CritOpts    map[string]string
	Exts        map[string]string
}

// Mint signs a user certificate with the CA signer.
func Mint(ca ssh.Signer, s CertSpec) *ssh.Certificate {
	c := &ssh.Certificate{
		Key:             s.Key,
		Serial:          s.Serial,
		CertType:        ssh.UserCert,
		KeyId:           s.KeyID,
		ValidPrincipals: s.Principals,
		ValidAfter:      s.ValidAfter,
		ValidBefore:     s.ValidBefore,
		Permissions:     ssh.Permissions{CriticalOptions: s.CritOpts, Extensions: s.Exts},
	}
	if err := c.SignCert(rand.Reader, ca); err != nil {
		panic(err)
	}
	// round-trip so that the object is what a peer would parse
	pk, err := ssh.ParsePublicKey(c.Marshal())
	if err != nil {
		panic(err)
	}
	return pk.(*ssh.Certificate)
}

// KeyIDClass enumerates the KeyID text classes used for certificates.
// "yss*" decode as YSSHCA KeyIDs; the others must not.
var YssKeyIDs = []string{"yss-regular", "yss-touch", "yss-cached", "yss-ff-hw", "yss-ff-agent", "yss-nonce", "yss-headless", "yss-default",
	"yss-nullprins", "yss-emptyprins", "yss-extrafields"}
var NonYssKeyIDs = []string{"near-missing", "near-ver2", "near-ver0", "near-inconsistent", "near-case", "near-type", "near-trailing", "free-text", "free-empty", "free-json-array", "free-json-null", "free-json-obj"}

// KeyIDText renders a KeyID text of the given class. tid is the transaction id.
func KeyIDText(class string, tid string, r *mrand.Rand) string {
	base := func(ff, hw, hl, nonce bool, tp int, ver int) map[string]interface{} {
		return map[string]interface{}{
			"prins": []string{"user" + tid}, "transID": tid, "reqUser": "ru", "reqIP": "1.2.3.4", "reqHost": "h.example",
			"isFirefighter": ff, "isHWKey": hw, "isHeadless": hl, "isNonce": nonce, "usage": 0, "touchPolicy": tp, "ver": ver,
		}
	}
	var m map[string]interface{}
	switch class {
	case "yss-regular":
		m = base(false, false, false, false, 1, 1)
	case "yss-touch":
		m = base(false, true, false, false, 2, 1)
	case "yss-cached":
		m = base(false, true, false, false, 3, 1)
	case "yss-ff-hw":
		m = base(true, true, false, false, 3, 1)
	case "yss-ff-agent":
		m = base(true, false, false, false, 1, 1)
	case "yss-nonce":
		m = base(false, false, false, true, 1, 1)
	case "yss-headless":
		m = base(false, false, true, false, 1, 1)
	case "yss-default":
		m = base(false, true, false, false, 0, 1)
	case "yss-nullprins":
		// what keyid.Marshal emits for a KeyID without principals: the required field is present with value null
		m = base(false, false, false, false, 1, 1)
		m["prins"] = nil
	case "yss-emptyprins":
		m = base(false, true, false, false, 2, 1)
		m["prins"] = []string{}
	case "yss-extrafields":
		m = base(false, false, false, false, 1, 1)
		m["futureField"] = map[string]interface{}{"a": 1}
		m["usage"] = 1
	case "near-missing":
		m = base(false, false, false, false, 1, 1)
		req := []string{"prins", "transID", "reqUser", "reqIP", "reqHost", "isFirefighter", "isHWKey", "isHeadless", "isNonce", "touchPolicy"}
		delete(m, req[r.Intn(len(req))])
	case "near-ver2":
		m = base(false, false, false, false, 1, 2)
	case "near-ver0":
		m = base(false, false, false, false, 1, 0)
		if r.Intn(2) == 0 {
			delete(m, "ver")
		}
	case "near-inconsistent":
		switch r.Intn(4) {
		case 0:
			m = base(false, true, true, false, 1, 1) // headless + hw
		case 1:
			m = base(true, false, false, true, 1, 1) // nonce + ff
		case 2:
			m = base(false, false, true, false, 2, 1) // headless + touch
		default:
			m = base(false, false, true, true, 1, 1) // headless + nonce
		}
	case "near-case":
		m = base(false, false, false, false, 1, 1)
		// Go's decoder matches field names case-insensitively, the required-field table does not.
		v := m["transID"]
		delete(m, "transID")
		m["transid"] = v
	case "near-type":
		m = base(false, false, false, false, 1, 1)
		m["isHWKey"] = "false"
	case "near-trailing":
		// a complete, valid KeyID object followed by more text: not a JSON document, hence not a YSSHCA KeyID
		m = base(false, r.Intn(2) == 0, false, false, 1+r.Intn(3), 1)
		b, _ := json.Marshal(m)
		return string(b) + []string{"}", " trailing", string(b), ",", "\n{}", "]"}[r.Intn(6)]
	case "free-text":
		return []string{"user@host", "my laptop key", "{not json", "ssh-ed25519 AAAA", "üser-中"}[r.Intn(5)]
	case "free-empty":
		return ""
	case "free-json-array":
		return `["a","b"]`
	case "free-json-null":
		return `null`
	case "free-json-obj":
		return `{"a":1}`
	default:
		panic("verifh: unknown KeyID class " + class)
	}
	b, _ := json.Marshal(m)
	return string(b)
}
