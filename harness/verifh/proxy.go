//go:build verif

package verifh

import (
	"encoding/binary"
	"errors"
	"io"
	mrand "math/rand"
	"net"
	"sync"

	"golang.org/x/crypto/ssh/agent"
)

// ReqKind classifies an agent request by its message code.
func ReqKind(code byte) string {
	switch code {
	case 11:
		return "list"
	case 13:
		return "sign"
	case 17, 25:
		return "add"
	case 18:
		return "remove"
	case 19:
		return "removeall"
	case 22:
		return "lock"
	case 23:
		return "unlock"
	}
	return "raw"
}

// Frame is one recorded request/reply pair.
type Frame struct {
	Req   []byte
	Reply []byte // nil when no reply was written (fault "close"/"oversize")
	Fault string // "" or the fault kind applied to this request
}

// Proxy sits between the code under test and a real agent implementation served with
// x/crypto's agent.ServeAgent.  It records every frame and can replace the answer to one
// request by a fault.  A faulted request is NOT executed by the backend.
type Proxy struct {
	Client net.Conn // hand this end to the code under test
	srv    net.Conn
	b1, b2 net.Conn

	mu       sync.Mutex
	frames   []Frame
	armKind  string
	armHit   string
	armAt    int // when >0: fault the armAt-th request (1-based) since Begin, regardless of kind
	fired    bool
	firedHit string
	count    int
	rnd      *mrand.Rand
	dead     bool

	// Gate, when non-nil, is called with the request before it is relayed (scheduler hook for the
	// concurrency harness); it may block.
	Gate func(req []byte)
	// AfterReply, when non-nil, is called after the reply was obtained from the backend and before it
	// is written back.
	AfterReply func(req, reply []byte)
	// Rewrite, when non-nil, may replace the backend's reply (e.g. to echo a caller-specific tag).
	Rewrite func(req, reply []byte) []byte
	// Frag, when true, delivers every reply in several write segments of random size (as a stream
	// socket may): readers must not assume that one Read returns a whole frame.
	Frag bool
}

// writeReply writes a reply frame, fragmented when p.Frag is set.
func (p *Proxy) writeReply(b []byte) error {
	if !p.Frag {
		return writeFrame(p.srv, b)
	}
	msg := make([]byte, 4+len(b))
	binary.BigEndian.PutUint32(msg, uint32(len(b)))
	copy(msg[4:], b)
	for len(msg) > 0 {
		n := 1 + p.rnd.Intn(len(msg))
		if n > 7 && p.rnd.Intn(2) == 0 {
			n = 1 + p.rnd.Intn(7)
		}
		if _, err := p.srv.Write(msg[:n]); err != nil {
			return err
		}
		msg = msg[n:]
	}
	return nil
}

// NewProxy starts the proxy goroutines over an in-memory pipe; hand p.Client to the code under test.
func NewProxy(backend agent.Agent, r *mrand.Rand) *Proxy {
	c1, c2 := net.Pipe()
	p := NewProxyIdle(backend, r)
	p.Client = c1
	p.Serve(c2)
	return p
}

// NewProxyIdle creates a proxy that is not yet attached to a connection (so that a fault can be armed
// before the first request arrives); attach with Serve.
func NewProxyIdle(backend agent.Agent, r *mrand.Rand) *Proxy {
	b1, b2 := net.Pipe()
	p := &Proxy{b1: b1, b2: b2, rnd: r}
	go func() {
		_ = agent.ServeAgent(backend, b2)
		b2.Close()
	}()
	return p
}

// Serve attaches the server side of a connection (e.g. one accepted from a unix socket).
func (p *Proxy) Serve(c net.Conn) {
	p.srv = c
	go p.loop()
}

func readFrame(c io.Reader) ([]byte, error) {
	var l [4]byte
	if _, err := io.ReadFull(c, l[:]); err != nil {
		return nil, err
	}
	n := binary.BigEndian.Uint32(l[:])
	if n > 64<<20 {
		return nil, errors.New("verifh: frame too large")
	}
	b := make([]byte, n)
	if _, err := io.ReadFull(c, b); err != nil {
		return nil, err
	}
	return b, nil
}

func writeFrame(c io.Writer, b []byte) error {
	msg := make([]byte, 4+len(b))
	binary.BigEndian.PutUint32(msg, uint32(len(b)))
	copy(msg[4:], b)
	_, err := c.Write(msg)
	return err
}

// WriteFrame / ReadFrame are exported for harnesses that speak the protocol directly.
func WriteFrame(c io.Writer, b []byte) error { return writeFrame(c, b) }
func ReadFrame(c io.Reader) ([]byte, error)  { return readFrame(c) }

func (p *Proxy) loop() {
	defer p.srv.Close()
	defer p.b1.Close()
	for {
		req, err := readFrame(p.srv)
		if err != nil {
			return
		}
		if p.Gate != nil {
			p.Gate(req)
		}
		p.mu.Lock()
		p.count++
		kind := ""
		if len(req) > 0 {
			kind = ReqKind(req[0])
		}
		fault := ""
		if !p.fired && p.armKind != "" && ((p.armAt > 0 && p.count == p.armAt) || (p.armAt == 0 && p.armHit == kind)) {
			fault = p.armKind
			p.fired = true
			p.firedHit = kind
		}
		p.mu.Unlock()

		if fault != "" {
			reply, kill := p.faultReply(fault, req)
			p.mu.Lock()
			p.frames = append(p.frames, Frame{Req: req, Reply: reply, Fault: fault})
			if kill {
				p.dead = true
			}
			p.mu.Unlock()
			if fault == "oversize" {
				// a length prefix above 16 MiB followed by a few bytes, then the connection goes away
				var l [4]byte
				binary.BigEndian.PutUint32(l[:], uint32(16<<20+1+p.rnd.Intn(1<<20)))
				p.srv.Write(l[:])
				return
			}
			if kill {
				return
			}
			if err := p.writeReply(reply); err != nil {
				return
			}
			continue
		}

		if err := writeFrame(p.b1, req); err != nil {
			return
		}
		reply, err := readFrame(p.b1)
		if err != nil {
			return
		}
		if p.AfterReply != nil {
			p.AfterReply(req, reply)
		}
		if p.Rewrite != nil {
			reply = p.Rewrite(req, reply)
		}
		p.mu.Lock()
		p.frames = append(p.frames, Frame{Req: req, Reply: reply})
		p.mu.Unlock()
		if err := p.writeReply(reply); err != nil {
			return
		}
	}
}

// faultReply builds the reply for a fault kind; kill reports whether the connection ends.
func (p *Proxy) faultReply(kind string, req []byte) (reply []byte, kill bool) {
	switch kind {
	case "fail":
		return []byte{5}, false
	case "garbage":
		switch p.rnd.Intn(4) {
		case 0:
			return []byte{}, false // empty packet
		case 1:
			return []byte{12, 0xff, 0xff}, false // truncated identities answer
		case 2:
			return []byte{14, 0, 0, 0, 9, 1}, false // truncated sign response
		default:
			b := make([]byte, 1+p.rnd.Intn(40))
			p.rnd.Read(b)
			if b[0] == 5 || b[0] == 6 { // keep it from being a well-formed failure/success
				b[0] = 200
			}
			return b, false
		}
	case "wrongkind":
		if len(req) > 0 && (req[0] == 11 || req[0] == 13) {
			return []byte{6}, false // SUCCESS where an identities answer / signature is expected
		}
		return []byte{12, 0, 0, 0, 0}, false // an (empty) identities answer where SUCCESS/FAILURE is expected
	case "oversize":
		return nil, true
	case "close":
		return nil, true
	}
	panic("verifh: unknown fault kind " + kind)
}

// Begin resets the per-operation frame log and disarms any fault.
func (p *Proxy) Begin() {
	p.mu.Lock()
	p.frames = nil
	p.armKind, p.armHit, p.armAt = "", "", 0
	p.fired, p.firedHit = false, ""
	p.count = 0
	p.mu.Unlock()
}

// Arm arms a fault for the first request of kind hit.
func (p *Proxy) Arm(kind, hit string) {
	p.mu.Lock()
	p.armKind, p.armHit, p.armAt = kind, hit, 0
	p.mu.Unlock()
}

// ArmAt arms a fault for the n-th request (1-based) since Begin.
func (p *Proxy) ArmAt(kind string, n int) {
	p.mu.Lock()
	p.armKind, p.armHit, p.armAt = kind, "", n
	p.mu.Unlock()
}

// Fired reports whether the armed fault was applied, and to which request kind.
func (p *Proxy) Fired() (bool, string) {
	p.mu.Lock()
	defer p.mu.Unlock()
	return p.fired, p.firedHit
}

// Frames returns a copy of the frames seen since Begin.
func (p *Proxy) Frames() []Frame {
	p.mu.Lock()
	defer p.mu.Unlock()
	out := make([]Frame, len(p.frames))
	copy(out, p.frames)
	return out
}

// Dead reports whether a fault ended the connection.
func (p *Proxy) Dead() bool {
	p.mu.Lock()
	defer p.mu.Unlock()
	return p.dead
}

// Close tears the proxy down.
func (p *Proxy) Close() {
	if p.Client != nil {
		p.Client.Close()
	}
	if p.srv != nil {
		p.srv.Close()
	}
	p.b1.Close()
	p.b2.Close()
}
