//go:build verif

package csr

// Conformance harness for spec/ReqParam.tla (properties C14 and C15).
// The harness is a driver and observer only: it builds concrete inputs (direction A: from the case
// table exported by TLC; direction B: from seeded grammars with hostile material), runs the real
// csr.NewReqParam / message.Marshal / Unmarshal / UnmarshalLegacy with panics recovered, and records
// for every call the lexical abstraction of the inputs and the observed result.  TLC judges the
// recorded events (spec/TraceReqParam.tla, C14_Step / C15_Step).

import (
	"crypto/x509"
	"encoding/hex"
	"encoding/json"
	"fmt"
	mrand "math/rand"
	"net/netip"
	"os"
	"regexp"
	"sort"
	"strconv"
	"strings"
	"sync"
	"testing"
	"unicode"
	"unicode/utf8"

	"github.com/theparanoids/ysshra/message"
	"github.com/theparanoids/ysshra/verifh"
)

func zvrhx(s string) string { return hex.EncodeToString([]byte(s)) }
func zvrunhx(s string) string {
	b, err := hex.DecodeString(s)
	if err != nil {
		panic("verif: bad hex in plan: " + s)
	}
	return string(b)
}

// ---------------------------------------------------------------------------------------------
// lexical abstraction (see the header of ReqParam.tla)

type zvrvAtom struct {
	T    string `json:"t"`
	H    string `json:"h"`
	Vc   string `json:"vc"`
	Vmaj int    `json:"vmaj"`
	Vmin int    `json:"vmin"`
	B    string `json:"b"`
	Num  string `json:"num"`
}

type zvrvVer struct {
	Cls string `json:"cls"`
	Maj int    `json:"maj"`
	Min int    `json:"min"`
}

var zvrvVerRE = regexp.MustCompile(`^[0-9]+\.[0-9]+$`)

// verClass reads a declared client version: "ab" (major.minor, both <= 65535), "big", "malformed", "missing".
func zvrverClass(s string) zvrvVer {
	if s == "" {
		return zvrvVer{Cls: "missing"}
	}
	if !zvrvVerRE.MatchString(s) {
		return zvrvVer{Cls: "malformed"}
	}
	i := strings.IndexByte(s, '.')
	comp := func(d string) (int, bool) {
		d = strings.TrimLeft(d, "0")
		if len(d) > 5 {
			return 0, false
		}
		if d == "" {
			return 0, true
		}
		n, _ := strconv.Atoi(d)
		return n, n <= 65535
	}
	ma, ok1 := comp(s[:i])
	mi, ok2 := comp(s[i+1:])
	if !ok1 || !ok2 {
		return zvrvVer{Cls: "big"}
	}
	return zvrvVer{Cls: "ab", Maj: ma, Min: mi}
}

func zvrmkAtom(t, s string) zvrvAtom {
	a := zvrvAtom{T: t, H: zvrhx(s), Vc: "malformed", B: "other"}
	if t != "txt" {
		return a
	}
	v := zvrverClass(s)
	a.Vc, a.Vmaj, a.Vmin = v.Cls, v.Maj, v.Min
	if s == "true" || s == "false" {
		a.B = s
	}
	if n, err := strconv.ParseInt(s, 10, 64); err == nil {
		a.Num = strconv.FormatInt(n, 10)
	}
	return a
}

func zvratomize(s string) []zvrvAtom {
	out := make([]zvrvAtom, 0, 8)
	kind := func(r rune) string {
		switch {
		case r == ' ':
			return "sp"
		case r == '=':
			return "eq"
		case r == '@':
			return "at"
		case r != utf8.RuneError && unicode.IsSpace(r):
			return "ws"
		}
		return "txt"
	}
	start, cur := 0, ""
	for i := 0; i < len(s); {
		r, w := utf8.DecodeRuneInString(s[i:])
		k := kind(r)
		if cur != "" && (k != cur || k == "eq" || k == "at") {
			out = append(out, zvrmkAtom(cur, s[start:i]))
			start = i
		}
		if cur == "" {
			start = i
		}
		cur = k
		i += w
	}
	if cur != "" {
		out = append(out, zvrmkAtom(cur, s[start:]))
	}
	return out
}

// mirror of the JSON wire format (independent of message.Attributes)
type zvrmirrorTS struct {
	IsFirefighter bool   `json:"isFirefighter,omitempty"`
	Hosts         string `json:"hosts,omitempty"`
	Time          int64  `json:"time,omitempty"`
}
type zvrmirrorAttrs struct {
	IfVer            int                    `json:"ifVer"`
	Username         string                 `json:"username"`
	Hostname         string                 `json:"hostname"`
	SSHClientVersion string                 `json:"sshClientVersion"`
	CAPubKeyAlgo     int                    `json:"caPubKeyAlgo,omitempty"`
	SignatureAlgo    int                    `json:"signatureAlgo,omitempty"`
	HardKey          bool                   `json:"hardKey"`
	Touch2SSH        bool                   `json:"touch2SSH,omitempty"`
	TouchlessSudo    *zvrmirrorTS           `json:"touchlessSudo,omitempty"`
	Exts             map[string]interface{} `json:"exts,omitempty"`
}

// jsonKind: how a text reads as JSON (object / null / array / number / string / bool / invalid).
func zvrjsonKind(text string) string {
	if !json.Valid([]byte(text)) {
		return "invalid"
	}
	t := strings.TrimLeft(text, " \t\r\n")
	switch t[0] {
	case '{':
		return "object"
	case '[':
		return "array"
	case '"':
		return "string"
	case 't', 'f':
		return "bool"
	case 'n':
		return "null"
	}
	return "number"
}

type zvrvExt struct {
	K string `json:"k"`
	V string `json:"v"`
}

// vAttr is the attribute-set record of the specification.
type zvrvAttr struct {
	IfVer   int       `json:"ifVer"`
	Ver     string    `json:"ver"`
	User    string    `json:"user"`
	Host    string    `json:"host"`
	Ca      string    `json:"ca"`
	Sig     string    `json:"sig"`
	HardKey bool      `json:"hardKey"`
	Touch   bool      `json:"touch"`
	Tsp     bool      `json:"tsp"`
	Ff      bool      `json:"ff"`
	Hosts   string    `json:"hosts"`
	Time    string    `json:"time"`
	Exts    []zvrvExt `json:"exts"`
}

func zvrzeroAttr() zvrvAttr { return zvrvAttr{Ca: "0", Sig: "0", Time: "0", Exts: []zvrvExt{}} }

// canon renders an extension value as canonical typed text; numbers by numeric value.
func zvrcanon(v interface{}) string {
	switch x := v.(type) {
	case nil:
		return "z"
	case bool:
		return "b:" + strconv.FormatBool(x)
	case float64:
		return "n:" + strconv.FormatFloat(x, 'g', -1, 64)
	case int:
		return "n:" + strconv.FormatFloat(float64(x), 'g', -1, 64)
	case int64:
		return "n:" + strconv.FormatFloat(float64(x), 'g', -1, 64)
	case string:
		return "s:" + zvrhx(x)
	case []interface{}:
		p := make([]string, len(x))
		for i, e := range x {
			p[i] = zvrcanon(e)
		}
		return "l:[" + strings.Join(p, ",") + "]"
	case map[string]interface{}:
		ks := make([]string, 0, len(x))
		for k := range x {
			ks = append(ks, k)
		}
		sort.Strings(ks)
		p := make([]string, len(ks))
		for i, k := range ks {
			p[i] = zvrhx(k) + ":" + zvrcanon(x[k])
		}
		return "m:{" + strings.Join(p, ",") + "}"
	}
	return fmt.Sprintf("?%T", v)
}

func zvrcanonExts(m map[string]interface{}) []zvrvExt {
	out := make([]zvrvExt, 0, len(m))
	for k, v := range m {
		out = append(out, zvrvExt{K: zvrhx(k), V: zvrcanon(v)})
	}
	sort.Slice(out, func(i, j int) bool { return out[i].K < out[j].K })
	return out
}

const zvrtlcIntMax = 1 << 30

func zvrfitsTLC(n int) bool { return n > -zvrtlcIntMax && n < zvrtlcIntMax }

func zvrattrOfMessage(a *message.Attributes) zvrvAttr {
	if a == nil {
		return zvrzeroAttr()
	}
	r := zvrvAttr{IfVer: a.IfVer, Ver: zvrhx(a.SSHClientVersion), User: zvrhx(a.Username), Host: zvrhx(a.Hostname),
		Ca: strconv.Itoa(int(a.CAPubKeyAlgo)), Sig: strconv.Itoa(int(a.SignatureAlgo)), HardKey: a.HardKey, Touch: a.Touch2SSH,
		Time: "0", Exts: zvrcanonExts(a.Exts)}
	if a.TouchlessSudo != nil {
		r.Tsp, r.Ff, r.Hosts, r.Time = true, a.TouchlessSudo.IsFirefighter, zvrhx(a.TouchlessSudo.Hosts), strconv.FormatInt(a.TouchlessSudo.Time, 10)
	}
	return r
}

func zvrattrOfMirror(a *zvrmirrorAttrs) zvrvAttr {
	r := zvrvAttr{IfVer: a.IfVer, Ver: zvrhx(a.SSHClientVersion), User: zvrhx(a.Username), Host: zvrhx(a.Hostname),
		Ca: strconv.Itoa(a.CAPubKeyAlgo), Sig: strconv.Itoa(a.SignatureAlgo), HardKey: a.HardKey, Touch: a.Touch2SSH,
		Time: "0", Exts: zvrcanonExts(a.Exts)}
	if a.TouchlessSudo != nil {
		r.Tsp, r.Ff, r.Hosts, r.Time = true, a.TouchlessSudo.IsFirefighter, zvrhx(a.TouchlessSudo.Hosts), strconv.FormatInt(a.TouchlessSudo.Time, 10)
	}
	return r
}

// vCmd is the abstraction of a command text for C14; vCmd15 the one for C15 (full attribute object).
type zvrvCmd struct {
	Jk    string     `json:"jk"`
	Dec   bool       `json:"dec"`
	Jver  zvrvVer    `json:"jver"`
	Juser string     `json:"juser"`
	Jhost string     `json:"jhost"`
	Atoms []zvrvAtom `json:"atoms"`
}
type zvrvCmd15 struct {
	Jk    string     `json:"jk"`
	Dec   bool       `json:"dec"`
	Ja    zvrvAttr   `json:"ja"`
	Atoms []zvrvAtom `json:"atoms"`
}

func zvrlexCmd(text string) (zvrvCmd, zvrvCmd15) {
	c := zvrvCmd{Jk: zvrjsonKind(text), Jver: zvrvVer{Cls: "missing"}, Atoms: zvratomize(text)}
	c15 := zvrvCmd15{Jk: c.Jk, Ja: zvrzeroAttr(), Atoms: c.Atoms}
	if c.Jk == "object" {
		var m zvrmirrorAttrs
		if err := json.Unmarshal([]byte(text), &m); err == nil {
			c.Dec, c15.Dec = true, true
			c.Jver, c.Juser, c.Jhost = zvrverClass(m.SSHClientVersion), zvrhx(m.Username), zvrhx(m.Hostname)
			c15.Ja = zvrattrOfMirror(&m)
		}
	}
	return c, c15
}

// ---------------------------------------------------------------------------------------------
// C14: csr.NewReqParam

type zvrvConn struct {
	First  string `json:"first"`
	Ipc    string `json:"ipc"`
	Strict bool   `json:"strict"`
	// the same under the other reading of "field": delimited by any run of white space
	Firstf  string `json:"firstf"`
	Strictf bool   `json:"strictf"`
}

// ipStrictValid: independent validator of "a textual IPv4 / IPv6 address without zone"
func zvripStrictValid(s string) bool {
	a, err := netip.ParseAddr(s)
	return err == nil && a.Zone() == ""
}

type zvrvArgv struct {
	Toks  []string `json:"toks"`
	Clean bool     `json:"clean"`
	Ftoks []string `json:"ftoks"`
}
type zvrvRes14 struct {
	Ok      bool   `json:"ok"`
	Pan     bool   `json:"pan"`
	Logname string `json:"logname"`
	IP      string `json:"ip"`
	Pol     string `json:"pol"`
	Handler string `json:"handler"`
	Vmaj    int    `json:"vmaj"`
	Vmin    int    `json:"vmin"`
	ReqUser string `json:"requser"`
	ReqHost string `json:"reqhost"`
	Tidc    []int  `json:"tidc"`
}
type zvrvEv14 struct {
	Op   string    `json:"op"`
	Cmd  zvrvCmd   `json:"cmd"`
	Log  string    `json:"log"`
	Conn zvrvConn  `json:"conn"`
	Argv zvrvArgv  `json:"argv"`
	Xok  string    `json:"xok"`
	Res  zvrvRes14 `json:"res"`
}
type zvrvIn14 struct {
	Cmd  string   `json:"cmd"` // hex
	Log  string   `json:"log"`
	Conn string   `json:"conn"`
	Argv []string `json:"argv"`
	Ipc  string   `json:"ipc"`
	Xok  string   `json:"xok"`
	Cls  string   `json:"cls"`
}
type zvrvRec struct {
	Ev   string      `json:"ev"`
	Tid  string      `json:"tid"`
	E    interface{} `json:"e,omitempty"`
	Info interface{} `json:"info,omitempty"`
}

type zvrvRun struct {
	tr       *verifh.Trace
	n        int
	tids     []string
	okIn     []zvrvRec // successful reqparam records (for a small replay file of a batch violation)
	pan      int
	ok14     int
	calls14  int
	classes  map[string]int
	errtexts map[string]int
}

func (r *zvrvRun) emit(prefix string, e, info interface{}) {
	r.n++
	r.tr.Emit(zvrvRec{Ev: "step", Tid: fmt.Sprintf("%s%d", prefix, r.n), E: e, Info: info})
}

func zvrcallReqParam(cmd, logname, conn string, argv []string) (res zvrvRes14, tid string, errtext string) {
	res.Tidc = []int{}
	env := func(k string) string {
		switch k {
		case "SSH_ORIGINAL_COMMAND":
			return cmd
		case "LOGNAME":
			return logname
		case "SSH_CONNECTION":
			return conn
		}
		return ""
	}
	defer func() {
		if x := recover(); x != nil {
			res = zvrvRes14{Pan: true, Tidc: []int{}}
			errtext = fmt.Sprint(x)
		}
	}()
	p, err := NewReqParam(env, func() []string { return argv })
	if err != nil {
		return res, "", "error"
	}
	if p == nil {
		// neither an error nor parameters: recorded as a success with empty fields (the formula rejects it)
		res.Ok = true
		return res, "", "nil,nil"
	}
	res.Ok = true
	res.Logname, res.IP, res.Pol, res.Handler = zvrhx(p.LogName), zvrhx(p.ClientIP), zvrhx(string(p.NamespacePolicy)), zvrhx(p.HandlerName)
	res.ReqUser, res.ReqHost = zvrhx(p.ReqUser), zvrhx(p.ReqHost)
	v := p.SSHClientVersion.Marshal()
	res.Vmaj, res.Vmin = -1, -1
	if i := strings.IndexByte(v, '.'); i > 0 {
		if a, e1 := strconv.Atoi(v[:i]); e1 == nil {
			if b, e2 := strconv.Atoi(v[i+1:]); e2 == nil {
				res.Vmaj, res.Vmin = a, b
			}
		}
	}
	t := p.TransID
	for i := 0; i < len(t) && i < 40; i++ {
		res.Tidc = append(res.Tidc, int(t[i]))
	}
	return res, t, ""
}

// mk14 runs one call and builds its event (no shared state: usable from several goroutines)
func zvrmk14(in zvrvIn14) (ev zvrvEv14, tid, errtext string) {
	cmd, logname, conn := zvrunhx(in.Cmd), zvrunhx(in.Log), zvrunhx(in.Conn)
	argv := make([]string, len(in.Argv))
	toks, ftoks := make([]string, 0, 8), make([]string, 0, 8)
	clean := true
	for i, a := range in.Argv {
		argv[i] = zvrunhx(a)
		for _, t := range strings.Split(argv[i], " ") {
			toks = append(toks, zvrhx(t))
			if t == "" {
				clean = false
			}
		}
		for _, t := range strings.Fields(argv[i]) {
			ftoks = append(ftoks, zvrhx(t))
		}
	}
	var argvIn []string
	if len(argv) > 0 {
		argvIn = argv
	}
	c, _ := zvrlexCmd(cmd)
	first, firstf := strings.SplitN(conn, " ", 2)[0], ""
	if f := strings.Fields(conn); len(f) > 0 {
		firstf = f[0]
	}
	ev = zvrvEv14{Op: "reqparam", Cmd: c, Log: zvrhx(logname),
		Conn: zvrvConn{First: zvrhx(first), Ipc: in.Ipc, Strict: zvripStrictValid(first), Firstf: zvrhx(firstf), Strictf: zvripStrictValid(firstf)},
		Argv: zvrvArgv{Toks: toks, Clean: clean, Ftoks: ftoks}, Xok: in.Xok}
	ev.Res, tid, errtext = zvrcallReqParam(cmd, logname, conn, argvIn)
	return ev, tid, errtext
}

func (r *zvrvRun) add14(in zvrvIn14, ev zvrvEv14, tid, errtext string) {
	r.calls14++
	r.classes[in.Cls+"/"+ev.Cmd.Jk+"/"+strconv.FormatBool(ev.Res.Ok)]++
	if ev.Res.Pan {
		r.pan++
		r.errtexts[errtext]++
	}
	r.n++
	rec := zvrvRec{Ev: "step", Tid: fmt.Sprintf("p%d", r.n), E: ev, Info: in}
	r.tr.Emit(rec)
	if ev.Res.Ok {
		r.ok14++
		r.tids = append(r.tids, tid)
		if len(r.okIn) < 48 {
			r.okIn = append(r.okIn, rec)
		}
	}
}

func (r *zvrvRun) do14(in zvrvIn14) {
	ev, tid, errtext := zvrmk14(in)
	r.add14(in, ev, tid, errtext)
}

// conc14: g goroutines call NewReqParam at the same time, each with its own inputs; every call is an event
func (r *zvrvRun) conc14(rnd *mrand.Rand, g, rounds int) {
	ins := make([][]zvrvIn14, g)
	for i := range ins {
		ins[i] = make([]zvrvIn14, rounds)
		for j := range ins[i] {
			ins[i][j] = zvrrandIn14(rnd)
			ins[i][j].Cls = "conc:" + ins[i][j].Cls[2:]
		}
	}
	type out struct {
		ev      zvrvEv14
		tid, et string
	}
	outs := make([][]out, g)
	start := make(chan struct{})
	var wg sync.WaitGroup
	for i := 0; i < g; i++ {
		outs[i] = make([]out, rounds)
		wg.Add(1)
		go func(i int) {
			defer wg.Done()
			<-start
			for j, in := range ins[i] {
				ev, tid, et := zvrmk14(in)
				outs[i][j] = out{ev, tid, et}
			}
		}(i)
	}
	close(start)
	wg.Wait()
	for i := range outs {
		for j, o := range outs[i] {
			r.add14(ins[i][j], o.ev, o.tid, o.et)
		}
	}
}

type zvrvBatch struct {
	Op     string   `json:"op"`
	N      int      `json:"n"`
	Sorted []string `json:"sorted"`
	Cols   [][]int  `json:"cols"`
}

func (r *zvrvRun) batch() {
	s := make([]string, len(r.tids))
	for i, t := range r.tids {
		s[i] = zvrhx(t)
	}
	sort.Strings(s)
	cols := make([][]int, 10)
	for i := range cols {
		seen := map[int]bool{}
		cols[i] = []int{}
		for _, t := range r.tids {
			if i < len(t) && !seen[int(t[i])] {
				seen[int(t[i])] = true
				cols[i] = append(cols[i], int(t[i]))
			}
		}
		sort.Ints(cols[i])
	}
	first := make([]interface{}, 0, len(r.okIn))
	for _, x := range r.okIn {
		first = append(first, x.Info)
	}
	r.emit("b", zvrvBatch{Op: "tidbatch", N: len(r.tids), Sorted: s, Cols: cols}, map[string]interface{}{"calls": first})
}

// --- long histories in one process (N-th call effects: buffers that run dry, pools that start recycling, counters
// that wrap).  The calls use one fixed well-formed input; a full event is recorded for the first call and for every
// call whose result (transaction id aside) differs from all results seen before - identical events need not be judged
// twice.  The transaction ids of ALL calls are aggregated into one "tidlong" event (see C14_Long in ReqParam.tla).

type zvrvLong struct {
	Op        string `json:"op"`
	N         int    `json:"n"`         // successful calls = transaction ids aggregated
	Fails     int    `json:"fails"`     // calls that failed or panicked
	Badfmt    int    `json:"badfmt"`    // ids that are not 10 characters of [0-9a-f]
	Dups      int    `json:"dups"`      // pairs of calls that got the same id
	Zeroheavy int    `json:"zeroheavy"` // ids with at least 4 of their 5 bytes zero
	Minwin    []int  `json:"minwin"`    // per byte position: fewest distinct values in an aligned window of 64 consecutive ids
}

func zvrparseTid(t string) (uint64, bool) {
	if len(t) != 10 {
		return 0, false
	}
	var v uint64
	for i := 0; i < 10; i++ {
		c := t[i]
		switch {
		case c >= '0' && c <= '9':
			v = v<<4 | uint64(c-'0')
		case c >= 'a' && c <= 'f':
			v = v<<4 | uint64(c-'a'+10)
		default:
			return 0, false
		}
	}
	return v, true
}

func (r *zvrvRun) long14(n int) {
	in := zvrvIn14{Cmd: zvrhx("IFVer=6 SSHClientVersion=8.1 req=alice@host1 HardKey=true"), Log: zvrhx("alice"), Conn: zvrhx("192.0.2.7 50000 10.0.0.1 22"),
		Argv: []string{zvrhx("gensign"), zvrhx("-c"), zvrhx("/usr/bin/gensign NSOK handler")}, Ipc: "v4", Xok: "t", Cls: "long"}
	tmpl, _, _ := zvrmk14(in) // lexes the fixed input once (this call is not counted)
	cmd, logname, conn := zvrunhx(in.Cmd), zvrunhx(in.Log), zvrunhx(in.Conn)
	argv := []string{"gensign", "-c", "/usr/bin/gensign NSOK handler"}
	seen := map[string]bool{}
	ids := make([]uint64, 0, n)
	ev := zvrvLong{Op: "tidlong", Minwin: []int{256, 256, 256, 256, 256}}
	info := map[string]interface{}{"n": n}
	for i := 0; i < n; i++ {
		res, tid, et := zvrcallReqParam(cmd, logname, conn, argv)
		k := fmt.Sprintf("%v|%v|%s|%s|%s|%s|%d|%d|%s|%s|%d", res.Ok, res.Pan, res.Logname, res.IP, res.Pol, res.Handler, res.Vmaj, res.Vmin, res.ReqUser, res.ReqHost, len(res.Tidc))
		if !seen[k] && len(seen) < 200 {
			seen[k] = true
			e := tmpl
			e.Res = res
			in.Cls = fmt.Sprintf("long@%d", i)
			r.add14(in, e, tid, et)
		}
		if !res.Ok || res.Pan {
			ev.Fails++
			continue
		}
		v, ok := zvrparseTid(tid)
		if !ok {
			if ev.Badfmt == 0 {
				info["badfmt_at"], info["badfmt_id"] = i, zvrhx(tid)
			}
			ev.Badfmt++
			continue
		}
		z := 0
		for b := 0; b < 5; b++ {
			if (v>>(8*uint(b)))&0xff == 0 {
				z++
			}
		}
		if z >= 4 {
			if ev.Zeroheavy == 0 {
				info["zeroheavy_at"], info["zeroheavy_id"] = i, tid
			}
			ev.Zeroheavy++
		}
		ids = append(ids, v)
	}
	ev.N = len(ids)
	for w := 0; w+64 <= len(ids); w += 64 {
		for b := 0; b < 5; b++ {
			var have [256]bool
			d := 0
			for _, v := range ids[w : w+64] {
				x := (v >> (8 * uint(4-b))) & 0xff
				if !have[x] {
					have[x] = true
					d++
				}
			}
			if d < ev.Minwin[b] {
				ev.Minwin[b] = d
			}
		}
	}
	type iv struct {
		v uint64
		i int
	}
	srt := make([]iv, len(ids))
	for i, v := range ids {
		srt[i] = iv{v, i}
	}
	sort.Slice(srt, func(a, b int) bool { return srt[a].v < srt[b].v || (srt[a].v == srt[b].v && srt[a].i < srt[b].i) })
	for i := 0; i < len(srt); {
		j := i
		for j < len(srt) && srt[j].v == srt[i].v {
			j++
		}
		c := j - i
		if c > 1 {
			if ev.Dups == 0 {
				info["dup_id"], info["dup_first_index"], info["dup_repeat_index"] = fmt.Sprintf("%010x", srt[i].v), srt[i].i, srt[i+1].i
			}
			if ev.Dups < 1<<29 {
				ev.Dups += c * (c - 1) / 2
			}
		}
		i = j
	}
	r.classes[fmt.Sprintf("long14/%d", n)] = ev.N
	r.emit("L", ev, info)
}

// longRt: a long sequential history of round trips over a fixed pool of attribute sets.  An event is recorded for
// every distinct (set, encoded text, decoded results) combination; identical events are counted, not repeated.
func (r *zvrvRun) longRt(rnd *mrand.Rand, n int) {
	pool := make([]*message.Attributes, 0, 64)
	for len(pool) < 64 {
		a := zvrrandSet(rnd)
		if zvrfitsTLC(a.IfVer) {
			pool = append(pool, a)
		}
	}
	seen := map[string]bool{}
	for i := 0; i < n; i++ {
		k := rnd.Intn(len(pool))
		ev, info, text, got := zvrmkRt(pool[k], "na", "long")
		for _, g := range got {
			zvrtamper(g)
		}
		b, _ := json.Marshal(ev)
		key := fmt.Sprintf("%d|%s|%s", k, text, b)
		if !seen[key] && len(seen) < 5000 {
			seen[key] = true
			r.addRt(ev, info)
		}
	}
	r.classes[fmt.Sprintf("longrt/%d", n)] = len(seen)
}

// --- concretisation of the exported C14 classes

type zvrvCase14 struct {
	Cmd  string `json:"cmd"`
	Ver  string `json:"ver"`
	Log  string `json:"log"`
	Conn string `json:"conn"`
	Ntok int    `json:"ntok"`
	Pol  string `json:"pol"`
	Hnd  string `json:"hnd"`
	User string `json:"user"`
	Host string `json:"host"`
}

var (
	zvrpoolNames   = []string{"alice", "bob_7", "svc-acct", "x", "J.Doe", "user=1", "zoë", "用户", "a.b-c_d", "root", "ADMIN", "u+tag", "o'neil", "q\"uote", "back\\slash"}
	zvrpoolHosts   = []string{"host1", "laptop.example.com", "h", "10.1.2.3", "my-mac.local", "ホスト", "H=1", "x.y.z", "[::1]", "h\"q"}
	zvrpoolBadVer  = []string{"x", "8", "8.", ".5", "a.b", "-1.2", "1.-2", "8,0", "v8.0", "8.0p1x", "..", "8 .0"}
	zvrpoolBigVer  = []string{"65536.0", "1.65536", "70000.1", "99999999999999999999.1", "3.4294967296", "100000.100000"}
	zvrpoolV6      = []string{"2001:db8::7", "::1", "fe80::1", "::ffff:192.0.2.1", "2001:0db8:0000:0000:0000:0000:0000:0001", "::", "2001:DB8::A"}
	zvrpoolNotIP   = []string{"gateway.example", "1.2.3", "1.2.3.4.5", "300.1.1.1", "::g", "1.2.3.4:22", "localhost", "1.2.3.", "-1.2.3.4", "12345", "2001:db8:::1", "UNKNOWN"}
	zvrpoolV6Zone  = []string{"fe80::1%eth0", "fe80::1%en0", "fe80::abcd%1", "::1%lo", "fe80::1%eth0.100"}
	zvrpoolZoneBad = []string{"fe80::1%,Principals=root", "fe80::1%\"quoted\"", "fe80::1%a=b,c", "fe80::1%%", "fe80::1%\x00", "fe80::1%", "fe80::1%'$(id)'", "::1%\n", "fe80::1%é",
		"fe80::1%" + strings.Repeat("A", 3000), "2001:db8::7%,critical-options=x"}
	zvrpoolV4Zone  = []string{"1.2.3.4%x", "10.0.0.1%eth0", "1.2.3.4%", "::ffff:1.2.3.4%eth0"}
	zvrpoolIPJunk  = []string{"x1.2.3.4", "1.2.3.4x", "1.2.3.4,", "::1;", "1.2.3.4\t", "\t1.2.3.4", "1.2.3.4/32", "::1/128", "1.2.3.4\x00", "1.2.3.4,5.6.7.8", "0x1.2.3.4", "1.2.3.4.", "::1::"}
	zvrpoolBracket = []string{"[::1]", "[2001:db8::1]", "[1.2.3.4]", "[::1"}
	zvrpoolPort    = []string{"1.2.3.4:22", "[::1]:22", "1.2.3.4:", ":22"}
	zvrpoolMapped  = []string{"::ffff:1.2.3.4", "::ffff:192.0.2.1", "::ffff:c000:201", "0:0:0:0:0:ffff:10.0.0.1"}
	zvrpoolFill    = []string{"gensign", "-c", "/usr/bin/gensign", "--flag", "a", "b", "c", "d", "e", "NSOK", "NONS", "x=y", "ü"}
	zvrpoolBadPol  = []string{"XXXX", "nsok", "NONSX", "NS0K", "-", "NSOK,NONS", "nons"}
	zvrpoolHandler = []string{"handler", "Regular", "smartcard", "h-1", "x", "NONS1", "ü"}
)

func zvrpick(r *mrand.Rand, p []string) string { return p[r.Intn(len(p))] }

func zvrrandV4(r *mrand.Rand) string {
	return fmt.Sprintf("%d.%d.%d.%d", r.Intn(256), r.Intn(256), r.Intn(256), r.Intn(256))
}

func zvrrandVerAB(r *mrand.Rand) string {
	c := func() string {
		switch r.Intn(6) {
		case 0:
			return "65535"
		case 1:
			return "0"
		case 2:
			return fmt.Sprintf("0%d", r.Intn(100))
		}
		return strconv.Itoa(r.Intn(r.Intn(65536) + 1))
	}
	return c() + "." + c()
}

func zvrconcreteVer(r *mrand.Rand, cls string) string {
	switch cls {
	case "ab":
		return zvrrandVerAB(r)
	case "malformed":
		return zvrpick(r, zvrpoolBadVer)
	case "big":
		return zvrpick(r, zvrpoolBigVer)
	}
	return ""
}

// legacyClean strips what the legacy format cannot carry (white space, '@')
func zvrlegacyClean(s string) string {
	var b strings.Builder
	for _, c := range s {
		if !unicode.IsSpace(c) && c != '@' {
			b.WriteRune(c)
		}
	}
	if b.Len() == 0 {
		return "v"
	}
	return b.String()
}

func zvrspaces(r *mrand.Rand) string { return strings.Repeat(" ", 1+r.Intn(3)/2) }

func zvrmustJSON(v interface{}) string {
	b, err := json.Marshal(v)
	if err != nil {
		panic(err)
	}
	return string(b)
}

func zvrconcrete14(r *mrand.Rand, c zvrvCase14, xok string) zvrvIn14 {
	logname := zvrpick(r, zvrpoolNames)
	user := logname
	if c.User != "alice" {
		for user == logname {
			user = zvrpick(r, zvrpoolNames)
		}
	}
	host := zvrpick(r, zvrpoolHosts)
	if c.Host != "host1" {
		host = "other-" + host
	}
	ver := zvrconcreteVer(r, c.Ver)
	var cmd string
	jobj := func(dropKey string, extra bool) string {
		m := map[string]interface{}{"ifVer": 7, "username": user, "hostname": host, "sshClientVersion": ver, "hardKey": r.Intn(2) == 0}
		if ver == "" {
			delete(m, "sshClientVersion")
		}
		if dropKey != "" {
			if r.Intn(2) == 0 {
				delete(m, dropKey)
			} else {
				m[dropKey] = ""
			}
		}
		if extra || r.Intn(3) == 0 {
			m["exts"] = map[string]interface{}{"k": "v w", "n": 1.5}
			m["unknownKey"] = []interface{}{1, "req=" + logname + "@evil"}
		}
		return zvrmustJSON(m)
	}
	luser, lhost := zvrlegacyClean(user), zvrlegacyClean(host)
	leg := func(req string) string {
		parts := []string{"IFVer=6"}
		if ver != "" {
			parts = append(parts, "SSHClientVersion="+ver)
		}
		if req != "" {
			parts = append(parts, req)
		}
		if r.Intn(2) == 0 {
			parts = append(parts, "HardKey=true")
		}
		if r.Intn(4) == 0 {
			parts = append(parts, "TouchlessSudoTime=30", "flag")
		}
		if ver != "" && req != "" && r.Intn(3) == 0 { // order is free
			parts[1], parts[2] = parts[2], parts[1]
		}
		s := parts[0]
		for _, p := range parts[1:] {
			s += zvrspaces(r) + p
		}
		if r.Intn(5) == 0 {
			s = " " + s + " "
		}
		return s
	}
	switch c.Cmd {
	case "json_ok", "json_nover":
		cmd = jobj("", false)
	case "json_nouser":
		cmd = jobj("username", false)
	case "json_nohost":
		cmd = jobj("hostname", false)
	case "json_null":
		cmd = zvrpick(r, []string{"null", " null", "null ", "\tnull\n"})
	case "json_array":
		cmd = zvrpick(r, []string{"[]", "[1,2]", `[{"username":"a"}]`, `["req=a@b"]`})
	case "json_number":
		cmd = zvrpick(r, []string{"7", "-1.5e3", "0", "1e400"})
	case "json_string":
		cmd = zvrpick(r, []string{`"x"`, `""`, `"req=a@b"`, `"null"`})
	case "json_bool":
		cmd = zvrpick(r, []string{"true", "false"})
	case "json_strleg":
		cmd = `"x` + zvrspaces(r) + "req=" + luser + "@" + lhost + zvrspaces(r) + `y"`
		user, host = luser, lhost
	case "json_badtype":
		cmd = zvrpick(r, []string{
			zvrmustJSON(map[string]interface{}{"ifVer": 7, "username": 5, "hostname": host, "sshClientVersion": "8.1"}),
			zvrmustJSON(map[string]interface{}{"ifVer": "7", "username": user, "hostname": host, "sshClientVersion": "8.1"}),
			zvrmustJSON(map[string]interface{}{"ifVer": 7, "username": user, "hostname": host, "sshClientVersion": "8.1", "exts": []int{1}}),
			zvrmustJSON(map[string]interface{}{"ifVer": 1e30, "username": user, "hostname": host, "sshClientVersion": "8.1"})})
	case "leg_ver", "leg_nover":
		cmd = leg("req=" + luser + "@" + lhost)
	case "leg_noreq":
		cmd = leg(zvrpick(r, []string{"", "Req=" + luser + "@" + lhost, "requester=" + luser + "@" + lhost}))
	case "leg_req0at":
		cmd = leg(zvrpick(r, []string{"req=" + luser, "req", "req="}))
	case "leg_req2at":
		cmd = leg(zvrpick(r, []string{"req=" + luser + "@" + lhost + "@x", "req=@@", "req=" + luser + "@@" + lhost}))
	case "empty":
		cmd = zvrpick(r, []string{"", "", " ", "   "})
	default:
		cmd = zvrpick(r, []string{"\xff{\x00", "{", "}{", "{\"username\":", "\x00", "=@=", "@", "=", "nul", "NULL", "{'username':'a'}", "\xc3\x28 \xa0\xa1", "req", "IFVer=7"})
	}
	var conn, ipc string
	rest := fmt.Sprintf(" %d %s %d", 1024+r.Intn(60000), zvrrandV4(r), 22)
	if r.Intn(6) == 0 {
		rest = ""
	}
	switch c.Conn {
	case "v4":
		conn, ipc = zvrrandV4(r)+rest, "v4"
	case "v6":
		conn, ipc = zvrpick(r, zvrpoolV6)+rest, "v6"
	case "notip":
		conn, ipc = zvrpick(r, zvrpoolNotIP)+rest, "notip"
	case "empty":
		conn, ipc = "", "notip"
	case "v4v4":
		conn, ipc = zvrrandV4(r)+" "+zvrrandV4(r)+" 22", "v4"
	case "v6zone":
		conn, ipc = zvrpick(r, zvrpoolV6Zone)+rest, "notip"
	case "v6zonejunk":
		conn, ipc = zvrpick(r, zvrpoolZoneBad)+rest, "notip"
	case "v4zone":
		conn, ipc = zvrpick(r, zvrpoolV4Zone)+rest, "notip"
	case "ipjunk":
		conn, ipc = zvrpick(r, zvrpoolIPJunk)+rest, "notip"
	case "bracket":
		conn, ipc = zvrpick(r, zvrpoolBracket)+rest, "notip"
	case "withport":
		conn, ipc = zvrpick(r, zvrpoolPort)+rest, "notip"
	case "mapped":
		conn, ipc = zvrpick(r, zvrpoolMapped)+rest, "v6"
	default:
		conn, ipc = zvrpick(r, zvrpoolNotIP)+" "+zvrrandV4(r)+" 22", "notip"
	}
	toks := make([]string, c.Ntok)
	for i := range toks {
		switch {
		case i == c.Ntok-1:
			toks[i] = zvrpick(r, zvrpoolHandler)
			if c.Hnd == "NSOK" {
				toks[i] = "NSOK"
			}
		case i == c.Ntok-2:
			toks[i] = c.Pol
			if c.Pol == "other" {
				toks[i] = zvrpick(r, zvrpoolBadPol)
			}
		default:
			toks[i] = zvrpick(r, zvrpoolFill)
		}
	}
	in := zvrvIn14{Cmd: zvrhx(cmd), Conn: zvrhx(conn), Ipc: ipc, Xok: xok, Cls: c.Cmd, Argv: zvrgroupArgs(r, toks)}
	if c.Log == "set" {
		in.Log = zvrhx(logname)
	}
	return in
}

// groupArgs spreads tokens over at most 8 arguments (tokens of one argument joined by single spaces)
func zvrgroupArgs(r *mrand.Rand, toks []string) []string {
	args := []string{}
	for i := 0; i < len(toks); {
		n := 1 + r.Intn(3)
		left := 8 - len(args) - 1 // arguments still available after this one
		if left == 0 || i+n > len(toks) {
			n = len(toks) - i
		}
		args = append(args, zvrhx(strings.Join(toks[i:i+n], " ")))
		i += n
	}
	return args
}

// --- direction B for C14: free inputs

func zvrrandBytes(r *mrand.Rand, n int) string {
	b := make([]byte, n)
	for i := range b {
		b[i] = byte(r.Intn(256))
	}
	return string(b)
}

var zvrhostileStrings = []string{"", " ", "\x00", "a\x00b", "\xff\xfe", "null", "true", "{}", "[]", "\"", "\\", "a b", "a=b", "a@b", "@", "=",
	" ", " x", "x\u0085", "\t", "\n", "é", "日本語", "😀", "<script>&", "%s%d", "../..", "-c", "NSOK", "NONS", "0.0", "65535.65535"}

func zvrrandText(r *mrand.Rand) string {
	switch r.Intn(8) {
	case 0:
		return zvrpick(r, zvrhostileStrings)
	case 1:
		return zvrrandBytes(r, r.Intn(12))
	case 2:
		if r.Intn(2) == 0 {
			return strings.Repeat(zvrpick(r, []string{"x=", "@", "= "}), 1+r.Intn(12))
		}
		return strings.Repeat(zvrpick(r, []string{"a", "é", "\x00"}), 1+r.Intn(20000))
	case 3:
		return zvrpick(r, zvrpoolNames) + zvrpick(r, zvrhostileStrings)
	}
	return zvrpick(r, zvrpoolNames)
}

func zvrrandJSONValue(r *mrand.Rand, depth int) interface{} {
	switch r.Intn(9) {
	case 0:
		return nil
	case 1:
		return r.Intn(2) == 0
	case 2:
		return float64(r.Intn(2000001) - 1000000)
	case 3:
		return r.NormFloat64() * 1e6
	case 4:
		return float64(int64(1)<<52 + int64(r.Intn(1000)))
	case 5:
		if depth > 0 {
			n := r.Intn(4)
			l := make([]interface{}, n)
			for i := range l {
				l[i] = zvrrandJSONValue(r, depth-1)
			}
			return l
		}
	case 6:
		if depth > 0 {
			n := r.Intn(4)
			m := map[string]interface{}{}
			for i := 0; i < n; i++ {
				m[zvrrandUTF8(r, 6)] = zvrrandJSONValue(r, depth-1)
			}
			return m
		}
	}
	return zvrrandUTF8(r, 12)
}

// randUTF8 returns a valid UTF-8 string (possibly empty) with JSON metacharacters, spaces and non-ASCII
func zvrrandUTF8(r *mrand.Rand, max int) string {
	alphabet := []rune("abcXYZ019 _-.,:;/\\\"'{}[]=@<>&\t\néß中文\U0001F600  \u0000\u007f")
	n := r.Intn(max + 1)
	b := make([]rune, n)
	for i := range b {
		b[i] = alphabet[r.Intn(len(alphabet))]
	}
	return string(b)
}

// randCleanUTF8: non-empty, free of white space and '@' (what the legacy format is claimed for)
func zvrrandCleanUTF8(r *mrand.Rand, max int) string {
	s := zvrlegacyClean(strings.Map(func(c rune) rune {
		if c == 0 {
			return 'z'
		}
		return c
	}, zvrrandUTF8(r, max)))
	return s
}

// rawJSONObject renders key/value pairs in the given order (duplicates and case variants possible)
func zvrrawJSONObject(kv [][2]string) string {
	p := make([]string, len(kv))
	for i, x := range kv {
		p[i] = zvrmustJSON(x[0]) + ":" + x[1]
	}
	return "{" + strings.Join(p, ",") + "}"
}

func zvrrandCmdB(r *mrand.Rand) (string, string) {
	user, host, ver := zvrrandText(r), zvrpick(r, zvrpoolHosts), zvrrandVerAB(r)
	if r.Intn(4) == 0 {
		ver = zvrpick(r, append(append([]string{""}, zvrpoolBadVer...), zvrpoolBigVer...))
	}
	switch r.Intn(10) {
	case 0, 1: // JSON object with extra / unknown / duplicate / case-variant keys
		kv := [][2]string{{"ifVer", strconv.Itoa(r.Intn(12))}, {"username", zvrmustJSON(user)}, {"hostname", zvrmustJSON(host)}, {"sshClientVersion", zvrmustJSON(ver)}}
		for i := r.Intn(4); i > 0; i-- {
			switch r.Intn(7) {
			case 0:
				kv = append(kv, [2]string{"username", zvrmustJSON(zvrpick(r, zvrpoolNames))})
			case 1:
				kv = append(kv, [2]string{zvrpick(r, []string{"USERNAME", "UserName", "HostName", "SSHCLIENTVERSION", "Username"}), zvrmustJSON(zvrpick(r, zvrpoolNames))})
			case 2:
				kv = append(kv, [2]string{"exts", zvrmustJSON(zvrrandJSONValue(r, 3))})
			case 3:
				kv = append(kv, [2]string{zvrpick(r, []string{"zzz", "", "req", "LOGNAME", "logName"}), zvrmustJSON(zvrrandJSONValue(r, 2))})
			case 4:
				kv = append(kv, [2]string{"big", zvrpick(r, []string{"1e400", "123456789012345678901234567890", "-0", "1E-400"})})
			case 5:
				kv = append(kv, [2]string{"touchlessSudo", zvrpick(r, []string{"null", "{}", `{"time":9223372036854775807}`, `{"time":9223372036854775808}`, `{"hosts":"a,b","isFirefighter":true}`, "[]", "7"})})
			case 6:
				kv = append(kv, [2]string{"deep", strings.Repeat("[", 1+r.Intn(300)) + strings.Repeat("]", 1+r.Intn(300))})
			}
		}
		r.Shuffle(len(kv), func(i, j int) { kv[i], kv[j] = kv[j], kv[i] })
		return zvrrawJSONObject(kv), "B:jsonobj"
	case 2: // JSON object whose values are of other types
		kv := [][2]string{{"username", zvrpick(r, []string{"5", "null", "[]", "{}", "true", zvrmustJSON(user)})}, {"hostname", zvrpick(r, []string{"null", zvrmustJSON(host), "1"})},
			{"sshClientVersion", zvrpick(r, []string{zvrmustJSON(ver), "8.1", "null"})}, {"ifVer", zvrpick(r, []string{"7", "\"7\"", "7.5", "1e3", "null", "99999999999999999999"})}}
		return zvrrawJSONObject(kv), "B:jsontypes"
	case 3: // other JSON values
		return zvrpick(r, []string{"null", " null ", "[]", "[null]", "0", "-1", "\"\"", "true", "false", "{}", " {} ", "[{}]", "\"a b req=u@h c\"",
			strings.Repeat("[", 10001) + strings.Repeat("]", 10001), "{\"a\":" + strings.Repeat("[", 5000) + strings.Repeat("]", 5000) + "}"}), "B:jsonother"
	case 4, 5: // legacy text with free tokens
		keys := []string{"req", "req", "SSHClientVersion", "IFVer", "HardKey", "Touch2SSH", "IsFirefighter", "TouchlessSudoHosts", "TouchlessSudoTime", "x", "REQ", "", "req "}
		n := r.Intn(6)
		s := ""
		for i := 0; i < n; i++ {
			k := zvrpick(r, keys)
			var v string
			switch r.Intn(6) {
			case 0:
				v = ""
			case 1:
				v = "=" + zvrlegacyClean(user) + "@" + zvrlegacyClean(host)
			case 2:
				v = "=" + ver
			case 3:
				v = "=" + zvrpick(r, []string{"true", "false", "1", "a@b@c", "@", "a=b@c", "x", "", " ", "a\tb@c", "\xff@\xfe"})
			case 4:
				v = "=" + zvrpick(r, zvrhostileStrings)
			case 5:
				v = "=" + zvrrandCleanUTF8(r, 8) + "@" + zvrrandCleanUTF8(r, 8)
			}
			s += strings.Repeat(" ", r.Intn(3)) + zvrpick(r, []string{"", "", "", "\t", "\n"}) + k + v + zvrpick(r, []string{"", "", "", "\r", "\u0085"}) + " "
		}
		return s, "B:legacy"
	case 6:
		return zvrrandBytes(r, r.Intn(40)), "B:bytes"
	case 7: // a valid message damaged at one byte
		s := zvrmustJSON(map[string]interface{}{"ifVer": 7, "username": "u", "hostname": "h", "sshClientVersion": "8.1"})
		b := []byte(s)
		b[r.Intn(len(b))] = byte(r.Intn(256))
		return string(b), "B:damaged"
	case 8:
		return "IFVer=6 SSHClientVersion=" + ver + " req=" + zvrlegacyClean(user) + "@" + zvrlegacyClean(host) + " HardKey=true", "B:legacyvalid"
	}
	return zvrmustJSON(map[string]interface{}{"ifVer": 7, "username": user, "hostname": host, "sshClientVersion": ver, "exts": zvrrandJSONValue(r, 3)}), "B:jsonvalid"
}

func zvrrandIn14(r *mrand.Rand) zvrvIn14 {
	cmd, cls := zvrrandCmdB(r)
	in := zvrvIn14{Cmd: zvrhx(cmd), Xok: "na", Cls: cls, Ipc: "unknown"}
	good := r.Intn(2) == 0 // every other call has well-formed server-side inputs, so that the command text decides
	lsel, csel := r.Intn(6), r.Intn(11)
	if good {
		lsel, csel = 2+r.Intn(4), []int{0, 5, 6, 7, 8, 10}[r.Intn(6)]
	}
	switch lsel {
	case 0:
		in.Log = zvrhx("")
	case 1:
		in.Log = zvrhx(zvrrandText(r))
	default:
		in.Log = zvrhx(zvrpick(r, zvrpoolNames))
	}
	rest := zvrpick(r, []string{"", " 22", " 50000 10.0.0.1 22", " " + zvrrandV4(r) + " 1", "  x", " \x00"})
	if good {
		rest = zvrpick(r, []string{"", " 22", " 50000 10.0.0.1 22"})
	}
	switch csel {
	case 0:
		in.Conn, in.Ipc = zvrhx(zvrpick(r, zvrpoolV6)+rest), "v6"
	case 1:
		in.Conn, in.Ipc = zvrhx(zvrpick(r, zvrpoolNotIP)+rest), "notip"
	case 2:
		in.Conn, in.Ipc = zvrhx(""), "notip"
	case 3: // free bytes (the class of the first field is not known to the driver)
		in.Conn = zvrhx(zvrrandBytes(r, r.Intn(20)))
	case 4:
		in.Conn = zvrhx(zvrpick(r, zvrhostileStrings) + rest)
	case 8: // an address with a zone / junk behind '%' (never a valid client IP)
		in.Conn, in.Ipc = zvrhx(zvrpick(r, append(append([]string{}, zvrpoolV6Zone...), zvrpoolZoneBad...))+rest), "notip"
	case 9: // an address inside other text; the class is left to the validator
		in.Conn = zvrhx(zvrpick(r, append(append(append(append([]string{}, zvrpoolV4Zone...), zvrpoolIPJunk...), zvrpoolBracket...), zvrpoolPort...)) + rest)
	case 10: // a valid address with something glued on, built freely
		in.Conn = zvrhx(zvrpick(r, append(append([]string{zvrrandV4(r)}, zvrpoolV6...), zvrpoolMapped...)) + zvrpick(r, []string{"", "", "%", "%" + zvrrandCleanUTF8(r, 10), ",", "=", "\"", "%25", "%eth0"}) + rest)
	default:
		in.Conn, in.Ipc = zvrhx(zvrrandV4(r)+rest), "v4"
	}
	nargs := r.Intn(9)
	in.Argv = make([]string, nargs)
	valid := good || r.Intn(3) > 0
	if good && nargs == 0 {
		nargs = 2
		in.Argv = make([]string, nargs)
	}
	for i := range in.Argv {
		w := make([]string, 1+r.Intn(3))
		for j := range w {
			w[j] = zvrpick(r, zvrpoolFill)
			if r.Intn(12) == 0 {
				w[j] = zvrpick(r, zvrhostileStrings)
			}
		}
		in.Argv[i] = strings.Join(w, " ")
	}
	if valid && nargs > 0 {
		// a well-formed force command in the tail, possibly inside one argument
		tail := zvrpick(r, []string{"NSOK", "NONS"}) + " " + zvrpick(r, zvrpoolHandler)
		sel := r.Intn(3)
		if good {
			sel = r.Intn(2)
		}
		switch sel {
		case 0:
			in.Argv = []string{"gensign", "-c", "/usr/bin/gensign " + tail}[:3]
		case 1:
			in.Argv = []string{"gensign", tail}
		default:
			in.Argv[nargs-1] = tail
		}
	}
	for i := range in.Argv {
		in.Argv[i] = zvrhx(in.Argv[i])
	}
	return in
}

// ---------------------------------------------------------------------------------------------
// C15: message.Marshal / Unmarshal / UnmarshalLegacy

type zvrvD15 struct {
	Ok  bool     `json:"ok"`
	Pan bool     `json:"pan"`
	B   zvrvAttr `json:"b"`
}
type zvrvEnc struct {
	Ok  bool `json:"ok"`
	Pan bool `json:"pan"`
}
type zvrvEvRt struct {
	Op    string     `json:"op"`
	A     zvrvAttr   `json:"a"`
	Clean bool       `json:"clean"`
	Enc   zvrvEnc    `json:"enc"`
	Wire  []zvrvAtom `json:"wire"`
	Dec   zvrvD15    `json:"dec"`
	Dec2  zvrvD15    `json:"dec2"`
	Xok   string     `json:"xok"`
	Mode  string     `json:"mode"` // seq / hist / conc
	Same  bool       `json:"same"` // hist: the same set encoded again later gave the same text
}
type zvrvEvLeg struct {
	Op    string     `json:"op"`
	Atoms []zvrvAtom `json:"atoms"`
	Res   zvrvD15    `json:"res"`
	Xok   string     `json:"xok"`
}
type zvrvEvDec struct {
	Op  string    `json:"op"`
	Cmd zvrvCmd15 `json:"cmd"`
	Res zvrvD15   `json:"res"`
	Xok string    `json:"xok"`
}

func zvrdecodeWith(f func(string) (*message.Attributes, error), text string) (d zvrvD15) {
	d.B = zvrzeroAttr()
	defer func() {
		if x := recover(); x != nil {
			d = zvrvD15{Pan: true, B: zvrzeroAttr()}
		}
	}()
	a, err := f(text)
	if err != nil {
		return d
	}
	d.Ok = true // a nil result without error is recorded as a success with the zero set (the formulas reject it where they apply)
	d.B = zvrattrOfMessage(a)
	return d
}

func zvrencode(a *message.Attributes) (text string, e zvrvEnc) {
	defer func() {
		if x := recover(); x != nil {
			e = zvrvEnc{Pan: true}
		}
	}()
	s, err := a.Marshal()
	return s, zvrvEnc{Ok: err == nil}
}

func zvrattrsClean(a *message.Attributes) bool {
	ok := func(s string) bool {
		if !utf8.ValidString(s) {
			return false
		}
		if a.IfVer >= 7 {
			return true
		}
		for _, c := range s {
			if unicode.IsSpace(c) || c == '@' {
				return false
			}
		}
		return true
	}
	h := ""
	if a.TouchlessSudo != nil {
		h = a.TouchlessSudo.Hosts
	}
	return ok(a.SSHClientVersion) && ok(a.Username) && ok(a.Hostname) && ok(h)
}

type zvrvInRt struct {
	Attrs json.RawMessage `json:"attrs"` // the attribute set as JSON of message.Attributes (replay input)
	Xok   string          `json:"xok"`
	Mode  string          `json:"mode"`
}

// mkRt encodes and decodes one attribute set and builds the event (no shared state).  The decoded objects are
// returned so that the caller can tamper with them (aliasing check).
func zvrmkRt(a *message.Attributes, xok, mode string) (ev zvrvEvRt, info zvrvInRt, text string, got []*message.Attributes) {
	raw, _ := json.Marshal(a)
	ev = zvrvEvRt{Op: "rt", A: zvrattrOfMessage(a), Clean: zvrattrsClean(a), Wire: []zvrvAtom{}, Dec: zvrvD15{B: zvrzeroAttr()}, Dec2: zvrvD15{B: zvrzeroAttr()}, Xok: xok, Mode: mode, Same: true}
	text, ev.Enc = zvrencode(a)
	if ev.Enc.Ok {
		var g1, g2 *message.Attributes
		keep := func(f func(string) (*message.Attributes, error), dst **message.Attributes) func(string) (*message.Attributes, error) {
			return func(t string) (*message.Attributes, error) {
				x, err := f(t)
				*dst = x
				return x, err
			}
		}
		ev.Dec = zvrdecodeWith(keep(message.Unmarshal, &g1), text)
		ev.Dec2 = ev.Dec
		if a.IfVer < 7 {
			ev.Wire = zvratomize(text)
			ev.Dec2 = zvrdecodeWith(keep(message.UnmarshalLegacy, &g2), text)
		}
		got = []*message.Attributes{g1, g2}
	}
	return ev, zvrvInRt{Attrs: raw, Xok: xok, Mode: mode}, text, got
}

func (r *zvrvRun) addRt(ev zvrvEvRt, info zvrvInRt) {
	if ev.Enc.Pan || ev.Dec.Pan || ev.Dec2.Pan {
		r.pan++
	}
	key := "rt/legacy"
	if ev.A.IfVer >= 7 {
		key = "rt/json"
	}
	r.classes[key+"/"+ev.Mode+"/"+strconv.FormatBool(ev.Enc.Ok)+"/"+strconv.FormatBool(ev.Dec.Ok)]++
	r.emit("r", ev, info)
}

func (r *zvrvRun) doRt(a *message.Attributes, xok string) {
	if !zvrfitsTLC(a.IfVer) {
		return
	}
	ev, info, _, _ := zvrmkRt(a, xok, "seq")
	r.addRt(ev, info)
}

// tamper changes everything reachable from a decoded attribute set; a later decode must not see it
func zvrtamper(a *message.Attributes) {
	if a == nil {
		return
	}
	a.Username, a.Hostname, a.SSHClientVersion, a.HardKey, a.Touch2SSH, a.IfVer = "TAMPERED", "TAMPERED", "0.0", !a.HardKey, !a.Touch2SSH, 99
	if a.TouchlessSudo != nil {
		a.TouchlessSudo.Hosts, a.TouchlessSudo.Time, a.TouchlessSudo.IsFirefighter = "TAMPERED", 424242, !a.TouchlessSudo.IsFirefighter
	}
	for k := range a.Exts {
		a.Exts[k] = "TAMPERED"
	}
	if a.Exts != nil {
		a.Exts["TAMPERED"] = true
	}
}

// doRtHist: history independence.  The set is encoded and decoded, the decoded objects are tampered with, other
// sets are encoded and decoded in between, then the same set is encoded and decoded again: both rounds are
// ordinary round-trip events; the second one also says whether the text came out the same.
func (r *zvrvRun) doRtHist(a *message.Attributes, others []*message.Attributes) {
	if !zvrfitsTLC(a.IfVer) {
		return
	}
	ev1, info1, text1, got := zvrmkRt(a, "na", "hist")
	for _, g := range got {
		zvrtamper(g)
	}
	for _, o := range others {
		_, _, _, g := zvrmkRt(o, "na", "hist")
		for _, x := range g {
			zvrtamper(x)
		}
	}
	ev2, info2, text2, _ := zvrmkRt(a, "na", "hist")
	ev2.Same = text1 == text2
	r.addRt(ev1, info1)
	r.addRt(ev2, info2)
}

// concRt: g goroutines encode and decode their own, pairwise distinct attribute sets at the same time; every round
// is an ordinary round-trip event.  first (replay) gives sets that goroutine 0 uses.
func (r *zvrvRun) concRt(rnd *mrand.Rand, g, rounds int, first []*message.Attributes) {
	sets := make([][]*message.Attributes, g)
	for i := range sets {
		sets[i] = make([]*message.Attributes, rounds)
		for j := range sets[i] {
			var a *message.Attributes
			if i == 0 && len(first) > 0 {
				c := *first[j%len(first)]
				a = &c
			} else {
				a = zvrrandSet(rnd)
				for !zvrfitsTLC(a.IfVer) {
					a = zvrrandSet(rnd)
				}
				if rnd.Intn(4) > 0 && a.IfVer >= 7 { // mostly the legacy format
					a.IfVer = rnd.Intn(7)
					a = zvrlegacyCleanSet(a)
				}
				if a.Username != "" { // pairwise distinct across goroutines and rounds
					a.Username = fmt.Sprintf("g%dr%d-%s", i, j, a.Username)
				}
				if a.Hostname != "" {
					a.Hostname = fmt.Sprintf("h%d.%d.%s", i, j, a.Hostname)
				}
			}
			sets[i][j] = a
		}
	}
	type out struct {
		ev   zvrvEvRt
		info zvrvInRt
	}
	outs := make([][]out, g)
	start := make(chan struct{})
	var wg sync.WaitGroup
	for i := 0; i < g; i++ {
		outs[i] = make([]out, rounds)
		wg.Add(1)
		go func(i int) {
			defer wg.Done()
			<-start
			for j, a := range sets[i] {
				ev, info, _, _ := zvrmkRt(a, "na", "conc")
				outs[i][j] = out{ev, info}
			}
		}(i)
	}
	close(start)
	wg.Wait()
	for i := range outs {
		for _, o := range outs[i] {
			r.addRt(o.ev, o.info)
		}
	}
}

// legacyCleanSet makes the text values of a set fit the legacy format (no white space, no '@')
func zvrlegacyCleanSet(a *message.Attributes) *message.Attributes {
	c := func(s string) string {
		if s == "" {
			return s
		}
		return strings.ToValidUTF8(zvrlegacyClean(s), "u")
	}
	a.SSHClientVersion, a.Username, a.Hostname = c(a.SSHClientVersion), c(a.Username), c(a.Hostname)
	if a.TouchlessSudo != nil {
		a.TouchlessSudo.Hosts = c(a.TouchlessSudo.Hosts)
	}
	return a
}

type zvrvInText struct {
	Text string `json:"text"` // hex
	Xok  string `json:"xok"`
	Cls  string `json:"cls"`
}

func (r *zvrvRun) doLegacyText(text, xok, cls string) {
	ev := zvrvEvLeg{Op: "declegacy", Atoms: zvratomize(text), Xok: xok}
	ev.Res = zvrdecodeWith(message.UnmarshalLegacy, text)
	if !zvrfitsTLC(ev.Res.B.IfVer) {
		ev.Res.B.IfVer = 0 // not constrained for free legacy text
	}
	if ev.Res.Pan {
		r.pan++
	}
	r.classes["leg/"+strconv.FormatBool(ev.Res.Ok)]++
	r.emit("l", ev, zvrvInText{Text: zvrhx(text), Xok: xok, Cls: cls})
}

func (r *zvrvRun) doDecode(text, xok, cls string) {
	_, c15 := zvrlexCmd(text)
	ev := zvrvEvDec{Op: "decode", Cmd: c15, Xok: xok}
	ev.Res = zvrdecodeWith(message.Unmarshal, text)
	if !zvrfitsTLC(c15.Ja.IfVer) || !zvrfitsTLC(ev.Res.B.IfVer) {
		return
	}
	if ev.Res.Pan {
		r.pan++
	}
	r.classes["dec/"+c15.Jk+"/"+strconv.FormatBool(c15.Dec)+"/"+strconv.FormatBool(ev.Res.Ok)]++
	r.emit("d", ev, zvrvInText{Text: zvrhx(text), Xok: xok, Cls: cls})
}

// --- concretisation of the exported C15 classes

type zvrvSet15 struct {
	IfVer   int    `json:"ifVer"`
	Ver     string `json:"ver"`
	User    string `json:"user"`
	Host    string `json:"host"`
	HardKey bool   `json:"hardKey"`
	Touch   bool   `json:"touch"`
	Ts      string `json:"ts"`
	Ca      string `json:"ca"`
	Sig     string `json:"sig"`
	Exts    string `json:"exts"`
}

func zvrrandExts(r *mrand.Rand, cls string) map[string]interface{} {
	switch cls {
	case "none":
		if r.Intn(2) == 0 {
			return nil
		}
		return map[string]interface{}{}
	case "flat":
		m := map[string]interface{}{}
		for i := 1 + r.Intn(3); i > 0; i-- {
			m[zvrrandUTF8(r, 6)] = zvrrandUTF8(r, 10)
		}
		return m
	}
	m := map[string]interface{}{"nested": map[string]interface{}{"l": []interface{}{1, true, "x", 2.5, map[string]interface{}{"k": []interface{}{}}}}}
	for i := r.Intn(4); i > 0; i-- {
		m[zvrrandUTF8(r, 6)] = zvrrandJSONValue(r, 3)
	}
	return m
}

func zvrrandTime(r *mrand.Rand) int64 {
	switch r.Intn(6) {
	case 0:
		return 1<<63 - 1
	case 1:
		return -1 << 63
	case 2:
		return -int64(r.Intn(1000)) - 1
	}
	return int64(r.Intn(100000)) + 1
}

func zvrconcreteSet(r *mrand.Rand, s zvrvSet15) *message.Attributes {
	str := func(max int) string {
		if s.IfVer < 7 {
			return zvrrandCleanUTF8(r, max)
		}
		for {
			if x := zvrrandUTF8(r, max); x != "" {
				return x
			}
		}
	}
	a := &message.Attributes{IfVer: s.IfVer, HardKey: s.HardKey, Touch2SSH: s.Touch}
	if s.Ver != "" {
		a.SSHClientVersion = zvrpick(r, []string{zvrrandVerAB(r), "8.1", str(6)})
	}
	switch s.User {
	case "":
	case "613d62":
		a.Username = str(4) + "=" + str(4)
		if r.Intn(3) == 0 {
			a.Username = "=" + a.Username + "="
		}
	case "61406f":
		a.Username = str(4) + "@" + str(4)
	default:
		a.Username = str(10)
	}
	if s.Host != "" {
		a.Hostname = str(12)
	}
	if s.Ca != "0" {
		a.CAPubKeyAlgo = zvrx509PKA(1 + r.Intn(5))
	}
	if s.Sig != "0" {
		a.SignatureAlgo = zvrx509SA(r.Intn(40) - 20)
		if a.SignatureAlgo == 0 {
			a.SignatureAlgo = 16
		}
	}
	switch s.Ts {
	case "zero":
		a.TouchlessSudo = &message.TouchlessSudo{}
	case "ff":
		a.TouchlessSudo = &message.TouchlessSudo{IsFirefighter: true}
	case "hosts":
		a.TouchlessSudo = &message.TouchlessSudo{Hosts: str(20)}
	case "time":
		a.TouchlessSudo = &message.TouchlessSudo{Time: zvrrandTime(r)}
	case "all":
		a.TouchlessSudo = &message.TouchlessSudo{IsFirefighter: true, Hosts: str(8) + "," + str(8), Time: zvrrandTime(r)}
	}
	a.Exts = zvrrandExts(r, s.Exts)
	return a
}

func zvrrandSet(r *mrand.Rand) *message.Attributes {
	s := zvrvSet15{IfVer: zvrpick1(r, []int{-3, 0, 1, 5, 6, 7, 7, 8, 12, 1000}), Ver: "v", User: zvrpick(r, []string{"u", "u", "u", "613d62"}), Host: "h",
		HardKey: r.Intn(2) == 0, Touch: r.Intn(2) == 0, Ts: zvrpick(r, []string{"absent", "zero", "ff", "hosts", "time", "all"}),
		Ca: zvrpick(r, []string{"0", "1"}), Sig: zvrpick(r, []string{"0", "1"}), Exts: zvrpick(r, []string{"none", "flat", "nested"})}
	if r.Intn(10) == 0 {
		switch r.Intn(3) {
		case 0:
			s.Ver = ""
		case 1:
			s.User = ""
		default:
			s.Host = ""
		}
	}
	return zvrconcreteSet(r, s)
}

func zvrpick1(r *mrand.Rand, p []int) int { return p[r.Intn(len(p))] }

type zvrvLTok struct {
	Key   string `json:"key"`
	Shape string `json:"shape"`
}

func zvrconcreteLegacyText(r *mrand.Rand, toks []zvrvLTok) string {
	s := strings.Repeat(" ", r.Intn(3)/2)
	for _, t := range toks {
		f := t.Key
		good := func() string {
			switch t.Key {
			case "req":
				return zvrrandCleanUTF8(r, 6) + "@" + zvrrandCleanUTF8(r, 6)
			case "HardKey", "Touch2SSH", "IsFirefighter":
				return "true"
			case "IFVer":
				return "6"
			case "SSHClientVersion":
				return zvrrandVerAB(r)
			case "TouchlessSudoHosts":
				return "h1,h2"
			case "TouchlessSudoTime":
				return strconv.Itoa(1 + r.Intn(1000))
			}
			return zvrrandCleanUTF8(r, 5)
		}
		switch t.Shape {
		case "empty":
			f += "="
		case "val":
			f += "=" + good()
		case "valeq":
			if t.Key == "req" {
				f += "=" + zvrrandCleanUTF8(r, 3) + "=" + zvrrandCleanUTF8(r, 3) + "@" + zvrrandCleanUTF8(r, 6)
			} else {
				f += "=" + strings.Replace(good(), "@", "", -1) + "=" + zvrpick(r, []string{"w", "", "=", "true"})
			}
		}
		// stray white space: extra spaces between fields, other white space at the edges of a field
		s += zvrpick(r, []string{"", "", "", "\t", "\n"}) + f + zvrpick(r, []string{"", "", "", "\r", "\t"}) + strings.Repeat(" ", 1+r.Intn(3)/2)
	}
	if r.Intn(2) == 0 {
		s = strings.TrimRight(s, " ")
	}
	return s
}

type zvrvDec15 struct {
	Jk    string `json:"jk"`
	Miss  string `json:"miss"`
	Emb   bool   `json:"emb"`
	Shape string `json:"shape"`
}

func zvrconcreteDecode(r *mrand.Rand, d zvrvDec15) string {
	emb := "plain"
	if d.Emb {
		emb = "a" + zvrspaces(r) + "req=mallory@evil" + zvrspaces(r) + "SSHClientVersion=9.9 b"
	}
	switch d.Jk {
	case "null":
		return "null"
	case "array":
		return zvrmustJSON([]interface{}{emb})
	case "string":
		return zvrmustJSON(emb)
	}
	m := map[string]interface{}{"ifVer": 7, "username": zvrrandUTF8(r, 8) + "u", "hostname": zvrrandUTF8(r, 8) + "h", "sshClientVersion": zvrrandVerAB(r), "hardKey": true,
		"exts": map[string]interface{}{"note": emb}}
	key := map[string]string{"ver": "sshClientVersion", "user": "username", "host": "hostname"}[d.Miss]
	if key != "" {
		if r.Intn(2) == 0 {
			delete(m, key)
		} else {
			m[key] = ""
		}
	}
	switch d.Shape {
	case "extra":
		m["unknown"] = zvrrandJSONValue(r, 3)
		m["touchlessSudo"] = map[string]interface{}{"hosts": "a,b", "time": 5, "other": 1}
	case "badtype":
		m[zvrpick(r, []string{"hardKey", "touch2SSH", "ifVer", "touchlessSudo", "caPubKeyAlgo", "signatureAlgo"})] = "text"
	case "ifver6":
		m["ifVer"] = zvrpick1(r, []int{6, 0, -1})
	}
	return zvrmustJSON(m)
}

func zvrrandLegacyTextB(r *mrand.Rand) string {
	keys := []string{"req", "req", "HardKey", "IFVer", "SSHClientVersion", "Touch2SSH", "IsFirefighter", "TouchlessSudoHosts", "TouchlessSudoTime", "other", "Req", "é", ""}
	n := r.Intn(6)
	s := ""
	for i := 0; i < n; i++ {
		k := zvrpick(r, keys)
		v := ""
		switch r.Intn(8) {
		case 0:
		case 1:
			v = "="
		case 2:
			v = "=" + zvrrandCleanUTF8(r, 8) + "@" + zvrrandCleanUTF8(r, 8)
		case 3:
			v = "=" + zvrpick(r, []string{"true", "false", "1", "0", "T", "yes", "TRUE", "t"})
		case 4:
			v = "=" + zvrpick(r, []string{"30", "-5", "+7", "007", "9223372036854775807", "9223372036854775808", "1e3", "0x10", "6", "7"})
		case 5:
			v = "=" + zvrrandCleanUTF8(r, 6) + "=" + zvrrandCleanUTF8(r, 6)
		case 6:
			v = "=" + zvrpick(r, []string{"a@b@c", "@", "@@", "a@", "@b", "a\tb@c", "\xff@\xfe", "a @b"})
		default:
			v = "=" + zvrrandVerAB(r)
		}
		s += strings.Repeat(" ", r.Intn(3)) + zvrpick(r, []string{"", "", "", "\t", "\n", "\u0085", " "}) + k + v + zvrpick(r, []string{"", "", "", "\r", "\v", " "}) + " "
	}
	return s
}

func zvrrandDecodeTextB(r *mrand.Rand) string {
	cmd, _ := zvrrandCmdB(r)
	return cmd
}

func zvrx509PKA(n int) x509.PublicKeyAlgorithm { return x509.PublicKeyAlgorithm(n) }
func zvrx509SA(n int) x509.SignatureAlgorithm  { return x509.SignatureAlgorithm(n) }

// ---------------------------------------------------------------------------------------------
// driver

type zvrvPlanCase struct {
	K   string          `json:"k"`
	C   json.RawMessage `json:"c"`
	Xok string          `json:"xok"`
}
type zvrvReplay struct {
	E struct {
		Op string `json:"op"`
	} `json:"e"`
	Info json.RawMessage `json:"info"`
}
type zvrvPlan struct {
	Prop    string         `json:"prop"`
	Cases   []zvrvPlanCase `json:"cases"`
	Random  int            `json:"random"`
	Replays []zvrvReplay   `json:"replays"`
	Conc    struct {
		G      int `json:"g"`
		Rounds int `json:"rounds"`
	} `json:"conc"`
	Hist int `json:"hist"`
	Long int `json:"long"`
}

func zvrmustUn(b []byte, v interface{}) {
	if err := json.Unmarshal(b, v); err != nil {
		panic(fmt.Sprintf("verif: bad plan: %v: %s", err, string(b)))
	}
}

func TestVerifReqParam(t *testing.T) {
	planp, outp := os.Getenv("VERIF_PLAN"), os.Getenv("VERIF_OUT")
	if planp == "" || outp == "" {
		t.Skip("VERIF_PLAN / VERIF_OUT not set")
	}
	pb, err := os.ReadFile(planp)
	if err != nil {
		t.Fatal(err)
	}
	var plan zvrvPlan
	zvrmustUn(pb, &plan)
	tr, err := verifh.OpenTrace(outp)
	if err != nil {
		t.Fatal(err)
	}
	run := &zvrvRun{tr: tr, classes: map[string]int{}, errtexts: map[string]int{}}
	tr.Emit(zvrvRec{Ev: "reset", Tid: "t0"})
	rnd := verifh.NewRand("reqparam-"+plan.Prop, 0)

	for _, pc := range plan.Cases {
		switch pc.K {
		case "c14":
			var c zvrvCase14
			zvrmustUn(pc.C, &c)
			run.do14(zvrconcrete14(rnd, c, pc.Xok))
		case "rt":
			var s zvrvSet15
			zvrmustUn(pc.C, &s)
			run.doRt(zvrconcreteSet(rnd, s), pc.Xok)
		case "leg":
			var toks []zvrvLTok
			zvrmustUn(pc.C, &toks)
			text := zvrconcreteLegacyText(rnd, toks)
			run.doLegacyText(text, pc.Xok, "A:leg")
			run.doDecode(text, pc.Xok, "A:leg")
		case "dec":
			var d zvrvDec15
			zvrmustUn(pc.C, &d)
			run.doDecode(zvrconcreteDecode(rnd, d), pc.Xok, "A:dec")
		}
	}
	for i := 0; i < plan.Random; i++ {
		if plan.Prop == "C14" {
			run.do14(zvrrandIn14(rnd))
			continue
		}
		switch i % 4 {
		case 0, 1:
			run.doRt(zvrrandSet(rnd), "na")
		case 2:
			text := zvrrandLegacyTextB(rnd)
			run.doLegacyText(text, "na", "B:leg")
			run.doDecode(text, "na", "B:leg")
		default:
			run.doDecode(zvrrandDecodeTextB(rnd), "na", "B:dec")
		}
	}
	for i := 0; i < plan.Hist && plan.Prop == "C15"; i++ {
		others := make([]*message.Attributes, 1+rnd.Intn(3))
		for j := range others {
			others[j] = zvrrandSet(rnd)
		}
		run.doRtHist(zvrrandSet(rnd), others)
	}
	var concFirst []*message.Attributes
	for _, rp := range plan.Replays {
		switch rp.E.Op {
		case "reqparam":
			var in zvrvIn14
			zvrmustUn(rp.Info, &in)
			run.do14(in)
		case "tidbatch":
			var b struct {
				Calls []zvrvIn14 `json:"calls"`
			}
			zvrmustUn(rp.Info, &b)
			for _, in := range b.Calls {
				run.do14(in)
			}
		case "rt":
			var in zvrvInRt
			zvrmustUn(rp.Info, &in)
			a := &message.Attributes{}
			zvrmustUn(in.Attrs, a)
			switch in.Mode {
			case "conc":
				concFirst = append(concFirst, a)
			case "hist":
				run.doRtHist(a, []*message.Attributes{zvrrandSet(rnd), zvrrandSet(rnd)})
			default:
				run.doRt(a, in.Xok)
			}
		case "declegacy":
			var in zvrvInText
			zvrmustUn(rp.Info, &in)
			run.doLegacyText(zvrunhx(in.Text), in.Xok, in.Cls)
		case "decode":
			var in zvrvInText
			zvrmustUn(rp.Info, &in)
			run.doDecode(zvrunhx(in.Text), in.Xok, in.Cls)
		}
	}
	if plan.Conc.G > 0 && (len(plan.Replays) == 0 || len(concFirst) > 0) {
		if plan.Prop == "C14" {
			run.conc14(rnd, plan.Conc.G, plan.Conc.Rounds)
		} else {
			run.concRt(rnd, plan.Conc.G, plan.Conc.Rounds, concFirst)
		}
	}
	if plan.Long > 0 {
		if plan.Prop == "C14" {
			run.long14(plan.Long)
		} else {
			run.longRt(rnd, plan.Long)
		}
	}
	if plan.Prop == "C14" && run.calls14 > 0 {
		run.batch()
	}
	if err := tr.Close(); err != nil {
		t.Fatal(err)
	}
	sum := map[string]interface{}{"events": run.n, "calls14": run.calls14, "ok14": run.ok14, "pan": run.pan, "classes": run.classes, "panics": run.errtexts}
	b, _ := json.Marshal(sum)
	fmt.Printf("VERIF-SUMMARY %s\n", b)
}
