//go:build verif

package csr

// Conformance harness for spec/ReqParam.tla (properties C14 and C15).
// The harness is a driver and observer only: it builds concrete inputs (direction A: from the case
// table exported by TLC; direction B: from seeded grammars with hostile material), runs the real
// csr.NewReqParam / message.Marshal / Unmarshal / UnmarshalLegacy with panics recovered, and records
// for every call the lexical abstraction of the inputs and the observed result.  TLC judges the
// recorded events (spec/TraceReqParam.tla, C14_Step / C15_Step).

import (
	"crypto/x509"
	"encoding/hex"
	"encoding/json"
	"fmt"
	mrand "math/rand"
	"net/netip"
	"os"
	"regexp"
	"sort"
	"strconv"
	"strings"
	"sync"
	"testing"
	"unicode"
	"unicode/utf8"

	"github.com/theparanoids/ysshra/message"
	"github.com/theparanoids/ysshra/verifh"
)

func hx(s string) string { return hex.EncodeToString([]byte(s)) }
func unhx(s string) string {
	b, err := hex.DecodeString(s)
	if err != nil {
		panic("verif: bad hex in plan: " + s)
	}
	return string(b)
}

// ---------------------------------------------------------------------------------------------
// lexical abstraction (see the header of ReqParam.tla)

type vAtom struct {
	T    string `json:"t"`
	H    string `json:"h"`
	Vc   string `json:"vc"`
	Vmaj int    `json:"vmaj"`
	Vmin int    `json:"vmin"`
	B    string `json:"b"`
	Num  string `json:"num"`
}

type vVer struct {
	Cls string `json:"cls"`
	Maj int    `json:"maj"`
	Min int    `json:"min"`
}

var vVerRE = regexp.MustCompile(`^[0-9]+\.[0-9]+$`)

// verClass reads a declared client version: "ab" (major.minor, both <= 65535), "big", "malformed", "missing".
func verClass(s string) vVer {
	if s == "" {
		return vVer{Cls: "missing"}
	}
	if !vVerRE.MatchString(s) {
		return vVer{Cls: "malformed"}
	}
	i := strings.IndexByte(s, '.')
	comp := func(d string) (int, bool) {
		d = strings.TrimLeft(d, "0")
		if len(d) > 5 {
			return 0, false
		}
		if d == "" {
			return 0, true
		}
		n, _ := strconv.Atoi(d)
		return n, n <= 65535
	}
	ma, ok1 := comp(s[:i])
	mi, ok2 := comp(s[i+1:])
	if !ok1 || !ok2 {
		return vVer{Cls: "big"}
	}
	return vVer{Cls: "ab", Maj: ma, Min: mi}
}

func mkAtom(t, s string) vAtom {
	a := vAtom{T: t, H: hx(s), Vc: "malformed", B: "other"}
	if t != "txt" {
		return a
	}
	v := verClass(s)
	a.Vc, a.Vmaj, a.Vmin = v.Cls, v.Maj, v.Min
	if s == "true" || s == "false" {
		a.B = s
	}
	if n, err := strconv.ParseInt(s, 10, 64); err == nil {
		a.Num = strconv.FormatInt(n, 10)
	}
	return a
}

func atomize(s string) []vAtom {
	out := make([]vAtom, 0, 8)
	kind := func(r rune) string {
		switch {
		case r == ' ':
			return "sp"
		case r == '=':
			return "eq"
		case r == '@':
			return "at"
		case r != utf8.RuneError && unicode.IsSpace(r):
			return "ws"
		}
		return "txt"
	}
	start, cur := 0, ""
	for i := 0; i < len(s); {
		r, w := utf8.DecodeRuneInString(s[i:])
		k := kind(r)
		if cur != "" && (k != cur || k == "eq" || k == "at") {
			out = append(out, mkAtom(cur, s[start:i]))
			start = i
		}
		if cur == "" {
			start = i
		}
		cur = k
		i += w
	}
	if cur != "" {
		out = append(out, mkAtom(cur, s[start:]))
	}
	return out
}

// mirror of the JSON wire format (independent of message.Attributes)
type mirrorTS struct {
	IsFirefighter bool   `json:"isFirefighter,omitempty"`
	Hosts         string `json:"hosts,omitempty"`
	Time          int64  `json:"time,omitempty"`
}
type mirrorAttrs struct {
	IfVer            int                    `json:"ifVer"`
	Username         string                 `json:"username"`
	Hostname         string                 `json:"hostname"`
	SSHClientVersion string                 `json:"sshClientVersion"`
	CAPubKeyAlgo     int                    `json:"caPubKeyAlgo,omitempty"`
	SignatureAlgo    int                    `json:"signatureAlgo,omitempty"`
	HardKey          bool                   `json:"hardKey"`
	Touch2SSH        bool                   `json:"touch2SSH,omitempty"`
	TouchlessSudo    *mirrorTS              `json:"touchlessSudo,omitempty"`
	Exts             map[string]interface{} `json:"exts,omitempty"`
}

// jsonKind: how a text reads as JSON (object / null / array / number / string / bool / invalid).
func jsonKind(text string) string {
	if !json.Valid([]byte(text)) {
		return "invalid"
	}
	t := strings.TrimLeft(text, " \t\r\n")
	switch t[0] {
	case '{':
		return "object"
	case '[':
		return "array"
	case '"':
		return "string"
	case 't', 'f':
		return "bool"
	case 'n':
		return "null"
	}
	return "number"
}

type vExt struct {
	K string `json:"k"`
	V string `json:"v"`
}

// vAttr is the attribute-set record of the specification.
type vAttr struct {
	IfVer   int    `json:"ifVer"`
	Ver     string `json:"ver"`
	User    string `json:"user"`
	Host    string `json:"host"`
	Ca      string `json:"ca"`
	Sig     string `json:"sig"`
	HardKey bool   `json:"hardKey"`
	Touch   bool   `json:"touch"`
	Tsp     bool   `json:"tsp"`
	Ff      bool   `json:"ff"`
	Hosts   string `json:"hosts"`
	Time    string `json:"time"`
	Exts    []vExt `json:"exts"`
}

func zeroAttr() vAttr { return vAttr{Ca: "0", Sig: "0", Time: "0", Exts: []vExt{}} }

// canon renders an extension value as canonical typed text; numbers by numeric value.
func canon(v interface{}) string {
	switch x := v.(type) {
	case nil:
		return "z"
	case bool:
		return "b:" + strconv.FormatBool(x)
	case float64:
		return "n:" + strconv.FormatFloat(x, 'g', -1, 64)
	case int:
		return "n:" + strconv.FormatFloat(float64(x), 'g', -1, 64)
	case int64:
		return "n:" + strconv.FormatFloat(float64(x), 'g', -1, 64)
	case string:
		return "s:" + hx(x)
	case []interface{}:
		p := make([]string, len(x))
		for i, e := range x {
			p[i] = canon(e)
		}
		return "l:[" + strings.Join(p, ",") + "]"
	case map[string]interface{}:
		ks := make([]string, 0, len(x))
		for k := range x {
			ks = append(ks, k)
		}
		sort.Strings(ks)
		p := make([]string, len(ks))
		for i, k := range ks {
			p[i] = hx(k) + ":" + canon(x[k])
		}
		return "m:{" + strings.Join(p, ",") + "}"
	}
	return fmt.Sprintf("?%T", v)
}

func canonExts(m map[string]interface{}) []vExt {
	out := make([]vExt, 0, len(m))
	for k, v := range m {
		out = append(out, vExt{K: hx(k), V: canon(v)})
	}
	sort.Slice(out, func(i, j int) bool { return out[i].K < out[j].K })
	return out
}

const tlcIntMax = 1 << 30

func fitsTLC(n int) bool { return n > -tlcIntMax && n < tlcIntMax }

func attrOfMessage(a *message.Attributes) vAttr {
	if a == nil {
		return zeroAttr()
	}
	r := vAttr{IfVer: a.IfVer, Ver: hx(a.SSHClientVersion), User: hx(a.Username), Host: hx(a.Hostname),
		Ca: strconv.Itoa(int(a.CAPubKeyAlgo)), Sig: strconv.Itoa(int(a.SignatureAlgo)), HardKey: a.HardKey, Touch: a.Touch2SSH,
		Time: "0", Exts: canonExts(a.Exts)}
	if a.TouchlessSudo != nil {
		r.Tsp, r.Ff, r.Hosts, r.Time = true, a.TouchlessSudo.IsFirefighter, hx(a.TouchlessSudo.Hosts), strconv.FormatInt(a.TouchlessSudo.Time, 10)
	}
	return r
}

func attrOfMirror(a *mirrorAttrs) vAttr {
	r := vAttr{IfVer: a.IfVer, Ver: hx(a.SSHClientVersion), User: hx(a.Username), Host: hx(a.Hostname),
		Ca: strconv.Itoa(a.CAPubKeyAlgo), Sig: strconv.Itoa(a.SignatureAlgo), HardKey: a.HardKey, Touch: a.Touch2SSH,
		Time: "0", Exts: canonExts(a.Exts)}
	if a.TouchlessSudo != nil {
		r.Tsp, r.Ff, r.Hosts, r.Time = true, a.TouchlessSudo.IsFirefighter, hx(a.TouchlessSudo.Hosts), strconv.FormatInt(a.TouchlessSudo.Time, 10)
	}
	return r
}

// vCmd is the abstraction of a command text for C14; vCmd15 the one for C15 (full attribute object).
type vCmd struct {
	Jk    string  `json:"jk"`
	Dec   bool    `json:"dec"`
	Jver  vVer    `json:"jver"`
	Juser string  `json:"juser"`
	Jhost string  `json:"jhost"`
	Atoms []vAtom `json:"atoms"`
}
type vCmd15 struct {
	Jk    string  `json:"jk"`
	Dec   bool    `json:"dec"`
	Ja    vAttr   `json:"ja"`
	Atoms []vAtom `json:"atoms"`
}

func lexCmd(text string) (vCmd, vCmd15) {
	c := vCmd{Jk: jsonKind(text), Jver: vVer{Cls: "missing"}, Atoms: atomize(text)}
	c15 := vCmd15{Jk: c.Jk, Ja: zeroAttr(), Atoms: c.Atoms}
	if c.Jk == "object" {
		var m mirrorAttrs
		if err := json.Unmarshal([]byte(text), &m); err == nil {
			c.Dec, c15.Dec = true, true
			c.Jver, c.Juser, c.Jhost = verClass(m.SSHClientVersion), hx(m.Username), hx(m.Hostname)
			c15.Ja = attrOfMirror(&m)
		}
	}
	return c, c15
}

// ---------------------------------------------------------------------------------------------
// C14: csr.NewReqParam

type vConn struct {
	First  string `json:"first"`
	Ipc    string `json:"ipc"`
	Strict bool   `json:"strict"`
}

// ipStrictValid: independent validator of "a textual IPv4 / IPv6 address without zone"
func ipStrictValid(s string) bool {
	a, err := netip.ParseAddr(s)
	return err == nil && a.Zone() == ""
}
type vArgv struct {
	Toks  []string `json:"toks"`
	Clean bool     `json:"clean"`
}
type vRes14 struct {
	Ok      bool   `json:"ok"`
	Pan     bool   `json:"pan"`
	Logname string `json:"logname"`
	IP      string `json:"ip"`
	Pol     string `json:"pol"`
	Handler string `json:"handler"`
	Vmaj    int    `json:"vmaj"`
	Vmin    int    `json:"vmin"`
	ReqUser string `json:"requser"`
	ReqHost string `json:"reqhost"`
	Tidc    []int  `json:"tidc"`
}
type vEv14 struct {
	Op   string `json:"op"`
	Cmd  vCmd   `json:"cmd"`
	Log  string `json:"log"`
	Conn vConn  `json:"conn"`
	Argv vArgv  `json:"argv"`
	Xok  string `json:"xok"`
	Res  vRes14 `json:"res"`
}
type vIn14 struct {
	Cmd  string   `json:"cmd"` // hex
	Log  string   `json:"log"`
	Conn string   `json:"conn"`
	Argv []string `json:"argv"`
	Ipc  string   `json:"ipc"`
	Xok  string   `json:"xok"`
	Cls  string   `json:"cls"`
}
type vRec struct {
	Ev   string      `json:"ev"`
	Tid  string      `json:"tid"`
	E    interface{} `json:"e,omitempty"`
	Info interface{} `json:"info,omitempty"`
}

type vRun struct {
	tr       *verifh.Trace
	n        int
	tids     []string
	okIn     []vRec // successful reqparam records (for a small replay file of a batch violation)
	pan      int
	ok14     int
	calls14  int
	classes  map[string]int
	errtexts map[string]int
}

func (r *vRun) emit(prefix string, e, info interface{}) {
	r.n++
	r.tr.Emit(vRec{Ev: "step", Tid: fmt.Sprintf("%s%d", prefix, r.n), E: e, Info: info})
}

func callReqParam(cmd, logname, conn string, argv []string) (res vRes14, tid string, errtext string) {
	res.Tidc = []int{}
	env := func(k string) string {
		switch k {
		case "SSH_ORIGINAL_COMMAND":
			return cmd
		case "LOGNAME":
			return logname
		case "SSH_CONNECTION":
			return conn
		}
		return ""
	}
	defer func() {
		if x := recover(); x != nil {
			res = vRes14{Pan: true, Tidc: []int{}}
			errtext = fmt.Sprint(x)
		}
	}()
	p, err := NewReqParam(env, func() []string { return argv })
	if err != nil {
		return res, "", "error"
	}
	if p == nil {
		// neither an error nor parameters: recorded as a success with empty fields (the formula rejects it)
		res.Ok = true
		return res, "", "nil,nil"
	}
	res.Ok = true
	res.Logname, res.IP, res.Pol, res.Handler = hx(p.LogName), hx(p.ClientIP), hx(string(p.NamespacePolicy)), hx(p.HandlerName)
	res.ReqUser, res.ReqHost = hx(p.ReqUser), hx(p.ReqHost)
	v := p.SSHClientVersion.Marshal()
	res.Vmaj, res.Vmin = -1, -1
	if i := strings.IndexByte(v, '.'); i > 0 {
		if a, e1 := strconv.Atoi(v[:i]); e1 == nil {
			if b, e2 := strconv.Atoi(v[i+1:]); e2 == nil {
				res.Vmaj, res.Vmin = a, b
			}
		}
	}
	t := p.TransID
	for i := 0; i < len(t) && i < 40; i++ {
		res.Tidc = append(res.Tidc, int(t[i]))
	}
	return res, t, ""
}

// mk14 runs one call and builds its event (no shared state: usable from several goroutines)
func mk14(in vIn14) (ev vEv14, tid, errtext string) {
	cmd, logname, conn := unhx(in.Cmd), unhx(in.Log), unhx(in.Conn)
	argv := make([]string, len(in.Argv))
	toks := make([]string, 0, 8)
	clean := true
	for i, a := range in.Argv {
		argv[i] = unhx(a)
		for _, t := range strings.Split(argv[i], " ") {
			toks = append(toks, hx(t))
			if t == "" {
				clean = false
			}
		}
	}
	var argvIn []string
	if len(argv) > 0 {
		argvIn = argv
	}
	c, _ := lexCmd(cmd)
	first := strings.SplitN(conn, " ", 2)[0]
	ev = vEv14{Op: "reqparam", Cmd: c, Log: hx(logname), Conn: vConn{First: hx(first), Ipc: in.Ipc, Strict: ipStrictValid(first)},
		Argv: vArgv{Toks: toks, Clean: clean}, Xok: in.Xok}
	ev.Res, tid, errtext = callReqParam(cmd, logname, conn, argvIn)
	return ev, tid, errtext
}

func (r *vRun) add14(in vIn14, ev vEv14, tid, errtext string) {
	r.calls14++
	r.classes[in.Cls+"/"+ev.Cmd.Jk+"/"+strconv.FormatBool(ev.Res.Ok)]++
	if ev.Res.Pan {
		r.pan++
		r.errtexts[errtext]++
	}
	r.n++
	rec := vRec{Ev: "step", Tid: fmt.Sprintf("p%d", r.n), E: ev, Info: in}
	r.tr.Emit(rec)
	if ev.Res.Ok {
		r.ok14++
		r.tids = append(r.tids, tid)
		if len(r.okIn) < 48 {
			r.okIn = append(r.okIn, rec)
		}
	}
}

func (r *vRun) do14(in vIn14) {
	ev, tid, errtext := mk14(in)
	r.add14(in, ev, tid, errtext)
}

// conc14: g goroutines call NewReqParam at the same time, each with its own inputs; every call is an event
func (r *vRun) conc14(rnd *mrand.Rand, g, rounds int) {
	ins := make([][]vIn14, g)
	for i := range ins {
		ins[i] = make([]vIn14, rounds)
		for j := range ins[i] {
			ins[i][j] = randIn14(rnd)
			ins[i][j].Cls = "conc:" + ins[i][j].Cls[2:]
		}
	}
	type out struct {
		ev      vEv14
		tid, et string
	}
	outs := make([][]out, g)
	start := make(chan struct{})
	var wg sync.WaitGroup
	for i := 0; i < g; i++ {
		outs[i] = make([]out, rounds)
		wg.Add(1)
		go func(i int) {
			defer wg.Done()
			<-start
			for j, in := range ins[i] {
				ev, tid, et := mk14(in)
				outs[i][j] = out{ev, tid, et}
			}
		}(i)
	}
	close(start)
	wg.Wait()
	for i := range outs {
		for j, o := range outs[i] {
			r.add14(ins[i][j], o.ev, o.tid, o.et)
		}
	}
}

type vBatch struct {
	Op     string   `json:"op"`
	N      int      `json:"n"`
	Sorted []string `json:"sorted"`
	Cols   [][]int  `json:"cols"`
}

func (r *vRun) batch() {
	s := make([]string, len(r.tids))
	for i, t := range r.tids {
		s[i] = hx(t)
	}
	sort.Strings(s)
	cols := make([][]int, 10)
	for i := range cols {
		seen := map[int]bool{}
		cols[i] = []int{}
		for _, t := range r.tids {
			if i < len(t) && !seen[int(t[i])] {
				seen[int(t[i])] = true
				cols[i] = append(cols[i], int(t[i]))
			}
		}
		sort.Ints(cols[i])
	}
	first := make([]interface{}, 0, len(r.okIn))
	for _, x := range r.okIn {
		first = append(first, x.Info)
	}
	r.emit("b", vBatch{Op: "tidbatch", N: len(r.tids), Sorted: s, Cols: cols}, map[string]interface{}{"calls": first})
}

// --- concretisation of the exported C14 classes

type vCase14 struct {
	Cmd  string `json:"cmd"`
	Ver  string `json:"ver"`
	Log  string `json:"log"`
	Conn string `json:"conn"`
	Ntok int    `json:"ntok"`
	Pol  string `json:"pol"`
	Hnd  string `json:"hnd"`
	User string `json:"user"`
	Host string `json:"host"`
}

var (
	poolNames   = []string{"alice", "bob_7", "svc-acct", "x", "J.Doe", "user=1", "zoë", "用户", "a.b-c_d", "root", "ADMIN", "u+tag", "o'neil", "q\"uote", "back\\slash"}
	poolHosts   = []string{"host1", "laptop.example.com", "h", "10.1.2.3", "my-mac.local", "ホスト", "H=1", "x.y.z", "[::1]", "h\"q"}
	poolBadVer  = []string{"x", "8", "8.", ".5", "a.b", "-1.2", "1.-2", "8,0", "v8.0", "8.0p1x", "..", "8 .0"}
	poolBigVer  = []string{"65536.0", "1.65536", "70000.1", "99999999999999999999.1", "3.4294967296", "100000.100000"}
	poolV6      = []string{"2001:db8::7", "::1", "fe80::1", "::ffff:192.0.2.1", "2001:0db8:0000:0000:0000:0000:0000:0001", "::", "2001:DB8::A"}
	poolNotIP   = []string{"gateway.example", "1.2.3", "1.2.3.4.5", "300.1.1.1", "::g", "1.2.3.4:22", "localhost", "1.2.3.", "-1.2.3.4", "12345", "2001:db8:::1", "UNKNOWN"}
	poolV6Zone  = []string{"fe80::1%eth0", "fe80::1%en0", "fe80::abcd%1", "::1%lo", "fe80::1%eth0.100"}
	poolZoneBad = []string{"fe80::1%,Principals=root", "fe80::1%\"quoted\"", "fe80::1%a=b,c", "fe80::1%%", "fe80::1%\x00", "fe80::1%", "fe80::1%'$(id)'", "::1%\n", "fe80::1%é",
		"fe80::1%" + strings.Repeat("A", 3000), "2001:db8::7%,critical-options=x"}
	poolV4Zone  = []string{"1.2.3.4%x", "10.0.0.1%eth0", "1.2.3.4%", "::ffff:1.2.3.4%eth0"}
	poolIPJunk  = []string{"x1.2.3.4", "1.2.3.4x", "1.2.3.4,", "::1;", "1.2.3.4\t", "\t1.2.3.4", "1.2.3.4/32", "::1/128", "1.2.3.4\x00", "1.2.3.4,5.6.7.8", "0x1.2.3.4", "1.2.3.4.", "::1::"}
	poolBracket = []string{"[::1]", "[2001:db8::1]", "[1.2.3.4]", "[::1"}
	poolPort    = []string{"1.2.3.4:22", "[::1]:22", "1.2.3.4:", ":22"}
	poolMapped  = []string{"::ffff:1.2.3.4", "::ffff:192.0.2.1", "::ffff:c000:201", "0:0:0:0:0:ffff:10.0.0.1"}
	poolFill    = []string{"gensign", "-c", "/usr/bin/gensign", "--flag", "a", "b", "c", "d", "e", "NSOK", "NONS", "x=y", "ü"}
	poolBadPol  = []string{"XXXX", "nsok", "NONSX", "NS0K", "-", "NSOK,NONS", "nons"}
	poolHandler = []string{"handler", "Regular", "smartcard", "h-1", "x", "NONS1", "ü"}
)

func pick(r *mrand.Rand, p []string) string { return p[r.Intn(len(p))] }

func randV4(r *mrand.Rand) string {
	return fmt.Sprintf("%d.%d.%d.%d", r.Intn(256), r.Intn(256), r.Intn(256), r.Intn(256))
}

func randVerAB(r *mrand.Rand) string {
	c := func() string {
		switch r.Intn(6) {
		case 0:
			return "65535"
		case 1:
			return "0"
		case 2:
			return fmt.Sprintf("0%d", r.Intn(100))
		}
		return strconv.Itoa(r.Intn(r.Intn(65536) + 1))
	}
	return c() + "." + c()
}

func concreteVer(r *mrand.Rand, cls string) string {
	switch cls {
	case "ab":
		return randVerAB(r)
	case "malformed":
		return pick(r, poolBadVer)
	case "big":
		return pick(r, poolBigVer)
	}
	return ""
}

// legacyClean strips what the legacy format cannot carry (white space, '@')
func legacyClean(s string) string {
	var b strings.Builder
	for _, c := range s {
		if !unicode.IsSpace(c) && c != '@' {
			b.WriteRune(c)
		}
	}
	if b.Len() == 0 {
		return "v"
	}
	return b.String()
}

func spaces(r *mrand.Rand) string { return strings.Repeat(" ", 1+r.Intn(3)/2) }

func mustJSON(v interface{}) string {
	b, err := json.Marshal(v)
	if err != nil {
		panic(err)
	}
	return string(b)
}

func concrete14(r *mrand.Rand, c vCase14, xok string) vIn14 {
	logname := pick(r, poolNames)
	user := logname
	if c.User != "alice" {
		for user == logname {
			user = pick(r, poolNames)
		}
	}
	host := pick(r, poolHosts)
	if c.Host != "host1" {
		host = "other-" + host
	}
	ver := concreteVer(r, c.Ver)
	var cmd string
	jobj := func(dropKey string, extra bool) string {
		m := map[string]interface{}{"ifVer": 7, "username": user, "hostname": host, "sshClientVersion": ver, "hardKey": r.Intn(2) == 0}
		if ver == "" {
			delete(m, "sshClientVersion")
		}
		if dropKey != "" {
			if r.Intn(2) == 0 {
				delete(m, dropKey)
			} else {
				m[dropKey] = ""
			}
		}
		if extra || r.Intn(3) == 0 {
			m["exts"] = map[string]interface{}{"k": "v w", "n": 1.5}
			m["unknownKey"] = []interface{}{1, "req=" + logname + "@evil"}
		}
		return mustJSON(m)
	}
	luser, lhost := legacyClean(user), legacyClean(host)
	leg := func(req string) string {
		parts := []string{"IFVer=6"}
		if ver != "" {
			parts = append(parts, "SSHClientVersion="+ver)
		}
		if req != "" {
			parts = append(parts, req)
		}
		if r.Intn(2) == 0 {
			parts = append(parts, "HardKey=true")
		}
		if r.Intn(4) == 0 {
			parts = append(parts, "TouchlessSudoTime=30", "flag")
		}
		if ver != "" && req != "" && r.Intn(3) == 0 { // order is free
			parts[1], parts[2] = parts[2], parts[1]
		}
		s := parts[0]
		for _, p := range parts[1:] {
			s += spaces(r) + p
		}
		if r.Intn(5) == 0 {
			s = " " + s + " "
		}
		return s
	}
	switch c.Cmd {
	case "json_ok", "json_nover":
		cmd = jobj("", false)
	case "json_nouser":
		cmd = jobj("username", false)
	case "json_nohost":
		cmd = jobj("hostname", false)
	case "json_null":
		cmd = pick(r, []string{"null", " null", "null ", "\tnull\n"})
	case "json_array":
		cmd = pick(r, []string{"[]", "[1,2]", `[{"username":"a"}]`, `["req=a@b"]`})
	case "json_number":
		cmd = pick(r, []string{"7", "-1.5e3", "0", "1e400"})
	case "json_string":
		cmd = pick(r, []string{`"x"`, `""`, `"req=a@b"`, `"null"`})
	case "json_bool":
		cmd = pick(r, []string{"true", "false"})
	case "json_strleg":
		cmd = `"x` + spaces(r) + "req=" + luser + "@" + lhost + spaces(r) + `y"`
		user, host = luser, lhost
	case "json_badtype":
		cmd = pick(r, []string{
			mustJSON(map[string]interface{}{"ifVer": 7, "username": 5, "hostname": host, "sshClientVersion": "8.1"}),
			mustJSON(map[string]interface{}{"ifVer": "7", "username": user, "hostname": host, "sshClientVersion": "8.1"}),
			mustJSON(map[string]interface{}{"ifVer": 7, "username": user, "hostname": host, "sshClientVersion": "8.1", "exts": []int{1}}),
			mustJSON(map[string]interface{}{"ifVer": 1e30, "username": user, "hostname": host, "sshClientVersion": "8.1"})})
	case "leg_ver", "leg_nover":
		cmd = leg("req=" + luser + "@" + lhost)
	case "leg_noreq":
		cmd = leg(pick(r, []string{"", "Req=" + luser + "@" + lhost, "requester=" + luser + "@" + lhost}))
	case "leg_req0at":
		cmd = leg(pick(r, []string{"req=" + luser, "req", "req="}))
	case "leg_req2at":
		cmd = leg(pick(r, []string{"req=" + luser + "@" + lhost + "@x", "req=@@", "req=" + luser + "@@" + lhost}))
	case "empty":
		cmd = pick(r, []string{"", "", " ", "   "})
	default:
		cmd = pick(r, []string{"\xff{\x00", "{", "}{", "{\"username\":", "\x00", "=@=", "@", "=", "nul", "NULL", "{'username':'a'}", "\xc3\x28 \xa0\xa1", "req", "IFVer=7"})
	}
	var conn, ipc string
	rest := fmt.Sprintf(" %d %s %d", 1024+r.Intn(60000), randV4(r), 22)
	if r.Intn(6) == 0 {
		rest = ""
	}
	switch c.Conn {
	case "v4":
		conn, ipc = randV4(r)+rest, "v4"
	case "v6":
		conn, ipc = pick(r, poolV6)+rest, "v6"
	case "notip":
		conn, ipc = pick(r, poolNotIP)+rest, "notip"
	case "empty":
		conn, ipc = "", "notip"
	case "v4v4":
		conn, ipc = randV4(r)+" "+randV4(r)+" 22", "v4"
	case "v6zone":
		conn, ipc = pick(r, poolV6Zone)+rest, "notip"
	case "v6zonejunk":
		conn, ipc = pick(r, poolZoneBad)+rest, "notip"
	case "v4zone":
		conn, ipc = pick(r, poolV4Zone)+rest, "notip"
	case "ipjunk":
		conn, ipc = pick(r, poolIPJunk)+rest, "notip"
	case "bracket":
		conn, ipc = pick(r, poolBracket)+rest, "notip"
	case "withport":
		conn, ipc = pick(r, poolPort)+rest, "notip"
	case "mapped":
		conn, ipc = pick(r, poolMapped)+rest, "v6"
	default:
		conn, ipc = pick(r, poolNotIP)+" "+randV4(r)+" 22", "notip"
	}
	toks := make([]string, c.Ntok)
	for i := range toks {
		switch {
		case i == c.Ntok-1:
			toks[i] = pick(r, poolHandler)
			if c.Hnd == "NSOK" {
				toks[i] = "NSOK"
			}
		case i == c.Ntok-2:
			toks[i] = c.Pol
			if c.Pol == "other" {
				toks[i] = pick(r, poolBadPol)
			}
		default:
			toks[i] = pick(r, poolFill)
		}
	}
	in := vIn14{Cmd: hx(cmd), Conn: hx(conn), Ipc: ipc, Xok: xok, Cls: c.Cmd, Argv: groupArgs(r, toks)}
	if c.Log == "set" {
		in.Log = hx(logname)
	}
	return in
}

// groupArgs spreads tokens over at most 8 arguments (tokens of one argument joined by single spaces)
func groupArgs(r *mrand.Rand, toks []string) []string {
	args := []string{}
	for i := 0; i < len(toks); {
		n := 1 + r.Intn(3)
		left := 8 - len(args) - 1 // arguments still available after this one
		if left == 0 || i+n > len(toks) {
			n = len(toks) - i
		}
		args = append(args, hx(strings.Join(toks[i:i+n], " ")))
		i += n
	}
	return args
}

// --- direction B for C14: free inputs

func randBytes(r *mrand.Rand, n int) string {
	b := make([]byte, n)
	for i := range b {
		b[i] = byte(r.Intn(256))
	}
	return string(b)
}

var hostileStrings = []string{"", " ", "\x00", "a\x00b", "\xff\xfe", "null", "true", "{}", "[]", "\"", "\\", "a b", "a=b", "a@b", "@", "=",
	" ", " x", "x\u0085", "\t", "\n", "é", "日本語", "😀", "<script>&", "%s%d", "../..", "-c", "NSOK", "NONS", "0.0", "65535.65535"}

func randText(r *mrand.Rand) string {
	switch r.Intn(8) {
	case 0:
		return pick(r, hostileStrings)
	case 1:
		return randBytes(r, r.Intn(12))
	case 2:
		if r.Intn(2) == 0 {
			return strings.Repeat(pick(r, []string{"x=", "@", "= "}), 1+r.Intn(12))
		}
		return strings.Repeat(pick(r, []string{"a", "é", "\x00"}), 1+r.Intn(20000))
	case 3:
		return pick(r, poolNames) + pick(r, hostileStrings)
	}
	return pick(r, poolNames)
}

func randJSONValue(r *mrand.Rand, depth int) interface{} {
	switch r.Intn(9) {
	case 0:
		return nil
	case 1:
		return r.Intn(2) == 0
	case 2:
		return float64(r.Intn(2000001) - 1000000)
	case 3:
		return r.NormFloat64() * 1e6
	case 4:
		return float64(int64(1)<<52 + int64(r.Intn(1000)))
	case 5:
		if depth > 0 {
			n := r.Intn(4)
			l := make([]interface{}, n)
			for i := range l {
				l[i] = randJSONValue(r, depth-1)
			}
			return l
		}
	case 6:
		if depth > 0 {
			n := r.Intn(4)
			m := map[string]interface{}{}
			for i := 0; i < n; i++ {
				m[randUTF8(r, 6)] = randJSONValue(r, depth-1)
			}
			return m
		}
	}
	return randUTF8(r, 12)
}

// randUTF8 returns a valid UTF-8 string (possibly empty) with JSON metacharacters, spaces and non-ASCII
func randUTF8(r *mrand.Rand, max int) string {
	alphabet := []rune("abcXYZ019 _-.,:;/\\\"'{}[]=@<>&\t\néß中文\U0001F600  \u0000\u007f")
	n := r.Intn(max + 1)
	b := make([]rune, n)
	for i := range b {
		b[i] = alphabet[r.Intn(len(alphabet))]
	}
	return string(b)
}

// randCleanUTF8: non-empty, free of white space and '@' (what the legacy format is claimed for)
func randCleanUTF8(r *mrand.Rand, max int) string {
	s := legacyClean(strings.Map(func(c rune) rune {
		if c == 0 {
			return 'z'
		}
		return c
	}, randUTF8(r, max)))
	return s
}

// rawJSONObject renders key/value pairs in the given order (duplicates and case variants possible)
func rawJSONObject(kv [][2]string) string {
	p := make([]string, len(kv))
	for i, x := range kv {
		p[i] = mustJSON(x[0]) + ":" + x[1]
	}
	return "{" + strings.Join(p, ",") + "}"
}

func randCmdB(r *mrand.Rand) (string, string) {
	user, host, ver := randText(r), pick(r, poolHosts), randVerAB(r)
	if r.Intn(4) == 0 {
		ver = pick(r, append(append([]string{""}, poolBadVer...), poolBigVer...))
	}
	switch r.Intn(10) {
	case 0, 1: // JSON object with extra / unknown / duplicate / case-variant keys
		kv := [][2]string{{"ifVer", strconv.Itoa(r.Intn(12))}, {"username", mustJSON(user)}, {"hostname", mustJSON(host)}, {"sshClientVersion", mustJSON(ver)}}
		for i := r.Intn(4); i > 0; i-- {
			switch r.Intn(7) {
			case 0:
				kv = append(kv, [2]string{"username", mustJSON(pick(r, poolNames))})
			case 1:
				kv = append(kv, [2]string{pick(r, []string{"USERNAME", "UserName", "HostName", "SSHCLIENTVERSION", "Username"}), mustJSON(pick(r, poolNames))})
			case 2:
				kv = append(kv, [2]string{"exts", mustJSON(randJSONValue(r, 3))})
			case 3:
				kv = append(kv, [2]string{pick(r, []string{"zzz", "", "req", "LOGNAME", "logName"}), mustJSON(randJSONValue(r, 2))})
			case 4:
				kv = append(kv, [2]string{"big", pick(r, []string{"1e400", "123456789012345678901234567890", "-0", "1E-400"})})
			case 5:
				kv = append(kv, [2]string{"touchlessSudo", pick(r, []string{"null", "{}", `{"time":9223372036854775807}`, `{"time":9223372036854775808}`, `{"hosts":"a,b","isFirefighter":true}`, "[]", "7"})})
			case 6:
				kv = append(kv, [2]string{"deep", strings.Repeat("[", 1+r.Intn(300)) + strings.Repeat("]", 1+r.Intn(300))})
			}
		}
		r.Shuffle(len(kv), func(i, j int) { kv[i], kv[j] = kv[j], kv[i] })
		return rawJSONObject(kv), "B:jsonobj"
	case 2: // JSON object whose values are of other types
		kv := [][2]string{{"username", pick(r, []string{"5", "null", "[]", "{}", "true", mustJSON(user)})}, {"hostname", pick(r, []string{"null", mustJSON(host), "1"})},
			{"sshClientVersion", pick(r, []string{mustJSON(ver), "8.1", "null"})}, {"ifVer", pick(r, []string{"7", "\"7\"", "7.5", "1e3", "null", "99999999999999999999"})}}
		return rawJSONObject(kv), "B:jsontypes"
	case 3: // other JSON values
		return pick(r, []string{"null", " null ", "[]", "[null]", "0", "-1", "\"\"", "true", "false", "{}", " {} ", "[{}]", "\"a b req=u@h c\"",
			strings.Repeat("[", 10001) + strings.Repeat("]", 10001), "{\"a\":" + strings.Repeat("[", 5000) + strings.Repeat("]", 5000) + "}"}), "B:jsonother"
	case 4, 5: // legacy text with free tokens
		keys := []string{"req", "req", "SSHClientVersion", "IFVer", "HardKey", "Touch2SSH", "IsFirefighter", "TouchlessSudoHosts", "TouchlessSudoTime", "x", "REQ", "", "req "}
		n := r.Intn(6)
		s := ""
		for i := 0; i < n; i++ {
			k := pick(r, keys)
			var v string
			switch r.Intn(6) {
			case 0:
				v = ""
			case 1:
				v = "=" + legacyClean(user) + "@" + legacyClean(host)
			case 2:
				v = "=" + ver
			case 3:
				v = "=" + pick(r, []string{"true", "false", "1", "a@b@c", "@", "a=b@c", "x", "", " ", "a\tb@c", "\xff@\xfe"})
			case 4:
				v = "=" + pick(r, hostileStrings)
			case 5:
				v = "=" + randCleanUTF8(r, 8) + "@" + randCleanUTF8(r, 8)
			}
			s += strings.Repeat(" ", r.Intn(3)) + pick(r, []string{"", "", "", "\t", "\n"}) + k + v + pick(r, []string{"", "", "", "\r", "\u0085"}) + " "
		}
		return s, "B:legacy"
	case 6:
		return randBytes(r, r.Intn(40)), "B:bytes"
	case 7: // a valid message damaged at one byte
		s := mustJSON(map[string]interface{}{"ifVer": 7, "username": "u", "hostname": "h", "sshClientVersion": "8.1"})
		b := []byte(s)
		b[r.Intn(len(b))] = byte(r.Intn(256))
		return string(b), "B:damaged"
	case 8:
		return "IFVer=6 SSHClientVersion=" + ver + " req=" + legacyClean(user) + "@" + legacyClean(host) + " HardKey=true", "B:legacyvalid"
	}
	return mustJSON(map[string]interface{}{"ifVer": 7, "username": user, "hostname": host, "sshClientVersion": ver, "exts": randJSONValue(r, 3)}), "B:jsonvalid"
}

func randIn14(r *mrand.Rand) vIn14 {
	cmd, cls := randCmdB(r)
	in := vIn14{Cmd: hx(cmd), Xok: "na", Cls: cls, Ipc: "unknown"}
	good := r.Intn(2) == 0 // every other call has well-formed server-side inputs, so that the command text decides
	lsel, csel := r.Intn(6), r.Intn(11)
	if good {
		lsel, csel = 2+r.Intn(4), []int{0, 5, 6, 7, 8, 10}[r.Intn(6)]
	}
	switch lsel {
	case 0:
		in.Log = hx("")
	case 1:
		in.Log = hx(randText(r))
	default:
		in.Log = hx(pick(r, poolNames))
	}
	rest := pick(r, []string{"", " 22", " 50000 10.0.0.1 22", " " + randV4(r) + " 1", "  x", " \x00"})
	if good {
		rest = pick(r, []string{"", " 22", " 50000 10.0.0.1 22"})
	}
	switch csel {
	case 0:
		in.Conn, in.Ipc = hx(pick(r, poolV6)+rest), "v6"
	case 1:
		in.Conn, in.Ipc = hx(pick(r, poolNotIP)+rest), "notip"
	case 2:
		in.Conn, in.Ipc = hx(""), "notip"
	case 3: // free bytes (the class of the first field is not known to the driver)
		in.Conn = hx(randBytes(r, r.Intn(20)))
	case 4:
		in.Conn = hx(pick(r, hostileStrings) + rest)
	case 8: // an address with a zone / junk behind '%' (never a valid client IP)
		in.Conn, in.Ipc = hx(pick(r, append(append([]string{}, poolV6Zone...), poolZoneBad...))+rest), "notip"
	case 9: // an address inside other text; the class is left to the validator
		in.Conn = hx(pick(r, append(append(append(append([]string{}, poolV4Zone...), poolIPJunk...), poolBracket...), poolPort...)) + rest)
	case 10: // a valid address with something glued on, built freely
		in.Conn = hx(pick(r, append(append([]string{randV4(r)}, poolV6...), poolMapped...)) + pick(r, []string{"", "", "%", "%" + randCleanUTF8(r, 10), ",", "=", "\"", "%25", "%eth0"}) + rest)
	default:
		in.Conn, in.Ipc = hx(randV4(r)+rest), "v4"
	}
	nargs := r.Intn(9)
	in.Argv = make([]string, nargs)
	valid := good || r.Intn(3) > 0
	if good && nargs == 0 {
		nargs = 2
		in.Argv = make([]string, nargs)
	}
	for i := range in.Argv {
		w := make([]string, 1+r.Intn(3))
		for j := range w {
			w[j] = pick(r, poolFill)
			if r.Intn(12) == 0 {
				w[j] = pick(r, hostileStrings)
			}
		}
		in.Argv[i] = strings.Join(w, " ")
	}
	if valid && nargs > 0 {
		// a well-formed force command in the tail, possibly inside one argument
		tail := pick(r, []string{"NSOK", "NONS"}) + " " + pick(r, poolHandler)
		sel := r.Intn(3)
		if good {
			sel = r.Intn(2)
		}
		switch sel {
		case 0:
			in.Argv = []string{"gensign", "-c", "/usr/bin/gensign " + tail}[:3]
		case 1:
			in.Argv = []string{"gensign", tail}
		default:
			in.Argv[nargs-1] = tail
		}
	}
	for i := range in.Argv {
		in.Argv[i] = hx(in.Argv[i])
	}
	return in
}

// ---------------------------------------------------------------------------------------------
// C15: message.Marshal / Unmarshal / UnmarshalLegacy

type vD15 struct {
	Ok  bool  `json:"ok"`
	Pan bool  `json:"pan"`
	B   vAttr `json:"b"`
}
type vEnc struct {
	Ok  bool `json:"ok"`
	Pan bool `json:"pan"`
}
type vEvRt struct {
	Op    string  `json:"op"`
	A     vAttr   `json:"a"`
	Clean bool    `json:"clean"`
	Enc   vEnc    `json:"enc"`
	Wire  []vAtom `json:"wire"`
	Dec   vD15    `json:"dec"`
	Dec2  vD15    `json:"dec2"`
	Xok   string  `json:"xok"`
	Mode  string  `json:"mode"` // seq / hist / conc
	Same  bool    `json:"same"` // hist: the same set encoded again later gave the same text
}
type vEvLeg struct {
	Op    string  `json:"op"`
	Atoms []vAtom `json:"atoms"`
	Res   vD15    `json:"res"`
	Xok   string  `json:"xok"`
}
type vEvDec struct {
	Op  string `json:"op"`
	Cmd vCmd15 `json:"cmd"`
	Res vD15   `json:"res"`
	Xok string `json:"xok"`
}

func decodeWith(f func(string) (*message.Attributes, error), text string) (d vD15) {
	d.B = zeroAttr()
	defer func() {
		if x := recover(); x != nil {
			d = vD15{Pan: true, B: zeroAttr()}
		}
	}()
	a, err := f(text)
	if err != nil {
		return d
	}
	d.Ok = true // a nil result without error is recorded as a success with the zero set (the formulas reject it where they apply)
	d.B = attrOfMessage(a)
	return d
}

func encode(a *message.Attributes) (text string, e vEnc) {
	defer func() {
		if x := recover(); x != nil {
			e = vEnc{Pan: true}
		}
	}()
	s, err := a.Marshal()
	return s, vEnc{Ok: err == nil}
}

func attrsClean(a *message.Attributes) bool {
	ok := func(s string) bool {
		if !utf8.ValidString(s) {
			return false
		}
		if a.IfVer >= 7 {
			return true
		}
		for _, c := range s {
			if unicode.IsSpace(c) || c == '@' {
				return false
			}
		}
		return true
	}
	h := ""
	if a.TouchlessSudo != nil {
		h = a.TouchlessSudo.Hosts
	}
	return ok(a.SSHClientVersion) && ok(a.Username) && ok(a.Hostname) && ok(h)
}

type vInRt struct {
	Attrs json.RawMessage `json:"attrs"` // the attribute set as JSON of message.Attributes (replay input)
	Xok   string          `json:"xok"`
	Mode  string          `json:"mode"`
}

// mkRt encodes and decodes one attribute set and builds the event (no shared state).  The decoded objects are
// returned so that the caller can tamper with them (aliasing check).
func mkRt(a *message.Attributes, xok, mode string) (ev vEvRt, info vInRt, text string, got []*message.Attributes) {
	raw, _ := json.Marshal(a)
	ev = vEvRt{Op: "rt", A: attrOfMessage(a), Clean: attrsClean(a), Wire: []vAtom{}, Dec: vD15{B: zeroAttr()}, Dec2: vD15{B: zeroAttr()}, Xok: xok, Mode: mode, Same: true}
	text, ev.Enc = encode(a)
	if ev.Enc.Ok {
		var g1, g2 *message.Attributes
		keep := func(f func(string) (*message.Attributes, error), dst **message.Attributes) func(string) (*message.Attributes, error) {
			return func(t string) (*message.Attributes, error) {
				x, err := f(t)
				*dst = x
				return x, err
			}
		}
		ev.Dec = decodeWith(keep(message.Unmarshal, &g1), text)
		ev.Dec2 = ev.Dec
		if a.IfVer < 7 {
			ev.Wire = atomize(text)
			ev.Dec2 = decodeWith(keep(message.UnmarshalLegacy, &g2), text)
		}
		got = []*message.Attributes{g1, g2}
	}
	return ev, vInRt{Attrs: raw, Xok: xok, Mode: mode}, text, got
}

func (r *vRun) addRt(ev vEvRt, info vInRt) {
	if ev.Enc.Pan || ev.Dec.Pan || ev.Dec2.Pan {
		r.pan++
	}
	key := "rt/legacy"
	if ev.A.IfVer >= 7 {
		key = "rt/json"
	}
	r.classes[key+"/"+ev.Mode+"/"+strconv.FormatBool(ev.Enc.Ok)+"/"+strconv.FormatBool(ev.Dec.Ok)]++
	r.emit("r", ev, info)
}

func (r *vRun) doRt(a *message.Attributes, xok string) {
	if !fitsTLC(a.IfVer) {
		return
	}
	ev, info, _, _ := mkRt(a, xok, "seq")
	r.addRt(ev, info)
}

// tamper changes everything reachable from a decoded attribute set; a later decode must not see it
func tamper(a *message.Attributes) {
	if a == nil {
		return
	}
	a.Username, a.Hostname, a.SSHClientVersion, a.HardKey, a.Touch2SSH, a.IfVer = "TAMPERED", "TAMPERED", "0.0", !a.HardKey, !a.Touch2SSH, 99
	if a.TouchlessSudo != nil {
		a.TouchlessSudo.Hosts, a.TouchlessSudo.Time, a.TouchlessSudo.IsFirefighter = "TAMPERED", 424242, !a.TouchlessSudo.IsFirefighter
	}
	for k := range a.Exts {
		a.Exts[k] = "TAMPERED"
	}
	if a.Exts != nil {
		a.Exts["TAMPERED"] = true
	}
}

// doRtHist: history independence.  The set is encoded and decoded, the decoded objects are tampered with, other
// sets are encoded and decoded in between, then the same set is encoded and decoded again: both rounds are
// ordinary round-trip events; the second one also says whether the text came out the same.
func (r *vRun) doRtHist(a *message.Attributes, others []*message.Attributes) {
	if !fitsTLC(a.IfVer) {
		return
	}
	ev1, info1, text1, got := mkRt(a, "na", "hist")
	for _, g := range got {
		tamper(g)
	}
	for _, o := range others {
		_, _, _, g := mkRt(o, "na", "hist")
		for _, x := range g {
			tamper(x)
		}
	}
	ev2, info2, text2, _ := mkRt(a, "na", "hist")
	ev2.Same = text1 == text2
	r.addRt(ev1, info1)
	r.addRt(ev2, info2)
}

// concRt: g goroutines encode and decode their own, pairwise distinct attribute sets at the same time; every round
// is an ordinary round-trip event.  first (replay) gives sets that goroutine 0 uses.
func (r *vRun) concRt(rnd *mrand.Rand, g, rounds int, first []*message.Attributes) {
	sets := make([][]*message.Attributes, g)
	for i := range sets {
		sets[i] = make([]*message.Attributes, rounds)
		for j := range sets[i] {
			var a *message.Attributes
			if i == 0 && len(first) > 0 {
				c := *first[j%len(first)]
				a = &c
			} else {
				a = randSet(rnd)
				for !fitsTLC(a.IfVer) {
					a = randSet(rnd)
				}
				if rnd.Intn(4) > 0 && a.IfVer >= 7 { // mostly the legacy format
					a.IfVer = rnd.Intn(7)
					a = legacyCleanSet(a)
				}
				if a.Username != "" { // pairwise distinct across goroutines and rounds
					a.Username = fmt.Sprintf("g%dr%d-%s", i, j, a.Username)
				}
				if a.Hostname != "" {
					a.Hostname = fmt.Sprintf("h%d.%d.%s", i, j, a.Hostname)
				}
			}
			sets[i][j] = a
		}
	}
	type out struct {
		ev   vEvRt
		info vInRt
	}
	outs := make([][]out, g)
	start := make(chan struct{})
	var wg sync.WaitGroup
	for i := 0; i < g; i++ {
		outs[i] = make([]out, rounds)
		wg.Add(1)
		go func(i int) {
			defer wg.Done()
			<-start
			for j, a := range sets[i] {
				ev, info, _, _ := mkRt(a, "na", "conc")
				outs[i][j] = out{ev, info}
			}
		}(i)
	}
	close(start)
	wg.Wait()
	for i := range outs {
		for _, o := range outs[i] {
			r.addRt(o.ev, o.info)
		}
	}
}

// legacyCleanSet makes the text values of a set fit the legacy format (no white space, no '@')
func legacyCleanSet(a *message.Attributes) *message.Attributes {
	c := func(s string) string {
		if s == "" {
			return s
		}
		return strings.ToValidUTF8(legacyClean(s), "u")
	}
	a.SSHClientVersion, a.Username, a.Hostname = c(a.SSHClientVersion), c(a.Username), c(a.Hostname)
	if a.TouchlessSudo != nil {
		a.TouchlessSudo.Hosts = c(a.TouchlessSudo.Hosts)
	}
	return a
}

type vInText struct {
	Text string `json:"text"` // hex
	Xok  string `json:"xok"`
	Cls  string `json:"cls"`
}

func (r *vRun) doLegacyText(text, xok, cls string) {
	ev := vEvLeg{Op: "declegacy", Atoms: atomize(text), Xok: xok}
	ev.Res = decodeWith(message.UnmarshalLegacy, text)
	if !fitsTLC(ev.Res.B.IfVer) {
		ev.Res.B.IfVer = 0 // not constrained for free legacy text
	}
	if ev.Res.Pan {
		r.pan++
	}
	r.classes["leg/"+strconv.FormatBool(ev.Res.Ok)]++
	r.emit("l", ev, vInText{Text: hx(text), Xok: xok, Cls: cls})
}

func (r *vRun) doDecode(text, xok, cls string) {
	_, c15 := lexCmd(text)
	ev := vEvDec{Op: "decode", Cmd: c15, Xok: xok}
	ev.Res = decodeWith(message.Unmarshal, text)
	if !fitsTLC(c15.Ja.IfVer) || !fitsTLC(ev.Res.B.IfVer) {
		return
	}
	if ev.Res.Pan {
		r.pan++
	}
	r.classes["dec/"+c15.Jk+"/"+strconv.FormatBool(c15.Dec)+"/"+strconv.FormatBool(ev.Res.Ok)]++
	r.emit("d", ev, vInText{Text: hx(text), Xok: xok, Cls: cls})
}

// --- concretisation of the exported C15 classes

type vSet15 struct {
	IfVer   int    `json:"ifVer"`
	Ver     string `json:"ver"`
	User    string `json:"user"`
	Host    string `json:"host"`
	HardKey bool   `json:"hardKey"`
	Touch   bool   `json:"touch"`
	Ts      string `json:"ts"`
	Ca      string `json:"ca"`
	Sig     string `json:"sig"`
	Exts    string `json:"exts"`
}

func randExts(r *mrand.Rand, cls string) map[string]interface{} {
	switch cls {
	case "none":
		if r.Intn(2) == 0 {
			return nil
		}
		return map[string]interface{}{}
	case "flat":
		m := map[string]interface{}{}
		for i := 1 + r.Intn(3); i > 0; i-- {
			m[randUTF8(r, 6)] = randUTF8(r, 10)
		}
		return m
	}
	m := map[string]interface{}{"nested": map[string]interface{}{"l": []interface{}{1, true, "x", 2.5, map[string]interface{}{"k": []interface{}{}}}}}
	for i := r.Intn(4); i > 0; i-- {
		m[randUTF8(r, 6)] = randJSONValue(r, 3)
	}
	return m
}

func randTime(r *mrand.Rand) int64 {
	switch r.Intn(6) {
	case 0:
		return 1<<63 - 1
	case 1:
		return -1 << 63
	case 2:
		return -int64(r.Intn(1000)) - 1
	}
	return int64(r.Intn(100000)) + 1
}

func concreteSet(r *mrand.Rand, s vSet15) *message.Attributes {
	str := func(max int) string {
		if s.IfVer < 7 {
			return randCleanUTF8(r, max)
		}
		for {
			if x := randUTF8(r, max); x != "" {
				return x
			}
		}
	}
	a := &message.Attributes{IfVer: s.IfVer, HardKey: s.HardKey, Touch2SSH: s.Touch}
	if s.Ver != "" {
		a.SSHClientVersion = pick(r, []string{randVerAB(r), "8.1", str(6)})
	}
	switch s.User {
	case "":
	case "613d62":
		a.Username = str(4) + "=" + str(4)
		if r.Intn(3) == 0 {
			a.Username = "=" + a.Username + "="
		}
	case "61406f":
		a.Username = str(4) + "@" + str(4)
	default:
		a.Username = str(10)
	}
	if s.Host != "" {
		a.Hostname = str(12)
	}
	if s.Ca != "0" {
		a.CAPubKeyAlgo = x509PKA(1 + r.Intn(5))
	}
	if s.Sig != "0" {
		a.SignatureAlgo = x509SA(r.Intn(40) - 20)
		if a.SignatureAlgo == 0 {
			a.SignatureAlgo = 16
		}
	}
	switch s.Ts {
	case "zero":
		a.TouchlessSudo = &message.TouchlessSudo{}
	case "ff":
		a.TouchlessSudo = &message.TouchlessSudo{IsFirefighter: true}
	case "hosts":
		a.TouchlessSudo = &message.TouchlessSudo{Hosts: str(20)}
	case "time":
		a.TouchlessSudo = &message.TouchlessSudo{Time: randTime(r)}
	case "all":
		a.TouchlessSudo = &message.TouchlessSudo{IsFirefighter: true, Hosts: str(8) + "," + str(8), Time: randTime(r)}
	}
	a.Exts = randExts(r, s.Exts)
	return a
}

func randSet(r *mrand.Rand) *message.Attributes {
	s := vSet15{IfVer: pick1(r, []int{-3, 0, 1, 5, 6, 7, 7, 8, 12, 1000}), Ver: "v", User: pick(r, []string{"u", "u", "u", "613d62"}), Host: "h",
		HardKey: r.Intn(2) == 0, Touch: r.Intn(2) == 0, Ts: pick(r, []string{"absent", "zero", "ff", "hosts", "time", "all"}),
		Ca: pick(r, []string{"0", "1"}), Sig: pick(r, []string{"0", "1"}), Exts: pick(r, []string{"none", "flat", "nested"})}
	if r.Intn(10) == 0 {
		switch r.Intn(3) {
		case 0:
			s.Ver = ""
		case 1:
			s.User = ""
		default:
			s.Host = ""
		}
	}
	return concreteSet(r, s)
}

func pick1(r *mrand.Rand, p []int) int { return p[r.Intn(len(p))] }

type vLTok struct {
	Key   string `json:"key"`
	Shape string `json:"shape"`
}

func concreteLegacyText(r *mrand.Rand, toks []vLTok) string {
	s := strings.Repeat(" ", r.Intn(3)/2)
	for _, t := range toks {
		f := t.Key
		good := func() string {
			switch t.Key {
			case "req":
				return randCleanUTF8(r, 6) + "@" + randCleanUTF8(r, 6)
			case "HardKey", "Touch2SSH", "IsFirefighter":
				return "true"
			case "IFVer":
				return "6"
			case "SSHClientVersion":
				return randVerAB(r)
			case "TouchlessSudoHosts":
				return "h1,h2"
			case "TouchlessSudoTime":
				return strconv.Itoa(1 + r.Intn(1000))
			}
			return randCleanUTF8(r, 5)
		}
		switch t.Shape {
		case "empty":
			f += "="
		case "val":
			f += "=" + good()
		case "valeq":
			if t.Key == "req" {
				f += "=" + randCleanUTF8(r, 3) + "=" + randCleanUTF8(r, 3) + "@" + randCleanUTF8(r, 6)
			} else {
				f += "=" + strings.Replace(good(), "@", "", -1) + "=" + pick(r, []string{"w", "", "=", "true"})
			}
		}
		// stray white space: extra spaces between fields, other white space at the edges of a field
		s += pick(r, []string{"", "", "", "\t", "\n"}) + f + pick(r, []string{"", "", "", "\r", "\t"}) + strings.Repeat(" ", 1+r.Intn(3)/2)
	}
	if r.Intn(2) == 0 {
		s = strings.TrimRight(s, " ")
	}
	return s
}

type vDec15 struct {
	Jk    string `json:"jk"`
	Miss  string `json:"miss"`
	Emb   bool   `json:"emb"`
	Shape string `json:"shape"`
}

func concreteDecode(r *mrand.Rand, d vDec15) string {
	emb := "plain"
	if d.Emb {
		emb = "a" + spaces(r) + "req=mallory@evil" + spaces(r) + "SSHClientVersion=9.9 b"
	}
	switch d.Jk {
	case "null":
		return "null"
	case "array":
		return mustJSON([]interface{}{emb})
	case "string":
		return mustJSON(emb)
	}
	m := map[string]interface{}{"ifVer": 7, "username": randUTF8(r, 8) + "u", "hostname": randUTF8(r, 8) + "h", "sshClientVersion": randVerAB(r), "hardKey": true,
		"exts": map[string]interface{}{"note": emb}}
	key := map[string]string{"ver": "sshClientVersion", "user": "username", "host": "hostname"}[d.Miss]
	if key != "" {
		if r.Intn(2) == 0 {
			delete(m, key)
		} else {
			m[key] = ""
		}
	}
	switch d.Shape {
	case "extra":
		m["unknown"] = randJSONValue(r, 3)
		m["touchlessSudo"] = map[string]interface{}{"hosts": "a,b", "time": 5, "other": 1}
	case "badtype":
		m[pick(r, []string{"hardKey", "touch2SSH", "ifVer", "touchlessSudo", "caPubKeyAlgo", "signatureAlgo"})] = "text"
	case "ifver6":
		m["ifVer"] = pick1(r, []int{6, 0, -1})
	}
	return mustJSON(m)
}

func randLegacyTextB(r *mrand.Rand) string {
	keys := []string{"req", "req", "HardKey", "IFVer", "SSHClientVersion", "Touch2SSH", "IsFirefighter", "TouchlessSudoHosts", "TouchlessSudoTime", "other", "Req", "é", ""}
	n := r.Intn(6)
	s := ""
	for i := 0; i < n; i++ {
		k := pick(r, keys)
		v := ""
		switch r.Intn(8) {
		case 0:
		case 1:
			v = "="
		case 2:
			v = "=" + randCleanUTF8(r, 8) + "@" + randCleanUTF8(r, 8)
		case 3:
			v = "=" + pick(r, []string{"true", "false", "1", "0", "T", "yes", "TRUE", "t"})
		case 4:
			v = "=" + pick(r, []string{"30", "-5", "+7", "007", "9223372036854775807", "9223372036854775808", "1e3", "0x10", "6", "7"})
		case 5:
			v = "=" + randCleanUTF8(r, 6) + "=" + randCleanUTF8(r, 6)
		case 6:
			v = "=" + pick(r, []string{"a@b@c", "@", "@@", "a@", "@b", "a\tb@c", "\xff@\xfe", "a @b"})
		default:
			v = "=" + randVerAB(r)
		}
		s += strings.Repeat(" ", r.Intn(3)) + pick(r, []string{"", "", "", "\t", "\n", "\u0085", " "}) + k + v + pick(r, []string{"", "", "", "\r", "\v", " "}) + " "
	}
	return s
}

func randDecodeTextB(r *mrand.Rand) string {
	cmd, _ := randCmdB(r)
	return cmd
}

func x509PKA(n int) x509.PublicKeyAlgorithm { return x509.PublicKeyAlgorithm(n) }
func x509SA(n int) x509.SignatureAlgorithm  { return x509.SignatureAlgorithm(n) }

// ---------------------------------------------------------------------------------------------
// driver

type vPlanCase struct {
	K   string          `json:"k"`
	C   json.RawMessage `json:"c"`
	Xok string          `json:"xok"`
}
type vReplay struct {
	E struct {
		Op string `json:"op"`
	} `json:"e"`
	Info json.RawMessage `json:"info"`
}
type vPlan struct {
	Prop    string      `json:"prop"`
	Cases   []vPlanCase `json:"cases"`
	Random  int         `json:"random"`
	Replays []vReplay   `json:"replays"`
	Conc    struct {
		G      int `json:"g"`
		Rounds int `json:"rounds"`
	} `json:"conc"`
	Hist int `json:"hist"`
}

func mustUn(b []byte, v interface{}) {
	if err := json.Unmarshal(b, v); err != nil {
		panic(fmt.Sprintf("verif: bad plan: %v: %s", err, string(b)))
	}
}

func TestVerifReqParam(t *testing.T) {
	planp, outp := os.Getenv("VERIF_PLAN"), os.Getenv("VERIF_OUT")
	if planp == "" || outp == "" {
		t.Skip("VERIF_PLAN / VERIF_OUT not set")
	}
	pb, err := os.ReadFile(planp)
	if err != nil {
		t.Fatal(err)
	}
	var plan vPlan
	mustUn(pb, &plan)
	tr, err := verifh.OpenTrace(outp)
	if err != nil {
		t.Fatal(err)
	}
	run := &vRun{tr: tr, classes: map[string]int{}, errtexts: map[string]int{}}
	tr.Emit(vRec{Ev: "reset", Tid: "t0"})
	rnd := verifh.NewRand("reqparam-"+plan.Prop, 0)

	for _, pc := range plan.Cases {
		switch pc.K {
		case "c14":
			var c vCase14
			mustUn(pc.C, &c)
			run.do14(concrete14(rnd, c, pc.Xok))
		case "rt":
			var s vSet15
			mustUn(pc.C, &s)
			run.doRt(concreteSet(rnd, s), pc.Xok)
		case "leg":
			var toks []vLTok
			mustUn(pc.C, &toks)
			text := concreteLegacyText(rnd, toks)
			run.doLegacyText(text, pc.Xok, "A:leg")
			run.doDecode(text, pc.Xok, "A:leg")
		case "dec":
			var d vDec15
			mustUn(pc.C, &d)
			run.doDecode(concreteDecode(rnd, d), pc.Xok, "A:dec")
		}
	}
	for i := 0; i < plan.Random; i++ {
		if plan.Prop == "C14" {
			run.do14(randIn14(rnd))
			continue
		}
		switch i % 4 {
		case 0, 1:
			run.doRt(randSet(rnd), "na")
		case 2:
			text := randLegacyTextB(rnd)
			run.doLegacyText(text, "na", "B:leg")
			run.doDecode(text, "na", "B:leg")
		default:
			run.doDecode(randDecodeTextB(rnd), "na", "B:dec")
		}
	}
	for i := 0; i < plan.Hist && plan.Prop == "C15"; i++ {
		others := make([]*message.Attributes, 1+rnd.Intn(3))
		for j := range others {
			others[j] = randSet(rnd)
		}
		run.doRtHist(randSet(rnd), others)
	}
	var concFirst []*message.Attributes
	for _, rp := range plan.Replays {
		switch rp.E.Op {
		case "reqparam":
			var in vIn14
			mustUn(rp.Info, &in)
			run.do14(in)
		case "tidbatch":
			var b struct {
				Calls []vIn14 `json:"calls"`
			}
			mustUn(rp.Info, &b)
			for _, in := range b.Calls {
				run.do14(in)
			}
		case "rt":
			var in vInRt
			mustUn(rp.Info, &in)
			a := &message.Attributes{}
			mustUn(in.Attrs, a)
			switch in.Mode {
			case "conc":
				concFirst = append(concFirst, a)
			case "hist":
				run.doRtHist(a, []*message.Attributes{randSet(rnd), randSet(rnd)})
			default:
				run.doRt(a, in.Xok)
			}
		case "declegacy":
			var in vInText
			mustUn(rp.Info, &in)
			run.doLegacyText(unhx(in.Text), in.Xok, in.Cls)
		case "decode":
			var in vInText
			mustUn(rp.Info, &in)
			run.doDecode(unhx(in.Text), in.Xok, in.Cls)
		}
	}
	if plan.Conc.G > 0 && (len(plan.Replays) == 0 || len(concFirst) > 0) {
		if plan.Prop == "C14" {
			run.conc14(rnd, plan.Conc.G, plan.Conc.Rounds)
		} else {
			run.concRt(rnd, plan.Conc.G, plan.Conc.Rounds, concFirst)
		}
	}
	if plan.Prop == "C14" && run.calls14 > 0 {
		run.batch()
	}
	if err := tr.Close(); err != nil {
		t.Fatal(err)
	}
	sum := map[string]interface{}{"events": run.n, "calls14": run.calls14, "ok14": run.ok14, "pan": run.pan, "classes": run.classes, "panics": run.errtexts}
	b, _ := json.Marshal(sum)
	fmt.Printf("VERIF-SUMMARY %s\n", b)
}
