//go:build verif

package crypki

// Conformance harness for spec/Signer.tla (properties C17, C18).  Driver and observer only: it executes the real
// (*Signer).Sign / NewSigner against harness CA servers and records what the servers saw and what Sign returned;
// TLC (spec/TraceSigner.tla) judges the records.
//
// mode "c17": per-endpoint stub Signing servers over bufconn, signer built in-package from the dial options of a
//             real NewSigner (retry interceptor with Retries = 1) plus insecure credentials and a context dialer.
// mode "c18": real TLS gRPC servers on 127.0.0.1..4:<port>, certificates minted here, signer from the real NewSigner.

import (
	"bytes"
	"context"
	"crypto/ecdsa"
	"crypto/elliptic"
	"crypto/rand"
	"crypto/sha256"
	"crypto/tls"
	"crypto/x509"
	"crypto/x509/pkix"
	"encoding/hex"
	"encoding/json"
	"encoding/pem"
	"fmt"
	"math/big"
	mrand "math/rand"
	"net"
	"os"
	"path/filepath"
	"sort"
	"strconv"
	"strings"
	"sync"
	"syscall"
	"testing"
	"time"

	pb "github.com/theparanoids/crypki/proto"
	"github.com/theparanoids/ysshra/internal/backoff"
	"github.com/theparanoids/ysshra/tlsutils"
	"github.com/theparanoids/ysshra/verifh"
	"golang.org/x/crypto/ssh"
	"google.golang.org/grpc"
	"google.golang.org/grpc/codes"
	"google.golang.org/grpc/credentials"
	"google.golang.org/grpc/credentials/insecure"
	"google.golang.org/grpc/status"
	"google.golang.org/grpc/test/bufconn"
	"google.golang.org/protobuf/proto"
)

type zvsTpl struct {
	ID    string   `json:"id"`
	Vmax  string   `json:"vmax"`
	Pol   string   `json:"pol"`
	Hint  string   `json:"hint"` // acceptable-CA names the server advertises: "own" (default) | "empty" | "other"
	Cls   string   `json:"cls"`
	Code  string   `json:"code"`
	Sh    []string `json:"sh"`
	Certs []string `json:"certs"`
	Cm    []string `json:"cm"`
}

type zvsBundle struct {
	Cas []string `json:"cas"`
	Lay string   `json:"lay"`
}

// zvsInfo carries the concrete values behind the abstract descriptors (not read by TLC; used by --replay).
type zvsInfo struct {
	Via        string   `json:"via"`     // direct | directnil | newsigner | gensignconf | tls
	Replies    []string `json:"replies"` // hex of the key material each endpoint answers with
	Codes      []int    `json:"codes"`   // status code of "rpc" endpoints
	TryMs      int      `json:"tryms"`
	Big        bool     `json:"big,omitempty"`     // replies too large to record: they are re-created from the templates on replay
	Discard    string   `json:"discard,omitempty"` // set when the run of this case says nothing (machine too slow for its timing)
	WallMs     int      `json:"wallms"`
	Reconnects int      `json:"reconnects,omitempty"` // request-less connection attempts to endpoints already contacted (not contacts)
	Loaded0    []string `json:"loaded0"`              // CA names TLS configurations of this process had read when the case started
	Note       string   `json:"note,omitempty"`
}

type zvsCase struct {
	Tid    string    `json:"tid"`
	Eps    []zvsTpl  `json:"eps"`
	Bundle zvsBundle `json:"bundle"`
	Next   []zvsTpl  `json:"next"`  // outcome vector of a second signing call on the same Signer (empty: one call)
	Req    string    `json:"req"`   // request content class (default "full")
	Tries  int       `json:"tries"` // tries per endpoint of the retry interceptor (default 1)
	Ctx    string    `json:"ctx"`   // request budget: "wide" (default) | "tight" | "none" | "ample"
	Hist   string    `json:"hist"`  // process history: "none" (default) | "before" | "between" | "signer" | "rotate"
	Info   *zvsInfo  `json:"info"`
	raw    [][]byte  // the reply bytes of each endpoint (always; info.replies omits what is too large to record)
}

type zvsPlan struct {
	Mode      string    `json:"mode"`
	Cases     []zvsCase `json:"cases"`
	Random    int       `json:"random"`
	N0        bool      `json:"n0"`
	Replays   []zvsCase `json:"replays"`
	Lanes     int       `json:"lanes"`
	TryMs     int       `json:"tryms"`
	Preload   []string  `json:"preload"`   // CA names another TLS configuration loads before anything else (re-execution of a history)
	BackoffMs int       `json:"backoffms"` // delay between the tries of one endpoint (sets backoff.DefaultConfig for this process)
	OnlyCas   []string  `json:"onlycas"`   // random cases use bundles over exactly these CAs (a process with a controlled history)
}

type zvsReset struct {
	Ev     string    `json:"ev"`
	Tid    string    `json:"tid"`
	Eps    []zvsTpl  `json:"eps"`
	Bundle zvsBundle `json:"bundle"`
	Ctx    string    `json:"ctx"`
	Next   []zvsTpl  `json:"next"`
	Req    string    `json:"req"`
	Tries  int       `json:"tries"`
	Hist   string    `json:"hist"`
	Info   *zvsInfo  `json:"info"`
}

type zvsStep struct {
	Ev  string                 `json:"ev"`
	Tid string                 `json:"tid"`
	E   map[string]interface{} `json:"e"`
}

// zvsLoaded tracks which CA files any TLS configuration built in this process has been given (process history).
var (
	zvsLoadedMu sync.Mutex
	zvsLoaded   = map[string]bool{}
)

func zvsNoteLoaded(names ...string) {
	zvsLoadedMu.Lock()
	for _, n := range names {
		zvsLoaded[n] = true
	}
	zvsLoadedMu.Unlock()
}

func zvsLoadedNow() []string {
	zvsLoadedMu.Lock()
	defer zvsLoadedMu.Unlock()
	out := []string{}
	for n := range zvsLoaded {
		out = append(out, n)
	}
	sort.Strings(out)
	return out
}

func zvsNorm(s []string) []string {
	if s == nil {
		return []string{}
	}
	return s
}

// ---------------------------------------------------------------------------------------------
// SSH certificates the stub CAs answer with

var (
	zvsCertMu   sync.Mutex
	zvsCertPool = map[string]*ssh.Certificate{}
)

func zvsFp(k ssh.PublicKey) string {
	h := sha256.Sum256(k.Marshal())
	return hex.EncodeToString(h[:8])
}

// zvsCert returns the process-wide certificate named (a, b): distinct subject keys of rotating types.
func zvsCert(a, b int) *ssh.Certificate {
	id := fmt.Sprintf("%d_%d", a, b)
	zvsCertMu.Lock()
	defer zvsCertMu.Unlock()
	if c, ok := zvsCertPool[id]; ok {
		return c
	}
	kinds := []string{"ed25519", "ecdsa256", "ecdsa384", "rsa2048", "ecdsa521"}
	kind := kinds[(a*3+b)%len(kinds)]
	if kind == "rsa2048" && (a*3+b)%10 != 3 {
		kind = "ed25519" // one RSA key per run is enough (generation is slow)
	}
	ca := verifh.PoolKey(900, "ed25519")
	sub := verifh.PoolKey(1000+a*16+b, kind)
	now := uint64(time.Now().Unix())
	c := verifh.Mint(ca.Signer, verifh.CertSpec{Key: sub.Pub, KeyID: "verif-" + id, ValidAfter: now - 60, ValidBefore: now + 3600,
		Principals: []string{"user" + id}, Serial: uint64(a*100 + b), Exts: GetDefaultExtension()})
	zvsCertPool[id] = c
	return c
}

func zvsLine(c *ssh.Certificate, comment, indent, eol string) []byte {
	l := strings.TrimRight(string(ssh.MarshalAuthorizedKey(c)), "\n")
	if comment != "" {
		l += " " + comment
	}
	return []byte(indent + l + eol)
}

// zvsCm names a comment in a trace: its bytes in hex, or length and digest when it is long (equality of names = equality of bytes).
func zvsCm(cm string) string {
	if len(cm) <= 200 {
		return hex.EncodeToString([]byte(cm))
	}
	h := sha256.Sum256([]byte(cm))
	return fmt.Sprintf("len%d-sha256-%s", len(cm), hex.EncodeToString(h[:12]))
}

// zvsLongComment pads the comment so that the reply line of crt (key type, base64, blank, comment; without the line
// terminator) is exactly n bytes long.
func zvsLongComment(crt *ssh.Certificate, n int, m, j int) string {
	base := len(strings.TrimRight(string(ssh.MarshalAuthorizedKey(crt)), "\n")) + 1
	k := n - base
	if k < 8 {
		panic("verif: line length below the certificate's own length")
	}
	b := make([]byte, k)
	pat := fmt.Sprintf("long comment %d_%d 0123456789abcdefghijklmnopqrstuvwxyz ", m, j)
	for x := range b {
		b[x] = pat[x%len(pat)]
	}
	b[0], b[k-1] = 'c', 'z'
	return string(b)
}

func zvsComment(shape string, m, j int, r *mrand.Rand) string {
	switch shape {
	case "none":
		return ""
	case "word":
		return fmt.Sprintf("user%d_%d@ra.example", m, j)
	case "spaces":
		return fmt.Sprintf("two words  and\ta tab %d_%d", m, j)
	case "utf8":
		return fmt.Sprintf("schlüssel 鍵 %d_%d", m, j)
	case "hash":
		return fmt.Sprintf("# not a comment line %d \"quoted\" 'x' \\ {json:[1]}", j)
	case "keylike":
		return "ssh-ed25519 AAAAC3NzaC1lZDI1NTE5AAAAIG" + fmt.Sprint(m, j)
	}
	return shape
}

// zvsInstantiate fills the concrete reply bytes, status codes and the expected certificate / comment names of a case
// given as templates (direction A), unless the case already carries them (replay).
func zvsInstantiate(c *zvsCase, r *mrand.Rand) {
	if c.Info == nil {
		c.Info = &zvsInfo{}
	}
	have := len(c.Info.Replies) == len(c.Eps) && len(c.Info.Codes) == len(c.Eps) && len(c.Eps) > 0 && !c.Info.Big
	c.Info.Big = false
	if !have {
		c.Info.Replies = make([]string, len(c.Eps))
		c.Info.Codes = make([]int, len(c.Eps))
	}
	c.raw = make([][]byte, len(c.Eps))
	for m := range c.Eps {
		e := &c.Eps[m]
		e.Sh = zvsNorm(e.Sh)
		if e.Hint == "" {
			e.Hint = "own"
			if e.ID == "plain" {
				e.Hint = "none"
			}
		}
		if have {
			c.raw[m], _ = hex.DecodeString(c.Info.Replies[m])
			e.Certs, e.Cm = zvsNorm(e.Certs), zvsNorm(e.Cm)
			continue
		}
		e.Certs, e.Cm = []string{}, []string{}
		var reply []byte
		switch e.Cls {
		case "ok":
			for j, sh := range e.Sh {
				crt := zvsCert(m+1, j+1)
				cm := zvsComment(sh, m+1, j+1, r)
				if n, err := strconv.Atoi(strings.TrimPrefix(sh, "L")); err == nil && strings.HasPrefix(sh, "L") {
					cm = zvsLongComment(crt, n, m+1, j+1)
				}
				reply = append(reply, zvsLine(crt, cm, "", "\n")...)
				e.Certs = append(e.Certs, zvsFp(crt))
				e.Cm = append(e.Cm, zvsCm(cm))
			}
		case "unparsable":
			reply = []byte([]string{"this is not key material\n", "ssh-ed25519 AAAA!!!! broken\n", "-----BEGIN CERTIFICATE-----\nMIIB\n-----END CERTIFICATE-----\n",
				"{\"key\":\"none\"}", "\n\n  \n"}[r.Intn(5)])
		case "rpc":
			var pool []int
			switch e.Code {
			case "retriable":
				pool = []int{int(codes.Unavailable), int(codes.ResourceExhausted)}
			case "deadlinecode":
				pool = []int{int(codes.DeadlineExceeded), int(codes.Canceled)}
			case "other":
				pool = []int{2, 3, 5, 6, 7, 9, 10, 11, 12, 13, 15, 16}
			default:
				if n, err := strconv.Atoi(e.Code); err == nil && n >= 1 && n <= 16 {
					pool = []int{n} // a status code given by number
					break
				}
				for k := 1; k <= 16; k++ {
					pool = append(pool, k)
				}
			}
			c.Info.Codes[m] = pool[r.Intn(len(pool))]
		}
		c.raw[m] = reply
		if len(reply) > 16384 {
			c.Info.Big = true // re-created from the templates on replay
		} else {
			c.Info.Replies[m] = hex.EncodeToString(reply)
		}
	}
}

// zvsRandomCase draws a case with concrete reply shapes the model abstracts away (direction B).
func zvsRandomCase(tid string, r *mrand.Rand, tlsMode bool, onlyCas []string) zvsCase {
	n := 1 + r.Intn(4)
	if !tlsMode && r.Intn(12) == 0 {
		n = 0
	}
	c := zvsCase{Tid: tid, Eps: make([]zvsTpl, n), Bundle: zvsBundle{Cas: []string{}, Lay: "none"}, Req: zvsReqKinds[r.Intn(len(zvsReqKinds))], Info: &zvsInfo{Replies: make([]string, n), Codes: make([]int, n)}}
	if tlsMode {
		bs := []zvsBundle{{[]string{"ca1"}, "one"}, {[]string{"ca1", "ca2"}, "two"}, {[]string{"ca1", "ca2"}, "concat"}, {[]string{"ca2"}, "one"}, {[]string{"ca2", "ca1"}, "two"}}
		if len(onlyCas) > 0 {
			var sel []zvsBundle
			want := append([]string{}, onlyCas...)
			sort.Strings(want)
			for _, b := range bs {
				have := append([]string{}, b.Cas...)
				sort.Strings(have)
				if strings.Join(have, ",") == strings.Join(want, ",") {
					sel = append(sel, b)
				}
			}
			bs = sel
		}
		c.Bundle = bs[r.Intn(len(bs))]
	}
	noise := []string{"", "   ", "# a comment line", "-----BEGIN SSH-----", "garbage", "two words", "ssh-rsa notbase64!", "\t"}
	shapes := []string{"none", "word", "spaces", "utf8", "hash", "keylike"}
	used := map[string]bool{}
	for m := 0; m < n; m++ {
		e := &c.Eps[m]
		*e = zvsTpl{ID: "plain", Vmax: "none", Pol: "none", Sh: []string{}, Certs: []string{}, Cm: []string{}}
		if tlsMode {
			kinds := [][2]string{{"ca1", "tls13"}, {"ca1", "tls12"}, {"ca2", "tls13"}, {"ca2", "tls12"}, {"foreign", "tls13"}, {"selfsigned", "tls13"},
				{"expired", "tls13"}, {"wrongname", "tls13"}, {"ca1", "tls11"}, {"ca2", "tls11"}, {"foreign", "tls12"}, {"expired", "tls11"},
				{"hosttrusted", "tls13"}, {"hosttrusted", "tls12"}}
			k := kinds[r.Intn(len(kinds))]
			if r.Intn(3) == 0 {
				k = kinds[r.Intn(4)]
			}
			e.ID, e.Vmax, e.Pol = k[0], k[1], []string{"require", "request", "ignore"}[r.Intn(3)]
		}
		x := r.Intn(100)
		var reply []byte
		switch {
		case x < 45:
			e.Cls = "ok"
			k := 1 + r.Intn(3)
			for j := 0; j < k; j++ {
				for r.Intn(3) == 0 {
					reply = append(reply, []byte(noise[r.Intn(len(noise))]+[]string{"\n", "\r\n"}[r.Intn(2)])...)
				}
				var a, b int
				for {
					a, b = 5+r.Intn(4), 1+r.Intn(6)
					if !used[fmt.Sprint(a, b)] {
						break
					}
				}
				used[fmt.Sprint(a, b)] = true
				crt := zvsCert(a, b)
				sh := shapes[r.Intn(len(shapes))]
				cm := zvsComment(sh, a, b, r)
				eol := []string{"\n", "\n", "\r\n"}[r.Intn(3)]
				indent := []string{"", "", "", " ", "\t"}[r.Intn(5)]
				if j == k-1 && r.Intn(4) == 0 {
					eol = "" // last line without terminator
				}
				reply = append(reply, zvsLine(crt, cm, indent, eol)...)
				e.Sh = append(e.Sh, sh)
				e.Certs = append(e.Certs, zvsFp(crt))
				e.Cm = append(e.Cm, zvsCm(cm))
			}
			if len(reply) > 0 && reply[len(reply)-1] == '\n' {
				for r.Intn(3) == 0 { // trailing garbage
					reply = append(reply, []byte(noise[r.Intn(len(noise))]+"\n")...)
				}
			}
		case x < 70:
			e.Cls, e.Code = "rpc", "any"
			c.Info.Codes[m] = 1 + r.Intn(16)
		case x < 82:
			e.Cls = "unparsable"
			for k := 0; k < 1+r.Intn(3); k++ {
				reply = append(reply, []byte(noise[1+r.Intn(len(noise)-1)]+"\n")...)
			}
		case x < 90:
			e.Cls = "empty"
		default:
			e.Cls = "deadline"
			if tlsMode {
				e.Cls = "empty"
			}
		}
		c.Info.Replies[m] = hex.EncodeToString(reply)
	}
	return c
}

// zvsReqKinds are the request content classes (spec: env.req).
var zvsReqKinds = []string{"full", "noext", "emptyext", "customext", "nocrit", "emptycrit", "noprins", "oneprin", "zeroval", "maxval", "nokeymeta", "bare"}

func zvsRequest(r *mrand.Rand, tid string, kind string) *pb.SSHCertificateSigningRequest {
	q := zvsFullRequest(r, tid)
	switch kind {
	case "noext": // e.g. a restricted forced-command certificate
		q.Extensions = nil
	case "emptyext":
		q.Extensions = map[string]string{}
	case "customext":
		q.Extensions = map[string]string{"permit-pty": "", "x-verif@example": "v"}
	case "nocrit":
		q.CriticalOptions = nil
	case "emptycrit":
		q.CriticalOptions = map[string]string{}
	case "noprins":
		q.Principals = nil
	case "oneprin":
		q.Principals = []string{"solo"}
	case "zeroval":
		q.Validity = 0
	case "maxval":
		q.Validity = ^uint64(0)
	case "nokeymeta":
		q.KeyMeta = nil
	case "bare":
		q = &pb.SSHCertificateSigningRequest{PublicKey: q.PublicKey}
	}
	return q
}

func zvsFullRequest(r *mrand.Rand, tid string) *pb.SSHCertificateSigningRequest {
	return &pb.SSHCertificateSigningRequest{
		KeyMeta:         &pb.KeyMeta{Identifier: "ssh-user-key-" + tid},
		Principals:      []string{"user", "user:touch", fmt.Sprintf("p%d", r.Intn(1000))},
		PublicKey:       string(ssh.MarshalAuthorizedKey(verifh.PoolKey(901, "ed25519").Pub)),
		Validity:        uint64(600 + r.Intn(86400)),
		KeyId:           fmt.Sprintf(`{"prins":["user"],"transID":"%s","reqUser":"u","reqIP":"1.2.3.4","reqHost":"h","ver":1}`, tid),
		CriticalOptions: map[string]string{"source-address": "10.0.0.0/8", "force-command": "true"},
		Extensions:      GetDefaultExtension(),
		Priority:        pb.Priority(r.Intn(4)),
	}
}

// ---------------------------------------------------------------------------------------------
// PKI for the TLS files of NewSigner and for the TLS servers of mode c18

type zvsAuthority struct {
	cert *x509.Certificate
	key  *ecdsa.PrivateKey
	pem  []byte
}

type zvsPKI struct {
	dir             string
	ca              map[string]*zvsAuthority // ca1, ca2, caX, cli
	cliCert, cliKey string
	cliDER          []byte
	caFile          map[string]string // ca1, ca2, concat
	cliPool         *x509.CertPool
	mu              sync.Mutex
	leaves          map[string]*tls.Certificate
	serial          int64
}

func zvsMust(err error) {
	if err != nil {
		panic(err)
	}
}

func (p *zvsPKI) sign(tpl *x509.Certificate, parent *zvsAuthority, key *ecdsa.PrivateKey) []byte {
	p.serial++
	tpl.SerialNumber = big.NewInt(p.serial + 1000)
	pc, pk := tpl, key
	if parent != nil {
		pc, pk = parent.cert, parent.key
	}
	der, err := x509.CreateCertificate(rand.Reader, tpl, pc, &key.PublicKey, pk)
	zvsMust(err)
	return der
}

func (p *zvsPKI) authority(cn string) *zvsAuthority {
	k, err := ecdsa.GenerateKey(elliptic.P256(), rand.Reader)
	zvsMust(err)
	now := time.Now()
	tpl := &x509.Certificate{Subject: pkix.Name{CommonName: cn, Organization: []string{"verif"}}, NotBefore: now.Add(-96 * time.Hour), NotAfter: now.Add(96 * time.Hour),
		IsCA: true, BasicConstraintsValid: true, KeyUsage: x509.KeyUsageCertSign | x509.KeyUsageDigitalSignature}
	der := p.sign(tpl, nil, k)
	c, err := x509.ParseCertificate(der)
	zvsMust(err)
	return &zvsAuthority{cert: c, key: k, pem: pem.EncodeToMemory(&pem.Block{Type: "CERTIFICATE", Bytes: der})}
}

func zvsNewPKI(dir string) *zvsPKI {
	zvsMust(os.MkdirAll(dir, 0o700))
	p := &zvsPKI{dir: dir, ca: map[string]*zvsAuthority{}, caFile: map[string]string{}, leaves: map[string]*tls.Certificate{}}
	for _, n := range []string{"ca1", "ca2", "caX", "caH", "cli"} {
		p.ca[n] = p.authority("verif " + n)
	}
	p.ca["ca1b"] = p.authority("verif ca1") // another CA certificate (own key) under the subject name of ca1
	w := func(name string, b []byte) string {
		f := filepath.Join(dir, name)
		zvsMust(os.WriteFile(f, b, 0o600))
		return f
	}
	p.caFile["ca1"] = w("ca1.pem", p.ca["ca1"].pem)
	p.caFile["ca2"] = w("ca2.pem", p.ca["ca2"].pem)
	p.caFile["ca1b"] = w("ca1b.pem", p.ca["ca1b"].pem)
	p.caFile["caX"] = w("caX.pem", p.ca["caX"].pem)
	p.caFile["concat"] = w("ca12.pem", append(append([]byte{}, p.ca["ca1"].pem...), p.ca["ca2"].pem...))
	// the trust store of the RA's host, under the control of the harness: it holds the CA "caH" only.  Go reads these
	// variables when the system pool is first used, which the code under test must never do for CA servers.
	p.caFile["host"] = w("host_roots.pem", p.ca["caH"].pem)
	zvsMust(os.MkdirAll(filepath.Join(dir, "empty_cert_dir"), 0o700))
	zvsMust(os.Setenv("SSL_CERT_FILE", p.caFile["host"]))
	zvsMust(os.Setenv("SSL_CERT_DIR", filepath.Join(dir, "empty_cert_dir")))
	k, err := ecdsa.GenerateKey(elliptic.P256(), rand.Reader)
	zvsMust(err)
	now := time.Now()
	der := p.sign(&x509.Certificate{Subject: pkix.Name{CommonName: "ysshra-ra.verif"}, NotBefore: now.Add(-time.Hour), NotAfter: now.Add(48 * time.Hour),
		KeyUsage: x509.KeyUsageDigitalSignature, ExtKeyUsage: []x509.ExtKeyUsage{x509.ExtKeyUsageClientAuth}}, p.ca["cli"], k)
	p.cliDER = der
	kb, err := x509.MarshalECPrivateKey(k)
	zvsMust(err)
	p.cliCert = w("client.crt", pem.EncodeToMemory(&pem.Block{Type: "CERTIFICATE", Bytes: der}))
	p.cliKey = w("client.key", pem.EncodeToMemory(&pem.Block{Type: "EC PRIVATE KEY", Bytes: kb}))
	p.cliPool = x509.NewCertPool()
	p.cliPool.AddCert(p.ca["cli"].cert)
	return p
}

// leaf returns the server certificate of identity class id for the endpoint 127.0.0.<pos>.
func (p *zvsPKI) leaf(id string, pos int) *tls.Certificate {
	key := fmt.Sprintf("%s|%d", id, pos)
	p.mu.Lock()
	defer p.mu.Unlock()
	if c, ok := p.leaves[key]; ok {
		return c
	}
	k, err := ecdsa.GenerateKey(elliptic.P256(), rand.Reader)
	zvsMust(err)
	now := time.Now()
	tpl := &x509.Certificate{Subject: pkix.Name{CommonName: fmt.Sprintf("crypki-%s-%d.verif", id, pos)}, NotBefore: now.Add(-time.Hour), NotAfter: now.Add(48 * time.Hour),
		KeyUsage: x509.KeyUsageDigitalSignature, ExtKeyUsage: []x509.ExtKeyUsage{x509.ExtKeyUsageServerAuth},
		IPAddresses: []net.IP{net.IPv4(127, 0, 0, byte(pos))}, BasicConstraintsValid: true}
	var parent *zvsAuthority
	switch id {
	case "ca1", "ca2", "ca1b":
		parent = p.ca[id]
	case "foreign":
		parent = p.ca["caX"]
	case "hosttrusted":
		parent = p.ca["caH"]
	case "selfsigned":
		parent = nil
	case "expired":
		parent = p.ca["ca1"]
		tpl.NotBefore, tpl.NotAfter = now.Add(-72*time.Hour), now.Add(-24*time.Hour)
	case "expired1m", "expired4m", "expired10m", "notyet1m", "notyet4m", "valid2m": // validity boundaries (relative to the minting of this leaf)
		parent = p.ca["ca1"]
		switch id {
		case "expired1m":
			tpl.NotAfter = now.Add(-1 * time.Minute)
		case "expired4m":
			tpl.NotAfter = now.Add(-4 * time.Minute)
		case "expired10m":
			tpl.NotAfter = now.Add(-10 * time.Minute)
		case "notyet1m":
			tpl.NotBefore = now.Add(1 * time.Minute)
		case "notyet4m":
			tpl.NotBefore = now.Add(4 * time.Minute)
		case "valid2m":
			tpl.NotAfter = now.Add(2 * time.Minute)
		}
	case "wrongname":
		parent = p.ca["ca1"]
		tpl.IPAddresses = []net.IP{net.IPv4(127, 0, 9, byte(pos))}
		tpl.DNSNames = []string{"other-crypki.verif.example"}
	default:
		panic("verif: unknown identity class " + id)
	}
	der := p.sign(tpl, parent, k)
	c := &tls.Certificate{Certificate: [][]byte{der}, PrivateKey: k}
	p.leaves[key] = c
	return c
}

func (p *zvsPKI) bundleFiles(b zvsBundle) []string {
	if len(b.Cas) == 0 {
		return []string{p.caFile["ca1"]}
	}
	names := append([]string{}, b.Cas...)
	if strings.HasSuffix(b.Lay, "rev") { // the other order of the files / of the certificates in the file
		for i, j := 0, len(names)-1; i < j; i, j = i+1, j-1 {
			names[i], names[j] = names[j], names[i]
		}
	}
	if strings.HasPrefix(b.Lay, "concat") {
		f := filepath.Join(p.dir, "concat_"+strings.Join(names, "_")+".pem")
		p.mu.Lock()
		defer p.mu.Unlock()
		if _, err := os.Stat(f); err != nil {
			var all []byte
			for _, c := range names {
				all = append(all, p.ca[c].pem...)
			}
			zvsMust(os.WriteFile(f, all, 0o600))
		}
		return []string{f}
	}
	var fs []string
	for _, c := range names {
		fs = append(fs, p.caFile[c])
	}
	return fs
}

// others returns the names and files of the CAs a signer with bundle b must NOT trust (the material of history steps).
func (p *zvsPKI) others(b zvsBundle) (names, files []string) {
	in := map[string]bool{}
	for _, c := range b.Cas {
		in[c] = true
	}
	for _, c := range []string{"ca1", "ca2", "caX"} {
		if !in[c] {
			names = append(names, c)
			files = append(files, p.caFile[c])
		}
	}
	return
}

// privateBundle writes the bundle's files under their own paths for one case; content(i) is the proper content of file i.
func (p *zvsPKI) privateBundle(tid string, b zvsBundle) (paths []string, content [][]byte) {
	dir := filepath.Join(p.dir, "case_"+tid)
	zvsMust(os.MkdirAll(dir, 0o700))
	if b.Lay == "concat" {
		var all []byte
		for _, c := range b.Cas {
			all = append(all, p.ca[c].pem...)
		}
		return []string{filepath.Join(dir, "bundle.pem")}, [][]byte{all}
	}
	for k, c := range b.Cas {
		paths = append(paths, filepath.Join(dir, fmt.Sprintf("ca_%d.pem", k)))
		content = append(content, p.ca[c].pem)
	}
	return
}

func (p *zvsPKI) serverConfig(e zvsTpl, pos int) *tls.Config {
	cfg := &tls.Config{Certificates: []tls.Certificate{*p.leaf(e.ID, pos)}, MinVersion: tls.VersionTLS10, NextProtos: []string{"h2"}, ClientCAs: p.cliPool}
	// explicit list: grpc's server credentials would otherwise restrict the suites to the HTTP/2-safe AEAD ones, which
	// no TLS 1.0/1.1 handshake can use, and the "TLS <= 1.1 only" server would fail for the wrong reason
	for _, cs := range tls.CipherSuites() {
		cfg.CipherSuites = append(cfg.CipherSuites, cs.ID)
	}
	switch e.Vmax {
	case "tls11":
		cfg.MaxVersion = tls.VersionTLS11
	case "tls12":
		cfg.MaxVersion = tls.VersionTLS12
	default:
		cfg.MaxVersion = tls.VersionTLS13
	}
	switch e.Pol {
	case "require":
		cfg.ClientAuth = tls.RequireAndVerifyClientCert
	case "verifyifgiven":
		cfg.ClientAuth = tls.VerifyClientCertIfGiven
	case "requireany":
		cfg.ClientAuth = tls.RequireAnyClientCert
	case "request":
		cfg.ClientAuth = tls.RequestClientCert
	default:
		cfg.ClientAuth = tls.NoClientCert
	}
	// the server's client-CA pool: what it verifies against and what it advertises as acceptable CA names
	switch e.Hint {
	case "empty":
		cfg.ClientCAs = x509.NewCertPool()
	case "other": // e.g. after a client-CA rotation: a pool without the issuer of the RA's certificate
		o := x509.NewCertPool()
		o.AddCert(p.ca["caX"].cert)
		o.AddCert(p.ca["ca2"].cert)
		cfg.ClientCAs = o
	}
	return cfg
}

// ---------------------------------------------------------------------------------------------
// lanes: a set of position servers (endpoint 1..4) that execute one case at a time

const zvsMaxPos = 4

// zvsBackoffDelay is the delay between two tries at one endpoint once the plan has set it (plan.backoffms).
var zvsBackoffDelay = 2 * time.Second

type zvsHit struct {
	seq       int
	pos       int
	hs, ver   string
	cc        string
	rpc, same bool
	done      bool
}

type zvsLane struct {
	id                        int
	tls                       bool
	pki                       *zvsPKI
	port                      int
	mu                        sync.Mutex
	cur                       *zvsCase
	req                       *pb.SSHCertificateSigningRequest
	reply                     [][]byte
	hits                      []*zvsHit
	cancelMid                 context.CancelFunc
	epoch                     int
	accepted, closed, running int
	open                      map[*zvsConn]struct{}
	bufl                      [zvsMaxPos + 1]*bufconn.Listener
	srv                       []*grpc.Server
}

// zvsListener counts accepted and closed server-side connections of a lane, so that a case is only finished when
// everything it caused at the servers has been processed (no stale arrival can leak into the next case).
type zvsListener struct {
	net.Listener
	lane *zvsLane
}

type zvsConn struct {
	net.Conn
	lane *zvsLane
	once sync.Once
}

func (l *zvsListener) Accept() (net.Conn, error) {
	c, err := l.Listener.Accept()
	if err != nil {
		return c, err
	}
	vc := &zvsConn{Conn: c, lane: l.lane}
	l.lane.mu.Lock()
	l.lane.accepted++
	if l.lane.open == nil {
		l.lane.open = map[*zvsConn]struct{}{}
	}
	l.lane.open[vc] = struct{}{}
	l.lane.mu.Unlock()
	return vc, nil
}

func (c *zvsConn) Close() error {
	c.once.Do(func() {
		c.lane.mu.Lock()
		c.lane.closed++
		delete(c.lane.open, c)
		c.lane.mu.Unlock()
	})
	return c.Conn.Close()
}

// quiet waits until no handshake / stub handler is running and every accepted connection has been closed.  A signer
// may keep its connections open after Sign (nothing in the properties forbids that): once nothing has moved for
// `grace`, the lane closes what is still open on the server side, so that the next case starts from silence.
func (l *zvsLane) quiet(max, grace time.Duration) bool {
	t0 := time.Now()
	lastA, lastC, stable := -1, -1, time.Now()
	for time.Since(t0) < max {
		l.mu.Lock()
		run, a, c := l.running, l.accepted, l.closed
		var left []*zvsConn
		if run == 0 && a != c && a == lastA && c == lastC && time.Since(stable) >= grace {
			for x := range l.open {
				left = append(left, x)
			}
		}
		l.mu.Unlock()
		if run == 0 && a == c {
			return true
		}
		if run != 0 || a != lastA || c != lastC {
			lastA, lastC, stable = a, c, time.Now()
		}
		for _, x := range left {
			x.Close()
		}
		time.Sleep(2 * time.Millisecond)
	}
	return false
}

type zvsStub struct {
	pb.UnimplementedSigningServer
	lane *zvsLane
	pos  int
}

func (s *zvsStub) PostUserSSHCertificate(ctx context.Context, in *pb.SSHCertificateSigningRequest) (*pb.SSHKey, error) {
	l := s.lane
	l.mu.Lock()
	l.running++
	defer func() {
		l.mu.Lock()
		l.running--
		l.mu.Unlock()
	}()
	same := l.req != nil && proto.Equal(in, l.req)
	var h *zvsHit
	for k := len(l.hits) - 1; k >= 0; k-- { // the connection this call arrived on was recorded when it was made
		if l.hits[k].pos == s.pos {
			h = l.hits[k]
			break
		}
	}
	if h == nil {
		h = &zvsHit{seq: len(l.hits), pos: s.pos, hs: "none", ver: "none", cc: "none", done: true, same: true}
		l.hits = append(l.hits, h)
	}
	h.same = h.same && same
	h.rpc = true
	cls, code := "unconfigured", 0
	var reply []byte
	if l.cur != nil && s.pos <= len(l.cur.Eps) {
		cls, code, reply = l.cur.Eps[s.pos-1].Cls, l.cur.Info.Codes[s.pos-1], l.reply[s.pos-1]
	}
	l.mu.Unlock()
	switch cls {
	case "ok", "unparsable", "empty":
		return &pb.SSHKey{Key: string(reply)}, nil
	case "rpc":
		return nil, status.Error(codes.Code(code), "verif: scripted failure")
	case "deadline":
		l.mu.Lock()
		cm := l.cancelMid
		l.mu.Unlock()
		if cm != nil {
			cm() // the caller gives up while this endpoint is being tried
		}
		select {
		case <-ctx.Done():
		case <-time.After(30 * time.Second):
		}
		return nil, status.Error(codes.DeadlineExceeded, "verif: too late")
	}
	// an endpoint outside the configured list was contacted: answer with a valid certificate so that misuse shows
	return &pb.SSHKey{Key: string(zvsLine(zvsCert(9, s.pos), "rogue", "", "\n"))}, nil
}

// zvsCreds observes the server side of every TLS handshake.
type zvsCreds struct {
	credentials.TransportCredentials
	lane *zvsLane
	pos  int
}

func (c *zvsCreds) ServerHandshake(raw net.Conn) (net.Conn, credentials.AuthInfo, error) {
	l := c.lane
	l.mu.Lock()
	h := &zvsHit{seq: len(l.hits), pos: c.pos, hs: "pending", ver: "none", cc: "none", same: true}
	l.hits = append(l.hits, h)
	l.running++ // the lane is not quiet before the outcome of this handshake is recorded
	l.mu.Unlock()
	conn, ai, err := c.TransportCredentials.ServerHandshake(raw)
	l.mu.Lock()
	defer l.mu.Unlock()
	l.running--
	h.done = true
	if err != nil {
		h.hs = "fail"
		if os.Getenv("VERIF_DEBUG") != "" {
			fmt.Fprintf(os.Stderr, "verif: server handshake at position %d failed: %v\n", c.pos, err)
		}
		return conn, ai, err
	}
	h.hs = "ok"
	if ti, ok := ai.(credentials.TLSInfo); ok {
		switch ti.State.Version {
		case tls.VersionTLS13:
			h.ver = "tls13"
		case tls.VersionTLS12:
			h.ver = "tls12"
		default:
			h.ver = "old"
		}
		if pcs := ti.State.PeerCertificates; len(pcs) > 0 {
			if bytes.Equal(pcs[0].Raw, l.pki.cliDER) {
				h.cc = "configured"
			} else {
				h.cc = "other"
			}
		}
	}
	return conn, ai, err
}

func (c *zvsCreds) Clone() credentials.TransportCredentials {
	return &zvsCreds{TransportCredentials: c.TransportCredentials.Clone(), lane: c.lane, pos: c.pos}
}

func (l *zvsLane) configFor(pos int) *tls.Config {
	l.mu.Lock()
	defer l.mu.Unlock()
	e := zvsTpl{ID: "ca1", Vmax: "tls13", Pol: "ignore"}
	if l.cur != nil && pos <= len(l.cur.Eps) {
		e = l.cur.Eps[pos-1]
	}
	return l.pki.serverConfig(e, pos)
}

func zvsNewLane(id int, pki *zvsPKI, tlsMode bool) *zvsLane {
	l := &zvsLane{id: id, pki: pki, tls: tlsMode}
	if !tlsMode {
		for pos := 1; pos <= zvsMaxPos; pos++ {
			l.bufl[pos] = bufconn.Listen(1 << 20)
			s := grpc.NewServer()
			pb.RegisterSigningServer(s, &zvsStub{lane: l, pos: pos})
			go s.Serve(&zvsListener{Listener: l.bufl[pos], lane: l})
			l.srv = append(l.srv, s)
		}
		return l
	}
	for try := 0; ; try++ {
		var ls []net.Listener
		first, err := net.Listen("tcp4", "127.0.0.1:0")
		zvsMust(err)
		port := first.Addr().(*net.TCPAddr).Port
		ls = append(ls, first)
		ok := true
		for pos := 2; pos <= zvsMaxPos; pos++ {
			x, err := net.Listen("tcp4", fmt.Sprintf("127.0.0.%d:%d", pos, port))
			if err != nil {
				ok = false
				break
			}
			ls = append(ls, x)
		}
		if !ok {
			for _, x := range ls {
				x.Close()
			}
			if try > 50 {
				panic("verif: no port free on 127.0.0.1-4")
			}
			continue
		}
		l.port = port
		for k, x := range ls {
			pos := k + 1
			base := &tls.Config{MinVersion: tls.VersionTLS10, NextProtos: []string{"h2"},
				GetConfigForClient: func(chi *tls.ClientHelloInfo) (*tls.Config, error) {
					if os.Getenv("VERIF_DEBUG") != "" {
						fmt.Fprintf(os.Stderr, "verif: client hello at position %d: versions %x suites %x\n", pos, chi.SupportedVersions, chi.CipherSuites)
					}
					return l.configFor(pos), nil
				}}
			s := grpc.NewServer(grpc.Creds(&zvsCreds{TransportCredentials: credentials.NewTLS(base), lane: l, pos: pos}))
			pb.RegisterSigningServer(s, &zvsStub{lane: l, pos: pos})
			go s.Serve(&zvsListener{Listener: x, lane: l})
			l.srv = append(l.srv, s)
		}
		return l
	}
}

func (l *zvsLane) close() {
	for _, s := range l.srv {
		s.Stop()
	}
}

func (l *zvsLane) dial(ctx context.Context, addr string, epoch int) (net.Conn, error) {
	l.mu.Lock()
	stale := epoch != l.epoch
	l.mu.Unlock()
	if stale { // a connection attempt made in the background for the Signer of an earlier case: not part of this case
		return nil, fmt.Errorf("verif: the case this dial belongs to is over")
	}
	host, _, err := net.SplitHostPort(addr)
	if err != nil {
		return nil, err
	}
	ip := net.ParseIP(host).To4()
	if ip == nil || ip[0] != 127 || int(ip[3]) < 1 || int(ip[3]) > zvsMaxPos {
		return nil, fmt.Errorf("verif: no harness server at %q", addr)
	}
	pos := int(ip[3])
	l.mu.Lock()
	l.hits = append(l.hits, &zvsHit{seq: len(l.hits), pos: pos, hs: "none", ver: "none", cc: "none", done: true, same: true})
	cls := ""
	if l.cur != nil && pos <= len(l.cur.Eps) {
		cls = l.cur.Eps[pos-1].Cls
	}
	l.mu.Unlock()
	switch cls {
	case "refused": // nothing listens there
		return nil, &net.OpError{Op: "dial", Net: "tcp", Addr: &net.TCPAddr{IP: net.IPv4(127, 0, 0, byte(pos)), Port: 4443}, Err: os.NewSyscallError("connect", syscall.ECONNREFUSED)}
	case "acceptclose": // the peer accepts and hangs up at once
		a, b := net.Pipe()
		b.Close()
		return a, nil
	}
	return l.bufl[pos].DialContext(ctx)
}

// zvsBase holds the dial options of a real NewSigner per per-try timeout (mode c17).
type zvsBase struct {
	mu   sync.Mutex
	pki  *zvsPKI
	opts map[int][]grpc.DialOption
}

func (b *zvsBase) get(tryMs int) []grpc.DialOption {
	b.mu.Lock()
	defer b.mu.Unlock()
	if o, ok := b.opts[tryMs]; ok {
		return o
	}
	s, err := NewSigner(SignerConfig{TLSClientKeyFile: b.pki.cliKey, TLSClientCertFile: b.pki.cliCert, TLSCACertFiles: []string{b.pki.caFile["ca1"]},
		CrypkiEndpoints: []string{"127.0.0.1"}, CrypkiPort: 4443, Retries: 1, PerTryTimeout: time.Duration(tryMs) * time.Millisecond})
	if err != nil {
		panic("verif: NewSigner refused a valid configuration: " + err.Error())
	}
	b.opts[tryMs] = s.dialOptions
	return s.dialOptions
}

// run executes one case on the lane and returns its records.
func (l *zvsLane) run(c *zvsCase, base *zvsBase, r *mrand.Rand, tryMs int) []interface{} {
	zvsInstantiate(c, r)
	n := len(c.Eps)
	reply := make([][]byte, n)
	hasDeadline := false
	for m := range c.Eps {
		reply[m] = c.raw[m]
		hasDeadline = hasDeadline || c.Eps[m].Cls == "deadline"
	}
	if c.Req == "" {
		c.Req = "full"
	}
	req := zvsRequest(r, c.Tid, c.Req)
	l.mu.Lock()
	l.cur, l.reply, l.hits, l.req = c, reply, nil, proto.Clone(req).(*pb.SSHCertificateSigningRequest)
	l.mu.Unlock()
	if c.Info.Via == "" {
		c.Info.Via = "direct"
		if l.tls {
			c.Info.Via = "tls"
		}
	}
	l.mu.Lock()
	l.epoch++
	epoch := l.epoch
	l.mu.Unlock()
	caseDial := func(ctx context.Context, addr string) (net.Conn, error) { return l.dial(ctx, addr, epoch) }
	out := []interface{}{}
	step := func(e map[string]interface{}) { out = append(out, zvsStep{Ev: "step", Tid: c.Tid, E: e}) }

	var s *Signer
	names := make([]string, n)
	for m := range names {
		names[m] = fmt.Sprintf("127.0.0.%d", m+1)
	}
	if c.Ctx == "" {
		c.Ctx = "wide"
	}
	if c.Hist == "" {
		c.Hist = "none"
	}
	if c.Tries <= 0 {
		c.Tries = 1
	}
	hasDead := false
	for m := range c.Eps {
		hasDead = hasDead || c.Eps[m].Cls == "refused" || c.Eps[m].Cls == "acceptclose"
	}
	c.Info.Loaded0 = zvsLoadedNow()
	// the history step: another TLS configuration of this process reads the CA files this signer must not trust
	otherConf := func(files []string, names []string, second bool) {
		var err error
		func() {
			defer func() {
				if p := recover(); p != nil {
					err = fmt.Errorf("panic: %v", p)
				}
			}()
			if second {
				_, err = NewSigner(SignerConfig{TLSClientKeyFile: l.pki.cliKey, TLSClientCertFile: l.pki.cliCert, TLSCACertFiles: files,
					CrypkiEndpoints: []string{"127.0.0.1"}, CrypkiPort: 4443, Retries: 1, PerTryTimeout: time.Second})
			} else {
				_, err = tlsutils.TLSClientConfiguration(l.pki.cliCert, l.pki.cliKey, files)
			}
		}()
		zvsNoteLoaded(names...)
		step(map[string]interface{}{"op": "otherconf", "err": err != nil})
	}
	bundleFiles := l.pki.bundleFiles(c.Bundle)
	switch c.Info.Via {
	case "tls", "newsigner", "gensignconf":
		port := uint(l.port)
		if port == 0 {
			port = 4443
		}
		onames, ofiles := l.pki.others(c.Bundle)
		switch c.Hist {
		case "before":
			otherConf(ofiles, onames, false)
		case "signer":
			otherConf(ofiles, onames, true)
		case "rotate":
			// the bundle's own paths first hold the other CAs and are read by another configuration, then get their content
			var wrong []byte
			for _, o := range onames {
				wrong = append(wrong, l.pki.ca[o].pem...)
			}
			paths, content := l.pki.privateBundle(c.Tid, c.Bundle)
			for _, f := range paths {
				zvsMust(os.WriteFile(f, wrong, 0o600))
			}
			otherConf(paths, onames, false)
			for k, f := range paths {
				zvsMust(os.WriteFile(f, content[k], 0o600))
			}
			bundleFiles = paths
		}
		zvsNoteLoaded(c.Bundle.Cas...)
		var err error
		func() {
			defer func() {
				if p := recover(); p != nil {
					err = fmt.Errorf("panic: %v", p)
				}
			}()
			if c.Info.Via == "gensignconf" {
				eps := make([]interface{}, n)
				for m := range names {
					eps[m] = names[m]
				}
				conf := map[string]interface{}{"tls_client_key_file": l.pki.cliKey, "tls_client_cert_file": l.pki.cliCert, "tls_ca_cert_files": bundleFiles,
					"crypki_endpoints": eps, "crypki_port": port, "retries": 1, "per_try_timeout": "5s"}
				var sc SignerConfig
				sc, err = decodeSignerConfig(conf)
				if err == nil {
					s, err = NewSigner(sc)
				}
			} else {
				s, err = NewSigner(SignerConfig{TLSClientKeyFile: l.pki.cliKey, TLSClientCertFile: l.pki.cliCert, TLSCACertFiles: bundleFiles,
					CrypkiEndpoints: names, CrypkiPort: port, Retries: uint(c.Tries), PerTryTimeout: 5 * time.Second})
			}
		}()
		step(map[string]interface{}{"op": "construct", "err": err != nil || s == nil})
		if err != nil || s == nil {
			c.Info.Note = fmt.Sprint(err)
			s = nil
		}
		if c.Hist == "between" {
			otherConf(ofiles, onames, false)
		}
	case "directnil":
		s = &Signer{endpoints: nil, dialOptions: base.get(10000)}
	default:
		if n == 0 {
			// no constructor accepts this configuration on every tree: the only way to ask "what does Sign do without
			// endpoints" directly is a struct literal (a panic on this path is reported as no verdict for the path)
			c.Info.Via = "direct"
			s = &Signer{endpoints: []string{}, dialOptions: base.get(10000)}
			break
		}
		if c.Ctx == "none" {
			// no deadline anywhere: neither on the request context nor per try.  NewSigner always installs a per-try
			// timeout, so this situation (a caller-built Signer) needs a literal; a panic here gives no verdict for the path
			c.Info.Via = "literal"
			eps := make([]string, n)
			for m := range eps {
				eps[m] = names[m] + ":4443"
			}
			s = &Signer{endpoints: eps, dialOptions: []grpc.DialOption{grpc.WithTransportCredentials(insecure.NewCredentials()), grpc.WithContextDialer(caseDial)}}
			break
		}
		// the real constructor (so that whatever state a Signer carries is set up by the code itself); only the transport
		// is redirected to the lane's in-memory servers by appending to the dial options
		c.Info.Via = "dialer"
		t := 10000
		if hasDeadline {
			t = tryMs
		} else if hasDead {
			t = 3000 // a dead endpoint costs at most this much when the client insists on waiting for it
		}
		c.Info.TryMs = t
		var err error
		func() {
			defer func() {
				if p := recover(); p != nil {
					err = fmt.Errorf("panic: %v", p)
				}
			}()
			s, err = NewSigner(SignerConfig{TLSClientKeyFile: l.pki.cliKey, TLSClientCertFile: l.pki.cliCert, TLSCACertFiles: []string{l.pki.caFile["ca1"]},
				CrypkiEndpoints: names, CrypkiPort: 4443, Retries: 1, PerTryTimeout: time.Duration(t) * time.Millisecond})
		}()
		if err != nil || s == nil {
			step(map[string]interface{}{"op": "construct", "err": true})
			c.Info.Note = fmt.Sprint(err)
			s = nil
			break
		}
		s.dialOptions = append(append([]grpc.DialOption{}, s.dialOptions...), grpc.WithTransportCredentials(insecure.NewCredentials()), grpc.WithContextDialer(caseDial))
	}
	if c.Next == nil {
		c.Next = []zvsTpl{}
	}
	res := zvsReset{Ev: "reset", Tid: c.Tid, Eps: c.Eps, Bundle: zvsBundle{Cas: zvsNorm(c.Bundle.Cas), Lay: c.Bundle.Lay}, Ctx: c.Ctx, Next: c.Next, Req: c.Req, Tries: c.Tries, Hist: c.Hist, Info: c.Info}
	doCall := func(lastCall bool) {
		var certs []ssh.PublicKey
		var comments []string
		var err error
		pan, hang := false, false
		// request budget: "tight" is shorter than one per-try timeout (only used when every failing endpoint fails fast)
		budget, grace := 60*time.Second, 20*time.Second
		if c.Ctx == "tight" {
			budget = 1500 * time.Millisecond
		}
		if c.Ctx == "ample" {
			// three times what the retry sequences of ALL endpoints of the list take together (tries-1 backoff delays each)
			budget = 3 * time.Duration(n*(c.Tries-1)) * zvsBackoffDelay
			if budget < 3*time.Second {
				budget = 3 * time.Second
			}
		}
		started := time.Now()
		ctx, cancel := context.WithTimeout(context.Background(), budget)
		if c.Ctx == "none" {
			// no deadline: every endpoint of such a case fails or answers at once, so Sign returns at once; the watchdog
			// gives it 6 s
			cancel()
			ctx, cancel = context.WithCancel(context.Background())
			budget, grace = 0, 6*time.Second
		}
		switch c.Ctx {
		case "cancelled": // the caller had given up before Sign was entered
			cancel()
			ctx, cancel = context.WithCancel(context.Background())
			cancel()
		case "expired": // the deadline had passed before Sign was entered
			cancel()
			ctx, cancel = context.WithDeadline(context.Background(), time.Now().Add(-time.Second))
		case "cancelmid": // the caller gives up while the first "deadline" endpoint is being tried
			cancel()
			ctx, cancel = context.WithCancel(context.Background())
			l.mu.Lock()
			l.cancelMid = cancel
			l.mu.Unlock()
		case "expiredwarm":
			// several requests are signed under one context: this Signer serves one call, the deadline passes, Sign is entered again
			cancel()
			ctx, cancel = context.WithTimeout(context.Background(), 400*time.Millisecond)
			var perr error
			func() {
				defer func() {
					if p := recover(); p != nil {
						perr = fmt.Errorf("panic: %v", p)
					}
				}()
				_, _, perr = s.Sign(ctx, req)
			}()
			step(map[string]interface{}{"op": "priorcall", "err": perr != nil})
			<-ctx.Done()
			time.Sleep(20 * time.Millisecond)
			l.quiet(5*time.Second, 150*time.Millisecond)
			l.mu.Lock()
			l.hits = nil // what the earlier call caused is not the subject of this case
			l.mu.Unlock()
		}
		finished := make(chan struct{})
		go func() {
			defer close(finished)
			defer func() {
				if p := recover(); p != nil {
					pan = true
					c.Info.Note = fmt.Sprintf("panic: %v", p)
				}
			}()
			certs, comments, err = s.Sign(ctx, req)
		}()
		// watchdog: Sign has to return once its context has expired
		select {
		case <-finished:
		case <-time.After(budget + grace):
			hang = true
			cancel()
			select {
			case <-finished:
			case <-time.After(10 * time.Second):
			}
			certs, comments, err = nil, nil, fmt.Errorf("verif: Sign did not return within its budget plus %v", grace)
		}
		cancel()
		l.mu.Lock()
		l.cancelMid = nil
		l.mu.Unlock()
		// the caller's message after the call against the deep copy taken before it
		l.mu.Lock()
		kept := hang || proto.Equal(req, l.req)
		l.mu.Unlock()
		c.Info.WallMs = int(time.Since(started) / time.Millisecond)
		if c.Ctx == "ample" && !hang && time.Since(started) > budget*6/10 {
			// correct code needs at most a third of this budget; a run that used more than 60 % of it was slowed down by the
			// machine and is not judged (whatever it returned)
			c.Info.Discard = "slow"
		}
		// a signer that keeps connections offers a way to release them: use it (interface assertion, so that the harness
		// compiles whether or not the method exists)
		func() {
			defer func() { recover() }()
			if !lastCall {
				return // the Signer is going to be asked again
			}
			switch x := interface{}(s).(type) {
			case interface{ Close() error }:
				x.Close()
			case interface{ Close() }:
				x.Close()
			}
		}()
		// let the servers finish everything this call caused (handshakes, handlers, connection teardown)
		if !l.quiet(10*time.Second, 150*time.Millisecond) {
			c.Info.Note += " [servers not quiet]"
		}
		l.mu.Lock()
		hits := append([]*zvsHit{}, l.hits...)
		l.mu.Unlock()
		sort.SliceStable(hits, func(a, b int) bool { return hits[a].seq < hits[b].seq })
		// several connections / calls to the same endpoint in a row are one contact (retries are not constrained)
		var merged []*zvsHit
		for _, h := range hits {
			if k := len(merged); k > 0 && merged[k-1].pos == h.pos {
				p := merged[k-1]
				p.same = p.same && h.same
				p.rpc = p.rpc || h.rpc
				if h.hs == "ok" || p.hs == "none" || p.hs == "pending" {
					p.hs, p.ver, p.cc = h.hs, h.ver, h.cc
				}
				continue
			}
			if !h.rpc {
				// a connection attempt that carries no request, to an endpoint this call has already contacted, is the
				// transport reconnecting on its own (a kept channel does that after its backoff), not the call asking again
				again := false
				for _, p := range merged {
					again = again || p.pos == h.pos
				}
				if again {
					c.Info.Reconnects++
					continue
				}
			}
			x := *h
			merged = append(merged, &x)
		}
		for _, h := range merged {
			step(map[string]interface{}{"op": "contact", "ep": h.pos, "hs": h.hs, "ver": h.ver, "cc": h.cc, "rpc": h.rpc, "same": h.same})
		}
		fps, cms := []string{}, []string{}
		for _, k := range certs {
			if k == nil {
				fps = append(fps, "nil")
				continue
			}
			fps = append(fps, zvsFp(k))
		}
		for _, cm := range comments {
			cms = append(cms, zvsCm(cm))
		}
		if err != nil && c.Info.Note == "" {
			c.Info.Note = strings.ToValidUTF8(err.Error(), "?")
			if len(c.Info.Note) > 300 {
				c.Info.Note = c.Info.Note[:300]
			}
		}
		step(map[string]interface{}{"op": "return", "err": err != nil, "pan": pan, "hang": hang, "kept": kept, "certs": fps, "cm": cms})
	}
	if s != nil {
		doCall(len(c.Next) == 0)
		if len(c.Next) > 0 {
			// a second signing call on the same Signer; the endpoints now behave as c.Next says
			c2 := *c
			c2.Eps = append([]zvsTpl{}, c.Next...)
			c2.Info = &zvsInfo{}
			zvsInstantiate(&c2, r)
			c.Next = c2.Eps
			res.Next = c2.Eps
			c.Info.Big = true // the replies of the second call are re-created from the templates on replay
			l.mu.Lock()
			l.cur, l.reply, l.hits = &c2, c2.raw, nil
			l.req = proto.Clone(req).(*pb.SSHCertificateSigningRequest)
			l.mu.Unlock()
			out = append(out, zvsStep{Ev: "step", Tid: c.Tid, E: map[string]interface{}{"op": "nextcall", "eps": c2.Eps}})
			doCall(true)
		}
	}
	l.mu.Lock()
	l.cur = nil
	l.mu.Unlock()
	return append([]interface{}{res}, out...)
}

func TestVerifSigner(t *testing.T) {
	planPath, outPath := os.Getenv("VERIF_PLAN"), os.Getenv("VERIF_OUT")
	if planPath == "" || outPath == "" {
		t.Skip("VERIF_PLAN / VERIF_OUT not set")
	}
	raw, err := os.ReadFile(planPath)
	zvsMust(err)
	var plan zvsPlan
	zvsMust(json.Unmarshal(raw, &plan))
	tr, err := verifh.OpenTrace(outPath)
	zvsMust(err)
	tlsMode := plan.Mode == "c18"
	dir, err := os.MkdirTemp(filepath.Dir(outPath), "pki")
	zvsMust(err)
	defer os.RemoveAll(dir)
	pki := zvsNewPKI(dir)
	base := &zvsBase{pki: pki, opts: map[int][]grpc.DialOption{}}
	if plan.BackoffMs > 0 {
		// NewSigner hands backoff.DefaultConfig to the retry interceptor; a short constant delay keeps retry cases short
		zvsBackoffDelay = time.Duration(plan.BackoffMs) * time.Millisecond
		backoff.DefaultConfig = backoff.Config{BaseDelay: zvsBackoffDelay, Multiplier: 1, MaxDelay: zvsBackoffDelay, Jitter: 0}
	}
	for _, n := range plan.Preload { // re-creates the history of TLS configurations a recorded case started from
		if f, ok := pki.caFile[n]; ok && n != "concat" && n != "host" {
			_, err := tlsutils.TLSClientConfiguration(pki.cliCert, pki.cliKey, []string{f})
			zvsMust(err)
			zvsNoteLoaded(n)
		}
	}
	if plan.Lanes <= 0 {
		plan.Lanes = 8
	}
	if plan.TryMs <= 0 {
		plan.TryMs = 300
	}
	rnd := verifh.NewRand("signer-"+plan.Mode, 0)
	cases := []zvsCase{}
	for k := range plan.Cases {
		c := plan.Cases[k]
		if c.Tid == "" {
			c.Tid = fmt.Sprintf("a%d", k)
		}
		cases = append(cases, c)
	}
	if plan.N0 {
		for k, via := range []string{"direct", "directnil", "newsigner", "gensignconf"} {
			cases = append(cases, zvsCase{Tid: fmt.Sprintf("n%d", k), Eps: []zvsTpl{}, Bundle: zvsBundle{Cas: []string{}, Lay: "none"}, Info: &zvsInfo{Via: via}})
		}
	}
	for k := 0; k < plan.Random; k++ {
		cases = append(cases, zvsRandomCase(fmt.Sprintf("r%d", k), rnd, tlsMode, plan.OnlyCas))
	}
	for k := range plan.Replays {
		c := plan.Replays[k]
		c.Tid = fmt.Sprintf("p%d", k)
		if c.Info != nil {
			c.Info.Note = ""
		}
		cases = append(cases, c)
	}
	// warm the certificate pool outside the timed region (RSA key generation)
	if plan.Random > 0 || len(cases) > 300 {
		for a := 1; a <= 9; a++ {
			for b := 1; b <= 6; b++ {
				zvsCert(a, b)
			}
		}
	}
	work := make(chan int, len(cases))
	for k := range cases {
		work <- k
	}
	close(work)
	var wg sync.WaitGroup
	var mu sync.Mutex
	contacts, returns := 0, 0
	for li := 0; li < plan.Lanes; li++ {
		wg.Add(1)
		go func(li int) {
			defer wg.Done()
			lane := zvsNewLane(li, pki, tlsMode)
			defer lane.close()
			r := verifh.NewRand("signer-lane", int64(li))
			for k := range work {
				c := cases[k]
				recs := lane.run(&c, base, r, plan.TryMs)
				tr.EmitAll(recs)
				mu.Lock()
				for _, x := range recs {
					if s, ok := x.(zvsStep); ok {
						switch s.E["op"] {
						case "contact":
							contacts++
						case "return":
							returns++
						}
					}
				}
				mu.Unlock()
			}
		}(li)
	}
	wg.Wait()
	zvsMust(tr.Close())
	sum, _ := json.Marshal(map[string]interface{}{"mode": plan.Mode, "cases": len(cases), "contacts": contacts, "returns": returns, "events": tr.N,
		"random": plan.Random, "lanes": plan.Lanes})
	fmt.Printf("VERIF-SUMMARY %s\n", sum)
}
