//go:build verif

package backoff

// Observer for (*Config).Backoff (property C17, retry delay bounds).  For every planned (configuration, attempt) it
// draws the delay `draws` times and records the extremes, split into integers TLC can compare (spec/Signer.tla, Val),
// together with the raw values as strings.  TLC judges: 0 <= min, max <= MaxDelay*(1+Jitter), attempt 0 => base.

import (
	"encoding/json"
	"fmt"
	"math"
	"os"
	"strconv"
	"testing"
	"time"

	"github.com/theparanoids/ysshra/verifh"
)

type zvsBCase struct {
	Tid     string  `json:"tid"`
	Base    string  `json:"base"` // nanoseconds, decimal
	Max     string  `json:"max"`
	Mult    float64 `json:"mult"`
	Jit     float64 `json:"jit"`
	Attempt string  `json:"attempt"` // decimal, 0..2^32-1
	Class   string  `json:"class"`   // e.g. base=zero mult=1e308 jit=0.2 (for the finding key)
}

type zvsBPlan struct {
	Cases  []zvsBCase `json:"cases"`
	Draws  int        `json:"draws"`
	Random int        `json:"random"`
}

type zvsBVal struct {
	Neg bool  `json:"neg"`
	Big bool  `json:"big"`
	Hi  int64 `json:"hi"`
	Lo  int64 `json:"lo"`
}

func zvsBValOf(v int64) zvsBVal {
	x := zvsBVal{Neg: v < 0}
	var m uint64
	if v < 0 {
		m = uint64(-(v + 1)) + 1
	} else {
		m = uint64(v)
	}
	if m/1000000000 >= 1<<31 {
		x.Big = true
		return x
	}
	x.Hi, x.Lo = int64(m/1000000000), int64(m%1000000000)
	return x
}

func TestVerifBackoff(t *testing.T) {
	planPath, outPath := os.Getenv("VERIF_PLAN"), os.Getenv("VERIF_OUT")
	if planPath == "" || outPath == "" {
		t.Skip("VERIF_PLAN / VERIF_OUT not set")
	}
	raw, err := os.ReadFile(planPath)
	if err != nil {
		t.Fatal(err)
	}
	var plan zvsBPlan
	if err := json.Unmarshal(raw, &plan); err != nil {
		t.Fatal(err)
	}
	if plan.Draws <= 0 {
		plan.Draws = 200
	}
	tr, err := verifh.OpenTrace(outPath)
	if err != nil {
		t.Fatal(err)
	}
	r := verifh.NewRand("backoff", 0)
	cases := append([]zvsBCase{}, plan.Cases...)
	for k := 0; k < plan.Random; k++ {
		// any configuration with base <= max, multiplier >= 1, jitter in [0,1]; any attempt in 0..2^32-1
		max := int64(1) + r.Int63n(int64(time.Hour))
		if r.Intn(3) == 0 {
			max = int64(1) + r.Int63n(int64(50*time.Millisecond))
		}
		base := r.Int63n(max + 1)
		switch r.Intn(6) {
		case 0:
			base = 0
		case 1:
			base = max
		}
		mult := math.Pow(10, r.Float64()*[]float64{0.5, 3, 308}[r.Intn(3)])
		if r.Intn(5) == 0 {
			mult = 1
		}
		jit := r.Float64()
		switch r.Intn(5) {
		case 0:
			jit = 0
		case 1:
			jit = 1
		}
		var att uint64
		switch r.Intn(4) {
		case 0:
			att = uint64(r.Intn(8))
		case 1:
			att = uint64(r.Intn(2000))
		case 2:
			att = uint64(r.Int63n(1 << 32))
		default:
			att = []uint64{0, 1, 1 << 31, 1<<32 - 1, 1 << 16}[r.Intn(5)]
		}
		bc := "pos"
		if base == 0 {
			bc = "zero"
		} else if base == max {
			bc = "max"
		}
		cases = append(cases, zvsBCase{Tid: fmt.Sprintf("rb%d", k), Base: strconv.FormatInt(base, 10), Max: strconv.FormatInt(max, 10), Mult: mult, Jit: jit,
			Attempt: strconv.FormatUint(att, 10), Class: fmt.Sprintf("base=%s mult=%s jit=%s", bc, strconv.FormatFloat(mult, 'g', 4, 64), strconv.FormatFloat(jit, 'g', 4, 64))})
	}
	n := 0
	for _, c := range cases {
		base, e1 := strconv.ParseInt(c.Base, 10, 64)
		max, e2 := strconv.ParseInt(c.Max, 10, 64)
		att, e3 := strconv.ParseUint(c.Attempt, 10, 64)
		if e1 != nil || e2 != nil || e3 != nil || att > math.MaxUint32 || base > max || base < 0 || c.Mult < 1 || c.Jit < 0 || c.Jit > 1 {
			t.Fatalf("verif: bad backoff case %+v", c)
		}
		cfg := &Config{BaseDelay: time.Duration(base), Multiplier: c.Mult, MaxDelay: time.Duration(max), Jitter: c.Jit}
		var lo, hi int64
		pan := false
		func() {
			defer func() {
				if recover() != nil {
					pan = true
				}
			}()
			for k := 0; k < plan.Draws; k++ {
				d := int64(cfg.Backoff(uint(att)))
				if k == 0 || d < lo {
					lo = d
				}
				if k == 0 || d > hi {
					hi = d
				}
			}
		}()
		// the bound max*(1+jitter), evaluated in the arithmetic of the code, rounded up by one ulp and to whole nanoseconds
		bound := int64(math.Ceil(math.Nextafter(float64(max)*(1+c.Jit), math.Inf(1))))
		pow := "finite"
		if math.IsInf(math.Pow(c.Mult, float64(att)), 0) {
			pow = "inf"
		}
		tr.EmitAll([]interface{}{
			map[string]interface{}{"ev": "reset", "tid": c.Tid, "eps": []string{}, "bundle": map[string]interface{}{"cas": []string{}, "lay": "none"},
				"info": map[string]interface{}{"via": "backoff", "case": c, "draws": plan.Draws, "pow": pow, "pan": pan,
					"raw": map[string]string{"min": strconv.FormatInt(lo, 10), "max": strconv.FormatInt(hi, 10), "bound": strconv.FormatInt(bound, 10),
						"min_dur": time.Duration(lo).String(), "max_dur": time.Duration(hi).String()}}},
			map[string]interface{}{"ev": "step", "tid": c.Tid, "e": map[string]interface{}{"op": "backoff",
				"bo": map[string]interface{}{"att0": att == 0, "base": zvsBValOf(base), "min": zvsBValOf(lo), "max": zvsBValOf(hi), "bound": zvsBValOf(bound)}}},
		})
		n++
	}
	if err := tr.Close(); err != nil {
		t.Fatal(err)
	}
	sum, _ := json.Marshal(map[string]interface{}{"mode": "backoff", "cases": n, "draws": plan.Draws, "events": tr.N})
	fmt.Printf("VERIF-SUMMARY %s\n", sum)
}
