//go:build verif

package regular

// Conformance harness for spec/Gensign.tla (properties C01..C04).
//
// It drives the real gensign.Run with the real regular.NewHandler (configuration read from a real JSON
// file through config.NewGensignConfig), stub handlers, a recording stub CA (csr.Signer signing real SSH
// certificates) and a forwarded agent = x/crypto keyring owned by the harness behind a frame proxy that
// implements the adversarial behaviours and the faults chosen by the plan.  The harness is a driver and an
// observer only: every run is recorded as one ndjson step {pre, e:{op:"run", sc, r}, post} in the shape of
// the specification's run record and judged by TLC (spec/TraceGensign.tla).
//
// Direction A: plan.cases = scenarios exported by TLC from the bounded model.
// Direction B: plan.random = seeded random cases with concrete keys / texts / validities / double faults.

import (
	"bytes"
	"context"
	"crypto/ecdsa"
	"crypto/elliptic"
	"crypto/rand"
	"crypto/sha256"
	"crypto/tls"
	"crypto/x509"
	"crypto/x509/pkix"
	"encoding/hex"
	"encoding/json"
	"encoding/pem"
	"fmt"
	"io"
	"math/big"
	mrand "math/rand"
	"net"
	"os"
	"path/filepath"
	"sort"
	"strconv"
	"strings"
	"sync"
	"sync/atomic"
	"testing"
	"time"
	"unicode"

	"github.com/rs/zerolog"
	"github.com/theparanoids/crypki/proto"
	agssh "github.com/theparanoids/ysshra/agent/ssh"
	"github.com/theparanoids/ysshra/common"
	"github.com/theparanoids/ysshra/config"
	"github.com/theparanoids/ysshra/crypki"
	"github.com/theparanoids/ysshra/csr"
	"github.com/theparanoids/ysshra/csr/transid"
	"github.com/theparanoids/ysshra/gensign"
	"github.com/theparanoids/ysshra/keyid"
	"github.com/theparanoids/ysshra/message"
	"github.com/theparanoids/ysshra/sshutils/key"
	"github.com/theparanoids/ysshra/sshutils/version"
	"github.com/theparanoids/ysshra/verifh"
	"golang.org/x/crypto/ssh"
	"golang.org/x/crypto/ssh/agent"
	"google.golang.org/grpc"
	"google.golang.org/grpc/codes"
	"google.golang.org/grpc/credentials"
	"google.golang.org/grpc/status"
)

// ---------------------------------------------------------------------------------------------
// plan

type zvgGIdent struct {
	A  int    `json:"a"`
	F  string `json:"f"` // "lower" | "upper" | "mixed" | "num": how the configuration names the algorithm
	ID string `json:"id"`
}

type zvgGDir struct {
	Lp string `json:"lp"` // '<logname>.pub': "none" | "bad" | "U" | "O"  (recorded: key tag)
	Lb string `json:"lb"` // bare '<logname>'
	Rp string `json:"rp"` // '<requser>.pub'
	Rb string `json:"rb"` // bare '<requser>'
}

type zvgGFlt struct {
	Pt   string `json:"pt"`   // "agent" | "ca" | "h"
	Idx  int    `json:"idx"`  // agent operation index / CA call index / handler index (1-based)
	Kind string `json:"kind"` // agent: fail|garbage|close; ca: err|panic; h: auth|name|gen
}

type zvgGRun struct {
	Hs      []string    `json:"hs"`
	Ns      string      `json:"ns"`
	Hard    bool        `json:"hard"`
	Ln      string      `json:"ln"` // hex; "" or a symbolic model value = generate
	Ru      string      `json:"ru"`
	Rh      string      `json:"rh"`
	IP      string      `json:"ip"`
	Tid     string      `json:"tid"`
	Algo    int         `json:"algo"`
	Val     uint64      `json:"val"`   // configured validity; in recorded scenarios capped at 2^31-1 (TLC integers)
	Valx    string      `json:"valx"`  // the configured validity as decimal text (any uint64); "" = Val
	Valx2   string      `json:"valx2"` // second honest reading (vform "frac": rounded up); otherwise = valx
	Vform   string      `json:"vform"` // how the configuration file writes cert_validity_sec (see Gensign!AcceptableVal)
	Delay   string      `json:"delay"` // "none" | "short" | "long" | "vlong": the agent answers the sign request late
	Ctx     string      `json:"ctx"`   // "bg" | "cancelled" | "deadline" | "between": the request context handed to Run
	Crep    string      `json:"crep"`  // "cert" | "agentkey" | "wrapper": representation of the certificates handed to Run
	Ids     []zvgGIdent `json:"ids"`
	Dir     zvgGDir     `json:"dir"`
	Ans     string      `json:"ans"`
	Ncert   int         `json:"ncert"`
	Ncsr    int         `json:"ncsr"`
	Sgen    string      `json:"sgen"`
	More    bool        `json:"more"`
	Fok     bool        `json:"fok"`
	PlainCA bool        `json:"plainca"`
	Wire    string      `json:"wire"`  // "json" (default) or the text of the legacy HardKey attribute ("absent" = no attribute)
	Kalgo   string      `json:"kalgo"` // key algorithm of the stub handler's agent key
	Flts    []zvgGFlt   `json:"flts,omitempty"`
}

type zvgGCase struct {
	ID    string    `json:"id"`
	Pre   []string  `json:"pre"`
	UKind string    `json:"ukind"`
	Reuse bool      `json:"reuse"` // one process: the same regular.Handler object and the same forwarded connection serve all runs
	Runs  []zvgGRun `json:"runs"`
}

type zvgGRandom struct {
	N       int `json:"n"`
	MaxRuns int `json:"maxruns"`
}

type zvgGPlan struct {
	Cases   []zvgGCase  `json:"cases"`
	Random  *zvgGRandom `json:"random"`
	Workers int         `json:"workers"`
	Only    []string    `json:"only"` // when set: run only the cases with these ids
}

// ---------------------------------------------------------------------------------------------
// records (shape of Gensign!r)

type zvgGID struct {
	Tag string `json:"tag"`
	T   string `json:"t"`
	K   string `json:"k"`
	Lb  string `json:"lb"`
	Sg  bool   `json:"sg"`
	Cls string `json:"cls"`
}

type zvgGAuth struct {
	Called bool `json:"called"`
	Ok     bool `json:"ok"`
	Pan    bool `json:"pan"`
}

type zvgGSig struct {
	Key  string `json:"key"`
	Data string `json:"data"`
}

type zvgGChal struct {
	H    int     `json:"h"`
	Key  string  `json:"key"`
	Data []int   `json:"data"`
	Hx   string  `json:"hx"`
	Sig  zvgGSig `json:"sig"`
	F    string  `json:"f"`
}

type zvgGGen struct {
	H   int    `json:"h"`
	Res string `json:"res"`
	N   int    `json:"n"`
}

type zvgGKid struct {
	Ok    bool     `json:"ok"`
	Prins []string `json:"prins"`
	Tid   string   `json:"tid"`
	Ru    string   `json:"ru"`
	IP    string   `json:"ip"`
	Rh    string   `json:"rh"`
	Ver   int      `json:"ver"`
	Ff    bool     `json:"ff"`
	Hw    bool     `json:"hw"`
	Hl    bool     `json:"hl"`
	Nonce bool     `json:"nonce"`
	Usage int      `json:"usage"`
	Touch int      `json:"touch"`
}

type zvgGCsr struct {
	H         int      `json:"h"`
	Prins     []string `json:"prins"`
	Val       uint64   `json:"val"`
	Valx      string   `json:"valx"`
	Exts      []string `json:"exts"`
	ExtsEmpty bool     `json:"extsempty"`
	Ident     string   `json:"ident"`
	Key       string   `json:"key"`
	Kid       zvgGKid  `json:"kid"`
	Res       string   `json:"res"`
	N         int      `json:"n"`
}

type zvgGCert struct {
	Tag  string `json:"tag"`
	Key  string `json:"key"`
	Call int    `json:"call"`
}

type zvgGFrame struct {
	K    string `json:"k"`
	F    string `json:"f"`
	ID   string `json:"id"`
	Cert bool   `json:"cert"`
	Life int64  `json:"life"`
	Ok   bool   `json:"ok"`
}

type zvgGHP struct {
	H int    `json:"h"`
	M string `json:"m"`
}

type zvgGObs struct {
	Auth  []zvgGAuth  `json:"auth"`
	Chal  []zvgGChal  `json:"chal"`
	Gen   []zvgGGen   `json:"gen"`
	Csr   []zvgGCsr   `json:"csr"`
	Certs []zvgGCert  `json:"certs"`
	Fr    []zvgGFrame `json:"fr"`
	Hp    []zvgGHP    `json:"hp"`
	Err   string      `json:"err"`
	Pan   bool        `json:"pan"`
}

type zvgGAg struct {
	Ag []zvgGID `json:"ag"`
}

type zvgGEv struct {
	Op string   `json:"op"`
	Sc *zvgGRun `json:"sc,omitempty"`
	R  *zvgGObs `json:"r,omitempty"`
}

type zvgGRec struct {
	Ev   string      `json:"ev"`
	Tid  string      `json:"tid"`
	I    int         `json:"i"`
	Pre  *zvgGAg     `json:"pre,omitempty"`
	E    *zvgGEv     `json:"e,omitempty"`
	Post *zvgGAg     `json:"post,omitempty"`
	Info interface{} `json:"info,omitempty"`
}

func zvgTagOf(blob []byte) string {
	h := sha256.Sum256(blob)
	return hex.EncodeToString(h[:8])
}

func zvgHx(s string) string { return hex.EncodeToString([]byte(s)) }

// ---------------------------------------------------------------------------------------------
// the forwarded agent: keyring behind a recording backend and a frame proxy

type zvgBackCall struct {
	op      string
	id      string
	cert    bool
	life    uint32
	comment string
}

// zvgRecBackend records the parsed form of the request the agent server decoded (add-identity constraints).
type zvgRecBackend struct {
	agent.Agent
	mu   sync.Mutex
	last *zvgBackCall
}

func (b *zvgRecBackend) set(c *zvgBackCall) { b.mu.Lock(); b.last = c; b.mu.Unlock() }
func (b *zvgRecBackend) take() *zvgBackCall {
	b.mu.Lock()
	defer b.mu.Unlock()
	c := b.last
	b.last = nil
	return c
}

func (b *zvgRecBackend) Add(k agent.AddedKey) error {
	c := &zvgBackCall{op: "add", life: k.LifetimeSecs, comment: k.Comment}
	if k.Certificate != nil {
		c.cert = true
		c.id = zvgTagOf(k.Certificate.Marshal())
	} else if s, err := ssh.NewSignerFromKey(k.PrivateKey); err == nil {
		c.id = zvgTagOf(s.PublicKey().Marshal())
	}
	b.set(c)
	return b.Agent.Add(k)
}

func (b *zvgRecBackend) Remove(k ssh.PublicKey) error {
	b.set(&zvgBackCall{op: "remove", id: zvgTagOf(k.Marshal())})
	return b.Agent.Remove(k)
}

type zvgSignReq struct {
	KeyBlob []byte `sshtype:"13"`
	Data    []byte
	Flags   uint32
}

type zvgSignResp struct {
	Sig []byte `sshtype:"14"`
}

type zvgGsAction struct {
	kind  string // "pass" | "reply" | "close"
	reply []byte
	fault string // fault kind recorded for the frame ("none" for scripted agent behaviour)
	other []byte // data actually signed by an "other data" answer
}

type zvgGsProxy struct {
	client  net.Conn
	srv     net.Conn
	b1      net.Conn
	s1      net.Conn
	back    *zvgRecBackend
	scratch *zvgRecBackend
	script  func(idx int, kind string, req []byte) zvgGsAction
	onFrame func(idx int, kind string, req, reply []byte, act zvgGsAction, fr *zvgGFrame)

	mu     sync.Mutex
	idx    int
	frames []zvgGFrame
	done   chan struct{}
}

func zvgNewGsProxy(kr agent.Agent) *zvgGsProxy {
	c1, c2 := net.Pipe()
	b1, b2 := net.Pipe()
	s1, s2 := net.Pipe()
	p := &zvgGsProxy{client: c1, srv: c2, b1: b1, s1: s1, done: make(chan struct{})}
	p.back = &zvgRecBackend{Agent: kr}
	p.scratch = &zvgRecBackend{Agent: agent.NewKeyring()}
	go func() { _ = agent.ServeAgent(p.back, b2); b2.Close() }()
	go func() { _ = agent.ServeAgent(p.scratch, s2); s2.Close() }()
	return p
}

func (p *zvgGsProxy) start() { go p.loop() }

// begin installs the script of the next run; agent operation indices and the frame log restart.
func (p *zvgGsProxy) begin(script func(idx int, kind string, req []byte) zvgGsAction,
	onFrame func(idx int, kind string, req, reply []byte, act zvgGsAction, fr *zvgGFrame)) {
	p.mu.Lock()
	p.script, p.onFrame, p.idx, p.frames = script, onFrame, 0, nil
	p.mu.Unlock()
}

func (p *zvgGsProxy) alive() bool {
	select {
	case <-p.done:
		return false
	default:
		return true
	}
}

func (p *zvgGsProxy) roundTrip(c net.Conn, req []byte) ([]byte, error) {
	if err := verifh.WriteFrame(c, req); err != nil {
		return nil, err
	}
	return verifh.ReadFrame(c)
}

func (p *zvgGsProxy) loop() {
	defer close(p.done)
	defer p.srv.Close()
	for {
		req, err := verifh.ReadFrame(p.srv)
		if err != nil {
			return
		}
		p.mu.Lock()
		p.idx++
		idx, script, onFrame := p.idx, p.script, p.onFrame
		p.mu.Unlock()
		kind := "other"
		if len(req) > 0 {
			kind = verifh.ReqKind(req[0])
		}
		act := script(idx, kind, req)
		fr := zvgGFrame{K: kind, F: act.fault}
		var reply []byte
		switch act.kind {
		case "pass":
			reply, err = p.roundTrip(p.b1, req)
			if err != nil {
				return
			}
			if c := p.back.take(); c != nil {
				fr.ID, fr.Cert, fr.Life = c.id, c.cert, zvgCapLife(c.life)
			}
		default:
			// the request is not executed by the agent; a scratch agent decodes it for the record
			if kind == "add" || kind == "remove" {
				if _, err := p.roundTrip(p.s1, req); err == nil {
					if c := p.scratch.take(); c != nil {
						fr.ID, fr.Cert, fr.Life = c.id, c.cert, zvgCapLife(c.life)
					}
				}
			}
			reply = act.reply
		}
		if kind == "sign" {
			var sr zvgSignReq
			if ssh.Unmarshal(req, &sr) == nil {
				fr.ID = zvgTagOf(sr.KeyBlob)
			}
		}
		fr.Ok = act.fault == "none" && act.kind != "close" && len(reply) > 0 && (reply[0] == 6 || reply[0] == 12 || reply[0] == 14)
		if onFrame != nil {
			onFrame(idx, kind, req, reply, act, &fr)
		}
		p.mu.Lock()
		p.frames = append(p.frames, fr)
		p.mu.Unlock()
		if act.kind == "close" {
			return
		}
		if err := verifh.WriteFrame(p.srv, reply); err != nil {
			return
		}
	}
}

// zvgValText renders the configured validity v the way the scenario's vform says the configuration file writes it.
func zvgValText(vform string, v uint64) string {
	d := strconv.FormatUint(v, 10)
	switch vform {
	case "float0":
		return d + ".0"
	case "exp":
		return strconv.FormatFloat(float64(v), 'e', -1, 64)
	case "frac":
		return d + ".5"
	case "neg":
		if v == 0 {
			return "-1"
		}
		return "-" + d
	case "str":
		return `"` + d + `"`
	case "str0":
		return `"0` + d + `"`
	case "strhex":
		return `"0x` + strconv.FormatUint(v, 16) + `"`
	case "strus":
		if len(d) < 2 {
			return `"` + d + `_"`
		}
		return `"` + d[:1] + "_" + d[1:] + `"`
	case "strsp":
		return `" ` + d + `"`
	case "bool":
		return "true"
	case "null":
		return "null"
	}
	return d
}

// zvgWrapCert is an ssh.PublicKey implementation around a certificate that is not the concrete *ssh.Certificate.
type zvgWrapCert struct{ c *ssh.Certificate }

func (w zvgWrapCert) Type() string                                 { return w.c.Type() }
func (w zvgWrapCert) Marshal() []byte                              { return w.c.Marshal() }
func (w zvgWrapCert) Verify(data []byte, sig *ssh.Signature) error { return w.c.Verify(data, sig) }

func zvgCapVal(v uint64) uint64 {
	if v > 2147483647 {
		return 2147483647
	}
	return v
}

func zvgCapLife(l uint32) int64 {
	if l > 2147483647 {
		return 2147483647
	}
	return int64(l)
}

func (p *zvgGsProxy) close() {
	p.client.Close()
	p.srv.Close()
	p.b1.Close()
	p.s1.Close()
	select {
	case <-p.done:
	case <-time.After(2 * time.Second):
	}
}

func zvgGarbageReply(r *mrand.Rand) []byte {
	switch r.Intn(4) {
	case 0:
		return []byte{}
	case 1:
		return []byte{12, 0xff, 0xff}
	case 2:
		return []byte{14, 0, 0, 0, 9, 1}
	default:
		b := make([]byte, 1+r.Intn(40))
		r.Read(b)
		b[0] = []byte{0, 1, 200, 255, 30}[r.Intn(5)]
		return b
	}
}

// ---------------------------------------------------------------------------------------------
// stub handler, recording wrapper, stub CA

const zvgStubName = "verif.stub"

type zvgStubAgentKey struct {
	*agssh.AgentKey
	csrs []*proto.SSHCertificateSigningRequest
}

func (s *zvgStubAgentKey) CSRs() []*proto.SSHCertificateSigningRequest { return s.csrs }

type zvgStubHandler struct {
	accept bool
	sgen   string
	ncsr   int
	val    uint64
	kalgo  string
	ag     agent.Agent
}

func (s *zvgStubHandler) Name() string { return zvgStubName }

func (s *zvgStubHandler) Authenticate(p *csr.ReqParam) error {
	if s.accept {
		return nil
	}
	return gensign.NewErrorWithMsg(gensign.HandlerAuthN, zvgStubName, "stub rejects")
}

func (s *zvgStubHandler) Generate(p *csr.ReqParam) ([]csr.AgentKey, error) {
	switch s.sgen {
	case "CSR":
		return nil, gensign.NewErrorWithMsg(gensign.HandlerGenCSRErr, zvgStubName, "stub csr error")
	case "Conf":
		return nil, gensign.NewErrorWithMsg(gensign.HandlerConfErr, zvgStubName, "stub conf error")
	case "Params":
		return nil, gensign.NewErrorWithMsg(gensign.InvalidParams, zvgStubName, "stub params error")
	case "empty":
		return nil, nil
	}
	opt := agssh.DefaultKeyOpt
	opt.KeyRefreshFilter = func(k *agent.Key) bool { return strings.Contains(k.Comment, zvgStubName) }
	opt.PrivateKeyValiditySec = uint32(s.val) + 3600
	opt.CertLabel = zvgStubName + "-cert"
	opt.PublicKeyAlgo = key.ECDSAsecp256r1
	if a, ok := key.SSHKeyAlgoStrMap[s.kalgo]; ok {
		opt.PublicKeyAlgo = a
	}
	ak, err := agssh.NewSSHAgentKeyWithOpt(s.ag, opt)
	if err != nil {
		return nil, gensign.NewError(gensign.HandlerGenCSRErr, zvgStubName, err)
	}
	sk := &zvgStubAgentKey{AgentKey: ak}
	for i := 0; i < s.ncsr; i++ {
		kid := &keyid.KeyID{Principals: []string{p.LogName}, TransID: p.TransID, ReqUser: p.ReqUser, ReqIP: p.ClientIP, ReqHost: p.ReqHost,
			Version: keyid.DefaultVersion, Usage: keyid.AllUsage, TouchPolicy: keyid.NeverTouch}
		ks, _ := kid.Marshal()
		sk.csrs = append(sk.csrs, &proto.SSHCertificateSigningRequest{
			KeyMeta:    &proto.KeyMeta{Identifier: "stub"},
			Extensions: map[string]string{"permit-pty": ""},
			Validity:   s.val,
			Principals: []string{p.LogName},
			PublicKey:  string(ssh.MarshalAuthorizedKey(ak.PublicKey())),
			KeyId:      ks,
		})
	}
	return []csr.AgentKey{sk}, nil
}

type zvgRunCtx struct {
	mu      sync.Mutex
	obs     *zvgGObs
	curAuth int
	owner   map[*proto.SSHCertificateSigningRequest]int
}

type zvgRecH struct {
	inner   gensign.Handler
	idx     int
	rc      *zvgRunCtx
	panicAt map[string]bool
}

func (h *zvgRecH) Name() string {
	if h.panicAt["name"] {
		h.rc.mu.Lock()
		h.rc.obs.Hp = append(h.rc.obs.Hp, zvgGHP{H: h.idx, M: "name"})
		h.rc.mu.Unlock()
		panic("verif: injected panic in Handler.Name")
	}
	return h.inner.Name()
}

func (h *zvgRecH) Authenticate(p *csr.ReqParam) error {
	h.rc.mu.Lock()
	h.rc.obs.Auth[h.idx-1].Called = true
	if h.panicAt["auth"] {
		h.rc.obs.Auth[h.idx-1].Pan = true
		h.rc.obs.Hp = append(h.rc.obs.Hp, zvgGHP{H: h.idx, M: "auth"})
		h.rc.mu.Unlock()
		panic("verif: injected panic in Handler.Authenticate")
	}
	h.rc.curAuth = h.idx
	h.rc.mu.Unlock()
	err := h.inner.Authenticate(p)
	h.rc.mu.Lock()
	h.rc.curAuth = 0
	h.rc.obs.Auth[h.idx-1].Ok = err == nil
	h.rc.mu.Unlock()
	return err
}

func zvgErrKind(err error) string {
	if err == nil {
		return "nil"
	}
	for _, c := range []struct {
		t gensign.ErrorType
		n string
	}{{gensign.AllAuthFailed, "AllAuthFailed"}, {gensign.HandlerGenCSRErr, "CSR"}, {gensign.HandlerConfErr, "Conf"},
		{gensign.InvalidParams, "Params"}, {gensign.SignerSignErr, "Signer"}, {gensign.AgentOpCertErr, "Agent"},
		{gensign.Panic, "Panic"}, {gensign.HandlerAuthN, "AuthN"}, {gensign.HandlerDisabled, "Disabled"}, {gensign.Unknown, "Unknown"}} {
		if gensign.IsErrorOfType(err, c.t) {
			return c.n
		}
	}
	return "Other"
}

func (h *zvgRecH) Generate(p *csr.ReqParam) ([]csr.AgentKey, error) {
	if h.panicAt["gen"] {
		h.rc.mu.Lock()
		h.rc.obs.Hp = append(h.rc.obs.Hp, zvgGHP{H: h.idx, M: "gen"})
		h.rc.obs.Gen = append(h.rc.obs.Gen, zvgGGen{H: h.idx, Res: "panic"})
		h.rc.mu.Unlock()
		panic("verif: injected panic in Handler.Generate")
	}
	keys, err := h.inner.Generate(p)
	g := zvgGGen{H: h.idx}
	h.rc.mu.Lock()
	if err != nil {
		g.Res = zvgErrKind(err)
	} else {
		for _, k := range keys {
			for _, c := range k.CSRs() {
				h.rc.owner[c] = h.idx
				g.N++
			}
		}
		if len(keys) == 0 {
			g.Res = "empty"
		} else {
			g.Res = "ok"
		}
	}
	h.rc.obs.Gen = append(h.rc.obs.Gen, g)
	h.rc.mu.Unlock()
	return keys, err
}

// The CA: a fake crypki server (gRPC over TLS on 127.0.0.1) behind the REAL crypki.Signer.  zvgStubCA is the csr.Signer
// handed to gensign.Run: it records the request, injects a panic "inside Signer.Sign" when the plan says so, and otherwise
// delegates to the real signer, whose request reaches zvgFakeCA; the fake CA answers as scripted for this run:
// n certificates (authorized-keys lines with comments), OK without any certificate, or a gRPC error.
type zvgCACall struct {
	idx     int
	ncert   int
	plain   bool
	fault   string // "" | "err"
	serial  *uint64
	plainPK ssh.PublicKey
	ca      ssh.Signer
	rnd     *mrand.Rand
	res     string // set by the fake CA: "ok" | "err" | "empty"
}

type zvgFakeCA struct {
	proto.UnimplementedSigningServer
	mu    sync.Mutex
	calls map[string]*zvgCACall
}

func zvgCAKey(req *proto.SSHCertificateSigningRequest) string { return req.KeyId + "|" + req.PublicKey }

func (f *zvgFakeCA) PostUserSSHCertificate(ctx context.Context, req *proto.SSHCertificateSigningRequest) (*proto.SSHKey, error) {
	f.mu.Lock()
	c := f.calls[zvgCAKey(req)]
	f.mu.Unlock()
	if c == nil {
		return nil, status.Error(codes.NotFound, "verif: unknown request")
	}
	if c.fault == "err" {
		c.res = "err"
		return nil, status.Error(codes.Internal, "verif: CA refuses")
	}
	pub, _, _, _, perr := ssh.ParseAuthorizedKey([]byte(req.PublicKey))
	if perr != nil {
		c.res = "err"
		return nil, status.Error(codes.InvalidArgument, "verif: CSR public key does not parse")
	}
	if c.ncert == 0 {
		// gRPC-OK, but the reply carries no certificate
		c.res = "empty"
		return &proto.SSHKey{Key: []string{"", "", "", "\n", "no certificate here"}[c.rnd.Intn(5)]}, nil
	}
	var sb strings.Builder
	now := uint64(time.Now().Unix())
	for j := 0; j < c.ncert; j++ {
		*c.serial++
		vb := now + req.Validity
		if vb < now {
			vb = ssh.CertTimeInfinity
		}
		ct := verifh.Mint(c.ca, verifh.CertSpec{Key: pub, KeyID: req.KeyId, ValidAfter: now - 60, ValidBefore: vb,
			Principals: req.Principals, Serial: *c.serial, Exts: req.Extensions})
		line := strings.TrimSuffix(string(ssh.MarshalAuthorizedKey(ct)), "\n")
		if j%2 == 1 {
			line += fmt.Sprintf(" ca-comment-%d", j)
		}
		sb.WriteString(line + "\n")
		if c.plain && j == 0 {
			// a non-certificate public key among the answers is skipped by the RA
			sb.WriteString(strings.TrimSuffix(string(ssh.MarshalAuthorizedKey(c.plainPK)), "\n") + " not-a-certificate\n")
		}
	}
	c.res = "ok"
	return &proto.SSHKey{Key: sb.String()}, nil
}

var (
	zvgCAOnce   sync.Once
	zvgCAServer *zvgFakeCA
	zvgCASigner *crypki.Signer
	zvgCAErr    error
	zvgCADir    string
)

// zvgRealSigner starts the fake CA once per process and returns the real crypki.Signer configured for it.
func zvgRealSigner() (*zvgFakeCA, *crypki.Signer, error) {
	zvgCAOnce.Do(func() {
		dir, err := os.MkdirTemp("", "verif_gensign_ca")
		if err != nil {
			zvgCAErr = err
			return
		}
		zvgCADir = dir
		mk := func(tpl, parent *x509.Certificate, pk *ecdsa.PrivateKey, signer *ecdsa.PrivateKey) ([]byte, error) {
			return x509.CreateCertificate(rand.Reader, tpl, parent, &pk.PublicKey, signer)
		}
		now := time.Now()
		caKey, _ := ecdsa.GenerateKey(elliptic.P256(), rand.Reader)
		caTpl := &x509.Certificate{SerialNumber: big.NewInt(1), Subject: pkix.Name{CommonName: "verif gensign CA"}, NotBefore: now.Add(-time.Hour),
			NotAfter: now.Add(72 * time.Hour), IsCA: true, BasicConstraintsValid: true, KeyUsage: x509.KeyUsageCertSign | x509.KeyUsageDigitalSignature}
		caDER, err := mk(caTpl, caTpl, caKey, caKey)
		if err != nil {
			zvgCAErr = err
			return
		}
		caCert, _ := x509.ParseCertificate(caDER)
		srvKey, _ := ecdsa.GenerateKey(elliptic.P256(), rand.Reader)
		srvDER, err := mk(&x509.Certificate{SerialNumber: big.NewInt(2), Subject: pkix.Name{CommonName: "crypki.verif"}, NotBefore: now.Add(-time.Hour),
			NotAfter: now.Add(72 * time.Hour), KeyUsage: x509.KeyUsageDigitalSignature, ExtKeyUsage: []x509.ExtKeyUsage{x509.ExtKeyUsageServerAuth},
			IPAddresses: []net.IP{net.ParseIP("127.0.0.1")}, DNSNames: []string{"localhost"}}, caCert, srvKey, caKey)
		if err != nil {
			zvgCAErr = err
			return
		}
		cliKey, _ := ecdsa.GenerateKey(elliptic.P256(), rand.Reader)
		cliDER, err := mk(&x509.Certificate{SerialNumber: big.NewInt(3), Subject: pkix.Name{CommonName: "ysshra-ra.verif"}, NotBefore: now.Add(-time.Hour),
			NotAfter: now.Add(72 * time.Hour), KeyUsage: x509.KeyUsageDigitalSignature, ExtKeyUsage: []x509.ExtKeyUsage{x509.ExtKeyUsageClientAuth}}, caCert, cliKey, caKey)
		if err != nil {
			zvgCAErr = err
			return
		}
		cliKeyDER, _ := x509.MarshalECPrivateKey(cliKey)
		w := func(name string, b []byte) string {
			f := filepath.Join(dir, name)
			os.WriteFile(f, b, 0o600)
			return f
		}
		caFile := w("ca.pem", pem.EncodeToMemory(&pem.Block{Type: "CERTIFICATE", Bytes: caDER}))
		cliCert := w("client.crt", pem.EncodeToMemory(&pem.Block{Type: "CERTIFICATE", Bytes: cliDER}))
		cliKeyF := w("client.key", pem.EncodeToMemory(&pem.Block{Type: "EC PRIVATE KEY", Bytes: cliKeyDER}))
		lis, err := net.Listen("tcp", "127.0.0.1:0")
		if err != nil {
			zvgCAErr = err
			return
		}
		tlsCfg := &tls.Config{Certificates: []tls.Certificate{{Certificate: [][]byte{srvDER}, PrivateKey: srvKey}}, MinVersion: tls.VersionTLS12,
			ClientAuth: tls.RequestClientCert}
		srv := grpc.NewServer(grpc.Creds(credentials.NewTLS(tlsCfg)))
		zvgCAServer = &zvgFakeCA{calls: map[string]*zvgCACall{}}
		proto.RegisterSigningServer(srv, zvgCAServer)
		go srv.Serve(lis)
		zvgCASigner, zvgCAErr = crypki.NewSigner(crypki.SignerConfig{TLSClientKeyFile: cliKeyF, TLSClientCertFile: cliCert, TLSCACertFiles: []string{caFile},
			CrypkiEndpoints: []string{"127.0.0.1"}, CrypkiPort: uint(lis.Addr().(*net.TCPAddr).Port), Retries: 1, PerTryTimeout: 30 * time.Second})
	})
	return zvgCAServer, zvgCASigner, zvgCAErr
}

type zvgStubCA struct {
	ca      ssh.Signer
	rc      *zvgRunCtx
	ncert   int
	plain   bool
	flts    map[int]string
	calls   int
	serial  *uint64
	plainPK ssh.PublicKey
	rnd     *mrand.Rand
	server  *zvgFakeCA
	inner   csr.Signer
	crep    string
	// afterFirst, when set, is called once the first Sign call has returned (request context cancelled between two calls)
	afterFirst func()
}

func (c *zvgStubCA) Sign(ctx context.Context, req *proto.SSHCertificateSigningRequest) ([]ssh.PublicKey, []string, error) {
	c.calls++
	idx := c.calls
	rec := zvgGCsr{Prins: []string{}, Exts: []string{}, ExtsEmpty: true, Kid: zvgGKid{Prins: []string{}}}
	c.rc.mu.Lock()
	rec.H = c.rc.owner[req]
	c.rc.mu.Unlock()
	for _, p := range req.Principals {
		rec.Prins = append(rec.Prins, zvgHx(p))
	}
	rec.Val, rec.Valx = zvgCapVal(req.Validity), strconv.FormatUint(req.Validity, 10)
	for k, v := range req.Extensions {
		rec.Exts = append(rec.Exts, k)
		if v != "" {
			rec.ExtsEmpty = false
		}
	}
	sort.Strings(rec.Exts)
	if req.KeyMeta != nil {
		rec.Ident = req.KeyMeta.Identifier
	}
	if pub, _, _, _, perr := ssh.ParseAuthorizedKey([]byte(req.PublicKey)); perr == nil {
		rec.Key = zvgTagOf(pub.Marshal())
	} else {
		rec.Key = "unparsable"
	}
	if kid, err := keyid.Unmarshal(req.KeyId); err == nil {
		rec.Kid = zvgGKid{Ok: true, Prins: []string{}, Tid: zvgHx(kid.TransID), Ru: zvgHx(kid.ReqUser), IP: zvgHx(kid.ReqIP), Rh: zvgHx(kid.ReqHost),
			Ver: int(kid.Version), Ff: kid.IsFirefighter, Hw: kid.IsHWKey, Hl: kid.IsHeadless, Nonce: kid.IsNonce,
			Usage: int(kid.Usage), Touch: int(kid.TouchPolicy)}
		for _, p := range kid.Principals {
			rec.Kid.Prins = append(rec.Kid.Prins, zvgHx(p))
		}
	}
	push := func(recs []zvgGCert) {
		c.rc.mu.Lock()
		c.rc.obs.Csr = append(c.rc.obs.Csr, rec)
		c.rc.obs.Certs = append(c.rc.obs.Certs, recs...)
		c.rc.mu.Unlock()
	}
	if c.flts[idx] == "panic" {
		rec.Res = "panic"
		push(nil)
		panic("verif: injected panic in Signer.Sign")
	}
	call := &zvgCACall{idx: idx, ncert: c.ncert, plain: c.plain, fault: c.flts[idx], serial: c.serial, plainPK: c.plainPK, ca: c.ca, rnd: c.rnd}
	k := zvgCAKey(req)
	c.server.mu.Lock()
	c.server.calls[k] = call
	c.server.mu.Unlock()
	certs, comments, err := c.inner.Sign(ctx, req) // the real crypki.Signer
	c.server.mu.Lock()
	delete(c.server.calls, k)
	c.server.mu.Unlock()
	// what the CA did (environment fact) and what the signer handed to Run (observation)
	rec.Res = call.res
	if rec.Res == "" {
		rec.Res = "err" // the request did not reach the CA
	}
	var recs []zvgGCert
	for _, pk := range certs {
		if ct, ok := pk.(*ssh.Certificate); ok {
			recs = append(recs, zvgGCert{Tag: zvgTagOf(ct.Marshal()), Key: zvgTagOf(ct.Key.Marshal()), Call: idx})
		} else if strings.Contains(pk.Type(), "cert") {
			if p2, e2 := ssh.ParsePublicKey(pk.Marshal()); e2 == nil {
				if ct, ok := p2.(*ssh.Certificate); ok {
					recs = append(recs, zvgGCert{Tag: zvgTagOf(ct.Marshal()), Key: zvgTagOf(ct.Key.Marshal()), Call: idx})
				}
			}
		}
	}
	rec.N = len(recs)
	push(recs)
	if idx == 1 && c.afterFirst != nil {
		c.afterFirst()
	}
	// the same certificates in another representation of ssh.PublicKey
	if c.crep != "" && c.crep != "cert" {
		out := make([]ssh.PublicKey, len(certs))
		for i, pk := range certs {
			out[i] = pk
			if ct, ok := pk.(*ssh.Certificate); ok {
				if c.crep == "agentkey" {
					out[i] = &agent.Key{Format: ct.Type(), Blob: ct.Marshal(), Comment: "wire form"}
				} else {
					out[i] = zvgWrapCert{ct}
				}
			}
		}
		certs = out
	}
	return certs, comments, err
}

// ---------------------------------------------------------------------------------------------
// one case = one agent, several runs

type zvgGInst struct {
	c      *zvgGCase
	rnd    *mrand.Rand
	kr     agent.Agent
	ukind  string
	U, O   *verifh.KeyPair
	O2     *verifh.KeyPair
	ca     ssh.Signer
	cls    map[string]string
	serial uint64
	tmp    string
	oldSig map[string][]byte // key tag -> last genuine sign reply
	oldDat [][]byte          // data of earlier sign requests
	known  []ssh.PublicKey

	// reuse mode (zvgGCase.Reuse)
	px       *zvgGsProxy
	regH     gensign.Handler
	fixVal   uint64
	fixVform string
	fixIds   []zvgGIdent
	fixed    bool
}

var zvgNearMiss = map[string][]string{
	"nearcase":  {"PARANOIDS.REGULAR-cert", "Paranoids.Regular-cert", "paranoids.REGULAR-cert"},
	"neartrunc": {"paranoids.regula-cert", "aranoids.regular-cert", "paranoids.regula", "paranoids.regul ar-cert", "paranoids_regular-cert", "paranoids-regular-cert"},
}

func zvgKindOfKey(pk ssh.PublicKey) string {
	switch pk.Type() {
	case ssh.KeyAlgoED25519:
		return "ed25519"
	case ssh.KeyAlgoECDSA256:
		return "ecdsa256"
	case ssh.KeyAlgoECDSA384:
		return "ecdsa384"
	case ssh.KeyAlgoECDSA521:
		return "ecdsa521"
	}
	return "rsa2048"
}

func (g *zvgGInst) plant(cls string, n int) error {
	add := func(kp *verifh.KeyPair, cert *ssh.Certificate, comment string) error {
		ak := agent.AddedKey{PrivateKey: kp.Priv, Certificate: cert, Comment: comment}
		if err := g.kr.Add(ak); err != nil {
			return err
		}
		if cert != nil {
			g.cls[zvgTagOf(cert.Marshal())] = cls
		} else {
			g.cls[zvgTagOf(kp.Pub.Marshal())] = cls
		}
		return nil
	}
	mint := func(kp *verifh.KeyPair, kidText string) *ssh.Certificate {
		g.serial++
		now := uint64(time.Now().Unix())
		return verifh.Mint(g.ca, verifh.CertSpec{Key: kp.Pub, KeyID: kidText, ValidAfter: now - 60, ValidBefore: now + 86400,
			Principals: []string{"someone"}, Serial: g.serial})
	}
	kinds := verifh.KeyKinds
	switch cls {
	case "user":
		return add(g.U, nil, "user@laptop")
	case "plain":
		return add(verifh.PoolKey(20+n, kinds[g.rnd.Intn(3)]), nil, "backup key "+strconv.Itoa(n))
	case "foreign":
		kp := verifh.PoolKey(30+n, kinds[g.rnd.Intn(3)])
		return add(kp, mint(kp, "corp-ca user cert"), []string{"corp-cert", "", "regular", "paranoids", "cert"}[g.rnd.Intn(5)])
	case "nearcase", "neartrunc":
		kp := verifh.PoolKey(40+n, kinds[g.rnd.Intn(3)])
		cs := zvgNearMiss[cls]
		return add(kp, mint(kp, verifh.KeyIDText("yss-regular", "old", g.rnd)), cs[g.rnd.Intn(len(cs))])
	case "oldgenR":
		kp := verifh.PoolKey(50, "ecdsa384")
		return add(kp, mint(kp, verifh.KeyIDText("yss-regular", "old"+strconv.Itoa(n), g.rnd)), HandlerName+"-cert")
	case "oldgenS":
		kp := verifh.PoolKey(51, "ecdsa256")
		return add(kp, mint(kp, verifh.KeyIDText("yss-regular", "olds"+strconv.Itoa(n), g.rnd)), zvgStubName+"-cert")
	}
	return fmt.Errorf("unknown planted class %q", cls)
}

func (g *zvgGInst) observe() ([]zvgGID, error) {
	keys, err := g.kr.List()
	if err != nil {
		return nil, err
	}
	out := make([]zvgGID, 0, len(keys))
	for _, k := range keys {
		id := zvgGID{Tag: zvgTagOf(k.Blob), T: "key", Lb: "-", Cls: "ra"}
		id.K = id.Tag
		if c, ok := g.cls[id.Tag]; ok {
			id.Cls = c
		}
		if strings.Contains(k.Comment, HandlerName) {
			id.Lb = "R"
		} else if strings.Contains(k.Comment, zvgStubName) {
			id.Lb = "S"
		}
		pk, err := ssh.ParsePublicKey(k.Blob)
		if err != nil {
			out = append(out, id)
			continue
		}
		ver := pk
		if cert, ok := pk.(*ssh.Certificate); ok {
			id.T = "cert"
			id.K = zvgTagOf(cert.Key.Marshal())
			ver = cert.Key
		}
		data := make([]byte, 32)
		rand.Read(data)
		if sig, err := g.kr.Sign(pk, data); err == nil && ver.Verify(data, sig) == nil {
			id.Sg = true
		}
		out = append(out, id)
	}
	sort.Slice(out, func(i, j int) bool { return out[i].Tag < out[j].Tag })
	return out, nil
}

var zvgTextAlphabets = []string{
	"abcdefghijklmnopqrstuvwxyz0123456789", "ABCDEFGHIJKLMNOPQRSTUVWXYZ-_.", "\"\\{}[]:,'`", "<>&;|$*?!#%=+~^()@",
	" \t\n\r\u0001\u007f", "üéñßøåçÆ", "中文日本語한국어", "אבגד مرحبا", "😀🔑\U0001F600", "\u00a0\u2003\u200d\ufeff\u2028",
}

func zvgGenText(r *mrand.Rand, fileName bool) string {
	n := 1 + r.Intn(20)
	var sb strings.Builder
	nal := 1 + r.Intn(4)
	als := make([][]rune, nal)
	for i := range als {
		als[i] = []rune(zvgTextAlphabets[r.Intn(len(zvgTextAlphabets))])
	}
	for i := 0; i < n; i++ {
		a := als[r.Intn(nal)]
		sb.WriteRune(a[r.Intn(len(a))])
	}
	s := sb.String()
	if fileName {
		if s == "." || s == ".." || strings.HasSuffix(s, ".pub") {
			s = "u" + s + "x"
		}
	}
	return s
}

// zvgGenLogName: in two cases of three a name that a strict parameter validator accepts (non-empty, no '/', no backslash, no
// white space, no control characters, short) - still with JSON / shell metacharacters and non-ASCII letters; otherwise any text.
func zvgGenLogName(r *mrand.Rand) string {
	if r.Intn(3) == 0 {
		return zvgGenText(r, true)
	}
	for {
		var sb strings.Builder
		for _, c := range zvgGenText(r, true) {
			if c == '/' || c == '\\' || c == 0 || unicode.IsSpace(c) || unicode.IsControl(c) {
				continue
			}
			sb.WriteRune(c)
		}
		if s := sb.String(); s != "" && s != "." && s != ".." {
			return s
		}
	}
}

// zvgGenConvName: a conventional account / host label [a-z][a-z0-9._-]*
func zvgGenConvName(r *mrand.Rand) string {
	const first, rest = "abcdefghijklmnopqrstuvwxyz", "abcdefghijklmnopqrstuvwxyz0123456789abcdefghijklmnopqrstuvwxyz._-"
	n := 2 + r.Intn(10)
	b := []byte{first[r.Intn(len(first))]}
	for i := 1; i < n; i++ {
		b = append(b, rest[r.Intn(len(rest))])
	}
	s := string(b)
	if strings.HasSuffix(s, ".pub") {
		s += "x"
	}
	return s
}

func zvgGenIP4(r *mrand.Rand) string {
	return fmt.Sprintf("%d.%d.%d.%d", 1+r.Intn(223), r.Intn(256), r.Intn(256), 1+r.Intn(254))
}

func zvgGenIP(r *mrand.Rand) string {
	if r.Intn(3) == 0 {
		return fmt.Sprintf("2001:db8:%x::%x", r.Intn(65536), 1+r.Intn(65535))
	}
	return fmt.Sprintf("%d.%d.%d.%d", 1+r.Intn(223), r.Intn(256), r.Intn(256), 1+r.Intn(254))
}

func zvgUnhex(s string) (string, bool) {
	if s == "" || len(s)%2 == 1 {
		return "", false
	}
	b, err := hex.DecodeString(s)
	if err != nil {
		return "", false
	}
	return string(b), true
}

var zvgAlgoNames = map[int][]string{0: {"unknown", "default"}, 1: {"rsa"}, 2: {"dsa"}, 3: {"ecdsa"}, 4: {"ed25519"}}

func zvgAlgoText(r *mrand.Rand, a int, form string) string {
	names, ok := zvgAlgoNames[a]
	if !ok || form == "num" {
		return strconv.Itoa(a)
	}
	nm := names[r.Intn(len(names))]
	switch form {
	case "upper":
		return strings.ToUpper(nm)
	case "mixed":
		for {
			rs := []rune(nm)
			for i := range rs {
				if r.Intn(2) == 0 {
					rs[i] = unicode.ToUpper(rs[i])
				}
			}
			s := string(rs)
			if s != nm && s != strings.ToUpper(nm) {
				return s
			}
			if len(nm) < 2 {
				return s
			}
		}
	}
	return nm
}

// concrete values of one run
type zvgGConc struct {
	ln, ru, rh, ip, tid string
	dirPath             string
}

func (g *zvgGInst) fileFor(cls string) ([]byte, string) {
	switch cls {
	case "U":
		return ssh.MarshalAuthorizedKey(g.U.Pub), zvgTagOf(g.U.Pub.Marshal())
	case "O":
		return ssh.MarshalAuthorizedKey(g.O.Pub), zvgTagOf(g.O.Pub.Marshal())
	case "bad":
		switch g.rnd.Intn(4) {
		case 0:
			return []byte{}, "bad"
		case 1:
			return []byte("ssh-ed25519 AAAA-not-base64 comment\n"), "bad"
		case 2:
			b := ssh.MarshalAuthorizedKey(g.U.Pub)
			return b[:len(b)/2], "bad"
		default:
			b := make([]byte, 40)
			g.rnd.Read(b)
			return b, "bad"
		}
	}
	return nil, "none"
}

func (g *zvgGInst) runOne(ri int, run *zvgGRun, pre []zvgGID) (*zvgGRec, []zvgGID, error) {
	r := g.rnd
	// the configured validity: any uint64 (decimal text in the plan), loaded by the real configuration loader
	if run.Valx != "" {
		if v, err := strconv.ParseUint(run.Valx, 10, 64); err == nil {
			run.Val = v
		}
	}
	if run.Vform == "" {
		run.Vform = "num"
	}
	if run.Vform == "null" {
		run.Val = defaultCertValiditySec // nothing configured: the handler's default
	}
	if run.Delay == "" {
		run.Delay = "none"
	}
	if run.Crep == "" {
		run.Crep = "cert"
	}
	if run.Ctx == "" {
		run.Ctx = "bg"
	}
	// ---- concrete inputs (pairwise distinct) ----
	cv := zvgGConc{}
	used := map[string]bool{}
	pick := func(given string, gen func() string) string {
		if s, ok := zvgUnhex(given); ok {
			used[s] = true
			return s
		}
		for {
			s := gen()
			clash := used[s]
			for u := range used {
				if u+".pub" == s || s+".pub" == u {
					clash = true
				}
			}
			if !clash {
				used[s] = true
				return s
			}
		}
	}
	// two runs of three use fully conventional values (ASCII account / user / host names, as every deployment has them);
	// the others arbitrary UTF-8 with JSON / shell metacharacters
	conv := r.Intn(3) != 0
	// request message format: JSON, or the legacy text format (conventional names only; it cannot name a CA key algorithm)
	wire := run.Wire
	if wire == "" {
		wire = "json"
	}
	if wire != "json" {
		conv = true
	} else if conv && run.Algo == 0 && run.Ru != "=ln" && r.Intn(2) == 0 {
		wire = "absent"
		if run.Hard {
			wire = []string{"true", "true", "1", "t", "T", "TRUE", "True"}[r.Intn(7)]
		}
	}
	if run.Kalgo == "" {
		run.Kalgo = "ECCP256"
	}
	genLn, genRu, genRh := func() string { return zvgGenLogName(r) }, func() string { return zvgGenText(r, true) }, func() string { return zvgGenText(r, false) }
	if conv {
		genLn = func() string { return zvgGenConvName(r) }
		genRu = genLn
		genRh = func() string {
			return zvgGenConvName(r) + []string{".example.com", ".corp.example.net", "", "-laptop.local"}[r.Intn(4)]
		}
	}
	cv.ln = pick(run.Ln, genLn)
	if run.Ru == "=ln" {
		cv.ru = cv.ln // the client declares the login name itself (the common case in practice)
	} else {
		cv.ru = pick(run.Ru, genRu)
	}
	cv.rh = pick(run.Rh, genRh)
	cv.ip = pick(run.IP, func() string { return zvgGenIP(r) })
	if strings.ContainsAny(cv.ln, "/\x00") || strings.ContainsAny(cv.ru, "/\x00") {
		return nil, nil, fmt.Errorf("login / user names must be file names")
	}
	// ---- registered-key directory ----
	if g.c.Reuse {
		// one handler object serves all runs: its configuration (directory path, validity, key slots) is that of the first run
		cv.dirPath = filepath.Join(g.tmp, "keys")
		os.RemoveAll(cv.dirPath)
		if g.fixed {
			run.Val, run.Ids, run.Vform = g.fixVal, g.fixIds, g.fixVform
		} else {
			g.fixVal, g.fixIds, g.fixVform, g.fixed = run.Val, run.Ids, run.Vform, true
		}
	} else {
		cv.dirPath = filepath.Join(g.tmp, fmt.Sprintf("keys%d", ri))
	}
	if err := os.MkdirAll(cv.dirPath, 0o700); err != nil {
		return nil, nil, err
	}
	dirRec := zvgGDir{}
	for _, f := range []struct {
		name string
		cls  string
		out  *string
	}{{cv.ln + ".pub", run.Dir.Lp, &dirRec.Lp}, {cv.ln, run.Dir.Lb, &dirRec.Lb}, {cv.ru + ".pub", run.Dir.Rp, &dirRec.Rp}, {cv.ru, run.Dir.Rb, &dirRec.Rb}} {
		data, tg := g.fileFor(f.cls)
		*f.out = tg
		if tg == "none" {
			continue
		}
		if err := os.WriteFile(filepath.Join(cv.dirPath, f.name), data, 0o600); err != nil {
			return nil, nil, fmt.Errorf("cannot write key file %q: %v", f.name, err)
		}
	}
	// ---- configuration file, read by the real loader ----
	kids := map[string]string{}
	for _, id := range run.Ids {
		kids[zvgAlgoText(r, id.A, id.F)] = id.ID
	}
	confObj := map[string]interface{}{"handlers": map[string]interface{}{HandlerName: map[string]interface{}{
		"pub_key_dir": cv.dirPath, "key_identifiers": kids, "cert_validity_sec": json.RawMessage(zvgValText(run.Vform, run.Val))}}}
	confBytes, _ := json.Marshal(confObj)
	confPath := filepath.Join(g.tmp, fmt.Sprintf("conf%d.json", ri))
	if err := os.WriteFile(confPath, confBytes, 0o600); err != nil {
		return nil, nil, err
	}
	gconf, err := config.NewGensignConfig(confPath)
	if err != nil {
		return nil, nil, fmt.Errorf("config: %v", err)
	}
	// ---- fault plan ----
	agF := map[int]string{}
	caF := map[int]string{}
	hF := map[int]map[string]bool{}
	for _, f := range run.Flts {
		switch f.Pt {
		case "agent":
			agF[f.Idx] = f.Kind
		case "ca":
			caF[f.Idx] = f.Kind
		case "h":
			if hF[f.Idx] == nil {
				hF[f.Idx] = map[string]bool{}
			}
			hF[f.Idx][f.Kind] = true
		}
	}
	// ---- forwarded agent connection ----
	obs := &zvgGObs{Auth: make([]zvgGAuth, len(run.Hs)), Chal: []zvgGChal{}, Gen: []zvgGGen{}, Csr: []zvgGCsr{}, Certs: []zvgGCert{}, Fr: []zvgGFrame{}, Hp: []zvgGHP{}}
	rc := &zvgRunCtx{obs: obs, owner: map[*proto.SSHCertificateSigningRequest]int{}}
	px := g.px
	if px == nil || !px.alive() {
		if px != nil {
			px.close()
		}
		px = zvgNewGsProxy(g.kr)
		px.begin(func(int, string, []byte) zvgGsAction { return zvgGsAction{kind: "pass", fault: "none"} }, nil)
		px.start()
		g.px, g.regH = nil, nil
		if g.c.Reuse {
			g.px = px
		}
	}
	if !g.c.Reuse {
		defer px.close()
	}
	heldU := false
	for _, id := range pre {
		if id.Tag == zvgTagOf(g.U.Pub.Marshal()) && id.T == "key" {
			heldU = true
		}
	}
	var slowInFlight int32
	script := func(idx int, kind string, req []byte) zvgGsAction {
		if fk, ok := agF[idx]; ok {
			switch fk {
			case "fail":
				return zvgGsAction{kind: "reply", reply: []byte{5}, fault: "fail"}
			case "garbage":
				return zvgGsAction{kind: "reply", reply: zvgGarbageReply(r), fault: "garbage"}
			default:
				return zvgGsAction{kind: "close", fault: "close"}
			}
		}
		if kind != "sign" {
			return zvgGsAction{kind: "pass", fault: "none"}
		}
		if run.Delay != "none" {
			atomic.AddInt32(&slowInFlight, 1)
			defer atomic.AddInt32(&slowInFlight, -1)
		}
		switch run.Delay {
		case "short":
			time.Sleep(500 * time.Millisecond)
		case "long":
			time.Sleep(11500 * time.Millisecond)
		case "vlong":
			time.Sleep(35 * time.Second)
		}
		var sr zvgSignReq
		if err := ssh.Unmarshal(req, &sr); err != nil {
			return zvgGsAction{kind: "pass", fault: "none"}
		}
		reqTag := zvgTagOf(sr.KeyBlob)
		held := (reqTag == zvgTagOf(g.U.Pub.Marshal()) && heldU)
		mk := func(s ssh.Signer, data []byte) []byte {
			sig, err := s.Sign(rand.Reader, data)
			if err != nil {
				return []byte{5}
			}
			return ssh.Marshal(zvgSignResp{Sig: ssh.Marshal(sig)})
		}
		fmtOf := func() string {
			if pk, err := ssh.ParsePublicKey(sr.KeyBlob); err == nil {
				return pk.Type()
			}
			return "ssh-ed25519"
		}
		switch run.Ans {
		case "honest":
			return zvgGsAction{kind: "pass", fault: "none"}
		case "otherkey":
			return zvgGsAction{kind: "reply", reply: mk(g.O2.Signer, sr.Data), fault: "none"}
		case "otherdata":
			if !held {
				return zvgGsAction{kind: "reply", reply: []byte{5}, fault: "none"}
			}
			od := append([]byte{}, sr.Data...)
			switch r.Intn(3) {
			case 0:
				od[r.Intn(len(od))] ^= 1 << uint(r.Intn(8))
			case 1:
				r.Read(od)
			default:
				od = od[:len(od)-1]
			}
			return zvgGsAction{kind: "reply", reply: mk(g.U.Signer, od), fault: "none", other: od}
		case "replay":
			if old, ok := g.oldSig[reqTag]; ok {
				return zvgGsAction{kind: "reply", reply: old, fault: "none"}
			}
			return zvgGsAction{kind: "reply", reply: []byte{5}, fault: "none"}
		case "garbage":
			switch r.Intn(3) {
			case 0:
				return zvgGsAction{kind: "reply", reply: zvgGarbageReply(r), fault: "none"}
			case 1:
				b := make([]byte, 10+r.Intn(80))
				r.Read(b)
				return zvgGsAction{kind: "reply", reply: ssh.Marshal(zvgSignResp{Sig: b}), fault: "none"}
			default:
				b := make([]byte, 64)
				r.Read(b)
				return zvgGsAction{kind: "reply", reply: ssh.Marshal(zvgSignResp{Sig: ssh.Marshal(&ssh.Signature{Format: fmtOf(), Blob: b})}), fault: "none"}
			}
		case "empty":
			switch r.Intn(3) {
			case 0:
				return zvgGsAction{kind: "reply", reply: ssh.Marshal(zvgSignResp{Sig: []byte{}}), fault: "none"}
			case 1:
				return zvgGsAction{kind: "reply", reply: ssh.Marshal(zvgSignResp{Sig: ssh.Marshal(&ssh.Signature{Format: fmtOf(), Blob: []byte{}})}), fault: "none"}
			default:
				return zvgGsAction{kind: "reply", reply: ssh.Marshal(zvgSignResp{Sig: ssh.Marshal(&ssh.Signature{})}), fault: "none"}
			}
		case "closed":
			return zvgGsAction{kind: "close", fault: "none"}
		default: // nokey, failure
			return zvgGsAction{kind: "reply", reply: []byte{5}, fault: "none"}
		}
	}
	onFrame := func(idx int, kind string, req, reply []byte, act zvgGsAction, fr *zvgGFrame) {
		if kind != "sign" {
			return
		}
		var sr zvgSignReq
		if err := ssh.Unmarshal(req, &sr); err != nil {
			return
		}
		ch := zvgGChal{Key: zvgTagOf(sr.KeyBlob), Data: make([]int, len(sr.Data)), Hx: hex.EncodeToString(sr.Data), Sig: zvgGSig{Key: "none", Data: "none"}, F: act.fault}
		for i, b := range sr.Data {
			ch.Data[i] = int(b)
		}
		rc.mu.Lock()
		ch.H = rc.curAuth
		rc.mu.Unlock()
		// which key does the answer verify under, and over which data?
		if act.kind != "close" && len(reply) > 0 && reply[0] == 14 {
			var resp zvgSignResp
			var sig ssh.Signature
			if ssh.Unmarshal(reply, &resp) == nil && ssh.Unmarshal(resp.Sig, &sig) == nil {
				cands := append([]ssh.PublicKey{}, g.known...)
				if pk, err := ssh.ParsePublicKey(sr.KeyBlob); err == nil {
					cands = append(cands, pk)
				}
				type dc struct {
					n string
					d []byte
				}
				datas := []dc{{"cur", sr.Data}}
				for _, od := range g.oldDat {
					datas = append(datas, dc{"old", od})
				}
				if act.other != nil {
					datas = append(datas, dc{"other", act.other})
				}
			search:
				for _, d := range datas {
					for _, k := range cands {
						if k.Verify(d.d, &sig) == nil {
							ch.Sig = zvgGSig{Key: zvgTagOf(k.Marshal()), Data: d.n}
							break search
						}
					}
				}
				if act.kind == "pass" {
					g.oldSig[ch.Key] = append([]byte{}, reply...)
				}
			}
		}
		g.oldDat = append(g.oldDat, append([]byte{}, sr.Data...))
		rc.mu.Lock()
		obs.Chal = append(obs.Chal, ch)
		rc.mu.Unlock()
	}
	px.begin(script, onFrame)
	// ---- handlers ----
	var hs []gensign.Handler
	notStarted := false
	for i, hk := range run.Hs {
		var inner gensign.Handler
		switch hk {
		case "regular":
			if g.c.Reuse && g.regH != nil {
				inner = g.regH
			} else {
				inner, err = NewHandler(gconf, px.client)
				if err != nil {
					// the configuration is refused: no handler, no run (and no handler object whose configuration later runs share)
					notStarted = true
					g.fixed = false
					break
				}
				if g.c.Reuse {
					g.regH = inner
				}
			}
		case "accept", "reject":
			inner = &zvgStubHandler{accept: hk == "accept", sgen: run.Sgen, ncsr: run.Ncsr, val: run.Val, kalgo: run.Kalgo, ag: agent.NewClient(px.client)}
		default:
			return nil, nil, fmt.Errorf("unknown handler kind %q", hk)
		}
		if notStarted {
			break
		}
		hs = append(hs, &zvgRecH{inner: inner, idx: i + 1, rc: rc, panicAt: hF[i+1]})
	}
	caSrv, realSigner, caErr := zvgRealSigner()
	if caErr != nil {
		return nil, nil, fmt.Errorf("fake CA / crypki.NewSigner: %v", caErr)
	}
	ca := &zvgStubCA{ca: g.ca, rc: rc, ncert: run.Ncert, plain: run.PlainCA, flts: caF, serial: &g.serial, plainPK: g.O.Pub, rnd: r,
		server: caSrv, inner: realSigner, crep: run.Crep}
	// ---- request parameters: built the way production builds them, csr.NewReqParam over the forced-command environment
	// (SSH_ORIGINAL_COMMAND in the JSON or the legacy format, LOGNAME, SSH_CONNECTION, argv); a hand-built value only
	// when NewReqParam cannot produce the scenario
	attrs := &message.Attributes{IfVer: 7, Username: cv.ru, Hostname: cv.rh, SSHClientVersion: "8.1", HardKey: run.Hard,
		CAPubKeyAlgo: zvgX509Algo(run.Algo)}
	var cmd string
	if wire != "json" {
		// legacy text; the boolean attributes in any spelling (the HardKey text is the scenario's, the others are noise)
		sp := []string{"1", "t", "T", "TRUE", "true", "True", "0", "f", "F", "FALSE", "false", "False", "yes", ""}
		parts := []string{"IFVer=6", "SSHClientVersion=8.1", "req=" + cv.ru + "@" + cv.rh}
		if wire != "absent" {
			parts = append(parts, "HardKey="+wire)
		}
		if r.Intn(3) == 0 {
			parts = append(parts, "Touch2SSH="+sp[r.Intn(len(sp))])
		}
		if r.Intn(3) == 0 {
			parts = append(parts, "IsFirefighter="+sp[r.Intn(len(sp))])
		}
		r.Shuffle(len(parts)-1, func(i, j int) { parts[i+1], parts[j+1] = parts[j+1], parts[i+1] })
		cmd = strings.Join(parts, " ")
	} else {
		cb, _ := json.Marshal(attrs)
		cmd = string(cb)
	}
	env := map[string]string{"SSH_ORIGINAL_COMMAND": cmd, "LOGNAME": cv.ln,
		"SSH_CONNECTION": fmt.Sprintf("%s %d %s 22", cv.ip, 1024+r.Intn(64000), zvgGenIP4(r))}
	param, perr := csr.NewReqParam(func(k string) string { return env[k] }, func() []string { return []string{"/usr/bin/gensign", run.Ns, HandlerName} })
	canonNs := run.Ns == "NONS" || run.Ns == "NSOK"
	paramRefused := false
	if !canonNs {
		// a namespace-policy token other than the two canonical ones: only the real parser decides what it means;
		// when it refuses the forced command there is no request at all
		if perr != nil || param == nil {
			paramRefused = true
			param = &csr.ReqParam{LogName: cv.ln, ReqUser: cv.ru, ReqHost: cv.rh, ClientIP: cv.ip, TransID: transid.Generate()}
		}
	} else if perr != nil || param == nil || param.Attrs == nil || param.LogName != cv.ln || param.ReqUser != cv.ru || param.ReqHost != cv.rh ||
		param.ClientIP != cv.ip || string(param.NamespacePolicy) != run.Ns ||
		(wire == "json" && (param.Attrs.HardKey != run.Hard || int(param.Attrs.CAPubKeyAlgo) != run.Algo)) {
		// (for the legacy format the flags are whatever the real parser makes of the text: that chain is under test)
		param = &csr.ReqParam{
			NamespacePolicy:  common.NamespacePolicy(run.Ns),
			HandlerName:      HandlerName,
			ClientIP:         cv.ip,
			LogName:          cv.ln,
			ReqUser:          cv.ru,
			ReqHost:          cv.rh,
			TransID:          transid.Generate(),
			SSHClientVersion: version.New(8, 1),
			Attrs: &message.Attributes{IfVer: 7, Username: cv.ru, Hostname: cv.rh, SSHClientVersion: "8.1", HardKey: run.Hard,
				CAPubKeyAlgo: zvgX509Algo(run.Algo), TouchlessSudo: &message.TouchlessSudo{}},
		}
	}
	if t, ok := zvgUnhex(run.Tid); ok {
		param.TransID = t
	}
	cv.tid = param.TransID // this request's transaction id, generated on the server side
	// ---- the run ----
	type res struct {
		err error
		pan bool
	}
	ch := make(chan res, 1)
	var out res
	runCtx, cancelCtx := context.WithCancel(context.Background())
	defer cancelCtx()
	switch run.Ctx {
	case "cancelled":
		cancelCtx()
	case "deadline":
		// shorter than the slow agent's delay ("short" = 0.5 s): it expires during the agent phase
		var c2 context.CancelFunc
		runCtx, c2 = context.WithTimeout(runCtx, 200*time.Millisecond)
		defer c2()
	case "between":
		ca.afterFirst = cancelCtx
	}
	if paramRefused {
		notStarted = true
	}
	if !notStarted {
		go func() {
			var out res
			defer func() {
				if rv := recover(); rv != nil {
					out.pan = true
				}
				ch <- out
			}()
			out.err = gensign.Run(runCtx, param, hs, ca)
		}()
		select {
		case out = <-ch:
		case <-time.After(90 * time.Second):
			return nil, nil, fmt.Errorf("gensign.Run did not return within 90 s")
		}
		// a slow agent may still be answering a request the code stopped waiting for: let the proxy finish the frame
		for i := 0; i < 450 && atomic.LoadInt32(&slowInFlight) > 0; i++ {
			time.Sleep(100 * time.Millisecond)
		}
		if run.Delay != "none" {
			time.Sleep(100 * time.Millisecond)
		}
	}
	if !g.c.Reuse {
		px.close()
	}
	px.mu.Lock()
	obs.Fr = append(obs.Fr, px.frames...)
	px.mu.Unlock()
	obs.Err = zvgErrKind(out.err)
	obs.Pan = out.pan
	if notStarted {
		obs.Err = "NewHandler"
	}
	if paramRefused {
		obs.Err = "NewReqParam"
	}
	post, err := g.observe()
	if err != nil {
		return nil, nil, err
	}
	sc := *run
	sc.Ln, sc.Ru, sc.Rh, sc.IP, sc.Tid = zvgHx(cv.ln), zvgHx(cv.ru), zvgHx(cv.rh), zvgHx(cv.ip), zvgHx(cv.tid)
	sc.Dir = dirRec
	sc.Wire = wire
	sc.Val, sc.Valx = zvgCapVal(run.Val), strconv.FormatUint(run.Val, 10)
	sc.Valx2 = sc.Valx
	if run.Vform == "frac" {
		sc.Valx2 = strconv.FormatUint(run.Val+1, 10)
	}
	if wire != "json" {
		sc.Hard = map[string]bool{"1": true, "t": true, "T": true, "TRUE": true, "true": true, "True": true}[wire]
	}
	sc.Flts = nil
	if sc.Ids == nil {
		sc.Ids = []zvgGIdent{}
	}
	if sc.Hs == nil {
		sc.Hs = []string{}
	}
	rec := &zvgGRec{Ev: "step", Tid: g.c.ID, I: ri + 1, Pre: &zvgGAg{Ag: pre}, E: &zvgGEv{Op: "run", Sc: &sc, R: obs}, Post: &zvgGAg{Ag: post}}
	return rec, post, nil
}

func zvgRunCase(c *zvgGCase, tmpRoot string) ([]interface{}, error) {
	g := &zvgGInst{c: c, rnd: verifh.NewRand("gensign/"+c.ID, 0), kr: agent.NewKeyring(), cls: map[string]string{}, oldSig: map[string][]byte{}}
	g.ukind = c.UKind
	if g.ukind == "" {
		g.ukind = verifh.KeyKinds[g.rnd.Intn(3)]
	}
	g.U = verifh.PoolKey(1, g.ukind)
	g.O = verifh.PoolKey(2, g.ukind)
	g.O2 = verifh.PoolKey(3, g.ukind)
	g.known = []ssh.PublicKey{g.U.Pub, g.O.Pub, g.O2.Pub}
	g.ca = verifh.PoolKey(9, "ed25519").Signer
	g.serial = uint64(g.rnd.Int63n(1 << 40))
	var err error
	g.tmp, err = os.MkdirTemp(tmpRoot, "case")
	if err != nil {
		return nil, err
	}
	defer os.RemoveAll(g.tmp)
	for i, cls := range c.Pre {
		if err := g.plant(cls, i); err != nil {
			return nil, fmt.Errorf("plant %s: %v", cls, err)
		}
	}
	pre, err := g.observe()
	if err != nil {
		return nil, err
	}
	out := []interface{}{&zvgGRec{Ev: "reset", Tid: c.ID, Post: &zvgGAg{Ag: pre}, Info: map[string]interface{}{"case": c, "seed": verifh.Seed()}}}
	for ri := range c.Runs {
		rec, post, err := g.runOne(ri, &c.Runs[ri], pre)
		if err != nil {
			return nil, fmt.Errorf("case %s run %d: %v", c.ID, ri+1, err)
		}
		out = append(out, rec)
		pre = post
	}
	if g.px != nil {
		g.px.close()
	}
	return out, nil
}

// ---------------------------------------------------------------------------------------------
// direction B: random cases

func zvgRandomCase(n int, maxRuns int) zvgGCase {
	r := verifh.NewRand("gensign/random", int64(n))
	c := zvgGCase{ID: fmt.Sprintf("r%d", n), UKind: verifh.KeyKinds[r.Intn(len(verifh.KeyKinds))]}
	if r.Intn(10) == 0 {
		c.UKind = "rsa2048"
	}
	c.Pre = []string{"user"}
	for _, cls := range []string{"foreign", "nearcase", "neartrunc", "plain", "oldgenR", "oldgenR", "oldgenS"} {
		if r.Intn(3) == 0 {
			c.Pre = append(c.Pre, cls)
		}
	}
	if r.Intn(20) == 0 {
		c.Pre = c.Pre[1:] // the agent does not hold the user's key
	}
	nr := 1 + r.Intn(maxRuns)
	if r.Intn(2) == 0 {
		c.Reuse = true
		nr = 2 + r.Intn(maxRuns)
	}
	fcls := func(w []int) string { // weights for none, U, O, bad
		t := r.Intn(w[0] + w[1] + w[2] + w[3])
		switch {
		case t < w[0]:
			return "none"
		case t < w[0]+w[1]:
			return "U"
		case t < w[0]+w[1]+w[2]:
			return "O"
		}
		return "bad"
	}
	for i := 0; i < nr; i++ {
		run := zvgGRun{Ns: "NONS", Ans: "honest", Sgen: "ok", Ncsr: 1 + r.Intn(2), Ncert: r.Intn(4), Algo: r.Intn(5), Fok: true}
		// handlers
		nh := r.Intn(4)
		if r.Intn(3) > 0 {
			nh = 1 + r.Intn(2)
		}
		reg := false
		for j := 0; j < nh; j++ {
			k := []string{"regular", "regular", "regular", "accept", "reject"}[r.Intn(5)]
			if k == "regular" {
				if reg {
					k = "reject"
				}
				reg = true
			}
			run.Hs = append(run.Hs, k)
		}
		if run.Hs == nil {
			run.Hs = []string{}
		}
		if r.Intn(16) == 0 {
			run.Ns = "NSOK"
		}
		run.Hard = r.Intn(20) == 0
		run.Kalgo = []string{"ECCP256", "ECCP256", "ECCP384", "ECCP521", "ED25519", "RSA2048"}[r.Intn(6)]
		if r.Intn(5) > 0 {
			run.Dir = zvgGDir{Lp: fcls([]int{2, 8, 1, 1}), Lb: fcls([]int{6, 2, 1, 1}), Rp: fcls([]int{8, 2, 1, 0}), Rb: fcls([]int{9, 1, 1, 0})}
		} else {
			run.Dir = zvgGDir{Lp: fcls([]int{3, 2, 2, 2}), Lb: fcls([]int{3, 3, 2, 2}), Rp: fcls([]int{3, 4, 2, 0}), Rb: fcls([]int{4, 3, 2, 0})}
		}
		if r.Intn(5) == 0 {
			run.Ans = []string{"nokey", "otherkey", "otherdata", "replay", "replay", "garbage", "empty", "failure", "closed"}[r.Intn(9)]
		}
		// validity 1 s .. 10 y, log-uniform, with the end points
		switch r.Intn(8) {
		case 0:
			run.Val = 1
		case 1:
			run.Val = 315360000
		default:
			e := r.Float64() * 8.5
			v := 1.0
			for ; e > 1; e-- {
				v *= 10
			}
			v *= 1 + 9*e*r.Float64()
			run.Val = uint64(v)
			if run.Val < 1 {
				run.Val = 1
			}
			if run.Val > 315360000 {
				run.Val = 315360000
			}
		}
		if r.Intn(10) == 0 {
			// representation boundaries of the types the validity passes through (all exact JSON numbers)
			run.Val = []uint64{0, 1, 2147483647, 2147483648, 4294967295, 4294967296, 4294967296 + 43200, 4294967296 + 1, 8589934592 + 7,
				9007199254740991, 9007199254740992, 9223372036854775808}[r.Intn(12)]
		}
		run.Valx = strconv.FormatUint(run.Val, 10)
		if r.Intn(12) == 0 {
			// the configuration writes the number as some other JSON text
			run.Vform = []string{"float0", "exp", "frac", "neg", "str", "str0", "strhex", "strus", "strsp", "bool", "null"}[r.Intn(11)]
			if run.Val > 315360000 || run.Val == 0 {
				run.Val = uint64(1 + r.Intn(315360000))
			}
			run.Valx = strconv.FormatUint(run.Val, 10)
		}
		if r.Intn(7) == 0 {
			run.Crep = []string{"agentkey", "wrapper"}[r.Intn(2)]
		}
		if r.Intn(40) == 0 {
			run.Delay = "short"
		}
		switch r.Intn(30) {
		case 0:
			run.Ctx = "cancelled"
		case 1:
			run.Ctx = "between"
		case 2:
			run.Ctx, run.Delay = "deadline", "short"
		}
		if r.Intn(20) == 0 {
			run.Ns = []string{"nons", "Nons", "nsok", "Nsok", "nsOK", "NSOK1", "NS_OK", "NONS1", "", " NONS", "NONS ", " NSOK", "noNS"}[r.Intn(13)]
		}
		// key identifiers: at most one entry per algorithm
		forms := []string{"lower", "upper", "mixed", "num"}
		for a := 0; a < 5; a++ {
			p := 2
			if a == run.Algo {
				p = 5
			}
			if r.Intn(6) < p {
				run.Ids = append(run.Ids, zvgGIdent{A: a, F: forms[r.Intn(4)], ID: fmt.Sprintf("slot-%d-%d", a, r.Intn(1000))})
			}
		}
		if r.Intn(20) == 0 {
			// a CA key algorithm number beyond the named ones, configured by number (or not at all)
			run.Algo = []int{5, 255, 65536, 2147483647}[r.Intn(4)]
			if r.Intn(3) > 0 {
				run.Ids = append(run.Ids, zvgGIdent{A: run.Algo, F: "num", ID: fmt.Sprintf("slot-x-%d", r.Intn(1000))})
			}
		}
		if run.Ids == nil {
			run.Ids = []zvgGIdent{}
		}
		if r.Intn(7) == 0 {
			run.Sgen = []string{"CSR", "Conf", "Params", "empty"}[r.Intn(4)]
		}
		run.PlainCA = r.Intn(10) == 0
		if r.Intn(8) == 0 {
			run.Ru = "=ln"
			run.Dir.Rp, run.Dir.Rb = run.Dir.Lp, run.Dir.Lb
		}
		// faults: none / one / two
		nf := []int{0, 0, 0, 1, 1, 2}[r.Intn(6)]
		for j := 0; j < nf; j++ {
			switch r.Intn(5) {
			case 0:
				run.Flts = append(run.Flts, zvgGFlt{Pt: "ca", Idx: 1 + r.Intn(2), Kind: []string{"err", "panic"}[r.Intn(2)]})
			case 1:
				if nh > 0 {
					run.Flts = append(run.Flts, zvgGFlt{Pt: "h", Idx: 1 + r.Intn(nh), Kind: []string{"auth", "name", "gen"}[r.Intn(3)]})
				}
			default:
				run.Flts = append(run.Flts, zvgGFlt{Pt: "agent", Idx: 1 + r.Intn(9), Kind: []string{"fail", "garbage", "close"}[r.Intn(3)]})
			}
		}
		if run.Flts == nil {
			run.Flts = []zvgGFlt{}
		}
		// one run of six arrives in the legacy message format with some spelling of the HardKey attribute
		if r.Intn(6) == 0 && run.Ru != "=ln" {
			sp := []string{"absent", "absent", "0", "f", "F", "FALSE", "false", "False", "1", "t", "T", "TRUE", "true", "True", "", "yes", "2", "TrUe", "on"}
			run.Wire = sp[r.Intn(len(sp))]
			run.Algo = 0
		}
		c.Runs = append(c.Runs, run)
	}
	return c
}

func zvgX509Algo(a int) x509.PublicKeyAlgorithm { return x509.PublicKeyAlgorithm(a) }

// ---------------------------------------------------------------------------------------------

func TestVerifGensign(t *testing.T) {
	planPath, outPath := os.Getenv("VERIF_PLAN"), os.Getenv("VERIF_OUT")
	if planPath == "" || outPath == "" {
		t.Skip("VERIF_PLAN / VERIF_OUT not set")
	}
	zerolog.SetGlobalLevel(zerolog.Disabled)
	var plan zvgGPlan
	b, err := os.ReadFile(planPath)
	if err != nil {
		t.Fatal(err)
	}
	if err := json.Unmarshal(b, &plan); err != nil {
		t.Fatal(err)
	}
	tr, err := verifh.OpenTrace(outPath)
	if err != nil {
		t.Fatal(err)
	}
	cases := plan.Cases
	nA := len(cases)
	if plan.Random != nil {
		for i := 0; i < plan.Random.N; i++ {
			cases = append(cases, zvgRandomCase(i, plan.Random.MaxRuns))
		}
	}
	if len(plan.Only) > 0 {
		var sel []zvgGCase
		for _, c := range cases {
			for _, id := range plan.Only {
				if c.ID == id {
					sel = append(sel, c)
				}
			}
		}
		cases = sel
		nA = 0
	}
	tmpRoot, err := os.MkdirTemp("", "verif_gensign")
	if err != nil {
		t.Fatal(err)
	}
	defer os.RemoveAll(tmpRoot)
	defer func() {
		if zvgCADir != "" {
			os.RemoveAll(zvgCADir)
		}
	}()
	workers := plan.Workers
	if workers <= 0 {
		workers = 4
	}
	// progress file: which cases were in flight if the process dies (C04: "the process keeps running")
	var prog *os.File
	if pp := os.Getenv("VERIF_PROGRESS"); pp != "" {
		prog, _ = os.Create(pp)
	}
	var progMu sync.Mutex
	mark := func(what string, i int) {
		if prog == nil {
			return
		}
		b, _ := json.Marshal(map[string]interface{}{"ev": what, "i": i, "id": cases[i].ID})
		progMu.Lock()
		prog.Write(append(b, '\n'))
		progMu.Unlock()
	}
	var (
		wg    sync.WaitGroup
		mu    sync.Mutex
		runs  int
		errs  []string
		next  int
		pans  int
		kinds = map[string]int{}
	)
	// cases with a slow agent (> 10 s per run) each get their own goroutine, so that the batch takes one delay, not their sum
	slow := map[int]bool{}
	var order []int
	for i := range cases {
		for _, rn := range cases[i].Runs {
			if rn.Delay == "long" || rn.Delay == "vlong" {
				slow[i] = true
			}
		}
		if !slow[i] {
			order = append(order, i)
		}
	}
	var qmu sync.Mutex
	queue := make(chan int, len(cases))
	for _, i := range order {
		queue <- i
	}
	close(queue)
	_ = qmu
	nworkers := workers + len(slow)
	slowIdx := make(chan int, len(slow)+1)
	for i := range slow {
		slowIdx <- i
	}
	close(slowIdx)
	for w := 0; w < nworkers; w++ {
		wg.Add(1)
		isSlowWorker := w >= workers
		go func() {
			defer wg.Done()
			for {
				var i int
				var ok bool
				if isSlowWorker {
					i, ok = <-slowIdx
				} else {
					i, ok = <-queue
				}
				if !ok {
					return
				}
				mu.Lock()
				next++
				mu.Unlock()
				mark("start", i)
				recs, err := zvgRunCase(&cases[i], tmpRoot)
				mark("done", i)
				mu.Lock()
				if err != nil {
					errs = append(errs, err.Error())
				} else {
					for _, rr := range recs[1:] {
						o := rr.(*zvgGRec).E.R
						runs++
						kinds[o.Err]++
						if o.Pan {
							pans++
						}
					}
				}
				mu.Unlock()
				if err == nil {
					tr.EmitAll(recs)
				}
			}
		}()
	}
	wg.Wait()
	if err := tr.Close(); err != nil {
		t.Fatal(err)
	}
	summ := map[string]interface{}{"cases": len(cases), "cases_a": nA, "cases_b": len(cases) - nA, "runs": runs, "errors": len(errs),
		"escaped_panics": pans, "err_kinds": kinds}
	sb, _ := json.Marshal(summ)
	fmt.Printf("VERIF-SUMMARY %s\n", sb)
	for i, e := range errs {
		if i < 10 {
			t.Errorf("harness error: %s", e)
		}
	}
	_ = bytes.MinRead
	_ = io.EOF
}
