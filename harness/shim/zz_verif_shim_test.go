//go:build verif

package shimagent

// Conformance harness for spec/ShimAgent.tla (properties C07..C10).
// Direction A: replays walks through the TLC-exported labelled transition system on real
// *Server objects and reports every step whose (result, post-state) differs from the edge.
// Direction B: drives random histories with concrete keys/certificates and records every step
// (pre-state, label, post-state) for validation by TLC (spec/TraceShim.tla).

import (
	"bytes"
	"crypto/rand"
	"crypto/sha256"
	"encoding/hex"
	"encoding/json"
	"fmt"
	"math"
	"io"
	mrand "math/rand"
	"net"
	"os"
	"reflect"
	"runtime"
	"sort"
	"sync"
	"sync/atomic"
	"testing"
	"time"
	"unsafe"

	"github.com/theparanoids/ysshra/verifh"
	"golang.org/x/crypto/ssh"
	"golang.org/x/crypto/ssh/agent"
)

type zvfVCertDef struct {
	Key string `json:"key"`
	V0  bool   `json:"v0"`
	V1  bool   `json:"v1"`
	Yss bool   `json:"yss"`
}

type zvfVUniverse struct {
	Keys  []string            `json:"keys"`
	Certs map[string]zvfVCertDef `json:"certs"`
	Pass  []string            `json:"pass"`
}

type zvfVState struct {
	U  []string `json:"u"`
	Ul bool     `json:"ul"`
	Up string   `json:"up"`
	M  []string `json:"m"`
	C  []string `json:"c"`
	L  bool     `json:"l"`
	Nu bool     `json:"nu"`
	N  int      `json:"n"`
	D  bool     `json:"d"`
	Fv []string `json:"fv"`
}

type zvfVFault struct {
	Kind string `json:"kind"`
	Hit  string `json:"hit"`
}

type zvfVRes struct {
	Ok  bool     `json:"ok"`
	Pan bool     `json:"pan"`
	L1  []string `json:"l1"`
	L2  []string `json:"l2"`
	By  string   `json:"by"`
}

type zvfVLabel struct {
	Op  string `json:"op"`
	Arg string `json:"arg"`
	F   zvfVFault `json:"f"`
	Res zvfVRes   `json:"res"`
}

type zvfVWalk struct {
	Init  int      `json:"init"`
	Steps [][2]int `json:"steps"` // [label id, target state id]
	Tail  *zvfVLabel  `json:"tail"`  // optional faulted operation appended to the walk
}

type zvfVReplay struct {
	Universe zvfVUniverse `json:"universe"`
	Init     zvfVState    `json:"init"`
	Ops      []zvfVLabel  `json:"ops"`
	Info     map[string]string `json:"info"` // classes of the recorded instance ("key:<id>" -> key kind is re-used)
}

type zvfVRandomCfg struct {
	N        int       `json:"n"`
	MinLen   int       `json:"minlen"`
	MaxLen   int       `json:"maxlen"`
	Universe zvfVUniverse `json:"universe"`
	Ops      []string  `json:"ops"`
	Faults   []string  `json:"faults"`
}

type zvfVPlan struct {
	Universe zvfVUniverse   `json:"universe"`
	States   []zvfVState    `json:"states"`
	Labels   []zvfVLabel    `json:"labels"`
	Walks    []zvfVWalk     `json:"walks"`
	Random   *zvfVRandomCfg `json:"random"`
	Replays  []zvfVReplay   `json:"replays"`  // recorded traces to re-execute (check --replay)
	NewCases []zvfVFault    `json:"newcases"` // construction through New(): kind = fault kind or "none", hit = "up"/"noup"
	FullLog  int         `json:"fulllog"` // number of walks logged in full (samples for TLC and the evidence file)
}

func zvfNormSet(s []string) []string {
	if s == nil {
		return []string{}
	}
	o := append([]string{}, s...)
	sort.Strings(o)
	return o
}

func (s zvfVState) norm() zvfVState {
	s.U, s.M, s.C, s.Fv = zvfNormSet(s.U), zvfNormSet(s.M), zvfNormSet(s.C), zvfNormSet(s.Fv)
	return s
}

func (r zvfVRes) norm() zvfVRes {
	r.L1, r.L2 = zvfNormSet(r.L1), zvfNormSet(r.L2)
	return r
}

// ---------------------------------------------------------------------------------------------

type zvfVInst struct {
	u      *zvfVUniverse
	rnd    *mrand.Rand
	keys   map[string]*verifh.KeyPair
	certs  map[string]*ssh.Certificate
	byBlob map[string]string
	byHash map[hashcode]string
	kr     agent.Agent
	fx     *verifh.FlexAgent // = kr: a keyring that can also hold security-key identities
	px     *verifh.Proxy
	srv    *Server
	noUp   bool
	closed bool
	now    int
	T      int64 // lapse second: TF certificates are valid through T, FT certificates from T+1
	fv     []string
	classes map[string]string
	rmu    sync.Mutex
	pwVar  int  // how the abstract passphrases are instantiated (see pw)
	wedged bool // an operation did not return (watchdog): the instance is not driven any further
	echo   bool // the proxy echoes extension requests (concurrency harness): Forward/Extension check the echo
}

// pw instantiates an abstract passphrase name.  Distinct names are distinct byte strings - in most instances strings
// that differ only in a trailing line terminator, in letter case or in surrounding blanks, the near misses a
// "helpful" normalisation would identify ("only the passphrase unlocks").
func (in *zvfVInst) pw(name string) []byte {
	idx := map[string]int{"p1": 0, "p2": 1, "other": 2}
	i, ok := idx[name]
	if !ok {
		return []byte(name)
	}
	switch in.pwVar {
	case 1:
		return []byte([]string{"s3cret", "s3cret\n", "s3cret\r\n"}[i])
	case 2:
		return []byte([]string{"Pass phrase", "pass phrase", " Pass phrase"}[i])
	case 3:
		return []byte([]string{"pw\x00", "pw", "pw "}[i])
	}
	return []byte(name)
}

// rint is a goroutine-safe in.rnd.Intn.
func (in *zvfVInst) rint(n int) int {
	in.rmu.Lock()
	defer in.rmu.Unlock()
	return in.rnd.Intn(n)
}

var zvfVCA = verifh.GenKey("ca", "ed25519")

// zvfVWrapConn, when set, wraps the connection handed to newShimAgent (used by the concurrency harness).
var zvfVWrapConn func(net.Conn) io.ReadWriteCloser
var zvfVInstMu sync.Mutex

func zvfKeyKindFor(slot int) string {
	return verifh.KeyKinds[(int(verifh.Seed())+slot)%len(verifh.KeyKinds)]
}

// window picks concrete validity bounds for an abstract class.
func (in *zvfVInst) window(d zvfVCertDef, forever bool, now0 int64) (va, vb uint64, class string) {
	r := in.rnd
	T := uint64(in.T)
	n := uint64(now0)
	switch {
	case d.V0 && d.V1:
		if forever {
			if r.Intn(2) == 0 {
				return 0, math.MaxUint64, "forever"
			}
			return uint64(r.Intn(2)), uint64(math.MaxInt64) + 1 + uint64(r.Intn(1000)), "beyond-int64"
		}
		switch r.Intn(3) {
		case 0:
			return n - 3600, n + 86400, "current"
		case 1:
			return 0, n + 10*365*86400, "current-long"
		default:
			return n - 1 - uint64(r.Intn(100)), T + 3600, "current-short"
		}
	case d.V0 && !d.V1:
		if r.Intn(2) == 0 {
			return n - 3600, T, "lapsing"
		}
		return 0, T, "lapsing-from-zero"
	case !d.V0 && d.V1:
		if r.Intn(2) == 0 {
			return T + 1, T + 86400, "becoming-valid"
		}
		return T + 1, math.MaxUint64, "becoming-valid-forever"
	default:
		switch r.Intn(6) {
		case 0:
			return n - 7200, n - 3600, "past"
		case 1:
			return 0, 0, "zero"
		case 2:
			return n + 86400, n + 2*86400, "future"
		case 3:
			return uint64(math.MaxInt64) + 1 + uint64(r.Intn(1000)), math.MaxUint64, "future-beyond-int64"
		case 4:
			return 1, 2, "epoch-start"
		default:
			return n - 3, n - 2, "just-expired"
		}
	}
}

func zvfNewInst(u *zvfVUniverse, init zvfVState, zvfHasTick bool, rnd *mrand.Rand) *zvfVInst {
	return zvfNewInstSK(u, init, zvfHasTick, rnd, nil, nil)
}

// zvfSKCand lists the keys of the universe that the given operations never hand to the shim's own Add (which
// cannot carry a security key): those may be instantiated as FIDO security keys.
func zvfSKCand(u *zvfVUniverse, ops []zvfVLabel) []string {
	bad := map[string]bool{}
	for _, o := range ops {
		if o.Op == "add" {
			if d, ok := u.Certs[o.Arg]; ok {
				bad[d.Key] = true
			} else {
				bad[o.Arg] = true
			}
		}
	}
	seen := map[string]bool{}
	var out []string
	for _, k := range u.Keys {
		if !bad[k] && !seen[k] {
			out, seen[k] = append(out, k), true
		}
	}
	cids := zvfSortedCerts(u)
	for _, c := range cids {
		k := u.Certs[c].Key
		if !bad[k] && !seen[k] {
			out, seen[k] = append(out, k), true
		}
	}
	sort.Strings(out)
	return out
}

// zvfNewInstSK: skCand = keys that may be instantiated as security keys (one of them is, half of the time);
// force = key kinds to re-use ("key:<id>" -> kind), from a recorded instance.
func zvfNewInstSK(u *zvfVUniverse, init zvfVState, zvfHasTick bool, rnd *mrand.Rand, skCand []string, force map[string]string) *zvfVInst {
	skKey, skKind := "", ""
	if len(skCand) > 0 && rnd.Intn(2) == 0 {
		skKey, skKind = skCand[rnd.Intn(len(skCand))], []string{"sk-ed25519", "sk-ecdsa256"}[rnd.Intn(2)]
	}
	in := &zvfVInst{u: u, rnd: rnd, keys: map[string]*verifh.KeyPair{}, certs: map[string]*ssh.Certificate{},
		byBlob: map[string]string{}, byHash: map[hashcode]string{}, noUp: init.Nu, fv: zvfNormSet(init.Fv), classes: map[string]string{}}
	now0 := time.Now().Unix()
	if zvfHasTick {
		in.T = now0 + 4
	} else {
		in.T = now0 + 7200
	}
	allKeys := append([]string{}, u.Keys...)
	for _, d := range u.Certs {
		found := false
		for _, k := range allKeys {
			if k == d.Key {
				found = true
			}
		}
		if !found {
			allKeys = append(allKeys, d.Key)
		}
	}
	sort.Strings(allKeys)
	for i, k := range allKeys {
		kind := zvfKeyKindFor(i)
		if k == skKey {
			kind = skKind
		}
		if f, ok := force["key:"+k]; ok {
			kind = f
		}
		kp := verifh.PoolKey(i, kind)
		in.keys[k] = kp
		in.classes["key:"+k] = kind
		in.byBlob[string(kp.Pub.Marshal())] = k
	}
	cids := make([]string, 0, len(u.Certs))
	for c := range u.Certs {
		cids = append(cids, c)
	}
	sort.Strings(cids)
	fvset := map[string]bool{}
	for _, c := range in.fv {
		fvset[c] = true
	}
	for i, c := range cids {
		d := u.Certs[c]
		va, vb, class := in.window(d, fvset[c], now0)
		var kid, kclass string
		if d.Yss {
			kclass = verifh.YssKeyIDs[rnd.Intn(len(verifh.YssKeyIDs))]
		} else {
			kclass = verifh.NonYssKeyIDs[rnd.Intn(len(verifh.NonYssKeyIDs))]
		}
		kid = verifh.KeyIDText(kclass, fmt.Sprintf("%010x", rnd.Int63n(1<<40)), rnd)
		crt := verifh.Mint(zvfVCA.Signer, verifh.CertSpec{Key: in.keys[d.Key].Pub, KeyID: kid, ValidAfter: va, ValidBefore: vb,
			Principals: []string{"p" + c}, Serial: uint64(i + 1)})
		in.certs[c] = crt
		in.byBlob[string(crt.Marshal())] = c
		in.byHash[hash(crt.Marshal())] = c
		in.classes[c] = class + "/" + kclass
	}
	in.pwVar = int(uint64(rnd.Int63()) % 4)
	for i, n := range []string{"plain", "line-terminator", "case-and-blank", "nul-and-blank"} {
		if force["pass"] == n {
			in.pwVar = i
		}
	}
	in.classes["pass"] = []string{"plain", "line-terminator", "case-and-blank", "nul-and-blank"}[in.pwVar]
	in.fx = verifh.NewFlexAgent()
	in.kr = in.fx
	for _, id := range zvfNormSet(init.U) {
		if err := in.krAdd(id); err != nil {
			panic(err)
		}
	}
	in.px = verifh.NewProxy(in.kr, mrand.New(mrand.NewSource(rnd.Int63())))
	in.px.Frag = rnd.Intn(3) != 0 // most instances see replies arrive in several segments
	in.px.Rewrite = func(req, reply []byte) []byte {
		if len(req) > 0 && req[0] == 27 { // extension requests are answered with an echo so that replies are sizeable and caller-specific
			if len(req) > 1<<20 { // a full echo of a request near the 16 MiB frame limit would exceed it: answer with its digest
				d := sha256.Sum256(req)
				return append([]byte{29}, d[:]...)
			}
			return append([]byte{29}, req...)
		}
		return reply
	}
	var conn io.ReadWriteCloser = in.px.Client
	if zvfVWrapConn != nil {
		conn = zvfVWrapConn(in.px.Client)
	}
	srv, err := newShimAgent(conn, in.noUp)
	if err != nil {
		panic(fmt.Sprintf("verif: newShimAgent failed on a healthy agent: %v", err))
	}
	srv.pubKeyComp = func(x, y ssh.PublicKey) bool { return bytes.Equal(x.Marshal(), y.Marshal()) }
	in.srv = srv
	return in
}

// krAdd loads an identity into the underlying agent directly (security-key identities cannot go through Add).
func (in *zvfVInst) krAdd(id string) error {
	kid := id
	if d, ok := in.u.Certs[id]; ok {
		kid = d.Key
	}
	if kp := in.keys[kid]; verifh.IsSKKind(kp.Kind) {
		return in.fx.AddIdentity(in.pub(id), kp.Signer, "cmt-"+id)
	}
	return in.kr.Add(in.addedKey(id))
}

func (in *zvfVInst) addedKey(id string) agent.AddedKey {
	if c, ok := in.certs[id]; ok {
		return agent.AddedKey{PrivateKey: in.keys[in.u.Certs[id].Key].Priv, Certificate: c, Comment: "cmt-" + id}
	}
	return agent.AddedKey{PrivateKey: in.keys[id].Priv, Comment: "cmt-" + id}
}

func (in *zvfVInst) pub(id string) ssh.PublicKey {
	if c, ok := in.certs[id]; ok {
		return c
	}
	return in.keys[id].Pub
}

func (in *zvfVInst) idOf(blob []byte) string {
	if id, ok := in.byBlob[string(blob)]; ok {
		return id
	}
	return "?" + hex.EncodeToString(blob[:zvfMinInt(8, len(blob))])
}

func zvfMinInt(a, b int) int {
	if a < b {
		return a
	}
	return b
}

// project reads the abstract state off the real objects.
func (in *zvfVInst) project() zvfVState {
	st := zvfVState{Nu: in.noUp, N: in.now, Fv: in.fv}
	// underlying agent: owned by the harness; probe the lock with the candidate passphrases
	st.Up = "none"
	cands := append([]string{"other"}, in.u.Pass...)
	err := in.kr.Unlock([]byte("\x00verif-probe"))
	if err != nil && err.Error() == "agent: not locked" {
		st.Ul = false
	} else {
		st.Ul = true
		st.Up = "?"
		for _, p := range cands {
			if in.kr.Unlock(in.pw(p)) == nil {
				st.Up = p
				break
			}
		}
	}
	if !st.Ul || st.Up != "?" {
		ks, _ := in.kr.List()
		for _, k := range ks {
			st.U = append(st.U, in.idOf(k.Blob))
		}
		if st.Ul {
			if err := in.kr.Lock(in.pw(st.Up)); err != nil {
				panic(err)
			}
		}
	}
	for h := range in.srv.certs {
		if id, ok := in.byHash[h]; ok {
			st.M = append(st.M, id)
		} else {
			st.M = append(st.M, "?"+hex.EncodeToString(h[:4]))
		}
	}
	for h := range in.srv.upstreamSSHCACertCache {
		if id, ok := in.byHash[h]; ok {
			st.C = append(st.C, id)
		} else {
			st.C = append(st.C, "?"+hex.EncodeToString(h[:4]))
		}
	}
	st.L = zvfLockedFlag(in.srv)
	st.D = in.closed || in.px.Dead()
	return st.norm()
}

// zvfLockedFlag reads Server.locked whatever its representation (bool today; an atomic.Bool is an equally good one).
func zvfLockedFlag(s *Server) bool {
	v := reflect.ValueOf(s).Elem().FieldByName("locked")
	if !v.IsValid() {
		panic("verif: Server has no field named locked (harness needs adapting)")
	}
	if v.Kind() == reflect.Bool {
		return v.Bool()
	}
	if l, ok := reflect.NewAt(v.Type(), unsafe.Pointer(v.UnsafeAddr())).Interface().(interface{ Load() bool }); ok {
		return l.Load()
	}
	panic("verif: Server.locked has an unknown representation (harness needs adapting)")
}

// zvfSameObs compares two projected states without the upstream-certificate cache: the cache is an internal
// optimisation (no property mentions it; what it must achieve is observed through listings and signing), so a
// different caching strategy is not a deviation.  It is still logged, and strict conformance of the random traces
// reports cache differences as SPEC-DRIFT.
func zvfSameObs(a, b zvfVState) bool {
	a.C, b.C = nil, nil
	return reflect.DeepEqual(a, b)
}

func zvfBag(ids []string) (l1, l2 []string) {
	cnt := map[string]int{}
	for _, id := range ids {
		cnt[id]++
	}
	for id, n := range cnt {
		l1 = append(l1, id)
		if n >= 2 {
			l2 = append(l2, id)
		}
		if n >= 3 {
			l2 = append(l2, fmt.Sprintf("%dx:%s", n, id))
		}
	}
	return
}

// exec runs one operation of the shim (or an environment action) and returns the observed result.
func (in *zvfVInst) exec(op, arg string) (res zvfVRes) {
	defer func() {
		if r := recover(); r != nil {
			res = zvfVRes{Ok: false, Pan: true, By: ""}
			fmt.Fprintf(os.Stderr, "verif: PANIC in %s(%s): %v\n", op, arg, r)
		}
		res = res.norm()
	}()
	s := in.srv
	switch op {
	case "list":
		ks, err := s.List()
		if err != nil {
			return zvfVRes{}
		}
		var ids []string
		for _, k := range ks {
			ids = append(ids, in.idOf(k.Blob))
		}
		l1, l2 := zvfBag(ids)
		return zvfVRes{Ok: true, L1: l1, L2: l2}
	case "signers":
		ss, err := s.Signers()
		if err != nil {
			return zvfVRes{}
		}
		var ids []string
		for _, sg := range ss {
			ids = append(ids, in.idOf(sg.PublicKey().Marshal()))
		}
		l1, l2 := zvfBag(ids)
		r := zvfVRes{Ok: true, L1: l1, L2: l2}
		return r
	case "sign":
		data := make([]byte, 16+in.rint(48))
		rand.Read(data)
		pk := in.pub(arg)
		var sig *ssh.Signature
		var err error
		flags := agent.SignatureFlags(0)
		if in.rint(2) == 0 {
			sig, err = s.Sign(pk, data)
		} else {
			if in.keyKind(arg) == "rsa2048" {
				flags = []agent.SignatureFlags{0, agent.SignatureFlagRsaSha256, agent.SignatureFlagRsaSha512}[in.rint(3)]
			}
			sig, err = s.SignWithFlags(pk, data, flags)
		}
		if err != nil {
			return zvfVRes{}
		}
		by := "none"
		ids := make([]string, 0, len(in.keys))
		for id := range in.keys {
			ids = append(ids, id)
		}
		sort.Strings(ids)
		for _, id := range ids {
			if in.keys[id].Pub.Verify(data, sig) == nil {
				by = id
				break
			}
		}
		return zvfVRes{Ok: true, By: by}
	case "signersuse":
		ss, err := s.Signers()
		if err != nil {
			return zvfVRes{}
		}
		r := zvfVRes{Ok: true}
		for _, sg := range ss {
			data := make([]byte, 24)
			rand.Read(data)
			if sig, err := sg.Sign(rand.Reader, data); err == nil {
				if sg.PublicKey().Verify(data, sig) != nil {
					r.By = "badsignature:" + in.idOf(sg.PublicKey().Marshal())
				}
			}
			if as, ok := sg.(ssh.AlgorithmSigner); ok {
				for _, alg := range []string{ssh.KeyAlgoRSASHA256, ssh.KeyAlgoRSASHA512, ""} {
					if sig, err := as.SignWithAlgorithm(rand.Reader, data, alg); err == nil {
						if sg.PublicKey().Verify(data, sig) != nil {
							r.By = "badsignature:" + alg + ":" + in.idOf(sg.PublicKey().Marshal())
						}
					}
				}
				// the key's own algorithm (what an SSH client negotiates for a non-RSA key, or ssh-rsa) selects the
				// default signature: it must be produced whenever the plain Sign call produces one
				own := sg.PublicKey().Type()
				if pk, err := ssh.ParsePublicKey(sg.PublicKey().Marshal()); err == nil { // signers of the agent client carry wire-form keys
					own = pk.Type()
					if c, ok := pk.(*ssh.Certificate); ok {
						own = c.Key.Type()
					}
				}
				_, plainErr := sg.Sign(rand.Reader, data)
				sig, err := as.SignWithAlgorithm(rand.Reader, data, own)
				if plainErr == nil && err != nil {
					r.By = "algrefused:" + own + ":" + in.idOf(sg.PublicKey().Marshal())
				} else if err == nil && sg.PublicKey().Verify(data, sig) != nil {
					r.By = "badsignature:" + own + ":" + in.idOf(sg.PublicKey().Marshal())
				}
			}
		}
		return r
	case "add":
		if verifh.IsSKKind(in.keyKind(arg)) {
			panic("verif: harness error: the shim's Add cannot carry a security-key identity")
		}
		ak := in.addedKey(arg)
		if in.rint(3) == 0 {
			ak.LifetimeSecs = 3600 + uint32(in.rint(1000))
		}
		return zvfVRes{Ok: s.Add(ak) == nil}
	case "addhard":
		return zvfVRes{Ok: s.AddHardCert(in.pub(arg), "sfx") == nil}
	case "remove":
		return zvfVRes{Ok: s.Remove(in.pub(arg)) == nil}
	case "removeall":
		return zvfVRes{Ok: s.RemoveAll() == nil}
	case "lock":
		return zvfVRes{Ok: s.Lock(in.pw(arg)) == nil}
	case "unlock":
		return zvfVRes{Ok: s.Unlock(in.pw(arg)) == nil}
	case "lockrace", "lockrace2":
		// Lock(arg) is in flight (the underlying agent has its lock request and has not answered yet) when another
		// client's List (lockrace) / RemoveAll (lockrace2) arrives.  ok = Lock's result; the other call's outcome goes
		// into l1/l2 (listing) resp. by ("ra-ok" / "ra-err").
		reached, release := make(chan struct{}), make(chan struct{})
		var once sync.Once
		oldGate := in.px.Gate
		in.px.Gate = func(req []byte) {
			if len(req) > 0 && req[0] == 22 {
				hit := false
				once.Do(func() { hit = true })
				if hit {
					close(reached)
					<-release
				}
			}
			if oldGate != nil {
				oldGate(req)
			}
		}
		defer func() { in.px.Gate = oldGate }()
		lockDone := make(chan bool, 1)
		go func() { lockDone <- s.Lock(in.pw(arg)) == nil }()
		select {
		case <-reached:
		case ok := <-lockDone:
			// Lock returned without asking the underlying agent (refused): no race to stage
			once.Do(func() {})
			if op == "lockrace" {
				ks, err := s.List()
				if err != nil {
					return zvfVRes{Ok: ok, By: "list-err"}
				}
				var ids []string
				for _, k := range ks {
					ids = append(ids, in.idOf(k.Blob))
				}
				l1, l2 := zvfBag(ids)
				return zvfVRes{Ok: ok, L1: l1, L2: l2, By: "list-ok"}
			}
			if s.RemoveAll() == nil {
				return zvfVRes{Ok: ok, By: "ra-ok"}
			}
			return zvfVRes{Ok: ok, By: "ra-err"}
		}
		type bres struct {
			ids []string
			err error
		}
		bDone := make(chan bres, 1)
		go func() {
			if op == "lockrace" {
				ks, err := s.List()
				var ids []string
				for _, k := range ks {
					ids = append(ids, in.idOf(k.Blob))
				}
				bDone <- bres{ids, err}
			} else {
				bDone <- bres{nil, s.RemoveAll()}
			}
		}()
		time.Sleep(40 * time.Millisecond) // the second call is now queued behind Lock (or past a check it should not have passed yet)
		close(release)
		ok := <-lockDone
		b := <-bDone
		if op == "lockrace" {
			if b.err != nil {
				return zvfVRes{Ok: ok, By: "list-err"}
			}
			l1, l2 := zvfBag(b.ids)
			return zvfVRes{Ok: ok, L1: l1, L2: l2, By: "list-ok"}
		}
		if b.err == nil {
			return zvfVRes{Ok: ok, By: "ra-ok"}
		}
		return zvfVRes{Ok: ok, By: "ra-err"}
	case "close":
		err := s.Close()
		if err == nil {
			in.closed = true
		}
		return zvfVRes{Ok: err == nil}
	case "forward":
		var req []byte
		if arg == "list" {
			req = []byte{11}
		} else if arg == "big" {
			// request sizes on buffer boundaries: 4 KiB, 64 KiB and the 16 MiB frame limit (the largest frame the protocol allows)
			base := []int{4096, 65536, 16 << 20, 16 << 20}[in.rint(4)]
			sz := base - in.rint(7)
			req = make([]byte, sz)
			rand.Read(req[:4096-8])
			copy(req, []byte{27, 0, 0, 0, 7, 'v', 'e', 'r', 'i', 'f', '@', 'x'})
			resp, err := s.Forward(req)
			if err != nil {
				return zvfVRes{}
			}
			// relayed = the request reached the underlying agent byte-identical and its answer (whatever it was: the
			// digest echo, or a faulted reply) reached the caller byte-identical
			fr := in.px.Frames()
			if len(fr) == 1 && bytes.Equal(fr[0].Req, req) && bytes.Equal(fr[0].Reply, resp) {
				return zvfVRes{Ok: true, By: "relayed"}
			}
			return zvfVRes{Ok: true, By: "altered"}
		} else {
			body := make([]byte, 8+in.rint(200))
			if in.rint(4) == 0 {
				body = make([]byte, 1000+in.rint(60000))
			}
			rand.Read(body)
			req = append([]byte{27, 0, 0, 0, 7, 'v', 'e', 'r', 'i', 'f', '@', 'x'}, body...)
		}
		resp, err := s.Forward(req)
		if err != nil {
			return zvfVRes{}
		}
		by := "altered"
		if in.echo {
			// the proxy answers an extension request with 29 || request: the caller must get its own echo
			if arg == "list" || (len(resp) == 1+len(req) && resp[0] == 29 && bytes.Equal(resp[1:], req)) {
				by = "relayed"
			}
		} else {
			fr := in.px.Frames()
			if len(fr) == 1 && bytes.Equal(fr[0].Req, req) && bytes.Equal(fr[0].Reply, resp) {
				by = "relayed"
			}
		}
		return zvfVRes{Ok: true, By: by}
	case "fstorm":
		// several clients forward raw requests at the same moment; each must get the echo of its own request
		nG, nR := 3+in.rint(4), 6+in.rint(10)
		seeds := make([]int64, nG)
		for g := range seeds {
			seeds[g] = int64(in.rint(1 << 30))
		}
		type out struct{ errs, altered int }
		outs := make(chan out, nG)
		for g := 0; g < nG; g++ {
			go func(g int) {
				var o out
				r := mrand.New(mrand.NewSource(seeds[g]))
				for i := 0; i < nR; i++ {
					body := make([]byte, 8+r.Intn(300))
					r.Read(body)
					req := append([]byte{27, 0, 0, 0, 7, 'v', 'e', 'r', 'i', 'f', '@', 'x', byte(g), byte(i)}, body...)
					resp, err := s.Forward(req)
					if err != nil {
						o.errs++
					} else if !(len(resp) == 1+len(req) && resp[0] == 29 && bytes.Equal(resp[1:], req)) {
						o.altered++
					}
				}
				outs <- o
			}(g)
		}
		var tot out
		for g := 0; g < nG; g++ {
			o := <-outs
			tot.errs += o.errs
			tot.altered += o.altered
		}
		if tot.errs > 0 {
			return zvfVRes{}
		}
		if tot.altered > 0 {
			return zvfVRes{Ok: true, By: "altered"}
		}
		return zvfVRes{Ok: true, By: "relayed"}
	case "extension":
		body := make([]byte, 8+in.rint(100))
		rand.Read(body)
		resp, err := s.Extension("verif@x", body)
		if err != nil {
			return zvfVRes{}
		}
		by := "relayed"
		if in.echo {
			// 29 || marshalled request (code 27, string type, string contents)
			// 29 || marshalled request (code 27, string type, contents as the rest of the packet)
			want := append([]byte{29, 27, 0, 0, 0, 7, 'v', 'e', 'r', 'i', 'f', '@', 'x'}, body...)
			if !bytes.Equal(resp, want) {
				by = "altered"
			}
		}
		return zvfVRes{Ok: true, By: by}
	// ---- environment actions, applied to the harness-owned underlying agent directly
	case "dremove":
		if err := in.kr.Remove(in.pub(arg)); err != nil {
			panic("verif: dremove failed: " + err.Error())
		}
		return zvfVRes{Ok: true}
	case "dadd":
		if err := in.krAdd(arg); err != nil {
			panic("verif: dadd failed: " + err.Error())
		}
		return zvfVRes{Ok: true}
	case "dlock":
		if err := in.kr.Lock(in.pw("other")); err != nil {
			panic("verif: dlock failed: " + err.Error())
		}
		return zvfVRes{Ok: true}
	case "dunlock":
		if err := in.kr.Unlock(in.pw("other")); err != nil {
			panic("verif: dunlock failed: " + err.Error())
		}
		return zvfVRes{Ok: true}
	case "tick":
		for time.Now().Unix() < in.T+2 {
			time.Sleep(50 * time.Millisecond)
		}
		in.now = 1
		return zvfVRes{Ok: true}
	}
	panic("verif: unknown op " + op)
}

func (in *zvfVInst) keyKindOfBlob(pk ssh.PublicKey) string {
	id := in.idOf(pk.Marshal())
	if _, ok := in.keys[id]; ok {
		return in.keyKind(id)
	}
	if _, ok := in.certs[id]; ok {
		return in.keyKind(id)
	}
	return ""
}

func (in *zvfVInst) keyKind(id string) string {
	if d, ok := in.u.Certs[id]; ok {
		return in.keys[d.Key].Kind
	}
	return in.keys[id].Kind
}

// step = exec + projection; fault (kind, hit) optional.
func (in *zvfVInst) step(op, arg string, f zvfVFault) (zvfVLabel, zvfVState) {
	in.px.Begin()
	if f.Kind != "" && f.Kind != "none" {
		in.px.Arm(f.Kind, f.Hit)
	}
	var res zvfVRes
	resCh := make(chan zvfVRes, 1)
	go func() { resCh <- in.exec(op, arg) }()
	select {
	case res = <-resCh:
	case <-time.After(zvfHangAfter):
		// the operation does not return: recorded as by = "hang"; the instance is abandoned
		res = zvfVRes{By: "hang"}.norm()
		in.wedged = true
		fmt.Fprintf(os.Stderr, "verif: %s(%s) did not return within %v\n", op, arg, zvfHangAfter)
	}
	lab := zvfVLabel{Op: op, Arg: arg, F: zvfVFault{"none", "none"}, Res: res}
	if fired, hit := in.px.Fired(); fired {
		lab.F = zvfVFault{f.Kind, hit}
	}
	in.px.Begin()
	return lab, in.project()
}

const zvfHangAfter = 25 * time.Second

func (in *zvfVInst) close() {
	in.px.Close()
}

type zvfVRec struct {
	Ev   string      `json:"ev"`
	Tid  string      `json:"tid"`
	I    int         `json:"i"`
	Pre  *zvfVState     `json:"pre,omitempty"`
	E    *zvfVLabel     `json:"e,omitempty"`
	Post zvfVState      `json:"post"`
	Exp  interface{} `json:"exp,omitempty"`
	Info interface{} `json:"info,omitempty"`
}

type zvfVStats struct {
	walks, steps, deviations, discarded, faultSteps, randomTraces, randomSteps int64
	labels                                                                     sync.Map
}

func zvfHasTick(p *zvfVPlan, w zvfVWalk) bool {
	for _, s := range w.Steps {
		if p.Labels[s[0]].Op == "tick" {
			return true
		}
	}
	return false
}

func TestVerifShim(t *testing.T) {
	planPath, outPath := os.Getenv("VERIF_PLAN"), os.Getenv("VERIF_OUT")
	if planPath == "" || outPath == "" {
		t.Skip("VERIF_PLAN / VERIF_OUT not set")
	}
	raw, err := os.ReadFile(planPath)
	if err != nil {
		t.Fatal(err)
	}
	var plan zvfVPlan
	if err := json.Unmarshal(raw, &plan); err != nil {
		t.Fatal(err)
	}
	for i := range plan.States {
		plan.States[i] = plan.States[i].norm()
	}
	for i := range plan.Labels {
		plan.Labels[i].Res = plan.Labels[i].Res.norm()
	}
	tr, err := verifh.OpenTrace(outPath)
	if err != nil {
		t.Fatal(err)
	}
	var st zvfVStats
	workers := runtime.GOMAXPROCS(0)
	sem := make(chan struct{}, workers)
	var wg sync.WaitGroup

	// ---- direction A
	for wi := range plan.Walks {
		wg.Add(1)
		go func(wi int) {
			defer wg.Done()
			sem <- struct{}{}
			held := true
			defer func() {
				if held {
					<-sem
				}
			}()
			w := plan.Walks[wi]
			rnd := verifh.NewRand("walk", int64(wi))
			tick := zvfHasTick(&plan, w)
			wops := make([]zvfVLabel, 0, len(w.Steps)+1)
			for _, s := range w.Steps {
				wops = append(wops, plan.Labels[s[0]])
			}
			if w.Tail != nil {
				wops = append(wops, *w.Tail)
			}
			in := zvfNewInstSK(&plan.Universe, plan.States[w.Init], tick, rnd, zvfSKCand(&plan.Universe, wops), nil)
			defer in.close()
			tid := fmt.Sprintf("w%d", wi)
			full := wi < plan.FullLog
			var recs []interface{}
			cur := in.project()
			if !zvfSameObs(cur, plan.States[w.Init]) {
				// construction itself deviates from the model's initial state
				recs = append(recs, zvfVRec{Ev: "reset", Tid: tid, Post: plan.States[w.Init], Info: in.classes})
				recs = append(recs, zvfVRec{Ev: "step", Tid: tid, I: 0, Pre: &plan.States[w.Init], E: &zvfVLabel{Op: "construct", F: zvfVFault{"none", "none"}, Res: zvfVRes{Ok: true}.norm()}, Post: cur, Exp: plan.States[w.Init]})
				tr.EmitAll(recs)
				atomic.AddInt64(&st.deviations, 1)
				return
			}
			recs = append(recs, zvfVRec{Ev: "reset", Tid: tid, Post: cur, Info: in.classes})
			atomic.AddInt64(&st.walks, 1)
			deviated := false
			for si, s := range w.Steps {
				exp := plan.Labels[s[0]]
				if exp.Op == "tick" {
					if time.Now().Unix() >= in.T {
						atomic.AddInt64(&st.discarded, 1) // pre-tick phase too slow: inconclusive, never judged
						return
					}
					<-sem
					held = false
					in.exec("tick", "")
					sem <- struct{}{}
					held = true
					in.now = 1
					lab := zvfVLabel{Op: "tick", F: zvfVFault{"none", "none"}, Res: zvfVRes{Ok: true}.norm()}
					post := in.project()
					if full {
						pre := cur
						recs = append(recs, zvfVRec{Ev: "step", Tid: tid, I: si + 1, Pre: &pre, E: &lab, Post: post})
					}
					cur = post
					atomic.AddInt64(&st.steps, 1)
					continue
				}
				lab, post := in.step(exp.Op, exp.Arg, zvfVFault{})
				atomic.AddInt64(&st.steps, 1)
				st.labels.Store(s[0], true)
				pre := cur
				ok := reflect.DeepEqual(lab, exp) && zvfSameObs(post, plan.States[s[1]])
				if !ok {
					if !full {
						recs = recs[:0]
						recs = append(recs, zvfVRec{Ev: "reset", Tid: tid, Post: pre, Info: in.classes})
					}
					recs = append(recs, zvfVRec{Ev: "step", Tid: tid, I: si + 1, Pre: &pre, E: &lab, Post: post,
						Exp: map[string]interface{}{"e": exp, "t": plan.States[s[1]]}})
					atomic.AddInt64(&st.deviations, 1)
					deviated = true
					break
				}
				if full {
					recs = append(recs, zvfVRec{Ev: "step", Tid: tid, I: si + 1, Pre: &pre, E: &lab, Post: post})
				}
				cur = post
			}
			if !deviated && w.Tail != nil {
				pre := cur
				lab, post := in.step(w.Tail.Op, w.Tail.Arg, w.Tail.F)
				atomic.AddInt64(&st.faultSteps, 1)
				if !full {
					recs = recs[:0]
					recs = append(recs, zvfVRec{Ev: "reset", Tid: tid, Post: pre, Info: in.classes})
				}
				recs = append(recs, zvfVRec{Ev: "step", Tid: tid, I: len(w.Steps) + 1, Pre: &pre, E: &lab, Post: post})
				full = true
			}
			if full || deviated {
				tr.EmitAll(recs)
			}
		}(wi)
	}
	wg.Wait()

	// ---- re-execution of recorded traces
	for ri := range plan.Replays {
		rp := plan.Replays[ri]
		if len(rp.Ops) == 1 && rp.Ops[0].Op == "new" {
			plan.Universe = rp.Universe
			zvfVNewCase(&plan, ri, zvfVFault{Kind: rp.Ops[0].F.Kind, Hit: rp.Ops[0].Arg}, tr, &st)
			continue
		}
		tick := false
		for _, o := range rp.Ops {
			tick = tick || o.Op == "tick"
		}
		in := zvfNewInstSK(&rp.Universe, rp.Init, tick, verifh.NewRand("replay", int64(ri)), nil, rp.Info)
		tid := fmt.Sprintf("p%d", ri)
		cur := in.project()
		recs := []interface{}{zvfVRec{Ev: "reset", Tid: tid, Post: cur, Info: in.classes}}
		for i, o := range rp.Ops {
			pre := cur
			var lab zvfVLabel
			var post zvfVState
			if o.Op == "tick" || o.Op == "dremove" || o.Op == "dadd" || o.Op == "dlock" || o.Op == "dunlock" {
				lab = zvfVLabel{Op: o.Op, Arg: o.Arg, F: zvfVFault{"none", "none"}, Res: in.exec(o.Op, o.Arg)}
				post = in.project()
			} else {
				lab, post = in.step(o.Op, o.Arg, o.F)
			}
			recs = append(recs, zvfVRec{Ev: "step", Tid: tid, I: i + 1, Pre: &pre, E: &lab, Post: post})
			cur = post
			if in.wedged {
				break
			}
		}
		tr.EmitAll(recs)
		in.close()
	}

	// ---- construction through the exported New() over a real unix socket
	for ci, nc := range plan.NewCases {
		wg.Add(1)
		go func(ci int, nc zvfVFault) {
			defer wg.Done()
			sem <- struct{}{}
			defer func() { <-sem }()
			zvfVNewCase(&plan, ci, nc, tr, &st)
		}(ci, nc)
	}
	wg.Wait()

	// ---- direction B
	if plan.Random != nil {
		for ti := 0; ti < plan.Random.N; ti++ {
			wg.Add(1)
			go func(ti int) {
				defer wg.Done()
				sem <- struct{}{}
				defer func() { <-sem }()
				zvfVRandomTrace(&plan, ti, tr, &st)
			}(ti)
		}
		wg.Wait()
	}
	if err := tr.Close(); err != nil {
		t.Fatal(err)
	}
	nl := 0
	st.labels.Range(func(_, _ interface{}) bool { nl++; return true })
	sum := map[string]interface{}{"walks": st.walks, "steps": st.steps, "deviations": st.deviations, "discarded": st.discarded,
		"fault_steps": st.faultSteps, "random_traces": st.randomTraces, "random_steps": st.randomSteps, "distinct_labels": nl,
		"trace_lines": tr.N}
	b, _ := json.Marshal(sum)
	fmt.Printf("VERIF-SUMMARY %s\n", b)
}

// zvfVNewCase constructs a shim with shimagent.New over a unix socket served by the proxy, optionally with the
// first request (the construction-time list of no-upstream mode) faulted.
func zvfVNewCase(plan *zvfVPlan, ci int, nc zvfVFault, tr *verifh.Trace, st *zvfVStats) {
	rnd := verifh.NewRand("new", int64(ci))
	u := &plan.Universe
	var init zvfVState
	for _, id := range append(append([]string{}, u.Keys...), zvfSortedCerts(u)...) {
		if rnd.Intn(2) == 0 {
			init.U = append(init.U, id)
		}
	}
	init.Nu = nc.Hit == "noup"
	helper := zvfNewInst(u, init, false, rnd) // only used for its keyring content and certificate tables
	defer helper.close()
	dir, err := os.MkdirTemp("", "vshim")
	if err != nil {
		panic(err)
	}
	defer os.RemoveAll(dir)
	sock := dir + "/a.sock"
	ln, err := net.Listen("unix", sock)
	if err != nil {
		panic(err)
	}
	defer ln.Close()
	px := verifh.NewProxyIdle(helper.kr, mrand.New(mrand.NewSource(rnd.Int63())))
	defer px.Close()
	if nc.Kind != "none" {
		px.ArmAt(nc.Kind, 1)
	}
	go func() {
		c, err := ln.Accept()
		if err == nil {
			px.Serve(c)
		}
	}()
	lab := zvfVLabel{Op: "new", Arg: nc.Hit, F: zvfVFault{"none", "none"}}
	func() {
		defer func() {
			if r := recover(); r != nil {
				lab.Res = zvfVRes{Pan: true}
				fmt.Fprintf(os.Stderr, "verif: PANIC in New(%s) with fault %s: %v\n", nc.Hit, nc.Kind, r)
			}
		}()
		ag, err := New(Option{Address: sock, NoUpstream: nc.Hit == "noup"})
		lab.Res = zvfVRes{Ok: err == nil}
		if err == nil && ag != nil {
			ag.Close()
		}
	}()
	lab.Res = lab.Res.norm()
	if fired, hit := px.Fired(); fired {
		lab.F = zvfVFault{nc.Kind, hit}
	}
	pre := helper.project()
	tid := fmt.Sprintf("n%d", ci)
	atomic.AddInt64(&st.faultSteps, 1)
	tr.EmitAll([]interface{}{zvfVRec{Ev: "reset", Tid: tid, Post: pre}, zvfVRec{Ev: "step", Tid: tid, I: 1, Pre: &pre, E: &lab, Post: pre}})
}

func zvfSortedCerts(u *zvfVUniverse) []string {
	var cids []string
	for c := range u.Certs {
		cids = append(cids, c)
	}
	sort.Strings(cids)
	return cids
}

func zvfPick(r *mrand.Rand, xs []string) string { return xs[r.Intn(len(xs))] }

// zvfVRandomTrace drives one random history and logs every step.
func zvfVRandomTrace(plan *zvfVPlan, ti int, tr *verifh.Trace, st *zvfVStats) {
	cfg := plan.Random
	rnd := verifh.NewRand("random", int64(ti))
	u := &cfg.Universe
	ids := append([]string{}, u.Keys...)
	var cids []string
	for c := range u.Certs {
		cids = append(cids, c)
	}
	sort.Strings(cids)
	ids = append(ids, cids...)
	var init zvfVState
	init.Nu = rnd.Intn(2) == 0
	for _, id := range ids {
		if rnd.Intn(3) == 0 {
			init.U = append(init.U, id)
		}
	}
	for _, c := range cids {
		d := u.Certs[c]
		if d.V0 && d.V1 && rnd.Intn(2) == 0 {
			init.Fv = append(init.Fv, c)
		}
	}
	n := cfg.MinLen + rnd.Intn(cfg.MaxLen-cfg.MinLen+1)
	tickAt := -1
	hasT := false
	for _, o := range cfg.Ops {
		if o == "tick" {
			hasT = true
		}
	}
	if hasT && rnd.Intn(3) == 0 {
		tickAt = rnd.Intn(zvfMinInt(n, 25))
	}
	in := zvfNewInstSK(u, init, tickAt >= 0, rnd, zvfSKCand(u, nil), nil)
	defer in.close()
	tid := fmt.Sprintf("r%d", ti)
	cur := in.project()
	recs := []interface{}{zvfVRec{Ev: "reset", Tid: tid, Post: cur, Info: in.classes}}
	atomic.AddInt64(&st.randomTraces, 1)
	for i := 0; i < n; i++ {
		var op, arg string
		f := zvfVFault{}
		if i == tickAt {
			if time.Now().Unix() >= in.T {
				atomic.AddInt64(&st.discarded, 1)
				return
			}
			op = "tick"
		} else {
		pick:
			for {
				op, arg = zvfPick(rnd, cfg.Ops), ""
				if op == "tick" {
					continue
				}
				if op == "dlock" {
					if cur.Ul && !cur.L {
						op = "dunlock"
					} else if cur.Ul {
						continue
					}
				}
				if op == "close" && (rnd.Intn(8) != 0 || cur.D) {
					continue
				}
				if op == "dremove" && (cur.Ul || len(cur.U) == 0) {
					continue
				}
				switch op {
				case "sign", "add", "remove", "dadd":
					arg = zvfPick(rnd, ids)
				case "addhard":
					if rnd.Intn(6) == 0 {
						arg = zvfPick(rnd, u.Keys)
					} else {
						arg = zvfPick(rnd, cids)
					}
				case "lockrace", "lockrace2":
					if cur.L || cur.Ul || cur.D {
						continue pick
					}
					arg = zvfPick(rnd, u.Pass)
				case "lock", "unlock":
					arg = zvfPick(rnd, u.Pass)
					if op == "unlock" && cur.L && rnd.Intn(2) == 0 && cur.Up != "?" {
						arg = cur.Up
					}
				case "forward":
					arg = zvfPick(rnd, []string{"ext", "list", "ext", "list", "big"})
				case "dremove":
					arg = zvfPick(rnd, cur.U)
				}
				if op == "add" && verifh.IsSKKind(in.keyKind(arg)) {
					op = "dadd" // a security-key identity can only be loaded into the underlying agent directly
				}
				if op == "dadd" {
					if cur.Ul {
						continue
					}
					for _, x := range cur.U {
						if x == arg {
							continue pick
						}
					}
				}
				break
			}
			if len(cfg.Faults) > 0 && rnd.Intn(12) == 0 && !cur.L && !cur.D && op != "fstorm" && op != "lockrace" && op != "lockrace2" {
				f = zvfVFault{Kind: zvfPick(rnd, cfg.Faults), Hit: zvfPick(rnd, []string{"list", "sign", "add", "remove", "removeall", "lock", "unlock", "raw", "list", "remove"})}
			}
		}
		pre := cur
		var lab zvfVLabel
		var post zvfVState
		if op == "tick" || op == "dremove" || op == "dadd" || op == "dlock" || op == "dunlock" {
			res := in.exec(op, arg)
			lab = zvfVLabel{Op: op, Arg: arg, F: zvfVFault{"none", "none"}, Res: res}
			post = in.project()
		} else {
			lab, post = in.step(op, arg, f)
		}
		recs = append(recs, zvfVRec{Ev: "step", Tid: tid, I: i + 1, Pre: &pre, E: &lab, Post: post})
		atomic.AddInt64(&st.randomSteps, 1)
		cur = post
		if in.wedged {
			break
		}
	}
	if !in.wedged {
		pre := cur
		lab, post := in.step("signersuse", "", zvfVFault{})
		recs = append(recs, zvfVRec{Ev: "step", Tid: tid, I: n + 1, Pre: &pre, E: &lab, Post: post})
	}
	tr.EmitAll(recs)
}
