//go:build verif

// Package verifsys drives the REAL gensign binary (built from the working tree by tools/fam_system.py) end to end:
// per scenario a forwarded agent on a unix socket, CA endpoints as TLS gRPC servers on 127.0.0.1..3, a configuration
// file, a registered-key directory, a log file; the binary runs as a subprocess with the scenario's environment and
// argv.  The harness only drives and observes; every recorded execution is judged by TLC (spec/TraceSystem.tla).
package verifsys

import (
	"bytes"
	"context"
	"crypto/ecdsa"
	"crypto/elliptic"
	"crypto/rand"
	"crypto/sha256"
	"crypto/tls"
	"crypto/x509"
	"crypto/x509/pkix"
	"encoding/hex"
	"encoding/json"
	"encoding/pem"
	"errors"
	"fmt"
	"math/big"
	"net"
	"os"
	"os/exec"
	"path/filepath"
	"regexp"
	"sort"
	"strings"
	"sync"
	"testing"
	"time"

	pb "github.com/theparanoids/crypki/proto"
	"github.com/theparanoids/ysshra/keyid"
	"github.com/theparanoids/ysshra/verifh"
	"golang.org/x/crypto/ssh"
	"golang.org/x/crypto/ssh/agent"
	"google.golang.org/grpc"
	"google.golang.org/grpc/codes"
	"google.golang.org/grpc/credentials"
	"google.golang.org/grpc/status"
)

// ---------------------------------------------------------------------------------------------
// plan

type sEp struct {
	ID  string `json:"id"`
	Out string `json:"out"`
	K   int    `json:"k"`
}

type sDir struct {
	Lp string `json:"lp"`
	Lb string `json:"lb"`
}

// sSc is the part of the scenario record the driver needs; the record itself is passed through to the trace.
type sSc struct {
	Sock   string `json:"sock"`
	Logf   string `json:"logf"`
	Cfile  string `json:"cfile"`
	Hsec   string `json:"hsec"`
	Val    uint64 `json:"val"`
	Eps    []sEp  `json:"eps"`
	Epform string `json:"epform"`
	TLS    string `json:"tls"`
	Dir    sDir   `json:"dir"`
	Ans    string `json:"ans"`
	Die    int    `json:"die"`
	Dk     string `json:"dk"`
}

type sConc struct {
	Cmdline *string                `json:"cmdline"` // SSH_ORIGINAL_COMMAND (null = unset)
	Logname *string                `json:"logname"`
	Sshconn *string                `json:"sshconn"`
	Argv    []string               `json:"argv"`
	Kidmap  map[string]string      `json:"kidmap"`  // key_identifiers of the handler section
	Lnfile  string                 `json:"lnfile"`  // base name of the registered-key files
	Hvar    string                 `json:"hvar"`    // variant of an absent / undecodable handler section
	Tvar    string                 `json:"tvar"`    // variant of a broken TLS file
	Badjson string                 `json:"badjson"` // content of an undecodable configuration file
	Rt      int                    `json:"rt"`      // request_timeout
	Code    int                    `json:"code"`    // gRPC status code of "rpc" endpoints
	Ptt     string                 `json:"ptt"`     // per_try_timeout of the signer section
	Sockvar string                 `json:"sockvar"` // variant of an unset SSH_AUTH_SOCK: "unset" | "empty" | "blank"
	Cfgx    map[string]interface{} `json:"cfgx"`    // further top-level members of the configuration file
	Hsecx   map[string]interface{} `json:"hsecx"`   // further members of the handler section
	Extra   map[string]string      `json:"extra"`   // further environment variables
}

type sRun struct {
	Sc   json.RawMessage `json:"sc"`
	Conc sConc           `json:"conc"`
}

type sCase struct {
	ID   string `json:"id"`
	Pa   string `json:"pa"`
	Runs []sRun `json:"runs"`
}

type sPlan struct {
	Gensign string  `json:"gensign"`
	Cases   []sCase `json:"cases"`
	Workers int     `json:"workers"`
	Timeout int     `json:"timeout"` // seconds per process
}

// ---------------------------------------------------------------------------------------------
// records

type sID struct {
	Tag string `json:"tag"`
	T   string `json:"t"`
	K   string `json:"k"`
	Lb  string `json:"lb"`
	Sg  bool   `json:"sg"`
	Cls string `json:"cls"`
}

type sKid struct {
	Ok    bool     `json:"ok"`
	Prins []string `json:"prins"`
	Ru    string   `json:"ru"`
	Rh    string   `json:"rh"`
	IP    string   `json:"ip"`
	Tid   string   `json:"tid"`
	Ver   int      `json:"ver"`
}

type sCsr struct {
	Prins []string `json:"prins"`
	Val   int64    `json:"val"`
	Ident string   `json:"ident"`
	Key   string   `json:"key"`
	Kid   sKid     `json:"kid"`
	Exts  []string `json:"exts"`
}

type sChal struct {
	Key  string `json:"key"`
	Good bool   `json:"good"`
}

type sObs struct {
	Exit   int         `json:"exit"`
	Crash  bool        `json:"crash"`
	Chal   []sChal     `json:"chal"`
	Recv   [3][]sCsr   `json:"recv"`
	Ret    [3][]string `json:"ret"`
	Logtid string      `json:"logtid"`
	Stage  string      `json:"stage"`
	Nreq   int         `json:"nreq"`
}

type sAg struct {
	Ag []sID `json:"ag"`
}

type sEv struct {
	Op string          `json:"op"`
	Sc json.RawMessage `json:"sc"`
	R  *sObs           `json:"r"`
}

type sRec struct {
	Ev   string                 `json:"ev"`
	Tid  string                 `json:"tid"`
	Pre  *sAg                   `json:"pre,omitempty"`
	E    *sEv                   `json:"e,omitempty"`
	Post *sAg                   `json:"post,omitempty"`
	Info map[string]interface{} `json:"info,omitempty"`
}

func tagOf(blob []byte) string {
	h := sha256.Sum256(blob)
	return hex.EncodeToString(h[:8])
}

func hx(s string) string { return hex.EncodeToString([]byte(s)) }

func must(err error) {
	if err != nil {
		panic(err)
	}
}

// ---------------------------------------------------------------------------------------------
// PKI: TLS files of the RA, CA certificates, server leaves

type sAuthority struct {
	cert *x509.Certificate
	key  *ecdsa.PrivateKey
	pem  []byte
}

type sPKI struct {
	dir                     string
	ca                      map[string]*sAuthority
	cliCert, cliKey, caFile string
	hostRoots, emptyDir     string
	garbageFile             string
	cliPool                 *x509.CertPool
	mu                      sync.Mutex
	leaves                  map[string]*tls.Certificate
	serial                  int64
	sshCA                   ssh.Signer
	planter                 ssh.Signer
}

func (p *sPKI) sign(tpl *x509.Certificate, parent *sAuthority, key *ecdsa.PrivateKey) []byte {
	p.mu.Lock()
	p.serial++
	tpl.SerialNumber = big.NewInt(p.serial + 1000)
	p.mu.Unlock()
	pc, pk := tpl, key
	if parent != nil {
		pc, pk = parent.cert, parent.key
	}
	der, err := x509.CreateCertificate(rand.Reader, tpl, pc, &key.PublicKey, pk)
	must(err)
	return der
}

func (p *sPKI) authority(cn string) *sAuthority {
	k, err := ecdsa.GenerateKey(elliptic.P256(), rand.Reader)
	must(err)
	now := time.Now()
	tpl := &x509.Certificate{Subject: pkix.Name{CommonName: cn, Organization: []string{"verif"}}, NotBefore: now.Add(-96 * time.Hour), NotAfter: now.Add(96 * time.Hour),
		IsCA: true, BasicConstraintsValid: true, KeyUsage: x509.KeyUsageCertSign | x509.KeyUsageDigitalSignature}
	der := p.sign(tpl, nil, k)
	c, err := x509.ParseCertificate(der)
	must(err)
	return &sAuthority{cert: c, key: k, pem: pem.EncodeToMemory(&pem.Block{Type: "CERTIFICATE", Bytes: der})}
}

func newPKI(dir string) *sPKI {
	must(os.MkdirAll(dir, 0o700))
	p := &sPKI{dir: dir, ca: map[string]*sAuthority{}, leaves: map[string]*tls.Certificate{}}
	for _, n := range []string{"ca1", "caX", "caH", "cli"} {
		p.ca[n] = p.authority("verif " + n)
	}
	w := func(name string, b []byte) string {
		f := filepath.Join(dir, name)
		must(os.WriteFile(f, b, 0o600))
		return f
	}
	p.caFile = w("ca1.pem", p.ca["ca1"].pem)
	// the trust store of the RA's host holds the CA "caH" only; the RA must never consult it for CA servers
	p.hostRoots = w("host_roots.pem", p.ca["caH"].pem)
	p.emptyDir = filepath.Join(dir, "empty_cert_dir")
	must(os.MkdirAll(p.emptyDir, 0o700))
	p.garbageFile = w("garbage.pem", []byte("-----BEGIN CERTIFICATE-----\nbm90IGEgY2VydGlmaWNhdGU=\n-----END CERTIFICATE-----\n"))
	k, err := ecdsa.GenerateKey(elliptic.P256(), rand.Reader)
	must(err)
	now := time.Now()
	der := p.sign(&x509.Certificate{Subject: pkix.Name{CommonName: "ysshra-ra.verif"}, NotBefore: now.Add(-time.Hour), NotAfter: now.Add(48 * time.Hour),
		KeyUsage: x509.KeyUsageDigitalSignature, ExtKeyUsage: []x509.ExtKeyUsage{x509.ExtKeyUsageClientAuth}}, p.ca["cli"], k)
	kb, err := x509.MarshalECPrivateKey(k)
	must(err)
	p.cliCert = w("client.crt", pem.EncodeToMemory(&pem.Block{Type: "CERTIFICATE", Bytes: der}))
	p.cliKey = w("client.key", pem.EncodeToMemory(&pem.Block{Type: "EC PRIVATE KEY", Bytes: kb}))
	p.cliPool = x509.NewCertPool()
	p.cliPool.AddCert(p.ca["cli"].cert)
	p.sshCA = verifh.GenKey("sshca", "ed25519").Signer
	p.planter = verifh.GenKey("planter", "ed25519").Signer
	return p
}

// leaf returns the server certificate of identity class id for the endpoint 127.0.0.<pos>.
func (p *sPKI) leaf(id string, pos int) *tls.Certificate {
	key := fmt.Sprintf("%s|%d", id, pos)
	p.mu.Lock()
	if c, ok := p.leaves[key]; ok {
		p.mu.Unlock()
		return c
	}
	p.mu.Unlock()
	k, err := ecdsa.GenerateKey(elliptic.P256(), rand.Reader)
	must(err)
	now := time.Now()
	tpl := &x509.Certificate{Subject: pkix.Name{CommonName: fmt.Sprintf("crypki-%s-%d.verif", id, pos)}, NotBefore: now.Add(-time.Hour), NotAfter: now.Add(48 * time.Hour),
		KeyUsage: x509.KeyUsageDigitalSignature, ExtKeyUsage: []x509.ExtKeyUsage{x509.ExtKeyUsageServerAuth},
		IPAddresses: []net.IP{net.IPv4(127, 0, 0, byte(pos))}, BasicConstraintsValid: true}
	var parent *sAuthority
	switch id {
	case "genuine":
		parent = p.ca["ca1"]
	case "foreign":
		parent = p.ca["caX"]
	case "hosttrusted":
		parent = p.ca["caH"]
	case "selfsigned":
		parent = nil
	default:
		panic("verif: unknown identity class " + id)
	}
	der := p.sign(tpl, parent, k)
	c := &tls.Certificate{Certificate: [][]byte{der}, PrivateKey: k}
	p.mu.Lock()
	p.leaves[key] = c
	p.mu.Unlock()
	return c
}

// ---------------------------------------------------------------------------------------------
// the state of one execution, shared by the agent proxy and the CA servers of the lane

type runState struct {
	mu      sync.Mutex
	sc      sSc
	conc    sConc
	nreq    int
	chal    []sChal
	recv    [3][]sCsr
	ret     [3][]string
	U, O    *verifh.KeyPair
	O2      *verifh.KeyPair
	serial  uint64
	issued  map[string]*ssh.Certificate
	running int
}

// ---------------------------------------------------------------------------------------------
// CA lane: three TLS gRPC servers on 127.0.0.1..3:<port>; position 3 is never configured

type sLane struct {
	id      int
	pki     *sPKI
	port    int
	mu      sync.Mutex
	cur     *runState
	srv     []*grpc.Server
	open    int
	handled int
}

type sStub struct {
	pb.UnimplementedSigningServer
	lane *sLane
	pos  int
}

type cntListener struct {
	net.Listener
	lane *sLane
}

type cntConn struct {
	net.Conn
	lane *sLane
	once sync.Once
}

func (l *cntListener) Accept() (net.Conn, error) {
	c, err := l.Listener.Accept()
	if err != nil {
		return c, err
	}
	l.lane.mu.Lock()
	l.lane.open++
	l.lane.mu.Unlock()
	return &cntConn{Conn: c, lane: l.lane}, nil
}

func (c *cntConn) Close() error {
	c.once.Do(func() {
		c.lane.mu.Lock()
		c.lane.open--
		c.lane.mu.Unlock()
	})
	return c.Conn.Close()
}

func decodeCsr(in *pb.SSHCertificateSigningRequest) (sCsr, ssh.PublicKey) {
	c := sCsr{Prins: []string{}, Exts: []string{}, Kid: sKid{Prins: []string{}}}
	for _, p := range in.GetPrincipals() {
		c.Prins = append(c.Prins, hx(p))
	}
	v := in.GetValidity()
	if v > 2147483647 {
		v = 2147483647
	}
	c.Val = int64(v)
	c.Ident = hx(in.GetKeyMeta().GetIdentifier())
	for k := range in.GetExtensions() {
		c.Exts = append(c.Exts, k)
	}
	sort.Strings(c.Exts)
	c.Key = "unparsable"
	pk, _, _, _, err := ssh.ParseAuthorizedKey([]byte(in.GetPublicKey()))
	if err == nil {
		c.Key = tagOf(pk.Marshal())
	} else {
		pk = nil
	}
	if kid, err := keyid.Unmarshal(in.GetKeyId()); err == nil {
		c.Kid.Ok = true
		for _, p := range kid.Principals {
			c.Kid.Prins = append(c.Kid.Prins, hx(p))
		}
		c.Kid.Ru, c.Kid.Rh, c.Kid.IP, c.Kid.Tid, c.Kid.Ver = hx(kid.ReqUser), hx(kid.ReqHost), hx(kid.ReqIP), hx(kid.TransID), int(kid.Version)
	}
	return c, pk
}

func (s *sStub) PostUserSSHCertificate(ctx context.Context, in *pb.SSHCertificateSigningRequest) (*pb.SSHKey, error) {
	l := s.lane
	l.mu.Lock()
	rs := l.cur
	l.handled++
	l.mu.Unlock()
	if rs == nil {
		return nil, status.Error(codes.Unavailable, "verif: no execution in progress")
	}
	csr, pk := decodeCsr(in)
	rs.mu.Lock()
	defer rs.mu.Unlock()
	rs.recv[s.pos-1] = append(rs.recv[s.pos-1], csr)
	e := sEp{ID: "genuine", Out: "sign", K: 1} // a server outside the configured list answers with a valid certificate so that misuse shows
	if s.pos <= len(rs.sc.Eps) {
		e = rs.sc.Eps[s.pos-1]
	}
	switch e.Out {
	case "rpc":
		code := rs.conc.Code
		if code <= 0 || code > 16 {
			code = int(codes.Internal)
		}
		return nil, status.Error(codes.Code(code), "verif: scripted failure")
	case "hang": // no answer before the caller gives up
		rs.mu.Unlock()
		select {
		case <-ctx.Done():
		case <-time.After(15 * time.Second):
		}
		rs.mu.Lock()
		return nil, status.Error(codes.DeadlineExceeded, "verif: too late")
	case "unparsable":
		return &pb.SSHKey{Key: "ssh-ed25519-cert-v01@openssh.com AAAA-not-a-key verif\n### nothing to parse here\n"}, nil
	}
	if pk == nil {
		return nil, status.Error(codes.InvalidArgument, "verif: public key of the request does not parse")
	}
	var out bytes.Buffer
	now := uint64(time.Now().Unix())
	val := in.GetValidity()
	if val > 10*365*86400 {
		val = 10 * 365 * 86400
	}
	for m := 0; m < e.K; m++ {
		rs.serial++
		cert := verifh.Mint(l.pki.sshCA, verifh.CertSpec{Key: pk, KeyID: in.GetKeyId(), ValidAfter: now - 60, ValidBefore: now + val + 60,
			Principals: in.GetPrincipals(), Serial: uint64(l.id)<<32 | rs.serial, Exts: in.GetExtensions()})
		rs.ret[s.pos-1] = append(rs.ret[s.pos-1], tagOf(cert.Marshal()))
		line := bytes.TrimRight(ssh.MarshalAuthorizedKey(cert), "\n")
		out.Write(line)
		fmt.Fprintf(&out, " verif-%d-%d\n", s.pos, m+1)
	}
	return &pb.SSHKey{Key: out.String()}, nil
}

func (l *sLane) configFor(pos int) *tls.Config {
	l.mu.Lock()
	rs := l.cur
	l.mu.Unlock()
	id := "genuine"
	if rs != nil && pos <= len(rs.sc.Eps) {
		id = rs.sc.Eps[pos-1].ID
	}
	return &tls.Config{Certificates: []tls.Certificate{*l.pki.leaf(id, pos)}, MinVersion: tls.VersionTLS12, NextProtos: []string{"h2"},
		ClientCAs: l.pki.cliPool, ClientAuth: tls.VerifyClientCertIfGiven}
}

func newLane(id int, pki *sPKI) *sLane {
	l := &sLane{id: id, pki: pki}
	for try := 0; ; try++ {
		var ls []net.Listener
		first, err := net.Listen("tcp4", "127.0.0.1:0")
		must(err)
		port := first.Addr().(*net.TCPAddr).Port
		ls = append(ls, first)
		ok := true
		for pos := 2; pos <= 3; pos++ {
			x, err := net.Listen("tcp4", fmt.Sprintf("127.0.0.%d:%d", pos, port))
			if err != nil {
				ok = false
				break
			}
			ls = append(ls, x)
		}
		if !ok {
			for _, x := range ls {
				x.Close()
			}
			if try > 50 {
				panic("verif: no port free on 127.0.0.1-3")
			}
			continue
		}
		l.port = port
		for k, x := range ls {
			pos := k + 1
			base := &tls.Config{MinVersion: tls.VersionTLS12, NextProtos: []string{"h2"},
				GetConfigForClient: func(chi *tls.ClientHelloInfo) (*tls.Config, error) { return l.configFor(pos), nil }}
			s := grpc.NewServer(grpc.Creds(credentials.NewTLS(base)))
			pb.RegisterSigningServer(s, &sStub{lane: l, pos: pos})
			go s.Serve(&cntListener{Listener: x, lane: l})
			l.srv = append(l.srv, s)
		}
		return l
	}
}

func (l *sLane) quiet(max time.Duration) bool {
	for t0 := time.Now(); time.Since(t0) < max; time.Sleep(2 * time.Millisecond) {
		l.mu.Lock()
		q := l.open == 0
		l.mu.Unlock()
		if q {
			return true
		}
	}
	return false
}

func (l *sLane) close() {
	for _, s := range l.srv {
		s.Stop()
	}
}

// ---------------------------------------------------------------------------------------------
// the forwarded agent: x/crypto keyring behind a frame proxy on a unix socket

type signReq struct {
	KeyBlob []byte `sshtype:"13"`
	Data    []byte
	Flags   uint32
}

type signResp struct {
	Sig []byte `sshtype:"14"`
}

type sAgent struct {
	kr    agent.Agent
	ln    net.Listener
	path  string
	b1    net.Conn
	bmu   sync.Mutex
	mu    sync.Mutex
	cur   *runState
	cls   map[string]string
	conns []net.Conn
}

func newAgent(path string) (*sAgent, error) {
	a := &sAgent{kr: agent.NewKeyring(), path: path, cls: map[string]string{}}
	ln, err := net.Listen("unix", path)
	if err != nil {
		return nil, err
	}
	a.ln = ln
	b1, b2 := net.Pipe()
	a.b1 = b1
	go func() { _ = agent.ServeAgent(a.kr, b2); b2.Close() }()
	go func() {
		for {
			c, err := ln.Accept()
			if err != nil {
				return
			}
			a.mu.Lock()
			a.conns = append(a.conns, c)
			a.mu.Unlock()
			go a.serve(c)
		}
	}()
	return a, nil
}

func (a *sAgent) close() {
	a.ln.Close()
	a.mu.Lock()
	for _, c := range a.conns {
		c.Close()
	}
	a.mu.Unlock()
	a.b1.Close()
}

func (a *sAgent) backend(req []byte) ([]byte, error) {
	a.bmu.Lock()
	defer a.bmu.Unlock()
	if err := verifh.WriteFrame(a.b1, req); err != nil {
		return nil, err
	}
	return verifh.ReadFrame(a.b1)
}

func (a *sAgent) serve(c net.Conn) {
	defer c.Close()
	for {
		req, err := verifh.ReadFrame(c)
		if err != nil {
			return
		}
		a.mu.Lock()
		rs := a.cur
		a.mu.Unlock()
		if rs == nil { // nobody is supposed to talk to the agent between executions
			return
		}
		rs.mu.Lock()
		rs.nreq++
		n, die, ans := rs.nreq, rs.sc.Die, rs.sc.Ans
		failOnly := rs.sc.Dk == "fail"
		rs.mu.Unlock()
		kind := "raw"
		if len(req) > 0 {
			kind = verifh.ReqKind(req[0])
		}
		if die != 0 && n == die && failOnly { // this request is answered with a failure, the connection stays
			if kind == "sign" {
				var sr signReq
				ch := sChal{Key: "other"}
				if ssh.Unmarshal(req, &sr) == nil {
					switch {
					case bytes.Equal(sr.KeyBlob, rs.U.Pub.Marshal()):
						ch.Key = "U"
					case bytes.Equal(sr.KeyBlob, rs.O.Pub.Marshal()):
						ch.Key = "O"
					}
				}
				rs.mu.Lock()
				rs.chal = append(rs.chal, ch)
				rs.mu.Unlock()
			}
			if err := verifh.WriteFrame(c, []byte{5}); err != nil {
				return
			}
			continue
		}
		if die != 0 && n >= die && !failOnly { // the connection dies on this request; a challenge is still recorded as asked
			if kind == "sign" {
				var sr signReq
				ch := sChal{Key: "other"}
				if ssh.Unmarshal(req, &sr) == nil {
					switch {
					case bytes.Equal(sr.KeyBlob, rs.U.Pub.Marshal()):
						ch.Key = "U"
					case bytes.Equal(sr.KeyBlob, rs.O.Pub.Marshal()):
						ch.Key = "O"
					}
				}
				rs.mu.Lock()
				rs.chal = append(rs.chal, ch)
				rs.mu.Unlock()
			}
			return
		}
		var reply []byte
		if kind == "sign" {
			var sr signReq
			ch := sChal{Key: "other"}
			parsed := ssh.Unmarshal(req, &sr) == nil
			if parsed {
				switch {
				case bytes.Equal(sr.KeyBlob, rs.U.Pub.Marshal()):
					ch.Key = "U"
				case bytes.Equal(sr.KeyBlob, rs.O.Pub.Marshal()):
					ch.Key = "O"
				}
			}
			closeNow := false
			switch ans {
			case "otherkey":
				if parsed {
					if sig, err := rs.O2.Signer.Sign(rand.Reader, sr.Data); err == nil {
						reply = ssh.Marshal(signResp{Sig: ssh.Marshal(sig)})
					}
				}
				if reply == nil {
					reply = []byte{5}
				}
			case "fail":
				reply = []byte{5}
			case "close":
				closeNow = true
			case "wrongkind":
				reply = []byte{6}
			default:
				reply, err = a.backend(req)
				if err != nil {
					return
				}
				// a genuine proof: the reply is a signature that verifies under the requested key over the requested data
				var resp signResp
				if parsed && len(reply) > 0 && reply[0] == 14 && ssh.Unmarshal(reply, &resp) == nil {
					var sig ssh.Signature
					if ssh.Unmarshal(resp.Sig, &sig) == nil {
						if pk, err := ssh.ParsePublicKey(sr.KeyBlob); err == nil && pk.Verify(sr.Data, &sig) == nil {
							ch.Good = true
						}
					}
				}
			}
			rs.mu.Lock()
			rs.chal = append(rs.chal, ch)
			rs.mu.Unlock()
			if closeNow {
				return
			}
		} else {
			reply, err = a.backend(req)
			if err != nil {
				return
			}
		}
		if err := verifh.WriteFrame(c, reply); err != nil {
			return
		}
	}
}

func (a *sAgent) plant(pki *sPKI, pa string, U, O *verifh.KeyPair) error {
	add := func(kp *verifh.KeyPair, cert *ssh.Certificate, comment, cls string) error {
		if err := a.kr.Add(agent.AddedKey{PrivateKey: kp.Priv, Certificate: cert, Comment: comment}); err != nil {
			return err
		}
		if cert != nil {
			a.cls[tagOf(cert.Marshal())] = cls
		} else {
			a.cls[tagOf(kp.Pub.Marshal())] = cls
		}
		return nil
	}
	now := uint64(time.Now().Unix())
	mint := func(kp *verifh.KeyPair, kidText string, serial uint64) *ssh.Certificate {
		return verifh.Mint(pki.planter, verifh.CertSpec{Key: kp.Pub, KeyID: kidText, ValidAfter: now - 60, ValidBefore: now + 86400, Principals: []string{"someone"}, Serial: serial})
	}
	a.cls[tagOf(U.Pub.Marshal())] = "U"
	a.cls[tagOf(O.Pub.Marshal())] = "O"
	if pa == "nokey" {
		if err := add(O, nil, "other@laptop", "O"); err != nil {
			return err
		}
	} else {
		if err := add(U, nil, "user@laptop", "U"); err != nil {
			return err
		}
	}
	kf := verifh.PoolKey(30, "ed25519")
	if err := add(kf, mint(kf, "corp-ca user cert", 7), "corp-cert", "foreign"); err != nil {
		return err
	}
	if pa == "old" {
		k0 := verifh.PoolKey(50, "ecdsa384")
		if err := add(k0, nil, "private-key", "oldkey"); err != nil {
			return err
		}
		for n := 1; n <= 2; n++ {
			if err := add(k0, mint(k0, verifh.KeyIDText("yss-regular", fmt.Sprintf("old%d", n), nil), uint64(100+n)), "paranoids.regular-cert", "old"); err != nil {
				return err
			}
		}
	}
	return nil
}

func (a *sAgent) observe() ([]sID, error) {
	keys, err := a.kr.List()
	if err != nil {
		return nil, err
	}
	out := make([]sID, 0, len(keys))
	for _, k := range keys {
		id := sID{Tag: tagOf(k.Blob), T: "key", Lb: "-", Cls: "ra"}
		id.K = id.Tag
		if c, ok := a.cls[id.Tag]; ok {
			id.Cls = c
		}
		if strings.Contains(k.Comment, "paranoids.regular") {
			id.Lb = "R"
		}
		pk, err := ssh.ParsePublicKey(k.Blob)
		if err != nil {
			out = append(out, id)
			continue
		}
		ver := pk
		if cert, ok := pk.(*ssh.Certificate); ok {
			id.T = "cert"
			id.K = tagOf(cert.Key.Marshal())
			ver = cert.Key
		}
		data := make([]byte, 32)
		rand.Read(data)
		if sig, err := a.kr.Sign(pk, data); err == nil && ver.Verify(data, sig) == nil {
			id.Sg = true
		}
		out = append(out, id)
	}
	sort.Slice(out, func(i, j int) bool { return out[i].Tag < out[j].Tag })
	return out, nil
}

// ---------------------------------------------------------------------------------------------
// one case = one forwarded agent, 1..3 consecutive executions of the binary

var crashRe = regexp.MustCompile(`(?m)^(panic: |fatal error: |goroutine \d+ \[|\[signal SIG)`)

type sWorker struct {
	lane *sLane
	pki  *sPKI
	root string
	bin  string
	to   time.Duration
}

func fileFor(cls string, U, O *verifh.KeyPair, n int) []byte {
	switch cls {
	case "U":
		return ssh.MarshalAuthorizedKey(U.Pub)
	case "O":
		return ssh.MarshalAuthorizedKey(O.Pub)
	case "bad":
		switch n % 4 {
		case 0:
			return []byte{}
		case 1:
			return []byte("ssh-ed25519 AAAA-not-base64 comment\n")
		case 2:
			b := ssh.MarshalAuthorizedKey(U.Pub)
			return b[:len(b)/2]
		default:
			return []byte("\x00\x01garbage\xff\xfe not a key at all")
		}
	}
	return nil
}

func (w *sWorker) runCase(c *sCase, idx int) (recs []interface{}, err error) {
	dir := filepath.Join(w.root, fmt.Sprintf("c%d", idx))
	must(os.MkdirAll(dir, 0o700))
	defer os.RemoveAll(dir)
	U, O, O2 := verifh.PoolKey(1+idx%3, verifh.KeyKinds[idx%3]), verifh.PoolKey(11+idx%3, verifh.KeyKinds[(idx+1)%3]), verifh.PoolKey(21, "ed25519")
	sockName := "a.sock"
	for _, r := range c.Runs {
		var sc sSc
		if err := json.Unmarshal(r.Sc, &sc); err != nil {
			return nil, fmt.Errorf("case %s: scenario does not decode: %v", c.ID, err)
		}
		if sc.Sock == "gpg" {
			sockName = "gpg-agent.sock" // every run of the case sees the same (refused) socket name
		}
	}
	ag, err := newAgent(filepath.Join(dir, sockName))
	if err != nil {
		return nil, err
	}
	defer ag.close()
	if err := ag.plant(w.pki, c.Pa, U, O); err != nil {
		return nil, err
	}
	pre, err := ag.observe()
	if err != nil {
		return nil, err
	}
	recs = append(recs, sRec{Ev: "reset", Tid: c.ID, Post: &sAg{Ag: pre}})

	// a socket file nobody listens on
	deadSock := filepath.Join(dir, "dead.sock")
	if dl, err := net.Listen("unix", deadSock); err == nil {
		dl.(*net.UnixListener).SetUnlinkOnClose(false)
		dl.Close()
	}

	for ri := range c.Runs {
		run := &c.Runs[ri]
		rs := &runState{U: U, O: O, O2: O2, conc: run.Conc}
		must(json.Unmarshal(run.Sc, &rs.sc))
		sc, cc := rs.sc, run.Conc
		rdir := filepath.Join(dir, fmt.Sprintf("r%d", ri))
		keyDir := filepath.Join(rdir, "keys")
		must(os.MkdirAll(keyDir, 0o700))

		// (iii) registered-key directory
		if b := fileFor(sc.Dir.Lp, U, O, idx+ri); b != nil {
			must(os.WriteFile(filepath.Join(keyDir, cc.Lnfile+".pub"), b, 0o600))
		}
		if b := fileFor(sc.Dir.Lb, U, O, idx+ri+1); b != nil && cc.Lnfile != "" {
			must(os.WriteFile(filepath.Join(keyDir, cc.Lnfile), b, 0o600))
		}

		// (ii) configuration file
		confPath := filepath.Join(rdir, "config.json")
		switch sc.Cfile {
		case "ok":
			must(os.WriteFile(confPath, w.config(&sc, &cc, keyDir, rdir), 0o600))
		case "badjson":
			must(os.WriteFile(confPath, []byte(cc.Badjson), 0o600))
		case "missing":
			confPath = filepath.Join(rdir, "no-such-config.json")
		}
		logPath := filepath.Join(rdir, "gensign.log")
		if sc.Logf != "ok" {
			logPath = filepath.Join(rdir, "no-such-dir", "gensign.log")
		}

		// (i) process environment
		env := []string{"VERIF_CONF=" + confPath, "VERIF_LOG=" + logPath, "SSL_CERT_FILE=" + w.pki.hostRoots, "SSL_CERT_DIR=" + w.pki.emptyDir}
		if cc.Cmdline != nil {
			env = append(env, "SSH_ORIGINAL_COMMAND="+*cc.Cmdline)
		}
		if cc.Logname != nil {
			env = append(env, "LOGNAME="+*cc.Logname)
		}
		if cc.Sshconn != nil {
			env = append(env, "SSH_CONNECTION="+*cc.Sshconn)
		}
		switch sc.Sock {
		case "ok", "gpg":
			env = append(env, "SSH_AUTH_SOCK="+ag.path)
		case "dead":
			env = append(env, "SSH_AUTH_SOCK="+deadSock)
		case "unset":
			switch cc.Sockvar {
			case "empty":
				env = append(env, "SSH_AUTH_SOCK=")
			case "blank":
				env = append(env, "SSH_AUTH_SOCK=  \t ")
			}
		}
		for k, v := range cc.Extra {
			env = append(env, k+"="+v)
		}

		ag.mu.Lock()
		ag.cur = rs
		ag.mu.Unlock()
		w.lane.mu.Lock()
		w.lane.cur = rs
		w.lane.mu.Unlock()

		ctx, cancel := context.WithTimeout(context.Background(), w.to)
		cmd := exec.CommandContext(ctx, w.bin)
		cmd.Args = append([]string{}, cc.Argv...)
		cmd.Env = env
		cmd.Dir = rdir
		var stdout, stderr bytes.Buffer
		cmd.Stdout, cmd.Stderr = &stdout, &stderr
		t0 := time.Now()
		runErr := cmd.Run()
		elapsed := time.Since(t0)
		timedOut := ctx.Err() != nil
		cancel()
		w.lane.quiet(3 * time.Second)

		ag.mu.Lock()
		ag.cur = nil
		ag.mu.Unlock()
		w.lane.mu.Lock()
		w.lane.cur = nil
		w.lane.mu.Unlock()
		if timedOut {
			return nil, fmt.Errorf("case %s run %d: the process did not end within %v (stderr: %.300q)", c.ID, ri, w.to, stderr.String())
		}
		obs := &sObs{Chal: []sChal{}, Logtid: "none", Stage: ""}
		if runErr != nil {
			var ee *exec.ExitError
			if errors.As(runErr, &ee) {
				obs.Exit = ee.ExitCode()
				if obs.Exit < 0 { // killed by a signal
					obs.Exit = 255
					obs.Crash = true
				}
			} else {
				return nil, fmt.Errorf("case %s run %d: cannot execute the binary: %v", c.ID, ri, runErr)
			}
		}
		if crashRe.Match(stderr.Bytes()) || crashRe.Match(stdout.Bytes()) {
			obs.Crash = true
		}
		rs.mu.Lock()
		obs.Chal = append(obs.Chal, rs.chal...)
		for j := 0; j < 3; j++ {
			obs.Recv[j] = append([]sCsr{}, rs.recv[j]...)
			obs.Ret[j] = append([]string{}, rs.ret[j]...)
		}
		obs.Nreq = rs.nreq
		rs.mu.Unlock()
		var logTids []string
		if lb, err := os.ReadFile(logPath); err == nil {
			for _, line := range bytes.Split(lb, []byte("\n")) {
				var m map[string]interface{}
				if json.Unmarshal(line, &m) == nil {
					if s, ok := m["id"].(string); ok && s != "" {
						obs.Logtid = "yes"
						logTids = append(logTids, s)
					}
				}
			}
		}
		post, err := ag.observe()
		if err != nil {
			return nil, err
		}
		info := map[string]interface{}{"argv": cc.Argv, "ms": elapsed.Milliseconds(), "stderr": tail(stderr.String(), 600), "logtids": uniq(logTids), "conc": cc}
		recs = append(recs, sRec{Ev: "step", Tid: c.ID, Pre: &sAg{Ag: pre}, E: &sEv{Op: "run", Sc: run.Sc, R: obs}, Post: &sAg{Ag: post}, Info: info})
		pre = post
		os.RemoveAll(rdir)
	}
	return recs, nil
}

func tail(s string, n int) string {
	if len(s) > n {
		s = s[len(s)-n:]
	}
	return strings.ToValidUTF8(s, "?")
}

func uniq(xs []string) []string {
	m := map[string]bool{}
	out := []string{}
	for _, x := range xs {
		if !m[x] {
			m[x] = true
			out = append(out, x)
		}
	}
	return out
}

// config renders the configuration file of one execution.
func (w *sWorker) config(sc *sSc, cc *sConc, keyDir, rdir string) []byte {
	cfg := map[string]interface{}{"keyid_version": 1}
	if cc.Rt != 0 {
		cfg["request_timeout"] = cc.Rt
	}
	kids := map[string]interface{}{}
	for k, v := range cc.Kidmap {
		kids[k] = v
	}
	section := map[string]interface{}{"pub_key_dir": keyDir, "key_identifiers": kids, "cert_validity_sec": sc.Val}
	for k, v := range cc.Hsecx {
		section[k] = v
	}
	switch sc.Hsec {
	case "present":
		cfg["handlers"] = map[string]interface{}{"paranoids.regular": section}
	case "undecodable":
		switch cc.Hvar {
		case "val_string":
			section["cert_validity_sec"] = "twelve hours"
		case "kid_badalgo":
			section["key_identifiers"] = map[string]interface{}{"no-such-algorithm": "slot-x"}
		default:
			section["pub_key_dir"] = []interface{}{keyDir}
		}
		cfg["handlers"] = map[string]interface{}{"paranoids.regular": section}
	case "unknownonly":
		cfg["handlers"] = map[string]interface{}{"verif.unknown.handler": section}
	case "absent":
		switch cc.Hvar {
		case "emptymap":
			cfg["handlers"] = map[string]interface{}{}
		case "null":
			cfg["handlers"] = nil
		}
	}
	signer := map[string]interface{}{"tls_client_key_file": w.pki.cliKey, "tls_client_cert_file": w.pki.cliCert,
		"tls_ca_cert_files": []string{w.pki.caFile}, "crypki_port": w.lane.port, "retries": 1, "per_try_timeout": "5s"}
	if cc.Ptt != "" {
		signer["per_try_timeout"] = cc.Ptt
	}
	switch sc.TLS {
	case "nocert":
		if cc.Tvar == "key" {
			signer["tls_client_key_file"] = filepath.Join(rdir, "no-such-client.key")
		} else {
			signer["tls_client_cert_file"] = filepath.Join(rdir, "no-such-client.crt")
		}
	case "noca":
		if cc.Tvar == "garbage" {
			signer["tls_ca_cert_files"] = []string{w.pki.garbageFile}
		} else {
			signer["tls_ca_cert_files"] = []string{filepath.Join(rdir, "no-such-ca.pem")}
		}
	}
	eps := []string{}
	for j := range sc.Eps {
		eps = append(eps, fmt.Sprintf("127.0.0.%d", j+1))
	}
	if len(eps) > 0 || sc.Epform == "empty" {
		signer["crypki_endpoints"] = eps
	}
	cfg["signer"] = signer
	for k, v := range cc.Cfgx {
		cfg[k] = v
	}
	b, err := json.MarshalIndent(cfg, "", " ")
	must(err)
	return b
}

func TestVerifSystem(t *testing.T) {
	planPath, outPath := os.Getenv("VERIF_PLAN"), os.Getenv("VERIF_OUT")
	if planPath == "" || outPath == "" {
		t.Fatal("VERIF_PLAN / VERIF_OUT not set")
	}
	var plan sPlan
	b, err := os.ReadFile(planPath)
	must(err)
	must(json.Unmarshal(b, &plan))
	if plan.Workers <= 0 {
		plan.Workers = 4
	}
	if plan.Timeout <= 0 {
		plan.Timeout = 40
	}
	root, err := os.MkdirTemp("/tmp", "vsys")
	must(err)
	defer os.RemoveAll(root)
	pki := newPKI(filepath.Join(root, "pki"))
	tr, err := verifh.OpenTrace(outPath)
	must(err)

	type job struct {
		idx int
		c   *sCase
	}
	jobs := make(chan job)
	var wg sync.WaitGroup
	var emu sync.Mutex
	var errs []string
	nruns, ncrash := 0, 0
	exits := map[int]int{}
	for wi := 0; wi < plan.Workers; wi++ {
		w := &sWorker{lane: newLane(wi, pki), pki: pki, root: filepath.Join(root, fmt.Sprintf("w%d", wi)), bin: plan.Gensign, to: time.Duration(plan.Timeout) * time.Second}
		must(os.MkdirAll(w.root, 0o700))
		wg.Add(1)
		go func() {
			defer wg.Done()
			defer w.lane.close()
			for j := range jobs {
				recs, err := func() (recs []interface{}, err error) {
					defer func() {
						if r := recover(); r != nil {
							err = fmt.Errorf("harness error in case %s: %v", j.c.ID, r)
						}
					}()
					return w.runCase(j.c, j.idx)
				}()
				emu.Lock()
				if err != nil {
					errs = append(errs, err.Error())
				} else {
					for _, r := range recs[1:] {
						o := r.(sRec).E.R
						nruns++
						exits[o.Exit]++
						if o.Crash {
							ncrash++
						}
					}
				}
				emu.Unlock()
				if err == nil {
					tr.EmitAll(recs)
				}
			}
		}()
	}
	for i := range plan.Cases {
		jobs <- job{i, &plan.Cases[i]}
	}
	close(jobs)
	wg.Wait()
	must(tr.Close())
	if len(errs) > 8 {
		errs = errs[:8]
	}
	ex := map[string]int{}
	for k, v := range exits {
		ex[fmt.Sprint(k)] = v
	}
	sb, _ := json.Marshal(map[string]interface{}{"cases": len(plan.Cases), "runs": nruns, "crashes": ncrash, "exits": ex, "errors": errs})
	fmt.Printf("VERIF-SUMMARY %s\n", sb)
}
