//go:build verif

package shimagent

// C20 harness, direct binding: drives Wait and Broadcast of a real shim server (constructed with the exported New
// over a unix socket whose far end is a real keyring behind the harness frame proxy) and observes the notify lists
// of its condition variables by reflection (falls back to a timing observer when there is no such table).
// Only exported names of the package are used, every package-level name of this file starts with zvq.
// Judging is done by TLC.

import (
	"encoding/json"
	"errors"
	"fmt"
	mrand "math/rand"
	"testing"

	"github.com/theparanoids/ysshra/verifh"
)

type zvqWaiter interface {
	Wait(byte) error
	Broadcast(byte) error
}

type zvqDirectWait struct {
	s  zvqWaiter
	sa ShimAgent
}

func (b *zvqDirectWait) Via() bool { return false }

func (b *zvqDirectWait) Wait(code byte) (pan bool, err error) {
	defer func() {
		if r := recover(); r != nil {
			pan, err = true, fmt.Errorf("panic: %v", r)
		}
	}()
	return false, b.s.Wait(code)
}

func (b *zvqDirectWait) Request(code byte, _ *mrand.Rand) (pan bool, err error) {
	defer func() {
		if r := recover(); r != nil {
			pan, err = true, fmt.Errorf("panic: %v", r)
		}
	}()
	return false, b.s.Broadcast(code)
}

func (b *zvqDirectWait) Counts() (int, [][2]int, error) { return verifh.CondCounts(b.s) }

func (b *zvqDirectWait) CondServer() interface{} { return b.s }

func (b *zvqDirectWait) Release() {
	for c := 0; c < 256; c++ {
		func() {
			defer func() { _ = recover() }()
			_ = b.s.Broadcast(byte(c))
		}()
	}
}

func (b *zvqDirectWait) Close() {
	defer func() { _ = recover() }()
	_ = b.sa.Close()
}

func TestVerifWait(t *testing.T) {
	sock, cleanup, err := verifh.KeyringListener("wait-direct")
	if err != nil {
		t.Fatal(err)
	}
	defer cleanup()
	mk := func(r *mrand.Rand) (verifh.WaitBinding, error) {
		sa, err := New(Option{Address: sock})
		if err != nil {
			return nil, err
		}
		w, ok := sa.(zvqWaiter)
		if !ok {
			return nil, errors.New("the shim agent has no Wait/Broadcast")
		}
		return &zvqDirectWait{s: w, sa: sa}, nil
	}
	sum, err := verifh.RunWaitPlan(mk)
	if err != nil {
		t.Fatalf("harness: %v", err)
	}
	b, _ := json.Marshal(sum)
	fmt.Printf("VERIF-SUMMARY %s\n", b)
}
