//go:build verif

package shimagent

// C20 harness, direct binding: drives (*Server).Wait and (*Server).Broadcast of a real shim server (over a real
// keyring behind the harness frame proxy) and observes the notify lists of s.conds.  Judging is done by TLC.

import (
	"encoding/json"
	"fmt"
	mrand "math/rand"
	"testing"

	"github.com/theparanoids/ysshra/verifh"
	"golang.org/x/crypto/ssh/agent"
)

type directWait struct {
	s  *Server
	px *verifh.Proxy
}

func (b *directWait) Via() bool { return false }

func (b *directWait) Wait(code byte) (pan bool, err error) {
	defer func() {
		if r := recover(); r != nil {
			pan, err = true, fmt.Errorf("panic: %v", r)
		}
	}()
	return false, b.s.Wait(code)
}

func (b *directWait) Request(code byte, _ *mrand.Rand) (pan bool, err error) {
	defer func() {
		if r := recover(); r != nil {
			pan, err = true, fmt.Errorf("panic: %v", r)
		}
	}()
	return false, b.s.Broadcast(code)
}

func (b *directWait) Counts() (int, [][2]int, error) { return verifh.CondCounts(b.s) }

func (b *directWait) Release() {
	for _, c := range b.s.conds {
		c.L.Lock()
		c.Broadcast()
		c.L.Unlock()
	}
}

func (b *directWait) Close() {
	b.s.conn.Close()
	b.px.Close()
}

func TestVerifWait(t *testing.T) {
	mk := func(r *mrand.Rand) (verifh.WaitBinding, error) {
		px := verifh.NewProxy(agent.NewKeyring(), mrand.New(mrand.NewSource(r.Int63())))
		s, err := newShimAgent(px.Client, false)
		if err != nil {
			return nil, err
		}
		return &directWait{s: s, px: px}, nil
	}
	sum, err := verifh.RunWaitPlan(mk)
	if err != nil {
		t.Fatalf("harness: %v", err)
	}
	b, _ := json.Marshal(sum)
	fmt.Printf("VERIF-SUMMARY %s\n", b)
}
