//go:build verif

package yubiagent

// C20 harness, ServeAgent binding: one agent constructed with the exported NewServer (remote mode) over a unix socket
// whose far end is a real keyring behind the harness frame proxy; its shim server is found by reflection (for the
// notify lists; a timing observer is used when there is no such table).  Only exported names of the package are used,
// every package-level name of this file starts with zvq.  Every waiter has its own connection served by ServeAgent and calls client.Wait; every request arrives
// on another connection served by ServeAgent for the same *server.  Judging is done by TLC.

import (
	"encoding/json"
	"fmt"
	mrand "math/rand"
	"errors"
	"net"
	"os"
	"path/filepath"
	"reflect"
	"strings"
	"sync"
	"sync/atomic"
	"testing"
	"time"

	"github.com/theparanoids/ysshra/agent/shimagent"
	"github.com/theparanoids/ysshra/verifh"
	"golang.org/x/crypto/ssh"
)

type zvqSrvConn struct {
	c   net.Conn
	pan int32 // ServeAgent panicked, or reported that serving a request panicked
	bad int32 // ServeAgent ended the connection with an error
}

type zvqAddHardReq struct {
	KeyBlob []byte `sshtype:"31"`
	Comment string
}

type zvqServeWait struct {
	srv  YubiAgent
	shim *shimagent.Server // nil when the agent does not hold one in a reachable field
	mu   sync.Mutex
	idle []*zvqSrvConn // request connections that are still usable
	all  []*zvqSrvConn

	ln  net.Listener // lazily created unix socket of this agent (stream deliveries)
	dir string
	umu sync.Mutex

	classes map[string]int // request classes sent (what the dispatcher did after the broadcast)
}

func (b *zvqServeWait) Classes() map[string]int {
	b.mu.Lock()
	defer b.mu.Unlock()
	m := map[string]int{}
	for k, v := range b.classes {
		m[k] = v
	}
	return m
}

func (b *zvqServeWait) Via() bool { return true }

// connect opens a new connection to the agent: a pipe whose far end is served by ServeAgent.
func (b *zvqServeWait) connect() *zvqSrvConn {
	c1, c2 := net.Pipe()
	sc := &zvqSrvConn{c: c1}
	go func() {
		defer c2.Close()
		defer func() {
			if r := recover(); r != nil {
				atomic.StoreInt32(&sc.pan, 1)
			}
		}()
		if err := ServeAgent(b.srv, c2); err != nil {
			atomic.StoreInt32(&sc.bad, 1)
			if strings.Contains(err.Error(), "panic") {
				atomic.StoreInt32(&sc.pan, 1)
			}
		}
	}()
	b.mu.Lock()
	b.all = append(b.all, sc)
	b.mu.Unlock()
	return sc
}

func (b *zvqServeWait) Wait(code byte) (pan bool, err error) {
	sc := b.connect()
	defer sc.c.Close()
	defer func() {
		if r := recover(); r != nil {
			pan, err = true, fmt.Errorf("panic in client: %v", r)
		}
	}()
	cl, err := NewClientFromConn(sc.c)
	if err != nil {
		return false, err
	}
	err = cl.Wait(code)
	// this connection carries nothing but the wait request: a dispatcher that ends it with an error instead of
	// answering has failed to serve the wait request (a contained panic shows up like this)
	return atomic.LoadInt32(&sc.pan) == 1 || (err != nil && atomic.LoadInt32(&sc.bad) == 1), err
}

var zvqHardVariant, zvqSlotVariant uint32

// zvqFrame builds a request whose first byte is code, never shorter than the dispatcher indexes (shorter frames belong
// to another property).  cls names the class of the request: what the dispatcher does with it after the broadcast.
// answered: only frames the dispatcher answers (it keeps serving the connection afterwards).
func zvqFrame(code byte, r *mrand.Rand, answered bool) (f []byte, cls string) {
	switch code {
	case AgentMessageAddHardCert:
		k := verifh.PoolKey(r.Intn(2), "ed25519")
		v := atomic.AddUint32(&zvqHardVariant, 1) % 4 // every variant in turn
		if answered {
			v %= 2
		}
		switch v {
		case 0:
			return ssh.Marshal(zvqAddHardReq{KeyBlob: k.Pub.Marshal(), Comment: "verif"}), "addhard-wellformed"
		case 1:
			return append([]byte{code}, k.Pub.Marshal()...), "addhard-oldformat"
		case 2:
			return []byte{code}, "addhard-malformed" // neither format parses: the dispatcher ends the connection with an error
		}
		g := make([]byte, 1+r.Intn(24))
		r.Read(g)
		return append([]byte{code}, g...), "addhard-malformed"
	case AgentMessageReadSlot, AgentMessageAttestSlot:
		if atomic.AddUint32(&zvqSlotVariant, 1)%2 == 0 {
			return []byte{code}, "slot"
		}
		return []byte{code, '9', 'a'}, "slot"
	case AgentMessageListSlots:
		return []byte{code}, "slot"
	case AgentMessageWait:
		// a wait request for a code outside the table: dispatched, answered at once (a wait request that blocks is a
		// registration step of the plan)
		return []byte{code, byte(40 + r.Intn(216))}, "wait-answered"
	case AgentMessageLock, AgentMessageUnlock:
		return append([]byte{code}, ssh.Marshal(struct{ P string }{"pw"})...), "standard"
	case AgentMessageRequestIdentities, AgentMessageRequestV1Identities, AgentMessageRemoveAllIdentities:
		return []byte{code}, "standard"
	case AgentMessageRemoveIdentity:
		return append([]byte{code}, ssh.Marshal(struct{ B []byte }{verifh.PoolKey(0, "ed25519").Pub.Marshal()})...), "standard"
	case AgentMessageSignRequest:
		return append([]byte{code}, ssh.Marshal(struct {
			B []byte
			D []byte
			F uint32
		}{verifh.PoolKey(0, "ed25519").Pub.Marshal(), []byte("data"), 0})...), "standard"
	case AgentMessageAddIdentity, AgentMessageAddIDConstrained:
		return []byte{code}, "standard-refused" // no body: refused by the agent library before any constraint parsing
	}
	n := r.Intn(6)
	f = make([]byte, 1+n)
	f[0] = code
	r.Read(f[1:])
	if int(code) < 40 {
		return f, "forwarded"
	}
	return f, "forwarded-outside-table"
}

func (b *zvqServeWait) Request(code byte, r *mrand.Rand) (pan bool, err error) {
	var sc *zvqSrvConn
	b.mu.Lock()
	if len(b.idle) > 0 && r.Intn(2) == 0 {
		sc = b.idle[len(b.idle)-1]
		b.idle = b.idle[:len(b.idle)-1]
	}
	b.mu.Unlock()
	if sc == nil {
		sc = b.connect()
	}
	defer func() {
		if rr := recover(); rr != nil {
			pan, err = true, fmt.Errorf("panic in harness request: %v", rr)
		}
	}()
	sc.c.SetDeadline(time.Now().Add(25 * time.Second))
	fr, cls := zvqFrame(code, r, false)
	if err = verifh.WriteFrame(sc.c, fr); err == nil {
		_, err = verifh.ReadFrame(sc.c)
	}
	if err != nil {
		cls += "/connection-ended"
	} else {
		cls += "/answered"
	}
	b.mu.Lock()
	b.classes[cls]++
	b.mu.Unlock()
	if err != nil {
		// the dispatcher gave up on this connection (after the broadcast); it is not reused
		sc.c.Close()
		return atomic.LoadInt32(&sc.pan) == 1, nil
	}
	b.mu.Lock()
	b.idle = append(b.idle, sc)
	b.mu.Unlock()
	return atomic.LoadInt32(&sc.pan) == 1, nil
}

// connectUnix opens a connection to the agent over a real unix socket: the accepted end is served by ServeAgent.
func (b *zvqServeWait) connectUnix() (*zvqSrvConn, error) {
	b.mu.Lock()
	if b.ln == nil {
		dir, err := os.MkdirTemp("", "vwu")
		if err != nil {
			b.mu.Unlock()
			return nil, err
		}
		b.dir = dir
		ln, err := net.Listen("unix", filepath.Join(dir, "y.sock"))
		if err != nil {
			b.mu.Unlock()
			return nil, err
		}
		b.ln = ln
	}
	ln := b.ln
	b.mu.Unlock()
	sc := &zvqSrvConn{}
	acc := make(chan error, 1)
	b.umu.Lock() // one dial/accept pair at a time on this listener
	go func() {
		c2, err := ln.Accept()
		acc <- err
		if err != nil {
			return
		}
		defer c2.Close()
		defer func() {
			if r := recover(); r != nil {
				atomic.StoreInt32(&sc.pan, 1)
			}
		}()
		if err := ServeAgent(b.srv, c2); err != nil {
			atomic.StoreInt32(&sc.bad, 1)
			if strings.Contains(err.Error(), "panic") {
				atomic.StoreInt32(&sc.pan, 1)
			}
		}
	}()
	c1, err := net.Dial("unix", ln.Addr().String())
	if err == nil {
		err = <-acc
	}
	b.umu.Unlock()
	if err != nil {
		return nil, err
	}
	sc.c = c1
	b.mu.Lock()
	b.all = append(b.all, sc)
	b.mu.Unlock()
	return sc, nil
}

// RequestStream writes the frames of all codes to one fresh connection without waiting for replies - in one write
// (pipelined) or cut at arbitrary places into several writes (fragmented) - and then collects the replies.
func (b *zvqServeWait) RequestStream(codes []byte, dl string, r *mrand.Rand) (pan bool, err error) {
	var payload []byte
	cls := dl
	for _, c := range codes {
		fr, _ := zvqFrame(c, r, true)
		payload = append(payload, byte(len(fr)>>24), byte(len(fr)>>16), byte(len(fr)>>8), byte(len(fr)))
		payload = append(payload, fr...)
	}
	var sc *zvqSrvConn
	if r.Intn(3) == 0 {
		if sc, err = b.connectUnix(); err != nil {
			return false, err
		}
		cls += "/unix-socket"
	} else {
		sc = b.connect()
		cls += "/pipe"
	}
	defer sc.c.Close()
	var chunks [][]byte
	if dl == "fragmented" {
		rest := payload
		for len(rest) > 0 {
			n := 1 + r.Intn(len(rest))
			if r.Intn(3) == 0 {
				n = 1 + r.Intn(4) // dribble: cuts inside length prefixes
			}
			if n > len(rest) {
				n = len(rest)
			}
			chunks = append(chunks, rest[:n])
			rest = rest[n:]
		}
	} else {
		chunks = [][]byte{payload}
	}
	pauses := make([]time.Duration, len(chunks))
	for i := range pauses {
		if r.Intn(2) == 0 {
			pauses[i] = time.Duration(r.Intn(300)) * time.Microsecond
		}
	}
	sc.c.SetDeadline(time.Now().Add(35 * time.Second))
	wrote := make(chan error, 1)
	go func() {
		for i, ch := range chunks {
			if _, err := sc.c.Write(ch); err != nil {
				wrote <- err
				return
			}
			if pauses[i] > 0 {
				time.Sleep(pauses[i])
			}
		}
		wrote <- nil
	}()
	// replies: every request of the stream is of a kind the dispatcher answers.  A reply that does not come within
	// 5 s after the previous one ends the collection (the step is then observed as it is).
	got := 0
	for got < len(codes) {
		sc.c.SetReadDeadline(time.Now().Add(5 * time.Second))
		if _, rerr := verifh.ReadFrame(sc.c); rerr != nil {
			err = fmt.Errorf("%d of %d requests of the stream were answered: %v", got, len(codes), rerr)
			break
		}
		got++
	}
	if err != nil {
		sc.c.Close()
		cls += "/replies-missing"
	} else {
		cls += "/all-answered"
	}
	select {
	case werr := <-wrote:
		if werr != nil && err == nil {
			err = werr
		}
	case <-time.After(5 * time.Second):
		sc.c.Close()
	}
	b.mu.Lock()
	if len(codes) > 4 {
		b.classes[cls+"/5-to-256-frames"]++
	} else {
		b.classes[fmt.Sprintf("%s/%d-frames", cls, len(codes))]++
	}
	b.mu.Unlock()
	return atomic.LoadInt32(&sc.pan) == 1, err
}

func (b *zvqServeWait) Counts() (int, [][2]int, error) {
	if b.shim == nil {
		return 0, nil, errors.New("no shim server reachable")
	}
	return verifh.CondCounts(b.shim)
}

func (b *zvqServeWait) CondServer() interface{} {
	if b.shim == nil {
		return nil
	}
	return b.shim
}

func (b *zvqServeWait) Release() {
	r := mrand.New(mrand.NewSource(1))
	for c := 0; c < 40; c++ {
		if b.shim != nil {
			func() {
				defer func() { _ = recover() }()
				_ = b.shim.Broadcast(byte(c))
			}()
		} else {
			_, _ = b.Request(byte(c), r)
		}
	}
}

func (b *zvqServeWait) Close() {
	b.mu.Lock()
	for _, sc := range b.all {
		sc.c.Close()
	}
	if b.ln != nil {
		b.ln.Close()
		os.RemoveAll(b.dir)
	}
	b.mu.Unlock()
	func() {
		defer func() { _ = recover() }()
		_ = b.srv.Close()
	}()
}

// zvqFindShim looks for the shim server inside the agent (any field that can be read and holds one).
func zvqFindShim(a YubiAgent) *shimagent.Server {
	if s, ok := a.(interface{}).(*shimagent.Server); ok {
		return s
	}
	v := reflect.ValueOf(a)
	for v.Kind() == reflect.Ptr || v.Kind() == reflect.Interface {
		if v.IsNil() {
			return nil
		}
		v = v.Elem()
	}
	if v.Kind() != reflect.Struct {
		return nil
	}
	for i := 0; i < v.NumField(); i++ {
		f := v.Field(i)
		if !f.CanInterface() {
			continue
		}
		if s, ok := f.Interface().(*shimagent.Server); ok && s != nil {
			return s
		}
	}
	return nil
}

func TestVerifWaitServe(t *testing.T) {
	sock, cleanup, err := verifh.KeyringListener("wait-serve")
	if err != nil {
		t.Fatal(err)
	}
	defer cleanup()
	mk := func(r *mrand.Rand) (verifh.WaitBinding, error) {
		ya, err := NewServer(sock, true)
		if err != nil {
			return nil, err
		}
		return &zvqServeWait{srv: ya, shim: zvqFindShim(ya), classes: map[string]int{}}, nil
	}
	sum, err := verifh.RunWaitPlan(mk)
	if err != nil {
		t.Fatalf("harness: %v", err)
	}
	b, _ := json.Marshal(sum)
	fmt.Printf("VERIF-SUMMARY %s\n", b)
}
