//go:build verif

package yubiagent

// C20 harness, ServeAgent binding: one agent constructed with the exported NewServer (remote mode) over a unix socket
// whose far end is a real keyring behind the harness frame proxy; its shim server is found by reflection (for the
// notify lists; a timing observer is used when there is no such table).  Only exported names of the package are used,
// every package-level name of this file starts with zvq.  Every waiter has its own connection served by ServeAgent and calls client.Wait; every request arrives
// on another connection served by ServeAgent for the same *server.  Judging is done by TLC.

import (
	"encoding/json"
	"fmt"
	mrand "math/rand"
	"errors"
	"net"
	"reflect"
	"strings"
	"sync"
	"sync/atomic"
	"testing"
	"time"

	"github.com/theparanoids/ysshra/agent/shimagent"
	"github.com/theparanoids/ysshra/verifh"
	"golang.org/x/crypto/ssh"
)

type zvqSrvConn struct {
	c   net.Conn
	pan int32 // ServeAgent panicked, or reported that serving a request panicked
	bad int32 // ServeAgent ended the connection with an error
}

type zvqAddHardReq struct {
	KeyBlob []byte `sshtype:"31"`
	Comment string
}

type zvqServeWait struct {
	srv  YubiAgent
	shim *shimagent.Server // nil when the agent does not hold one in a reachable field
	mu   sync.Mutex
	idle []*zvqSrvConn // request connections that are still usable
	all  []*zvqSrvConn

	classes map[string]int // request classes sent (what the dispatcher did after the broadcast)
}

func (b *zvqServeWait) Classes() map[string]int {
	b.mu.Lock()
	defer b.mu.Unlock()
	m := map[string]int{}
	for k, v := range b.classes {
		m[k] = v
	}
	return m
}

func (b *zvqServeWait) Via() bool { return true }

// connect opens a new connection to the agent: a pipe whose far end is served by ServeAgent.
func (b *zvqServeWait) connect() *zvqSrvConn {
	c1, c2 := net.Pipe()
	sc := &zvqSrvConn{c: c1}
	go func() {
		defer c2.Close()
		defer func() {
			if r := recover(); r != nil {
				atomic.StoreInt32(&sc.pan, 1)
			}
		}()
		if err := ServeAgent(b.srv, c2); err != nil {
			atomic.StoreInt32(&sc.bad, 1)
			if strings.Contains(err.Error(), "panic") {
				atomic.StoreInt32(&sc.pan, 1)
			}
		}
	}()
	b.mu.Lock()
	b.all = append(b.all, sc)
	b.mu.Unlock()
	return sc
}

func (b *zvqServeWait) Wait(code byte) (pan bool, err error) {
	sc := b.connect()
	defer sc.c.Close()
	defer func() {
		if r := recover(); r != nil {
			pan, err = true, fmt.Errorf("panic in client: %v", r)
		}
	}()
	cl, err := NewClientFromConn(sc.c)
	if err != nil {
		return false, err
	}
	err = cl.Wait(code)
	// this connection carries nothing but the wait request: a dispatcher that ends it with an error instead of
	// answering has failed to serve the wait request (a contained panic shows up like this)
	return atomic.LoadInt32(&sc.pan) == 1 || (err != nil && atomic.LoadInt32(&sc.bad) == 1), err
}

var zvqHardVariant, zvqSlotVariant uint32

// zvqFrame builds a request whose first byte is code, never shorter than the dispatcher indexes (shorter frames belong
// to another property).  cls names the class of the request: what the dispatcher does with it after the broadcast.
func zvqFrame(code byte, r *mrand.Rand) (f []byte, cls string) {
	switch code {
	case AgentMessageAddHardCert:
		k := verifh.PoolKey(r.Intn(2), "ed25519")
		switch atomic.AddUint32(&zvqHardVariant, 1) % 4 { // every variant in turn
		case 0:
			return ssh.Marshal(zvqAddHardReq{KeyBlob: k.Pub.Marshal(), Comment: "verif"}), "addhard-wellformed"
		case 1:
			return append([]byte{code}, k.Pub.Marshal()...), "addhard-oldformat"
		case 2:
			return []byte{code}, "addhard-malformed" // neither format parses: the dispatcher ends the connection with an error
		}
		g := make([]byte, 1+r.Intn(24))
		r.Read(g)
		return append([]byte{code}, g...), "addhard-malformed"
	case AgentMessageReadSlot, AgentMessageAttestSlot:
		if atomic.AddUint32(&zvqSlotVariant, 1)%2 == 0 {
			return []byte{code}, "slot"
		}
		return []byte{code, '9', 'a'}, "slot"
	case AgentMessageListSlots:
		return []byte{code}, "slot"
	case AgentMessageWait:
		// a wait request for a code outside the table: dispatched, answered at once (a wait request that blocks is a
		// registration step of the plan)
		return []byte{code, byte(40 + r.Intn(216))}, "wait-answered"
	case AgentMessageLock, AgentMessageUnlock:
		return append([]byte{code}, ssh.Marshal(struct{ P string }{"pw"})...), "standard"
	case AgentMessageRequestIdentities, AgentMessageRequestV1Identities, AgentMessageRemoveAllIdentities:
		return []byte{code}, "standard"
	case AgentMessageRemoveIdentity:
		return append([]byte{code}, ssh.Marshal(struct{ B []byte }{verifh.PoolKey(0, "ed25519").Pub.Marshal()})...), "standard"
	case AgentMessageSignRequest:
		return append([]byte{code}, ssh.Marshal(struct {
			B []byte
			D []byte
			F uint32
		}{verifh.PoolKey(0, "ed25519").Pub.Marshal(), []byte("data"), 0})...), "standard"
	case AgentMessageAddIdentity, AgentMessageAddIDConstrained:
		return []byte{code}, "standard-refused" // no body: refused by the agent library before any constraint parsing
	}
	n := r.Intn(6)
	f = make([]byte, 1+n)
	f[0] = code
	r.Read(f[1:])
	if int(code) < 40 {
		return f, "forwarded"
	}
	return f, "forwarded-outside-table"
}

func (b *zvqServeWait) Request(code byte, r *mrand.Rand) (pan bool, err error) {
	var sc *zvqSrvConn
	b.mu.Lock()
	if len(b.idle) > 0 && r.Intn(2) == 0 {
		sc = b.idle[len(b.idle)-1]
		b.idle = b.idle[:len(b.idle)-1]
	}
	b.mu.Unlock()
	if sc == nil {
		sc = b.connect()
	}
	defer func() {
		if rr := recover(); rr != nil {
			pan, err = true, fmt.Errorf("panic in harness request: %v", rr)
		}
	}()
	sc.c.SetDeadline(time.Now().Add(25 * time.Second))
	fr, cls := zvqFrame(code, r)
	if err = verifh.WriteFrame(sc.c, fr); err == nil {
		_, err = verifh.ReadFrame(sc.c)
	}
	if err != nil {
		cls += "/connection-ended"
	} else {
		cls += "/answered"
	}
	b.mu.Lock()
	b.classes[cls]++
	b.mu.Unlock()
	if err != nil {
		// the dispatcher gave up on this connection (after the broadcast); it is not reused
		sc.c.Close()
		return atomic.LoadInt32(&sc.pan) == 1, nil
	}
	b.mu.Lock()
	b.idle = append(b.idle, sc)
	b.mu.Unlock()
	return atomic.LoadInt32(&sc.pan) == 1, nil
}

func (b *zvqServeWait) Counts() (int, [][2]int, error) {
	if b.shim == nil {
		return 0, nil, errors.New("no shim server reachable")
	}
	return verifh.CondCounts(b.shim)
}

func (b *zvqServeWait) Release() {
	r := mrand.New(mrand.NewSource(1))
	for c := 0; c < 40; c++ {
		if b.shim != nil {
			func() {
				defer func() { _ = recover() }()
				_ = b.shim.Broadcast(byte(c))
			}()
		} else {
			_, _ = b.Request(byte(c), r)
		}
	}
}

func (b *zvqServeWait) Close() {
	b.mu.Lock()
	for _, sc := range b.all {
		sc.c.Close()
	}
	b.mu.Unlock()
	func() {
		defer func() { _ = recover() }()
		_ = b.srv.Close()
	}()
}

// zvqFindShim looks for the shim server inside the agent (any field that can be read and holds one).
func zvqFindShim(a YubiAgent) *shimagent.Server {
	if s, ok := a.(interface{}).(*shimagent.Server); ok {
		return s
	}
	v := reflect.ValueOf(a)
	for v.Kind() == reflect.Ptr || v.Kind() == reflect.Interface {
		if v.IsNil() {
			return nil
		}
		v = v.Elem()
	}
	if v.Kind() != reflect.Struct {
		return nil
	}
	for i := 0; i < v.NumField(); i++ {
		f := v.Field(i)
		if !f.CanInterface() {
			continue
		}
		if s, ok := f.Interface().(*shimagent.Server); ok && s != nil {
			return s
		}
	}
	return nil
}

func TestVerifWaitServe(t *testing.T) {
	sock, cleanup, err := verifh.KeyringListener("wait-serve")
	if err != nil {
		t.Fatal(err)
	}
	defer cleanup()
	mk := func(r *mrand.Rand) (verifh.WaitBinding, error) {
		ya, err := NewServer(sock, true)
		if err != nil {
			return nil, err
		}
		return &zvqServeWait{srv: ya, shim: zvqFindShim(ya), classes: map[string]int{}}, nil
	}
	sum, err := verifh.RunWaitPlan(mk)
	if err != nil {
		t.Fatalf("harness: %v", err)
	}
	b, _ := json.Marshal(sum)
	fmt.Printf("VERIF-SUMMARY %s\n", b)
}
