//go:build verif

package yubiattest_test

// C06, time as a history dimension of the long-lived Attestor.  One "epoch instance": at construction (epoch 0) a lapse
// second T = start + 4 s (whole seconds: X.509 times have a resolution of one second) is fixed; "lapsing" device
// certificates are valid through T, "becoming" ones from T+1.  The epoch-0 cases are attested strictly before T (the
// instance is discarded and rebuilt if it was too slow), the epoch-1 cases at T+2 or later, on the Attestors constructed
// in epoch 0 (the instance's own and the run's long-lived one) and on fresh ones.  No call is made in [T-0.3 s, T+2 s).

import (
	crand "crypto/rand"
	"crypto/x509"
	"crypto/x509/pkix"
	"fmt"
	"math/big"
	"time"

	"github.com/theparanoids/ysshra/attestation/yubiattest"
	"github.com/theparanoids/ysshra/verifh"
)

type vEpochJob struct {
	ci   int
	c    vCase06
	dev  *vDev
	slot *x509.Certificate
	k    int
}

type vEpoch struct {
	w     *vWorld
	T     time.Time
	att   *yubiattest.Attestor
	certs map[string]*x509.Certificate // "<bits>/<rel>/<time>"
	jobs  []vEpochJob
}

func (w *vWorld) epochCert(d *vDev, rel, tm string, T time.Time, serial int64) *x509.Certificate {
	nb, na := T.Add(-time.Hour), T // lapsing: valid through T
	if tm == "becoming" {
		nb, na = T.Add(time.Second), T.Add(time.Hour)
	}
	tpl := &x509.Certificate{SerialNumber: big.NewInt(serial), Subject: pkix.Name{CommonName: fmt.Sprintf("Yubico PIV Attestation %d", serial)},
		NotBefore: nb, NotAfter: na, IsCA: true, BasicConstraintsValid: true, KeyUsage: x509.KeyUsageCertSign | x509.KeyUsageDigitalSignature}
	ca := w.root
	if rel == "otherca" {
		ca = w.other
	}
	der, err := x509.CreateCertificate(crand.Reader, tpl, ca.cert, d.sig.Public(), ca.key)
	if err != nil {
		panic(err)
	}
	c, err := x509.ParseCertificate(der)
	if err != nil {
		panic(err)
	}
	return c
}

// prepareEpoch materialises the slot certificates of the epoch cases (independent of T)
func (w *vWorld) prepareEpoch(cases []vCase06, idx []int, devs []*vDev) []vEpochJob {
	var jobs []vEpochJob
	for _, ci := range idx {
		c := cases[ci]
		for _, d := range devs {
			r := verifh.NewRand("attest06-epoch", int64(ci)*31+int64(d.bits))
			k := (d.rsa.N.BitLen() + 7) / 8
			tbs := w.pickTBS(c.Em, r)
			s := rsaRoot(d.rsa, buildEM(c.Em, k, tbs, r))
			if s == nil {
				panic("harness: epoch case not realisable")
			}
			slot := &x509.Certificate{RawTBSCertificate: tbs, Signature: sigBytes(s, d.rsa, c.Sf), SignatureAlgorithm: x509.SignatureAlgorithm(c.Alg)}
			jobs = append(jobs, vEpochJob{ci, c, d, slot, k})
		}
	}
	return jobs
}

func (e *vEpoch) phase(now int, label string) []vEvent {
	var out []vEvent
	for _, j := range e.jobs {
		if j.c.Now != now {
			continue
		}
		dc := e.certs[fmt.Sprintf("%d/%s/%s", j.dev.bits, j.c.Rel, j.c.Time)]
		for i, h := range []string{"used", "used", "fresh"} {
			ev := &vE06{vCase06: j.c, K: j.k, Hist: h, Src: "A-epoch", Info: label}
			switch i {
			case 0:
				ev.Res = e.w.attestOn(e.att, dc, j.slot) // the instance's Attestor, constructed in epoch 0
			case 1:
				ev.Res = e.w.attest(dc, j.slot) // the run's long-lived Attestor, constructed even earlier
			default:
				ev.Res = e.w.attestOn(yubiattest.NewAttestorWithCAPool(e.w.pool), dc, j.slot)
			}
			out = append(out, vEvent{Ev: "step", P: "C06", Tid: fmt.Sprintf("e%d-%d-p%d-%d", j.ci, j.dev.bits, now, i), E: ev})
		}
	}
	return out
}

// startEpoch builds an instance and runs its epoch-0 phase; an instance whose phase did not end 300 ms before the lapse
// second is discarded (nothing of it is recorded) and a new one is built.  Returns nil if none succeeded.
func (w *vWorld) startEpoch(jobs []vEpochJob, devs []*vDev, tr *verifh.Trace, st *vStats06) *vEpoch {
	for try := 0; try < 4; try++ {
		start := time.Now()
		e := &vEpoch{w: w, T: start.Truncate(time.Second).Add(4 * time.Second), att: yubiattest.NewAttestorWithCAPool(w.pool),
			certs: map[string]*x509.Certificate{}, jobs: jobs}
		serial := int64(700000 + 1000*try)
		for _, d := range devs {
			for _, rel := range []string{"root", "otherca"} {
				for _, tm := range []string{"lapsing", "becoming"} {
					serial++
					e.certs[fmt.Sprintf("%d/%s/%s", d.bits, rel, tm)] = w.epochCert(d, rel, tm, e.T, serial)
				}
			}
		}
		evs := e.phase(0, fmt.Sprintf("epoch 0: %.3f s before the lapse second", time.Until(e.T).Seconds()))
		if time.Now().After(e.T.Add(-300 * time.Millisecond)) {
			st.mu.Lock()
			st.EpochDiscarded++
			st.mu.Unlock()
			continue
		}
		for _, ev := range evs {
			x := ev.E.(*vE06)
			st.note(x)
			st.mu.Lock()
			st.Epoch0++
			st.mu.Unlock()
			tr.Emit(ev)
		}
		return e
	}
	return nil
}

// finish waits until two seconds after the lapse second and runs the epoch-1 phase
func (e *vEpoch) finish(tr *verifh.Trace, st *vStats06) {
	if d := time.Until(e.T.Add(2*time.Second + 50*time.Millisecond)); d > 0 {
		time.Sleep(d)
	}
	for _, ev := range e.phase(1, fmt.Sprintf("epoch 1: %.3f s after the lapse second", time.Since(e.T).Seconds())) {
		x := ev.E.(*vE06)
		st.note(x)
		st.mu.Lock()
		st.Epoch1++
		if x.Res.Acc {
			st.Epoch1Acc++
		}
		st.mu.Unlock()
		tr.Emit(ev)
	}
}
