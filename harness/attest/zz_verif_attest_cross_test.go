//go:build verif

package yubiattest_test

// C06, label x scheme cross product: slot and device certificates as DER whose signature-algorithm LABEL (both
// AlgorithmIdentifier fields, re-encoded by hand) and the SCHEME the signature value was really made under are chosen
// independently; everything goes through yubiattest.ParseCertificate (as utils.ParsePEMCertificates does) before
// (*Attestor).Attest.  What the parser made of the label is recorded as information, the verdict is judged by TLC.

import (
	"crypto"
	crand "crypto/rand"
	"crypto/rsa"
	"crypto/x509"
	"crypto/x509/pkix"
	"encoding/asn1"
	"fmt"
	"math/big"
	mrand "math/rand"
	"time"

	"github.com/theparanoids/ysshra/attestation/yubiattest"
	"github.com/theparanoids/ysshra/verifh"
)

type pssParams struct {
	Hash         pkix.AlgorithmIdentifier `asn1:"explicit,tag:0"`
	MGF          pkix.AlgorithmIdentifier `asn1:"explicit,tag:1"`
	SaltLength   int                      `asn1:"explicit,tag:2"`
	TrailerField int                      `asn1:"optional,explicit,tag:3,default:1"`
}

var (
	oidPSS  = asn1.ObjectIdentifier{1, 2, 840, 113549, 1, 1, 10}
	oidMGF1 = asn1.ObjectIdentifier{1, 2, 840, 113549, 1, 1, 8}
	oidSHA  = map[string]asn1.ObjectIdentifier{"sha256": {2, 16, 840, 1, 101, 3, 4, 2, 1}, "sha384": {2, 16, 840, 1, 101, 3, 4, 2, 2}, "sha512": {2, 16, 840, 1, 101, 3, 4, 2, 3}}
)

func must(b []byte, err error) []byte {
	if err != nil {
		panic(err)
	}
	return b
}

func pssAI(h string, salt int) []byte {
	ha := pkix.AlgorithmIdentifier{Algorithm: oidSHA[h], Parameters: asn1.NullRawValue}
	p := pssParams{Hash: ha, MGF: pkix.AlgorithmIdentifier{Algorithm: oidMGF1, Parameters: asn1.RawValue{FullBytes: must(asn1.Marshal(ha))}}, SaltLength: salt, TrailerField: 1}
	return must(asn1.Marshal(pkix.AlgorithmIdentifier{Algorithm: oidPSS, Parameters: asn1.RawValue{FullBytes: must(asn1.Marshal(p))}}))
}

// labelAI is the DER AlgorithmIdentifier of an encoded label of Attest.tla (LabelEncs)
func labelAI(lab string) []byte {
	ai := func(oid asn1.ObjectIdentifier, null bool) []byte {
		a := pkix.AlgorithmIdentifier{Algorithm: oid}
		if null {
			a.Parameters = asn1.NullRawValue
		}
		return must(asn1.Marshal(a))
	}
	rsaOID := func(n int) asn1.ObjectIdentifier { return asn1.ObjectIdentifier{1, 2, 840, 113549, 1, 1, n} }
	switch lab {
	case "md2-rsa":
		return ai(rsaOID(2), true)
	case "md5-rsa":
		return ai(rsaOID(4), true)
	case "sha1-rsa":
		return ai(rsaOID(5), true)
	case "sha1-rsa-iso":
		return ai(asn1.ObjectIdentifier{1, 3, 14, 3, 2, 29}, true)
	case "sha256-rsa":
		return ai(rsaOID(11), true)
	case "sha384-rsa":
		return ai(rsaOID(12), true)
	case "sha512-rsa":
		return ai(rsaOID(13), true)
	case "dsa-sha1":
		return ai(asn1.ObjectIdentifier{1, 2, 840, 10040, 4, 3}, false)
	case "dsa-sha256":
		return ai(asn1.ObjectIdentifier{2, 16, 840, 1, 101, 3, 4, 3, 2}, false)
	case "ecdsa-sha1":
		return ai(asn1.ObjectIdentifier{1, 2, 840, 10045, 4, 1}, false)
	case "ecdsa-sha256":
		return ai(asn1.ObjectIdentifier{1, 2, 840, 10045, 4, 3, 2}, false)
	case "ecdsa-sha384":
		return ai(asn1.ObjectIdentifier{1, 2, 840, 10045, 4, 3, 3}, false)
	case "ecdsa-sha512":
		return ai(asn1.ObjectIdentifier{1, 2, 840, 10045, 4, 3, 4}, false)
	case "pss-sha256":
		return pssAI("sha256", 32)
	case "pss-sha384":
		return pssAI("sha384", 48)
	case "pss-sha512":
		return pssAI("sha512", 64)
	case "pss-noparams":
		return ai(oidPSS, false)
	case "pss-badsalt":
		return pssAI("sha256", 20)
	case "ed25519":
		return ai(asn1.ObjectIdentifier{1, 3, 101, 112}, false)
	case "unknown":
		return ai(asn1.ObjectIdentifier{1, 2, 3, 4, 5}, false)
	}
	panic("label " + lab)
}

// relabel replaces both signature AlgorithmIdentifier fields of a certificate by ai and signs the new
// to-be-signed bytes with sign. Returns the certificate and its to-be-signed bytes.
func relabel(der, ai []byte, sign func(tbs []byte) []byte) ([]byte, []byte) {
	top, _ := readTLV(der)
	parts := children(top.body)
	tb := children(parts[0].body)
	at := 1
	if tb[0].tag == 0xa0 {
		at = 2
	}
	if tb[at].tag != 0x30 || tb[at-1].tag != 0x02 {
		panic("der: signature algorithm not found in the to-be-signed part")
	}
	tb[at] = tlv{0x30, nil, ai}
	tbs := encTLV(0x30, join(tb))
	sig := sign(tbs)
	out := encTLV(0x30, append(append(append([]byte{}, tbs...), ai...), encTLV(0x03, append([]byte{0}, sig...))...))
	return out, tbs
}

// rsaSign signs under a scheme of the model: pkcs1 / pss with hash h, or random octets
func rsaSign(k *rsa.PrivateKey, sch, h string, r *mrand.Rand) func(tbs []byte) []byte {
	return func(tbs []byte) []byte {
		d := digestOf(h, tbs)
		switch sch {
		case "pkcs1":
			return must(rsa.SignPKCS1v15(nil, k, cryptoHash(h), d))
		case "pss":
			return must(rsa.SignPSS(crand.Reader, k, cryptoHash(h), d, &rsa.PSSOptions{SaltLength: rsa.PSSSaltLengthEqualsHash}))
		}
		j := make([]byte, (k.N.BitLen()+7)/8)
		r.Read(j)
		j[0] &= 0x7f
		return j
	}
}

type vCross struct {
	rroot   *vRSACA
	slotDER map[string][]byte // per device: a well-formed slot certificate signed by the device key
}

type vRSACA struct {
	key  *rsa.PrivateKey
	cert *x509.Certificate
}

func (w *vWorld) rsaRoot() *vRSACA {
	k := rsaKey(2048)
	now := time.Now()
	tpl := &x509.Certificate{SerialNumber: big.NewInt(now.UnixNano()), Subject: pkix.Name{CommonName: "verif RSA root", Organization: []string{"verif"}},
		NotBefore: now.Add(-48 * time.Hour), NotAfter: now.Add(240 * time.Hour), IsCA: true, BasicConstraintsValid: true,
		KeyUsage: x509.KeyUsageCertSign | x509.KeyUsageDigitalSignature}
	der := must(x509.CreateCertificate(crand.Reader, tpl, tpl, &k.PublicKey, k))
	c, err := x509.ParseCertificate(der)
	if err != nil {
		panic(err)
	}
	return &vRSACA{k, c}
}

// crossDeviceCerts mints the device certificates of the cross classes for d (DER kept in d.der)
func (w *vWorld) crossDeviceCerts(d *vDev, serial int64) {
	now := time.Now()
	r := verifh.NewRand("attest06-crossdev", serial)
	tpl := &x509.Certificate{SerialNumber: big.NewInt(serial), Subject: pkix.Name{CommonName: fmt.Sprintf("Yubico PIV Attestation %d", serial)},
		NotBefore: now.Add(-time.Hour), NotAfter: now.Add(24 * time.Hour), IsCA: true, BasicConstraintsValid: true, KeyUsage: x509.KeyUsageCertSign | x509.KeyUsageDigitalSignature}
	tpl.SignatureAlgorithm = x509.SHA256WithRSA
	good := must(x509.CreateCertificate(crand.Reader, tpl, w.rroot.cert, d.sig.Public(), w.rroot.key))
	tpl.SignatureAlgorithm = x509.SHA256WithRSAPSS
	pss := must(x509.CreateCertificate(crand.Reader, tpl, w.rroot.cert, d.sig.Public(), w.rroot.key))
	d.der = map[string][]byte{"root_rsa": good, "root_pss": pss}
	mk := func(lab, sch, h string) []byte {
		out, _ := relabel(good, labelAI(lab), rsaSign(w.rroot.key, sch, h, r))
		return out
	}
	d.der["root_mis_pss_p1"] = mk("pss-sha256", "pkcs1", "sha256")
	d.der["root_mis_p1_pss"] = mk("sha256-rsa", "pss", "sha256")
	d.der["root_mis_hash"] = mk("sha256-rsa", "pkcs1", "sha384")
	d.der["root_mis_ecdsa"] = mk("ecdsa-sha256", "pkcs1", "sha256")
	d.der["root"] = d.certs["root/valid"].Raw
	d.der["otherca"] = d.certs["otherca/valid"].Raw
	// harness-side sanity with crypto/x509: the two good ones chain to the pool, the relabelled ones do not
	for rel, der := range d.der {
		c, err := x509.ParseCertificate(der)
		if err != nil {
			panic(fmt.Sprintf("harness: crypto/x509 cannot parse the %s device certificate: %v", rel, err))
		}
		_, err = c.Verify(x509.VerifyOptions{Roots: w.pool})
		want := rel == "root" || rel == "root_rsa" || rel == "root_pss"
		if (err == nil) != want {
			panic(fmt.Sprintf("harness: %s device certificate: crypto/x509 chain verdict %v", rel, err))
		}
	}
	// a well-formed slot certificate signed by the device key (any subject key)
	st := &x509.Certificate{SerialNumber: big.NewInt(serial + 7), Subject: pkix.Name{CommonName: "YubiKey PIV Attestation 9a"},
		NotBefore: now.Add(-time.Hour), NotAfter: now.Add(24 * time.Hour)}
	d.slot = must(x509.CreateCertificate(crand.Reader, st, tpl, &w.root.key.PublicKey, d.sig))
}

func lenientParse(der []byte) (c *x509.Certificate, pan bool) {
	defer func() {
		if recover() != nil {
			c, pan = nil, true
		}
	}()
	c, err := yubiattest.ParseCertificate(der)
	if err != nil {
		return nil, false
	}
	return c, false
}

// runCross materialises one label x scheme case on d
func (w *vWorld) runCross(c vCase06, ci int, d *vDev, r *mrand.Rand, tr *verifh.Trace, st *vStats06) {
	slotDER, tbs := relabel(d.slot, labelAI(c.Lab), rsaSign(d.rsa, c.Sch, c.H0, r))
	k := (d.rsa.N.BitLen() + 7) / 8
	// the encoded message the verifier will see, projected to the abstract layout (an observation, like direction B)
	sl, err := x509.ParseCertificate(slotDER)
	if err != nil {
		panic(fmt.Sprintf("harness: crypto/x509 cannot parse the relabelled slot certificate (%s): %v", c.Lab, err))
	}
	em := new(big.Int).Exp(new(big.Int).SetBytes(sl.Signature), big.NewInt(int64(d.rsa.E)), d.rsa.N).FillBytes(make([]byte, k))
	ev := &vE06{vCase06: c, K: k, Src: "A-cross"}
	ev.Em = abstractEM(em, tbs, labelHash(c.Alg))
	if ev.Em.Shape == "random" {
		ev.Em = c.Em
		if c.Sch == "pkcs1" {
			panic("harness: an honest PKCS#1 v1.5 signature was not recognised by abstractEM")
		}
	}
	ddER := d.der[c.Rel]
	if ddER == nil {
		panic("harness: no device certificate for " + c.Rel)
	}
	st.mu.Lock()
	st.A++
	st.Cross++
	st.mu.Unlock()
	for i, h := range []string{"used", "fresh"} {
		e2 := *ev
		e2.Hist = h
		dev, p1 := lenientParse(ddER)
		slot, p2 := lenientParse(slotDER)
		switch {
		case p1 || p2:
			e2.Res = vRes06{Pan: true}
			e2.Info = "the lenient parser crashed"
		case dev == nil || slot == nil:
			e2.Info = fmt.Sprintf("not parsed by the lenient parser (device %v, slot %v): nothing to attest", dev != nil, slot != nil)
		default:
			e2.Info = fmt.Sprintf("parsed labels: slot %v, device %v", slot.SignatureAlgorithm, dev.SignatureAlgorithm)
			if h == "fresh" {
				e2.Res = w.attestOn(yubiattest.NewAttestorWithCAPool(w.pool), dev, slot)
			} else {
				e2.Res = w.attest(dev, slot)
			}
		}
		st.note(&e2)
		st.mu.Lock()
		st.Calls++
		if e2.Res.Acc {
			st.CrossAcc++
		}
		st.mu.Unlock()
		tr.Emit(vEvent{Ev: "step", P: "C06", Tid: fmt.Sprintf("x%d-%d-%s%d", ci, d.bits, h[:1], i), E: &e2})
	}
}

var _ = crypto.SHA256
