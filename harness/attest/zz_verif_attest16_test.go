//go:build verif

package yubiattest_test

// Conformance harness for spec/Attest.tla, property C16: certificate shapes minted by crypto/x509 (the conforming
// encoder), parsed by yubiattest.ParseCertificate and crypto/x509.ParseCertificate and compared field by field;
// PEM bundles through utils.ParsePEMCertificates; serial-extension values through yubiattest.ModHex; byte-level
// mutations and truncations (crash freedom).  The harness records observations; TLC (TraceAttest.tla) judges.

import (
	"bytes"
	"crypto"
	"crypto/ecdsa"
	"crypto/elliptic"
	crand "crypto/rand"
	"crypto/rsa"
	"crypto/x509"
	"crypto/x509/pkix"
	"encoding/asn1"
	"encoding/hex"
	"encoding/json"
	"encoding/pem"
	"fmt"
	"math/big"
	mrand "math/rand"
	"net"
	"os"
	"sort"
	"strings"
	"sync"
	"testing"
	"time"

	"github.com/theparanoids/ysshra/agent/utils"
	"github.com/theparanoids/ysshra/attestation/yubiattest"
	"github.com/theparanoids/ysshra/verifh"
)

type vCase16 struct {
	P       string   `json:"p"`
	Op      string   `json:"op"`
	Kt      string   `json:"kt"`
	Sa      string   `json:"sa"`
	Exts    []string `json:"exts"`
	Tail    string   `json:"tail"`
	N       int      `json:"n"`
	Lead    string   `json:"lead"`
	Trail   string   `json:"trail"`
	Present bool     `json:"present"`
	Val     []int    `json:"val"`
}

type vRes16 struct {
	Pan bool     `json:"pan"`
	Yok bool     `json:"yok"`
	Sok bool     `json:"sok"`
	Eq  []string `json:"eq"`
	Ok  bool     `json:"ok"`
	Idx []int    `json:"idx"`
	S   []string `json:"s"`
}

func newRes16() vRes16 { return vRes16{Eq: []string{}, Idx: []int{}, S: []string{}} }

type vE16 struct {
	vCase16
	Hist string `json:"hist"` // what the process-wide parser did before this call: fresh / after_rich / after_bare / concurrent
	Src  string `json:"src"`
	Res  vRes16 `json:"res"`
	Info string `json:"info,omitempty"`
	Der  string `json:"der,omitempty"` // input bytes (hex) of a crashing call, for exact replay
}

type vPlan16 struct {
	Cases []struct {
		C vCase16 `json:"c"`
	} `json:"cases"`
	MutPerPos int      `json:"mutperpos"` // mutations per byte position of each base certificate
	TruncStep int      `json:"truncstep"` // every n-th truncation length
	MintEvery int      `json:"mintevery"` // every n-th ModHex case also through a minted and parsed certificate
	Alt       int      `json:"alt"`       // pairs of (extension-rich, extension-free) certificates parsed alternately on one goroutine
	BufReuse  int      `json:"bufreuse"`  // histories in which the caller rewrites ONE input buffer in place between calls
	Reps      int      `json:"reps"`      // how often every shape is minted (different random contents)
	NRandMH   int      `json:"nrandmh"`   // direction B: random serial-extension values
	Raw       []string `json:"raw"`       // replay: inputs (hex) to push through parser + extractor
	NoB       bool     `json:"nob"`
}

var oidSerial = asn1.ObjectIdentifier{1, 3, 6, 1, 4, 1, 41482, 3, 7}

// ---------------------------------------------------------------------------------------------
// minimal DER reader / writer for the NULL surgery

type tlv struct {
	tag  byte
	body []byte
	full []byte
}

func readTLV(b []byte) (t tlv, rest []byte) {
	if len(b) < 2 {
		panic("der: short")
	}
	l, off := int(b[1]), 2
	if b[1]&0x80 != 0 {
		n := int(b[1] & 0x7f)
		l = 0
		for i := 0; i < n; i++ {
			l = l<<8 | int(b[2+i])
		}
		off = 2 + n
	}
	return tlv{b[0], b[off : off+l], b[:off+l]}, b[off+l:]
}

func children(b []byte) (out []tlv) {
	for len(b) > 0 {
		var t tlv
		t, b = readTLV(b)
		out = append(out, t)
	}
	return
}

func encTLV(tag byte, body []byte) []byte {
	var h []byte
	switch n := len(body); {
	case n < 128:
		h = []byte{tag, byte(n)}
	case n < 256:
		h = []byte{tag, 0x81, byte(n)}
	default:
		h = []byte{tag, 0x82, byte(n >> 8), byte(n)}
	}
	return append(h, body...)
}

func join(ts []tlv) (out []byte) {
	for _, t := range ts {
		out = append(out, t.full...)
	}
	return
}

// dropRSANull removes the NULL parameter from the subject public key algorithm identifier, fixes the enclosing
// lengths and signs the new to-be-signed bytes again with resign. Returns (certificate, tbs, signature).
func dropRSANull(der []byte, resign func(tbs []byte) []byte) ([]byte, []byte, []byte) {
	top, _ := readTLV(der)
	parts := children(top.body) // tbs, algorithm, signature
	tb := children(parts[0].body)
	spkiAt := -1
	for i, t := range tb { // subjectPublicKeyInfo: the SEQUENCE after issuer, validity, subject
		if t.tag == 0x30 {
			cs := children(t.body)
			if len(cs) == 2 && cs[0].tag == 0x30 && cs[1].tag == 0x03 {
				spkiAt = i
			}
		}
	}
	if spkiAt < 0 {
		panic("der: no subjectPublicKeyInfo")
	}
	sp := children(tb[spkiAt].body)
	alg := children(sp[0].body)
	if len(alg) != 2 || alg[1].tag != 0x05 {
		panic("der: algorithm identifier without NULL")
	}
	newAlg := encTLV(0x30, alg[0].full)
	newSpki := encTLV(0x30, append(append([]byte{}, newAlg...), sp[1].full...))
	tb[spkiAt] = tlv{0x30, nil, newSpki}
	tbs := encTLV(0x30, join(tb))
	sig := resign(tbs)
	bit := encTLV(0x03, append([]byte{0}, sig...))
	out := encTLV(0x30, append(append(append([]byte{}, tbs...), parts[1].full...), bit...))
	return out, tbs, sig
}

// ---------------------------------------------------------------------------------------------
// minting

type vMint struct {
	r       *mrand.Rand
	subj    map[string][]crypto.Signer
	issRSA  *rsa.PrivateKey
	issRSA2 *rsa.PrivateKey
	issEC   *ecdsa.PrivateKey
	issTplR *x509.Certificate
	issTplE *x509.Certificate
}

func newMint(r *mrand.Rand) *vMint {
	m := &vMint{r: r, subj: map[string][]crypto.Signer{}}
	m.issRSA, m.issRSA2 = rsaKey(1536), rsaKey(2048) // issuer keys: mostly the small one (signing time), the parsers do not care
	m.issEC, _ = ecdsa.GenerateKey(elliptic.P256(), crand.Reader)
	for i := 0; i < 2; i++ {
		m.subj["rsa"] = append(m.subj["rsa"], rsaKey(2048), rsaKey(1024))
		for kt, cv := range map[string]elliptic.Curve{"p256": elliptic.P256(), "p384": elliptic.P384(), "p521": elliptic.P521()} {
			k, _ := ecdsa.GenerateKey(cv, crand.Reader)
			m.subj[kt] = append(m.subj[kt], k)
		}
	}
	m.subj["rsa-nonull"] = m.subj["rsa"]
	mk := func(cn string) *x509.Certificate {
		return &x509.Certificate{SerialNumber: big.NewInt(77), Subject: pkix.Name{CommonName: cn, Organization: []string{"Yubico AB (verif)"}, Country: []string{"SE"}},
			NotBefore: time.Now().Add(-time.Hour), NotAfter: time.Now().Add(time.Hour), IsCA: true, BasicConstraintsValid: true,
			SubjectKeyId: []byte{1, 2, 3, 4, 5, 6, 7, 8, 9, 10}}
	}
	m.issTplR, m.issTplE = mk("Yubico PIV Root CA Serial 263751"), mk("Yubico PIV Attestation")
	return m
}

func sigAlg(sa string) (x509.SignatureAlgorithm, crypto.Hash) {
	switch sa {
	case "sha256-rsa":
		return x509.SHA256WithRSA, crypto.SHA256
	case "sha384-rsa":
		return x509.SHA384WithRSA, crypto.SHA384
	case "sha512-rsa":
		return x509.SHA512WithRSA, crypto.SHA512
	case "sha256-pss":
		return x509.SHA256WithRSAPSS, crypto.SHA256
	case "sha384-pss":
		return x509.SHA384WithRSAPSS, crypto.SHA384
	case "sha512-pss":
		return x509.SHA512WithRSAPSS, crypto.SHA512
	case "ecdsa-sha256":
		return x509.ECDSAWithSHA256, crypto.SHA256
	case "ecdsa-sha384":
		return x509.ECDSAWithSHA384, crypto.SHA384
	case "ecdsa-sha512":
		return x509.ECDSAWithSHA512, crypto.SHA512
	}
	panic("signature algorithm " + sa)
}

func has(xs []string, x string) bool {
	for _, y := range xs {
		if x == y {
			return true
		}
	}
	return false
}

type vMinted struct {
	der []byte // what is handed to the parsers
	ref []byte // the conforming twin the standard parser reads (== der for clean shapes with the NULL)
	tbs []byte // expected RawTBSCertificate of der
	sig []byte // expected Signature of der
	raw []byte // expected Raw of der (der without trailing data)
}

func (m *vMint) mint(c vCase16, extra []pkix.Extension) vMinted {
	r := m.r
	ks := m.subj[c.Kt]
	sk := ks[r.Intn(len(ks))]
	alg, hash := sigAlg(c.Sa)
	serial := new(big.Int).Rand(r, new(big.Int).Lsh(big.NewInt(1), uint(8+r.Intn(150))))
	serial.Add(serial, big.NewInt(1))
	tpl := &x509.Certificate{SerialNumber: serial, SignatureAlgorithm: alg,
		Subject:   pkix.Name{CommonName: fmt.Sprintf("YubiKey PIV Attestation 9%c", "acde"[r.Intn(4)])},
		NotBefore: time.Unix(1457000000+r.Int63n(4e8), 0).UTC(), NotAfter: time.Unix(1900000000+r.Int63n(9e8), 0).UTC()}
	if r.Intn(3) == 0 {
		tpl.NotAfter = time.Date(2052, 4, 17, 0, 0, 0, 0, time.UTC) // GeneralizedTime
		tpl.Subject.Organization = []string{"Yubico AB"}
		tpl.Subject.SerialNumber = fmt.Sprint(r.Int31())
	}
	issRSA := m.issRSA
	if r.Intn(8) == 0 || verifh.Tier() == "thorough" {
		issRSA = m.issRSA2
	}
	parentTpl, signer := m.issTplR, crypto.Signer(issRSA)
	if strings.HasPrefix(c.Sa, "ecdsa") {
		parentTpl, signer = m.issTplE, m.issEC
	}
	parent := *parentTpl
	if !has(c.Exts, "kid") {
		parent.SubjectKeyId = nil
	}
	for _, k := range c.Exts {
		switch k {
		case "bc":
			tpl.BasicConstraintsValid = true
			tpl.IsCA = has(c.Exts, "kid") && r.Intn(2) == 0
			if tpl.IsCA && r.Intn(2) == 0 {
				tpl.MaxPathLen, tpl.MaxPathLenZero = r.Intn(3), true
			}
		case "ku":
			tpl.KeyUsage = x509.KeyUsage(1 + r.Intn(511))
		case "kid":
			tpl.SubjectKeyId = make([]byte, 1+r.Intn(20))
			r.Read(tpl.SubjectKeyId)
		case "san":
			tpl.DNSNames = []string{"yubikey.example.com", "x.test"}[:1+r.Intn(2)]
			if r.Intn(2) == 0 {
				tpl.EmailAddresses = []string{"piv@example.com"}
			}
			if r.Intn(2) == 0 {
				tpl.IPAddresses = []net.IP{net.IPv4(10, 0, 0, byte(r.Intn(255))), net.ParseIP("2001:db8::1")}
			}
		case "eku":
			tpl.ExtKeyUsage = []x509.ExtKeyUsage{x509.ExtKeyUsageClientAuth, x509.ExtKeyUsageEmailProtection}[:1+r.Intn(2)]
			if r.Intn(2) == 0 {
				tpl.UnknownExtKeyUsage = []asn1.ObjectIdentifier{{1, 3, 6, 1, 4, 1, 311, 20, 2, 2}}
			}
		case "pol":
			tpl.PolicyIdentifiers = []asn1.ObjectIdentifier{{2, 23, 140, 1, 2, 1}, {1, 3, 6, 1, 4, 1, 41482, 99}}[:1+r.Intn(2)]
		case "vendor":
			ser, _ := asn1.Marshal(1000000 + r.Intn(20000000))
			tpl.ExtraExtensions = append(tpl.ExtraExtensions,
				pkix.Extension{Id: asn1.ObjectIdentifier{1, 3, 6, 1, 4, 1, 41482, 3, 3}, Value: []byte{5, byte(r.Intn(8)), byte(r.Intn(8))}},
				pkix.Extension{Id: oidSerial, Value: ser},
				pkix.Extension{Id: asn1.ObjectIdentifier{1, 3, 6, 1, 4, 1, 41482, 3, 8}, Value: []byte{byte(1 + r.Intn(3)), byte(1 + r.Intn(3))}},
				pkix.Extension{Id: asn1.ObjectIdentifier{1, 3, 6, 1, 4, 1, 41482, 3, 9}, Value: []byte{byte(1 + r.Intn(5))}, Critical: false})
		}
	}
	tpl.ExtraExtensions = append(tpl.ExtraExtensions, extra...)
	der, err := x509.CreateCertificate(crand.Reader, tpl, &parent, sk.Public(), signer)
	if err != nil {
		panic(fmt.Sprintf("mint %+v: %v", c, err))
	}
	out := vMinted{der: der, ref: der, raw: der}
	if c.Kt == "rsa-nonull" {
		resign := func(tbs []byte) []byte {
			h := hash.New()
			h.Write(tbs)
			d := h.Sum(nil)
			var s []byte
			var err error
			switch {
			case strings.HasSuffix(c.Sa, "-rsa"):
				s, err = rsa.SignPKCS1v15(nil, issRSA, hash, d)
			case strings.HasSuffix(c.Sa, "-pss"):
				s, err = rsa.SignPSS(crand.Reader, issRSA, hash, d, &rsa.PSSOptions{SaltLength: rsa.PSSSaltLengthEqualsHash})
			default:
				s, err = ecdsa.SignASN1(crand.Reader, m.issEC, d)
			}
			if err != nil {
				panic(err)
			}
			return s
		}
		out.der, out.tbs, out.sig = dropRSANull(der, resign)
		out.raw = out.der
	}
	if c.Tail == "trailing" {
		switch r.Intn(3) {
		case 0:
			out.der = append(append([]byte{}, out.der...), 0)
		case 1:
			g := make([]byte, 1+r.Intn(8))
			r.Read(g)
			out.der = append(append([]byte{}, out.der...), g...)
		default:
			out.der = append(append([]byte{}, out.der...), out.raw...)
		}
	}
	return out
}

// ---------------------------------------------------------------------------------------------
// observers

func parseBoth(der []byte) (y, s *x509.Certificate, pan bool) {
	func() {
		defer func() {
			if recover() != nil {
				pan = true
			}
		}()
		c, err := yubiattest.ParseCertificate(der)
		if err == nil {
			y = c
		}
	}()
	func() {
		defer func() { recover() }()
		c, err := x509.ParseCertificate(der)
		if err == nil {
			s = c
		}
	}()
	return
}

func pubEqual(a, b interface{}) bool {
	type eq interface{ Equal(crypto.PublicKey) bool }
	x, ok := a.(eq)
	return ok && b != nil && x.Equal(b)
}

func extsEqual(a, b []pkix.Extension) bool {
	if len(a) != len(b) {
		return false
	}
	for i := range a {
		if !a[i].Id.Equal(b[i].Id) || a[i].Critical != b[i].Critical || !bytes.Equal(a[i].Value, b[i].Value) {
			return false
		}
	}
	return true
}

// compare lists the fields on which the lenient parser's view y equals the reference
func compare(y, ref *x509.Certificate, raw, tbs, sig []byte) []string {
	eq := []string{}
	add := func(f string, ok bool) {
		if ok {
			eq = append(eq, f)
		}
	}
	if tbs == nil {
		tbs = ref.RawTBSCertificate
	}
	if sig == nil {
		sig = ref.Signature
	}
	add("raw", bytes.Equal(y.Raw, raw))
	add("tbs", bytes.Equal(y.RawTBSCertificate, tbs))
	add("pk", pubEqual(y.PublicKey, ref.PublicKey))
	add("sig", bytes.Equal(y.Signature, sig))
	add("sa", y.SignatureAlgorithm == ref.SignatureAlgorithm)
	add("serial", y.SerialNumber != nil && ref.SerialNumber != nil && y.SerialNumber.Cmp(ref.SerialNumber) == 0)
	add("subject", bytes.Equal(y.RawSubject, ref.RawSubject))
	add("issuer", bytes.Equal(y.RawIssuer, ref.RawIssuer))
	add("nb", y.NotBefore.Equal(ref.NotBefore))
	add("na", y.NotAfter.Equal(ref.NotAfter))
	add("exts", extsEqual(y.Extensions, ref.Extensions))
	sort.Strings(eq)
	return eq
}

func modHexObs(c *x509.Certificate) (res vRes16) {
	res = newRes16()
	defer func() {
		if recover() != nil {
			res = newRes16()
			res.Pan = true
		}
	}()
	s, err := yubiattest.ModHex(c)
	if err != nil {
		return
	}
	res.Ok = true
	for _, ch := range []byte(s) {
		if ch >= 'a' && ch <= 'z' {
			res.S = append(res.S, string(ch))
		} else {
			res.S = append(res.S, "?")
		}
	}
	return
}

// serialExt returns (number of serial extensions, value of the only one)
func serialExt(c *x509.Certificate) (int, []int) {
	n, val := 0, []int{}
	for _, e := range c.Extensions {
		if e.Id.Equal(oidSerial) {
			n++
			val = []int{}
			for _, b := range e.Value {
				val = append(val, int(b))
			}
		}
	}
	return n, val
}

type vStats16 struct {
	Events   int            `json:"events"`
	Parse    int            `json:"parse"`
	Pem      int            `json:"pem"`
	ModHex   int            `json:"modhex"`
	Minted   int            `json:"modhex_minted"`
	Alt      int            `json:"alt"`
	BufReuse int            `json:"bufreuse"`
	Mut      int            `json:"mut"`
	MutBoth  int            `json:"mut_both_parsed"`
	MutY     int            `json:"mut_lenient_parsed"`
	Panics   int            `json:"panics"`
	Distinct map[string]int `json:"-"`
	NDist    int            `json:"distinct"`
	StdRej   int            `json:"std_rejected_conforming"`
}

type vRun16 struct {
	tr *verifh.Trace
	st *vStats16
	m  *vMint
	n  int

	seenMH map[string]bool
}

func (x *vRun16) emit(tid string, e *vE16) {
	x.st.Events++
	if e.Res.Pan {
		x.st.Panics++
	}
	x.st.Distinct[fmt.Sprintf("%s|%s|%s|%v|%s|%d|%s|%s|%v|%d|%v|%v|%v|%v|%d|%d", e.Op, e.Kt, e.Sa, e.Exts, e.Tail, e.N, e.Lead, e.Trail, e.Present, len(e.Val),
		e.Res.Pan, e.Res.Yok, e.Res.Sok, e.Res.Ok, len(e.Res.Eq), len(e.Res.Idx))]++
	x.tr.Emit(vEvent{Ev: "step", P: "C16", Tid: tid, E: e})
}

// parseObs mints one shape and observes both parsers (safe for concurrent use: its own generator). Where the lenient
// parser delivers a certificate, the extractor is run on it too: the serial extension the certificate REALLY carries
// is read with crypto/x509 from the conforming encoding, what ModHex returned is recorded as data.
func (x *vRun16) parseObs(ci, rep int, c vCase16, hist string) ([]*vE16, bool) {
	m := *x.m
	m.r = verifh.NewRand("attest16-shape", int64(ci)+int64(rep)*1000003)
	mt := m.mint(c, nil)
	e := &vE16{vCase16: c, Hist: hist, Src: "A", Res: newRes16()}
	y, s, pan := parseBoth(mt.der)
	e.Res.Pan, e.Res.Yok, e.Res.Sok = pan, y != nil, s != nil
	if pan {
		e.Der = hex.EncodeToString(mt.der)
	}
	out := []*vE16{e}
	if y != nil {
		ref := s
		if ref == nil { // the standard parser refuses this input: compare with its view of the conforming twin
			ref, _ = x509.ParseCertificate(mt.ref)
		}
		if ref != nil {
			e.Res.Eq = compare(y, ref, mt.raw, mt.tbs, mt.sig)
			if n, val := serialExt(ref); n <= 1 {
				mc := vCase16{P: "C16", Op: "modhex", Kt: c.Kt, Sa: c.Sa, Exts: c.Exts, Tail: "clean", Lead: "none", Trail: "none", Present: n == 1, Val: val}
				me := &vE16{vCase16: mc, Hist: hist, Src: "A-parsed", Res: modHexObs(y)}
				if me.Res.Pan {
					me.Der = hex.EncodeToString(mt.der)
				}
				out = append(out, me)
			}
		}
	}
	return out, c.Tail == "clean" && c.Kt != "rsa-nonull" && s == nil
}

func (x *vRun16) parseCases(cases []vCase16, idx []int, rep int) {
	out := make([][]*vE16, len(idx))
	rej := make([]bool, len(idx))
	var wg sync.WaitGroup
	for w := 0; w < 4; w++ {
		wg.Add(1)
		go func(w int) {
			defer wg.Done()
			for i := w; i < len(idx); i += 4 {
				out[i], rej[i] = x.parseObs(idx[i], rep, cases[idx[i]], "concurrent")
			}
		}(w)
	}
	wg.Wait()
	for i, es := range out {
		if rej[i] {
			x.st.StdRej++
		}
		x.st.Parse++
		for j, e := range es {
			if j > 0 {
				x.st.ModHex++
			}
			x.emit(fmt.Sprintf("p%d-%d-%d", idx[i], rep, j), e)
		}
	}
}

// alternate parses extension-rich and extension-free certificates in turn on ONE goroutine (whatever the parser keeps
// between calls would show), then repeats the first ones: the result of a call must not depend on the calls before it.
func (x *vRun16) alternate(cases []vCase16, idx []int, n int) {
	var rich, bare []int
	for _, ci := range idx {
		c := cases[ci]
		if c.Tail != "clean" {
			continue
		}
		if len(c.Exts) == 0 {
			bare = append(bare, ci)
		} else if has(c.Exts, "vendor") {
			rich = append(rich, ci)
		}
	}
	if len(rich) == 0 || len(bare) == 0 {
		return
	}
	r := verifh.NewRand("attest16-alt", 0)
	hist := "fresh"
	run := func(tid string, ci, rep int) {
		es, rej := x.parseObs(ci, rep, cases[ci], hist)
		if rej {
			x.st.StdRej++
		}
		x.st.Alt++
		for j, e := range es {
			x.emit(fmt.Sprintf("%s-%d", tid, j), e)
		}
		if len(cases[ci].Exts) == 0 {
			hist = "after_bare"
		} else {
			hist = "after_rich"
		}
	}
	for i := 0; i < n; i++ {
		ri, bi := rich[r.Intn(len(rich))], bare[r.Intn(len(bare))]
		run(fmt.Sprintf("q%d-r", i), ri, 100+i)
		run(fmt.Sprintf("q%d-b", i), bi, 100+i)
		if i%5 == 0 { // the same two again, and two extension-free ones in a row
			run(fmt.Sprintf("q%d-r2", i), ri, 100+i)
			run(fmt.Sprintf("q%d-b2", i), bi, 100+i)
			run(fmt.Sprintf("q%d-b3", i), bare[r.Intn(len(bare))], 100+i)
		}
	}
}

var pemGarbage = []string{"garbage", "cut", "badder", "binary", "badbase64"}

func (x *vRun16) pemCase(ci int, c vCase16, pool [][]byte) {
	r := x.m.r
	variants := []string{""}
	if c.Trail == "garbage" {
		variants = pemGarbage
	}
	for vi, g := range variants {
		var buf bytes.Buffer
		off := r.Intn(len(pool))
		var in [][]byte
		for i := 0; i < c.N; i++ {
			d := pool[(off+i)%len(pool)]
			in = append(in, d)
			if (c.Lead == "first" && i == 0) || c.Lead == "each" {
				buf.WriteString("subject=/CN=YubiKey PIV Attestation 9a\nissuer=/CN=Yubico PIV Attestation\n  some explanatory text: 12345\n")
			}
			pem.Encode(&buf, &pem.Block{Type: "CERTIFICATE", Bytes: d})
		}
		if c.N == 0 && c.Lead == "first" {
			buf.WriteString("subject=/CN=nobody\nno certificate follows\n")
		}
		switch c.Trail {
		case "ws":
			buf.WriteString([]string{"\n", " \t\r\n\n", "   ", "\n\n\n\t"}[r.Intn(4)])
		case "garbage":
			switch g {
			case "garbage":
				buf.WriteString("this is not a certificate\n")
			case "cut":
				buf.WriteString("-----BEGIN CERTIFICATE-----\nMIIBszCCAVmgAwIBAgIJ\n")
			case "badder":
				d := append([]byte{}, pool[0]...)
				pem.Encode(&buf, &pem.Block{Type: "CERTIFICATE", Bytes: d[:len(d)/2]})
			case "binary":
				buf.Write([]byte{0x30, 0x82, 0x01, 0x00, 0xff, 0xfe})
			case "badbase64":
				buf.WriteString("-----BEGIN CERTIFICATE-----\n!!!!\n-----END CERTIFICATE-----\nx")
			}
		}
		e := &vE16{vCase16: c, Src: "A", Res: newRes16(), Info: g}
		func() {
			defer func() {
				if recover() != nil {
					e.Res.Pan = true
					e.Der = hex.EncodeToString(buf.Bytes())
				}
			}()
			certs, err := utils.ParsePEMCertificates(buf.Bytes())
			e.Res.Ok = err == nil
			if err == nil {
				for _, cert := range certs {
					at := 0
					for i, d := range in {
						if cert != nil && bytes.Equal(cert.Raw, d) {
							at = i + 1
						}
					}
					e.Res.Idx = append(e.Res.Idx, at)
				}
			}
		}()
		x.st.Pem++
		x.emit(fmt.Sprintf("m%d-%d", ci, vi), e)
	}
}

func (x *vRun16) modhexCase(ci int, c vCase16, mintEvery int) {
	val := make([]byte, len(c.Val))
	for i, v := range c.Val {
		val[i] = byte(v)
	}
	r := x.m.r
	other := []pkix.Extension{{Id: asn1.ObjectIdentifier{2, 5, 29, 15}, Critical: true, Value: []byte{3, 2, 5, 0xa0}},
		{Id: asn1.ObjectIdentifier{1, 3, 6, 1, 4, 1, 41482, 3, 3}, Value: []byte{5, 4, 3}},
		{Id: asn1.ObjectIdentifier{1, 3, 6, 1, 4, 1, 41482, 3, 70}, Value: []byte{2, 3, 1, 2, 3}},
		{Id: asn1.ObjectIdentifier{1, 3, 6, 1, 4, 1, 41482, 3}, Value: []byte{2, 4, 1, 2, 3, 4}}}
	// direct: a certificate value carrying exactly these extensions
	exts := append([]pkix.Extension{}, other[:r.Intn(len(other)+1)]...)
	if c.Present {
		at := r.Intn(len(exts) + 1)
		exts = append(exts[:at:at], append([]pkix.Extension{{Id: oidSerial, Value: val}}, exts[at:]...)...)
	}
	cert := &x509.Certificate{Extensions: exts}
	e := &vE16{vCase16: c, Hist: "fresh", Src: "A-direct"}
	e.Res = modHexObs(cert)
	x.st.ModHex++
	x.emit(fmt.Sprintf("h%d", ci), e)
	if mintEvery > 0 && (ci%mintEvery == 0 || len(c.Val) <= 4) {
		var extra []pkix.Extension
		if c.Present {
			extra = []pkix.Extension{{Id: oidSerial, Value: val}}
		}
		sh := vCase16{Kt: []string{"p256", "rsa-nonull", "p384"}[ci%3], Sa: "ecdsa-sha256", Tail: "clean"}
		if ci%2 == 0 {
			sh.Exts = []string{"ku", "bc"}
		}
		mt := x.m.mint(sh, extra)
		// harness-side sanity with crypto/x509 on the conforming encoding, never with the parser under test
		ref, err := x509.ParseCertificate(mt.ref)
		if err != nil {
			panic(fmt.Sprintf("harness: crypto/x509 refuses a certificate minted by crypto/x509: %v", err))
		}
		n, got := serialExt(ref)
		if (c.Present && (n != 1 || fmt.Sprint(got) != fmt.Sprint(c.Val))) || (!c.Present && n != 0) {
			panic(fmt.Sprintf("harness: minted certificate does not carry the serial extension value %v (got %d: %v)", c.Val, n, got))
		}
		y, _, pan := parseBoth(mt.der)
		e2 := &vE16{vCase16: c, Hist: "after_modhex", Src: "A-minted"}
		if pan || y == nil {
			// the lenient parser did not deliver a certificate: nothing to extract from (the parse verdict is judged elsewhere)
			return
		}
		e2.Res = modHexObs(y)
		x.st.ModHex++
		x.st.Minted++
		x.emit(fmt.Sprintf("h%d-minted", ci), e2)
	}
}

// raw pushes arbitrary bytes through both parsers and, where the lenient one delivers a certificate, the extractor.
func (x *vRun16) raw(tid, base, kind string, der []byte) {
	c := vCase16{P: "C16", Op: "mut", Kt: base, Sa: kind, Exts: []string{}, Tail: "clean", Lead: "none", Trail: "none", Val: []int{}}
	e := &vE16{vCase16: c, Src: "B", Res: newRes16()}
	y, s, pan := parseBoth(der)
	e.Res.Pan, e.Res.Yok, e.Res.Sok = pan, y != nil, s != nil
	if pan {
		e.Der = hex.EncodeToString(der)
	}
	x.st.Mut++
	if y != nil {
		x.st.MutY++
		if s != nil {
			x.st.MutBoth++
			e.Res.Eq = compare(y, s, der, nil, nil)
		}
	}
	x.emit(tid, e)
	if y != nil {
		n, val := serialExt(y)
		if n <= 1 {
			res := modHexObs(y)
			k := fmt.Sprintf("%v|%v|%v", n, val, res)
			if res.Pan || !x.seenMH[k] {
				if x.seenMH == nil {
					x.seenMH = map[string]bool{}
				}
				x.seenMH[k] = true
				mc := vCase16{P: "C16", Op: "modhex", Kt: base, Sa: kind, Exts: []string{}, Tail: "clean", Lead: "none", Trail: "none", Present: n == 1, Val: val}
				me := &vE16{vCase16: mc, Src: "B-mutant", Res: res}
				if res.Pan {
					me.Der = hex.EncodeToString(der)
				}
				x.st.ModHex++
				x.emit(tid+"-mh", me)
			}
		}
	}
}

func TestVerifAttest16(t *testing.T) {
	plan := loadPlan(t).C16
	if plan == nil {
		t.Fatal("no c16 plan")
	}
	tr, err := verifh.OpenTrace(os.Getenv("VERIF_OUT"))
	if err != nil {
		t.Fatal(err)
	}
	pregen([]int{1024, 1536, 2048})
	x := &vRun16{tr: tr, st: &vStats16{Distinct: map[string]int{}}, m: newMint(verifh.NewRand("attest16", 0))}
	tr.Emit(vEvent{Ev: "reset", P: "C16", Tid: "reset"})
	all := []string{"bc", "ku", "kid", "san", "eku", "pol", "vendor"}
	var pool [][]byte
	for i, kt := range []string{"rsa", "p256", "rsa-nonull", "p384", "p521"} {
		pool = append(pool, x.m.mint(vCase16{Kt: kt, Sa: []string{"sha256-rsa", "ecdsa-sha384"}[i%2], Exts: all[:1+i], Tail: "clean"}, nil).der)
	}
	var all16 []vCase16
	var pidx []int
	for ci, cc := range plan.Cases {
		c := cc.C
		if c.Exts == nil {
			c.Exts = []string{}
		}
		if c.Val == nil {
			c.Val = []int{}
		}
		all16 = append(all16, c)
		if c.Op == "parse" {
			pidx = append(pidx, ci)
		}
	}
	for rep := 0; rep < plan.Reps || rep == 0; rep++ {
		x.parseCases(all16, pidx, rep)
	}
	x.alternate(all16, pidx, plan.Alt)
	x.bufferReuse(all16, pidx, plan.BufReuse)
	for ci, c := range all16 {
		switch c.Op {
		case "pem":
			x.pemCase(ci, c, pool)
		case "modhex":
			x.modhexCase(ci, c, plan.MintEvery)
		}
	}
	for i, h := range plan.Raw {
		b, err := hex.DecodeString(h)
		if err != nil {
			t.Fatal(err)
		}
		x.raw(fmt.Sprintf("raw%d", i), "replay", "raw", b)
	}
	if !plan.NoB {
		x.randomSerials(plan.NRandMH)
		x.mutants(plan)
	}
	if err := tr.Close(); err != nil {
		t.Fatal(err)
	}
	x.st.NDist = len(x.st.Distinct)
	js, _ := json.Marshal(x.st)
	fmt.Printf("VERIF-SUMMARY %s\n", js)
}

// direction B: byte-level mutations and truncations of one certificate per key type / issuer family
func (x *vRun16) mutants(plan *vPlan16) {
	all := []string{"bc", "ku", "kid", "san", "eku", "pol", "vendor"}
	r := verifh.NewRand("attest16-mut", 0)
	bi := 0
	for _, kt := range []string{"rsa", "rsa-nonull", "p256", "p384", "p521"} {
		for _, sa := range []string{"sha256-rsa", "sha384-pss", "ecdsa-sha256"} {
			bi++
			exts := all
			if bi%3 == 0 {
				exts = []string{"vendor"}
			}
			base := x.m.mint(vCase16{Kt: kt, Sa: sa, Exts: exts, Tail: "clean"}, nil).der
			name := kt + "/" + sa
			for pos := range base {
				for j := 0; j < plan.MutPerPos; j++ {
					d := append([]byte{}, base...)
					kind := ""
					switch (r.Intn(6) + j) % 6 {
					case 0:
						d[pos] ^= 1 << uint(r.Intn(8))
						kind = "bit"
					case 1:
						d[pos] = 0
						kind = "zero"
					case 2:
						d[pos] = 0xff
						kind = "ff"
					case 3:
						d[pos]++
						kind = "inc"
					case 4:
						d[pos]--
						kind = "dec"
					default:
						d[pos] = byte(r.Intn(256))
						kind = "rnd"
					}
					x.raw(fmt.Sprintf("u%d-%d-%d", bi, pos, j), name, kind, d)
				}
			}
			step := plan.TruncStep
			if step <= 0 {
				step = 1
			}
			for n := r.Intn(step); n < len(base); n += step {
				x.raw(fmt.Sprintf("t%d-%d", bi, n), name, "trunc", base[:n])
			}
			// octets removed from / inserted in the middle
			for i := 0; i < 40; i++ {
				pos := r.Intn(len(base))
				d := append(append([]byte{}, base[:pos]...), base[pos+1:]...)
				x.raw(fmt.Sprintf("d%d-%d", bi, i), name, "del", d)
				d = append(append(append([]byte{}, base[:pos]...), byte(r.Intn(256))), base[pos:]...)
				x.raw(fmt.Sprintf("i%d-%d", bi, i), name, "ins", d)
			}
		}
	}
	// purely random and empty inputs
	x.raw("z-empty", "none", "empty", []byte{})
	x.raw("z-nil", "none", "empty", nil)
	for i := 0; i < 200; i++ {
		d := make([]byte, r.Intn(64))
		r.Read(d)
		if i%2 == 0 && len(d) > 2 {
			d[0], d[1] = 0x30, byte(len(d)-2)
		}
		x.raw(fmt.Sprintf("z%d", i), "none", "random", d)
	}
}

// direction B for the extractor: random extension values (mostly well-formed 3- and 4-octet serials, some of other
// lengths and with wrong headers); TLC computes the ModHex form of the recorded octets itself.
func (x *vRun16) randomSerials(n int) {
	r := verifh.NewRand("attest16-serial", 0)
	for i := 0; i < n; i++ {
		ln := []int{3, 4, 3, 4, 3, 4, 0, 1, 2, 5, 6}[r.Intn(11)]
		val := []byte{2, byte(ln)}
		for j := 0; j < ln; j++ {
			val = append(val, byte(r.Intn(256)))
		}
		if r.Intn(10) == 0 {
			val[r.Intn(2)] = byte(r.Intn(256))
		}
		if r.Intn(40) == 0 {
			val = val[:r.Intn(3)]
		}
		c := vCase16{P: "C16", Op: "modhex", Kt: "rsa", Sa: "random", Exts: []string{}, Tail: "clean", Lead: "none", Trail: "none", Present: true, Val: []int{}}
		for _, b := range val {
			c.Val = append(c.Val, int(b))
		}
		e := &vE16{vCase16: c, Src: "A-direct-random"}
		e.Res = modHexObs(&x509.Certificate{Extensions: []pkix.Extension{{Id: oidSerial, Value: val}}})
		x.st.ModHex++
		x.emit(fmt.Sprintf("hr%d", i), e)
	}
}

// observeBuf parses in (a slice of a buffer the caller keeps rewriting) with the lenient parser and judges it against
// crypto/x509's view of a private COPY of the current content - never against anything the parser under test returned.
func (x *vRun16) observeBuf(tid string, c vCase16, in []byte, wellFormed bool) {
	cur := append([]byte{}, in...)
	if !wellFormed {
		x.raw(tid, c.Kt+"/"+c.Sa, "buffer_reused", in)
		return
	}
	e := &vE16{vCase16: c, Hist: "buffer_reused", Src: "A-buffer", Res: newRes16()}
	y, _, pan := parseBoth(in)
	ref, err := x509.ParseCertificate(cur)
	e.Res.Pan, e.Res.Yok, e.Res.Sok = pan, y != nil, err == nil
	if pan {
		e.Der = hex.EncodeToString(cur)
	}
	x.st.BufReuse++
	if y != nil && ref != nil {
		e.Res.Eq = compare(y, ref, cur, nil, nil)
	}
	x.emit(tid, e)
	if y != nil && ref != nil {
		if n, val := serialExt(ref); n <= 1 {
			mc := vCase16{P: "C16", Op: "modhex", Kt: c.Kt, Sa: c.Sa, Exts: c.Exts, Tail: "clean", Lead: "none", Trail: "none", Present: n == 1, Val: val}
			x.st.ModHex++
			x.emit(tid+"-mh", &vE16{vCase16: mc, Hist: "buffer_reused", Src: "A-buffer", Res: modHexObs(y)})
		}
	}
}

// bufferReuse: the caller reads every certificate into the SAME buffer (as a server reusing a read buffer does): a shape,
// then in place an encoding of equal length that differs in serial number and subject, then a certificate of another
// length, then the first one again, then a corrupted encoding.  The result of a call must describe the bytes it was given.
func (x *vRun16) bufferReuse(cases []vCase16, idx []int, n int) {
	var ok []int
	for _, ci := range idx {
		if cases[ci].Tail == "clean" && cases[ci].Kt != "rsa-nonull" {
			ok = append(ok, ci)
		}
	}
	if len(ok) == 0 {
		return
	}
	r := verifh.NewRand("attest16-buf", 0)
	buf := make([]byte, 8192)
	for i := 0; i < n; i++ {
		ci := ok[r.Intn(len(ok))]
		c := cases[ci]
		m := *x.m
		m.r = verifh.NewRand("attest16-bufshape", int64(i))
		a := m.mint(c, nil).der
		ref, err := x509.ParseCertificate(a)
		if err != nil {
			panic(err)
		}
		// an encoding of the same length: another serial number (an inner octet) and another subject
		b := append([]byte{}, a...)
		sb := ref.SerialNumber.Bytes()
		at := bytes.Index(a, sb)
		if len(sb) < 3 || at < 0 || at > 40 {
			continue
		}
		b[at+1+r.Intn(len(sb)-1)] ^= byte(1 + r.Intn(255))
		if cn := bytes.Index(a, []byte("YubiKey PIV Attestation 9")); cn >= 0 {
			b[cn+len("YubiKey PIV Attestation 9")] = 'f'
		}
		rb, err := x509.ParseCertificate(append([]byte{}, b...))
		if err != nil || rb.SerialNumber.Cmp(ref.SerialNumber) == 0 {
			panic(fmt.Sprintf("harness: the rewritten encoding is not a well-formed certificate with another serial number: %v", err))
		}
		oc := cases[ok[r.Intn(len(ok))]]
		other := m.mint(oc, nil).der
		tid := fmt.Sprintf("b%d", i)
		in := buf[:len(a)]
		copy(in, a)
		x.observeBuf(tid+"-1", c, in, true)
		copy(in, b) // rewritten in place, same length
		x.observeBuf(tid+"-2", c, in, true)
		in2 := buf[:len(other)]
		copy(in2, other) // another certificate, usually another length
		x.observeBuf(tid+"-3", oc, in2, true)
		in = buf[:len(a)]
		copy(in, a) // the first one again
		x.observeBuf(tid+"-4", c, in, true)
		copy(in, b)
		in[1+r.Intn(3)] ^= 0x40 // and a broken outer length / tag: arbitrary bytes now
		x.observeBuf(tid+"-5", c, in, false)
		copy(in, b)
		x.observeBuf(tid+"-6", c, in, true)
	}
}
