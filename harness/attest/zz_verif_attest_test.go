//go:build verif

package yubiattest_test

// Conformance harness for spec/Attest.tla, property C06 (the C16 part is in zz_verif_attest16_test.go).
// The harness is a driver and observer only: it materialises the abstract cases exported by TLC on real keys
// and certificates, calls (*Attestor).Attest, and records what happened; TLC (spec/TraceAttest.tla) judges.
//
// Direction A: every exported case (abstract encoded message x label x chain relation x key type) is built at
// the real modulus length k of RSA device keys of several sizes; the harness owns the device private key and
// computes EM^d mod N itself, so any encoded message can be presented.
// Direction B: honest signatures, random bit flips of signature and body, non-canonical signature
// representatives; the encoded message the verifier will see (sig^e mod N) is projected back to the abstract
// layout by abstractEM and recorded with the verdict.

import (
	"bytes"
	"crypto"
	"crypto/ecdsa"
	"crypto/ed25519"
	"crypto/elliptic"
	"crypto/md5"
	crand "crypto/rand"
	"crypto/rsa"
	"crypto/sha1"
	"crypto/sha256"
	"crypto/sha512"
	"crypto/x509"
	"crypto/x509/pkix"
	"encoding/json"
	"fmt"
	"math/big"
	mrand "math/rand"
	"os"
	"runtime"
	"sync"
	"testing"
	"time"

	"github.com/theparanoids/ysshra/attestation/yubiattest"
	"github.com/theparanoids/ysshra/verifh"
)

type vEM struct {
	Shape string `json:"shape"`
	Lead  string `json:"lead"`
	Bt    string `json:"bt"`
	Psf   string `json:"psf"`
	Psm   string `json:"psm"`
	Psl   string `json:"psl"`
	Sep   string `json:"sep"`
	Pfx   []int  `json:"pfx"`
	Xo    int    `json:"xo"`
	Dgh   string `json:"dgh"`
	Dgj   int    `json:"dgj"`
	Dgv   string `json:"dgv"`
}

type vCase06 struct {
	P    string `json:"p"`
	Kt   string `json:"kt"`
	Alg  int    `json:"alg"`
	Rel  string `json:"rel"`
	Time string `json:"time"`
	Sf   string `json:"sf"`
	H0   string `json:"h0"`
	N0   bool   `json:"n0"`
	Mut  string `json:"mut"`
	Em   vEM    `json:"em"`
	Via  string `json:"via"` // "value": certificate values built by the harness; "parsed": DER through yubiattest.ParseCertificate
	Lab  string `json:"lab"` // the encoded algorithm label (via = "parsed")
	Sch  string `json:"sch"` // the scheme the signature value was made under
	Now  int    `json:"now"` // epoch of the call: 0 = the epoch in which the long-lived Attestor was constructed, 1 = after the lapse second
	Kc   string `json:"kc"`  // key-size class of the device key: "mult8" or "odd" (modulus size no multiple of 8)
}

type vRes06 struct {
	Acc bool `json:"acc"`
	Pan bool `json:"pan"`
}

type vE06 struct {
	vCase06
	K    int    `json:"k"`
	Hist string `json:"hist"` // "fresh": an Attestor made for this call; "used": the long-lived one shared by all cases
	Src  string `json:"src"`
	Res  vRes06 `json:"res"`
	Info string `json:"info,omitempty"`
}

type vEvent struct {
	Ev  string      `json:"ev"`
	P   string      `json:"p"`
	Tid string      `json:"tid"`
	E   interface{} `json:"e,omitempty"`
}

type vPlan06 struct {
	Cases []struct {
		C vCase06 `json:"c"`
	} `json:"cases"`
	Bits    []int    `json:"bits"`
	OddBits []int    `json:"oddbits"` // device key sizes that are no multiple of 8 (cases of class "odd")
	NFlip   int      `json:"nflip"`
	Only    []string `json:"only"` // replay: restrict direction B to these tids
	NoB     bool     `json:"nob"`
	Worker  int      `json:"workers"`
}

type vPlan struct {
	C06 *vPlan06 `json:"c06"`
	C16 *vPlan16 `json:"c16"`
}

func loadPlan(t *testing.T) *vPlan {
	b, err := os.ReadFile(os.Getenv("VERIF_PLAN"))
	if err != nil {
		t.Fatalf("cannot read VERIF_PLAN: %v", err)
	}
	p := &vPlan{}
	if err := json.Unmarshal(b, p); err != nil {
		t.Fatalf("bad plan: %v", err)
	}
	return p
}

// ---------------------------------------------------------------------------------------------
// keys and certificates

var (
	rsaMu    sync.Mutex
	rsaCache = map[int]*rsa.PrivateKey{}
)

func rsaKey(bits int) *rsa.PrivateKey {
	rsaMu.Lock()
	k := rsaCache[bits]
	rsaMu.Unlock()
	if k != nil {
		return k
	}
	k, err := rsa.GenerateKey(crand.Reader, bits)
	if err != nil {
		panic(err)
	}
	k.Precompute()
	rsaMu.Lock()
	if o := rsaCache[bits]; o != nil {
		k = o
	} else {
		rsaCache[bits] = k
	}
	rsaMu.Unlock()
	return k
}

// ffKey builds an RSA key whose modulus begins with the octet FF (both primes from the top 2^-11 of their range),
// so that encoded messages with a lead octet FF are still below the modulus and can be presented.
func ffKey(bits int) *rsa.PrivateKey {
	rsaMu.Lock()
	k := rsaCache[-bits]
	rsaMu.Unlock()
	if k != nil {
		return k
	}
	half := bits / 2
	top := new(big.Int).Lsh(big.NewInt(1), uint(half))
	e := big.NewInt(65537)
	prime := func() *big.Int {
		for {
			d, err := crand.Int(crand.Reader, new(big.Int).Lsh(big.NewInt(1), uint(half-11)))
			if err != nil {
				panic(err)
			}
			p := new(big.Int).Sub(top, d)
			p.SetBit(p, 0, 1)
			if !p.ProbablyPrime(20) {
				continue
			}
			if new(big.Int).GCD(nil, nil, e, new(big.Int).Sub(p, big.NewInt(1))).Cmp(big.NewInt(1)) == 0 {
				return p
			}
		}
	}
	for {
		p, q := prime(), prime()
		if p.Cmp(q) == 0 {
			continue
		}
		n := new(big.Int).Mul(p, q)
		if n.BitLen() != bits || n.Bytes()[0] != 0xff {
			continue
		}
		phi := new(big.Int).Mul(new(big.Int).Sub(p, big.NewInt(1)), new(big.Int).Sub(q, big.NewInt(1)))
		d := new(big.Int).ModInverse(e, phi)
		k = &rsa.PrivateKey{PublicKey: rsa.PublicKey{N: n, E: 65537}, D: d, Primes: []*big.Int{p, q}}
		if err := k.Validate(); err != nil {
			continue
		}
		k.Precompute()
		rsaMu.Lock()
		rsaCache[-bits] = k
		rsaMu.Unlock()
		return k
	}
}

func pregen(bits []int) {
	var wg sync.WaitGroup
	for _, b := range bits {
		wg.Add(1)
		go func(b int) { defer wg.Done(); rsaKey(b) }(b)
	}
	wg.Wait()
}

type vCA struct {
	key  *ecdsa.PrivateKey
	cert *x509.Certificate
}

func newCA(cn string) *vCA {
	k, err := ecdsa.GenerateKey(elliptic.P256(), crand.Reader)
	if err != nil {
		panic(err)
	}
	now := time.Now()
	tpl := &x509.Certificate{SerialNumber: big.NewInt(now.UnixNano()), Subject: pkix.Name{CommonName: cn, Organization: []string{"verif"}},
		NotBefore: now.Add(-48 * time.Hour), NotAfter: now.Add(240 * time.Hour), IsCA: true, BasicConstraintsValid: true,
		KeyUsage: x509.KeyUsageCertSign | x509.KeyUsageDigitalSignature}
	der, err := x509.CreateCertificate(crand.Reader, tpl, tpl, &k.PublicKey, k)
	if err != nil {
		panic(err)
	}
	c, err := x509.ParseCertificate(der)
	if err != nil {
		panic(err)
	}
	return &vCA{k, c}
}

// device certificate for a chain relation and a validity class
func deviceCert(root, other *vCA, dev crypto.Signer, rel, tm string, serial int64) *x509.Certificate {
	return deviceCertT(root, other, nil, dev, rel, tm, serial)
}

// deviceCertT also mints forged twins: same issuer name and serial number as a genuine certificate, key dev, issued by
// namesake (a CA that merely bears the root's name) or self-signed under the root's name.
func deviceCertT(root, other, namesake *vCA, dev crypto.Signer, rel, tm string, serial int64) *x509.Certificate {
	now := time.Now()
	nb, na := now.Add(-time.Hour), now.Add(24*time.Hour)
	switch tm {
	case "expired":
		nb, na = now.Add(-48*time.Hour), now.Add(-time.Hour)
	case "notyet":
		nb, na = now.Add(24*time.Hour), now.Add(48*time.Hour)
	}
	tpl := &x509.Certificate{SerialNumber: big.NewInt(serial), Subject: pkix.Name{CommonName: fmt.Sprintf("Yubico PIV Attestation %d", serial)},
		NotBefore: nb, NotAfter: na, IsCA: true, BasicConstraintsValid: true, KeyUsage: x509.KeyUsageCertSign | x509.KeyUsageDigitalSignature}
	var parent *x509.Certificate
	var signer crypto.Signer
	switch rel {
	case "root":
		parent, signer = root.cert, root.key
	case "otherca":
		parent, signer = other.cert, other.key
	case "twin_otherca":
		parent, signer = namesake.cert, namesake.key
	case "twin_self":
		tpl.Subject = root.cert.Subject
		tpl.RawSubject = root.cert.RawSubject
		parent, signer = tpl, dev
	default:
		parent, signer = tpl, dev
	}
	der, err := x509.CreateCertificate(crand.Reader, tpl, parent, dev.Public(), signer)
	if err != nil {
		panic(fmt.Sprintf("device certificate %s/%s: %v", rel, tm, err))
	}
	c, err := x509.ParseCertificate(der)
	if err != nil {
		panic(err)
	}
	return c
}

type vDev struct {
	honest  *x509.Certificate // a slot certificate value honestly signed by this device key (SHA-256, PKCS#1 v1.5)
	honEM   vEM
	der     map[string][]byte // cross classes: device certificates as DER
	slot    []byte            // a well-formed slot certificate signed by this device key
	genuine *x509.Certificate // root-issued, valid, ANOTHER key (victim), the identity the twins copy
	victim  *rsa.PrivateKey
	kt      string
	bits    int
	rsa     *rsa.PrivateKey
	sig     crypto.Signer
	certs   map[string]*x509.Certificate // rel/time
}

type vWorld struct {
	root, other *vCA
	namesake    *vCA    // not in the pool, same subject name as root
	rroot       *vRSACA // RSA root, in the pool (issues the device certificates of the label x scheme cases)
	pool        *x509.CertPool
	att         *yubiattest.Attestor // long-lived: shared by all cases of the run
	tbs         [][]byte
}

func newWorld(r *mrand.Rand) *vWorld {
	w := &vWorld{root: newCA("verif root"), other: newCA("verif other CA"), namesake: newCA("verif root")}
	if w.root.cert.Issuer.String() != w.namesake.cert.Subject.String() {
		panic("harness: namesake CA has another name")
	}
	w.pool = x509.NewCertPool()
	w.pool.AddCert(w.root.cert)
	w.rroot = w.rsaRoot()
	w.pool.AddCert(w.rroot.cert)
	w.att = yubiattest.NewAttestorWithCAPool(w.pool)
	// to-be-signed bytes: real TBSCertificate encodings (only hashed by the code under test)
	k, _ := ecdsa.GenerateKey(elliptic.P256(), crand.Reader)
	for i := 0; i < 24; i++ {
		tpl := &x509.Certificate{SerialNumber: big.NewInt(r.Int63()), Subject: pkix.Name{CommonName: fmt.Sprintf("YubiKey PIV Attestation 9a #%d", i)},
			NotBefore: time.Now().Add(-time.Hour), NotAfter: time.Now().Add(time.Hour)}
		der, err := x509.CreateCertificate(crand.Reader, tpl, tpl, &k.PublicKey, k)
		if err != nil {
			panic(err)
		}
		c, _ := x509.ParseCertificate(der)
		w.tbs = append(w.tbs, c.RawTBSCertificate)
	}
	return w
}

func (w *vWorld) device(kt string, bits int, serial int64) *vDev {
	d := &vDev{kt: kt, bits: bits, certs: map[string]*x509.Certificate{}}
	switch kt {
	case "rsa":
		if bits < 0 {
			d.rsa = ffKey(-bits)
		} else {
			d.rsa = rsaKey(bits)
		}
		d.sig = d.rsa
	case "p256":
		k, _ := ecdsa.GenerateKey(elliptic.P256(), crand.Reader)
		d.sig = k
	case "p384":
		k, _ := ecdsa.GenerateKey(elliptic.P384(), crand.Reader)
		d.sig = k
	case "ed25519":
		_, k, _ := ed25519.GenerateKey(crand.Reader)
		d.sig = k
	default:
		panic("key type " + kt)
	}
	for _, rel := range []string{"root", "otherca", "self"} {
		for _, tm := range []string{"valid", "expired", "notyet"} {
			serial++
			d.certs[rel+"/"+tm] = deviceCert(w.root, w.other, d.sig, rel, tm, serial)
		}
	}
	// the genuine certificate of another (victim) key and its forged twins carrying this device's key
	serial++
	d.victim = ffKey(1024)
	if d.rsa != nil && d.rsa.N.Cmp(d.victim.N) == 0 {
		d.victim = rsaKey(1024)
	}
	if d.rsa != nil && d.rsa.N.Cmp(d.victim.N) == 0 {
		d.victim = rsaKey(2048)
	}
	d.genuine = deviceCert(w.root, w.other, d.victim, "root", "valid", serial)
	for _, rel := range []string{"twin_otherca", "twin_self"} {
		t := deviceCertT(w.root, w.other, w.namesake, d.sig, rel, "valid", serial)
		if t.Issuer.String() != d.genuine.Issuer.String() || t.SerialNumber.Cmp(d.genuine.SerialNumber) != 0 || bytes.Equal(t.Raw, d.genuine.Raw) {
			panic("harness: twin does not copy the identity of the genuine certificate")
		}
		d.certs[rel+"/valid"] = t
	}
	if d.rsa != nil {
		w.crossDeviceCerts(d, serial+20)
		tbs := w.tbs[1]
		sig, err := rsa.SignPKCS1v15(nil, d.rsa, crypto.SHA256, digestOf("sha256", tbs))
		if err != nil {
			panic(err)
		}
		k := (d.rsa.N.BitLen() + 7) / 8
		em := new(big.Int).Exp(new(big.Int).SetBytes(sig), big.NewInt(int64(d.rsa.E)), d.rsa.N).FillBytes(make([]byte, k))
		d.honest = &x509.Certificate{RawTBSCertificate: tbs, Signature: sig, SignatureAlgorithm: x509.SHA256WithRSA}
		d.honEM = abstractEM(em, tbs, "sha256")
	}
	return d
}

func (w *vWorld) attest(dev, slot *x509.Certificate) (res vRes06) {
	return w.attestOn(w.att, dev, slot)
}

func (w *vWorld) attestOn(a *yubiattest.Attestor, dev, slot *x509.Certificate) (res vRes06) {
	defer func() {
		if x := recover(); x != nil {
			res = vRes06{Acc: false, Pan: true}
		}
	}()
	return vRes06{Acc: a.Attest(dev, slot) == nil}
}

// afterAccept issues, back to back on the calling goroutine and on the long-lived Attestor, an honest attestation with
// d's key (recorded as its own event; it must be accepted) and then the call (dc, slot): whatever the verifier keeps
// from a successful verification is still there when the second call runs.
func (w *vWorld) afterAccept(d *vDev, dc, slot *x509.Certificate, tid string, tr *verifh.Trace, st *vStats06) vRes06 {
	pc := vCase06{P: "C06", Kt: "rsa", Alg: 4, Rel: "root", Time: "valid", Sf: "canon", H0: "sha256", N0: true, Mut: "pred", Em: d.honEM}
	if d.rsa.N.BitLen()%8 != 0 {
		pc.Kc = "odd"
	}
	pe := &vE06{vCase06: pc, K: (d.rsa.N.BitLen() + 7) / 8, Hist: "used", Src: "B-pred"}
	good := d.certs["root/valid"]
	pe.Res = w.attest(good, d.honest)
	res := w.attest(dc, slot)
	st.note(pe)
	st.mu.Lock()
	st.Pred++
	if pe.Res.Acc {
		st.PredAcc++
	}
	st.mu.Unlock()
	tr.Emit(vEvent{Ev: "step", P: "C06", Tid: tid + "-pred", E: pe})
	return res
}

// prime attests the genuine certificate of d's victim key on the long-lived Attestor (an honest slot signature),
// so that the forged twins are presented to an Attestor that has accepted the identity they copy.
func (w *vWorld) prime(d *vDev, name string, tr *verifh.Trace, st *vStats06) {
	tbs := w.tbs[0]
	sig, err := rsa.SignPKCS1v15(nil, d.victim, crypto.SHA256, digestOf("sha256", tbs))
	if err != nil {
		panic(err)
	}
	k := (d.victim.N.BitLen() + 7) / 8
	em := new(big.Int).Exp(new(big.Int).SetBytes(sig), big.NewInt(int64(d.victim.E)), d.victim.N).FillBytes(make([]byte, k))
	c := vCase06{P: "C06", Kt: "rsa", Alg: 4, Rel: "root", Time: "valid", Sf: "canon", H0: "sha256", N0: true, Mut: "prime", Em: abstractEM(em, tbs, "sha256")}
	ev := &vE06{vCase06: c, K: k, Hist: "used", Src: "B-prime"}
	ev.Res = w.attest(d.genuine, &x509.Certificate{RawTBSCertificate: tbs, Signature: sig, SignatureAlgorithm: x509.SHA256WithRSA})
	st.note(ev)
	st.mu.Lock()
	st.B++
	if ev.Res.Acc {
		st.Primed++
	}
	st.mu.Unlock()
	tr.Emit(vEvent{Ev: "step", P: "C06", Tid: "prime-" + name, E: ev})
}

// ---------------------------------------------------------------------------------------------
// encoded messages

func digestOf(h string, b []byte) []byte {
	switch h {
	case "md5":
		x := md5.Sum(b)
		return x[:]
	case "sha1":
		x := sha1.Sum(b)
		return x[:]
	case "sha224":
		x := sha256.Sum224(b)
		return x[:]
	case "sha256":
		x := sha256.Sum256(b)
		return x[:]
	case "sha384":
		x := sha512.Sum384(b)
		return x[:]
	case "sha512":
		x := sha512.Sum512(b)
		return x[:]
	}
	panic("hash " + h)
}

var allHashes = []string{"md5", "sha1", "sha224", "sha256", "sha384", "sha512"}

func special(b byte) bool { return b == 0 || b == 1 || b == 0xff }

// an octet of the class; "xx" = a value that is none of 00, 01, FF and differs from orig
func classByte(c string, orig int, r *mrand.Rand, max int) byte {
	switch c {
	case "00":
		return 0
	case "01":
		return 1
	case "FF":
		return 0xff
	}
	for {
		v := 2 + r.Intn(max-2)
		if v != orig {
			return byte(v)
		}
	}
}

// buildEM lays the abstract message over k octets; tbs must be chosen so that the digest octet to be replaced
// is itself none of 00/01/FF (pickTBS).
func buildEM(em vEM, k int, tbs []byte, r *mrand.Rand) []byte {
	return buildEMLead(em, k, tbs, r, 0x80)
}

// buildEMLead: leadMax bounds an "other" lead octet (it must stay below the top octet of the modulus)
func buildEMLead(em vEM, k int, tbs []byte, r *mrand.Rand, leadMax int) []byte {
	dg := digestOf(em.Dgh, tbs)
	if em.Dgj > 0 {
		dg[em.Dgj-1] = classByte(em.Dgv, int(dg[em.Dgj-1]), r, 255)
	} else if em.Dgj < 0 {
		t2 := append([]byte{}, tbs...)
		t2[r.Intn(len(t2))] ^= 1 << uint(r.Intn(8))
		dg = digestOf(em.Dgh, t2)
	}
	var T []byte
	for _, v := range em.Pfx {
		if v < 0 {
			T = append(T, classByte("xx", em.Xo, r, 255))
		} else {
			T = append(T, byte(v))
		}
	}
	T = append(T, dg...)
	lead := classByte(em.Lead, 0, r, leadMax) // an "other" lead octet below 0x80 keeps the message below the modulus
	bt := classByte(em.Bt, 1, r, 255)
	sep := classByte(em.Sep, 0, r, 255)
	ps := func(n int) []byte {
		p := bytes.Repeat([]byte{0xff}, n)
		if n > 0 {
			p[0] = classByte(em.Psf, 255, r, 255)
		}
		if n > 2 {
			p[1+r.Intn(n-2)] = classByte(em.Psm, 255, r, 255)
			p[n-1] = classByte(em.Psl, 255, r, 255)
		}
		return p
	}
	n := k - 3 - len(T)
	var out []byte
	cat := func(parts ...[]byte) {
		for _, p := range parts {
			out = append(out, p...)
		}
	}
	switch em.Shape {
	case "full":
		cat([]byte{lead, bt}, ps(n), []byte{sep}, T)
	case "short_tail":
		cat([]byte{lead, bt}, ps(n-1), []byte{sep}, T, []byte{classByte("xx", -1, r, 255)})
	case "short_head":
		cat([]byte{lead, 0, bt}, ps(n-1), []byte{sep}, T)
	case "long_tail":
		cat([]byte{lead, bt}, ps(n+1), []byte{sep}, T[:len(T)-1])
	case "long_head":
		cat([]byte{bt}, ps(n+1), []byte{sep}, T)
	case "ps7":
		cat(make([]byte, n-7), []byte{lead, bt}, ps(7), []byte{sep}, T)
	case "ps0":
		cat(make([]byte, n), []byte{lead, bt}, []byte{sep}, T)
	case "zero3", "zero10", "zerohead":
		cat([]byte{lead, bt}, ps(n), []byte{sep}, T)
		z := map[string]int{"zero3": 3, "zero10": 10, "zerohead": k - len(T)}[em.Shape]
		for i := 0; i < z; i++ {
			out[i] = 0
		}
	case "bb06":
		g := make([]byte, n-8)
		r.Read(g)
		cat([]byte{lead, bt}, ps(8), []byte{sep}, T, g)
	default:
		panic("shape " + em.Shape)
	}
	if len(out) != k {
		panic(fmt.Sprintf("encoded message of %d octets for k=%d (%s)", len(out), k, em.Shape))
	}
	return out
}

func (w *vWorld) pickTBS(em vEM, r *mrand.Rand) []byte {
	off := r.Intn(len(w.tbs))
	for i := range w.tbs {
		t := w.tbs[(off+i)%len(w.tbs)]
		if em.Dgj <= 0 || !special(digestOf(em.Dgh, t)[em.Dgj-1]) {
			return t
		}
	}
	panic("no to-be-signed bytes with a suitable digest octet")
}

// rsaRoot returns s with s^e = m (mod N), computed with the private key by the CRT; nil if m >= N.
func rsaRoot(priv *rsa.PrivateKey, em []byte) *big.Int {
	m := new(big.Int).SetBytes(em)
	if m.Cmp(priv.N) >= 0 {
		return nil
	}
	p, q := priv.Primes[0], priv.Primes[1]
	m1 := new(big.Int).Exp(m, priv.Precomputed.Dp, p)
	m2 := new(big.Int).Exp(m, priv.Precomputed.Dq, q)
	h := new(big.Int).Sub(m1, m2)
	h.Mul(h, priv.Precomputed.Qinv)
	h.Mod(h, p)
	s := h.Mul(h, q)
	s.Add(s, m2)
	chk := new(big.Int).Exp(s, big.NewInt(int64(priv.E)), priv.N)
	if chk.Cmp(m) != 0 {
		panic("harness arithmetic: s^e != EM")
	}
	return s
}

func sigBytes(s *big.Int, priv *rsa.PrivateKey, sf string) []byte {
	k := (priv.N.BitLen() + 7) / 8
	switch sf {
	case "lead0":
		return append([]byte{0, 0}, s.FillBytes(make([]byte, k))...)
	case "plusN":
		return new(big.Int).Add(s, priv.N).Bytes()
	}
	return s.FillBytes(make([]byte, k))
}

func clsOf(b byte) string {
	switch b {
	case 0:
		return "00"
	case 1:
		return "01"
	case 0xff:
		return "FF"
	}
	return "xx"
}

// abstractEM projects a concrete encoded message (as the verifier will compute it) to the abstract layout.
func abstractEM(em []byte, tbs []byte, labelHash string) vEM {
	rnd := vEM{Shape: "random", Lead: "00", Bt: "00", Psf: "00", Psm: "00", Psl: "00", Sep: "00", Pfx: []int{}, Xo: -1, Dgh: "none", Dgv: "00"}
	k := len(em)
	i := 2
	for i < k && em[i] == 0xff {
		i++
	}
	if i >= k || em[i] != 0 || i-2 < 8 {
		return rnd
	}
	T := em[i+1:]
	out := vEM{Shape: "full", Lead: clsOf(em[0]), Bt: clsOf(em[1]), Psf: "FF", Psm: "FF", Psl: "FF", Sep: "00", Xo: -1, Dgv: "00", Pfx: []int{}}
	found := ""
	for _, h := range allHashes {
		d := digestOf(h, tbs)
		if len(T) >= len(d) && bytes.Equal(T[len(T)-len(d):], d) && (found == "" || h == labelHash) {
			found = h
		}
	}
	hl := 0
	if found != "" {
		out.Dgh, hl = found, len(digestOf(found, tbs))
	} else if labelHash != "none" && labelHash != "" {
		out.Dgh, out.Dgj, hl = labelHash, -1, len(digestOf(labelHash, tbs))
	} else {
		return rnd
	}
	if len(T) < hl {
		return rnd
	}
	for _, b := range T[:len(T)-hl] {
		out.Pfx = append(out.Pfx, int(b))
	}
	return out
}

func labelHash(a int) string {
	switch a {
	case 3, 7, 9:
		return "sha1"
	case 4, 8, 10:
		return "sha256"
	case 5, 11:
		return "sha384"
	case 6, 12:
		return "sha512"
	}
	return "none"
}

func rsaLabel(h string) int {
	return map[string]int{"sha1": 3, "sha256": 4, "sha384": 5, "sha512": 6}[h]
}

func cryptoHash(h string) crypto.Hash {
	return map[string]crypto.Hash{"md5": crypto.MD5, "sha1": crypto.SHA1, "sha224": crypto.SHA224, "sha256": crypto.SHA256, "sha384": crypto.SHA384, "sha512": crypto.SHA512}[h]
}

// ---------------------------------------------------------------------------------------------

type vStats06 struct {
	mu             sync.Mutex
	Events         int            `json:"events"`
	A              int            `json:"a_cases"`
	B              int            `json:"b_cases"`
	Calls          int            `json:"a_calls"`
	Primed         int            `json:"primed"`
	Epoch0         int            `json:"epoch0_calls"`
	Epoch1         int            `json:"epoch1_calls"`
	Epoch1Acc      int            `json:"epoch1_accepted"`
	EpochDiscarded int            `json:"epoch_instances_discarded"`
	Pred           int            `json:"predecessors"`
	PredAcc        int            `json:"predecessors_accepted"`
	Cross          int            `json:"cross_cases"`
	CrossAcc       int            `json:"cross_accepted"`
	TwinCalls      int            `json:"twin_calls_on_used"`
	Unreal         int            `json:"unrealisable"`
	UnrealOdd      int            `json:"unrealisable_odd"`
	OddAcc         int            `json:"odd_accepted"`
	Accepted       int            `json:"accepted"`
	Panics         int            `json:"panics"`
	Distinct       map[string]int `json:"-"`
	NDist          int            `json:"distinct"`
	KeyGenS        float64        `json:"keygen_s"`
	Bits           []int          `json:"bits"`
}

func (s *vStats06) note(e *vE06) {
	if e.Via == "" {
		e.Via = "value"
	}
	if e.Sch == "" {
		if e.Kt == "rsa" {
			e.Sch = "pkcs1"
		} else {
			e.Sch = "other"
		}
	}
	s.mu.Lock()
	defer s.mu.Unlock()
	s.Events++
	if e.Res.Acc {
		s.Accepted++
	}
	if e.Res.Pan {
		s.Panics++
	}
	key := fmt.Sprintf("%s|%d|%s|%s|%s|%s|%s|%d|%s|%s|%s|%s|%s|%v|%s|%d|%s|%v|%d", e.Kc, e.Now, e.Via, e.Lab, e.Sch, e.Hist, e.Kt, e.Alg, e.Rel, e.Time, e.Sf, e.Mut, e.Em.Shape, e.Em.Pfx, e.Em.Dgh, e.Em.Dgj, e.Em.Lead+e.Em.Bt+e.Em.Psf+e.Em.Psm+e.Em.Psl+e.Em.Sep+e.Em.Dgv, e.Res, e.K)
	s.Distinct[key]++
}

func TestVerifAttest06(t *testing.T) {
	plan := loadPlan(t).C06
	if plan == nil {
		t.Fatal("no c06 plan")
	}
	tr, err := verifh.OpenTrace(os.Getenv("VERIF_OUT"))
	if err != nil {
		t.Fatal(err)
	}
	st := &vStats06{Distinct: map[string]int{}, Bits: plan.Bits}
	t0 := time.Now()
	pregen(append(append([]int{}, plan.Bits...), plan.OddBits...))
	st.KeyGenS = time.Since(t0).Seconds()
	w := newWorld(verifh.NewRand("attest06-world", 0))
	tr.Emit(vEvent{Ev: "reset", P: "C06", Tid: "reset"})

	devs := map[string]*vDev{}
	for i, b := range plan.Bits {
		devs[fmt.Sprintf("rsa/%d", b)] = w.device("rsa", b, int64(1000*(i+1)))
	}
	for i, b := range plan.OddBits {
		devs[fmt.Sprintf("rsa/%d", b)] = w.device("rsa", b, int64(300000+1000*i))
		if got := devs[fmt.Sprintf("rsa/%d", b)].rsa.N.BitLen(); got != b {
			panic(fmt.Sprintf("harness: asked for a %d-bit modulus, got %d", b, got))
		}
	}
	devs["rsa/ff"] = w.device("rsa", -plan.Bits[0], 50000)
	for i, kt := range []string{"p256", "p384", "ed25519"} {
		devs[kt+"/0"] = w.device(kt, 0, int64(100000+1000*i))
	}

	// the genuine certificates are attested first (and again now and then), then everything else in seeded random order
	for name, d := range devs {
		w.prime(d, name, tr, st)
	}
	// time: the epoch-0 phase of the epoch instance runs now, its epoch-1 phase after everything else
	var ecases []vCase06
	var eidx []int
	for ci := range plan.Cases {
		ecases = append(ecases, plan.Cases[ci].C)
		if t := plan.Cases[ci].C.Time; t == "lapsing" || t == "becoming" {
			eidx = append(eidx, ci)
		}
	}
	var edevs []*vDev
	for _, b := range plan.Bits {
		if b >= 2048 && b <= 3072 {
			edevs = append(edevs, devs[fmt.Sprintf("rsa/%d", b)])
		}
	}
	if len(edevs) == 0 {
		edevs = append(edevs, devs[fmt.Sprintf("rsa/%d", plan.Bits[0])])
	}
	var epoch *vEpoch
	if len(eidx) > 0 {
		epoch = w.startEpoch(w.prepareEpoch(ecases, eidx, edevs), edevs, tr, st)
	}
	type job struct {
		ci   int
		bits int
	}
	jobs := make(chan job, 256)
	var all []job
	var wg sync.WaitGroup
	nw := plan.Worker
	if nw <= 0 {
		nw = 4
	}
	for wi := 0; wi < nw; wi++ {
		wg.Add(1)
		go func(wi int) {
			defer wg.Done()
			runtime.LockOSThread() // a pair of calls issued back to back stays on one thread
			defer runtime.UnlockOSThread()
			for j := range jobs {
				c := plan.Cases[j.ci].C
				r := verifh.NewRand("attest06-A", int64(j.ci)*8191+int64(j.bits))
				if c.Via == "parsed" {
					w.runCross(c, j.ci, devs[fmt.Sprintf("rsa/%d", j.bits)], r, tr, st)
				} else {
					w.runCaseA(c, j.ci, j.bits, devs, r, tr, st)
				}
			}
		}(wi)
	}
	for ci := range plan.Cases {
		if t := plan.Cases[ci].C.Time; t == "lapsing" || t == "becoming" {
			continue // run by the epoch instance
		}
		if plan.Cases[ci].C.Via == "parsed" {
			for _, b := range plan.Bits {
				if b >= 1536 && b <= 3072 { // RSASSA-PSS with SHA-512 does not fit a 1024-bit key
					all = append(all, job{ci, b})
				}
			}
		} else if plan.Cases[ci].C.Kt == "rsa" && plan.Cases[ci].C.Em.Lead == "FF" {
			all = append(all, job{ci, -1}) // needs the modulus that begins with FF
		} else if plan.Cases[ci].C.Kt == "rsa" && plan.Cases[ci].C.Kc == "odd" {
			for i, b := range plan.OddBits {
				if m := plan.Cases[ci].C.Mut; i > 0 && (m == "dg" || m == "pfx") && verifh.Tier() != "thorough" {
					continue // quick tier: the per-octet mutations of digest info and digest on the first odd size only
				}
				all = append(all, job{ci, b})
			}
		} else if plan.Cases[ci].C.Kt == "rsa" {
			for _, b := range plan.Bits {
				all = append(all, job{ci, b})
			}
		} else {
			all = append(all, job{ci, 0})
		}
	}
	sh := verifh.NewRand("attest06-order", 0)
	sh.Shuffle(len(all), func(i, j int) { all[i], all[j] = all[j], all[i] })
	for _, j := range all {
		jobs <- j
	}
	close(jobs)
	wg.Wait()
	if !plan.NoB {
		only := map[string]bool{}
		for _, o := range plan.Only {
			only[o] = true
		}
		for _, b := range plan.Bits {
			w.runB(devs[fmt.Sprintf("rsa/%d", b)], plan.NFlip, only, tr, st)
		}
		w.runBNonRSA(devs, only, tr, st)
	}
	if epoch != nil {
		epoch.finish(tr, st)
	}
	if err := tr.Close(); err != nil {
		t.Fatal(err)
	}
	st.NDist = len(st.Distinct)
	js, _ := json.Marshal(st)
	fmt.Printf("VERIF-SUMMARY %s\n", js)
}

func (w *vWorld) runCaseA(c vCase06, ci, bits int, devs map[string]*vDev, r *mrand.Rand, tr *verifh.Trace, st *vStats06) {
	ev := &vE06{vCase06: c, Src: "A"}
	tid := fmt.Sprintf("a%d-%d", ci, bits)
	var dev *vDev
	var sig, tbs []byte
	if c.Kt == "rsa" {
		dev = devs[fmt.Sprintf("rsa/%d", bits)]
		if bits < 0 {
			dev = devs["rsa/ff"]
			tid = fmt.Sprintf("a%d-ff", ci)
		}
		ev.K = (dev.rsa.N.BitLen() + 7) / 8
		tbs = w.pickTBS(c.Em, r)
		leadMax := int(dev.rsa.N.Bytes()[0])
		if leadMax > 0x80 {
			leadMax = 0x80
		}
		var s *big.Int
		if !(c.Em.Lead == "xx" && leadMax <= 3) {
			s = rsaRoot(dev.rsa, buildEMLead(c.Em, ev.K, tbs, r, leadMax))
		}
		if s == nil { // the message is not below this modulus: no signature value can produce it
			st.mu.Lock()
			if dev.rsa.N.BitLen()%8 != 0 {
				st.UnrealOdd++ // a modulus with a partly used top octet leaves little room in the lead octet
			} else {
				st.Unreal++
			}
			st.mu.Unlock()
			return
		}
		sig = sigBytes(s, dev.rsa, c.Sf)
	} else {
		dev = devs[c.Kt+"/0"]
		tbs = w.tbs[r.Intn(len(w.tbs))]
		if c.Sf == "honest" {
			sig = honestNonRSA(dev.sig, tbs)
		} else {
			sig = make([]byte, 256)
			r.Read(sig)
		}
	}
	slot := &x509.Certificate{RawTBSCertificate: tbs, Signature: sig, SignatureAlgorithm: x509.SignatureAlgorithm(c.Alg)}
	dc := dev.certs[c.Rel+"/"+c.Time]
	if dc == nil {
		panic("harness: no device certificate for " + c.Rel + "/" + c.Time)
	}
	st.mu.Lock()
	st.A++
	st.mu.Unlock()
	// the same call on the long-lived Attestor (after whatever was attested before, concurrently with other calls),
	// on a fresh one, and on the long-lived one once more: each call is its own event
	for i, h := range []string{"used", "fresh", "used", "after_accept", "after_accept"} {
		if i == 2 && r.Intn(4) != 0 && c.Rel != "twin_self" && c.Rel != "twin_otherca" {
			continue
		}
		if h == "after_accept" && (c.Kt != "rsa" || (i == 4 && (c.Mut == "none" || c.Mut == "dg" || c.Mut == "pfx" || c.Mut == "pfxother" || c.Mut == "dgother"))) {
			continue // the pair is repeated for every mutation of the layout in front of the digest info (header, padding, separator, shape)
		}
		e2 := *ev
		e2.Hist = h
		switch h {
		case "fresh":
			e2.Res = w.attestOn(yubiattest.NewAttestorWithCAPool(w.pool), dc, slot)
		case "after_accept":
			e2.Res = w.afterAccept(dev, dc, slot, fmt.Sprintf("%s-%d", tid, i), tr, st)
		default:
			e2.Res = w.attest(dc, slot)
		}
		st.note(&e2)
		st.mu.Lock()
		st.Calls++
		if c.Kc == "odd" && e2.Res.Acc {
			st.OddAcc++
		}
		if h == "used" && (c.Rel == "twin_self" || c.Rel == "twin_otherca") {
			st.TwinCalls++
		}
		st.mu.Unlock()
		tr.Emit(vEvent{Ev: "step", P: "C06", Tid: fmt.Sprintf("%s-%s%d", tid, h[:1], i), E: &e2})
	}
}

func honestNonRSA(s crypto.Signer, tbs []byte) []byte {
	switch k := s.(type) {
	case *ecdsa.PrivateKey:
		var d []byte
		if k.Curve == elliptic.P384() {
			d = digestOf("sha384", tbs)
		} else {
			d = digestOf("sha256", tbs)
		}
		sig, err := ecdsa.SignASN1(crand.Reader, k, d)
		if err != nil {
			panic(err)
		}
		return sig
	case ed25519.PrivateKey:
		return ed25519.Sign(k, tbs)
	}
	panic("signer")
}

var noEM = vEM{Shape: "none", Lead: "00", Bt: "00", Psf: "00", Psm: "00", Psl: "00", Sep: "00", Pfx: []int{}, Xo: -1, Dgh: "none", Dgv: "00"}

// direction B on one RSA device key
func (w *vWorld) runB(dev *vDev, nflip int, only map[string]bool, tr *verifh.Trace, st *vStats06) {
	priv := dev.rsa
	k := (priv.N.BitLen() + 7) / 8
	e := big.NewInt(int64(priv.E))
	n := 0
	emit := func(tid string, c vCase06, src, info string, tbs, sig []byte) {
		if len(only) > 0 && !only[tid] {
			return
		}
		ev := &vE06{vCase06: c, K: k, Hist: "used", Src: src, Info: info}
		slot := &x509.Certificate{RawTBSCertificate: tbs, Signature: sig, SignatureAlgorithm: x509.SignatureAlgorithm(c.Alg)}
		ev.Res = w.attest(dev.certs[c.Rel+"/"+c.Time], slot)
		st.note(ev)
		st.mu.Lock()
		st.B++
		st.mu.Unlock()
		tr.Emit(vEvent{Ev: "step", P: "C06", Tid: tid, E: ev})
		if src == "B-sigflip" || src == "B-bodyflip" || src == "B-sigform" {
			e2 := *ev
			e2.Hist = "after_accept"
			e2.Res = w.afterAccept(dev, dev.certs[c.Rel+"/"+c.Time], slot, tid, tr, st)
			st.note(&e2)
			st.mu.Lock()
			st.B++
			st.mu.Unlock()
			tr.Emit(vEvent{Ev: "step", P: "C06", Tid: tid + "-aa", E: &e2})
		}
	}
	seen := func(sig []byte) []byte { // the encoded message the verifier computes: sig^e mod N, k octets
		m := new(big.Int).Exp(new(big.Int).SetBytes(sig), e, priv.N)
		return m.FillBytes(make([]byte, k))
	}
	for _, h := range []string{"sha1", "sha256", "sha384", "sha512"} {
		r := verifh.NewRand("attest06-B-"+h, int64(dev.bits))
		alg := rsaLabel(h)
		base := func(tbs, sig []byte, sf string) vCase06 {
			return vCase06{P: "C06", Kt: "rsa", Alg: alg, Rel: "root", Time: "valid", Sf: sf, H0: h, N0: true, Mut: "B", Em: abstractEM(seen(sig), tbs, h)}
		}
		for i := 0; i < nflip; i++ {
			n++
			tbs := w.tbs[r.Intn(len(w.tbs))]
			sig, err := rsa.SignPKCS1v15(nil, priv, cryptoHash(h), digestOf(h, tbs))
			if err != nil {
				panic(err)
			}
			pre := fmt.Sprintf("b%d-%s-%d", dev.bits, h, i)
			if i < 4 {
				emit(pre+"-honest", base(tbs, sig, "canon"), "B-honest", "", tbs, sig)
				// every label with the honest signature
				for a := 0; a <= 16; a++ {
					c := base(tbs, sig, "canon")
					c.Alg = a
					c.Em = abstractEM(seen(sig), tbs, labelHash(a))
					emit(fmt.Sprintf("%s-label%d", pre, a), c, "B-label", "", tbs, sig)
				}
				// non-canonical representatives of the same residue
				s := new(big.Int).SetBytes(sig)
				for _, sf := range []string{"lead0", "plusN"} {
					sb := sigBytes(s, priv, sf)
					emit(pre+"-"+sf, base(tbs, sb, sf), "B-sigform", "", tbs, sb)
					c := base(tbs, sb, sf)
					c.Rel, c.Time = []string{"otherca", "self", "root"}[i%3], []string{"valid", "valid", "expired"}[i%3]
					emit(pre+"-"+sf+"-badchain", c, "B-sigform", "", tbs, sb)
				}
			}
			// one bit of the signature flipped
			s2 := append([]byte{}, sig...)
			bit := r.Intn(8 * len(s2))
			s2[bit/8] ^= 1 << uint(bit%8)
			if new(big.Int).SetBytes(s2).Cmp(priv.N) < 0 {
				emit(pre+"-sigflip", base(tbs, s2, "canon"), "B-sigflip", fmt.Sprintf("bit %d", bit), tbs, s2)
			} else {
				emit(pre+"-sigflip", base(tbs, s2, "plusN"), "B-sigflip", fmt.Sprintf("bit %d (value >= N)", bit), tbs, s2)
			}
			// one bit of the body flipped
			t2 := append([]byte{}, tbs...)
			bit = r.Intn(8 * len(t2))
			t2[bit/8] ^= 1 << uint(bit%8)
			emit(pre+"-bodyflip", base(t2, sig, "canon"), "B-bodyflip", fmt.Sprintf("bit %d", bit), t2, sig)
			// truncated / extended body
			if i%8 == 0 {
				emit(pre+"-bodycut", base(tbs[:len(tbs)-1], sig, "canon"), "B-bodyflip", "last octet removed", tbs[:len(tbs)-1], sig)
				t3 := append(append([]byte{}, tbs...), 0)
				emit(pre+"-bodyext", base(t3, sig, "canon"), "B-bodyflip", "zero octet appended", t3, sig)
			}
		}
	}
}

func (w *vWorld) runBNonRSA(devs map[string]*vDev, only map[string]bool, tr *verifh.Trace, st *vStats06) {
	r := verifh.NewRand("attest06-B-nonrsa", 0)
	// an honest RSA signature of another (RSA) key presented with a non-RSA device certificate, every label
	other := devs[fmt.Sprintf("rsa/%d", func() int {
		for _, d := range devs {
			if d.kt == "rsa" {
				return d.bits
			}
		}
		return 0
	}())]
	for _, kt := range []string{"p256", "p384", "ed25519"} {
		dev := devs[kt+"/0"]
		for a := 0; a <= 16; a++ {
			tid := fmt.Sprintf("bn-%s-%d", kt, a)
			if len(only) > 0 && !only[tid] {
				continue
			}
			tbs := w.tbs[r.Intn(len(w.tbs))]
			var sig []byte
			sf := "honest"
			if a >= 3 && a <= 6 && other != nil {
				sig, _ = rsa.SignPKCS1v15(nil, other.rsa, cryptoHash(labelHash(a)), digestOf(labelHash(a), tbs))
				sf = "junk"
			} else {
				sig = honestNonRSA(dev.sig, tbs)
			}
			c := vCase06{P: "C06", Kt: kt, Alg: a, Rel: "root", Time: "valid", Sf: sf, H0: "none", Mut: "B", Em: noEM}
			ev := &vE06{vCase06: c, Hist: "used", Src: "B-nonrsa"}
			slot := &x509.Certificate{RawTBSCertificate: tbs, Signature: sig, SignatureAlgorithm: x509.SignatureAlgorithm(a)}
			ev.Res = w.attest(dev.certs["root/valid"], slot)
			st.note(ev)
			st.mu.Lock()
			st.B++
			st.mu.Unlock()
			tr.Emit(vEvent{Ev: "step", P: "C06", Tid: tid, E: ev})
		}
	}
}
