SPECIFICATION Spec
CONSTANTS
  TPs <- TPt
  Usages <- Ut
  Vers <- Vt
  Kinds <- K05
INVARIANT Inv_C05 Inv_Strict
PROPERTIES P_C05 P_Strict
ACTION_CONSTRAINT EmitCase
CHECK_DEADLOCK FALSE
