SPECIFICATION Spec
CONSTANTS
  Sc1 <- C01t_Sc1
  Sc2 <- C01t_Sc2
  PreAgents <- Pre2
  MaxRuns = 3
  MaxFaults = 1
  AgentFaultKinds = {"fail", "garbage", "close"}
  AgentFaultPts = {"chal", "ins"}
  CAFaultKinds = {"err"}
  HPanicMethods = {"auth", "name", "gen"}
  RemovePick <- MCRemovePick
INVARIANT TypeOK ReplayNeverAuthenticates
PROPERTIES P_C01
CHECK_DEADLOCK FALSE
