SPECIFICATION Spec
CONSTANTS
  Keys = {"k1"}
  Certs <- U2Certs
  CertKey <- U2CertKey
  V0 <- U2V0
  V1 <- U2V1
  Yss <- U2Yss
  Pass = {"p1"}
  Modes = {TRUE, FALSE}
  Ops <- OpsFault
  FaultKinds = {"fail", "garbage", "wrongkind", "oversize", "close"}
VIEW View
INVARIANT TypeOK
PROPERTIES P_C07 P_C08 P_C09 P_C10
PROPERTY P_FaultRefines
CHECK_DEADLOCK FALSE
