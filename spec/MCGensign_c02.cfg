SPECIFICATION Spec
CONSTANTS
  Sc1 <- C02_Sc1
  Sc2 <- C02_Sc2
  PreAgents <- Pre1
  MaxRuns = 3
  MaxFaults = 0
  AgentFaultKinds = {}
  AgentFaultPts = {}
  CAFaultKinds = {}
  HPanicMethods = {}
  RemovePick <- MCRemovePick
INVARIANT TypeOK ReplayNeverAuthenticates
PROPERTIES P_C02
CHECK_DEADLOCK FALSE
