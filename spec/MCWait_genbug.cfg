SPECIFICATION Spec
CONSTANTS
  Waiters = {"w1", "w2"}
  Codes = {11, 40}
  TableSize = 40
  WaitCode = 35
  Vias = {FALSE}
  MaxReq = 4
  MaxBatch = 1
  Hist = FALSE
  Reps = {1}
  CountHist = TRUE
  GenBug = TRUE
  GenMod = 3
  Deliveries = {"single"}
  SplitReg = FALSE
INVARIANTS TypeOK Partition
PROPERTIES P_C20
CHECK_DEADLOCK FALSE
