----------------------------- MODULE AgentWire -----------------------------
(***************************************************************************)
(* agent/yubiagent: the served side (ServeAgent) as a consumer of an       *)
(* abstract byte stream (property C12) and the client <-> server RPC layer *)
(* (property C13).                                                         *)
(*                                                                         *)
(* Part 1 (wire).  A stream is a sequence of items:                        *)
(*   frame    a complete frame; code, length class "0" / "1" / "n" (n > 1) *)
(*            and body class none / valid / invalid / unknown              *)
(*   oversize a length prefix above 16 MiB (up to 2^32-1), bytes follow    *)
(*   tprefix  1..3 bytes of a length prefix, then end of stream            *)
(*   tbody    a length prefix <= 16 MiB and fewer body bytes, then end     *)
(*   eof      clean end of stream between frames                           *)
(* One action (Consume) per item, plus the environment action Release      *)
(* (a request with the waited code arrives on another connection).         *)
(* Where the property statement leaves a choice ("either answers or ends   *)
(* that connection with an error") Consume is nondeterministic.            *)
(*                                                                         *)
(* Part 2 (rpc).  Operations of the extended agent interface invoked       *)
(* through the client: CodeOf[op] on the wire, HandlerOf[code] on the      *)
(* server, the argument fields carried by each encoding, an abstract       *)
(* served agent (Apply) reached through the wire (ag) and directly (dag).  *)
(*                                                                         *)
(* C12_Step / C13_Step are step formulas over (vars, vars', label'); they  *)
(* are model-checked here and evaluated on every recorded step of the      *)
(* implementation in TraceWire.tla.                                        *)
(***************************************************************************)
EXTENDS Integers, Sequences, FiniteSets, TLC

CONSTANTS Codes,      \* message codes explored by the bounded wire model (subset of 0..255)
          MaxItems,   \* maximal number of items of a stream (including the terminal item)
          Faults,     \* BOOLEAN: the underlying agent may fail on a forwarded request
          RKeys,      \* key ids of the bounded rpc model
          RPass,      \* passphrases of the bounded rpc model
          MaxHist,    \* length of operation histories of the bounded rpc model
          MaxLines,   \* maximal number of lines of PIV tool output in the bounded rpc model
          BigResp,    \* BOOLEAN: the bounded wire model also asks for responses next to / above 16 MiB
          MaxConns,   \* maximal number of concurrent connections to one server in the bounded model (part 3)
          MaxCItems   \* maximal number of request frames per connection in part 3

VARIABLES stream, pos, out, status, last,      \* wire part
          ag, dag, remote, hist, rlast,        \* rpc part
          cs, clast                            \* several connections to one server (part 3)

wvars == <<stream, pos, out, status, last>>
rvars == <<ag, dag, remote, hist, rlast>>
cvars == <<cs, clast>>
vars  == <<stream, pos, out, status, last, ag, dag, remote, hist, rlast, cs, clast>>

---------------------------------------------------------------------------
\* dispatch of ServeAgent by message code
AllCodes == 0..255
StdNoArg == {1, 11, 19}                       \* requests without arguments
StdArg   == {13, 17, 18, 22, 23, 25}          \* requests with arguments
Std      == StdNoArg \cup StdArg              \* the nine requests replayed into the standard agent server
DispatchOf[c \in AllCodes] ==
  CASE c \in Std          -> "std"
    [] c = 31             -> "ahc"
    [] c \in {32, 33, 34} -> "slot"
    [] c = 35             -> "wait"
    [] OTHER              -> "fwd"
WaitImmediate(w) == w >= 40                   \* Wait(w) returns at once for codes outside the condition table

---------------------------------------------------------------------------
\* Part 1: items
Item(k, c, l, b, a) == [k |-> k, code |-> c, len |-> l, body |-> b, aux |-> a]
F(c, l, b, a) == Item("frame", c, l, b, a)
\* Response sizes.  A forwarded request is answered with whatever the underlying agent answered; the size of that
\* response is part of the input space (aux "r..." = the underlying agent answers this request with a response of a
\* size of that class; the harness walks every size of the class): around the buffer sizes a framing layer is likely
\* to use (4 KiB, 64 KiB: the sizes themselves, the sizes minus the 4-byte prefix, and their neighbours) and around
\* the 16 MiB bound.  A response above the bound cannot be relayed: like a failing underlying agent ("rover").
RespSizes == [a \in {"rtiny", "r4k", "r64k", "r16m", "rover"} |->
  CASE a = "rtiny" -> {0, 1, 2, 5} [] a = "r4k" -> 4091..4098 [] a = "r64k" -> 65531..65540
    [] a = "r16m" -> 16777212..16777216 [] OTHER -> {16777217}]
RespAux == {"rtiny", "r4k", "r64k"} \cup (IF BigResp THEN {"r16m", "rover"} ELSE {})
KillsUnderlying(it) == it.aux \in {"ufail", "rover"}
FramesOf(c) ==
  CASE c \in StdNoArg -> {F(c, "1", "none", "none"), F(c, "n", "unknown", "none")}
    [] c \in StdArg   -> {F(c, "1", "none", "none"), F(c, "n", "valid", "none"), F(c, "n", "invalid", "none"), F(c, "n", "unknown", "none")}
    [] c = 31         -> {F(c, "1", "none", "none"), F(c, "n", "valid", "legacy"), F(c, "n", "valid", "struct"),
                          F(c, "n", "invalid", "none"), F(c, "n", "unknown", "none")}
    [] c = 32         -> {F(c, "1", "none", "none"), F(c, "n", "unknown", "none")}
    [] c \in {33, 34} -> {F(c, "1", "none", "none"), F(c, "n", "valid", "none"), F(c, "n", "unknown", "none")}
    [] c = 35         -> {F(c, "1", "none", "none"), F(c, "n", "valid", "imm"), F(c, "n", "valid", "pend"), F(c, "n", "unknown", "imm")}
    [] OTHER          -> {F(c, "1", "none", "none"), F(c, "n", "unknown", "none")}
                           \cup (IF Faults THEN {F(c, "n", "unknown", "ufail")} ELSE {})
                           \cup {F(c, "n", "unknown", a) : a \in RespAux}
NonTerm == UNION {FramesOf(c) : c \in Codes} \cup {F(-1, "0", "none", "none"), Item("oversize", -1, "big", "none", "none")}
Term    == {Item("eof", -1, "none", "none", "none")}
           \cup {Item("tprefix", -1, n, "none", "none") : n \in {"p1", "p2", "p3"}}
           \cup {Item("tbody", -1, "n", "none", "none"), Item("tbody", -2, "n", "none", "none")}   \* -1: no body byte present, -2: some
Streams == {p \o <<t>> : p \in UNION {[1..n -> NonTerm] : n \in 0..(MaxItems - 1)}, t \in Term}

\* a complete frame whose body is well formed for its code: it must receive exactly one response
WellFormed(it) ==
  /\ it.k = "frame" /\ it.len # "0" /\ it.code \in AllCodes /\ ~KillsUnderlying(it)
  /\ LET d == DispatchOf[it.code] IN
     CASE d = "std"  -> \/ it.len = "1" /\ it.code \in StdNoArg
                        \/ it.len = "n" /\ it.body = "valid" /\ it.code \in StdArg
       [] d = "ahc"  -> it.len = "n" /\ it.body = "valid"
       [] d = "slot" -> \/ it.code = 32 /\ it.len = "1"
                        \/ it.code # 32 /\ it.len = "n" /\ it.body = "valid"
       [] d = "wait" -> it.len = "n" /\ it.body = "valid"
       [] OTHER      -> TRUE      \* forwarded raw: the (working) underlying agent answers every request once
\* a wait request for a code of the condition table: answered when that code is next requested on another connection
Pending(it) == it.k = "frame" /\ it.code = 35 /\ it.len = "n" /\ it.aux = "pend"

NoItem == Item("none", -1, "none", "none", "none")
WL(i, it, n, rel) == last' = [i |-> i, it |-> it, nrep |-> n, rel |-> rel, pan |-> FALSE, big |-> FALSE]

WInit == /\ stream \in Streams /\ pos = 1 /\ out = <<>> /\ status = "running"
         /\ last = [i |-> 0, it |-> NoItem, nrep |-> 0, rel |-> FALSE, pan |-> FALSE, big |-> FALSE]

Reply(it) == /\ out' = Append(out, pos) /\ status' = "running" /\ WL(pos, it, 1, FALSE)
EndErr(it) == /\ out' = out /\ status' = "err" /\ WL(pos, it, 0, FALSE)

Consume ==
  /\ status = "running" /\ pos <= Len(stream)
  /\ pos' = pos + 1 /\ stream' = stream
  /\ LET it == stream[pos] IN
     CASE it.k = "eof"      -> out' = out /\ status' = "ok" /\ WL(pos, it, 0, FALSE)
       [] it.k = "oversize" -> EndErr(it)                     \* refused before anything is allocated for it
       [] it.k \in {"tprefix", "tbody"} -> EndErr(it)
       [] OTHER ->  \* a complete frame
            IF Pending(it) THEN out' = out /\ status' = "waiting" /\ WL(pos, it, 0, FALSE)
            ELSE IF WellFormed(it) THEN Reply(it)
            ELSE Reply(it) \/ EndErr(it)                        \* malformed: answers or ends the connection with an error

\* environment: a request with the waited code arrives on another connection of the same server
Release ==
  /\ status = "waiting"
  /\ out' = Append(out, pos - 1) /\ status' = "running" /\ pos' = pos /\ stream' = stream
  /\ WL(pos - 1, stream[pos - 1], 1, TRUE)

WNext == Consume \/ Release

\* ---- C12 ----
\* "never crashes, never allocates for a frame declared larger than 16 MiB: answers or ends that connection
\*  with an error; every complete well-formed frame gets exactly one response, in order; clean EOF => no error"
C12_Step ==
  LET e == last' IN
  /\ ~e.pan /\ status' # "crashed"
  /\ status \in {"running", "waiting"}                 \* nothing happens on a connection after service ended
  /\ IF e.rel THEN status = "waiting" /\ e.nrep = 1 /\ status' = "running"
     ELSE /\ status = "running"
          /\ (CASE e.it.k = "eof"      -> e.nrep = 0 /\ status' = "ok"
                [] e.it.k = "oversize" -> e.nrep = 0 /\ status' = "err" /\ ~e.big
                [] e.it.k \in {"tprefix", "tbody"} -> e.nrep <= 1 /\ status' = "err"
                [] e.it.k = "frame" ->
                     IF WellFormed(e.it) THEN
                          \/ e.nrep = 1 /\ status' = "running"
                          \/ Pending(e.it) /\ e.nrep = 0 /\ status' = "waiting"
                     ELSE \/ e.nrep = 1 /\ status' = "running"
                          \/ e.nrep <= 1 /\ status' = "err"
                          \/ Pending(e.it) /\ e.nrep = 0 /\ status' = "waiting"
                [] OTHER -> FALSE)
P_C12 == [][C12_Step]_wvars

\* The same property on a whole stream, independent of how the server reads (a server may read ahead into later
\* frames before it answers the current one, so a response cannot be attributed to an item by observation):
\* the number of response frames and the end status of serving the stream `items`.  Outcomes = every pair the
\* statement allows: a well-formed frame is answered once and service goes on (a pending wait after its release);
\* a malformed frame is answered once and service goes on, or service ends with an error (at most one response);
\* oversize: ends with an error, no response; truncated prefix / body: ends with an error (at most one response);
\* clean EOF: ends without error.  Once the underlying agent is gone (a "ufail" item was passed) later forwarded
\* requests cannot be answered by it any more: they count as malformed.
RECURSIVE Outcomes(_, _, _, _)
Outcomes(items, i, n, dead) ==
  IF i > Len(items) THEN {<<n, "ok">>}          \* the stream simply ends: clean EOF
  ELSE LET it == items[i] IN
    CASE it.k = "eof"      -> {<<n, "ok">>}
      [] it.k = "oversize" -> {<<n, "err">>}
      [] it.k \in {"tprefix", "tbody"} -> {<<n, "err">>, <<n + 1, "err">>}
      [] it.k = "frame" ->
           IF WellFormed(it) /\ ~(dead /\ it.code \in AllCodes /\ DispatchOf[it.code] = "fwd")
           THEN Outcomes(items, i + 1, n + 1, dead)
           ELSE Outcomes(items, i + 1, n + 1, dead \/ KillsUnderlying(it)) \cup {<<n, "err">>, <<n + 1, "err">>}
      [] OTHER -> {}
C12_Stream(items, nrep, st, pan, big) == ~pan /\ ~big /\ <<nrep, st>> \in Outcomes(items, 1, 0, FALSE)
\* Responses whose content is known (a forwarded request that the underlying agent answers with a response of a given
\* size) must arrive as intact frames with exactly that content, in request order.  SizedDue = how many of them are
\* certainly due: those with nothing but well-formed frames in front of them (so that service cannot have ended).
SizedDue(items) == Cardinality({i \in 1..Len(items) : /\ items[i].k = "frame" /\ items[i].aux \in DOMAIN RespSizes
                                                     /\ \A j \in 1..i : items[j].k = "frame" /\ WellFormed(items[j])})
C12_Sized(items, sizedok) == sizedok >= SizedDue(items)
\* the design's runs end inside the allowed outcomes of their stream
Inv_Stream == (status \in {"ok", "err"}) => C12_Stream(stream, Len(out), status, FALSE, FALSE)

\* state invariants of the wire design
WfIdx == {i \in 1..(pos - 1) : WellFormed(stream[i]) /\ ~(status = "waiting" /\ i = pos - 1)}
Inv_NoCrash == status # "crashed"
Inv_Count ==     \* exactly one response per well-formed frame consumed, at most one per other item, in request order
  /\ \A i \in WfIdx : Cardinality({j \in DOMAIN out : out[j] = i}) = 1
  /\ \A i \in 1..Len(stream) : Cardinality({j \in DOMAIN out : out[j] = i}) <= 1
  /\ \A j \in DOMAIN out : j > 1 => out[j - 1] < out[j]
  /\ \A j \in DOMAIN out : stream[out[j]].k = "frame"
Inv_End ==
  /\ (status = "ok")  => (pos > 1 /\ stream[pos - 1].k = "eof")
  /\ (pos > 1 /\ stream[pos - 1].k \in {"oversize", "tprefix", "tbody"}) => status = "err"
  /\ (status = "running" /\ pos > 1) => stream[pos - 1].k = "frame"
WTypeOK == /\ pos \in 1..(Len(stream) + 1) /\ status \in {"running", "waiting", "ok", "err"}
           /\ (status = "waiting" => (pos > 1 /\ Pending(stream[pos - 1])))

---------------------------------------------------------------------------
\* Part 2: the RPC layer
Ops == {"list", "sign", "add", "addc", "remove", "removeall", "lock", "unlock", "signers", "ahc_s", "ahc_l",
        "listslots", "readslot", "attestslot", "wait", "forward", "addsc", "rmsc"}
SlotOps == {"listslots", "readslot", "attestslot"}
\* message code written by the client ("forward": the first byte of the raw request, any code of the forwarded class)
CodeOf == [op \in Ops |->
  CASE op \in {"list", "signers"} -> 11 [] op = "sign" -> 13 [] op = "add" -> 17 [] op = "addc" -> 25
    [] op = "remove" -> 18 [] op = "removeall" -> 19 [] op = "lock" -> 22 [] op = "unlock" -> 23
    [] op \in {"ahc_s", "ahc_l"} -> 31 [] op = "listslots" -> 32 [] op = "readslot" -> 33
    [] op = "attestslot" -> 34 [] op = "wait" -> 35 [] op = "addsc" -> 26 [] op = "rmsc" -> 21
    [] OTHER -> 27]
\* method of the served agent that must see the operation
MethodOf == [op \in Ops |->
  CASE op \in {"list", "signers"} -> "List" [] op = "sign" -> "SignWithFlags" [] op \in {"add", "addc"} -> "Add"
    [] op = "remove" -> "Remove" [] op = "removeall" -> "RemoveAll" [] op = "lock" -> "Lock" [] op = "unlock" -> "Unlock"
    [] op \in {"ahc_s", "ahc_l"} -> "AddHardCert" [] op = "listslots" -> "ListSlots" [] op = "readslot" -> "ReadSlot"
    [] op = "attestslot" -> "AttestSlot" [] op = "wait" -> "Wait"
    [] OTHER -> "Forward"]
\* method invoked by the server for a message code (code 1 is answered by the standard server itself)
HandlerOf == [c \in AllCodes |->
  CASE c = 11 -> "List" [] c = 13 -> "SignWithFlags" [] c \in {17, 25} -> "Add" [] c = 18 -> "Remove"
    [] c = 19 -> "RemoveAll" [] c = 22 -> "Lock" [] c = 23 -> "Unlock" [] c = 1 -> "none"
    [] c = 31 -> "AddHardCert" [] c = 32 -> "ListSlots" [] c = 33 -> "ReadSlot" [] c = 34 -> "AttestSlot"
    [] c = 35 -> "Wait" [] OTHER -> "Forward"]
\* the two tables agree with each other and with the dispatch classes of part 1
DispatchConsistent ==
  /\ \A op \in Ops : HandlerOf[CodeOf[op]] = MethodOf[op]
  /\ \A c \in AllCodes : (HandlerOf[c] = "Forward") <=> (DispatchOf[c] = "fwd")
  /\ \A c \in AllCodes : (DispatchOf[c] = "std") <=> (c \in Std)
  /\ \A o1, o2 \in Ops : (CodeOf[o1] = CodeOf[o2]) => (MethodOf[o1] = MethodOf[o2])

\* argument carriers: every argument is a record over these fields ("-" = absent)
NoArg == [key |-> "-", data |-> "-", flags |-> "-", lt |-> "-", cf |-> "-", pass |-> "-", comment |-> "-",
          slot |-> "-", w |-> "-", raw |-> "-"]
Fields == DOMAIN NoArg
Carried == [op \in Ops |->
  CASE op = "sign" -> {"key", "data", "flags"} [] op = "add" -> {"key", "comment"}
    [] op = "addc" -> {"key", "comment", "lt", "cf"} [] op = "remove" -> {"key"}
    [] op \in {"lock", "unlock"} -> {"pass"} [] op = "ahc_s" -> {"key", "comment"}
    [] op = "ahc_l" -> {"key"}                       \* the legacy encoding is the bare key blob: no comment
    [] op \in {"readslot", "attestslot"} -> {"slot"} [] op = "wait" -> {"w"}
    [] op \in {"forward", "addsc", "rmsc"} -> {"raw"}
    [] OTHER -> {}]
Proj(op, a) == [f \in Fields |-> IF f \in Carried[op] THEN a[f] ELSE "-"]
ArgsOf(op) ==
  {[NoArg EXCEPT !.key = k, !.data = d, !.flags = fl, !.lt = lt, !.cf = cf, !.pass = p, !.comment = cm, !.slot = s, !.w = w, !.raw = r] :
     k \in (IF "key" \in Carried[op] THEN RKeys ELSE {"-"}),
     d \in (IF "data" \in Carried[op] THEN {"d0", "d1"} ELSE {"-"}),
     fl \in (IF "flags" \in Carried[op] THEN {"f0", "f2", "f4"} ELSE {"-"}),
     lt \in (IF "lt" \in Carried[op] THEN {"0", "60"} ELSE {"-"}),
     cf \in (IF "cf" \in Carried[op] THEN {"n", "y"} ELSE {"-"}),
     p \in (IF "pass" \in Carried[op] THEN RPass ELSE {"-"}),
     cm \in (IF "comment" \in Carried[op] \/ op = "ahc_l" THEN {"", "c1"} ELSE {"-"}),
     s \in (IF "slot" \in Carried[op] THEN {"9a", "f9"} ELSE {"-"}),
     w \in (IF "w" \in Carried[op] THEN {"w40"} ELSE {"-"}),
     r \in (IF "raw" \in Carried[op] THEN {"r1"} ELSE {"-"})}

Encode(op, a) == [code |-> CodeOf[op], f |-> Proj(op, a)]
Decode(m)     == [h |-> HandlerOf[m.code], a |-> m.f]

\* the served agent, abstractly: held keys with their constraints, hardware certificates, lock
Res(err, val) == [err |-> err, val |-> val]
AgInit == [keys |-> {}, hard |-> {}, locked |-> FALSE, pass |-> "-"]
Apply(h, a, s) ==
  CASE h = "List"   -> [s |-> s, r |-> Res(FALSE, IF s.locked THEN {} ELSE {<<"k", x[1]>> : x \in s.keys} \cup {<<"h", x[1]>> : x \in s.hard})]
    [] h = "SignWithFlags" -> [s |-> s, r |-> IF ~s.locked /\ \E x \in s.keys : x[1] = a.key
                                              THEN Res(FALSE, {<<"sig", a.key, a.data, a.flags>>}) ELSE Res(TRUE, {})]
    [] h = "Add"    -> IF s.locked THEN [s |-> s, r |-> Res(TRUE, {})]
                       ELSE [s |-> [s EXCEPT !.keys = {x \in @ : x[1] # a.key} \cup {<<a.key, a.comment, a.lt, a.cf>>}], r |-> Res(FALSE, {})]
    [] h = "Remove" -> IF s.locked \/ ~\E x \in s.keys : x[1] = a.key THEN [s |-> s, r |-> Res(TRUE, {})]
                       ELSE [s |-> [s EXCEPT !.keys = {x \in @ : x[1] # a.key}], r |-> Res(FALSE, {})]
    [] h = "RemoveAll" -> IF s.locked THEN [s |-> s, r |-> Res(TRUE, {})]
                          ELSE [s |-> [s EXCEPT !.keys = {}, !.hard = {}], r |-> Res(FALSE, {})]
    [] h = "Lock"   -> IF s.locked THEN [s |-> s, r |-> Res(TRUE, {})]
                       ELSE [s |-> [s EXCEPT !.locked = TRUE, !.pass = a.pass], r |-> Res(FALSE, {})]
    [] h = "Unlock" -> IF ~s.locked \/ s.pass # a.pass THEN [s |-> s, r |-> Res(TRUE, {})]
                       ELSE [s |-> [s EXCEPT !.locked = FALSE, !.pass = "-"], r |-> Res(FALSE, {})]
    [] h = "AddHardCert" -> IF s.locked THEN [s |-> s, r |-> Res(TRUE, {})]
                            ELSE [s |-> [s EXCEPT !.hard = @ \cup {<<a.key, a.comment>>}], r |-> Res(FALSE, {})]
    [] h = "Wait"    -> [s |-> s, r |-> Res(FALSE, {})]
    [] h = "Forward" -> [s |-> s, r |-> Res(FALSE, {<<"reply", a.raw>>})]
    [] h \in {"ReadSlot", "AttestSlot"} -> [s |-> s, r |-> IF remote THEN Res(TRUE, {}) ELSE Res(FALSE, {<<h, a.slot>>})]
    [] OTHER -> [s |-> s, r |-> Res(TRUE, {})]

\* PIV tool status output: a line is described by whether it begins with "Slot", with "Slot " (with the blank),
\* its length and its characters 6-7.  Slots(lines): for every line beginning with "Slot " and of length >= 7 the
\* characters 6-7, in order.  Other lines beginning with "Slot" are unspecified (may contribute one element or none).
Line(p, s, n, c) == [p |-> p, s |-> s, n |-> n, c |-> c]
LineOf == [t \in {"wf", "wf2", "slot4", "slot6", "slot7", "slots8", "other", "empty"} |->
  CASE t = "wf" -> Line(TRUE, TRUE, 9, "9a") [] t = "wf2" -> Line(TRUE, TRUE, 9, "9c")
    [] t = "slot4" -> Line(TRUE, FALSE, 4, "") [] t = "slot6" -> Line(TRUE, TRUE, 6, "")
    [] t = "slot7" -> Line(TRUE, TRUE, 7, "9a") [] t = "slots8" -> Line(TRUE, FALSE, 8, ": ")
    [] t = "other" -> Line(FALSE, FALSE, 12, "") [] OTHER -> Line(FALSE, FALSE, 0, "")]
Specified(ln)   == ln.s /\ ln.n >= 7
Unspecified(ln) == ln.p /\ ~Specified(ln)
RECURSIVE SlotsMatch(_, _, _, _)
SlotsMatch(lines, i, res, j) ==      \* can lines[i..] have produced res[j..] ?
  IF i > Len(lines) THEN j > Len(res)
  ELSE IF Specified(lines[i]) THEN j <= Len(res) /\ res[j] = lines[i].c /\ SlotsMatch(lines, i + 1, res, j + 1)
  ELSE IF Unspecified(lines[i]) THEN SlotsMatch(lines, i + 1, res, j) \/ (j <= Len(res) /\ SlotsMatch(lines, i + 1, res, j + 1))
  ELSE SlotsMatch(lines, i + 1, res, j)
SlotsOK(lines, res) == SlotsMatch(lines, 1, res, 1)
RECURSIVE SlotResults(_)
SlotResults(lines) ==               \* all results the specification allows (bounded model only)
  IF lines = <<>> THEN {<<>>}
  ELSE LET rest == SlotResults(Tail(lines)) ln == Head(lines) IN
       IF Specified(ln) THEN {<<ln.c>> \o r : r \in rest}
       ELSE IF Unspecified(ln) THEN rest \cup {<<"??">> \o r : r \in rest}
       ELSE rest
ToolTexts == UNION {[1..n -> DOMAIN LineOf] : n \in 0..MaxLines}

\* shape of a scripted slot result of the served agent: "normal" (a result or an error), "both" (a result AND an
\* error), "neither" (no result, no error)
RLs(op, code, method, ncalls, argeq, reseq, aerr, cerr, toolran, lines, slots, exit, steq, mode, shape) ==
  rlast' = [op |-> op, code |-> code, method |-> method, ncalls |-> ncalls, argeq |-> argeq, reseq |-> reseq,
            aerr |-> aerr, cerr |-> cerr, pan |-> FALSE, remote |-> remote, toolran |-> toolran,
            lines |-> lines, slots |-> slots, exit |-> exit, steq |-> steq, mode |-> mode, shape |-> shape]
RL(op, code, method, ncalls, argeq, reseq, aerr, cerr, toolran, lines, slots, exit, steq, mode) ==
  RLs(op, code, method, ncalls, argeq, reseq, aerr, cerr, toolran, lines, slots, exit, steq, mode, "normal")

RInit == /\ ag = AgInit /\ dag = AgInit /\ remote \in BOOLEAN /\ hist = 0
         /\ rlast = [op |-> "init", code |-> -1, method |-> "", ncalls |-> 0, argeq |-> TRUE, reseq |-> TRUE, aerr |-> FALSE,
                     cerr |-> FALSE, pan |-> FALSE, remote |-> remote, toolran |-> FALSE, lines |-> <<>>, slots |-> <<>>,
                     exit |-> 0, steq |-> TRUE, mode |-> "model", shape |-> "normal"]

\* an operation through the client: encoded, dispatched by its code, decoded, applied to the served agent; the
\* same operation applied directly to a twin (dag); the caller sees the served agent's result
ViaClient(op, a) ==
  /\ op \in Ops \ {"listslots"} /\ hist < MaxHist /\ hist' = hist + 1 /\ remote' = remote
  /\ LET m == Encode(op, a)
         d == Decode(m)
         x == Apply(d.h, d.a, ag)
         y == Apply(MethodOf[op], Proj(op, a), dag) IN
     /\ ag' = x.s /\ dag' = y.s
     /\ RL(op, m.code, d.h, 1, d.a = Proj(op, a), x.r = y.r, x.r.err, x.r.err,
           op \in SlotOps /\ ~remote, <<>>, <<>>, 0, x.s = y.s, "model")

ListSlots(text, exit) ==
  /\ hist < MaxHist /\ hist' = hist + 1 /\ remote' = remote /\ ag' = ag /\ dag' = dag
  /\ LET lines == [i \in DOMAIN text |-> LineOf[text[i]]]
         h == HandlerOf[CodeOf["listslots"]] IN
     IF remote THEN RL("listslots", 32, h, 1, TRUE, TRUE, TRUE, TRUE, FALSE, lines, <<>>, exit, TRUE, "model")
     ELSE IF exit # 0 THEN RL("listslots", 32, h, 1, TRUE, TRUE, TRUE, TRUE, TRUE, lines, <<>>, exit, TRUE, "model")
     ELSE \E r \in SlotResults(lines) : RL("listslots", 32, h, 1, TRUE, TRUE, FALSE, FALSE, TRUE, lines, r, exit, TRUE, "model")

\* a served agent (any YubiAgent, e.g. the recording agent) answers a slot operation with a result, an error, both or
\* neither; ServeAgent transmits what it got; an error of the agent is an error for the caller whatever came along;
\* "neither" is unspecified for read / attest (no certificate to return), an empty listing for list-slots
SlotReply(op, shape) ==
  /\ op \in SlotOps /\ hist < MaxHist /\ hist' = hist + 1 /\ remote' = remote /\ ag' = ag /\ dag' = dag
  /\ LET aerr == shape \in {"err", "both"} IN
     \E cerr \in BOOLEAN :
       /\ (shape = "neither" /\ op # "listslots") \/ cerr = aerr
       /\ RLs(op, CodeOf[op], HandlerOf[CodeOf[op]], 1, TRUE, ~aerr, aerr, cerr, FALSE, <<>>, <<>>, 0, TRUE, "modelrec",
              IF shape \in {"both", "neither"} /\ ~(shape = "neither" /\ op = "listslots") THEN shape ELSE "normal")

RNext == \/ \E op \in Ops \ {"listslots"} : \E a \in ArgsOf(op) : ViaClient(op, a)
         \/ \E op \in SlotOps, sh \in {"ok", "err", "both", "neither"} : SlotReply(op, sh)
         \/ \E t \in ToolTexts, x \in {0, 1} : ListSlots(t, x)

\* ---- C13 ----
\* "the served agent receives the same arguments and the caller receives the same result, failures reported as
\*  errors; slot listing = the two characters after 'Slot ' of every such line, in order, never a crash; slot
\*  operations on a remote-mode server are refused"
C13_Step ==
  LET e == rlast' IN
  /\ ~e.pan
  /\ e.op \in Ops
  /\ (e.mode \in {"model", "modelrec", "rec"}) =>      \* a recording agent behind ServeAgent: what it saw, what the caller saw
        /\ e.method = MethodOf[e.op] /\ e.ncalls = 1
        /\ (e.op # "forward" => e.code = CodeOf[e.op]) /\ (e.op = "forward" => (e.code \in AllCodes /\ DispatchOf[e.code] = "fwd"))
        /\ e.argeq
        /\ e.aerr => e.cerr                       \* a failure is reported as an error, whatever result came along with it
        /\ (~e.aerr /\ e.shape # "neither") => (~e.cerr /\ e.reseq)
  /\ (e.mode \in {"model", "real", "tool"} /\ e.op \in SlotOps /\ e.remote) => (e.cerr /\ ~e.toolran)
  /\ (e.mode \in {"model", "tool"} /\ e.op \in SlotOps /\ ~e.remote) =>
        /\ e.argeq                                   \* whenever the tool ran it was asked for this action and this slot
        /\ ~e.toolran => (e.aerr /\ e.cerr)         \* not running it is a refusal: an error that reaches the caller
        /\ (e.exit # 0) => e.cerr
        /\ (e.exit = 0 /\ e.op = "listslots" /\ e.toolran) => (~e.cerr /\ SlotsOK(e.lines, e.slots))
        /\ (e.exit = 0 /\ e.op # "listslots") => (e.reseq /\ (e.cerr = e.aerr))
        \* shape "toolpem": the tool printed (only) PEM certificates of a kind a served agent can hold; if it ran and
        \* exited with 0 the served agent returns the first of them, and so does the client, byte for byte
        /\ (e.exit = 0 /\ e.op # "listslots" /\ e.toolran /\ e.shape = "toolpem") => (~e.aerr /\ ~e.cerr /\ e.reseq)
  /\ (e.mode \in {"model", "real"}) => (e.reseq /\ e.steq)      \* same result and same agent state as the direct twin
P_C13 == [][C13_Step]_rvars
Inv_Twin == ag = dag
RTypeOK == hist \in 0..MaxHist /\ remote \in BOOLEAN

---------------------------------------------------------------------------
\* the two state machines share a module; each specification freezes the other part
WFrozen == /\ stream = <<>> /\ pos = 1 /\ out = <<>> /\ status = "ok"
           /\ last = [i |-> 0, it |-> NoItem, nrep |-> 0, rel |-> FALSE, pan |-> FALSE, big |-> FALSE]
RFrozen == /\ ag = AgInit /\ dag = AgInit /\ remote = FALSE /\ hist = 0
           /\ rlast = [op |-> "init", code |-> -1, method |-> "", ncalls |-> 0, argeq |-> TRUE, reseq |-> TRUE, aerr |-> FALSE,
                       cerr |-> FALSE, pan |-> FALSE, remote |-> FALSE, toolran |-> FALSE, lines |-> <<>>, slots |-> <<>>,
                       exit |-> 0, steq |-> TRUE, mode |-> "model", shape |-> "normal"]
---------------------------------------------------------------------------
\* Part 3: several connections to ONE server.  N copies of the per-connection stream automaton of part 1, composed
\* with the state all connections share: the in-memory hardware certificates of the shim (abstractly: is there a
\* stale - expired - one, which the next listing purges) over a healthy, unlocked underlying agent.  Every
\* connection sends well-formed request frames only; what OTHER connections do at the same time must not cost a
\* connection a response, end it, crash the process, or turn a listing into a refusal: with the agent unlocked and the
\* underlying agent working a well-formed list request (code 11) is answered with an identities answer (the SET of
\* identities in it may depend on the interleaving and is not constrained).  No lock / unlock in these streams.
CFrames == {F(11, "1", "none", "none"), F(1, "1", "none", "none"), F(13, "n", "valid", "none"), F(17, "n", "valid", "none"),
            F(31, "n", "valid", "struct"), F(31, "n", "valid", "legacy"), F(35, "n", "valid", "imm"), F(32, "1", "none", "none")}
Eof == Item("eof", -1, "none", "none", "none")
CStreams == {p \o <<Eof>> : p \in UNION {[1..n -> CFrames] : n \in 0..MaxCItems}}
IsList(it) == it.k = "frame" /\ it.code = 11 /\ it.len = "1"
KindOf(it) == CASE it.code = 11 -> "identities" [] it.code = 1 -> "v1-identities" [] it.code = 13 -> "signature"
                [] it.code = 17 -> "success" [] it.code \in {31, 35} -> "text" [] OTHER -> "other"
\* what one connection saw: the stream-level outcome of part 1, and every list request it sent was answered with an
\* identities answer (kinds[i] = kind of the response to the i-th frame; the connection is driven in lock step)
C12_Conn(items, kinds, nrep, st, pan, big) ==
  /\ C12_Stream(items, nrep, st, pan, big)
  /\ \A i \in 1..Len(items) : (IsList(items[i]) /\ i <= Len(kinds)) => kinds[i] = "identities"

CInit == /\ \E n \in 2..MaxConns : cs = [str |-> [c \in 1..n |-> <<Eof>>], pos |-> [c \in 1..n |-> 1], out |-> [c \in 1..n |-> <<>>],
                                          st |-> [c \in 1..n |-> "running"], stale |-> FALSE]
         /\ clast = [c |-> 0, it |-> NoItem, nrep |-> 0, pan |-> FALSE]
CStart == \* the streams of the connections are chosen (one action, so that TLC need not enumerate them as initial states)
  /\ clast.c = 0 /\ \A c \in DOMAIN cs.str : cs.pos[c] = 1 /\ cs.st[c] = "running"
  /\ \E f \in [DOMAIN cs.str -> CStreams], b \in BOOLEAN : cs' = [cs EXCEPT !.str = f, !.stale = b]
  /\ clast' = [c |-> -1, it |-> NoItem, nrep |-> 0, pan |-> FALSE]
CConsume(c) ==
  /\ clast.c # 0 /\ cs.st[c] = "running" /\ cs.pos[c] <= Len(cs.str[c])
  /\ LET it == cs.str[c][cs.pos[c]] IN
     IF it.k = "eof"
     THEN /\ cs' = [cs EXCEPT !.pos[c] = @ + 1, !.st[c] = "ok"]
          /\ clast' = [c |-> c, it |-> it, nrep |-> 0, pan |-> FALSE]
     ELSE /\ \E stl \in (IF it.code = 31 THEN {cs.stale, TRUE} ELSE IF it.code = 11 THEN {FALSE} ELSE {cs.stale}) :
               cs' = [cs EXCEPT !.pos[c] = @ + 1, !.out[c] = Append(@, KindOf(it)), !.stale = stl]
          /\ clast' = [c |-> c, it |-> it, nrep |-> 1, pan |-> FALSE]
CNext == CStart \/ \E c \in DOMAIN cs.str : CConsume(c)
\* a step of one connection: it alone moves, by exactly one response per frame, in order; a listing is answered
C12_ConcStep ==
  LET e == clast' IN
  (e.c > 0) =>
     /\ ~e.pan
     /\ \A d \in DOMAIN cs.str : d # e.c => (cs'.pos[d] = cs.pos[d] /\ cs'.out[d] = cs.out[d] /\ cs'.st[d] = cs.st[d])
     /\ Len(cs'.out[e.c]) = Len(cs.out[e.c]) + e.nrep /\ e.nrep = (IF e.it.k = "eof" THEN 0 ELSE 1)
     /\ cs'.st[e.c] = (IF e.it.k = "eof" THEN "ok" ELSE "running")
     /\ IsList(e.it) => cs'.out[e.c][Len(cs'.out[e.c])] = "identities"
P_C12Conc == [][C12_ConcStep]_cvars
Inv_Conn == \A c \in DOMAIN cs.str : (cs.st[c] = "ok") =>
               C12_Conn(cs.str[c], cs.out[c], Len(cs.out[c]), "ok", FALSE, FALSE)
CTypeOK == \A c \in DOMAIN cs.str : cs.st[c] \in {"running", "ok"} /\ cs.pos[c] \in 1..(Len(cs.str[c]) + 1)

---------------------------------------------------------------------------
CFrozen == /\ cs = [str |-> <<>>, pos |-> <<>>, out |-> <<>>, st |-> <<>>, stale |-> FALSE]
           /\ clast = [c |-> 0, it |-> NoItem, nrep |-> 0, pan |-> FALSE]
ConsumeW   == Consume /\ UNCHANGED rvars /\ UNCHANGED cvars
ReleaseW   == Release /\ UNCHANGED rvars /\ UNCHANGED cvars
ViaClientR == (\E op \in Ops \ {"listslots"} : \E a \in ArgsOf(op) : ViaClient(op, a)) /\ UNCHANGED wvars /\ UNCHANGED cvars
ListSlotsR == (\E t \in ToolTexts, x \in {0, 1} : ListSlots(t, x)) /\ UNCHANGED wvars /\ UNCHANGED cvars
SlotReplyR == (\E op \in SlotOps, sh \in {"ok", "err", "both", "neither"} : SlotReply(op, sh)) /\ UNCHANGED wvars /\ UNCHANGED cvars
StartC     == CStart /\ UNCHANGED wvars /\ UNCHANGED rvars
ConsumeC   == (\E c \in DOMAIN cs.str : CConsume(c)) /\ UNCHANGED wvars /\ UNCHANGED rvars
NextW == ConsumeW \/ ReleaseW
NextR == ViaClientR \/ ListSlotsR \/ SlotReplyR
NextC == StartC \/ ConsumeC
SpecWire == WInit /\ RFrozen /\ CFrozen /\ [][NextW]_vars
SpecRpc  == RInit /\ WFrozen /\ CFrozen /\ [][NextR]_vars
SpecConc == CInit /\ WFrozen /\ RFrozen /\ [][NextC]_vars
=============================================================================
