----------------------------- MODULE TraceShim -----------------------------
(***************************************************************************)
(* Validation of recorded executions of the real shimagent.Server against  *)
(* ShimAgent.  Every line of trace.ndjson is either                        *)
(*   {"ev":"reset","post":S}            a new trace starts in state S      *)
(*   {"ev":"step","pre":S,"e":L,"post":S'}  one operation of the real code *)
(* with S the projected abstract state and L the label (operation,         *)
(* argument, fault, observed result).  A step is accepted only if its pre  *)
(* state is the state reached so far (continuity); the property formulas   *)
(* of ShimAgent are evaluated on every accepted step (TC07..TC10), and     *)
(* Strict demands that the step is exactly a step of the design.           *)
(***************************************************************************)
EXTENDS ShimAgent, ShimUniverses, Json

TraceLog == ndJsonDeserialize("trace.ndjson")
VARIABLE l
tvars == <<vars, l>>
S(x) == {x[i] : i \in DOMAIN x}
Load(s) == /\ under' = S(s.u) /\ ulocked' = s.ul /\ upass' = s.up /\ mem' = S(s.m)
           /\ cache' = S(s.c) /\ locked' = s.l /\ noUp' = s.nu /\ now' = s.n /\ dead' = s.d
           /\ forever' = S(s.fv)
Same(s) == /\ under = S(s.u) /\ ulocked = s.ul /\ upass = s.up /\ mem = S(s.m)
           /\ cache = S(s.c) /\ locked = s.l /\ noUp = s.nu /\ now = s.n /\ dead = s.d
           /\ forever = S(s.fv)
Res(r) == [ok |-> r.ok, pan |-> r.pan, l1 |-> S(r.l1), l2 |-> S(r.l2), by |-> r.by]
TraceInit == /\ l = 2 /\ TraceLog[1].ev = "reset"
             /\ under = S(TraceLog[1].post.u) /\ ulocked = TraceLog[1].post.ul /\ upass = TraceLog[1].post.up
             /\ mem = S(TraceLog[1].post.m) /\ cache = S(TraceLog[1].post.c) /\ locked = TraceLog[1].post.l
             /\ noUp = TraceLog[1].post.nu /\ now = TraceLog[1].post.n /\ dead = TraceLog[1].post.d
             /\ forever = S(TraceLog[1].post.fv)
             /\ last = [op |-> "reset", arg |-> "", f |-> NoFault, res |-> OK]
Reset == /\ l <= Len(TraceLog) /\ TraceLog[l].ev = "reset" /\ Load(TraceLog[l].post)
         /\ last' = [op |-> "reset", arg |-> "", f |-> NoFault, res |-> OK] /\ l' = l + 1
Step == /\ l <= Len(TraceLog) /\ TraceLog[l].ev = "step"
        /\ Same(TraceLog[l].pre)          \* continuity with the previous logged post-state
        /\ Load(TraceLog[l].post)
        /\ last' = [op |-> TraceLog[l].e.op, arg |-> TraceLog[l].e.arg, f |-> TraceLog[l].e.f, res |-> Res(TraceLog[l].e.res)]
        /\ l' = l + 1
TraceNext == Reset \/ Step
TraceSpec == TraceInit /\ [][TraceNext]_tvars

IsStep == last'.op \notin {"reset", "construct"}
TC07 == [][IsStep => C07_Step]_tvars
TC08 == [][IsStep => C08_Step]_tvars
TC09 == [][IsStep => C09_Step]_tvars
TC10 == [][(last'.op # "reset") => C10_Step]_tvars
\* a "construct" step records a freshly constructed shim whose state differs from the model's Init
TConstruct == [][last'.op # "construct"]_tvars
\* strict conformance: the recorded step is exactly a step of the design
Strict == [][IsStep => (IF last'.f.kind = "none" \/ last'.op = "new" THEN Next ELSE FaultAllowed)]_tvars
\* the same formulas as reporting action constraints: one TLC run lists every rejected line
Rep(name, F) == F \/ PrintT(<<"REJ", name, l>>)
RepC07 == Rep("TC07", IsStep => C07_Step)
RepC08 == Rep("TC08", IsStep => C08_Step)
RepC09 == Rep("TC09", IsStep => C09_Step)
RepC10 == Rep("TC10", (last'.op # "reset") => C10_Step)
RepConstruct == Rep("TConstruct", last'.op # "construct")
RepStrict == Rep("Strict", IsStep => (IF last'.f.kind = "none" \/ last'.op = "new" THEN Next ELSE FaultAllowed))
TraceAccepted == TLCGet("stats").diameter = Len(TraceLog)
=============================================================================
