--------------------------- MODULE TraceReqParam ---------------------------
(***************************************************************************)
(* Validation of recorded calls of the real csr.NewReqParam and            *)
(* message.{Marshal,Unmarshal,UnmarshalLegacy} against ReqParam.           *)
(* trace.ndjson: line 1 {"ev":"reset"}, then {"ev":"step","e":EVENT} (or   *)
(* further resets).  EVENT has the shape described in ReqParam.tla: the    *)
(* lexical abstraction of the inputs of one call and the observed result.  *)
(* The functions are stateless, so there is no pre/post state; every       *)
(* recorded event is judged by the property step formulas C14_Step /       *)
(* C15_Step (and, as SPEC-DRIFT only, by the precise design).              *)
(***************************************************************************)
EXTENDS ReqParam, Json

TraceLog == ndJsonDeserialize("trace.ndjson")
VARIABLE l
tvars == <<vars, l>>
TraceInit == /\ l = 2 /\ TraceLog[1].ev = "reset"
             /\ last = NoEv /\ cs = [k |-> "trace", c |-> 0] /\ phase = "trace"
TraceNext == /\ l <= Len(TraceLog)
             /\ last' = (IF TraceLog[l].ev = "step" THEN TraceLog[l].e ELSE NoEv)
             /\ l' = l + 1 /\ UNCHANGED <<cs, phase>>
TraceSpec == TraceInit /\ [][TraceNext]_tvars

TC14 == [][C14_Step]_tvars
TC15 == [][C15_Step]_tvars
Rep(name, F) == F \/ PrintT(<<"REJ", name, l>>)
RepC14 == Rep("TC14", C14_Step)
RepC15 == Rep("TC15", C15_Step)
RepStrict14 == Rep("Strict14", C14_Strict(last'))
RepStrict15 == Rep("Strict15", C15_Strict(last'))
TraceAccepted == TLCGet("stats").diameter = Len(TraceLog)
=============================================================================
