SPECIFICATION Spec
CONSTANTS
  TPs <- TPt
  Usages <- Ut
  Vers <- Vt
  Kinds <- K19
INVARIANT Inv_C19 Inv_Strict
PROPERTIES P_C19 P_Strict
ACTION_CONSTRAINT EmitCase
CHECK_DEADLOCK FALSE
