------------------------------- MODULE Attest -------------------------------
(***************************************************************************)
(* Properties C06 and C16 of theparanoids/ysshra (attestation/yubiattest,  *)
(* agent/utils/parse.go) as an explicit specification.                     *)
(*                                                                         *)
(* C06 is written from RFC 8017 (EMSA-PKCS1-v1_5, section 9.2) and the     *)
(* property statement: an encoded message EM is an abstract layout of      *)
(* regions over the k bytes of the modulus; ValidEM says which layouts are *)
(* full-length encodings of a digest; the mutation operators are actions.  *)
(* C16 is the decision table of the lenient certificate parser (which      *)
(* shapes must agree with the standard parser / be accepted although the   *)
(* standard parser refuses / be rejected), of PEM bundles, and the ModHex  *)
(* function of the device-serial extension.                                *)
(*                                                                         *)
(* The same operators (C06_Step, C16_Step) judge recorded executions of    *)
(* the real code in TraceAttest.tla.                                       *)
(***************************************************************************)
EXTENDS Integers, Sequences, FiniteSets, TLC

S(x) == {x[i] : i \in DOMAIN x}
IsPrefixOf(a, b) == Len(a) <= Len(b) /\ SubSeq(b, 1, Len(a)) = a

(***************************************************************************)
(*                                C06                                      *)
(***************************************************************************)
Hashes == {"sha1", "sha256", "sha384", "sha512"}          \* the digests the statement admits
AllH   == Hashes \cup {"md5", "sha224"}                   \* "another hash" for prefixes / digests
HLen == [h \in AllH |-> CASE h = "md5" -> 16 [] h = "sha1" -> 20 [] h = "sha224" -> 28
                          [] h = "sha256" -> 32 [] h = "sha384" -> 48 [] h = "sha512" -> 64]
\* contents octets of the hash OBJECT IDENTIFIERs (RFC 8017 appendix B.1)
OID == [h \in AllH |-> CASE h = "md5"    -> <<42, 134, 72, 134, 247, 13, 2, 5>>
                         [] h = "sha1"   -> <<43, 14, 3, 2, 26>>
                         [] h = "sha224" -> <<96, 134, 72, 1, 101, 3, 4, 2, 4>>
                         [] h = "sha256" -> <<96, 134, 72, 1, 101, 3, 4, 2, 1>>
                         [] h = "sha384" -> <<96, 134, 72, 1, 101, 3, 4, 2, 2>>
                         [] h = "sha512" -> <<96, 134, 72, 1, 101, 3, 4, 2, 3>>]
\* DER of  DigestInfo ::= SEQUENCE { SEQUENCE { OID, [NULL] }, OCTET STRING (HLen) }  without the digest octets
DigestInfo(h, null) ==
    LET alg == <<6, Len(OID[h])>> \o OID[h] \o (IF null THEN <<5, 0>> ELSE <<>>)
        seq == <<48, Len(alg)>> \o alg
    IN  <<48, Len(seq) + 2 + HLen[h]>> \o seq \o <<4, HLen[h]>>
\* the constants printed in RFC 8017 section 9.2, note 1 (with the NULL parameter)
RFCNote1 == [h \in AllH |->
    CASE h = "md5"    -> <<48, 32, 48, 12, 6, 8, 42, 134, 72, 134, 247, 13, 2, 5, 5, 0, 4, 16>>
      [] h = "sha1"   -> <<48, 33, 48, 9, 6, 5, 43, 14, 3, 2, 26, 5, 0, 4, 20>>
      [] h = "sha224" -> <<48, 45, 48, 13, 6, 9, 96, 134, 72, 1, 101, 3, 4, 2, 4, 5, 0, 4, 28>>
      [] h = "sha256" -> <<48, 49, 48, 13, 6, 9, 96, 134, 72, 1, 101, 3, 4, 2, 1, 5, 0, 4, 32>>
      [] h = "sha384" -> <<48, 65, 48, 13, 6, 9, 96, 134, 72, 1, 101, 3, 4, 2, 2, 5, 0, 4, 48>>
      [] h = "sha512" -> <<48, 81, 48, 13, 6, 9, 96, 134, 72, 1, 101, 3, 4, 2, 3, 5, 0, 4, 64>>]
\* the same as a table (a constant: TLC evaluates it once)
DITab == [h \in AllH |-> [n \in BOOLEAN |-> DigestInfo(h, n)]]
DI(h, n) == DITab[h][n]
Layouts == AllH \X BOOLEAN
KBytes == {128, 192, 256, 384, 512}     \* modulus lengths 1024 .. 4096 bits
\* the encoded message has the length of the modulus IN OCTETS, rounded UP: k = ceil(bits / 8) (RFC 8017, 8.2.2 / 9.2); key
\* sizes that are no multiple of 8 are a class of their own ("odd"): the top octet of the modulus is then only partly used
KeyBits == {1024, 1025, 1030, 1536, 2041, 2047, 2048, 3071, 3072, 4096}
EMLen(bits) == (bits + 7) \div 8
KeyClasses == {"mult8", "odd"}
KeyClassOf(bits) == IF bits % 8 = 0 THEN "mult8" ELSE "odd"

\* ---- sanity theorems on the constants (stated here, ASSUMEd - i.e. evaluated by TLC - in MCAttest) ----
T_RFC        == \A h \in AllH : DI(h, TRUE) = RFCNote1[h]
T_NullIs2    == \A h \in AllH : Len(DI(h, TRUE)) = Len(DI(h, FALSE)) + 2
\* byte-level layout uniqueness: no digest identifier is a prefix of another one, hence a byte string
\* 00 01 FF..FF 00 T can be read as (identifier, digest) in at most one way
T_PrefixFree == \A a, b \in Layouts : a # b => ~IsPrefixOf(DI(a[1], a[2]), DI(b[1], b[2]))
\* at every modulus length of the quantifier a full-length encoding has at least 8 padding octets
T_PS8        == \A k \in KBytes \cup {EMLen(b) : b \in KeyBits}, h \in Hashes, n \in BOOLEAN : k - 3 - Len(DI(h, n)) - HLen[h] >= 8
\* a full-length message 00 01 .. has 8 * (k - 2) + 1 significant bits, fewer than any modulus of the size: it is below the
\* modulus for every key size, so the genuine signature of every key size exists and must be accepted; rounding k down
\* would take a message ONE OCTET SHORT (shape short_head) for the full-length one whenever bits is no multiple of 8
T_Fits       == \A b \in KeyBits : 8 * (EMLen(b) - 2) + 1 <= b - 1
T_OddDiffers == \A b \in KeyBits : (KeyClassOf(b) = "odd") <=> (b \div 8 # EMLen(b))

\* ---- abstract encoded message ----
ByteClass == {"00", "01", "FF", "xx"}   \* xx: any other value, and different from the octet it replaces
ClsVal(c) == CASE c = "00" -> 0 [] c = "01" -> 1 [] c = "FF" -> 255 [] c = "xx" -> -1
(* shape: how the regions lie over the k octets
     full        lead | bt | PS (k-3-|T|) | sep | T                 (the only full-length layout)
     short_tail  lead | bt | PS one shorter | sep | T | one more octet        (T shifted left)
     short_head  lead | 00 | bt | PS one shorter | sep | T                    (header shifted right)
     long_tail   lead | bt | PS one longer | sep | T without its last octet   (T shifted right)
     long_head   bt | PS one longer | sep | T                                 (lead dropped)
     ps7 / ps0   00..00 | lead | bt | PS of 7 / 0 octets | sep | T            (a short EM, zero-extended)
     bb06        lead | bt | PS of 8 octets | sep | T | garbage to k          (T not right-aligned)
     zero3 / zero10 / zerohead   the full layout with its first 3 / first 10 octets / everything before T replaced
                 by zero octets (as an integer: a genuine message that lost its leading octets)
     random      none of these (arbitrary octets)
     none        there is no encoded message (non-RSA device key)                                        *)
Shapes == {"full", "short_tail", "short_head", "long_tail", "long_head", "ps7", "ps0", "bb06", "zero3", "zero10", "zerohead"}
EMRec(shape, lead, bt, psf, psm, psl, sep, pfx, xo, dgh, dgj, dgv) ==
    [shape |-> shape, lead |-> lead, bt |-> bt, psf |-> psf, psm |-> psm, psl |-> psl, sep |-> sep,
     pfx |-> pfx,   \* the digest-identifier octets; -1 = an octet of class xx (xo = the octet it replaces)
     xo |-> xo,
     dgh |-> dgh,   \* the digest region is the dgh-digest of the to-be-signed bytes ...
     dgj |-> dgj,   \* ... with octet dgj (0 = none, -1 = digest of OTHER bytes) replaced by class dgv
     dgv |-> dgv]
GoodEM(h, null) == EMRec("full", "00", "01", "FF", "FF", "FF", "00", DI(h, null), -1, h, 0, "00")
NoEM == EMRec("none", "00", "00", "00", "00", "00", "00", <<>>, -1, "none", 0, "00")

ValidFor(em, h, null) ==
    /\ em.shape = "full"                                  \* full length, PS exactly fills k (>= 8 by T_PS8)
    /\ em.lead = "00" /\ em.bt = "01"
    /\ em.psf = "FF" /\ em.psm = "FF" /\ em.psl = "FF"
    /\ em.sep = "00"
    /\ em.pfx = DI(h, null)
    /\ em.dgh = h /\ em.dgj = 0
ValidEM(em, h) == h \in Hashes /\ (ValidFor(em, h, TRUE) \/ ValidFor(em, h, FALSE))

\* ---- chain, labels, verdict ----
Rels == {"root", "otherca", "self"}
Times == {"valid", "expired", "notyet"}
\* forged twins: a device certificate with the SAME issuer name and serial number as a genuine (root-issued, valid) one
\* that was attested successfully earlier on the same Attestor, but carrying another key and issued by another CA
\* that merely bears the root's name / signed by its own key.  It does not chain to the pool.
TwinRels == {"twin_otherca", "twin_self"}
Chains == (Rels \X Times) \cup (TwinRels \X {"valid"})
\* device certificates that went through the lenient parser: issued by an RSA root of the pool under the algorithm LABEL
\* dlab with a signature made under the SCHEME dsch; the certificate chains only if the signature verifies under the
\* scheme its label names (GoodRels); a label that names another scheme / hash than the one used does not (MisRels)
GoodRels == {"root", "root_rsa", "root_pss"}         \* ECDSA root (certificate value), RSA root PKCS#1 v1.5, RSA root PSS
MisRels == {"root_mis_pss_p1",    \* label RSASSA-PSS(SHA-256), signature PKCS#1 v1.5 SHA-256
            "root_mis_p1_pss",    \* label sha256WithRSAEncryption, signature RSASSA-PSS
            "root_mis_hash",      \* label sha256WithRSAEncryption, signature PKCS#1 v1.5 over the SHA-384 digest
            "root_mis_ecdsa"}     \* label ecdsa-with-SHA256, signature PKCS#1 v1.5 SHA-256 by the RSA root
CrossRels == GoodRels \cup MisRels \cup {"otherca"}
\* TIME.  A call is made in epoch now = 0 (the epoch in which a long-lived Attestor was constructed) or, after the clock
\* has moved on, in epoch 1.  A validity class is the set of epochs in which the device certificate is valid (as V0 / V1
\* of ShimAgent): "valid" in both, "lapsing" only in epoch 0 (NotAfter between construction and the later call),
\* "becoming" only in epoch 1 (NotBefore between them), "expired" / "notyet" in neither.  The chain must hold at the time
\* OF THE CALL.
EpochTimes == {"lapsing", "becoming"}
V0 == {"valid", "lapsing"}
V1 == {"valid", "becoming"}
ValidAt(time, now) == IF now = 0 THEN time \in V0 ELSE time \in V1
ChainOK(rel, time, now) == rel \in GoodRels /\ ValidAt(time, now)
Labels == 0..16       \* crypto/x509.SignatureAlgorithm: 0 unknown, 1 MD2-RSA, 2 MD5-RSA, 3..6 SHA1/256/384/512-RSA,
                      \* 7,8 DSA-SHA1/256, 9..12 ECDSA-SHA1/256/384/512, 13..15 RSA-PSS, 16 Ed25519
RSALabels == 3..6
LabelHash(a) == CASE a \in {3, 7, 9} -> "sha1" [] a \in {4, 8, 10} -> "sha256" [] a \in {5, 11} -> "sha384"
                  [] a \in {6, 12} -> "sha512" [] OTHER -> "none"
\* labels 7..12 name a SHA digest but not RSA; the statement lists them neither among the accepted nor among
\* the rejected ones (MD2/MD5/unsupported), so acceptance of a VALID encoded message under them is left open
OpenLabels == 7..12
\* the algorithm LABEL as it is ENCODED in a certificate (an AlgorithmIdentifier) and the x509.SignatureAlgorithm it denotes;
\* it is a dimension of its own: which SCHEME the signature value was made under (sch) is independent of it
LabelEncs == {"md2-rsa", "md5-rsa", "sha1-rsa", "sha1-rsa-iso", "sha256-rsa", "sha384-rsa", "sha512-rsa",
              "dsa-sha1", "dsa-sha256", "ecdsa-sha1", "ecdsa-sha256", "ecdsa-sha384", "ecdsa-sha512",
              "pss-sha256", "pss-sha384", "pss-sha512", "pss-noparams", "pss-badsalt", "ed25519", "unknown"}
LabelDenotes(lab) == CASE lab = "md2-rsa" -> 1 [] lab = "md5-rsa" -> 2 [] lab \in {"sha1-rsa", "sha1-rsa-iso"} -> 3
                       [] lab = "sha256-rsa" -> 4 [] lab = "sha384-rsa" -> 5 [] lab = "sha512-rsa" -> 6
                       [] lab = "dsa-sha1" -> 7 [] lab = "dsa-sha256" -> 8 [] lab = "ecdsa-sha1" -> 9 [] lab = "ecdsa-sha256" -> 10
                       [] lab = "ecdsa-sha384" -> 11 [] lab = "ecdsa-sha512" -> 12
                       [] lab = "pss-sha256" -> 13 [] lab = "pss-sha384" -> 14 [] lab = "pss-sha512" -> 15
                       [] lab = "ed25519" -> 16 [] OTHER -> 0      \* malformed PSS parameters denote nothing
\* signature schemes an RSA device key can be used under: PKCS#1 v1.5 (an encoded message as above), RSASSA-PSS
\* (its encoded message is not of the 00 01 FF.. form: shape "random"), random octets
Schemes == {"pkcs1", "pss", "junk"}
KeyTypes06 == {"rsa", "p256", "p384", "ed25519"}
SigForms == {"canon", "lead0", "plusN", "honest", "junk"}
   \* canon: the k-octet representative; lead0 / plusN: the same residue written with leading zero octets / plus N
   \* (still equals the EM when raised to e: permitted, not demanded); honest / junk: signatures under non-RSA keys

\* the acceptance predicate of the statement (labels SHA-x with RSA) ...
Accept(c) == /\ ChainOK(c.rel, c.time, c.now) /\ c.kt = "rsa" /\ c.alg \in RSALabels
             /\ c.sch = "pkcs1" /\ ValidEM(c.em, LabelHash(c.alg))     \* the signature verifies under the label's scheme
\* ... what may be accepted at most (open labels included) ...
Permitted(c) == /\ ChainOK(c.rel, c.time, c.now) /\ c.kt = "rsa" /\ c.alg \in (RSALabels \cup OpenLabels)
                /\ c.sch = "pkcs1" /\ ValidEM(c.em, LabelHash(c.alg))
\* ... and what must be accepted
Required(c) == Accept(c) /\ c.sf = "canon"
C06_Step(c, r) == (r.acc => Permitted(c)) /\ (Required(c) => r.acc)
\* the precise design (what the code is understood to do); a difference that C06_Step allows is SPEC-DRIFT
\* (the lenient parser knows no DSA object identifiers: a DSA label read from DER denotes nothing for it)
Design06(c) == [acc |-> Permitted(c) /\ ~(c.via = "parsed" /\ c.lab \in {"dsa-sha1", "dsa-sha256"}), pan |-> FALSE]
Strict06(c, r) == r.acc = Design06(c).acc /\ r.pan = FALSE

\* every clause of the statement follows from acceptance
Clauses(c) == /\ c.rel \in GoodRels /\ ValidAt(c.time, c.now) /\ c.time \notin {"expired", "notyet"} /\ c.rel \notin TwinRels /\ c.rel \notin MisRels
              /\ c.sch = "pkcs1"
              /\ (c.via = "parsed" => (c.lab \notin {"pss-sha256", "pss-sha384", "pss-sha512", "pss-noparams", "pss-badsalt", "md2-rsa", "md5-rsa", "ed25519", "unknown"}
                                      /\ LabelDenotes(c.lab) = c.alg))
              /\ c.kt = "rsa"
              /\ c.alg \notin {0, 1, 2, 13, 14, 15, 16}
              /\ c.em.shape = "full" /\ c.em.lead = "00" /\ c.em.bt = "01" /\ c.em.sep = "00"
              /\ {c.em.psf, c.em.psm, c.em.psl} = {"FF"}
              /\ \E h \in Hashes : /\ c.em.pfx \in {DI(h, TRUE), DI(h, FALSE)}
                                   /\ c.em.dgh = h /\ c.em.dgj = 0 /\ h = LabelHash(c.alg)
Unique(em) == Cardinality({hn \in Layouts : ValidFor(em, hn[1], hn[2])}) <= 1

\* ---- the enumerating state machine ----
VARIABLES c, r,
          hist     \* what the long-lived object (C06: the Attestor, C16: the process-wide parser) has been used for before
                   \* this call; the design never reads it: the verdict of a call is a function of the call alone
vars == <<c, r, hist>>
Case06(kt, alg, rel, time, sf, h0, n0, mut, em) ==
    [p |-> "C06", kt |-> kt, alg |-> alg, rel |-> rel, time |-> time, sf |-> sf,
     h0 |-> h0, n0 |-> n0,      \* the (hash, layout) the encoded message was built for before mutation
     mut |-> mut, em |-> em,
     via |-> "value",           \* "value": an x509.Certificate value with the label set directly; "parsed": DER through the lenient parser
     lab |-> "",                \* the encoded label (via = "parsed"); alg is what it denotes
     sch |-> IF kt = "rsa" THEN "pkcs1" ELSE "other",
     now |-> 0,                 \* the epoch of the call
     kc |-> "mult8"]            \* key-size class of the device key; the acceptance rule does not depend on it
RandomEM == EMRec("random", "00", "00", "00", "00", "00", "00", <<>>, -1, "none", 0, "00")
\* label x scheme cross product: a slot certificate LABELLED lab whose signature value was made by the RSA device key
\* under scheme sch with hash hs, presented with a device certificate of chain class rel, everything parsed from DER
Cross06(lab, sch, hs, rel) ==
    [Case06("rsa", LabelDenotes(lab), rel, "valid", "canon", hs, TRUE, "none",
            IF sch = "pkcs1" THEN GoodEM(hs, TRUE) ELSE RandomEM)
       EXCEPT !.via = "parsed", !.lab = lab, !.sch = sch]
Init06 == /\ \/ \E h \in AllH, n \in BOOLEAN, a \in Labels, ch \in Chains :
                   c = Case06("rsa", a, ch[1], ch[2], "canon", h, n, "none", GoodEM(h, n))
             \/ \E kt \in KeyTypes06 \ {"rsa"}, a \in Labels, ch \in Chains, sf \in {"honest", "junk"} :
                   c = Case06(kt, a, ch[1], ch[2], sf, "none", FALSE, "none", NoEM)
             \/ \E lab \in LabelEncs, sch \in Schemes, hs \in Hashes \cup {"md5"}, rel \in CrossRels :
                   /\ (sch = "pss" => hs \in {"sha256", "sha384", "sha512"}) /\ (sch = "junk" => hs = "sha256")
                   /\ c = Cross06(lab, sch, hs, rel)
             \/ \E h \in AllH, n \in BOOLEAN, a \in Labels :       \* device keys whose size is no multiple of 8
                   c = [Case06("rsa", a, "root", "valid", "canon", h, n, "none", GoodEM(h, n)) EXCEPT !.kc = "odd"]
             \/ \E tm \in EpochTimes, a \in Labels, h \in Hashes, rel \in {"root", "otherca"} :
                   c = Case06("rsa", a, rel, tm, "canon", h, TRUE, "none", GoodEM(h, TRUE))
          /\ r = Design06(c)
          /\ hist = IF c.rel \in TwinRels THEN "used" ELSE "fresh"   \* a twin presupposes the genuine one attested before
\* in which contexts the mutation operators are applied: everywhere (thorough tier) or where at most one of chain
\* relation / validity deviates from the accepting context (quick tier; the unmutated contexts are always complete)
CONSTANT MutCtx(_)
MutCtxAll(x) == TRUE
MutCtxQuick(x) == x.rel = "root" \/ x.time = "valid"
Mutable == c.mut = "none" /\ c.kt = "rsa" /\ c.via = "value" /\ c.h0 \in Hashes /\ hist = "fresh" /\ c.time \notin EpochTimes /\ MutCtx(c)
Put(name, em) == /\ c' = [c EXCEPT !.mut = name, !.em = em]
                 /\ r' = Design06(c')
                 /\ UNCHANGED hist
MutLead(v)   == Mutable /\ Put("lead", [c.em EXCEPT !.lead = v])
MutBT(v)     == Mutable /\ Put("bt", [c.em EXCEPT !.bt = v])
MutPSf(v)    == Mutable /\ Put("psf", [c.em EXCEPT !.psf = v])
MutPSm(v)    == Mutable /\ Put("psm", [c.em EXCEPT !.psm = v])
MutPSl(v)    == Mutable /\ Put("psl", [c.em EXCEPT !.psl = v])
MutSep(v)    == Mutable /\ Put("sep", [c.em EXCEPT !.sep = v])
MutPfx(j, v) == Mutable /\ j \in 1..Len(c.em.pfx)
                /\ Put("pfx", [c.em EXCEPT !.pfx[j] = ClsVal(v), !.xo = IF v = "xx" THEN c.em.pfx[j] ELSE -1])
MutDg(j, v)  == Mutable /\ j \in 1..HLen[c.h0] /\ Put("dg", [c.em EXCEPT !.dgj = j, !.dgv = v])
Reshape(s)   == Mutable /\ s # "full" /\ Put("shape", [c.em EXCEPT !.shape = s])
PfxOther(h, n) == Mutable /\ h # c.h0 /\ Put("pfxother", [c.em EXCEPT !.pfx = DI(h, n)])
DgOther(h)   == Mutable /\ h # c.h0 /\ Put("dgother", [c.em EXCEPT !.dgh = h])
\* the same call on an Attestor that has attested other certificates before: same verdict
Use06 == c.mut = "none" /\ c.via = "value" /\ hist = "fresh" /\ hist' = "used" /\ UNCHANGED <<c, r>>
\* the same call issued immediately after an ACCEPTED attestation (same goroutine, same Attestor, same device key,
\* whatever scratch memory the verifier keeps still holding a genuine 00 01 FF.. message): same verdict.  Every
\* rejected class is presented with such an accepting predecessor.
AcceptingCtx(x) == x.rel = "root" /\ x.time = "valid" /\ x.alg \in RSALabels /\ LabelHash(x.alg) = x.h0
AfterAccept06 == /\ c.via = "value" /\ c.kt = "rsa" /\ hist = "fresh"
                 /\ (c.mut = "none" \/ AcceptingCtx(c))
                 /\ hist' = "after_accept" /\ UNCHANGED <<c, r>>
\* the clock moves on: the same certificates presented in epoch 1 (to an Attestor constructed in epoch 0 when
\* hist = "used", to one constructed for the call when hist = "fresh"); the verdict follows the clock
Tick06 == /\ c.now = 0 /\ c.time \in EpochTimes /\ c.mut = "none"
          /\ c' = [c EXCEPT !.now = 1] /\ r' = Design06(c') /\ UNCHANGED hist
Next06 == \/ \E v \in ByteClass : MutLead(v) \/ MutBT(v) \/ MutPSf(v) \/ MutPSm(v) \/ MutPSl(v) \/ MutSep(v)
          \/ \E j \in 1..19, v \in ByteClass : MutPfx(j, v)
          \/ \E j \in 1..64, v \in ByteClass : MutDg(j, v)
          \/ \E s \in Shapes : Reshape(s)
          \/ \E h \in AllH, n \in BOOLEAN : PfxOther(h, n)
          \/ \E h \in AllH : DgOther(h)
          \/ Use06 \/ AfterAccept06 \/ Tick06
Spec06 == Init06 /\ [][Next06]_vars

\* the property and the sanity theorems, model-checked on the full product
P_C06 == [](C06_Step(c, r))
Inv06_Clauses == Permitted(c) => Clauses(c)
Inv06_Unique == Unique(c.em)
Inv06_Base == (c.mut = "none" /\ c.kt = "rsa" /\ c.sch = "pkcs1") => (ValidFor(c.em, c.h0, c.n0) /\ (c.h0 \in Hashes => ValidEM(c.em, c.h0)))
\* every single mutation that changes the encoded message makes it invalid for every hash
P_MutInvalid == [][(c'.em # c.em) => \A h \in AllH, n \in BOOLEAN : ~ValidFor(c'.em, h, n)]_vars
\* and, conversely, a mutation operator that writes the octet already there changes nothing
P_NoopSame == [][(c'.em = c.em /\ c'.now = c.now) => r'.acc = r.acc]_vars
\* history independence: the same call gets the same verdict whatever the Attestor did before
\* label and scheme are independent dimensions; acceptance needs both to name PKCS#1 v1.5 with the same SHA digest
Inv06_LabelScheme == (c.via = "parsed" /\ r.acc) => (c.sch = "pkcs1" /\ c.h0 = LabelHash(c.alg) /\ c.alg \in 3..12 /\ c.rel \in GoodRels)
\* the verdict follows the clock at the time of the call, for a long-lived Attestor as for a fresh one
Inv06_Clock == /\ ((c.time = "lapsing" /\ c.now = 1) \/ (c.time = "becoming" /\ c.now = 0)) => ~r.acc
               /\ (c.time \in EpochTimes /\ c.mut = "none" /\ c.rel = "root" /\ c.alg \in RSALabels /\ LabelHash(c.alg) = c.h0
                      /\ ((c.time = "lapsing") <=> (c.now = 0))) => r.acc
P_Hist == [][(c' = c) => (r' = r)]_vars

(***************************************************************************)
(*                                C16                                      *)
(***************************************************************************)
KeyTypes16 == {"rsa", "rsa-nonull", "p256", "p384", "p521"}
SigAlgs16 == {"sha256-rsa", "sha384-rsa", "sha512-rsa", "sha256-pss", "sha384-pss", "sha512-pss",
              "ecdsa-sha256", "ecdsa-sha384", "ecdsa-sha512"}
ExtKinds == {"bc", "ku", "kid", "san", "eku", "pol", "vendor"}
Fields == {"raw", "tbs", "pk", "sig", "sa", "serial", "subject", "issuer", "nb", "na", "exts"}
Verdict(sh) == IF sh.tail = "trailing" THEN "rejected"
               ELSE IF sh.kt = "rsa-nonull" THEN "lenient" ELSE "agree"

\* ModHex
Alphabet == <<"c", "b", "d", "e", "f", "g", "h", "i", "j", "k", "l", "n", "r", "t", "u", "v">>
Sym(s) == [i \in 1..2 * Len(s) |-> IF i % 2 = 1 THEN Alphabet[(s[(i + 1) \div 2] \div 16) + 1]
                                                   ELSE Alphabet[(s[i \div 2] % 16) + 1]]
MHErr == [ok |-> FALSE, s |-> <<>>]
ModHexSerial(s) == IF Len(s) = 3 THEN [ok |-> TRUE, s |-> <<"c", "c">> \o Sym(s)]
                   ELSE IF Len(s) = 4 THEN [ok |-> TRUE, s |-> Sym(s)] ELSE MHErr
\* the extension value is the DER INTEGER: tag, length, content octets
ModHexExt(present, val) == IF ~present \/ Len(val) < 2 THEN MHErr ELSE ModHexSerial(SubSeq(val, 3, Len(val)))
HeaderOK(val) == Len(val) >= 2 /\ val[1] = 2 /\ val[2] = Len(val) - 2
\* the serial NUMBER: the octets without leading zero octets (TLC integers are 32 bit, so not as an integer)
Num(s) == LET nz == {i \in 1..Len(s) : s[i] # 0} IN
          IF nz = {} THEN <<>> ELSE SubSeq(s, CHOOSE i \in nz : \A j \in nz : i <= j, Len(s))
B5 == {0, 1, 127, 128, 255}
Serials5 == [1..3 -> B5] \cup [1..4 -> B5]
T_AlphaInj == \A i, j \in 1..16 : i # j => Alphabet[i] # Alphabet[j]
T_AlphaIs  == Alphabet = <<"c", "b", "d", "e", "f", "g", "h", "i", "j", "k", "l", "n", "r", "t", "u", "v">> /\ Len(Alphabet) = 16
T_MHShape  == \A s \in Serials5 : LET m == ModHexSerial(s) IN m.ok /\ Len(m.s) = 8 /\ S(m.s) \subseteq S(Alphabet)
\* distinct serial NUMBERS give distinct strings (as many strings as (string, number) pairs), and distinct octet
\* strings of the same length give distinct strings; stated through cardinalities so that TLC evaluates them in linear time
T_MHInj    == Cardinality({ModHexSerial(s).s : s \in Serials5}) = Cardinality({<<ModHexSerial(s).s, Num(s)>> : s \in Serials5})
T_MHInjLen == \A n \in 3..4 : Cardinality({ModHexSerial(s).s : s \in [1..n -> B5]}) = Cardinality([1..n -> B5])
T_NibInj   == Cardinality({Sym(<<a>>) : a \in 0..255}) = 256 /\ \A a \in 0..255 : S(Sym(<<a>>)) \subseteq S(Alphabet)

\* one record shape for all C16 cases (TLC wants homogeneous values in a variable)
Case16(op, kt, sa, exts, tail, n, lead, trail, present, val) ==
    [p |-> "C16", op |-> op, kt |-> kt, sa |-> sa, exts |-> exts, tail |-> tail,
     n |-> n, lead |-> lead, trail |-> trail, present |-> present, val |-> val]
Res16(pan, yok, sok, eq, ok, idx, s) == [pan |-> pan, yok |-> yok, sok |-> sok, eq |-> eq, ok |-> ok, idx |-> idx, s |-> s]
Iota(n) == [i \in 1..n |-> i]

C16_Parse(sh, q) == /\ ~q.pan
                    /\ (CASE Verdict(sh) = "rejected" -> ~q.yok
                          [] Verdict(sh) = "lenient"  -> q.yok /\ q.eq = Fields
                          [] Verdict(sh) = "agree"    -> q.sok => (q.yok /\ q.eq = Fields))
\* a text without any certificate is "leading text" as much as "garbage": both answers are admitted
C16_PEM(b, q) == /\ ~q.pan
                 /\ (IF b.trail = "garbage" THEN ~q.ok
                     ELSE IF b.n = 0 /\ b.lead = "first" THEN (q.ok => q.idx = <<>>)
                     ELSE q.ok /\ q.idx = Iota(b.n))
\* a value of the right length whose first two octets are not the INTEGER header is neither clearly a serial
\* nor clearly "any other" extension: error or the ModHex form of the content octets
C16_ModHex(m, q) == /\ ~q.pan
                    /\ LET e == ModHexExt(m.present, m.val) IN
                       IF ~e.ok THEN ~q.ok
                       ELSE IF HeaderOK(m.val) THEN q.ok /\ q.s = e.s
                       ELSE (q.ok => q.s = e.s)
C16_Mutant(q) == ~q.pan          \* arbitrary bytes: no crash, nothing else is demanded
C16_Step(x, q) == CASE x.op = "parse"  -> C16_Parse(x, q)
                    [] x.op = "pem"    -> C16_PEM(x, q)
                    [] x.op = "modhex" -> C16_ModHex(x, q)
                    [] x.op = "mut"    -> C16_Mutant(q)
Design16(x) ==
    CASE x.op = "parse" -> Res16(FALSE, x.tail = "clean", x.tail = "clean" /\ x.kt # "rsa-nonull",
                                 IF x.tail = "clean" THEN Fields ELSE {}, FALSE, <<>>, <<>>)
      [] x.op = "pem" -> LET good == x.trail # "garbage" /\ ~(x.n = 0 /\ x.lead = "first")
                         IN Res16(FALSE, FALSE, FALSE, {}, good, IF good THEN Iota(x.n) ELSE <<>>, <<>>)
      [] x.op = "modhex" -> LET e == ModHexExt(x.present, x.val) IN Res16(FALSE, FALSE, FALSE, {}, e.ok, <<>>, e.s)
      [] x.op = "mut" -> Res16(FALSE, FALSE, FALSE, {}, FALSE, <<>>, <<>>)
Strict16(x, q) == CASE x.op = "parse"  -> q.pan = FALSE /\ q.yok = Design16(x).yok /\ q.sok = Design16(x).sok /\ (q.yok => q.eq = Fields)
                    [] x.op = "pem"    -> q.pan = FALSE /\ q.ok = Design16(x).ok /\ q.idx = Design16(x).idx
                    [] x.op = "modhex" -> q.pan = FALSE /\ q.ok = Design16(x).ok /\ q.s = Design16(x).s
                    [] x.op = "mut"    -> TRUE

\* the enumerating state machine: shapes grow by one feature per step
CONSTANTS MHBytes,      \* octet values used for exported serial-extension values
          MaxVal        \* longest extension value (octets, header included)
Sweep == {17 * n : n \in 0..15}     \* 00, 11, .., FF: every nibble value at every position of the serial
Shape0 == Case16("parse", "rsa", "sha256-rsa", {}, "clean", 0, "none", "none", FALSE, <<>>)
Init16 == /\ \/ \E kt \in KeyTypes16 \ {"rsa-nonull"}, sa \in SigAlgs16 : c = [Shape0 EXCEPT !.kt = kt, !.sa = sa]
             \/ c = [Shape0 EXCEPT !.op = "pem"]
             \/ c = [Shape0 EXCEPT !.op = "modhex"]
          /\ r = Design16(c)
          /\ hist = "fresh"
Go(x) == hist = "fresh" /\ c' = x /\ r' = Design16(x) /\ UNCHANGED hist
\* the same certificate parsed after an extension-rich one, after one without any extension, or while other
\* goroutines are parsing: same result (the parser keeps nothing between calls)
\* ("buffer_reused": the input is the previous call's input buffer, overwritten in place by the caller with this encoding)
After(k) == c.op = "parse" /\ hist = "fresh" /\ hist' = k /\ UNCHANGED <<c, r>>
AddExt(k)   == c.op = "parse" /\ c.tail = "clean" /\ k \notin c.exts /\ Go([c EXCEPT !.exts = @ \cup {k}])
DropNull    == c.op = "parse" /\ c.tail = "clean" /\ c.kt = "rsa" /\ Go([c EXCEPT !.kt = "rsa-nonull"])
Trail       == c.op = "parse" /\ c.tail = "clean" /\ Go([c EXCEPT !.tail = "trailing"])
PemAdd      == c.op = "pem" /\ c.lead = "none" /\ c.trail = "none" /\ c.n < 5 /\ Go([c EXCEPT !.n = @ + 1])
PemLead(l)  == c.op = "pem" /\ c.lead = "none" /\ c.trail = "none" /\ l # "none" /\ Go([c EXCEPT !.lead = l])
PemTrail(t) == c.op = "pem" /\ c.trail = "none" /\ t # "none" /\ Go([c EXCEPT !.trail = t])
MHPresent   == c.op = "modhex" /\ ~c.present /\ Go([c EXCEPT !.present = TRUE])
MHAppend(b) == c.op = "modhex" /\ c.present /\ Len(c.val) < MaxVal
               /\ (Len(c.val) = 0 => b \in {2, 0, 255})                        \* tag octet: right or wrong
               /\ (Len(c.val) = 1 => b \in {0, 1, 2, 3, 4, 5, 6, 255})          \* length octet: right or wrong
               /\ (Len(c.val) >= 2 => b \in MHBytes \cup Sweep)
               /\ (Len(c.val) >= 2 => LET ct == SubSeq(c.val, 3, Len(c.val)) IN     \* sweep octets: uniform content only
                                       (b \notin MHBytes \/ \E i \in 1..Len(ct) : ct[i] \notin MHBytes) => \A i \in 1..Len(ct) : ct[i] = b)
               /\ (Len(c.val) >= 6 => \A i \in 3..Len(c.val) : c.val[i] = b)   \* longer than a 4-octet serial: uniform content only
               /\ ((Len(c.val) >= 3 /\ c.val[1] # 2) => b = c.val[Len(c.val)])  \* wrong tag: uniform content only
               /\ Go([c EXCEPT !.val = Append(@, b)])
Next16 == \/ \E k \in ExtKinds : AddExt(k)
          \/ DropNull \/ Trail \/ PemAdd
          \/ \E l \in {"first", "each"} : PemLead(l)
          \/ \E t \in {"ws", "garbage"} : PemTrail(t)
          \/ MHPresent
          \/ \E b \in 0..255 : MHAppend(b)
          \/ \E k \in {"after_rich", "after_bare", "concurrent", "buffer_reused"} : After(k)
Spec16 == Init16 /\ [][Next16]_vars
P_C16 == [](C16_Step(c, r))
\* sanity: the three verdict classes partition the shapes; a lenient shape is one the standard parser refuses
Inv16_Classes == c.op = "parse" => /\ Verdict(c) \in {"agree", "lenient", "rejected"}
                                   /\ (Verdict(c) = "lenient" <=> (r.yok /\ ~r.sok))
                                   /\ (Verdict(c) = "rejected" <=> ~r.yok)
Inv16_MH == c.op = "modhex" => /\ (r.ok => (Len(r.s) = 8 /\ S(r.s) \subseteq S(Alphabet) /\ Len(c.val) \in {5, 6}))
                               /\ ((~c.present \/ Len(c.val) < 2) => ~r.ok)
                               /\ ((r.ok /\ Len(c.val) = 5) => (r.s[1] = "c" /\ r.s[2] = "c"))
=============================================================================
