----------------------------- MODULE TraceDaemon -----------------------------
(***************************************************************************)
(* Validation of SEQUENTIAL phases recorded on the real daemon             *)
(* (harness/daemon): K client connections over a unix socket, each served  *)
(* by the real yubiagent.ServeAgent on ONE real server from NewServer      *)
(* (remote mode) over ONE upstream connection to the harness's agent.      *)
(* One whole operation at a time; every line of trace.ndjson is            *)
(*   {"ev":"reset","post":S}                a fresh daemon in state S       *)
(*   {"ev":"step","pre":S,"e":A,"post":S'}  one operation / departure /    *)
(*                                          new connection / tick          *)
(* S = the shim state as in TraceShim (read off the real objects) plus      *)
(* "k": the state of every connection (idle / parked on code w / zombie =  *)
(* client gone, handler still parked / closed), observed at the handlers   *)
(* and on the notify lists.  A = [k, c, rq, rel, np, wr, res]: kind,       *)
(* connection, request, clients whose Wait call returned in this step,     *)
(* goroutines on the notify lists afterwards, reply frames the handlers    *)
(* wrote per connection, result the client observed.                       *)
(* A step is accepted only if its pre state is the state reached so far;   *)
(* D1 (= the step is exactly a step of the sequential design), D2..D5 are  *)
(* evaluated on every accepted step.  hv is recomputed here, never read    *)
(* from the trace.                                                         *)
(***************************************************************************)
EXTENDS Daemon, ShimUniverses, Json

TraceLog == ndJsonDeserialize("trace.ndjson")
VARIABLE l
tvars == <<dvars, l>>
S(x) == {x[i] : i \in DOMAIN x}
TraceOps == {"list", "sign", "add", "remove", "removeall", "lock", "unlock", "addhard", "forward", "tick"}
KRec(k, c) == IF \E i \in DOMAIN k : k[i].c = c THEN k[CHOOSE i \in DOMAIN k : k[i].c = c]
              ELSE [c |-> c, s |-> "closed", w |-> NoByte]
\* anything that is not one of the four quiescent states ("busy": a handler that is neither idle nor on a notify
\* list) maps to a non-quiescent stage, which no whole operation accepts
CsOf(k) == [open |-> [c \in Conns |-> KRec(k, c).s \in {"idle", "parked", "busy"}],
            hs   |-> [c \in Conns |-> CASE KRec(k, c).s = "idle" -> "ready"
                                        [] KRec(k, c).s \in {"parked", "zombie"} -> "parked"
                                        [] KRec(k, c).s = "closed" -> "gone"
                                        [] OTHER -> "rcvd"],
            cur  |-> [c \in Conns |-> IF KRec(k, c).s \in {"parked", "zombie"}
                                      THEN [n |-> 0, rq |-> Rq("wait", "", KRec(k, c).w, "")] ELSE NoCur],
            q    |-> [c \in Conns |-> <<>>], out |-> [c \in Conns |-> <<>>],
            ns   |-> [c \in Conns |-> 0],    nd  |-> [c \in Conns |-> 0]]
Load(s) == /\ under' = S(s.u) /\ ulocked' = s.ul /\ upass' = s.up /\ mem' = S(s.m)
           /\ cache' = S(s.c) /\ locked' = s.l /\ noUp' = s.nu /\ now' = s.n /\ dead' = s.d
           /\ forever' = S(s.fv) /\ cs' = CsOf(s.k)
Same(s) == /\ under = S(s.u) /\ ulocked = s.ul /\ upass = s.up /\ mem = S(s.m)
           /\ cache = S(s.c) /\ locked = s.l /\ noUp = s.nu /\ now = s.n /\ dead = s.d
           /\ forever = S(s.fv) /\ cs = CsOf(s.k)
Res(r) == [ok |-> r.ok, pan |-> r.pan, l1 |-> S(r.l1), l2 |-> S(r.l2), by |-> r.by]
RqOf(x) == Rq(x.op, x.arg, x.code, x.enc)
EvOf(x) == [k |-> x.k, c |-> x.c, n |-> 0, rq |-> RqOf(x.rq), rel |-> S(x.rel), np |-> x.np, wr |-> S(x.wr), res |-> Res(x.res)]
LastOf(x) == IF x.k = "op" THEN [op |-> x.rq.op, arg |-> x.rq.arg, f |-> NoFault, res |-> Res(x.res)]
             ELSE [op |-> x.k, arg |-> "", f |-> NoFault, res |-> Res(x.res)]
ResetLabel == [EV0 EXCEPT !.k = "reset"]

TraceInit == /\ l = 2 /\ TraceLog[1].ev = "reset"
             /\ under = S(TraceLog[1].post.u) /\ ulocked = TraceLog[1].post.ul /\ upass = TraceLog[1].post.up
             /\ mem = S(TraceLog[1].post.m) /\ cache = S(TraceLog[1].post.c) /\ locked = TraceLog[1].post.l
             /\ noUp = TraceLog[1].post.nu /\ now = TraceLog[1].post.n /\ dead = TraceLog[1].post.d
             /\ forever = S(TraceLog[1].post.fv) /\ cs = CsOf(TraceLog[1].post.k)
             /\ last = [op |-> "reset", arg |-> "", f |-> NoFault, res |-> OK]
             /\ hv = HV0 /\ ev = ResetLabel
Reset == /\ l <= Len(TraceLog) /\ TraceLog[l].ev = "reset" /\ Load(TraceLog[l].post)
         /\ last' = [op |-> "reset", arg |-> "", f |-> NoFault, res |-> OK]
         /\ hv' = HV0 /\ ev' = ResetLabel /\ l' = l + 1
Step == /\ l <= Len(TraceLog) /\ TraceLog[l].ev = "step"
        /\ Same(TraceLog[l].pre)          \* continuity with the previous logged post-state
        /\ Load(TraceLog[l].post)
        /\ last' = LastOf(TraceLog[l].e)
        /\ ev' = EvOf(TraceLog[l].e)
        /\ hv' = IF TraceLog[l].e.k = "op" THEN HistF(TraceLog[l].e.c) ELSE hv
        /\ l' = l + 1
TraceNext == Reset \/ Step
TraceSpec == TraceInit /\ [][TraceNext]_tvars

IsStep == ev'.k # "reset"
\* every identity the step mentions belongs to the universe (an in-memory entry whose hash matches no certificate the
\* harness ever handed out, a listed blob nobody added: "?xxxx").  The operators of ShimAgent are not total outside the
\* universe, so such a step is rejected (D1, D4) before they are applied to it.
CleanS(s) == S(s.u) \subseteq Ids /\ S(s.m) \subseteq Certs
Clean == /\ CleanS(TraceLog[l].pre) /\ CleanS(TraceLog[l].post)
         /\ S(TraceLog[l].e.res.l1) \subseteq Ids /\ S(TraceLog[l].e.res.l2) \subseteq Ids
         /\ (TraceLog[l].e.k = "op" /\ TraceLog[l].e.rq.op \in {"sign", "add", "remove", "addhard"}) => TraceLog[l].e.rq.arg \in Ids
\* reporting action constraints: one TLC run lists every rejected line of every trace
Rep(name, F) == F \/ PrintT(<<"REJ", name, l>>)
RepD1 == Rep("D1", IsStep => (Clean /\ D1_Seq))
RepD2 == Rep("D2", (IsStep /\ Clean) => D2_Step)
RepD3 == Rep("D3", (IsStep /\ Clean) => D3_Step)
RepD4 == Rep("D4", IsStep => (Clean /\ D4_Step))
RepD5 == Rep("D5", (IsStep /\ Clean) => D5_Step)
TraceAccepted == TLCGet("stats").diameter = Len(TraceLog)
=============================================================================
