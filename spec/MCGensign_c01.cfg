SPECIFICATION Spec
CONSTANTS
  Sc1 <- C01_Sc1
  Sc2 <- C01_Sc2
  PreAgents <- Pre1
  MaxRuns = 2
  MaxFaults = 1
  AgentFaultKinds = {"fail", "garbage", "close"}
  AgentFaultPts = {"chal"}
  CAFaultKinds = {}
  HPanicMethods = {"auth", "name"}
  RemovePick <- MCRemovePick
INVARIANT TypeOK ReplayNeverAuthenticates
PROPERTIES P_C01
CHECK_DEADLOCK FALSE
