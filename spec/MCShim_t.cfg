SPECIFICATION Spec
CONSTANTS
  Keys = {"k1", "k2"}
  Certs <- U4Certs
  CertKey <- U4CertKey
  V0 <- U4V0
  V1 <- U4V1
  Yss <- U4Yss
  Pass = {"p1", "p2"}
  Modes = {TRUE, FALSE}
  Ops <- OpsMC
  FaultKinds = {}
VIEW View
INVARIANT TypeOK
PROPERTIES P_C07 P_C08 P_C09 P_C10
CHECK_DEADLOCK FALSE
