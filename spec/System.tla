------------------------------- MODULE System -------------------------------
(***************************************************************************)
(* One execution of the registration-authority command `gensign`           *)
(* (cmd/gensign/main.go) as the COMPOSITION of the components that have     *)
(* their own specifications (ReqParam, Gensign, Signer, the forwarded      *)
(* agent), at the abstraction level of their interfaces.                   *)
(*                                                                         *)
(* The process and its environment (everything in the scenario record sc): *)
(*   (i)   process environment: SSH_ORIGINAL_COMMAND class, hardKey flag,   *)
(*         caPubKeyAlgo, LOGNAME, SSH_CONNECTION, argv (namespace policy,  *)
(*         token count), SSH_AUTH_SOCK;                                    *)
(*   (ii)  files: the log file, the configuration file (handler section,   *)
(*         key identifiers, validity, signer section: endpoint list, TLS   *)
(*         files, request timeout);                                        *)
(*   (iii) the registered-key directory;                                   *)
(*   (iv)  the forwarded agent: identity set, answer class to the proof-   *)
(*         of-possession challenge, the request index at which it fails    *)
(*         (connection closed / failure reply);                            *)
(*   (v)   the CA endpoints: identity class x outcome (signs k             *)
(*         certificates / rpc error / unparsable reply / no answer).       *)
(*                                                                         *)
(* Steps:  OpenLog/LoadConfig -> NewReqParam -> ConnectAgent ->            *)
(* CreateHandlers -> NewSigner -> Run( Auth -> Challenge -> GenKey ->      *)
(* KeyIdentifier -> Sign with fail-over -> List -> Remove* -> Add* ) ->    *)
(* Exit.  A failure before Run is fatal (exit status 1); a failed Run is   *)
(* logged and the process exits 0; a panic below Run is recovered.         *)
(*                                                                         *)
(* A finished execution is described by (s, o, p, q): scenario, observation *)
(* record (exit status, crash marker, what the agent was asked to sign and *)
(* whether it produced a genuine signature, the signing requests every CA  *)
(* server received and the certificates it returned, whether the log file  *)
(* names a transaction id), p = [ag, seen] the agent identities before and *)
(* all key pairs seen so far, q the agent identities after.  The end-to-   *)
(* end properties E1..E5 are predicates over such a quadruple; TLC checks  *)
(* them on every finished execution of the bounded model and               *)
(* TraceSystem.tla evaluates the same predicates on every recorded         *)
(* execution of the real binary.                                           *)
(*                                                                         *)
(* Abstractions: keys and certificates are tags; login name, client user / *)
(* host, address and transaction id are opaque values compared for         *)
(* equality only (hex strings in recorded runs).                           *)
(***************************************************************************)
EXTENDS Integers, Sequences, FiniteSets, TLC

CONSTANTS Scenarios,       \* the bounded set of scenarios
          RemovePick(_)    \* which of the identities still to be removed may go next

VARIABLES pc,      \* control state
          sc,      \* scenario
          ag,      \* identities held by the forwarded agent
          r,       \* observation record
          pre,     \* [ag, seen] at process start
          nreq,    \* requests the agent connection has carried
          dead,    \* the agent connection is gone
          hs,      \* handlers created from the configuration
          ei,      \* endpoint index of the fail-over loop
          certs,   \* certificates returned by the CA
          todo,    \* identities Refresh still has to remove
          expired  \* the request timeout of the run has passed

vars == <<pc, sc, ag, r, pre, nreq, dead, hs, ei, certs, todo, expired>>

---------------------------------------------------------------------------
\* data
S(x) == {x[j] : j \in DOMAIN x}
Tags(X) == {x.tag : x \in X}
Id(tag, t, k, lb, cls) == [tag |-> tag, t |-> t, k |-> k, lb |-> lb, sg |-> TRUE, cls |-> cls]

\* agents the process may meet: the user's key (class U) or only another key (class O), a certificate of a foreign CA,
\* and optionally what an earlier successful run of the handler left (its key pair K0, two certificates labelled R)
UserPart(pa) == IF pa = "nokey" THEN {Id("O", "key", "O", "-", "O")} ELSE {Id("U", "key", "U", "-", "U")}
Foreign == {Id("pF", "cert", "kF", "-", "foreign")}
OldGen == {Id("K0", "key", "K0", "-", "oldkey"), Id("oR1", "cert", "K0", "R", "old"), Id("oR2", "cert", "K0", "R", "old")}
PreAgent(pa) == UserPart(pa) \cup Foreign \cup (IF pa = "old" THEN OldGen ELSE {})

\* registered key of the login name: '<name>.pub' when that file exists, else bare '<name>'; "none" / "bad" (unparsable)
Registered(d) == IF d.lp # "none" THEN d.lp ELSE d.lb

\* csr.NewReqParam succeeds
ParamsValid(s) == /\ s.cmd \in {"json", "legacy"} /\ s.lnset /\ s.conn \in {"v4", "v6"}
                  /\ s.pol \in {"NONS", "NSOK"} /\ s.ntok \in 3..6
KidConfigured(s) == s.algo \in S(s.ids)
Genuine(e) == e.id = "genuine"                  \* server certificate chains to a CA of the configured bundle, right name
Good(e) == Genuine(e) /\ e.out = "sign"
HeldCls(X) == {x.cls : x \in {y \in X : y.t = "key"}}

KidOf(s) == [ok |-> TRUE, prins |-> <<s.lnv>>, ru |-> s.ru, rh |-> s.rh, ip |-> s.ip, tid |-> s.tid, ver |-> 1]
CsrOf(s, key) == [prins |-> <<s.lnv>>, val |-> s.val, ident |-> "slot-" \o ToString(s.algo), key |-> key, kid |-> KidOf(s)]

EmptyObs == [exit |-> 0 - 1, crash |-> FALSE, chal |-> <<>>, recv |-> <<<<>>, <<>>, <<>>>>, ret |-> <<<<>>, <<>>, <<>>>>,
             logtid |-> "none", stage |-> "start"]

---------------------------------------------------------------------------
\* the design
Init == /\ sc \in Scenarios /\ pc = "openlog"
        /\ ag = PreAgent(sc.pa) /\ pre = [ag |-> PreAgent(sc.pa), seen |-> {x.k : x \in PreAgent(sc.pa)}]
        /\ r = EmptyObs /\ nreq = 0 /\ dead = FALSE /\ hs = <<>> /\ ei = 1 /\ certs = <<>> /\ todo = {} /\ expired = FALSE

Exit(rr, code, st) == r' = [rr EXCEPT !.exit = code, !.stage = st] /\ pc' = "done"
Keep(v) == UNCHANGED v
Served == ~dead /\ (sc.die = 0 \/ nreq + 1 # sc.die)      \* the next agent request is answered
AgentReq == nreq' = (IF dead THEN nreq ELSE nreq + 1)
Dies == dead' = (dead \/ (~Served /\ sc.dk = "close"))   \* a failure reply (dk = "fail") leaves the connection usable
KeyTag == "K1"
CertTag(j, m) == "c" \o ToString(j) \o "_" \o ToString(m)

OpenLog ==
  /\ pc = "openlog"
  /\ IF sc.logf = "ok" THEN pc' = "loadconf" /\ r' = r ELSE Exit(r, 1, "log")
  /\ UNCHANGED <<sc, ag, pre, nreq, dead, hs, ei, certs, todo, expired>>

LoadConfig ==
  /\ pc = "loadconf"
  /\ IF sc.cfile = "ok" THEN pc' = "reqparam" /\ r' = r ELSE Exit(r, 1, "conf")
  /\ UNCHANGED <<sc, ag, pre, nreq, dead, hs, ei, certs, todo, expired>>

\* from here on every log line names the transaction id
NewReqParam ==
  /\ pc = "reqparam"
  /\ IF ParamsValid(sc) THEN pc' = "connagent" /\ r' = [r EXCEPT !.logtid = "yes"] ELSE Exit(r, 1, "param")
  /\ UNCHANGED <<sc, ag, pre, nreq, dead, hs, ei, certs, todo, expired>>

ConnectAgent ==
  /\ pc = "connagent"
  /\ IF sc.sock = "ok" THEN pc' = "handlers" /\ r' = r ELSE Exit(r, 1, "sock")
  /\ UNCHANGED <<sc, ag, pre, nreq, dead, hs, ei, certs, todo, expired>>

\* a handler that cannot be created is skipped with a warning, never fatal
CreateHandlers ==
  /\ pc = "handlers"
  /\ hs' = IF sc.hsec = "present" THEN <<"regular">> ELSE <<>>
  /\ pc' = "signer"
  /\ UNCHANGED <<sc, ag, r, pre, nreq, dead, ei, certs, todo, expired>>

\* NewSigner: TLS files are loaded, the endpoint list must be configured; an EMPTY list may be refused here or at signing
NewSigner ==
  /\ pc = "signer"
  /\ \/ /\ (sc.tls # "ok" \/ (sc.eps = <<>> /\ sc.epform = "absent"))
        /\ Exit(r, 1, "signer")
     \/ /\ sc.tls = "ok" /\ sc.eps = <<>> /\ sc.epform = "empty"
        /\ Exit(r, 1, "signer")
     \/ /\ sc.tls = "ok" /\ ~(sc.eps = <<>> /\ sc.epform = "absent")
        /\ pc' = "auth" /\ r' = r
  /\ UNCHANGED <<sc, ag, pre, nreq, dead, hs, ei, certs, todo, expired>>

\* --- gensign.Run -----------------------------------------------------------
Auth ==
  /\ pc = "auth"
  /\ IF hs = <<>> THEN Exit(r, 0, "noauth")
     ELSE IF sc.pol = "NONS" /\ ~sc.hard /\ Registered(sc.dir) \notin {"none", "bad"}
          THEN pc' = "chal" /\ r' = r
          ELSE Exit(r, 0, "noauth")
  /\ UNCHANGED <<sc, ag, pre, nreq, dead, hs, ei, certs, todo, expired>>

\* the agent is asked to sign a fresh challenge with the registered key of the login name
Challenge ==
  /\ pc = "chal" /\ AgentReq
  /\ LET reg  == Registered(sc.dir)
         good == Served /\ sc.ans = "honest" /\ reg \in HeldCls(ag)
         rr   == [r EXCEPT !.chal = Append(@, [key |-> reg, good |-> good])]
     IN IF good THEN pc' = "genkey" /\ r' = rr
        ELSE Exit(rr, 0, IF Served /\ sc.ans = "wrongkind" THEN "panic" ELSE "noauth")
  /\ dead' = (dead \/ (~Served /\ sc.dk = "close") \/ sc.ans = "close")
  /\ UNCHANGED <<sc, ag, pre, hs, ei, certs, todo, expired>>

\* Generate: a fresh key pair is inserted into the agent (with a lifetime) ...
GenKey ==
  /\ pc = "genkey" /\ AgentReq /\ Dies
  /\ IF Served THEN ag' = ag \cup {Id(KeyTag, "key", KeyTag, "-", "ra")} /\ pc' = "kid" /\ r' = r
     ELSE ag' = ag /\ Exit(r, 0, "gen")
  /\ UNCHANGED <<sc, pre, hs, ei, certs, todo, expired>>

\* ... then the CA key slot for the requested algorithm is looked up
KeyIdentifier ==
  /\ pc = "kid"
  /\ IF KidConfigured(sc) THEN pc' = "sign" /\ ei' = 1 /\ r' = r ELSE Exit(r, 0, "kid") /\ ei' = ei
  /\ UNCHANGED <<sc, ag, pre, nreq, dead, hs, certs, todo, expired>>

\* Sign: the endpoints in configured order; an impostor never sees the request; the first success ends the loop; an
\* endpoint that does not answer costs the per-try timeout, and when the request timeout of the run is tight it has passed
\* by then: nothing is sent any more
Sign ==
  /\ pc = "sign"
  /\ IF ei > Len(sc.eps) THEN Exit(r, 0, "sign") /\ UNCHANGED <<ei, certs, expired>>
     ELSE LET e == sc.eps[ei] IN
          IF ~Genuine(e) \/ expired THEN ei' = ei + 1 /\ pc' = "sign" /\ UNCHANGED <<r, certs, expired>>
          ELSE LET rr == [r EXCEPT !.recv[ei] = Append(@, CsrOf(sc, KeyTag))] IN
               IF e.out = "sign"
               THEN /\ certs' = [m \in 1..e.k |-> CertTag(ei, m)]
                    /\ r' = [rr EXCEPT !.ret[ei] = [m \in 1..e.k |-> CertTag(ei, m)]]
                    /\ pc' = "list" /\ ei' = ei /\ expired' = expired
               ELSE /\ r' = rr /\ ei' = ei + 1 /\ pc' = "sign" /\ certs' = certs
                    /\ expired' = (e.out = "hang" /\ sc.rt = "tight")
  /\ UNCHANGED <<sc, ag, pre, nreq, dead, hs, todo>>

\* AddCertsToAgent: Refresh (list, remove the identities labelled with the handler name), then add every certificate
List ==
  /\ pc = "list" /\ AgentReq /\ Dies
  /\ IF Served THEN todo' = {x \in ag : x.lb = "R"} /\ pc' = "remove" /\ r' = r
     ELSE todo' = todo /\ Exit(r, 0, "agent")
  /\ UNCHANGED <<sc, ag, pre, hs, ei, certs, expired>>

Remove ==
  /\ pc = "remove"
  /\ IF todo = {} THEN pc' = "add" /\ ei' = 1 /\ UNCHANGED <<ag, r, nreq, dead, todo>>
     ELSE /\ AgentReq /\ Dies /\ ei' = ei
          /\ \E x \in RemovePick(todo) :
               IF Served THEN ag' = ag \ {x} /\ todo' = todo \ {x} /\ pc' = "remove" /\ r' = r
               ELSE ag' = ag /\ todo' = todo /\ Exit(r, 0, "agent")
  /\ UNCHANGED <<sc, pre, hs, certs, expired>>

Add ==
  /\ pc = "add"
  /\ IF ei > Len(certs) THEN Exit(r, 0, "ok") /\ UNCHANGED <<ag, nreq, dead, ei>>
     ELSE /\ AgentReq /\ Dies
          /\ IF Served THEN ag' = ag \cup {Id(certs[ei], "cert", KeyTag, "R", "ra")} /\ ei' = ei + 1 /\ pc' = "add" /\ r' = r
             ELSE ag' = ag /\ ei' = ei /\ Exit(r, 0, "agent")
  /\ UNCHANGED <<sc, pre, hs, certs, todo, expired>>

Next == OpenLog \/ LoadConfig \/ NewReqParam \/ ConnectAgent \/ CreateHandlers \/ NewSigner
        \/ Auth \/ Challenge \/ GenKey \/ KeyIdentifier \/ Sign \/ List \/ Remove \/ Add
Spec == Init /\ [][Next]_vars

---------------------------------------------------------------------------
\* The end-to-end properties, as predicates over a finished execution:
\* s scenario, o observation record, p = [ag, seen] before, q identity set after.
AllCsrs(o) == UNION {S(o.recv[j]) : j \in 1..3}
AnyCsr(o) == \E j \in 1..3 : o.recv[j] # <<>>
RegProved(s, o) == \E m \in DOMAIN o.chal : o.chal[m].key = Registered(s.dir) /\ o.chal[m].good
NEps(s) == Len(s.eps)
\* endpoint j (a configured, genuine, signing one) received this run's request and answered with certificates
SignedBy(s, o, j) == j \in 1..NEps(s) /\ Good(s.eps[j]) /\ o.recv[j] # <<>> /\ o.ret[j] # <<>>
Signed(s, o) == \E j \in 1..2 : SignedBy(s, o, j)
New(p, q) == {x \in q : x.tag \notin Tags(p.ag)}
AgentBehaves(s) == s.die = 0

\* E1 - a signing request reaches a CA server only if the request parameters were valid, the policy is NONS, no hardware
\*      key is claimed and the forwarded agent proved possession of the registered key of LOGNAME
E1(s, o, p, q) ==
  AnyCsr(o) => /\ ParamsValid(s) /\ s.pol = "NONS" /\ ~s.hard
               /\ Registered(s.dir) \notin {"none", "bad"} /\ RegProved(s, o)

\* E2 - a certificate appears in the forwarded agent only if a GENUINE configured endpoint signed this run's request;
\*      then (the agent serving every request) every certificate that endpoint returned is there, usable, bound to this
\*      run's fresh key pair, whose private key is held as well; impostors and unconfigured servers never see a request
E2(s, o, p, q) ==
  /\ o.recv[3] = <<>>
  /\ \A j \in 1..2 : o.recv[j] # <<>> => (j <= NEps(s) /\ Genuine(s.eps[j]))
  /\ \A x \in New(p, q) : x.t = "cert" =>
        \E j \in 1..2 : /\ SignedBy(s, o, j) /\ x.tag \in S(o.ret[j])
                        /\ x.k \notin p.seen /\ \E c \in S(o.recv[j]) : c.key = x.k
  /\ AgentBehaves(s) =>
        \A j \in 1..2 : SignedBy(s, o, j) =>
           \E K \in {c.key : c \in S(o.recv[j])} :
              /\ K \notin p.seen
              /\ \E y \in q : y.t = "key" /\ y.tag = K /\ y.sg
              /\ \A ct \in S(o.ret[j]) : \E y \in q : y.tag = ct /\ y.t = "cert" /\ y.k = K /\ y.sg

\* E3 - the request's single principal is LOGNAME; its KeyID carries the client-declared user / host verbatim, the first
\*      field of SSH_CONNECTION, version 1
E3(s, o, p, q) ==
  \A c \in AllCsrs(o) : /\ c.prins = <<s.lnv>>
                        /\ c.kid.ok /\ c.kid.ru = s.ru /\ c.kid.rh = s.rh /\ c.kid.ip = s.ip /\ c.kid.ver = 1

\* E4 - invalid input / configuration / failing environment: nothing is added to the agent; earlier certificates stay
\*      unless signing succeeded.  "Early" failures (everything up to and including the proof of possession) leave the
\*      agent untouched; later ones may leave the key pair generated for the request (a plain key with a lifetime), nothing else
EarlyBad(s, p) ==
  \/ s.logf # "ok" \/ s.cfile # "ok" \/ ~ParamsValid(s) \/ s.sock # "ok" \/ s.hsec # "present" \/ s.tls # "ok"
  \/ (s.eps = <<>> /\ s.epform = "absent")
  \/ s.pol # "NONS" \/ s.hard \/ Registered(s.dir) \notin HeldCls(p.ag) \/ s.ans # "honest" \/ s.die = 1
E4(s, o, p, q) ==
  /\ EarlyBad(s, p) => Tags(q) = Tags(p.ag)
  /\ ~Signed(s, o) =>
        /\ \A x \in New(p, q) : x.t = "key" /\ x.k = x.tag
        /\ Cardinality(New(p, q)) <= 1
        /\ New(p, q) # {} => RegProved(s, o)
        /\ \A x \in p.ag : x.tag \in Tags(q)

\* E5 - the process never crashes: no Go panic trace on its standard error, exit status 0 or 1
E5(s, o, p, q) == ~o.crash /\ o.exit \in {0, 1}

Done == pc = "done"
I_E1 == Done => E1(sc, r, pre, ag)
I_E2 == Done => E2(sc, r, pre, ag)
I_E3 == Done => E3(sc, r, pre, ag)
I_E4 == Done => E4(sc, r, pre, ag)
I_E5 == Done => E5(sc, r, pre, ag)

\* design sanity
TypeOK == /\ pc \in {"openlog", "loadconf", "reqparam", "connagent", "handlers", "signer", "auth", "chal", "genkey", "kid",
                     "sign", "list", "remove", "add", "done"}
          /\ nreq >= 0 /\ ei >= 1
\* fatal (exit 1) exactly when the process ends before Run
ExitClass == Done => (r.exit = 1 <=> r.stage \in {"log", "conf", "param", "sock", "signer"})
\* a fully good scenario ends with every certificate of the first good endpoint in the agent
Stalls(s, e) == Genuine(e) /\ e.out = "hang" /\ s.rt = "tight"
FullyGood(s, p) == /\ ~EarlyBad(s, p) /\ KidConfigured(s) /\ s.die = 0
                   /\ \E j \in DOMAIN s.eps : Good(s.eps[j]) /\ \A m \in 1..(j - 1) : ~Stalls(s, s.eps[m])
GoodSucceeds == (Done /\ FullyGood(sc, pre)) => (r.stage = "ok" /\ Signed(sc, r))
=============================================================================
