------------------------------- MODULE Daemon -------------------------------
(***************************************************************************)
(* The yubiagent daemon as a whole (beyond the 20 listed properties):      *)
(* K client connections - real yubiagent clients, plain ssh-agent clients  *)
(* and raw frame writers - each served by its own yubiagent.ServeAgent     *)
(* handler, on ONE shimagent.Server (constructed by yubiagent.NewServer,   *)
(* i.e. in upstream mode: noUp = FALSE) over ONE underlying ssh-agent.     *)
(*                                                                         *)
(* The shim's state and the sequential meaning of every operation are      *)
(* those of ShimAgent (EXTENDS; nothing is copied or changed).  This       *)
(* module adds                                                             *)
(*   cs   the connections: client end open?, request bytes written and     *)
(*        not yet read by the handler (q), the handler's stage (hs), the   *)
(*        request it is serving (cur), replies written and not yet read by *)
(*        the client (out), counters;  a handler blocked in Wait is        *)
(*        hs = "parked" and cur.rq.code is the code it waits for;          *)
(*   hv   history: who locked, the view at lock time, who added which      *)
(*        hardware certificate (used by the cross-connection formulas);    *)
(*   ev   the label of the last daemon step.                               *)
(*                                                                         *)
(* What ServeAgent does with a frame it has read (server.go):              *)
(*   1. Broadcast(first byte): every handler parked on that code is        *)
(*      released (codes >= TableSize have no entry: nothing happens);      *)
(*   2. dispatch: standard agent requests go through x/crypto's server to  *)
(*      the shim (one critical section = one ShimAgent action); add-hard-  *)
(*      certificate (two wire encodings), list-slots (refused in remote    *)
(*      mode), wait (parks unless the code is >= TableSize), everything    *)
(*      else is forwarded raw;                                             *)
(*   3. the reply is written to the connection the request came from.      *)
(* A frame that cannot be read (empty, oversized, stream ends inside it)   *)
(* ends that connection BEFORE step 1; a frame that is read but cannot be  *)
(* dispatched (add-hard-certificate in neither encoding, a wait frame      *)
(* without code, an add-constrained frame with a truncated constraint that *)
(* makes x/crypto panic - contained by ServeAgent) ends it AFTER step 1.   *)
(*                                                                         *)
(* Two next-state relations over the same pieces:                          *)
(*   DNext    micro steps Send / Receive / Handle / Park / Deliver / Drop /*)
(*            Gone / Reopen / Tick: arbitrary interleavings of K clients   *)
(*            (with up to MaxPipe requests outstanding per connection);    *)
(*   SeqNext  one whole operation at a time on quiescent states (what the  *)
(*            SEQUENTIAL phases of the harness execute and record).        *)
(* D1..D5 are step formulas / invariants; they are model-checked on both   *)
(* relations (MCDaemon) and evaluated on every recorded step of the real   *)
(* code (TraceDaemon); concurrent phases are judged by a linearisation     *)
(* search over the same operators (TraceDaemonLin).                        *)
(***************************************************************************)
EXTENDS ShimAgent, Integers

CONSTANTS Conns,      \* connection ids (positive integers)
          TableSize,  \* size of the table of condition variables (40)
          WaitCode,   \* first byte of a wait request (35)
          Reqs,       \* the requests clients send in this configuration (model checking only)
          MaxSend,    \* bound on the number of requests sent (model checking only)
          MaxPipe,    \* requests a client may have outstanding on one connection
          InitUnder,  \* set of initial contents of the underlying agent
          Broken      \* "none" = the design.  Otherwise a deliberately WRONG design, used only to show that the
                      \* formulas are not vacuous: "signal" (a broadcast wakes one waiter), "bcast_after" (the
                      \* broadcast follows the dispatch), "misroute" (the reply goes to another connection)

VARIABLES cs, hv, ev
dvars == <<vars, cs, hv, ev>>

---------------------------------------------------------------------------
\* requests
NoByte == -1
Rq(op, arg, code, enc) == [op |-> op, arg |-> arg, code |-> code, enc |-> enc]
NoRq  == Rq("none", "", NoByte, "")
NoCur == [n |-> 0, rq |-> NoRq]
InTable(b) == b >= 0 /\ b < TableSize

\* op = "junk": arg is the class of what the client wrote
ServerEnds == {"ahc", "w35", "c25"}   \* read and broadcast, cannot be dispatched: the handler ends the connection
Unreadable == {"empty", "oversize"}   \* no frame can be read: the handler ends the connection, nothing is broadcast
ClientEnds == {"midframe", "midhdr"}  \* the client goes away inside a frame: nothing is broadcast
Received(rq) == rq.op # "junk" \/ rq.arg \in ServerEnds
\* first byte of the frame
FB(rq) == CASE rq.op = "list"      -> 11
            [] rq.op = "sign"      -> 13
            [] rq.op = "remove"    -> 18
            [] rq.op = "removeall" -> 19
            [] rq.op = "lock"      -> 22
            [] rq.op = "unlock"    -> 23
            [] rq.op = "addhard"   -> 31
            [] rq.op = "listslots" -> 32
            [] rq.op = "wait"      -> WaitCode
            [] OTHER               -> rq.code   \* add (17 / 25), forward, badreq, junk: the byte is part of the request
\* a reply is written for it (a wait that parks is answered when it is released)
Answered(rq) == rq.op # "junk" /\ ~(rq.op = "wait" /\ InTable(rq.code))

PARKED  == R(TRUE, {}, {}, "parked")
CLOSED  == R(FALSE, {}, {}, "closed")

\* the sequential meaning of a request once it is dispatched: one ShimAgent action (it sets last').
\*   listslots  refused in remote mode;  badreq  a standard request whose body x/crypto's server cannot parse: failure
\*   reply, the shim is never called;  wait / junk touch no shim state
ShimOp(rq) ==
  \/ rq.op = "list"      /\ List
  \/ rq.op = "sign"      /\ Sign(rq.arg)
  \/ rq.op = "add"       /\ Add(rq.arg)
  \/ rq.op = "remove"    /\ Remove(rq.arg)
  \/ rq.op = "removeall" /\ RemoveAll
  \/ rq.op = "lock"      /\ Lock(rq.arg)
  \/ rq.op = "unlock"    /\ Unlock(rq.arg)
  \/ rq.op = "addhard"   /\ rq.arg \in Certs /\ AddHard(rq.arg)         \* either wire encoding
  \/ rq.op = "addhard"   /\ rq.arg \notin Certs /\ AddHardKey(rq.arg)
  \/ rq.op = "forward"   /\ Forward("ext")
  \/ rq.op \in {"listslots", "badreq"} /\ Un(state) /\ Lbl(rq.op, rq.arg, ERR)
  \/ rq.op = "wait"      /\ Un(state) /\ Lbl("wait", rq.arg, IF InTable(rq.code) THEN PARKED ELSE OK)
  \/ rq.op = "junk"      /\ Un(state) /\ Lbl("junk", rq.arg, CLOSED)

---------------------------------------------------------------------------
\* connections and waiters (effect functions on the record cs)
CS0 == [open |-> [c \in Conns |-> TRUE],  hs  |-> [c \in Conns |-> "ready"], cur |-> [c \in Conns |-> NoCur],
        q    |-> [c \in Conns |-> <<>>],  out |-> [c \in Conns |-> <<>>],
        ns   |-> [c \in Conns |-> 0],     nd  |-> [c \in Conns |-> 0]]
HV0 == [locker |-> 0, view |-> [u |-> {}, m |-> {}], adder |-> [h \in Certs |-> 0]]
EV0 == [k |-> "init", c |-> 0, n |-> 0, rq |-> NoRq, rel |-> {}, np |-> 0, wr |-> {}, res |-> OK]

Parked(s)      == {w \in Conns : s.hs[w] = "parked"}
ParkedOn(s, b) == {w \in Conns : s.hs[w] = "parked" /\ s.cur[w].rq.code = b}
MinOf(S)       == CHOOSE x \in S : \A y \in S : x <= y
\* who a broadcast of byte b wakes: everybody parked on it
Woken(s, b) == IF ~InTable(b) THEN {}
               ELSE IF Broken = "signal" /\ ParkedOn(s, b) # {} THEN {MinOf(ParkedOn(s, b))}
               ELSE ParkedOn(s, b)
\* a woken handler writes the reply of its wait request (lost when its client is gone) and serves on
ReleaseF(s, b) ==
  LET W == Woken(s, b) IN
  [s EXCEPT !.hs  = [w \in Conns |-> IF w \in W THEN "ready" ELSE s.hs[w]],
            !.cur = [w \in Conns |-> IF w \in W THEN NoCur ELSE s.cur[w]],
            !.out = [w \in Conns |-> IF w \in W /\ s.open[w]
                                     THEN Append(s.out[w], [c |-> w, n |-> s.cur[w].n, res |-> OK]) ELSE s.out[w]]]

RECURSIVE SumNs(_, _)
SumNs(s, S) == IF S = {} THEN 0 ELSE LET x == CHOOSE x \in S : TRUE IN s.ns[x] + SumNs(s, S \ {x})
InFlight(s, c) == Len(s.q[c]) + Len(s.out[c]) + (IF s.hs[c] \in {"rcvd", "called", "parked"} THEN 1 ELSE 0)

\* history: who holds the lock, what the view was when it was taken, who added which hardware certificate
HistF(c) == [locker |-> IF last'.op = "lock" /\ last'.res.ok THEN c
                        ELSE IF last'.op = "unlock" /\ last'.res.ok THEN 0 ELSE hv.locker,
             view   |-> IF last'.op = "lock" /\ last'.res.ok THEN [u |-> under, m |-> mem] ELSE hv.view,
             adder  |-> [h \in Certs |-> IF h \notin mem' THEN 0 ELSE IF h \notin mem THEN c ELSE hv.adder[h]]]

Ev(k, c, n, rq, rel, wr, res) ==
  [k |-> k, c |-> c, n |-> n, rq |-> rq, rel |-> rel, np |-> Cardinality(Parked(cs')), wr |-> wr, res |-> res]
Quiet == Un(state) /\ last' = last /\ hv' = hv      \* a step that does not reach the shim

DInit == /\ under \in InitUnder /\ ulocked = FALSE /\ upass = "none" /\ mem = {} /\ cache = {}
         /\ locked = FALSE /\ noUp = FALSE /\ now = 0 /\ dead = FALSE /\ forever = {}
         /\ last = [op |-> "init", arg |-> "", f |-> NoFault, res |-> OK]
         /\ cs = CS0 /\ hv = HV0 /\ ev = EV0

---------------------------------------------------------------------------
\* micro steps (concurrent model)

\* the client writes a request (a client that goes away inside the frame closes its end with it)
Send(c, rq) ==
  /\ cs.open[c] /\ InFlight(cs, c) < MaxPipe /\ SumNs(cs, Conns) < MaxSend
  /\ LET leaves == rq.op = "junk" /\ rq.arg \in ClientEnds IN
     cs' = [cs EXCEPT !.q[c] = Append(@, [n |-> cs.ns[c] + 1, rq |-> rq]), !.ns[c] = @ + 1,
                      !.open[c] = ~leaves, !.out[c] = IF leaves THEN <<>> ELSE @]
  /\ Quiet /\ ev' = Ev("send", c, cs.ns[c] + 1, rq, {}, {}, OK)

\* the handler reads the next frame and broadcasts its first byte BEFORE it dispatches it
Receive(c) ==
  /\ cs.hs[c] = "ready" /\ cs.q[c] # <<>>
  /\ LET m == Head(cs.q[c]) IN
     IF Received(m.rq)
     THEN LET s1 == IF Broken = "bcast_after" THEN cs ELSE ReleaseF(cs, FB(m.rq))
              W  == IF Broken = "bcast_after" THEN {} ELSE Woken(cs, FB(m.rq)) IN
          /\ cs' = [s1 EXCEPT !.q[c] = Tail(cs.q[c]), !.hs[c] = "rcvd", !.cur[c] = m]
          /\ ev' = Ev("recv", c, m.n, m.rq, {w \in W : cs.open[w]}, {}, OK)
     ELSE /\ cs' = [cs EXCEPT !.q[c] = <<>>, !.hs[c] = "gone"]
          /\ ev' = Ev("recv", c, m.n, m.rq, {}, {}, OK)
  /\ Quiet

Misroute(c) == IF \E x \in Conns : x # c /\ cs.open[x] THEN MinOf({x \in Conns : x # c /\ cs.open[x]}) ELSE c
\* the request is dispatched: ONE action of the sequential ShimAgent; the reply goes to the connection it came from
Handle(c) ==
  /\ cs.hs[c] = "rcvd"
  /\ LET m == cs.cur[c]  rq == m.rq IN
     /\ ShimOp(rq)
     /\ LET rep == [c |-> c, n |-> m.n, res |-> last'.res]
            to  == IF Broken = "misroute" THEN Misroute(c) ELSE c
            s0  == IF Broken = "bcast_after" /\ Answered(rq) THEN ReleaseF(cs, FB(rq)) ELSE cs IN
        cs' = CASE rq.op = "junk" -> [s0 EXCEPT !.hs[c] = "gone", !.cur[c] = NoCur, !.q[c] = <<>>]
                [] rq.op = "wait" /\ InTable(rq.code) -> [s0 EXCEPT !.hs[c] = "called"]
                [] OTHER -> [s0 EXCEPT !.hs[c] = "ready", !.cur[c] = NoCur,
                                       !.out[to] = IF s0.open[to] THEN Append(@, rep) ELSE @]
     /\ hv' = HistF(c)
     /\ ev' = Ev("handle", c, m.n, rq, {}, {}, last'.res)

\* the handler inside Wait reaches the notify list (until then a broadcast of its code passes it by)
Park(c) ==
  /\ cs.hs[c] = "called"
  /\ cs' = [cs EXCEPT !.hs[c] = "parked"]
  /\ Quiet /\ ev' = Ev("park", c, cs.cur[c].n, cs.cur[c].rq, {}, {}, OK)

\* the client reads the next reply
Deliver(c) ==
  /\ cs.open[c] /\ cs.out[c] # <<>>
  /\ cs' = [cs EXCEPT !.out[c] = Tail(@), !.nd[c] = @ + 1]
  /\ Quiet /\ ev' = Ev("deliver", c, Head(cs.out[c]).n, NoRq, {}, {}, Head(cs.out[c]).res)

\* the client closes its end (a handler parked in Wait stays on the notify list until the next request of its code)
Drop(c) ==
  /\ cs.open[c]
  /\ cs' = [cs EXCEPT !.open[c] = FALSE, !.out[c] = <<>>]
  /\ Quiet /\ ev' = Ev("drop", c, 0, NoRq, {}, {}, OK)

\* the handler of a connection whose client is gone sees the end of the stream (or a failed write) and returns;
\* requests written before the client left may or may not have been served
Gone(c) ==
  /\ ~cs.open[c] /\ cs.hs[c] = "ready"
  /\ cs' = [cs EXCEPT !.hs[c] = "gone", !.q[c] = <<>>]
  /\ Quiet /\ ev' = Ev("gone", c, 0, NoRq, {}, {}, OK)

\* a new connection takes the id
Reopen(c) ==
  /\ ~cs.open[c] /\ cs.hs[c] = "gone"
  /\ cs' = [cs EXCEPT !.open[c] = TRUE, !.hs[c] = "ready", !.q[c] = <<>>, !.out[c] = <<>>, !.nd[c] = cs.ns[c]]
  /\ Quiet /\ ev' = Ev("reopen", c, 0, NoRq, {}, {}, OK)

DTick == Tick /\ cs' = cs /\ hv' = hv /\ ev' = Ev("tick", 0, 0, NoRq, {}, {}, OK)

DNext == \/ \E c \in Conns, rq \in Reqs \ {Rq("drop", "", NoByte, "")} : Send(c, rq)
         \/ \E c \in Conns : Receive(c) \/ Handle(c) \/ Park(c) \/ Deliver(c) \/ Gone(c)
         \/ Rq("drop", "", NoByte, "") \in Reqs /\ \E c \in Conns : Drop(c) \/ Reopen(c)
         \/ DTick
DFair == \A c \in Conns : WF_dvars(Receive(c)) /\ WF_dvars(Handle(c)) /\ WF_dvars(Park(c)) /\ WF_dvars(Deliver(c))
DSpec == DInit /\ [][DNext]_dvars /\ DFair

---------------------------------------------------------------------------
\* whole operations on quiescent states (sequential phases)
Quiescent(s) == \A c \in Conns : /\ s.q[c] = <<>> /\ s.out[c] = <<>> /\ s.hs[c] \in {"ready", "parked", "gone"}
                                 /\ (s.hs[c] = "ready" => s.open[c]) /\ (s.hs[c] = "gone" => ~s.open[c])
\* everything in flight completes: replies are read, handlers of departed clients return
\* (the request counters ns / nd belong to the concurrent relation and stay untouched here)
Settle(s) == [s EXCEPT !.out = [c \in Conns |-> <<>>],
                       !.hs  = [c \in Conns |-> IF s.hs[c] = "ready" /\ ~s.open[c] THEN "gone" ELSE s.hs[c]]]

\* connection c performs request rq from start to end with nothing else going on:
\* Send ; Receive (broadcast) ; Handle ; [Park] ; Deliver (to c and to every released waiter)
SeqOp(c, rq) ==
  /\ Quiescent(cs) /\ cs.hs[c] = "ready"
  /\ ShimOp(rq)
  /\ LET W    == IF Received(rq) THEN Woken(cs, FB(rq)) ELSE {}
         live == {w \in W : cs.open[w]}
         s1   == IF Received(rq) THEN ReleaseF(cs, FB(rq)) ELSE cs
         s2   == CASE rq.op = "junk" -> [s1 EXCEPT !.hs[c] = "gone", !.open[c] = FALSE]
                   [] rq.op = "wait" /\ InTable(rq.code) -> [s1 EXCEPT !.hs[c] = "parked", !.cur[c] = [n |-> 0, rq |-> rq]]
                   [] OTHER -> s1 IN
     /\ cs' = Settle(s2)
     /\ hv' = HistF(c)
     /\ ev' = Ev("op", c, 0, rq, live, {<<w, 1>> : w \in live} \cup (IF Answered(rq) THEN {<<c, 1>>} ELSE {}), last'.res)

SeqDrop(c) ==
  /\ Quiescent(cs) /\ cs.open[c]
  /\ cs' = Settle([cs EXCEPT !.open[c] = FALSE])
  /\ Un(state) /\ Lbl("drop", "", OK) /\ hv' = hv /\ ev' = Ev("drop", c, 0, NoRq, {}, {}, OK)

SeqReopen(c) ==
  /\ Quiescent(cs) /\ ~cs.open[c] /\ cs.hs[c] = "gone"
  /\ cs' = [cs EXCEPT !.open[c] = TRUE, !.hs[c] = "ready"]
  /\ Un(state) /\ Lbl("reopen", "", OK) /\ hv' = hv /\ ev' = Ev("reopen", c, 0, NoRq, {}, {}, OK)

rDrop == Rq("drop", "", NoByte, "")      \* pseudo-request: clients may close (and reopen) connections in this configuration
SeqNext == \/ \E c \in Conns, rq \in Reqs \ {rDrop} : SeqOp(c, rq)
           \/ rDrop \in Reqs /\ \E c \in Conns : SeqDrop(c) \/ SeqReopen(c)
           \/ DTick
SeqSpec == DInit /\ [][SeqNext]_dvars

---------------------------------------------------------------------------
\* the properties.  a = label of the daemon step, e = last' = label of the shim-level operation handled in it
a  == ev'
Hd == a.k \in {"op", "handle"}                 \* a request is dispatched in this step (its linearisation point)
Bc == IF a.k \in {"op", "recv"} /\ Received(a.rq) THEN FB(a.rq) ELSE NoByte    \* the byte broadcast in this step
Hit == IF InTable(Bc) THEN ParkedOn(cs, Bc) ELSE {}
ShimState == <<under, mem, locked, ulocked, upass, dead, now>>

\* D1 - every request is answered exactly once, on the connection it came from, in order, with the answer of the
\* sequential semantics.  (i) Bookkeeping of the concurrent model: the replies a client has still to read are exactly
\* those of its own next requests, in order; nothing is lost, duplicated or misdelivered.
D1_Order == \A c \in Conns :
   LET busy == IF cs.hs[c] \in {"rcvd", "called", "parked"} THEN 1 ELSE 0 IN
   /\ \A i \in DOMAIN cs.out[c] : cs.out[c][i].c = c /\ cs.out[c][i].n = cs.nd[c] + i
   /\ (cs.open[c] /\ cs.hs[c] # "gone") =>
        /\ cs.nd[c] + Len(cs.out[c]) + busy + Len(cs.q[c]) = cs.ns[c]
        /\ busy = 1 => cs.cur[c].n = cs.nd[c] + Len(cs.out[c]) + 1
        /\ \A i \in DOMAIN cs.q[c] : cs.q[c][i].n = cs.nd[c] + Len(cs.out[c]) + busy + i
\* (ii) step form: a reply is written only when a request is dispatched or a waiter released, to its own connection
D1_Step ==
  /\ (a.k = "deliver") => (a.n = cs.nd[a.c] + 1 /\ Head(cs.out[a.c]).c = a.c)
  /\ (a.k = "handle") => \A c \in Conns :
        cs'.out[c] = IF c = a.c /\ Answered(a.rq) /\ cs.open[c]
                     THEN Append(cs.out[c], [c |-> c, n |-> cs.cur[c].n, res |-> last'.res]) ELSE cs.out[c]
  /\ (a.k \notin {"handle", "recv", "op"}) => \A c \in Conns : Len(cs'.out[c]) <= Len(cs.out[c])
\* (iii) sequential phases: the recorded whole operation is a step of the sequential design (result, state, who got
\* a reply).  This is the strict reading of "the answer is the one the sequential semantics gives".
D1_Seq == CASE a.k = "op"     -> SeqOp(a.c, a.rq)
            [] a.k = "drop"   -> SeqDrop(a.c)
            [] a.k = "reopen" -> SeqReopen(a.c)
            [] a.k = "tick"   -> DTick
            [] OTHER          -> FALSE
\* (iv) every request on a connection that stays open is answered (or its handler is legitimately parked in Wait)
D1_Live == \A c \in Conns : \A n \in 1..MaxSend :
             (cs.ns[c] >= n /\ cs.open[c]) ~> (cs.nd[c] >= n \/ ~cs.open[c] \/ cs.hs[c] \in {"parked", "gone"})

\* D2 - a handler parked in wait(c) is released by the next request with first byte c received on any connection,
\* together with all others parked on c, and by nothing else; codes >= TableSize never park
D2_Step ==
  /\ \A w \in Hit : cs'.hs[w] # "parked"
  /\ \A w \in Parked(cs) \ Hit : cs'.hs[w] = "parked" /\ cs'.cur[w].rq.code = cs.cur[w].rq.code
  /\ (a.k \in {"op", "recv"}) => a.rel = {w \in Hit : cs.open[w]}
  /\ \A w \in Parked(cs') \ Parked(cs) :
        /\ w = a.c /\ a.k \in {"op", "park"} /\ a.rq.op = "wait" /\ InTable(a.rq.code)
        /\ cs'.cur[w].rq.code = a.rq.code
  /\ (a.k = "op" /\ a.rq.op = "wait") =>
        IF InTable(a.rq.code) THEN cs'.hs[a.c] = "parked" /\ last'.res.by = "parked"
        ELSE cs'.hs[a.c] # "parked" /\ last'.res.ok /\ last'.res.by = ""
  /\ (a.k = "op") => a.np = Cardinality(Parked(cs'))        \* goroutines observed on the notify lists
  /\ (a.k = "op") => \A w \in a.rel : <<w, 1>> \in a.wr       \* a released client gets the reply of its wait request

\* D3 - while the shim is locked EVERY connection sees the locked behaviour; whichever connection unlocks with the
\* passphrase restores, for every connection, the view that was there when the lock was taken
D3_Step == Hd =>
  /\ C08_Step
  /\ (locked /\ e.op = "unlock" /\ e.arg = upass /\ ~dead) => e.res.ok                  \* no matter who locked
  /\ (locked /\ e.op = "unlock" /\ e.res.ok) => (under' = hv.view.u /\ mem' = hv.view.m)
  /\ (locked /\ e.op \in {"listslots", "badreq", "wait", "junk"}) => UNCHANGED <<under, mem, locked, ulocked>>
  /\ (~locked /\ e.op = "lock" /\ ~dead /\ ~ulocked) => e.res.ok

\* D4 - a hardware certificate added over one connection is visible to and usable by every connection from the reply
\* on (nothing in the formula depends on who added it), and is gone for all after removal / purge.  Upstream mode:
\* a listing is exactly the in-memory certificates plus what the underlying agent lists.
ListOf(m, u, ul) == [i \in Ids |-> B(i \in m) + B(i \in (IF ul THEN {} ELSE u))]
D4_Step == Hd =>
  /\ (e.op = "addhard") =>
        /\ (e.res.ok => (e.arg \in Certs /\ mem' = mem \cup {e.arg})) /\ (~e.res.ok => mem' = mem) /\ under' = under
        /\ (e.res.ok /\ e.arg \notin mem) => CertKey[e.arg] \in UList \cap Keys
        /\ (~locked /\ ~dead /\ e.arg \in Certs /\ (e.arg \in mem \/ CertKey[e.arg] \in UList \cap Keys)) => e.res.ok
  /\ (e.op = "list" /\ ~locked /\ ~dead) =>
        /\ e.res.ok
        /\ \A i \in Ids : Cnt(e.res, i) = ListOf(mem', under', ulocked')[i]
        /\ e.res.l1 \subseteq Ids
        /\ \A c \in mem' : Valid(c, now)
        /\ mem' = Filter.mem /\ under' = Filter.under
  /\ (e.op = "sign" /\ ~locked /\ ~dead) =>
        /\ (~ulocked /\ e.arg \in mem' /\ CertKey[e.arg] \in under') => (e.res.ok /\ e.res.by = CertKey[e.arg])
        /\ (~ulocked /\ e.arg \in under' /\ e.arg \notin mem') => e.res.ok
        /\ e.res.ok => /\ (e.arg \in mem' \/ e.arg \in under')
                       /\ e.res.by = (IF e.arg \in Certs THEN CertKey[e.arg] ELSE e.arg)
        /\ mem' = Filter.mem /\ under' = Filter.under
  /\ (e.op = "remove" /\ ~locked) =>
        /\ mem' = mem \ {e.arg} /\ e.res.ok = (e.arg \in mem \/ (~dead /\ ~ulocked /\ e.arg \in under))
        /\ (~dead /\ ~ulocked) => under' = under \ {e.arg}
  /\ (e.op = "removeall" /\ ~locked /\ ~dead /\ ~ulocked) => (e.res.ok /\ mem' = {} /\ under' = {})
  /\ (e.op = "add") => (mem' = mem /\ IF ~locked /\ ~dead /\ ~ulocked THEN e.res.ok /\ under' = under \cup {e.arg}
                                      ELSE ~e.res.ok /\ under' = under)
  /\ (e.op \notin {"list", "sign", "addhard", "remove", "removeall", "add"}) => (mem' = mem /\ under' = under)
  /\ (e.op = "forward" /\ ~dead) => (e.res.ok /\ e.res.by = "relayed")
  /\ (e.op \in {"listslots", "badreq"}) => ~e.res.ok

\* D5 - a connection that sends garbage or goes away inside a frame affects no other connection: the shim's state
\* is untouched, every other connection stays exactly where it was (a frame whose first byte WAS received releases
\* the waiters of that byte like any request), nothing crashes, nothing hangs, the offender gets no reply
Others(c) == \A x \in Conns \ ({c} \cup Hit) :
               /\ cs'.open[x] = cs.open[x] /\ cs'.hs[x] = cs.hs[x] /\ cs'.cur[x] = cs.cur[x]
               /\ cs'.q[x] = cs.q[x] /\ cs'.out[x] = cs.out[x]
D5_Step ==
  /\ Hd => (~last'.res.pan /\ last'.res.by # "hang")
  /\ (a.k \in {"op", "recv", "handle"} /\ a.rq.op = "junk") =>
        /\ UNCHANGED ShimState /\ Others(a.c)
        /\ (a.k = "op") => (last'.res.by = "closed" /\ (\A p \in a.wr : p[1] # a.c) /\ ~cs'.open[a.c] /\ cs'.hs[a.c] = "gone")
        /\ (a.k = "handle") => cs'.hs[a.c] = "gone"
  /\ (a.k \in {"drop", "gone", "reopen"}) => (UNCHANGED ShimState /\ Others(a.c))
  \* and no request of one connection ever touches another connection's queues
  /\ (a.k \in {"send", "deliver", "park"}) => \A x \in Conns \ {a.c} :
        cs'.q[x] = cs.q[x] /\ cs'.out[x] = cs.out[x] /\ cs'.hs[x] = cs.hs[x] /\ cs'.open[x] = cs.open[x]

P_D1 == [][D1_Step]_dvars
P_D2 == [][D2_Step]_dvars
P_D3 == [][D3_Step]_dvars
P_D4 == [][D4_Step]_dvars
P_D5 == [][D5_Step]_dvars
P_D1Seq == [][D1_Seq]_dvars
\* the shim-level formulas of the listed properties hold on every dispatched request of the composition as well
P_Shim == [][Hd => (C07_Step /\ C08_Step /\ C09_Step /\ C10_Step)]_dvars

DTypeOK == /\ TypeOK /\ ~noUp /\ cache = {}
           /\ \A c \in Conns : /\ cs.hs[c] \in {"ready", "rcvd", "called", "parked", "gone"}
                               /\ cs.open[c] \in BOOLEAN
                               /\ (cs.hs[c] \in {"rcvd", "called", "parked"}) = (cs.cur[c] # NoCur)
                               /\ (cs.hs[c] \in {"called", "parked"}) => (cs.cur[c].rq.op = "wait" /\ InTable(cs.cur[c].rq.code))
           /\ hv.locker \in Conns \cup {0} /\ (locked => hv.locker # 0)
\* while locked the view recorded at lock time IS the state (nothing moves under the lock)
D3_View == locked => (under = hv.view.u /\ mem = hv.view.m)
\* every in-memory hardware certificate was added by some connection and is still backed by ... (no claim on backing:
\* the key may have been removed since; the next listing purges it)
D4_Adder == \A h \in Certs : (h \in mem) = (hv.adder[h] # 0)
DView == <<state, cs, hv>>
DViewNoHist == <<state, cs>>      \* hv is history only: no formula's truth on a step depends on it beyond what the state fixes
=============================================================================
