SPECIFICATION Spec
CONSTANTS
  Waiters = {"w1", "w2", "w3", "w4"}
  Codes = {11, 35, 40}
  TableSize = 40
  WaitCode = 35
  Vias = {TRUE, FALSE}
  MaxReq = 3
  MaxBatch = 1
  Hist = FALSE
  Reps = {1}
  CountHist = FALSE
  GenBug = FALSE
  GenMod = 256
  Deliveries = {"single"}
  SplitReg = TRUE
INVARIANTS TypeOK Partition
PROPERTIES P_C20 P_LiveReleased P_LiveRequest P_LiveOutside P_LivePark
CHECK_DEADLOCK FALSE
