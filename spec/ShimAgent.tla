----------------------------- MODULE ShimAgent -----------------------------
(***************************************************************************)
(* Sequential semantics of agent/shimagent.Server over an underlying       *)
(* ssh-agent (the environment component "UnderAgent": identity set, lock   *)
(* flag, passphrase, reachability).  One action per public operation of    *)
(* the shim (= one critical section under Server.mu), plus environment     *)
(* actions (somebody talks to the underlying agent directly, time passes,  *)
(* the underlying agent misbehaves on the n-th request of an operation).   *)
(*                                                                         *)
(* Abstractions: identities are names; a certificate c has a public key    *)
(* CertKey[c], is valid in epoch 0 iff c \in V0 and in epoch 1 iff         *)
(* c \in V1, and carries a KeyID that decodes as a YSSHCA KeyID iff        *)
(* c \in Yss.  Listings are bags: res.l1 = ids listed at least once,       *)
(* res.l2 = ids listed at least twice (a certificate that is both in       *)
(* memory and in the underlying agent is listed from both namespaces).     *)
(*                                                                         *)
(* Properties C07..C10 are step formulas over (vars, vars', last').  They  *)
(* are model-checked as [][C_Step]_vars here and evaluated on every        *)
(* recorded step of the implementation in TraceShim.tla.                   *)
(***************************************************************************)
EXTENDS Naturals, FiniteSets, Sequences, TLC

CONSTANTS Keys,        \* plain key ids
          Certs,       \* certificate ids
          CertKey,     \* [Certs -> key ids] (may name a key outside Keys: never held)
          V0, V1,      \* certificates valid in epoch 0 / 1
          Yss,         \* certificates whose KeyID decodes as a YSSHCA KeyID
          Pass,        \* passphrases used by clients of the shim
          Modes,       \* subset of BOOLEAN: values of the no-upstream option explored
          Ops,         \* names of enabled operations (one cfg per property family)
          FaultKinds   \* fault kinds of the underlying agent explored ({} = none)

VARIABLES under,    \* identities held by the underlying agent (keys and certs-with-key)
          ulocked,  \* underlying agent locked
          upass,    \* its passphrase ("none" when unlocked)
          mem,      \* in-memory hardware certificates of the shim (Server.certs)
          cache,    \* Server.upstreamSSHCACertCache
          locked,   \* Server.locked
          noUp,     \* Server.noUpstreamSSHCACert (fixed at construction)
          now,      \* epoch 0 / 1
          dead,     \* connection to the underlying agent unusable (closed / desynchronised)
          forever,  \* certificates whose concrete validity is "unlimited" (subset of V0 \cap V1)
          last      \* label of the last step: operation, argument, fault, observed result

state == <<under, ulocked, upass, mem, cache, locked, noUp, now, dead, forever>>
vars  == <<under, ulocked, upass, mem, cache, locked, noUp, now, dead, forever, last>>

Ids == Keys \cup Certs
Valid(c, t) == IF t = 0 THEN c \in V0 ELSE c \in V1
KeysOfList(l) == (l \cap Keys) \cup {CertKey[c] : c \in l \cap Certs}

\* what the underlying agent answers to a list request (a locked agent answers "empty", not "error")
UList == IF ulocked THEN {} ELSE under

R(ok, l1, l2, by) == [ok |-> ok, pan |-> FALSE, l1 |-> l1, l2 |-> l2, by |-> by]
ERR == R(FALSE, {}, {}, "")
OK  == R(TRUE, {}, {}, "")
NoFault == [kind |-> "none", hit |-> "none"]
Lbl(op, arg, res) == last' = [op |-> op, arg |-> arg, f |-> NoFault, res |-> res]

---------------------------------------------------------------------------
\* Server.filter(): orphan purge (skipped on an empty list), then expiry purge in the
\* underlying agent and in memory.  Only called with a reachable agent.
Orphans(l, m) == IF l = {} THEN {} ELSE {c \in m : CertKey[c] \notin KeysOfList(l)}
ExpAgent(l)   == {c \in l \cap Certs : ~Valid(c, now)}
ExpMem(m)     == {c \in m : ~Valid(c, now)}
Filter ==
  LET l  == UList
      m1 == mem \ Orphans(l, mem)
      ea == ExpAgent(l)
      m2 == m1 \ (ExpMem(m1) \cup ea)
  IN [under |-> under \ ea, mem |-> m2, cache |-> cache \ (ea \cup (mem \ m2)), l |-> l \ ea]

\* the cache only ever holds certificates in Yss, so "cached or recognised now" = "in Yss"
Hidden(l, ch) == IF noUp THEN {c \in l \cap Certs : c \in ch \/ c \in Yss} ELSE {}
HiddenS(l)    == IF noUp THEN l \cap Certs \cap Yss ELSE {}
Fill(l, ch)   == IF noUp THEN ch \cup {c \in l \cap Certs : c \in Yss} ELSE ch

Init == /\ under \in SUBSET Ids /\ ulocked = FALSE /\ upass = "none"
        /\ mem = {} /\ locked = FALSE /\ now = 0 /\ dead = FALSE
        /\ noUp \in Modes
        /\ forever \in SUBSET (Certs \cap V0 \cap V1)
        /\ cache = IF noUp THEN {c \in under \cap Certs : c \in Yss} ELSE {}
        /\ last = [op |-> "init", arg |-> "", f |-> NoFault, res |-> OK]

Un(vs) == UNCHANGED vs

List ==
  /\ "list" \in Ops
  /\ IF locked THEN Un(state) /\ Lbl("list", "", OK)
     ELSE IF dead THEN Un(state) /\ Lbl("list", "", ERR)
     ELSE LET f == Filter
              v == f.l \ Hidden(f.l, f.cache) IN
          /\ under' = f.under /\ mem' = f.mem /\ cache' = Fill(f.l, f.cache)
          /\ Un(<<ulocked, upass, locked, noUp, now, dead, forever>>)
          /\ Lbl("list", "", R(TRUE, f.mem \cup v, f.mem \cap v, ""))

Signers ==
  /\ "signers" \in Ops
  /\ IF locked \/ dead THEN Un(state) /\ Lbl("signers", "", ERR)
     ELSE LET f  == Filter
              l2 == IF ulocked THEN {} ELSE f.under    \* second list request
              v  == l2 \ Hidden(l2, f.cache) IN
          /\ under' = f.under /\ mem' = f.mem /\ cache' = Fill(l2, f.cache)
          /\ Un(<<ulocked, upass, locked, noUp, now, dead, forever>>)
          /\ Lbl("signers", "", R(TRUE, f.mem \cup v, f.mem \cap v, ""))

Sign(i) ==
  /\ "sign" \in Ops
  /\ IF locked \/ dead THEN Un(state) /\ Lbl("sign", i, ERR)
     ELSE LET f       == Filter
              viaMem  == i \in f.mem
              refused == ~viaMem /\ i \in Certs /\ i \in Yss /\ noUp
              target  == IF viaMem THEN CertKey[i] ELSE i
              ok      == ~refused /\ ~ulocked /\ target \in f.under
              signer  == IF target \in Certs THEN CertKey[target] ELSE target IN
          /\ under' = f.under /\ mem' = f.mem /\ cache' = f.cache
          /\ Un(<<ulocked, upass, locked, noUp, now, dead, forever>>)
          /\ Lbl("sign", i, IF ok THEN R(TRUE, {}, {}, signer) ELSE ERR)

Add(i) ==
  /\ "add" \in Ops
  /\ LET ok == ~locked /\ ~dead /\ ~ulocked IN
     /\ under' = IF ok THEN under \cup {i} ELSE under
     /\ Un(<<ulocked, upass, mem, cache, locked, noUp, now, dead, forever>>)
     /\ Lbl("add", i, IF ok THEN OK ELSE ERR)

AddHard(c) ==
  /\ "addhard" \in Ops
  /\ LET ok == ~locked /\ (c \in mem \/ (~dead /\ CertKey[c] \in (UList \cap Keys))) IN
     /\ mem' = IF ok THEN mem \cup {c} ELSE mem
     /\ Un(<<under, ulocked, upass, cache, locked, noUp, now, dead, forever>>)
     /\ Lbl("addhard", c, IF ok THEN OK ELSE ERR)

\* adding a plain key as "hardware certificate" is refused (it is not a certificate)
AddHardKey(k) ==
  /\ "addhard" \in Ops
  /\ Un(state) /\ Lbl("addhard", k, ERR)

Remove(i) ==
  /\ "remove" \in Ops
  /\ LET inMem == i \in mem
         inAg  == ~dead /\ ~ulocked /\ i \in under
         ok    == ~locked /\ (inMem \/ inAg) IN
     /\ mem'   = IF ~locked THEN mem \ {i} ELSE mem
     /\ under' = IF ~locked /\ inAg THEN under \ {i} ELSE under
     /\ cache' = IF ok THEN cache \ {i} ELSE cache
     /\ Un(<<ulocked, upass, locked, noUp, now, dead, forever>>)
     /\ Lbl("remove", i, IF ok THEN OK ELSE ERR)

RemoveAll ==
  /\ "removeall" \in Ops
  /\ IF locked THEN Un(state) /\ Lbl("removeall", "", ERR)
     ELSE LET ok == ~dead /\ ~ulocked IN
          /\ mem' = {} /\ cache' = {}
          /\ under' = IF ok THEN {} ELSE under
          /\ Un(<<ulocked, upass, locked, noUp, now, dead, forever>>)
          /\ Lbl("removeall", "", IF ok THEN OK ELSE ERR)

Lock(p) ==
  /\ "lock" \in Ops
  /\ LET ok == ~locked /\ ~dead /\ ~ulocked IN
     /\ locked'  = IF ok THEN TRUE ELSE locked
     /\ ulocked' = IF ok THEN TRUE ELSE ulocked
     /\ upass'   = IF ok THEN p ELSE upass
     /\ Un(<<under, mem, cache, noUp, now, dead, forever>>)
     /\ Lbl("lock", p, IF ok THEN OK ELSE ERR)

Unlock(p) ==
  /\ "unlock" \in Ops
  /\ LET ok == locked /\ ~dead /\ ulocked /\ p = upass IN
     /\ locked'  = IF ok THEN FALSE ELSE locked
     /\ ulocked' = IF ok THEN FALSE ELSE ulocked
     /\ upass'   = IF ok THEN "none" ELSE upass
     /\ Un(<<under, mem, cache, noUp, now, dead, forever>>)
     /\ Lbl("unlock", p, IF ok THEN OK ELSE ERR)

\* Lock(p) is in flight - it holds the critical section and waits for the underlying agent - when another client's
\* List (LockRace) or RemoveAll (LockRace2) arrives.  The two critical sections are ordered one way or the other;
\* the label carries Lock's result in ok and the other call's outcome in l1/l2/by.  (Only staged when the lock will
\* be granted: shim unlocked, underlying agent unlocked and reachable.)
LockedBy(p) == /\ locked' = TRUE /\ ulocked' = TRUE /\ upass' = p
LockRace(p) ==
  /\ "lockrace" \in Ops /\ ~locked /\ ~dead /\ ~ulocked
  /\ \/ \* List first, then Lock
        LET f == Filter  v == f.l \ Hidden(f.l, f.cache) IN
        /\ under' = f.under /\ mem' = f.mem /\ cache' = Fill(f.l, f.cache) /\ LockedBy(p)
        /\ Un(<<noUp, now, dead, forever>>)
        /\ Lbl("lockrace", p, R(TRUE, f.mem \cup v, f.mem \cap v, "list-ok"))
     \/ \* Lock first, then List (of a locked shim: empty)
        /\ LockedBy(p) /\ Un(<<under, mem, cache, noUp, now, dead, forever>>)
        /\ Lbl("lockrace", p, R(TRUE, {}, {}, "list-ok"))
LockRace2(p) ==
  /\ "lockrace2" \in Ops /\ ~locked /\ ~dead /\ ~ulocked
  /\ \/ \* RemoveAll first, then Lock
        /\ under' = {} /\ mem' = {} /\ cache' = {} /\ LockedBy(p)
        /\ Un(<<noUp, now, dead, forever>>)
        /\ Lbl("lockrace2", p, R(TRUE, {}, {}, "ra-ok"))
     \/ \* Lock first: RemoveAll is refused and changes nothing
        /\ LockedBy(p) /\ Un(<<under, mem, cache, noUp, now, dead, forever>>)
        /\ Lbl("lockrace2", p, R(TRUE, {}, {}, "ra-err"))

\* Close refuses while locked; otherwise the connection to the underlying agent is gone.
Close ==
  /\ "close" \in Ops /\ ~dead
  /\ IF locked THEN Un(state) /\ Lbl("close", "", ERR)
     ELSE /\ dead' = TRUE
          /\ Un(<<under, ulocked, upass, mem, cache, locked, noUp, now, forever>>)
          /\ Lbl("close", "", OK)

\* Forward relays a raw request the shim does not interpret (no lock-flag check in the code);
\* the harness uses state-neutral requests.  by = "relayed": request and reply arrived byte-identical.
\* q = "big": a request whose size sits on a buffer boundary (4 KiB, 64 KiB, the 16 MiB frame limit, each -6..+0)
Forward(q) ==
  /\ "forward" \in Ops
  /\ Un(state)
  /\ Lbl("forward", q, IF dead THEN ERR ELSE R(TRUE, {}, {}, "relayed"))

\* Several clients forward raw requests at the same moment (yubiagent.ServeAgent forwards every request type it does
\* not know, one goroutine per connection).  Forward is a critical section like every other operation, so the storm
\* is a sequence of Forward steps: nothing changes, every caller gets the answer to its own request, all return.
ForwardStorm ==
  /\ "fstorm" \in Ops
  /\ Un(state)
  /\ Lbl("fstorm", "", IF dead THEN ERR ELSE R(TRUE, {}, {}, "relayed"))

\* Extension relays a custom extension request through the agent client (no lock-flag check in the code);
\* whether the underlying agent supports it is the environment's choice.  by = "relayed": the caller got the
\* answer to its own request.
Extension ==
  /\ "extension" \in Ops /\ Un(state)
  /\ \E r \in {ERR, R(TRUE, {}, {}, "relayed")} : (dead => r = ERR) /\ Lbl("extension", "", r)

\* A client uses every signer object returned by Signers (Sign and SignWithAlgorithm).  This is a
\* Signers call followed by signing calls, so it may purge like they do; by = "" unless a produced
\* signature failed to verify under the signer's public key.
SignersUse ==
  /\ "signersuse" \in Ops
  /\ \E gm \in SUBSET mem, gu \in SUBSET (under \cap Certs) :
        /\ mem' = mem \ gm /\ under' = under \ gu
        /\ cache' \in SUBSET (cache \cup (IF noUp THEN Certs \cap Yss \cap under ELSE {}))
        /\ Un(<<ulocked, upass, locked, noUp, now, dead, forever>>)
        /\ \E ok \in BOOLEAN : Lbl("signersuse", "", R(ok, {}, {}, ""))

---------------------------------------------------------------------------
\* environment: somebody else talks to the underlying agent directly; time passes
DirectRemove(i) == /\ "dremove" \in Ops /\ ~ulocked /\ i \in under /\ under' = under \ {i}
                   /\ Un(<<ulocked, upass, mem, cache, locked, noUp, now, dead, forever>>)
                   /\ Lbl("dremove", i, OK)
\* an identity (possibly a certificate issued on a key type the shim's own Add cannot carry, e.g. a FIDO security key)
\* is loaded into the underlying agent behind the shim's back
DirectAdd(i) == /\ "dadd" \in Ops /\ ~ulocked /\ i \notin under /\ under' = under \cup {i}
                /\ Un(<<ulocked, upass, mem, cache, locked, noUp, now, dead, forever>>)
                /\ Lbl("dadd", i, OK)
DirectLock   == /\ "dlock" \in Ops /\ ~ulocked /\ ulocked' = TRUE /\ upass' = "other"
                /\ Un(<<under, mem, cache, locked, noUp, now, dead, forever>>) /\ Lbl("dlock", "", OK)
\* assumption: nobody unlocks the underlying agent directly while the shim holds it locked
DirectUnlock == /\ "dlock" \in Ops /\ ulocked /\ ~locked /\ ulocked' = FALSE /\ upass' = "none"
                /\ Un(<<under, mem, cache, locked, noUp, now, dead, forever>>) /\ Lbl("dunlock", "", OK)
Tick == /\ "tick" \in Ops /\ now = 0 /\ now' = 1
        /\ Un(<<under, ulocked, upass, mem, cache, locked, noUp, dead, forever>>) /\ Lbl("tick", "", OK)

---------------------------------------------------------------------------
\* The underlying agent misbehaves on one request of the operation: a failure reply ("fail"),
\* an unparsable reply ("garbage"), a well-formed reply of another kind ("wrongkind"), a frame
\* declared larger than 16 MiB ("oversize") or a closed connection ("close").  The faulted
\* request is answered by the environment and NOT executed by the underlying agent.  The
\* specification of a faulted step is deliberately loose (it is the property, not the code):
\*   - the caller sees an error unless the faulted request was a removal whose outcome the
\*     operation ignores by design (hit = "remove" of an identity it held in memory);
\*   - nothing is added anywhere; what disappears is at most what the operation was allowed
\*     to purge or remove; lock state does not change; the process does not crash.
ConnKilling == {"oversize", "close"}
FaultArgs(op) == CASE op \in {"sign", "add", "remove"} -> Ids
                   [] op = "forward" -> {"ext", "list"}
                   [] op = "addhard" -> Certs
                   [] op \in {"lock", "unlock"} -> Pass
                   [] OTHER -> {""}
Purgeable == Orphans(UList, mem) \cup ExpAgent(UList) \cup ExpMem(mem)
MayGo(op, arg) == CASE op \in {"list", "signers", "sign"} -> Purgeable
                    [] op = "remove"    -> {arg}
                    [] op = "removeall" -> Ids
                    [] OTHER -> {}
Primary(op) == CASE op \in {"list", "signers", "addhard"} -> {"list"}
                 [] op = "sign"      -> {"list", "sign"}
                 [] op = "add"       -> {"add"}
                 [] op = "remove"    -> {"remove"}
                 [] op = "removeall" -> {"removeall"}
                 [] op = "lock"      -> {"lock"}
                 [] op = "unlock"    -> {"unlock"}
                 [] op = "forward"   -> {"raw", "list"}
                 [] OTHER -> {}
Hits(op) == Primary(op) \cup (IF op \in {"list", "signers", "sign"} THEN {"remove"} ELSE {})
\* may the operation succeed although request kind h was faulted?  Removals whose outcome the operation
\* ignores by design; and Forward, which relays any reply it can read (a failure reply or an unparsable
\* body is the underlying agent's answer, relayed byte-for-byte like any other).
Ignorable(op, arg, h, kind) == \/ h = "remove" /\ (op \in {"list", "signers", "sign"} \/ arg \in mem)
                               \/ op = "forward" /\ kind \notin ConnKilling
FaultStep(op, arg, kind, h) ==
  /\ op \in Ops /\ (~locked \/ op \in {"unlock", "forward"}) /\ ~dead /\ h \in Hits(op)
  /\ \E gm \in SUBSET (mem \cap MayGo(op, arg)), gu \in SUBSET (under \cap MayGo(op, arg)), ok \in BOOLEAN :
       /\ (ok => Ignorable(op, arg, h, kind))
       /\ mem' = mem \ gm /\ under' = under \ gu
       /\ cache' \in SUBSET (cache \cup (IF noUp THEN Certs \cap Yss \cap under ELSE {}))
       /\ dead' = (kind \in ConnKilling)
       /\ Un(<<ulocked, upass, locked, noUp, now, forever>>)
       /\ LET vv == (IF ulocked THEN {} ELSE under') \ HiddenS(under')
              sg == IF arg \in Certs THEN CertKey[arg] ELSE arg IN
          \E r \in (IF ~ok THEN {ERR} ELSE IF op = "forward" THEN {R(TRUE, {}, {}, "relayed")}
                    ELSE {OK, R(TRUE, mem' \cup vv, mem' \cap vv, ""), R(TRUE, {}, {}, sg)}) :
            last' = [op |-> op, arg |-> arg, f |-> [kind |-> kind, hit |-> h], res |-> r]

\* shimagent.New against an agent that may misbehave on the first request
Construct(mode, kind) ==
  /\ "new" \in Ops /\ Un(state)
  /\ last' = [op |-> "new", arg |-> mode,
              f |-> IF kind = "none" \/ mode = "up" THEN NoFault ELSE [kind |-> kind, hit |-> "list"],
              res |-> IF mode = "up" \/ kind = "none" THEN OK ELSE ERR]

\* the same specification of a faulted step as a predicate over (vars, vars', last'), used to judge
\* recorded steps without enumeration (FaultStep => FaultAllowed)
FaultAllowed ==
  LET f == last' IN
  /\ f.f.kind \in {"fail", "garbage", "wrongkind", "oversize", "close"} /\ f.f.hit \in Hits(f.op)
  /\ (~locked \/ f.op \in {"unlock", "forward"}) /\ ~dead /\ ~f.res.pan
  /\ mem' \subseteq mem /\ (mem \ mem') \subseteq MayGo(f.op, f.arg)
  /\ under' \subseteq under /\ (under \ under') \subseteq MayGo(f.op, f.arg)
  /\ cache' \subseteq (cache \cup (IF noUp THEN Certs \cap Yss \cap under ELSE {}))
  /\ dead' = (f.f.kind \in ConnKilling)
  /\ Un(<<ulocked, upass, locked, noUp, now, forever>>)
  /\ (f.res.ok => Ignorable(f.op, f.arg, f.f.hit, f.f.kind))
  /\ f.res.l1 \subseteq (mem' \cup under') /\ f.res.l2 \subseteq f.res.l1
  /\ (f.op = "forward" /\ f.res.ok) => f.res.by = "relayed"

NextOps == \/ Extension
           \/ \E mode \in {"up", "noup"}, kind \in FaultKinds \cup {"none"} : Construct(mode, kind)
           \/ List \/ Signers \/ RemoveAll \/ Close \/ SignersUse \/ ForwardStorm
           \/ \E i \in Ids : Sign(i) \/ Add(i) \/ Remove(i)
           \/ \E c \in Certs : AddHard(c)
           \/ \E k \in Keys : AddHardKey(k)
           \/ \E p \in Pass : Lock(p) \/ Unlock(p) \/ LockRace(p) \/ LockRace2(p)
           \/ \E q \in {"ext", "list"} \cup (IF "fwdbig" \in Ops THEN {"big"} ELSE {}) : Forward(q)
NextEnv == \/ Tick \/ DirectLock \/ DirectUnlock \/ \E i \in Ids : DirectRemove(i) \/ DirectAdd(i)
NextFault == \E op \in Ops, kind \in FaultKinds, h \in {"list", "sign", "add", "remove", "removeall", "lock", "unlock", "raw"} :
               \E arg \in FaultArgs(op) : FaultStep(op, arg, kind, h)
Next == NextOps \/ NextEnv \/ NextFault
Spec == Init /\ [][Next]_vars

---------------------------------------------------------------------------
\* properties (step formulas)
e == last'
NF == e.f.kind = "none"
Cnt(r, i) == IF i \in r.l2 THEN 2 ELSE IF i \in r.l1 THEN 1 ELSE 0
B(x) == IF x THEN 1 ELSE 0
ShimOps == {"list", "signers", "sign", "add", "addhard", "remove", "removeall", "lock", "unlock", "close", "forward", "extension", "fstorm"}
\* an operation that does not return delivers none of the results the properties speak about (the harness watchdog
\* records it as by = "hang")
Returned == e.op \in ShimOps \cup {"lockrace", "lockrace2"} => e.res.by # "hang"

\* C07 - no expired / premature / keyless certificate is listed or used; they are purged
C07_Step ==
  /\ Returned
  /\ (e.op \in {"list", "signers"} /\ NF /\ e.res.ok /\ ~locked) =>
        /\ \A c \in e.res.l1 \cap Certs : Valid(c, now)
        /\ \A c \in mem' : Valid(c, now)
        /\ (~ulocked /\ ~dead) => \A c \in under' \cap Certs : Valid(c, now)
        /\ \A c \in mem : (UList # {} /\ CertKey[c] \notin KeysOfList(UList)) => c \notin mem'
        /\ (UList = {}) => (mem' = mem \ ExpMem(mem))
  /\ (e.op = "sign" /\ NF /\ e.arg \in Certs /\ ~Valid(e.arg, now)) => ~e.res.ok
  /\ (e.op \in {"list", "signers", "sign"} /\ NF) =>
        \A c \in forever : /\ (c \in mem /\ (UList = {} \/ CertKey[c] \in KeysOfList(UList))) => c \in mem'
                           /\ (c \in under) => c \in under'

\* C08 - a locked shim discloses and changes nothing; only the passphrase unlocks
C08_Step ==
  /\ Returned
  /\ (locked /\ e.op = "unlock" /\ NF /\ ~dead /\ e.arg = upass) => e.res.ok     \* only the passphrase unlocks - and it does
  /\ (locked /\ e.op \in ShimOps) =>
        /\ (e.op = "list" => (e.res.ok /\ e.res.l1 = {}))
        /\ (e.op \in {"sign", "signers", "add", "remove", "removeall", "addhard", "lock", "close"} => ~e.res.ok)
        /\ (e.op # "unlock" => UNCHANGED <<under, mem, locked, ulocked>>)
        /\ (e.op = "unlock" =>
              /\ UNCHANGED <<under, mem>>
              /\ (e.arg # upass => (~e.res.ok /\ locked'))
              /\ (~e.res.ok => locked')
              /\ (e.res.ok => (~locked' /\ ~ulocked')))
  /\ (~locked /\ e.op = "unlock") => (~e.res.ok /\ UNCHANGED <<under, mem, locked, ulocked>>)
  /\ (~locked /\ e.op = "lock") =>
        /\ UNCHANGED <<under, mem>>
        /\ (e.res.ok => (locked' /\ ulocked' /\ ~ulocked))
        /\ (~e.res.ok => (~locked' /\ ulocked' = ulocked))
  /\ (e.op \in ShimOps \ {"lock", "unlock"}) => locked' = locked
  \* a call that overlaps a lock in flight is served entirely before the lock or entirely after it: a listing shows
  \* the whole pre-lock view or nothing; a removal removes everything and succeeds or fails and changes nothing
  /\ (e.op = "lockrace" /\ NF /\ ~locked /\ ~dead /\ ~ulocked) =>
        /\ e.res.ok /\ locked' /\ e.res.by = "list-ok"
        /\ LET f == Filter  v == f.l \ Hidden(f.l, f.cache) IN
           \/ e.res.l1 = {}
           \/ (e.res.l1 = f.mem \cup v /\ e.res.l2 = f.mem \cap v)
  /\ (e.op = "lockrace2" /\ NF /\ ~locked /\ ~dead /\ ~ulocked) =>
        /\ e.res.ok /\ locked'
        /\ \/ (e.res.by = "ra-ok" /\ under' = {} /\ mem' = {})
           \/ (e.res.by = "ra-err" /\ under' = under /\ mem' = mem)

\* C09 - no-upstream mode hides the underlying agent's YSSHCA certificates, nothing else
Vis == UList \ ExpAgent(UList)          \* what the underlying agent can contribute to a listing
C09_Step ==
  /\ Returned
  /\ (e.op \in {"list", "signers"} /\ NF /\ e.res.ok /\ ~locked) =>
        LET v == IF ulocked' THEN {} ELSE under' IN
        /\ noUp  => \A c \in Certs \cap Yss : Cnt(e.res, c) = B(c \in mem')
        /\ noUp  => \A i \in v \ (Certs \cap Yss) : Cnt(e.res, i) = 1 + B(i \in mem')
        /\ ~noUp => \A i \in v : Cnt(e.res, i) = 1 + B(i \in mem')
  /\ (e.op = "sign" /\ NF /\ noUp /\ e.arg \in Certs \cap Yss /\ e.arg \notin mem') => ~e.res.ok
  \* (in-memory first: a certificate that is also in memory is signed for through its plain key)
  /\ (e.op = "sign" /\ NF /\ ~locked /\ ~dead /\ ~ulocked /\ e.arg \in under' /\ e.arg \notin mem'
        /\ ~(noUp /\ e.arg \in Certs \cap Yss)) => e.res.ok
  /\ (e.op = "sign" /\ NF /\ ~locked /\ ~dead /\ ~ulocked /\ e.arg \in mem' /\ CertKey[e.arg] \in under') => e.res.ok
  /\ (e.op = "remove" /\ NF /\ ~locked /\ ~dead /\ ~ulocked /\ e.arg \in under) => (e.res.ok /\ e.arg \notin under')

C10_Live ==
  /\ (e.op = "addhard" /\ NF) =>
        /\ (e.res.ok /\ e.arg \notin mem) => (e.arg \in Certs /\ CertKey[e.arg] \in UList \cap Keys)
        /\ (e.arg \in mem /\ ~locked) => (e.res.ok /\ mem' = mem)
        /\ (e.res.ok => mem' = mem \cup {e.arg}) /\ (~e.res.ok => mem' = mem)
        \* (acceptance is only demanded for a currently valid certificate: refusing an expired one at the door is allowed)
        /\ (~locked /\ ~dead /\ e.arg \in Certs /\ Valid(e.arg, now) /\ CertKey[e.arg] \in UList \cap Keys) => e.res.ok
        /\ under' = under
  /\ (e.op \in {"list", "signers"} /\ NF /\ e.res.ok /\ ~locked) =>
        LET v == IF ulocked' THEN {} ELSE under' IN
        /\ \A i \in Ids : Cnt(e.res, i) <= B(i \in mem') + B(i \in v)
        /\ \A i \in Ids : Cnt(e.res, i) >= B(i \in mem')
        /\ \A i \in v : (i \in Keys \/ ~(noUp /\ i \in Yss)) => Cnt(e.res, i) = B(i \in mem') + 1
        /\ \A i \in under : (i \in Keys \/ Valid(i, now)) => i \in under'
        /\ \A c \in mem : (Valid(c, now) /\ (UList = {} \/ CertKey[c] \in KeysOfList(UList))) => c \in mem'
        /\ mem' \subseteq mem /\ under' \subseteq under
  /\ (e.op = "signersuse") => e.res.by = ""     \* every signature a returned signer produces verifies under its key
  /\ (e.op = "sign" /\ NF) =>
        /\ e.res.ok => (e.res.by = (IF e.arg \in Certs THEN CertKey[e.arg] ELSE e.arg))
        /\ e.res.ok => (e.arg \in mem' \/ e.arg \in under')
        /\ (~locked /\ ~dead /\ ~ulocked /\ e.arg \in mem' /\ CertKey[e.arg] \in under') => e.res.ok
        /\ (~locked /\ ~dead /\ ~ulocked /\ e.arg \in under' /\ e.arg \notin mem'
              /\ ~(noUp /\ e.arg \in Certs \cap Yss)) => e.res.ok
        /\ \A i \in under : (i \in Keys \/ Valid(i, now)) => i \in under'
        /\ \A c \in mem : (Valid(c, now) /\ (UList = {} \/ CertKey[c] \in KeysOfList(UList))) => c \in mem'
        /\ mem' \subseteq mem /\ under' \subseteq under
  /\ (e.op = "add" /\ NF) =>
        /\ mem' = mem
        /\ IF ~locked /\ ~dead /\ ~ulocked THEN (e.res.ok /\ under' = under \cup {e.arg})
           ELSE (~e.res.ok /\ under' = under)
  /\ (e.op = "remove" /\ NF /\ ~locked) =>
        /\ mem' = mem \ {e.arg}
        /\ IF ~dead /\ ~ulocked THEN under' = under \ {e.arg} ELSE under' = under
        /\ e.res.ok = (e.arg \in mem \/ (~dead /\ ~ulocked /\ e.arg \in under))
  \* "removing all makes it disappear" is demanded when the removal succeeds; when the underlying agent refuses,
  \* the call fails and nothing new appears (whether the in-memory table is cleared anyway is not stated)
  /\ (e.op = "removeall" /\ NF /\ ~locked) =>
        IF ~dead /\ ~ulocked THEN (e.res.ok /\ under' = {} /\ mem' = {})
        ELSE (~e.res.ok /\ under' = under /\ mem' \subseteq mem)
  /\ (e.op \in {"forward", "fstorm"} /\ NF) => (UNCHANGED <<under, mem>> /\ (~dead => (e.res.ok /\ e.res.by = "relayed")))
  /\ (e.op = "extension") => (UNCHANGED <<under, mem>> /\ (e.res.ok => e.res.by = "relayed"))
  \* construction (shimagent.New): lists the underlying agent only in no-upstream mode; a failure of
  \* that request is an error, never a crash
  /\ (e.op = "new") => (e.res.ok = (e.arg = "up" \/ NF))
  /\ (~NF /\ e.op # "new") =>
        /\ (e.res.ok => Ignorable(e.op, e.arg, e.f.hit, e.f.kind))
        /\ (e.op = "forward" /\ e.res.ok) => e.res.by = "relayed"
        /\ \A c \in mem : (c \notin MayGo(e.op, e.arg)) => c \in mem'
        /\ mem' \subseteq mem /\ under' \subseteq under

\* C10 - hardware certificates are bound to a held key; everything else passes through intact
C10_Step ==
  /\ ~e.res.pan /\ Returned
  \* what the shim does once its connection to the underlying agent is gone (Close, or a fault that ended the
  \* connection) is not stated beyond "an error, never a crash, never discards a still-valid in-memory
  \* certificate": nothing appears, valid in-memory certificates stay unless the operation is a removal
  /\ (dead /\ e.op \in ShimOps) =>
        /\ mem' \subseteq mem /\ under' \subseteq under
        /\ (e.op \notin {"remove", "removeall"}) => \A c \in mem : Valid(c, now) => c \in mem'
  /\ (~dead \/ e.op \notin ShimOps) => C10_Live

Props == C07_Step /\ C08_Step /\ C09_Step /\ C10_Step
\* the loose fault specification really contains the enumerating one
P_FaultRefines == [][(last'.f.kind # "none" /\ last'.op # "new") => FaultAllowed]_vars
P_C07 == [][C07_Step]_vars
P_C08 == [][C08_Step]_vars
P_C09 == [][C09_Step]_vars
P_C10 == [][C10_Step]_vars

\* sanity (type) invariant
TypeOK == /\ under \subseteq Ids /\ mem \subseteq Certs /\ cache \subseteq Certs
          /\ (locked => ulocked) /\ (~noUp => cache = {})
          /\ forever \subseteq V0 \cap V1
View == state
=============================================================================
