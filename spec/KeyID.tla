------------------------------- MODULE KeyID -------------------------------
(***************************************************************************)
(* The KeyID of a YSSHCA certificate (properties C05 and C19).             *)
(*                                                                         *)
(* Part 1 (C05): the KeyID value space, the versions supported, the        *)
(* consistency rules, an abstract JSON text (which fields it contains,     *)
(* under which exact name, how often, with which type), the single-field   *)
(* mutations of an encoder output, and when encoding / decoding succeed.   *)
(* Part 2 (C19): the certificate type as an ordered rule list over the     *)
(* decoded KeyID and the touchless-sudo-hosts critical option, the label,  *)
(* and the principal suffixes.                                             *)
(* Part 3: an event = one call of the implementation (input class +        *)
(* observed result).  C05_Holds / C19_Holds are the properties as          *)
(* predicates on one event.  The state machine walks the complete case     *)
(* space (one action per case kind); the event of the design for each case *)
(* must satisfy the properties (P_C05, P_C19: TLC checks the formalisation *)
(* before it is used as an oracle); the same predicates judge the events   *)
(* recorded from the real code in TraceKeyID.tla.                          *)
(*                                                                         *)
(* Everything is transcribed from the property statements, not from the    *)
(* code.  Concrete strings (principals, transaction ids, comments) are     *)
(* opaque: the spec only concatenates and compares them.                   *)
(***************************************************************************)
EXTENDS Integers, Sequences, FiniteSets, TLC

CONSTANTS TPs,      \* touch policy values explored (the defined range is 0..3)
          Usages,   \* usage values explored
          Vers,     \* version values explored
          Kinds     \* case kinds walked by this configuration

VARIABLE ev         \* the event (case + result) being examined

---------------------------------------------------------------------------
\* Part 1: KeyID values, texts, encode / decode

DefaultTouch == 0
NeverTouch   == 1
AlwaysTouch  == 2
CachedTouch  == 3

KeyIDs == [ff : BOOLEAN, hw : BOOLEAN, hl : BOOLEAN, nonce : BOOLEAN, tp : TPs, usage : Usages, ver : Vers]
ZeroK  == [ff |-> FALSE, hw |-> FALSE, hl |-> FALSE, nonce |-> FALSE, tp |-> 0, usage |-> 0, ver |-> 0]

Supported(v) == v = 1

\* "headless excludes hardware-key and firefighter and requires never-touch;
\*  nonce excludes firefighter and headless and requires never-touch"
HeadlessRule(k) == k.hl    => (~k.hw /\ ~k.ff /\ k.tp = NeverTouch)
NonceRule(k)    == k.nonce => (~k.ff /\ ~k.hl /\ k.tp = NeverTouch)
Consistent(k)   == HeadlessRule(k) /\ NonceRule(k)

EncodeOK(k)  == Supported(k.ver) /\ Consistent(k)
Encodable    == {k \in KeyIDs : EncodeOK(k)}

StrFields  == {"prins", "transID", "reqUser", "reqIP", "reqHost"}
BoolFields == {"isFirefighter", "isHWKey", "isHeadless", "isNonce"}
NumFields  == {"usage", "touchPolicy", "ver"}
AllFields  == StrFields \cup BoolFields \cup NumFields
\* fields a version-1 text must contain ("usage" is optional)
Required(v) == IF v = 1 THEN AllFields \ {"usage"} ELSE {}

\* value of field f set to v (booleans are 0/1; string fields carry no abstract value)
SetF(k, f, v) ==
  CASE f = "isFirefighter" -> [k EXCEPT !.ff = (v = 1)]
    [] f = "isHWKey"       -> [k EXCEPT !.hw = (v = 1)]
    [] f = "isHeadless"    -> [k EXCEPT !.hl = (v = 1)]
    [] f = "isNonce"       -> [k EXCEPT !.nonce = (v = 1)]
    [] f = "touchPolicy"   -> [k EXCEPT !.tp = v]
    [] f = "usage"         -> [k EXCEPT !.usage = v]
    [] f = "ver"           -> [k EXCEPT !.ver = v]
    [] OTHER               -> k
ValuesOf(f) == IF f \in BoolFields THEN {0, 1}
               ELSE IF f = "touchPolicy" THEN TPs
               ELSE IF f = "usage" THEN Usages
               ELSE IF f = "ver" THEN Vers
               ELSE {0}

\* An abstract JSON text: the value k a decoder that matches names case-insensitively and lets the
\* last occurrence win would read, and for every field how it occurs in the text.
Pristine == [present |-> TRUE, exact |-> TRUE, dup |-> FALSE, rt |-> TRUE]
Texts    == [k : KeyIDs, a : [AllFields -> [present : BOOLEAN, exact : BOOLEAN, dup : BOOLEAN, rt : BOOLEAN]]]
Encode(k) == [k |-> k, a |-> [f \in AllFields |-> Pristine]]

\* single-field mutations
Delete(t, f)  == [k |-> SetF(t.k, f, 0), a |-> [t.a EXCEPT ![f].present = FALSE]]   \* an absent field reads as zero
Rename(t, f)  == [t EXCEPT !.a[f].exact = FALSE]                                   \* other letter case: still read, not "contained"
Dup(t, f, v)  == [k |-> SetF(t.k, f, v), a |-> [t.a EXCEPT ![f].dup = TRUE]]        \* second occurrence with value v: last wins
Retype(t, f)  == [t EXCEPT !.a[f].rt = FALSE]                                      \* value of another JSON type
Nullify(t, f) == [k |-> SetF(t.k, f, 0), a |-> t.a]                                \* JSON null: contained, reads as zero
MutOps == {"delete", "rename", "dup", "retype", "null"}
Mut(t, f, m, v) == CASE m = "delete" -> Delete(t, f) [] m = "rename" -> Rename(t, f) [] m = "dup" -> Dup(t, f, v)
                     [] m = "retype" -> Retype(t, f) [] m = "null" -> Nullify(t, f)

Present(t)  == {f \in AllFields : t.a[f].present /\ t.a[f].exact}     \* fields the text contains (exact names)
WellTyped(t) == \A f \in AllFields : t.a[f].present => t.a[f].rt
DecodeOK(t) == /\ WellTyped(t)
               /\ Supported(t.k.ver)
               /\ Required(t.k.ver) \subseteq Present(t)
               /\ Consistent(t.k)
Decoded(t)  == t.k

\* the decode half of C05 as a post-condition on whatever came back
DecodePost(ok, k, present) == ok => (Supported(k.ver) /\ Required(k.ver) \subseteq present /\ Consistent(k))

---------------------------------------------------------------------------
\* Part 2: type, label, principals

Opts == {"absent", "empty", "set"}       \* the touchless-sudo-hosts critical option
OptSet(o) == o = "set"                   \* "presence of a non-empty option"

KnownTypes == {"TouchSudo", "Touchless", "TouchlessSudo", "Firefighter", "Nonce", "TouchlessInAgent", "TouchlessSudoInAgent"}
Types      == KnownTypes \cup {"Unknown"}

\* ordered rule list: the first rule whose guard holds decides; nonce > firefighter > touch policy
RuleOrder == <<"nonce", "ff-hw", "ff-agent", "touch", "never">>
Guard(r, k) == CASE r = "nonce"    -> k.nonce
                 [] r = "ff-hw"    -> k.ff /\ k.hw
                 [] r = "ff-agent" -> k.ff /\ ~k.hw
                 [] r = "touch"    -> k.tp \in {AlwaysTouch, CachedTouch}
                 [] r = "never"    -> k.tp = NeverTouch
Result(r, o) == CASE r = "nonce"    -> "Nonce"
                  [] r = "ff-hw"    -> "Firefighter"
                  [] r = "ff-agent" -> IF OptSet(o) THEN "TouchlessSudoInAgent" ELSE "TouchlessInAgent"
                  [] r = "touch"    -> "TouchSudo"
                  [] r = "never"    -> IF OptSet(o) THEN "TouchlessSudo" ELSE "Touchless"
Selected(k) == {i \in 1..Len(RuleOrder) : Guard(RuleOrder[i], k)}
First(s)    == CHOOSE i \in s : \A j \in s : i <= j
TypeOfK(k, o) == IF Selected(k) = {} THEN "Unknown" ELSE Result(RuleOrder[First(Selected(k))], o)
\* nil certificate or undecodable KeyID: unknown
TypeOf(isnil, decodes, k, o) == IF isnil \/ ~decodes THEN "Unknown" ELSE TypeOfK(k, o)

TypeName == [TouchSudo |-> "TouchSudo", Touchless |-> "Touchless", TouchlessSudo |-> "TouchlessSudo",
             Firefighter |-> "FireFighterSudo", Nonce |-> "Nonce", TouchlessInAgent |-> "TouchlessInAgent",
             TouchlessSudoInAgent |-> "TouchlessSudoInAgent"]
LabelOf(ty, tid) == TypeName[ty] \o "SSH-" \o tid                    \* only for ty \in KnownTypes

Suffix(ty) == IF ty = "TouchSudo" THEN ":touch"
              ELSE IF ty \in {"Touchless", "TouchlessSudo"} THEN ":notouch"
              ELSE ""
PrincipalsOf(pin, ty) == IF ty = "Unknown" \/ pin = <<>> THEN <<>>
                         ELSE [i \in DOMAIN pin |-> pin[i] \o Suffix(ty)]
\* comment the shim agent's listing attaches to a certificate with original comment c
ShimComment(ty, tid, c) == IF ty = "Unknown" THEN c
                           ELSE IF c = "" THEN LabelOf(ty, tid) ELSE LabelOf(ty, tid) \o "-" \o c

---------------------------------------------------------------------------
\* Part 3: cases, events, properties

\* case descriptor (homogeneous): kind, KeyID value, mutated field / operator / value, option, junk kind,
\* type and list length of a direct principals call, comment class and path of a shim listing; for "dec" n and for
\* "prins" v is the index of the judged call among repeated calls with the same input
Cs(kind, k, f, m, v, o, j, ty, n, cm, path) ==
  [kind |-> kind, k |-> k, f |-> f, m |-> m, v |-> v, opt |-> o, j |-> j, ty |-> ty, n |-> n, cm |-> cm, path |-> path]
C0 == Cs("init", ZeroK, "", "", 0, "absent", "", "", 0, "", "")
Free == [C0 EXCEPT !.kind = "free"]      \* events of the random drivers carry no case

\* texts no decoder may accept (arbitrary JSON values, arbitrary bytes, damaged encoder outputs)
JunkKinds == {"null", "array", "number", "string", "true", "emptyobj", "nested", "wrapped", "empty", "bytes",
              "truncated", "trailing", "concat", "arrayofkeyid", "quoted"}

E0 == [op |-> "init", cs |-> C0,
       k |-> ZeroK, sin |-> "", present |-> {}, nil |-> FALSE, opt |-> "absent", pin |-> <<>>, tyin |-> "", ocmt |-> "",
       pan |-> FALSE, ok |-> FALSE, dok |-> FALSE, dk |-> ZeroK, sout |-> "", tid |-> "",
       ty |-> "", lok |-> FALSE, label |-> "", pout |-> <<>>, found |-> FALSE, cmt |-> "",
       rep |-> 0, ok1 |-> FALSE, dk1 |-> ZeroK, s1 |-> "", pafter |-> <<>>, pfirst |-> <<>>, pfirst2 |-> <<>>]
(* fields: op    "enc" encode k then decode the produced text; "dec" decode a text; "cert" type/label/principals of a
                 certificate; "prins" principals for a given type; "shim" comment of a certificate listed by a shim agent
           k, sin        enc: the KeyID value and a tag of all its concrete contents
           present       dec/enc/cert/shim: fields the (given / produced / certificate's KeyID) text contains, exact names
           nil, opt, pin cert/shim: nil certificate, option class, principals of the certificate
           tyin, ocmt    prins: the type given; shim: the comment the certificate was added with
           pan           the call crashed
           ok            enc: encoder succeeded; dec/cert/shim: the KeyID text decodes
           dok, dk, sout enc: decoding the produced text succeeded, decoded value, tag of its contents;
                         dec/cert/shim: dk = decoded value
           tid           transaction id of the decoded KeyID
           ty, lok, label, pout   observed type, label present, label, principals returned
           found, cmt    shim: the certificate was listed, with this comment
           rep           index of this call among the calls made with the same input in one process (0 = first); the
                         caller overwrites every field of each returned KeyID (and the elements of its principal list)
                         before calling again, and calls may come from several goroutines
           ok1, dk1, s1  dec, rep > 0: verdict, value and content tag the first call with this text produced
           pafter        cert/prins: contents of the caller's principal list after the call
           pfirst, pfirst2   prins, rep > 0: the first call's result as read right after it / read again after this call *)

PinAbs == <<"p1", "p2">>
DecEv(c, t) == LET ok == DecodeOK(t) IN
  [E0 EXCEPT !.op = "dec", !.cs = c, !.present = Present(t), !.ok = ok, !.dk = IF ok THEN Decoded(t) ELSE ZeroK,
             !.tid = IF ok THEN "T" ELSE "", !.sout = IF ok THEN "s" ELSE "",
             \* decoding is a function of the text: a repeated call gives what the first call gave
             !.rep = IF c.kind = "dec" THEN c.n ELSE 0, !.ok1 = ok, !.dk1 = IF ok THEN Decoded(t) ELSE ZeroK, !.s1 = IF ok THEN "s" ELSE ""]
CertEvP(c, decodes, k, o, pres) == LET ty == TypeOf(FALSE, decodes, k, o) IN
  [E0 EXCEPT !.op = "cert", !.cs = c, !.opt = o, !.pin = PinAbs, !.ok = decodes,
             !.present = pres,
             !.dk = IF decodes THEN k ELSE ZeroK,
             !.tid = IF decodes THEN "T" ELSE "", !.ty = ty, !.lok = ty # "Unknown",
             !.label = IF ty # "Unknown" THEN LabelOf(ty, "T") ELSE "", !.pout = PrincipalsOf(PinAbs, ty), !.pafter = PinAbs]
CertEv(c, decodes, k, o) == CertEvP(c, decodes, k, o, IF c.kind = "cert" THEN Present(Encode(c.k)) ELSE {})
\* "certpair": two certificates examined back to back by one goroutine, no other decode in between: the first KeyID text lacks
\* field c.f, the second lacks field c.m (c.f # c.m); c.n says which of the two calls the event describes, c.v in which order
\* type and label are asked for.  Neither decodes, whatever was examined before.
PairText(c) == Delete(Encode(c.k), IF c.n = 0 THEN c.f ELSE c.m)
PairEv(c)   == [CertEvP(c, DecodeOK(PairText(c)), Decoded(PairText(c)), c.opt, Present(PairText(c))) EXCEPT !.rep = c.n]

\* the event the design produces for a case
Ev(c) ==
  CASE c.kind = "enc" -> LET ok == EncodeOK(c.k) IN
         [E0 EXCEPT !.op = "enc", !.cs = c, !.k = c.k, !.sin = "s", !.ok = ok,
                    !.present = IF ok THEN Present(Encode(c.k)) ELSE {},
                    !.dok = ok /\ DecodeOK(Encode(c.k)), !.dk = IF ok THEN Decoded(Encode(c.k)) ELSE ZeroK,
                    !.sout = IF ok THEN "s" ELSE "", !.tid = IF ok THEN "T" ELSE ""]
    [] c.kind = "dec"  -> DecEv(c, Encode(c.k))
    [] c.kind = "mut"  -> DecEv(c, Mut(Encode(c.k), c.f, c.m, c.v))
    [] c.kind = "junk" -> [E0 EXCEPT !.op = "dec", !.cs = c]
    [] c.kind = "cert" -> CertEv(c, DecodeOK(Encode(c.k)), c.k, c.opt)
    [] c.kind = "certjunk" -> CertEv(c, FALSE, ZeroK, c.opt)
    [] c.kind = "certpair" -> PairEv(c)
    [] c.kind = "nil"  -> [E0 EXCEPT !.op = "cert", !.cs = c, !.nil = TRUE, !.ty = "Unknown"]
    [] c.kind = "prins" -> LET pin == SubSeq(PinAbs, 1, c.n)
                               out == IF c.ty \in Types THEN PrincipalsOf(pin, c.ty) ELSE pin IN
         [E0 EXCEPT !.op = "prins", !.cs = c, !.tyin = c.ty, !.pin = pin, !.pout = out,
                    !.pafter = pin, !.rep = c.v, !.pfirst = out, !.pfirst2 = out]
    [] c.kind = "shim" -> LET d  == DecodeOK(Encode(c.k))
                              ty == TypeOf(FALSE, d, c.k, c.opt)
                              oc == IF c.cm = "some" THEN "c" ELSE "" IN
         [E0 EXCEPT !.op = "shim", !.cs = c, !.opt = c.opt, !.ocmt = oc, !.ok = d, !.present = Present(Encode(c.k)), !.dk = IF d THEN c.k ELSE ZeroK,
                    !.tid = IF d THEN "T" ELSE "", !.found = TRUE, !.cmt = ShimComment(ty, "T", oc)]
    [] OTHER -> E0

\* ---- C05 on one event
C05_Holds(e) ==
  /\ e.op \in {"enc", "dec"} => ~e.pan                                  \* neither direction ever crashes
  /\ e.op = "enc" => /\ e.ok <=> EncodeOK(e.k)                           \* succeeds exactly when supported and consistent
                     /\ e.ok => /\ e.dok /\ e.dk = e.k /\ e.sout = e.sin \* decoding the encoded text yields an equal KeyID
                                /\ DecodePost(e.dok, e.dk, e.present)
  /\ e.op = "dec" => /\ DecodePost(e.ok, e.dk, e.present)                \* any text: fails, or supported + complete + consistent
                     \* the result depends on the text only, not on earlier calls or on what callers did with earlier results
                     /\ e.rep > 0 => (e.ok = e.ok1 /\ e.dk = e.dk1 /\ e.sout = e.s1)

\* ---- C19 on one event
\* "Its KeyID decodes" is the specification's notion, not the decoder's word alone: the decoder accepted the text AND the value is
\* of a supported version, the text contained the required fields and the value is consistent.  (On a decoder that satisfies
\* C05 the two coincide; a decoder that lets an inconsistent KeyID through must not turn it into a known certificate type.)
DecodesEv(e) == e.ok /\ Supported(e.dk.ver) /\ Required(e.dk.ver) \subseteq e.present /\ Consistent(e.dk)
C19_Holds(e) ==
  /\ e.op \in {"cert", "prins", "shim"} => ~e.pan                        \* total
  /\ e.op = "cert" => LET ty == TypeOf(e.nil, DecodesEv(e), e.dk, e.opt) IN
       /\ e.ty = ty
       /\ IF ty = "Unknown" THEN ~e.lok ELSE e.lok /\ e.label = LabelOf(ty, e.tid)
       /\ e.pout = PrincipalsOf(e.pin, ty)
       /\ e.pafter = e.pin                                                \* the caller's list is left as it was
  /\ e.op = "prins" => /\ e.tyin \in Types => e.pout = PrincipalsOf(e.pin, e.tyin)
                       /\ e.pafter = e.pin
                       /\ e.rep > 0 => e.pfirst2 = e.pfirst                \* a later call does not change an earlier result
  /\ e.op = "shim" => /\ e.found
                      /\ e.cmt = ShimComment(TypeOf(FALSE, DecodesEv(e), e.dk, e.opt), e.tid, e.ocmt)

\* strict conformance with the precise design (the event of a replayed case has the design's verdicts and values)
StrictEv(e) ==
  e.cs.kind \notin {"free", "init"} =>
    LET d == Ev(e.cs) IN
      /\ e.op = d.op /\ ~e.pan /\ e.ok = d.ok /\ e.dok = d.dok /\ e.dk = d.dk /\ e.present = d.present
      /\ (e.op \in {"cert"} => e.ty = d.ty /\ e.lok = d.lok)
      /\ (e.op = "shim" => e.found)

\* ---- the walk over the case space: hub state "init", one action per case kind
InitEv == E0
Init == ev = InitEv
At(kind) == ev.op = "init" /\ kind \in Kinds
EncCase  == At("enc")  /\ \E k \in KeyIDs : ev' = Ev(Cs("enc", k, "", "", 0, "absent", "", "", 0, "", ""))
DecCase  == At("dec")  /\ \E k \in KeyIDs, r \in 0..1 : ev' = Ev(Cs("dec", k, "", "", 0, "absent", "", "", r, "", ""))
MutCase  == At("mut")  /\ \E k \in Encodable, f \in AllFields, m \in MutOps :
                            \E v \in (IF m = "dup" THEN ValuesOf(f) ELSE {0}) :
                              ev' = Ev(Cs("mut", k, f, m, v, "absent", "", "", 0, "", ""))
JunkCase == At("junk") /\ \E j \in JunkKinds : ev' = Ev(Cs("junk", ZeroK, "", "", 0, "absent", j, "", 0, "", ""))
CertCase == At("cert") /\ \E k \in KeyIDs, o \in Opts : ev' = Ev(Cs("cert", k, "", "", 0, o, "", "", 0, "", ""))
CertJunkCase == At("certjunk") /\ \E j \in JunkKinds, o \in Opts : ev' = Ev(Cs("certjunk", ZeroK, "", "", 0, o, j, "", 0, "", ""))
\* one base value per rule of the type table (and both hardware-key values), so that a wrongly accepted text would get a known type
PairBases == {k \in Encodable : k.usage = 0 /\ ~k.hl /\ k.tp \in {NeverTouch, CachedTouch} /\ (k.nonce => ~k.hw)}
CertPairCase == At("certpair") /\ \E k \in PairBases, x \in Required(1), y \in Required(1), ord \in 0..1 :
                            x # y /\ ev' = Ev(Cs("certpair", k, x, y, ord, "set", "", "", 1, "", ""))
NilCase  == At("nil")  /\ ev' = Ev(Cs("nil", ZeroK, "", "", 0, "absent", "", "", 0, "", ""))
PrinsCase == At("prins") /\ \E ty \in Types \cup {"other"}, n \in 0..2, r \in 0..1 :
                            ev' = Ev(Cs("prins", ZeroK, "", "", r, "absent", "", ty, n, "", ""))
ShimCase == At("shim") /\ \E k \in {x \in KeyIDs : x.ver = 1 /\ x.usage = 0}, o \in Opts, cm \in {"none", "some"}, p \in {"agent", "hard"} :
                            ev' = Ev(Cs("shim", k, "", "", 0, o, "", "", 0, cm, p))
Back == ev.op # "init" /\ ev' = InitEv
Next == EncCase \/ DecCase \/ MutCase \/ JunkCase \/ CertCase \/ CertJunkCase \/ CertPairCase \/ NilCase \/ PrinsCase \/ ShimCase \/ Back
Spec == Init /\ [][Next]_ev

C05_Step == C05_Holds(ev')
C19_Step == C19_Holds(ev')
P_C05 == [][C05_Step]_ev
P_C19 == [][C19_Step]_ev
P_Strict == [][StrictEv(ev')]_ev        \* the design is strictly conformant with itself (sanity of StrictEv)

---------------------------------------------------------------------------
\* Sanity theorems (constant level; MCKeyID ASSUMEs them, TLC evaluates them over the complete finite space)

Thm_HeadlessNonceExclusive == \A k \in KeyIDs : Consistent(k) => ~(k.hl /\ k.nonce)
Thm_RoundTrip   == \A k \in Encodable : DecodeOK(Encode(k)) /\ Decoded(Encode(k)) = k
Thm_RefuseDecode == \A k \in KeyIDs \ Encodable : ~DecodeOK(Encode(k))
\* consistent flag/touch combinations: 4 free hw/ff x every tp, one headless, two nonce (hw free)
Thm_Count == Cardinality(Encodable) = (4 * Cardinality(TPs) + 1 + 2) * Cardinality(Usages)
\* deleting, renaming or retyping any required field of an encoder output makes it undecodable; a duplicate with the
\* same value and any mutation of the optional field other than a retype leave it decodable
Thm_MutRequired == \A k \in Encodable, f \in Required(1), m \in {"delete", "rename", "retype"} : ~DecodeOK(Mut(Encode(k), f, m, 0))
Thm_MutHarmless == \A k \in Encodable :
                     /\ \A m \in {"delete", "rename", "null"} : DecodeOK(Mut(Encode(k), "usage", m, 0))
                     /\ \A f \in StrFields : DecodeOK(Dup(Encode(k), f, 0)) /\ DecodeOK(Nullify(Encode(k), f))
\* whatever decodes satisfies the post-condition of the statement
Thm_DecodePost  == \A k \in Encodable, f \in AllFields, m \in MutOps : \A v \in ValuesOf(f) :
                     LET t == Mut(Encode(k), f, m, IF m = "dup" THEN v ELSE 0) IN DecodePost(DecodeOK(t), Decoded(t), Present(t))
\* C19: total; only nonce, firefighter, hardware key, touch policy and the option class matter; absent = empty;
\* unknown exactly when no rule is selected; precedence
Thm_Total       == \A k \in KeyIDs, o \in Opts : TypeOfK(k, o) \in Types
Thm_OnlyStated  == \A k1 \in KeyIDs, k2 \in KeyIDs :
                     (k1.nonce = k2.nonce /\ k1.ff = k2.ff /\ k1.hw = k2.hw /\ k1.tp = k2.tp)
                       => \A o \in Opts : TypeOfK(k1, o) = TypeOfK(k2, o)
Thm_EmptyIsAbsent == \A k \in KeyIDs : TypeOfK(k, "empty") = TypeOfK(k, "absent")
Thm_UnknownIff  == \A k \in KeyIDs, o \in Opts :
                     TypeOfK(k, o) = "Unknown" <=> (~k.nonce /\ ~k.ff /\ k.tp \notin {NeverTouch, AlwaysTouch, CachedTouch})
\* a KeyID of an unsupported version or with conflicting attributes (nonce or headless with ANY touch policy other than
\* never-touch, inside or outside the defined range, ...) is of unknown type whatever the other attributes say
Thm_InconsistentUnknown == \A k \in KeyIDs \ Encodable, o \in Opts :
                     /\ TypeOf(FALSE, DecodeOK(Encode(k)), k, o) = "Unknown"
                     /\ Ev(Cs("cert", k, "", "", 0, o, "", "", 0, "", "")).ty = "Unknown"
                     /\ Ev(Cs("cert", k, "", "", 0, o, "", "", 0, "", "")).pout = <<>>
\* a text lacking a required field never decodes, so both certificates of a pair are of unknown type; and the pair bases reach
\* every known type (with the option set: the sudo siblings)
Thm_PairUnknown == \A k \in PairBases, x \in Required(1), n \in 0..1 :
                     LET e == Ev(Cs("certpair", k, x, x, 0, "set", "", "", n, "", "")) IN e.ty = "Unknown" /\ ~e.lok /\ e.pout = <<>> /\ ~DecodesEv(e)
Thm_PairBasesCover == {TypeOfK(k, "set") : k \in PairBases} = {"Nonce", "Firefighter", "TouchlessSudoInAgent", "TouchSudo", "TouchlessSudo"}
Thm_NonceHeadlessTouch == \A k \in KeyIDs : ((k.nonce \/ k.hl) /\ k.tp # NeverTouch) => ~Consistent(k)
Thm_Precedence  == \A k \in KeyIDs, o \in Opts :
                     /\ k.nonce => TypeOfK(k, o) = "Nonce"
                     /\ (k.ff /\ ~k.nonce) => TypeOfK(k, o) \in {"Firefighter", "TouchlessInAgent", "TouchlessSudoInAgent"}
                     /\ (k.ff /\ ~k.nonce) => (TypeOfK(k, o) = "Firefighter" <=> k.hw)
\* the option only ever moves a type to its sudo sibling
Thm_Option      == \A k \in KeyIDs : TypeOfK(k, "set") # TypeOfK(k, "absent") =>
                     <<TypeOfK(k, "absent"), TypeOfK(k, "set")>> \in {<<"Touchless", "TouchlessSudo">>, <<"TouchlessInAgent", "TouchlessSudoInAgent">>}
\* every known type is reachable by a KeyID that decodes
Thm_AllReachable == \A ty \in KnownTypes : \E k \in Encodable, o \in Opts : TypeOfK(k, o) = ty
Thm_Principals  == \A ty \in Types : /\ Len(PrincipalsOf(PinAbs, ty)) = (IF ty = "Unknown" THEN 0 ELSE 2)
                                      /\ (ty \in {"Firefighter", "Nonce", "TouchlessInAgent", "TouchlessSudoInAgent"} => PrincipalsOf(PinAbs, ty) = PinAbs)
=============================================================================
