------------------------------ MODULE MCAttest ------------------------------
(* Bounded model checking of Attest (C06: Spec06, C16: Spec16) and export of the case tables. *)
EXTENDS Attest, Json
ASSUME T_RFC /\ T_NullIs2 /\ T_PrefixFree /\ T_PS8 /\ T_Fits /\ T_OddDiffers
ASSUME T_AlphaInj /\ T_AlphaIs /\ T_MHShape /\ T_MHInj /\ T_MHInjLen /\ T_NibInj
CONSTANT ExportMode        \* "quick" | "thorough" | "none"
RSALabelOf(h) == CASE h = "sha1" -> 3 [] h = "sha256" -> 4 [] h = "sha384" -> 5 [] h = "sha512" -> 6 [] OTHER -> -1
Accepting(x) == x.alg = RSALabelOf(x.h0) /\ x.rel = "root" /\ x.time = "valid"
SmallMuts == {"lead", "bt", "psf", "psm", "psl", "sep", "shape", "pfxother", "dgother"}
\* replayed on the real code: every context (label x chain x key type x hash x layout) with the unmutated message,
\* every single mutation under the otherwise accepting context; thorough: the small mutations under every context
\* that deviates in exactly one of label / chain
Export06(x) == \/ x.mut = "none"
               \/ Accepting(x)
               \/ /\ ExportMode = "thorough" /\ x.mut \in SmallMuts
                  /\ ((x.alg = RSALabelOf(x.h0)) # (x.rel = "root" /\ x.time = "valid"))
Emit06 == (ExportMode # "none" /\ Export06(c)) => PrintT(<<"CASE", ToJson([c |-> c, exp |-> r, hist |-> hist])>>)
Emit16 == (ExportMode # "none") => PrintT(<<"CASE", ToJson([c |-> c, exp |-> r, hist |-> hist])>>)
=============================================================================
