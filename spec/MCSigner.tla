------------------------------ MODULE MCSigner ------------------------------
(* Bounded instances of Signer.tla: template / bundle / backoff universes, and the export of every
   configuration (<<"CASE", json>>) for replay on the real code. *)
EXTENDS Signer, Json

TH(id, vmax, pol, hint, cls, code, sh) == [id |-> id, vmax |-> vmax, pol |-> pol, hint |-> hint, cls |-> cls, code |-> code, sh |-> sh]
T(id, vmax, pol, cls, code, sh) == TH(id, vmax, pol, "own", cls, code, sh)
P(cls, code, sh) == TH("plain", "none", "none", "none", cls, code, sh)

\* C17, quick: the five outcome classes, "ok" with 1..3 certificates and mixed comment shapes; the concrete status
\* code of an "rpc" endpoint is drawn by the harness (code class "any" = every gRPC code 1..16)
TplC17q == {P("ok", "", <<"word">>), P("ok", "", <<"none", "spaces">>), P("ok", "", <<"spaces", "none", "word">>),
            P("rpc", "any", <<>>), P("unparsable", "", <<>>), P("empty", "", <<>>), P("deadline", "", <<>>)}
\* C17, thorough: status code classes and more comment shapes
TplC17t == (TplC17q \cup {P("ok", "", <<"none">>), P("ok", "", <<"word", "word">>),
                          P("rpc", "retriable", <<>>), P("rpc", "deadlinecode", <<>>), P("rpc", "other", <<>>)})
           \ {P("rpc", "any", <<>>)}
\* C17, both tiers: every gRPC status code 1..16 by number, alone and in front of / behind a signing endpoint (N <= 2)
TplC17c == {P("rpc", ToString(c), <<>>) : c \in 1..16} \cup {P("ok", "", <<"word">>)}
\* C17, both tiers: endpoints dead at transport level in every position, under a wide and a tight request budget
TplC17d == {P("ok", "", <<"word">>), P("ok", "", <<"none", "spaces">>), P("rpc", "any", <<>>), P("refused", "", <<>>), P("acceptclose", "", <<>>)}
\* C17: reply lines at the 64 KiB / 128 KiB / 1 MiB boundaries in every line position (the comment carries the length)
LongTpls(Ls) == UNION {{P("ok", "", <<l>>), P("ok", "", <<l, "word">>), P("ok", "", <<"word", l>>), P("ok", "", <<"word", "word", l>>),
                        P("ok", "", <<"word", l, "none">>)} : l \in Ls}
TplC17lq == LongTpls({"L65535", "L65536", "L65537", "L131072"}) \cup {P("ok", "", <<"word">>), P("rpc", "any", <<>>)}
TplC17lt == LongTpls({"L65534", "L65535", "L65536", "L65537", "L65538", "L131072", "L1048576"}) \cup {P("ok", "", <<"word">>), P("rpc", "any", <<>>)}
\* C17, both tiers: request contexts that end before or while the endpoints are tried
TplC17x == {P("ok", "", <<"word">>), P("ok", "", <<"none", "spaces">>), P("rpc", "any", <<>>), P("deadline", "", <<>>)}
CutCtxs == {"cancelled", "expired", "expiredwarm", "cancelmid"}
\* C17, both tiers: request content classes
TplC17r == {P("ok", "", <<"word">>), P("rpc", "any", <<>>)}
FullReq == {"full"}
AllReqs == {"full", "noext", "emptyext", "customext", "nocrit", "emptycrit", "noprins", "oneprin", "zeroval", "maxval", "nokeymeta", "bare"}
\* C17, both tiers: two signing calls on one Signer, each with its own outcome vector
TplC17m == {P("ok", "", <<"word">>), P("ok", "", <<"none", "spaces">>), P("rpc", "any", <<>>)}
OneCall == {1}
TwoCalls == {2}
NoBundle == {[cas |-> {}, lay |-> "none"]}

\* C18: server identity x protocol range x client-certificate policy
TlsKinds == {<<"ca1", "tls13">>, <<"ca1", "tls12">>, <<"ca2", "tls13">>, <<"foreign", "tls13">>, <<"selfsigned", "tls13">>,
             <<"expired", "tls13">>, <<"wrongname", "tls13">>, <<"ca1", "tls11">>, <<"hosttrusted", "tls13">>}
Policies == {"require", "request", "ignore"}
TplC18all == {T(k[1], k[2], p, "ok", "", <<"word">>) : k \in TlsKinds, p \in Policies}
TplC18req == {T(k[1], k[2], "request", "ok", "", <<"word">>) : k \in TlsKinds}
\* C18, both tiers: process history (other TLS configurations in the same process) and tight request budgets
TplC18h == {T("ca1", "tls13", "request", "ok", "", <<"word">>), T("ca2", "tls13", "request", "ok", "", <<"word">>),
            T("foreign", "tls13", "ignore", "ok", "", <<"word">>), T("ca1", "tls12", "require", "ok", "", <<"word">>)}
\* C18: impostors in front of the genuine server, several tries per endpoint, bounded (ample) request budget
TplC18r == {T("ca1", "tls13", "request", "ok", "", <<"word">>), T("foreign", "tls13", "ignore", "ok", "", <<"word">>),
            T("ca1", "tls11", "request", "ok", "", <<"word">>)}
\* C18, both tiers: every client-certificate policy of a genuine server x every acceptable-CA hint
AuthPols == {"ignore", "request", "requireany", "verifyifgiven", "require"}
Hints == {"own", "empty", "other"}
TplC18p == {TH("ca1", v, p, h, "ok", "", <<"word">>) : v \in {"tls13", "tls12"}, p \in AuthPols, h \in Hints}
           \cup {T("foreign", "tls13", "request", "ok", "", <<"word">>)}
\* C18, both tiers: two different CA certificates with one subject name (ca1, ca1b), configured together or alone
TplC18s == {T("ca1", "tls13", "request", "ok", "", <<"word">>), T("ca1b", "tls13", "request", "ok", "", <<"word">>),
            T("foreign", "tls13", "ignore", "ok", "", <<"word">>)}
SameSubjectBundles == {[cas |-> {"ca1", "ca1b"}, lay |-> l] : l \in {"two", "tworev", "concat", "concatrev"}}
                      \cup {[cas |-> {"ca1"}, lay |-> "one"], [cas |-> {"ca1b"}, lay |-> "one"]}
\* C18, both tiers: validity boundaries of the server certificate
TplC18e == {T(x, "tls13", "request", "ok", "", <<"word">>) : x \in {"ca1", "valid2m", "expired1m", "expired4m", "expired10m", "notyet1m", "notyet4m"}}
Ca1Only == {[cas |-> {"ca1"}, lay |-> "one"]}
Ample == {"ample"}
One == {1}
Three == {3}
Wide == {"wide"}
WideTight == {"wide", "tight"}
WideTightNone == {"wide", "tight", "none"}
NoHist == {"none"}
AllHists == {"none", "before", "between", "signer", "rotate"}
TlsBundles == {[cas |-> {"ca1"}, lay |-> "one"], [cas |-> {"ca1", "ca2"}, lay |-> "two"],
               [cas |-> {"ca1", "ca2"}, lay |-> "concat"], [cas |-> {"ca2"}, lay |-> "one"]}

\* backoff: every small configuration with base <= max, multiplier >= 1, jitter in [0,1] (tenths)
BoCfgs == {c \in [base : 0..4, max : 1..4, mult : 1..3, jit : {0, 2, 10}] : c.base <= c.max}
BoAttempts == 0..5
NoBoCfgs == {}

\* classes of concrete backoff inputs the harness draws on the real code (values beyond TLC's integers are strings)
BoTable == [base |-> {"zero", "small", "max"}, mult |-> {"1", "1.5", "3", "1e308"}, jit |-> {"0", "0.2", "1"}, max |-> {"15s", "1ms"},
            attempts |-> {"0", "1", "2", "10", "63", "64", "1023", "1024", "2147483648", "4294967295"}]
\* ... and the bounded backoff model itself (unit = 1 ms, jitter in tenths), replayed as well
BoModel == [cfgs |-> BoCfgs, attempts |-> BoAttempts]
ASSUME PrintT(<<"BOT", ToJson([classes |-> BoTable, model |-> BoModel])>>)

EmitCase == (pc = "new" /\ last.op = "init") => PrintT(<<"CASE", ToJson([eps |-> eps, bundle |-> bundle, ctx |-> env.ctx, next |-> env.next, req |-> env.req, tries |-> env.tries, hist |-> env.hist])>>)
=============================================================================
