SPECIFICATION Spec
CONSTANTS
  TPs <- TPq
  Usages <- Uq
  Vers <- Vq
  Kinds <- K05
INVARIANT Inv_C05 Inv_Strict
PROPERTIES P_C05 P_Strict
ACTION_CONSTRAINT EmitCase
CHECK_DEADLOCK FALSE
