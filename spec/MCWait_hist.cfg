SPECIFICATION Spec
CONSTANTS
  Waiters = {"w1", "w2", "w3"}
  Codes = {11, 35, 40}
  TableSize = 40
  WaitCode = 35
  Vias = {TRUE, FALSE}
  MaxReq = 2
  MaxBatch = 1
  Hist = TRUE
  Reps = {1, 2}
  CountHist = TRUE
  GenBug = FALSE
  GenMod = 256
  Deliveries = {"single", "pipelined", "fragmented"}
  SplitReg = TRUE
INVARIANTS TypeOK Partition NextRequest CountsLog
PROPERTIES P_C20
CHECK_DEADLOCK FALSE
