------------------------------ MODULE TraceLin ------------------------------
(***************************************************************************)
(* "The final state equals that of some sequential ordering of the         *)
(* operations, and each caller receives the reply to its own request":     *)
(* every line of batches.ndjson is one batch of operations issued          *)
(* concurrently by the harness on one real shim, with the projected state  *)
(* before (init) and after (final) and the result every caller observed.   *)
(* TLC searches, for every batch, an ordering in which the SEQUENTIAL      *)
(* design ShimAgent produces exactly those results and that final state;   *)
(* a witness prints <<"LIN", batch>>.  A batch without witness has no      *)
(* sequential explanation.                                                 *)
(***************************************************************************)
EXTENDS ShimAgent, ShimUniverses, Json
Batches == ndJsonDeserialize("batches.ndjson")
VARIABLES b, done
lvars == <<vars, b, done>>
S(x) == {x[i] : i \in DOMAIN x}
Res(r) == [ok |-> r.ok, pan |-> r.pan, l1 |-> S(r.l1), l2 |-> S(r.l2), by |-> r.by]
Lab(o) == [op |-> o.op, arg |-> o.arg, f |-> o.f, res |-> Res(o.res)]
Is(s) == /\ under = S(s.u) /\ ulocked = s.ul /\ upass = s.up /\ mem = S(s.m)
         /\ cache = S(s.c) /\ locked = s.l /\ noUp = s.nu /\ now = s.n /\ dead = s.d
         /\ forever = S(s.fv)
LInit == /\ b \in 1..Len(Batches) /\ done = {} /\ Is(Batches[b].init)
         /\ last = [op |-> "reset", arg |-> "", f |-> NoFault, res |-> OK]
Do(i) == /\ i \in (DOMAIN Batches[b].ops) \ done
         /\ Next /\ last' = Lab(Batches[b].ops[i])
         /\ done' = done \cup {i} /\ b' = b
LNext == \E i \in DOMAIN Batches[b].ops : Do(i)
LSpec == LInit /\ [][LNext]_lvars
Witness == done = DOMAIN Batches[b].ops /\ Is(Batches[b].final)
Report == Witness => PrintT(<<"LIN", b>>)
=============================================================================
