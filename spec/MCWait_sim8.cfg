SPECIFICATION Spec
CONSTANTS
  Waiters = {"w1", "w2", "w3", "w4", "w5", "w6", "w7", "w8"}
  Codes = {0, 11, 35, 39, 40, 255}
  TableSize = 40
  WaitCode = 35
  Vias = {TRUE, FALSE}
  MaxReq = 8
  MaxBatch = 2
  Hist = TRUE
  Reps = {1, 2}
  CountHist = TRUE
  GenBug = FALSE
  GenMod = 256
  Deliveries = {"single", "pipelined", "fragmented"}
  SplitReg = TRUE
INVARIANTS TypeOK Partition NextRequest CountsLog
PROPERTIES P_C20 P_LiveReleased P_LiveRequest P_LiveOutside P_LivePark
CHECK_DEADLOCK FALSE
