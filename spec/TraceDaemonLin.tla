---------------------------- MODULE TraceDaemonLin ----------------------------
(***************************************************************************)
(* CONCURRENT phases recorded on the real daemon: several connections      *)
(* issue requests at once (strict request-reply clients, pipelining raw    *)
(* writers, writers that leave without reading).  Every line of            *)
(* batches.ndjson is one batch: the projected quiescent state before       *)
(* (init) and after (final), and the operations, each with                 *)
(*   c, n     connection and position on that connection (n = 0: a wait    *)
(*            that was already parked when the batch began)                *)
(*   sq, rq   global sequence numbers taken under one mutex BEFORE the     *)
(*            request was written and AFTER its reply was read (rq = 0: no *)
(*            reply was read: a wait still parked, or a writer that left)  *)
(*   r, res   request and observed result;  opt: the client did not wait   *)
(*            for the reply, the request may or may not have been served   *)
(* TLC searches an order of dispatch steps - D1: consistent with the order *)
(* on every connection and with the real-time order of non-overlapping     *)
(* operations - in which the SEQUENTIAL design (ShimOp of Daemon =         *)
(* ShimAgent's actions, Woken / ReleaseF for the waiters) yields exactly   *)
(* the observed results, the observed final state and the observed set of  *)
(* released / still parked waiters.  A wait request is two steps (its      *)
(* broadcast of code 35 when it is dispatched, and reaching the notify     *)
(* list): between them a request of its code passes it by, as in the code. *)
(* A witness prints <<"LIN", batch>>.                                      *)
(***************************************************************************)
EXTENDS Daemon, ShimUniverses, Json
CONSTANT LinMode      \* "full", or "nowait": ignore who is parked at the end (used only to attribute a failure to D2)
Batches == ndJsonDeserialize("batches.ndjson")
VARIABLES b, done, skp, rls
lvars == <<dvars, b, done, skp, rls>>
S(x) == {x[i] : i \in DOMAIN x}
TraceOps == {"list", "sign", "add", "remove", "removeall", "lock", "unlock", "addhard", "forward", "tick"}
Res(r) == [ok |-> r.ok, pan |-> r.pan, l1 |-> S(r.l1), l2 |-> S(r.l2), by |-> r.by]
RqOf(x) == Rq(x.op, x.arg, x.code, x.enc)
Ops0 == Batches[b].ops
IsWaitP(o) == o.r.op = "wait" /\ InTable(o.r.code)          \* a wait that parks
KRec(k, c) == IF \E i \in DOMAIN k : k[i].c = c THEN k[CHOOSE i \in DOMAIN k : k[i].c = c]
              ELSE [c |-> c, s |-> "closed", w |-> NoByte]
PreOp(bb, c) == IF \E i \in DOMAIN Batches[bb].ops : Batches[bb].ops[i].c = c /\ Batches[bb].ops[i].n = 0
                THEN CHOOSE i \in DOMAIN Batches[bb].ops : Batches[bb].ops[i].c = c /\ Batches[bb].ops[i].n = 0 ELSE 0
CsOfB(bb, k) == [open |-> [c \in Conns |-> KRec(k, c).s \in {"idle", "parked"}],
                 hs   |-> [c \in Conns |-> CASE KRec(k, c).s = "idle" -> "ready"
                                             [] KRec(k, c).s \in {"parked", "zombie"} -> "parked"
                                             [] OTHER -> "gone"],
                 cur  |-> [c \in Conns |-> IF KRec(k, c).s \in {"parked", "zombie"}
                                           THEN [n |-> PreOp(bb, c), rq |-> Rq("wait", "", KRec(k, c).w, "")] ELSE NoCur],
                 q    |-> [c \in Conns |-> <<>>], out |-> [c \in Conns |-> <<>>],
                 ns   |-> [c \in Conns |-> 0],    nd  |-> [c \in Conns |-> 0]]
Is(s) == /\ under = S(s.u) /\ ulocked = s.ul /\ upass = s.up /\ mem = S(s.m)
         /\ cache = S(s.c) /\ locked = s.l /\ noUp = s.nu /\ now = s.n /\ dead = s.d
         /\ forever = S(s.fv)
\* a batch that mentions an identity outside the universe has no behaviour at all (hence no witness)
CleanS(s) == S(s.u) \subseteq Ids /\ S(s.m) \subseteq Certs
CleanB(bb) == /\ CleanS(Batches[bb].init) /\ CleanS(Batches[bb].final)
              /\ \A i \in DOMAIN Batches[bb].ops : S(Batches[bb].ops[i].res.l1) \subseteq Ids /\ S(Batches[bb].ops[i].res.l2) \subseteq Ids
LInit == /\ b \in 1..Len(Batches) /\ CleanB(b) /\ Is(Batches[b].init) /\ cs = CsOfB(b, Batches[b].init.k)
         /\ done = {i \in DOMAIN Batches[b].ops : Batches[b].ops[i].n = 0} /\ skp = {} /\ rls = {}
         /\ last = [op |-> "reset", arg |-> "", f |-> NoFault, res |-> OK] /\ hv = HV0 /\ ev = EV0

\* finished: dispatched (or given up) and, for a parking wait, released
Fin(i) == (i \in skp) \/ (i \in done /\ (IsWaitP(Ops0[i]) => i \in rls))
Ready(i) == /\ i \notin done /\ i \notin skp
            /\ \A j \in DOMAIN Ops0 : (Ops0[j].c = Ops0[i].c /\ Ops0[j].n < Ops0[i].n) => Fin(j)   \* order on the connection
            /\ \A j \in DOMAIN Ops0 : (Ops0[j].rq > 0 /\ Ops0[j].rq < Ops0[i].sq) => Fin(j)         \* real-time order
\* the request is received (broadcast) and dispatched
Do(i) ==
  /\ Ready(i)
  /\ LET o == Ops0[i]  c == o.c  rq == RqOf(o.r) IN
     /\ cs.hs[c] = "ready"
     /\ \A j \in skp : Ops0[j].c # c                 \* a handler that has gone away serves nothing more
     /\ ShimOp(rq)
     /\ (o.rq > 0 /\ ~IsWaitP(o)) => last'.res = Res(o.res)       \* the observed answer is the model's
     /\ LET W  == IF Received(rq) THEN Woken(cs, FB(rq)) ELSE {}
            s1 == IF Received(rq) THEN ReleaseF(cs, FB(rq)) ELSE cs
            s2 == CASE rq.op = "junk" -> [s1 EXCEPT !.hs[c] = "gone", !.open[c] = FALSE]
                    [] IsWaitP(o) -> [s1 EXCEPT !.hs[c] = "called", !.cur[c] = [n |-> i, rq |-> rq]]
                    [] OTHER -> s1 IN
        /\ cs' = [s2 EXCEPT !.out = cs.out]
        /\ rls' = rls \cup {cs.cur[w].n : w \in W}
     /\ done' = done \cup {i} /\ skp' = skp /\ b' = b /\ hv' = hv /\ ev' = ev
ParkL(c) == /\ cs.hs[c] = "called" /\ cs' = [cs EXCEPT !.hs[c] = "parked"]
            /\ Un(state) /\ last' = last /\ hv' = hv /\ ev' = ev /\ UNCHANGED <<b, done, skp, rls>>
\* the handler never read this request in the batch: it went away (its client had left), or it is still parked in a
\* Wait in front of it when the batch ends (the bytes stay unread in the socket)
Skip(i) == /\ i \notin done /\ i \notin skp /\ Ops0[i].opt
           /\ \A j \in DOMAIN Ops0 : (Ops0[j].c = Ops0[i].c /\ Ops0[j].n < Ops0[i].n) => j \in done \cup skp
           /\ skp' = skp \cup {i}
           /\ Un(state) /\ last' = last /\ hv' = hv /\ ev' = ev /\ cs' = cs /\ UNCHANGED <<b, done, rls>>
LNext == \/ \E i \in DOMAIN Ops0 : Do(i) \/ Skip(i)
         \/ \E c \in Conns : ParkL(c)
LSpec == LInit /\ [][LNext]_lvars

FinalK == Batches[b].final.k
Witness == /\ done \cup skp = DOMAIN Ops0
           /\ Is(Batches[b].final)
           /\ \A c \in Conns : cs.hs[c] # "called"
           /\ (LinMode = "full") =>
                /\ \A c \in Conns : (cs.hs[c] = "parked") = (KRec(FinalK, c).s \in {"parked", "zombie"})
                /\ \A c \in Conns : cs.hs[c] = "parked" => cs.cur[c].rq.code = KRec(FinalK, c).w
                \* a wait whose client saw it return was released; one whose client is still blocked was not
                /\ \A i \in DOMAIN Ops0 : (IsWaitP(Ops0[i]) /\ i \in done /\ ~Ops0[i].opt) => ((Ops0[i].rq > 0) = (i \in rls))
Report == Witness => PrintT(<<"LIN", b>>)
=============================================================================
