------------------------------ MODULE MCConc ------------------------------
\* Program table of the shim operations (by reading agent/shimagent/shimserver.go) and two lock tables:
\* AllW (every operation holds Server.mu exclusively) and the table MEASURED on the real code, which
\* tools/fam_conc.py writes into MCConcMeasured.tla at check time.
EXTENDS ShimConc
Kinds == {"list", "signers", "sign", "add", "remove", "removeall", "addhard", "lock", "unlock", "extension", "forward"}
P == [k \in Kinds |->
       CASE k = "list"      -> <<"tr", "call", "tw", "call", "tw">>
         [] k = "signers"   -> <<"tr", "call", "tw", "call", "tw", "call", "tw">>
         [] k = "sign"      -> <<"tr", "call", "tw", "call">>
         [] k = "add"       -> <<"tr", "call">>
         [] k = "remove"    -> <<"tr", "tw", "call", "tw">>
         [] k = "removeall" -> <<"tr", "tw", "call">>
         [] k = "addhard"   -> <<"tr", "call", "tw">>
         [] k = "lock"      -> <<"tr", "call", "tw">>
         [] k = "unlock"    -> <<"tr", "call", "tw">>
         [] k = "extension" -> <<"call">>
         [] OTHER           -> <<"raw">>]
AllW == [k \in Kinds |-> "W"]
\* the table of the pinned commit 9cff0a4 (before the "fix:" commits), kept for reference
Pinned == [k \in Kinds |-> CASE k = "signers" -> "R" [] k = "extension" -> "N" [] OTHER -> "W"]
T2 == {"t1", "t2"}
T3 == {"t1", "t2", "t3"}
=============================================================================
