----------------------------- MODULE WaitCond -----------------------------
(***************************************************************************)
(* C20 - waiting on a message code.                                        *)
(*                                                                         *)
(* agent/shimagent.Server keeps one condition variable per message code    *)
(* (a table of TableSize = 40 entries, index = code).  Wait(c) parks the   *)
(* caller on entry c, Broadcast(c) wakes everybody parked on entry c; both *)
(* do nothing for c >= TableSize.  yubiagent.ServeAgent calls Broadcast    *)
(* with the first byte of EVERY request it reads, on every connection,     *)
(* BEFORE it dispatches the request; a wait request (code WaitCode = 35,   *)
(* second byte = the code waited for) is dispatched to Wait.  So, seen     *)
(* through ServeAgent (via = TRUE), the registration of a waiter is itself *)
(* a request with code WaitCode that arrives before the waiter parks.      *)
(*                                                                         *)
(* One action per step of the code:                                        *)
(*   Call(w, c)   the Wait call / wait frame of waiter w arrives           *)
(*   Park(w)      w is on the notify list of entry c  ("registered")       *)
(*   Register(w,c) = Call ; Park  in one step (replay granularity)         *)
(*   Requests(cs, dl) requests with the codes cs arrive; dl is how they    *)
(*                reach the agent: "single" = one connection each, one      *)
(*                frame per write; "pipelined" = all on ONE connection,     *)
(*                back to back in one write, replies not awaited;           *)
(*                "fragmented" = the byte stream of the frames cut at       *)
(*                arbitrary places into several writes.  Every request      *)
(*                RECEIVED releases the waiters of its code: the effect     *)
(*                does not depend on dl (that is the point), the label does *)
(*                so that every delivery of every edge is replayed;         *)
(*                the broadcast of each precedes its dispatch              *)
(*   Race(w,c,cs) a registration in flight together with requests: the     *)
(*                lost wake-up window of a condition variable, both        *)
(*                outcomes are behaviours of the code                      *)
(*   Return(w)    the Wait call of a released waiter returns               *)
(* A waiter that is called but not yet parked when a request with its code *)
(* arrives is NOT released by it (inherent to condition variables, allowed *)
(* by the statement: "released by the NEXT request after it is blocked").  *)
(*                                                                         *)
(* C20_Step is the step formula of the property: it is model-checked as    *)
(* [][C20_Step]_vars here and evaluated on every recorded step of the real *)
(* code in TraceWait.tla.                                                  *)
(***************************************************************************)
EXTENDS Integers, FiniteSets, Sequences, TLC

CONSTANTS
  \* @type: Set(Str);
  Waiters,    \* waiter ids (strings)
  \* @type: Set(Int);
  Codes,      \* message codes explored, a subset of 0..255
  \* @type: Int;
  TableSize,  \* size of the table of condition variables (40)
  \* @type: Int;
  WaitCode,   \* code of the wait request itself (35)
  \* @type: Set(Bool);
  Vias,       \* subset of BOOLEAN: FALSE = Server.Wait/Broadcast called directly, TRUE = through ServeAgent
  \* @type: Int;
  MaxReq,     \* bound on the number of request steps
  \* @type: Int;
  MaxBatch,   \* how many requests may arrive together in one request step
  \* @type: Bool;
  Hist,       \* TRUE: keep the request log (history variables reqlog, parkedAt); FALSE: leave them empty
  \* @type: Set(Int);
  Reps,       \* how often the one request of a pipelined request step may be repeated back to back (1 = once)
  \* @type: Bool;
  CountHist,  \* TRUE: count the requests per code (hcount); FALSE: leave the counter at 0
  \* @type: Bool;
  GenBug,     \* FALSE: the design.  TRUE: a WRONG design in which the release rule reads the history counter modulo
              \* GenMod (a wrapping generation number); exists only to show that TLC then refutes P_C20
  \* @type: Int;
  GenMod,
  \* @type: Set(Str);
  Deliveries, \* how the requests of a request step are delivered: subset of {"single", "pipelined", "fragmented"}
  \* @type: Bool;
  SplitReg    \* TRUE: Call and Park are separate steps; FALSE: Register / Race (what a harness can drive)

VARIABLES
  \* @type: Bool;
  via,        \* which binding this behaviour describes
  \* @type: Str -> Int;
  reg,        \* [Waiters -> Codes \cup {NoCode}] the code a waiter asked for
  \* @type: Set(Str);
  called,     \* Wait invoked, not yet parked
  \* @type: Int -> Set(Str);
  waiting,    \* [InRange -> SUBSET Waiters] parked on the table entry of a code
  \* @type: Set(Str);
  released,   \* woken, Wait has not returned yet
  \* @type: Set(Str);
  returned,   \* Wait has returned
  \* @type: Seq(Set(Int));
  reqlog,     \* sequence of the sets of codes that arrived, wait frames included
  \* @type: Str -> Int;
  parkedAt,   \* Len(reqlog) at the moment a waiter parked
  \* @type: Int;
  nreq,       \* number of request steps so far
  \* @type: Int -> Int;
  hcount,     \* history: how many requests with a code have arrived so far.  The design never reads it: how a
              \* request acts on the waiters does not depend on how many requests came before
  \* @type: Str -> Int;
  seen,       \* used by the GenBug variant only: hcount modulo GenMod when the waiter parked
  \* @type: { op: Str, ws: Set(Str), cs: Set(Int), dl: Str, rep: Int, rel: Set(Str), n: Int, pan: Bool };
  last        \* label of the last step

state == <<via, reg, called, waiting, released, returned>>
hist  == <<reqlog, parkedAt, nreq, hcount, seen>>
vars  == <<via, reg, called, waiting, released, returned, reqlog, parkedAt, nreq, hcount, seen, last>>

NoCode  == -1
InRange == Codes \cap (0 .. (TableSize - 1))    \* the explored codes that have an entry in the table
InR(c)  == c \in InRange

\* @type: (Int -> Set(Str)) => Set(Str);
AllOf(wt)  == UNION {wt[c] : c \in InRange}
\* @type: (Int -> Set(Str), Set(Int)) => Set(Str);
HitOf(wt, cs) == UNION {wt[c] : c \in cs \cap InRange}
\* @type: (Int -> Set(Str), Set(Int)) => (Int -> Set(Str));
Clear(wt, cs) == [c \in InRange |-> IF c \in cs THEN {} ELSE wt[c]]
\* history counter after k more requests of every code in cs
\* @type: (Set(Int), Int) => (Int -> Int);
Bump(cs, k) == IF CountHist THEN [c \in InRange |-> IF c \in cs THEN hcount[c] + k ELSE hcount[c]] ELSE hcount
\* who is woken by requests with the codes cs: everybody parked on them.  (GenBug: only those whose remembered
\* generation is below the new one - wrong as soon as the counter wraps.)
\* @type: (Set(Int), Int -> Int) => Set(Str);
Rel(cs, hc) == IF GenBug THEN {w \in HitOf(waiting, cs) : (hc[reg[w]] % GenMod) > seen[w]} ELSE HitOf(waiting, cs)
\* @type: (Set(Int), Int -> Int) => (Int -> Set(Str));
Keep(cs, hc) == [c \in InRange |-> IF c \in cs THEN waiting[c] \ Rel(cs, hc) ELSE waiting[c]]
\* @type: (Str, Int, Int -> Int) => (Str -> Int);
See(w, c, hc) == IF GenBug /\ InR(c) THEN [seen EXCEPT ![w] = hc[c] % GenMod] ELSE seen
Done       == released \cup returned
Own        == IF via THEN {WaitCode} ELSE {}      \* the request a registration itself is

Log(x)  == IF Hist THEN Append(reqlog, x) ELSE reqlog
Mark(w, lg) == IF Hist THEN [parkedAt EXCEPT ![w] = Len(lg)] ELSE parkedAt

LR(op, ws, cs, dl, k, rel, n) == [op |-> op, ws |-> ws, cs |-> cs, dl |-> dl, rep |-> k, rel |-> rel, n |-> n, pan |-> FALSE]
LD(op, ws, cs, dl, rel, n) == LR(op, ws, cs, dl, IF cs = {} THEN 0 ELSE 1, rel, n)
L(op, ws, cs, rel, n) == LD(op, ws, cs, IF cs = {} THEN "none" ELSE "single", rel, n)

Init == /\ via \in Vias
        /\ reg = [w \in Waiters |-> NoCode]
        /\ called = {} /\ released = {} /\ returned = {}
        /\ waiting = [c \in InRange |-> {}]
        /\ reqlog = <<>> /\ parkedAt = [w \in Waiters |-> 0] /\ nreq = 0
        /\ hcount = [c \in InRange |-> 0] /\ seen = [w \in Waiters |-> 0]
        /\ last = L("init", {}, {}, {}, 0)

Call(w, c) ==
  /\ SplitReg /\ reg[w] = NoCode
  /\ reg' = [reg EXCEPT ![w] = c]
  /\ hcount' = Bump(Own, 1)
  /\ waiting' = Keep(Own, hcount')
  /\ released' = released \cup Rel(Own, hcount') \cup (IF InR(c) THEN {} ELSE {w})
  /\ called' = IF InR(c) THEN called \cup {w} ELSE called
  /\ reqlog' = IF via THEN Log(Own) ELSE reqlog
  /\ UNCHANGED <<via, returned, parkedAt, nreq, seen>>
  /\ last' = L("call", {w}, {}, Rel(Own, hcount') \cup (IF InR(c) THEN {} ELSE {w}), Cardinality(AllOf(waiting')))

Park(w) ==
  /\ w \in called
  /\ called' = called \ {w}
  /\ waiting' = [waiting EXCEPT ![reg[w]] = @ \cup {w}]
  /\ parkedAt' = Mark(w, reqlog)
  /\ seen' = See(w, reg[w], hcount)
  /\ UNCHANGED <<via, reg, released, returned, reqlog, nreq, hcount>>
  /\ last' = L("park", {w}, {}, {}, Cardinality(AllOf(waiting')))

Register(w, c) ==
  /\ ~SplitReg /\ reg[w] = NoCode
  /\ reg' = [reg EXCEPT ![w] = c]
  /\ hcount' = Bump(Own, 1)
  /\ LET w1 == Keep(Own, hcount') IN
     waiting' = IF InR(c) THEN [w1 EXCEPT ![c] = @ \cup {w}] ELSE w1
  /\ released' = released \cup Rel(Own, hcount') \cup (IF InR(c) THEN {} ELSE {w})
  /\ reqlog' = IF via THEN Log(Own) ELSE reqlog
  /\ parkedAt' = Mark(w, reqlog')
  /\ seen' = See(w, c, hcount')
  /\ UNCHANGED <<via, called, returned, nreq>>
  /\ last' = L("reg", {w}, {}, Rel(Own, hcount') \cup (IF InR(c) THEN {} ELSE {w}), Cardinality(AllOf(waiting')))

\* k > 1: the one request of the step is sent k times back to back (a long history of the code in one step)
Requests(cs, dl, k) ==
  /\ cs # {} /\ Cardinality(cs) <= MaxBatch /\ nreq < MaxReq
  /\ (k > 1) => (dl = "pipelined" /\ Cardinality(cs) = 1)
  /\ hcount' = Bump(cs, k)
  /\ waiting' = Keep(cs, hcount')
  /\ released' = released \cup Rel(cs, hcount')
  /\ reqlog' = Log(cs) /\ nreq' = nreq + 1
  /\ UNCHANGED <<via, reg, called, returned, parkedAt, seen>>
  /\ last' = LR("request", {}, cs, dl, k, Rel(cs, hcount'), Cardinality(AllOf(waiting')))

\* a registration in flight while requests arrive: first = TRUE when w parked before the requests with
\* its code were broadcast (then it is released with the others), FALSE when it parked after them
Race(w, c, cs, first) ==
  /\ ~SplitReg /\ ~GenBug /\ reg[w] = NoCode /\ cs # {} /\ Cardinality(cs) <= MaxBatch /\ nreq < MaxReq
  /\ (first => c \in cs \cap InRange)
  /\ hcount' = Bump(Own \cup cs, 1)
  /\ reg' = [reg EXCEPT ![w] = c]
  /\ LET w1 == Keep(Own \cup cs, hcount')
         out == ~InR(c) \/ first IN
     /\ waiting' = IF out THEN w1 ELSE [w1 EXCEPT ![c] = @ \cup {w}]
     /\ released' = released \cup Rel(Own \cup cs, hcount') \cup (IF out THEN {w} ELSE {})
     /\ last' = L("race", {w}, cs, Rel(Own \cup cs, hcount') \cup (IF out THEN {w} ELSE {}), Cardinality(AllOf(waiting')))
  /\ reqlog' = (IF Hist THEN (IF via THEN Append(reqlog, Own) ELSE reqlog) \o <<cs>> ELSE reqlog) /\ nreq' = nreq + 1
  /\ parkedAt' = Mark(w, reqlog')
  /\ UNCHANGED <<via, called, returned, seen>>

Return(w) ==
  /\ w \in released
  /\ released' = released \ {w} /\ returned' = returned \cup {w}
  /\ UNCHANGED <<via, reg, called, waiting, reqlog, parkedAt, nreq, hcount, seen>>
  /\ last' = L("return", {w}, {}, {}, Cardinality(AllOf(waiting)))

Batches == {cs \in SUBSET Codes : cs # {} /\ Cardinality(cs) <= MaxBatch}
Next == \/ \E w \in Waiters, c \in Codes : Call(w, c) \/ Register(w, c)
        \/ \E w \in Waiters : Park(w) \/ Return(w)
        \/ \E cs \in Batches, dl \in Deliveries, k \in Reps : Requests(cs, dl, k)
        \/ \E w \in Waiters, c \in Codes, cs \in Batches, first \in BOOLEAN : Race(w, c, cs, first)

Fair == \A w \in Waiters : WF_vars(Park(w)) /\ WF_vars(Return(w))
Spec == Init /\ [][Next]_vars /\ Fair

---------------------------------------------------------------------------
\* the property as a step formula over (vars, vars', last')
e == last'
New      == IF e.op \in {"call", "reg", "race"} THEN e.ws ELSE {}          \* Wait calls that start in this step
Arrived  == e.cs \cup (IF New # {} THEN Own ELSE {})                        \* codes of all requests that arrive in it
\* requests of this step that may be broadcast after waiter w has parked
MayFollow == e.cs \cup (IF Cardinality(New) > 1 THEN Own ELSE {})

C20_Step ==
  /\ ~e.pan                                                    \* no code makes Wait, Broadcast or ServeAgent crash
  /\ e.op \in {"call", "reg", "race", "request", "park", "return"}
  /\ e.dl \in {"none", "single", "pipelined", "fragmented"}   \* however the requests were delivered, what follows is the same
  /\ e.rep \in Nat                   \* ... however often the request was repeated, and whatever came before (hcount is not read)
  \* everybody parked on a code that arrives is released, all together, nobody of them stays
  /\ HitOf(waiting, Arrived) \subseteq (released' \cup returned')
  /\ \A c \in InRange \cap Arrived : waiting'[c] \subseteq New
  \* waiters parked on other codes stay parked; nobody is released without a request with its code
  /\ \A c \in InRange \ Arrived : waiting[c] \subseteq waiting'[c]
  /\ ((released' \cup returned') \ Done) \subseteq (HitOf(waiting, Arrived) \cup New)
  /\ Done \subseteq (released' \cup returned')
  /\ \A c \in InRange : waiting'[c] \subseteq (waiting[c] \cup New \cup called)
  /\ \A w \in Waiters \ New : reg'[w] = reg[w]
  \* the Wait calls that start in this step
  /\ \A w \in New :
       /\ reg[w] = NoCode /\ reg'[w] # NoCode
       /\ IF ~InR(reg'[w])
          THEN w \in (released' \cup returned') /\ w \notin called' \cup AllOf(waiting')   \* never blocks
          ELSE IF reg'[w] \in MayFollow
               THEN w \in called' \cup waiting'[reg'[w]] \cup released' \cup returned'      \* lost wake-up window
               ELSE w \in called' \cup waiting'[reg'[w]]                                  \* blocks
  /\ (e.op = "park") =>
       /\ e.ws \subseteq called /\ \A w \in e.ws : w \in waiting'[reg[w]]
       /\ (released' \cup returned') = Done
  \* only a released waiter returns
  /\ (e.op = "return") => (e.ws \subseteq released /\ returned' = returned \cup e.ws /\ waiting' = waiting)
  /\ returned \subseteq returned'
  \* the number of goroutines observed on the notify lists is the number of parked waiters
  /\ e.n = Cardinality(AllOf(waiting'))

P_C20 == [][C20_Step]_vars

\* state invariants
TypeOK == /\ via \in BOOLEAN
          /\ reg \in [Waiters -> Codes \cup {NoCode}]
          /\ called \subseteq Waiters /\ released \subseteq Waiters /\ returned \subseteq Waiters
          /\ waiting \in [InRange -> SUBSET Waiters]
          /\ nreq \in 0 .. MaxReq
          /\ hcount \in [InRange -> Nat] /\ seen \in [Waiters -> Nat]
Where(w) == (IF w \in called THEN 1 ELSE 0) + (IF w \in released THEN 1 ELSE 0) + (IF w \in returned THEN 1 ELSE 0)
            + Cardinality({c \in InRange : w \in waiting[c]})
\* a waiter is in exactly one place; it is parked only on the entry of its own code; codes outside the
\* table never block
Partition == \A w \in Waiters :
               /\ Where(w) = (IF reg[w] = NoCode THEN 0 ELSE 1)
               /\ \A c \in InRange : w \in waiting[c] => reg[w] = c
               /\ (w \in called) => InR(reg[w])
\* "released by the NEXT request with that code": no request with its code has arrived since a parked waiter parked
NextRequest == \A c \in InRange : \A w \in waiting[c] :
                 \A i \in (parkedAt[w] + 1) .. Len(reqlog) : c \notin reqlog[i]

\* the counter counts: at least one per logged arrival of the code (more when a request was repeated)
CountsLog == (CountHist /\ Hist) => \A c \in InRange : hcount[c] >= Cardinality({i \in DOMAIN reqlog : c \in reqlog[i]})

\* liveness under weak fairness of Park and Return
P_LiveReleased == \A w \in Waiters : (w \in released) ~> (w \in returned)
\* parked(w, c) /\ Request(c) ~> returned(w): the safety part puts every waiter parked on an arriving code
\* into last'.rel, this is the rest
P_LiveRequest  == \A w \in Waiters : (last.op \in {"request", "race", "call", "reg"} /\ w \in last.rel) ~> (w \in returned)
P_LiveOutside  == \A w \in Waiters : (reg[w] # NoCode /\ ~InR(reg[w])) ~> (w \in returned)
P_LivePark     == \A w \in Waiters : (w \in called) ~> (w \in AllOf(waiting) \cup Done)

View == <<state, hist>>
=============================================================================
