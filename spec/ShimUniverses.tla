---------------------------- MODULE ShimUniverses ----------------------------
\* Constant universes and operation sets for ShimAgent (substituted into CONSTANTS by the .cfg files).
\* universes (function-valued constants cannot be written in a .cfg)
\* U4: two keys, four certificates covering the four abstract validity classes and both KeyID classes
U4Certs == {"c1", "c2", "c3", "c4"}
U4CertKey == [c \in U4Certs |-> IF c \in {"c1", "c2"} THEN "k1" ELSE "k2"]
U4V0 == {"c1", "c2"}          \* c1 TT, c2 TF (lapsing), c3 FF (expired), c4 FT (becoming valid)
U4V1 == {"c1", "c4"}
U4Yss == {"c1", "c3"}
\* U3: the quick universe
U3Certs == {"c1", "c2", "c3"}
U3CertKey == [c \in U3Certs |-> IF c = "c3" THEN "k2" ELSE "k1"]
U3V0 == {"c1", "c2"}          \* c1 TT, c2 TF, c3 FF
U3V1 == {"c1"}
U3Yss == {"c1", "c3"}
\* U3b: other assignment of classes (c1 FT yss, c2 TT free on k2, c3 TF yss on k2)
U3bCertKey == [c \in U3Certs |-> IF c = "c1" THEN "k1" ELSE "k2"]
U3bV0 == {"c2", "c3"}
U3bV1 == {"c1", "c2"}
U3bYss == {"c1", "c3"}
\* U3c: three certificates over ONE key with three validity classes (c1 TT yss, c2 TF free, c3 FF free): two different
\* certificates over the same key can be outside their window at once, one in memory and one in the underlying agent
U3cCertKey == [c \in U3Certs |-> "k1"]
U3cV0 == {"c1", "c2"}
U3cV1 == {"c1"}
U3cYss == {"c1"}
\* U2: tiny universe for the fault family
U2Certs == {"c1", "c2"}
U2CertKey == [c \in U2Certs |-> "k1"]
U2V0 == {"c1"}                \* c1 TT yss, c2 FF free
U2V1 == {"c1"}
U2Yss == {"c1"}

\* U8: the universe of the randomly driven traces (three keys of different types, eight certificates,
\* one of them over a key "kx" that no agent ever holds as a plain key)
U8Certs == {"c1", "c2", "c3", "c4", "c5", "c6", "c7", "c8"}
U8CertKey == [c \in U8Certs |-> CASE c \in {"c1", "c2", "c8"} -> "k1" [] c \in {"c3", "c4"} -> "k2"
                                   [] c \in {"c5", "c6"} -> "k3" [] OTHER -> "kx"]
U8V0 == {"c1", "c2", "c5", "c6", "c7"}
U8V1 == {"c1", "c4", "c5", "c7"}
U8Yss == {"c1", "c3", "c6", "c7"}

\* UC: the universe of the concurrency harness (harness/conc: cUniverse)
UCCerts == {"c1", "c2", "c3", "c4", "c5"}
UCCertKey == [c \in UCCerts |-> IF c \in {"c3", "c4"} THEN "k2" ELSE "k1"]
UCV0 == {"c1", "c3", "c5"}
UCV1 == {"c1", "c3", "c5"}
UCYss == {"c1", "c4"}

AllOps == {"list", "signers", "sign", "add", "addhard", "remove", "removeall", "lock", "unlock",
           "close", "forward", "fwdbig", "fstorm", "lockrace", "lockrace2", "dremove", "dadd", "dlock", "tick", "signersuse", "new", "extension"}
OpsNoLock == AllOps \ {"extension", "lockrace", "lockrace2", "fwdbig", "fstorm", "lock", "unlock", "dlock", "close", "forward", "signersuse", "new"}
OpsLock   == AllOps \ {"extension", "lockrace", "lockrace2", "fwdbig", "tick", "forward", "dremove", "dadd", "signersuse", "new"}
OpsFault  == AllOps \ {"extension", "lockrace", "lockrace2", "fwdbig", "fstorm", "tick", "dlock", "dremove", "dadd", "signersuse"}
OpsMC     == AllOps \ {"extension", "lockrace", "lockrace2", "fwdbig", "signersuse", "new"}

=============================================================================
