SPECIFICATION Spec14
CONSTANTS
  LKeys = {"req"}
  MaxFields = 0
  IfVers = {7}
INVARIANT Total Indep14
PROPERTIES P_C14 P_Strict14
CHECK_DEADLOCK FALSE
