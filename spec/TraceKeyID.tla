----------------------------- MODULE TraceKeyID -----------------------------
(***************************************************************************)
(* Judging recorded calls of the real keyid / sshutils/cert / shimagent    *)
(* code with the operators of KeyID.tla.  Every line of trace.ndjson is    *)
(*   {"ev":"reset"}            a new batch starts                          *)
(*   {"ev":"step","e":E}       one call of the real code: E has exactly    *)
(*                             the fields of KeyID!E0 (input class +       *)
(*                             observed result; "present" as an array)     *)
(* The functions are stateless, so there is no pre/post state: a step is   *)
(* accepted by loading E into ev; C05_Step / C19_Step (the property        *)
(* formulas model-checked in MCKeyID) are evaluated on every step, and     *)
(* Strict demands that a replayed case yields exactly the design's event.  *)
(***************************************************************************)
EXTENDS KeyID, Json

TraceLog == ndJsonDeserialize("trace.ndjson")
VARIABLE l
tvars == <<ev, l>>
S(x) == {x[i] : i \in DOMAIN x}
Norm(e) == [e EXCEPT !.present = S(e.present)]
TraceInit == l = 2 /\ TraceLog[1].ev = "reset" /\ ev = InitEv
Reset == l <= Len(TraceLog) /\ TraceLog[l].ev = "reset" /\ ev' = InitEv /\ l' = l + 1
Step  == l <= Len(TraceLog) /\ TraceLog[l].ev = "step" /\ ev' = Norm(TraceLog[l].e) /\ l' = l + 1
TraceNext == Reset \/ Step
TraceSpec == TraceInit /\ [][TraceNext]_tvars

TC05 == [][C05_Step]_tvars
TC19 == [][C19_Step]_tvars
Strict == [][StrictEv(ev')]_tvars
\* the same formulas as reporting action constraints: one TLC run lists every rejected line
Rep(name, F) == F \/ PrintT(<<"REJ", name, l>>)
RepC05 == Rep("TC05", C05_Step)
RepC19 == Rep("TC19", C19_Step)
RepStrict == Rep("Strict", StrictEv(ev'))
TraceAccepted == TLCGet("stats").diameter = Len(TraceLog)
=============================================================================
