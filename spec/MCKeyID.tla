------------------------------ MODULE MCKeyID ------------------------------
(* Bounded model checking of KeyID.tla and export of the complete case space. *)
EXTENDS KeyID, Json
ASSUME Thm_HeadlessNonceExclusive
ASSUME Thm_RoundTrip
ASSUME Thm_RefuseDecode
ASSUME Thm_Count
ASSUME Thm_MutRequired
ASSUME Thm_MutHarmless
ASSUME Thm_DecodePost
ASSUME Thm_Total
ASSUME Thm_OnlyStated
ASSUME Thm_EmptyIsAbsent
ASSUME Thm_UnknownIff
ASSUME Thm_Precedence
ASSUME Thm_InconsistentUnknown
ASSUME Thm_NonceHeadlessTouch
ASSUME Thm_PairUnknown
ASSUME Thm_PairBasesCover
ASSUME Thm_Option
ASSUME Thm_AllReachable
ASSUME Thm_Principals
ASSUME PrintT(<<"UN", ToJson([keyids |-> Cardinality(KeyIDs), encodable |-> Cardinality(Encodable)])>>)

TPq == (-1..4) \cup {1000001}     \* 1000001 stands for every value beyond 10^6 (the harness uses 2^40 + x)
Uq  == 0..2
Vq  == 0..2
TPt == (-2..5) \cup {-1000001, 1000001}
Ut  == -1..3
Vt  == 0..3
K05 == {"enc", "dec", "mut", "junk"}
K19 == {"cert", "certjunk", "certpair", "nil", "prins", "shim"}
\* every case, with the design's verdict for information (the harness does not judge; TLC does, in TraceKeyID)
EmitCase == (ev'.op # "init") => PrintT(<<"CASE", ToJson([c |-> ev'.cs, ok |-> ev'.ok, ty |-> ev'.ty])>>)
Inv_C05 == C05_Holds(ev)
Inv_C19 == C19_Holds(ev)
Inv_Strict == StrictEv(ev)
=============================================================================
