SPECIFICATION Spec
CONSTANTS
  MaxN = 2
  Templates <- TplC17m
  Bundles <- NoBundle
  Ctxs <- Wide
  Reqs <- FullReq
  Calls <- TwoCalls
  Tries <- One
  Hists <- NoHist
  BackoffCfgs <- NoBoCfgs
  Attempts <- BoAttempts
INVARIANT TypeOK Returned NoLateContact NoEmptySuccess
PROPERTIES P_C17 P_C18
CONSTRAINT EmitCase
CHECK_DEADLOCK FALSE
