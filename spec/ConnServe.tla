----------------------------- MODULE ConnServe -----------------------------
(***************************************************************************)
(* Connection level of property C11: several client connections are served *)
(* by yubiagent.ServeAgent (one handler goroutine per connection) on top   *)
(* of ONE shim agent with ONE connection to the underlying agent.          *)
(*                                                                         *)
(* What the design promises: the frame a handler has read belongs to that  *)
(* handler until it has been answered (handler-local buffer buf[c]); the   *)
(* upstream exchange happens under the shim's exclusive lock (busy); the   *)
(* reply is written to the connection the request came from.  Hence every  *)
(* caller receives the reply to its own request, every request reaches the *)
(* underlying agent exactly once and unaltered, and every request is       *)
(* answered.                                                               *)
(*                                                                         *)
(* Requests carry a tag <<c, n>> (connection, sequence number).  Kind      *)
(* "echo" = a raw request ServeAgent forwards verbatim (extension / a code *)
(* x/crypto does not know); the environment's underlying agent answers it  *)
(* with a copy of the request, so that a reply identifies the request it   *)
(* answers.  Kinds "sign" and "list" are answered by the shim through the  *)
(* agent client; their upstream traffic is not tagged and not tracked      *)
(* here (ShimConc tracks it); only the reply is judged.                    *)
(*                                                                         *)
(* The state is one record st and every action is a pair (enabling         *)
(* predicate, effect function), so that the trace specification TraceConn  *)
(* can compose the step the harness cannot observe (Read) with the next    *)
(* observed one.                                                           *)
(***************************************************************************)
EXTENDS Naturals, Sequences, FiniteSets, TLC

CONSTANTS Conns,    \* connection ids (positive integers)
          MaxReq,   \* requests per connection explored by the model checker
          Shared    \* FALSE = the design (handler-local buffers); TRUE = a broken variant in which handlers read
                    \* into one recycled buffer - used to show that the invariants below are not vacuous

VARIABLE st
vars == <<st>>

Kinds == {"echo", "sign", "list"}
NoTag == <<0, 0>>
Tag(c, n) == <<c, n>>

Init0 == [ n      |-> [c \in Conns |-> 0],          \* requests sent so far by client c
           kind   |-> [c \in Conns |-> "echo"],     \* kind of the outstanding request
           stage  |-> [c \in Conns |-> "idle"],     \* idle -> sent -> read -> up -> answered -> idle
           buf    |-> [c \in Conns |-> NoTag],      \* handler-local frame buffer (request, then reply)
           pool   |-> NoTag,                        \* the recycled buffer of the broken variant
           busy   |-> 0,                            \* connection whose handler holds the shim lock with a request upstream
           uplog  |-> <<>>,                         \* tags received by the underlying agent, in order
           got    |-> [c \in Conns |-> <<>>] ]      \* reply tags delivered to client c, in order
Init == st = Init0

\* the client writes request n+1 (strict request-reply clients: one outstanding request per connection)
SendEn(s, c) == s.stage[c] = "idle"
SendF(s, c, k) == [s EXCEPT !.n[c] = @ + 1, !.kind[c] = k, !.stage[c] = "sent"]

\* the handler reads the frame into ITS buffer
ReadEn(s, c) == s.stage[c] = "sent"
ReadF(s, c)  == [s EXCEPT !.buf[c] = Tag(c, s.n[c]), !.pool = Tag(c, s.n[c]), !.stage[c] = "read"]
Req(s, c)    == IF Shared THEN s.pool ELSE s.buf[c]     \* the request as the handler sees it when it forwards it

\* echo: under the shim's exclusive lock the handler's buffer is written to the underlying agent
UpEn(s, c) == s.stage[c] = "read" /\ s.kind[c] = "echo" /\ s.busy = 0
UpF(s, c)  == [s EXCEPT !.uplog = Append(@, Req(s, c)), !.stage[c] = "up", !.busy = c]

\* the underlying agent answers with a copy of what it received; the lock is released
UpREn(s, c) == s.stage[c] = "up" /\ s.busy = c
UpRF(s, c)  == [s EXCEPT !.buf[c] = s.uplog[Len(s.uplog)], !.stage[c] = "answered", !.busy = 0]

\* sign / list: answered by the shim for this request (tag of the reply = what the reply was computed from)
LocalEn(s, c) == s.stage[c] = "read" /\ s.kind[c] # "echo"
LocalF(s, c)  == [s EXCEPT !.stage[c] = "answered"]

\* the reply in the handler's buffer is written to the handler's connection
RecvEn(s, c) == s.stage[c] = "answered"
RecvF(s, c)  == [s EXCEPT !.got[c] = Append(@, s.buf[c]), !.stage[c] = "idle", !.buf[c] = NoTag]

Next == \E c \in Conns :
          \/ SendEn(st, c) /\ st.n[c] < MaxReq /\ \E k \in Kinds : st' = SendF(st, c, k)
          \/ ReadEn(st, c)  /\ st' = ReadF(st, c)
          \/ UpEn(st, c)    /\ st' = UpF(st, c)
          \/ UpREn(st, c)   /\ st' = UpRF(st, c)
          \/ LocalEn(st, c) /\ st' = LocalF(st, c)
          \/ RecvEn(st, c)  /\ st' = RecvF(st, c)
Spec == Init /\ [][Next]_vars /\ WF_vars(Next)

---------------------------------------------------------------------------
\* C11 at connection level
\* each caller receives the reply to its own request, in order
OwnReply == \A c \in Conns : \A i \in DOMAIN st.got[c] : st.got[c][i] = Tag(c, i)
\* every forwarded request reaches the underlying agent once and unaltered
UpOnce == /\ \A i, j \in DOMAIN st.uplog : st.uplog[i] = st.uplog[j] => i = j
          /\ \A i \in DOMAIN st.uplog : LET t == st.uplog[i] IN t[1] \in Conns /\ t[2] \in 1..st.n[t[1]]
\* the single upstream connection carries one exchange at a time
OneUp == Cardinality({c \in Conns : st.stage[c] = "up"}) <= 1
\* every operation completes
AllAnswered == <>[](\A c \in Conns : st.n[c] = MaxReq /\ st.stage[c] = "idle" /\ Len(st.got[c]) = MaxReq)
TypeOK == /\ st.busy \in Conns \cup {0}
          /\ \A c \in Conns : st.stage[c] \in {"idle", "sent", "read", "up", "answered"} /\ st.kind[c] \in Kinds
=============================================================================
