----------------------------- MODULE ReqParam -----------------------------
(***************************************************************************)
(* C14: request-parameter assembly (csr.NewReqParam) and                   *)
(* C15: the two wire formats of client request messages (package message). *)
(*                                                                         *)
(* Both are pure decision functions.  They are written here over EVENTS:   *)
(* an event carries the abstracted inputs of one call and the observed     *)
(* result.  The same event shape is produced by the enumerating state      *)
(* machine below (model: result computed by the design functions DesignXX)  *)
(* and recorded by the Go harness (result observed on the real code), so   *)
(* the property step formulas C14_Step / C15_Step judge both.              *)
(*                                                                         *)
(* Text is abstracted lexically.  All text values are hex strings of their *)
(* bytes (equality in the model = equality of bytes).  A command text is a *)
(* sequence of ATOMS: maximal runs of                                      *)
(*    "sp"  U+0020,  "ws" other white space,  "eq" one '=',  "at" one '@', *)
(*    "txt" anything else,                                                 *)
(* each with its bytes h; a txt atom also carries how it reads as a        *)
(* version (vc, vmaj, vmin), as a boolean word (b) and as a decimal        *)
(* integer (num, decimal text, "" = not an integer).  The legacy parser    *)
(* (split on spaces, trim, skip empty, split at the FIRST '=', LAST        *)
(* occurrence of a key wins) is defined on atom sequences below.           *)
(***************************************************************************)
EXTENDS Integers, Sequences, FiniteSets, TLC

S(x) == {x[i] : i \in DOMAIN x}

---------------------------------------------------------------------------
\* atoms
Atom(t, h, vc, vmaj, vmin, b, num) == [t |-> t, h |-> h, vc |-> vc, vmaj |-> vmaj, vmin |-> vmin, b |-> b, num |-> num]
Txt(h)          == Atom("txt", h, "malformed", 0, 0, "other", "")
TxtV(h, ma, mi) == Atom("txt", h, "ab", ma, mi, "other", "")
TxtBig(h)       == Atom("txt", h, "big", 0, 0, "other", "")
TxtB(h, b)      == Atom("txt", h, "malformed", 0, 0, b, "")
TxtN(h, n)      == Atom("txt", h, "malformed", 0, 0, "other", n)
Sp  == Atom("sp", "20", "malformed", 0, 0, "other", "")
Ws  == Atom("ws", "09", "malformed", 0, 0, "other", "")
Eq  == Atom("eq", "3d", "malformed", 0, 0, "other", "")
At  == Atom("at", "40", "malformed", 0, 0, "other", "")

RECURSIVE Cat(_)
Cat(s) == IF s = <<>> THEN "" ELSE Head(s).h \o Cat(Tail(s))

\* split at the space atoms (a run of spaces only yields empty fields, which are skipped anyway)
RECURSIVE Fields(_)
Fields(s) == IF s = <<>> THEN << <<>> >>
             ELSE LET r == Fields(Tail(s)) IN
                  IF Head(s).t = "sp" THEN << <<>> >> \o r
                  ELSE << <<Head(s)>> \o r[1] >> \o Tail(r)
RECURSIVE TrimL(_)
TrimL(f) == IF f # <<>> /\ Head(f).t = "ws" THEN TrimL(Tail(f)) ELSE f
Rev(f)   == [i \in 1..Len(f) |-> f[Len(f) + 1 - i]]
Trim(f)  == Rev(TrimL(Rev(TrimL(f))))
FirstEq(f) == LET I == {i \in 1..Len(f) : f[i].t = "eq"} IN
              IF I = {} THEN 0 ELSE CHOOSE i \in I : \A j \in I : i <= j
\* one trimmed non-empty field -> token [k = key bytes, v = value atoms]
Tok(f) == LET i == FirstEq(f) IN
          IF i = 0 THEN [k |-> Cat(f), v |-> <<>>]
          ELSE [k |-> Cat(SubSeq(f, 1, i - 1)), v |-> SubSeq(f, i + 1, Len(f))]
NonEmpty(f) == f # <<>>
Tokens(atoms) == LET fs == Fields(atoms)
                     ts == [i \in 1..Len(fs) |-> Trim(fs[i])]
                     ne == SelectSeq(ts, NonEmpty)
                 IN [i \in 1..Len(ne) |-> Tok(ne[i])]
\* last occurrence of a key (0 = absent)
IdxLast(toks, key) == LET I == {i \in 1..Len(toks) : toks[i].k = key} IN
                      IF I = {} THEN 0 ELSE CHOOSE i \in I : \A j \in I : j <= i
ValOf(toks, key) == LET i == IdxLast(toks, key) IN IF i = 0 THEN <<>> ELSE toks[i].v
Has(toks, key)   == IdxLast(toks, key) # 0
\* the parsed map as a set of (key, "s:" value) pairs = what the decoder mirrors into the extension map
MirrorSet(toks) == {[k |-> toks[i].k, v |-> "s:" \o Cat(toks[i].v)] : i \in {j \in 1..Len(toks) : IdxLast(toks, toks[j].k) = j}}

K_req   == "726571"
K_hard  == "486172644b6579"
K_ifver == "4946566572"
K_ver   == "535348436c69656e7456657273696f6e"
K_touch == "546f75636832535348"
K_ff    == "49734669726566696768746572"
K_hosts == "546f7563686c6573735375646f486f737473"
K_time  == "546f7563686c6573735375646f54696d65"
K_other == "6f74686572"
H_NONS  == "4e4f4e53"
H_NSOK  == "4e534f4b"

Ver(cls, ma, mi) == [cls |-> cls, maj |-> ma, min |-> mi]
\* how a value (atom sequence) reads as a declared client version
VerOf(vv) == IF vv = <<>> THEN Ver("missing", 0, 0)
             ELSE IF Len(vv) = 1 /\ vv[1].t = "txt" THEN Ver(vv[1].vc, vv[1].vmaj, vv[1].vmin)
             ELSE Ver("malformed", 0, 0)
NumAt(vv) == {i \in 1..Len(vv) : vv[i].t = "at"}
\* the legacy reading of a command text
LegView(atoms) ==
  LET toks == Tokens(atoms)
      rv   == ValOf(toks, K_req)
      ats  == NumAt(rv)
      a    == IF ats = {} THEN 0 ELSE CHOOSE i \in ats : TRUE
  IN [hasreq |-> Has(toks, K_req), nat |-> Cardinality(ats), reqv |-> Cat(rv),
      user |-> IF Cardinality(ats) = 1 THEN Cat(SubSeq(rv, 1, a - 1)) ELSE "",
      host |-> IF Cardinality(ats) = 1 THEN Cat(SubSeq(rv, a + 1, Len(rv))) ELSE "",
      ver  |-> VerOf(ValOf(toks, K_ver)), verh |-> Cat(ValOf(toks, K_ver))]

---------------------------------------------------------------------------
\* C14.  event: [op = "reqparam", cmd = [jk, dec, jver, juser, jhost, atoms], log, conn = [first, ipc],
\*               argv = [toks, clean], xok, res = R14]
\*   jk   : how the original-command text reads as JSON: object / null / array / number / string / bool / invalid
\*   dec  : (jk = object) it decodes as an attribute object (no field of a wrong JSON type)
\*   jver, juser, jhost : the declared client version / user / host of that object
\*   conn.ipc : v4 / v6 / notip / unknown   (class of the first field, where known to the driver by construction)
\*   conn.strict : the first field is a textual IPv4 / IPv6 address WITHOUT zone, by an independent validator
\*   conn.first / strict read "field" as delimited by single spaces, conn.firstf / strictf as delimited by any run
\*   of white space (the statement does not say which blanks delimit fields: both readings are accepted)
\*   argv.toks : every argument split on single spaces (empty tokens kept); clean = no empty token
\*   argv.ftoks : every argument split on runs of white space (the other legitimate tokenisation)
R14(ok, pan, ln, ip, pol, hd, ma, mi, u, h, tidc) ==
  [ok |-> ok, pan |-> pan, logname |-> ln, ip |-> ip, pol |-> pol, handler |-> hd, vmaj |-> ma, vmin |-> mi,
   requser |-> u, reqhost |-> h, tidc |-> tidc]
Fail14 == R14(FALSE, FALSE, "", "", "", "", 0, 0, "", "", <<>>)
HexDigit == (48..57) \cup (97..102)
TidOK(t) == Len(t) = 10 /\ \A i \in 1..10 : t[i] \in HexDigit
ModelTid == <<48, 49, 50, 51, 52, 97, 98, 99, 100, 102>>

JsonMatch(c, r) == /\ c.jk = "object" /\ c.dec /\ c.jver.cls = "ab"
                   /\ r.vmaj = c.jver.maj /\ r.vmin = c.jver.min
                   /\ r.requser = c.juser /\ r.reqhost = c.jhost
\* a legacy reading: some requester token whose value splits at an '@' into exactly the two copies, and a declared
\* client version (0.0 when the token is absent or empty).  Which occurrence of a repeated key counts is C15's
\* business (last one); C14 accepts any.
LegMatch(c, r)  == LET toks == Tokens(c.atoms)
                       RI   == {i \in 1..Len(toks) : toks[i].k = K_req}
                       VI   == {i \in 1..Len(toks) : toks[i].k = K_ver}
                   IN
                   /\ \E i \in RI : NumAt(toks[i].v) # {} /\ r.requser \o "40" \o r.reqhost = Cat(toks[i].v)
                   /\ \/ \E i \in VI : LET v == VerOf(toks[i].v) IN v.cls = "ab" /\ r.vmaj = v.maj /\ r.vmin = v.min
                      \/ r.vmaj = 0 /\ r.vmin = 0 /\ (VI = {} \/ \E i \in VI : toks[i].v = <<>>)
\* policy = second-last token and handler = last token, under one of the two tokenisations (how many tokens a force
\* command may have is not part of the statement)
TailIs(ts, r) == LET n == Len(ts) IN n >= 2 /\ r.pol = ts[n - 1] /\ r.handler = ts[n]
PolicyFromCommand(av, r) == TailIs(av.toks, r) \/ TailIs(av.ftoks, r)

C14_Call(e) == LET r == e.res IN
  /\ ~r.pan                                              \* never crashes
  /\ r.ok =>
       /\ r.logname = e.log /\ e.log # ""               \* the non-empty server-provided login name
       /\ \/ r.ip = e.conn.first /\ e.conn.strict                       \* exactly the first field, and that is a valid IP
          \/ r.ip = e.conn.firstf /\ e.conn.strictf
       /\ r.pol \in {H_NONS, H_NSOK} /\ PolicyFromCommand(e.argv, r)
       /\ TidOK(r.tidc)
       /\ (JsonMatch(e.cmd, r) \/ LegMatch(e.cmd, r))
\* batch event: [op = "tidbatch", n, sorted = all transaction ids of the process, sorted, cols = distinct
\* characters seen per position]
\* "Fresh" for ids drawn from 40 random bits cannot mean "never twice" over long histories (birthday bound: 10^6 ids
\* collide with probability 0.37).  The demands below are statistics whose probability of failing on a correct
\* generator (independent uniform 5-byte ids) is below 1e-9 per run in total (derivation in notes/reqparam.md):
\* the number of colliding pairs among n ids is Poisson with mean n^2 / 2^41;
DupBound(n) == IF n <= 5000 THEN 1 ELSE IF n <= 50000 THEN 2 ELSE IF n <= 1000000 THEN 9 ELSE 1000000000
C14_Batch(e) == /\ Cardinality({i \in 1..(Len(e.sorted) - 1) : e.sorted[i] = e.sorted[i + 1]}) <= DupBound(e.n)
                /\ e.n = Len(e.sorted)
                /\ e.n >= 32 => \A i \in 1..10 : Len(e.cols[i]) >= 2
\* long history of one process: [op = "tidlong", n ids, fails, badfmt, dups = colliding pairs, zeroheavy = ids with >= 4
\* zero bytes (1.2e-9 each), minwin[b] = fewest distinct values of byte b in an aligned window of 64 consecutive ids]
C14_Long(e) == /\ e.badfmt = 0                                   \* every id is 10 characters of [0-9a-f]
               /\ e.dups <= DupBound(e.n)                         \* no id handed out again (beyond chance)
               /\ e.n <= 1000000 => e.zeroheavy <= 2              \* no ids with (almost) no random bytes
               /\ e.n >= 64 => \A b \in 1..5 : e.minwin[b] >= 33   \* no byte position stuck over 64 consecutive ids
C14_Ev(e) == IF e.op = "reqparam" THEN C14_Call(e) ELSE IF e.op = "tidbatch" THEN C14_Batch(e)
             ELSE IF e.op = "tidlong" THEN C14_Long(e) ELSE TRUE

\* the precise design (what csr.NewReqParam does, with the JSON-null defect repaired)
Attrs14(c) ==
  IF c.jk = "object" /\ c.dec THEN
       [ok |-> c.jver.cls # "missing" /\ c.juser # "" /\ c.jhost # "", user |-> c.juser, host |-> c.jhost, ver |-> c.jver]
  ELSE IF c.jk = "null" THEN [ok |-> FALSE, user |-> "", host |-> "", ver |-> Ver("missing", 0, 0)]
  ELSE LET v == LegView(c.atoms) IN [ok |-> v.hasreq /\ v.nat = 1, user |-> v.user, host |-> v.host, ver |-> v.ver]
Design14(e) ==
  LET a == Attrs14(e.cmd)
      n == Len(e.argv.toks)
  IN IF /\ a.ok /\ e.log # "" /\ e.conn.strict /\ n >= 3 /\ n <= 6
        /\ e.argv.toks[n - 1] \in {H_NONS, H_NSOK} /\ a.ver.cls \in {"ab", "missing"}
     THEN R14(TRUE, FALSE, e.log, e.conn.first, e.argv.toks[n - 1], e.argv.toks[n],
              IF a.ver.cls = "ab" THEN a.ver.maj ELSE 0, IF a.ver.cls = "ab" THEN a.ver.min ELSE 0,
              a.user, a.host, ModelTid)
     ELSE Fail14
Same14(r, d) == /\ r.ok = d.ok /\ ~r.pan
                /\ r.ok => [r EXCEPT !.tidc = <<>>] = [d EXCEPT !.tidc = <<>>]
Xok(e, ok) == e.xok \in {"na", IF ok THEN "t" ELSE "f"}
C14_Strict(e) == IF e.op = "tidlong" THEN e.fails = 0 ELSE IF e.op = "reqparam"
                 THEN /\ Same14(e.res, Design14(e)) /\ Xok(e, e.res.ok)
                      /\ e.conn.ipc \in {"v4", "v6"} => e.conn.strict      \* the driver's classes agree with the validator
                      /\ e.conn.ipc = "notip" => ~e.conn.strict
                 ELSE TRUE

---------------------------------------------------------------------------
\* C15.  attribute sets: [ifVer, ver, user, host, ca, sig, hardKey, touch, tsp, ff, hosts, time, exts]
\*   text fields are hex, ca / sig / time are decimal text, exts a sequence of [k (hex), v (canonical typed text)];
\*   tsp = touchless-sudo present (absent == all zero)
AttrRec(iv, ver, u, h, ca, sig, hk, t2, tsp, ff, hosts, time, exts) ==
  [ifVer |-> iv, ver |-> ver, user |-> u, host |-> h, ca |-> ca, sig |-> sig, hardKey |-> hk, touch |-> t2,
   tsp |-> tsp, ff |-> ff, hosts |-> hosts, time |-> time, exts |-> exts]
ZeroA == AttrRec(0, "", "", "", "0", "0", FALSE, FALSE, FALSE, FALSE, "", "0", <<>>)
Req(a) == a.ver # "" /\ a.user # "" /\ a.host # ""
Fmt(a) == IF a.ifVer >= 7 THEN "json" ELSE "legacy"
TS(a) == IF a.tsp THEN <<a.ff, a.hosts, a.time>> ELSE <<FALSE, "", "0">>
EqLeg(a, b)  == /\ a.ver = b.ver /\ a.user = b.user /\ a.host = b.host
                /\ a.hardKey = b.hardKey /\ a.touch = b.touch /\ TS(a) = TS(b)
EqJson(a, b) == /\ EqLeg(a, b) /\ a.ifVer = b.ifVer /\ a.ca = b.ca /\ a.sig = b.sig /\ S(a.exts) = S(b.exts)
\* a hand-written JSON text (not encoder output): the encoder never writes JSON with an interface version below 7, so what
\* such a text (or one without ifVer) reports as interface version is not fixed by the statement; everything else is copied
EqJsonText(a, b) == /\ EqLeg(a, b) /\ (a.ifVer >= 7 => a.ifVer = b.ifVer) /\ a.ca = b.ca /\ a.sig = b.sig /\ S(a.exts) = S(b.exts)
D15(ok, pan, b) == [ok |-> ok, pan |-> pan, b |-> b]

\* how a legacy boolean / integer value must come back (unconstrained where the statement is silent)
BoolOK(toks, key, x) == LET vv == ValOf(toks, key) IN
  IF ~Has(toks, key) THEN x = FALSE
  ELSE IF Len(vv) = 1 /\ vv[1].b = "true" THEN x = TRUE
  ELSE IF Len(vv) = 1 /\ vv[1].b = "false" THEN x = FALSE ELSE TRUE
TimeOK(toks, x) == LET vv == ValOf(toks, K_time) IN
  IF ~Has(toks, K_time) THEN x = "0"
  ELSE IF Len(vv) = 1 /\ vv[1].num # "" THEN x = vv[1].num ELSE TRUE
\* a successfully decoded legacy text agrees with the token-level parse of that text
LegDecoded(atoms, b) ==
  LET toks == Tokens(atoms)
      v    == LegView(atoms)
  IN /\ v.hasreq /\ v.nat >= 1 /\ b.user \o "40" \o b.host = v.reqv
     /\ b.ver = v.verh
     /\ BoolOK(toks, K_hard, b.hardKey) /\ BoolOK(toks, K_touch, b.touch) /\ BoolOK(toks, K_ff, b.ff)
     /\ b.hosts = Cat(ValOf(toks, K_hosts)) /\ TimeOK(toks, b.time)
     /\ S(b.exts) = MirrorSet(toks)

\* round trip: [op = "rt", a, clean, enc = [ok, pan], wire = atoms of the legacy text (<<>> for JSON),
\*              dec = result of Unmarshal(wire), dec2 = result of UnmarshalLegacy(wire) (legacy) / = dec (JSON),
\*              mode, same]
\* The formula is the same whatever happened before or at the same time: mode = "seq" (one call after the other),
\* "hist" (the set was encoded before, the objects decoded then were overwritten, other sets were encoded in between;
\* same = the text came out identical, which only the precise design demands), "conc" (other goroutines encode and
\* decode their own sets at the same time).
DecodedBack(a, atoms, d) ==
  /\ d.ok /\ ~d.pan
  /\ IF Fmt(a) = "json" THEN EqJson(a, d.b)
     ELSE /\ EqLeg(a, d.b) /\ d.b.ifVer = 6                 \* interface version reported as 6
          /\ S(d.b.exts) = MirrorSet(Tokens(atoms))         \* raw tokens mirrored into the extension map
C15_Rt(e) ==
  /\ ~e.enc.pan
  /\ e.enc.ok = Req(e.a)                                    \* the encoder refuses exactly the sets missing a required field
  /\ (Req(e.a) /\ e.clean) => (DecodedBack(e.a, e.wire, e.dec) /\ DecodedBack(e.a, e.wire, e.dec2))
\* [op = "declegacy", atoms, res = D15]
C15_DecLegacy(e) == (e.res.ok /\ ~e.res.pan) => LegDecoded(e.atoms, e.res.b)
\* [op = "decode", cmd = [jk, dec, ja, atoms], res = D15]: message.Unmarshal on any text
C15_Decode(e) ==
  (e.cmd.jk = "object" /\ e.cmd.dec) =>
     /\ ~e.res.pan
     /\ e.res.ok = Req(e.cmd.ja)                            \* same required-field check as the encoder
     /\ e.res.ok => EqJsonText(e.cmd.ja, e.res.b)           \* the JSON reading, never the legacy one
C15_Ev(e) == IF e.op = "rt" THEN C15_Rt(e) ELSE IF e.op = "declegacy" THEN C15_DecLegacy(e)
             ELSE IF e.op = "decode" THEN C15_Decode(e) ELSE TRUE

\* the precise design of package message (JSON-null defect repaired)
TrueAtom == TxtB("74727565", "true")
\* model-only: how the text values of the model universe read as atoms
VA(h) == IF h = "" THEN <<>>
         ELSE IF h = "613d62" THEN <<Txt("61"), Eq, Txt("62")>>            \* a=b
         ELSE IF h = "61406f" THEN <<Txt("61"), At, Txt("6f")>>            \* a@o (not free of '@')
         ELSE IF h = "382e31" THEN <<TxtV(h, 8, 1)>>                       \* 8.1
         ELSE <<Txt(h)>>
NA(n) == IF n = "30" THEN <<TxtN("3330", "30")>> ELSE IF n = "-5" THEN <<TxtN("2d35", "-5")>> ELSE <<TxtN("30", "0")>>
EncLegacyAtoms(a) ==
  <<Txt(K_ifver), Eq, TxtN("36", "6"), Sp, Txt(K_ver), Eq>> \o VA(a.ver) \o <<Sp, Txt(K_req), Eq>> \o VA(a.user) \o <<At>> \o VA(a.host)
  \o (IF a.hardKey THEN <<Sp, Txt(K_hard), Eq, TrueAtom>> ELSE <<>>)
  \o (IF a.touch THEN <<Sp, Txt(K_touch), Eq, TrueAtom>> ELSE <<>>)
  \o (IF a.tsp /\ a.ff THEN <<Sp, Txt(K_ff), Eq, TrueAtom>> ELSE <<>>)
  \o (IF a.tsp /\ a.hosts # "" THEN <<Sp, Txt(K_hosts), Eq>> \o VA(a.hosts) ELSE <<>>)
  \o (IF a.tsp /\ a.time # "0" THEN <<Sp, Txt(K_time), Eq>> \o NA(a.time) ELSE <<>>)
MirrorSeq(toks) ==
  LET idx == SelectSeq([i \in 1..Len(toks) |-> i], LAMBDA j : IdxLast(toks, toks[j].k) = j)
  IN [n \in 1..Len(idx) |-> [k |-> toks[idx[n]].k, v |-> "s:" \o Cat(toks[idx[n]].v)]]
IsTrue(toks, key) == LET vv == ValOf(toks, key) IN Len(vv) = 1 /\ vv[1].b = "true"
DecLegacyDesign(atoms) ==
  LET toks == Tokens(atoms)
      v    == LegView(atoms)
      iv   == ValOf(toks, K_ifver)
      tv   == ValOf(toks, K_time)
  IN IF v.hasreq /\ v.nat = 1
     THEN D15(TRUE, FALSE, AttrRec(IF Len(iv) = 1 /\ iv[1].num = "6" THEN 6 ELSE 0, v.verh, v.user, v.host, "0", "0",
                                   IsTrue(toks, K_hard), IsTrue(toks, K_touch), TRUE, IsTrue(toks, K_ff),
                                   Cat(ValOf(toks, K_hosts)), IF Len(tv) = 1 /\ tv[1].num # "" THEN tv[1].num ELSE "0",
                                   MirrorSeq(toks)))
     ELSE D15(FALSE, FALSE, ZeroA)
Populated(a) == [a EXCEPT !.tsp = TRUE]
DesignRt(a) ==
  IF ~Req(a) THEN [enc |-> [ok |-> FALSE, pan |-> FALSE], wire |-> <<>>, dec |-> D15(FALSE, FALSE, ZeroA), dec2 |-> D15(FALSE, FALSE, ZeroA)]
  ELSE IF Fmt(a) = "json"
       THEN [enc |-> [ok |-> TRUE, pan |-> FALSE], wire |-> <<>>, dec |-> D15(TRUE, FALSE, Populated(a)), dec2 |-> D15(TRUE, FALSE, Populated(a))]
       ELSE LET w == EncLegacyAtoms(a) IN
            [enc |-> [ok |-> TRUE, pan |-> FALSE], wire |-> w, dec |-> DecLegacyDesign(w), dec2 |-> DecLegacyDesign(w)]
DesignDecode(c) ==
  IF c.jk = "object" /\ c.dec THEN (IF Req(c.ja) THEN D15(TRUE, FALSE, Populated(c.ja)) ELSE D15(FALSE, FALSE, ZeroA))
  ELSE IF c.jk = "null" THEN D15(FALSE, FALSE, ZeroA)
  ELSE DecLegacyDesign(c.atoms)
C15_Strict(e) ==
  IF e.op = "rt" THEN e.dec.ok = (Req(e.a) /\ (Fmt(e.a) = "json" \/ e.clean)) /\ Xok(e, e.dec.ok) /\ e.same
  ELSE IF e.op = "declegacy" THEN LET v == LegView(e.atoms) IN ~e.res.pan /\ e.res.ok = (v.hasreq /\ v.nat = 1) /\ Xok(e, e.res.ok)
  ELSE IF e.op = "decode" THEN /\ ~e.res.pan /\ e.res.ok = DesignDecode(e.cmd).ok /\ Xok(e, e.res.ok)
                               /\ (e.cmd.jk = "object" /\ e.cmd.dec /\ e.res.ok) => e.cmd.ja.ifVer = e.res.b.ifVer
  ELSE TRUE

---------------------------------------------------------------------------
\* The enumerating state machine: a state holds the case being walked; one action per case kind.
CONSTANTS LKeys,      \* legacy keys explored in legacy texts (tags)
          MaxFields,  \* maximal number of fields of a legacy text
          IfVers      \* interface versions of the attribute-set universe
VARIABLES cs, last, phase
vars == <<cs, last, phase>>

H_alice == "616c696365"
H_root  == "726f6f74"
H_host1 == "686f737431"
H_host2 == "686f737432"
UserHex(u) == IF u = "alice" THEN H_alice ELSE H_root
HostHex(h) == IF h = "host1" THEN H_host1 ELSE H_host2
VerAtoms(v) == IF v = "ab" THEN <<TxtV("382e31", 8, 1)>> ELSE IF v = "malformed" THEN <<Txt("382e78")>>
               ELSE IF v = "big" THEN <<TxtBig("37303030302e31")>> ELSE <<>>
JVer(v) == IF v = "ab" THEN Ver("ab", 8, 1) ELSE IF v = "malformed" THEN Ver("malformed", 0, 0)
           ELSE IF v = "big" THEN Ver("big", 0, 0) ELSE Ver("missing", 0, 0)

JsonCmds  == {"json_ok", "json_nover", "json_nouser", "json_nohost"}
OtherJson == {"json_array", "json_number", "json_string", "json_bool", "json_strleg", "json_badtype"}
LegCmds   == {"leg_ver", "leg_nover", "leg_noreq", "leg_req0at", "leg_req2at"}
Cmds      == JsonCmds \cup OtherJson \cup LegCmds \cup {"json_null", "empty", "garbage"}
VersOf(cmd) == IF cmd \in {"json_ok", "leg_ver"} THEN {"ab", "malformed", "big"}
               ELSE IF cmd \in {"json_nover", "leg_nover"} THEN {"missing"}
               ELSE IF cmd = "leg_noreq" THEN {"ab", "missing"} ELSE {"ab"}
HasIdent(cmd) == cmd \in JsonCmds \cup LegCmds \cup {"json_strleg"}
Conns == {"v4", "v6", "notip", "empty", "v4v4", "nov4"}
\* first fields that are an IP address followed / surrounded by something else (zone, junk, brackets, port): not valid;
\* an IPv4-mapped IPv6 address is valid
ZoneConns == {"v6zone", "v6zonejunk", "v4zone", "ipjunk", "bracket", "withport", "mapped"}
Cases14 == {c \in [cmd : Cmds, ver : {"ab", "missing", "malformed", "big"}, log : {"empty", "set"}, conn : Conns \cup ZoneConns,
                   ntok : 0..9, pol : {"NONS", "NSOK", "other"}, hnd : {"plain", "NSOK"},
                   user : {"alice", "root"}, host : {"host1", "host2"}] :
              /\ c.ver \in VersOf(c.cmd)
              /\ c.conn \in ZoneConns => (c.ntok \in {3, 5} /\ c.hnd = "plain" /\ c.pol # "NONS")
              /\ c.ntok < 2 => c.pol = "other"
              /\ c.ntok < 1 => c.hnd = "plain"
              /\ c.hnd = "NSOK" => c.pol # "NSOK"
              /\ (c.user = "alice" /\ c.host = "host2") => FALSE
              /\ ~HasIdent(c.cmd) => (c.user = "alice" /\ c.host = "host1")}

ReqAtoms(c) == <<Txt(K_req), Eq, Txt(UserHex(c.user)), At, Txt(HostHex(c.host))>>
Cmd14(c) ==
  LET J(jk, dec, jv, u, h, at) == [jk |-> jk, dec |-> dec, jver |-> jv, juser |-> u, jhost |-> h, atoms |-> at]
      NoV == Ver("missing", 0, 0)
      pre == <<Txt(K_ifver), Eq, TxtN("36", "6")>>
      vv  == IF c.ver = "missing" THEN <<>> ELSE <<Sp, Txt(K_ver), Eq>> \o VerAtoms(c.ver)
  IN CASE c.cmd \in JsonCmds ->
            J("object", TRUE, JVer(c.ver), IF c.cmd = "json_nouser" THEN "" ELSE UserHex(c.user),
              IF c.cmd = "json_nohost" THEN "" ELSE HostHex(c.host), <<Txt("7b7d")>>)
       [] c.cmd = "json_null"    -> J("null", FALSE, NoV, "", "", <<Txt("6e756c6c")>>)
       [] c.cmd = "json_array"   -> J("array", FALSE, NoV, "", "", <<Txt("5b5d")>>)
       [] c.cmd = "json_number"  -> J("number", FALSE, NoV, "", "", <<TxtN("37", "7")>>)
       [] c.cmd = "json_string"  -> J("string", FALSE, NoV, "", "", <<Txt("227822")>>)
       [] c.cmd = "json_bool"    -> J("bool", FALSE, NoV, "", "", <<TxtB("74727565", "true")>>)
       [] c.cmd = "json_strleg"  -> J("string", FALSE, NoV, "", "", <<Txt("2278"), Sp>> \o ReqAtoms(c) \o <<Sp, Txt("7922")>>)
       [] c.cmd = "json_badtype" -> J("object", FALSE, NoV, "", "", <<Txt("7b7d")>>)
       [] c.cmd \in {"leg_ver", "leg_nover"} -> J("invalid", FALSE, NoV, "", "", pre \o vv \o <<Sp>> \o ReqAtoms(c))
       [] c.cmd = "leg_noreq"    -> J("invalid", FALSE, NoV, "", "", pre \o vv)
       [] c.cmd = "leg_req0at"   -> J("invalid", FALSE, NoV, "", "", pre \o vv \o <<Sp, Txt(K_req), Eq, Txt(UserHex(c.user))>>)
       [] c.cmd = "leg_req2at"   -> J("invalid", FALSE, NoV, "", "", pre \o vv \o <<Sp>> \o ReqAtoms(c) \o <<At, Txt("78")>>)
       [] c.cmd = "empty"        -> J("invalid", FALSE, NoV, "", "", <<>>)
       [] OTHER                  -> J("invalid", FALSE, NoV, "", "", <<Txt("ff7b00")>>)
Conn14(c) == LET C(f, ipc) == [first |-> f, ipc |-> ipc, strict |-> ipc \in {"v4", "v6"}, firstf |-> f, strictf |-> ipc \in {"v4", "v6"}] IN
             CASE c.conn \in {"v4", "v4v4"} -> C("3139322e302e322e37", "v4")
               [] c.conn = "v6"         -> C("323030313a6462383a3a37", "v6")
               [] c.conn = "mapped"     -> C("3a3a666666663a312e322e332e34", "v6")                 \* ::ffff:1.2.3.4
               [] c.conn = "empty"      -> C("", "notip")
               [] c.conn = "v6zone"     -> C("666538303a3a312565746830", "notip")                   \* fe80::1%eth0
               [] c.conn = "v6zonejunk" -> C("666538303a3a31252c5072696e636970616c733d726f6f74", "notip")  \* fe80::1%,Principals=root
               [] c.conn = "v4zone"     -> C("312e322e332e342578", "notip")                         \* 1.2.3.4%x
               [] c.conn = "ipjunk"     -> C("312e322e332e3478", "notip")                           \* 1.2.3.4x
               [] c.conn = "bracket"    -> C("5b3a3a315d", "notip")                                 \* [::1]
               [] c.conn = "withport"   -> C("312e322e332e343a3232", "notip")                       \* 1.2.3.4:22
               [] OTHER                 -> C("676174657761792e6578616d706c65", "notip")
PolHex(p) == IF p = "NONS" THEN H_NONS ELSE IF p = "NSOK" THEN H_NSOK ELSE "58585858"
Fill == <<"67656e7369676e", "2d63", "2f7573722f62696e2f67656e7369676e", "2d2d666c6167", "61", "62", "63", "64", "65">>
Argv14(c) == [toks |-> [i \in 1..c.ntok |-> IF i = c.ntok THEN (IF c.hnd = "NSOK" THEN H_NSOK ELSE "68616e646c6572")
                                              ELSE IF i = c.ntok - 1 THEN PolHex(c.pol) ELSE Fill[i]],
              clean |-> TRUE,
              ftoks |-> [i \in 1..c.ntok |-> IF i = c.ntok THEN (IF c.hnd = "NSOK" THEN H_NSOK ELSE "68616e646c6572")
                                              ELSE IF i = c.ntok - 1 THEN PolHex(c.pol) ELSE Fill[i]]]
Ev14(c) == LET e == [op |-> "reqparam", cmd |-> Cmd14(c), log |-> IF c.log = "set" THEN H_alice ELSE "",
                     conn |-> Conn14(c), argv |-> Argv14(c), xok |-> "na", res |-> Fail14]
               d == Design14(e)
           IN [e EXCEPT !.res = d, !.xok = IF d.ok THEN "t" ELSE "f"]
\* sanity theorem: the result depends on the client-declared user and host only through the two verbatim copies
Indep14 == (phase = "pick" /\ cs.k = "c14") =>
  \A u \in {"alice", "root"}, h \in {"host1", "host2"} :
     LET r1 == Ev14(cs.c).res
         r2 == Ev14([cs.c EXCEPT !.user = u, !.host = h]).res
     IN [r1 EXCEPT !.requser = "", !.reqhost = ""] = [r2 EXCEPT !.requser = "", !.reqhost = ""]

\* C15 universes
TsClasses == {"absent", "zero", "ff", "hosts", "time", "all"}
Sets15 == [ifVer : IfVers, ver : {"", "382e31"}, user : {"", H_alice, "613d62", "61406f"}, host : {"", H_host1},
           hardKey : BOOLEAN, touch : BOOLEAN, ts : TsClasses, ca : {"0", "3"}, sig : {"0", "-4"}, exts : {"none", "flat", "nested"}]
ExtsOf(x) == IF x = "none" THEN <<>>
             ELSE IF x = "flat" THEN <<[k |-> "6b31", v |-> "s:78"]>>
             ELSE <<[k |-> "6b31", v |-> "m:{6b:l:[n:1,b:true]}"], [k |-> "6b32", v |-> "n:2.5"]>>
Attr15(s) == AttrRec(s.ifVer, s.ver, s.user, s.host, s.ca, s.sig, s.hardKey, s.touch, s.ts # "absent",
                     s.ts \in {"ff", "all"}, IF s.ts \in {"hosts", "all"} THEN "68312c6832" ELSE "",
                     IF s.ts = "time" THEN "30" ELSE IF s.ts = "all" THEN "-5" ELSE "0", ExtsOf(s.exts))
Clean15(s) == s.ifVer >= 7 \/ s.user # "61406f"    \* the legacy format is only claimed for values free of white space and '@'
EvRt(s) == LET a == Attr15(s)
               d == DesignRt(a)
           IN [op |-> "rt", a |-> a, clean |-> Clean15(s), enc |-> d.enc, wire |-> d.wire, dec |-> d.dec, dec2 |-> d.dec2,
               xok |-> IF d.dec.ok THEN "t" ELSE "f", mode |-> "seq", same |-> TRUE]

Shapes == {"noeq", "empty", "val", "valeq"}
LToks  == [key : LKeys, shape : Shapes]
KeyHex(k) == CASE k = "req" -> K_req [] k = "HardKey" -> K_hard [] k = "IFVer" -> K_ifver [] k = "SSHClientVersion" -> K_ver
               [] k = "Touch2SSH" -> K_touch [] k = "IsFirefighter" -> K_ff [] k = "TouchlessSudoHosts" -> K_hosts
               [] k = "TouchlessSudoTime" -> K_time [] OTHER -> K_other
GoodVal(k) == CASE k = "req" -> <<Txt(H_alice), At, Txt(H_host1)>>
                [] k \in {"HardKey", "Touch2SSH", "IsFirefighter"} -> <<TrueAtom>>
                [] k = "IFVer" -> <<TxtN("36", "6")>>
                [] k = "SSHClientVersion" -> <<TxtV("382e31", 8, 1)>>
                [] k = "TouchlessSudoHosts" -> <<Txt("68312c6832")>>
                [] k = "TouchlessSudoTime" -> <<TxtN("3330", "30")>>
                [] OTHER -> <<Txt("78")>>
EqVal(k) == IF k = "req" THEN <<Txt("61"), Eq, Txt("62"), At, Txt(H_host2)>> ELSE <<Txt("76"), Eq, Txt("77")>>
TokAtoms(t) == CASE t.shape = "noeq"  -> <<Txt(KeyHex(t.key))>>
                 [] t.shape = "empty" -> <<Txt(KeyHex(t.key)), Eq>>
                 [] t.shape = "val"   -> <<Txt(KeyHex(t.key)), Eq>> \o GoodVal(t.key)
                 [] OTHER             -> <<Txt(KeyHex(t.key)), Eq>> \o EqVal(t.key)
RECURSIVE TextAtoms(_)
TextAtoms(ts) == IF ts = <<>> THEN <<>> ELSE IF Len(ts) = 1 THEN TokAtoms(ts[1]) ELSE TokAtoms(ts[1]) \o <<Sp>> \o TextAtoms(Tail(ts))
Texts15 == UNION {[1..n -> LToks] : n \in 0..MaxFields}
EvLeg(ts) == LET at == TextAtoms(ts)
                 d  == DecLegacyDesign(at)
             IN [op |-> "declegacy", atoms |-> at, res |-> d, xok |-> IF d.ok THEN "t" ELSE "f"]

Decs15 == [jk : {"object"}, miss : {"none", "ver", "user", "host"}, emb : BOOLEAN, shape : {"plain", "extra", "badtype", "ifver6"}]
          \cup [jk : {"null", "array", "string"}, miss : {"none"}, emb : BOOLEAN, shape : {"plain"}]
EvDec(d) == LET ja == IF d.jk = "object" /\ d.shape # "badtype"
                      THEN AttrRec(IF d.shape = "ifver6" THEN 6 ELSE 7, IF d.miss = "ver" THEN "" ELSE "382e31",
                                   IF d.miss = "user" THEN "" ELSE H_alice, IF d.miss = "host" THEN "" ELSE H_host1,
                                   "0", "0", TRUE, FALSE, FALSE, FALSE, "", "0", <<>>)
                      ELSE ZeroA
                at == IF d.emb THEN <<Txt("7b"), Sp, Txt(K_req), Eq, Txt(H_root), At, Txt(H_host2), Sp, Txt("7d")>> ELSE <<Txt("7b7d")>>
                c  == [jk |-> d.jk, dec |-> d.jk = "object" /\ d.shape # "badtype", ja |-> ja, atoms |-> at]
                r  == DesignDecode(c)
            IN [op |-> "decode", cmd |-> c, res |-> r, xok |-> IF r.ok THEN "t" ELSE "f"]

NoEv == [op |-> "init"]
Pick(k, c) == cs = [k |-> k, c |-> c] /\ last = NoEv /\ phase = "pick"
Init14 == \E c \in Cases14 : Pick("c14", c)
Init15 == \/ \E s \in Sets15 : Pick("rt", s)
          \/ \E t \in Texts15 : Pick("leg", t)
          \/ \E d \in Decs15 : Pick("dec", d)
Done(e) == phase = "pick" /\ phase' = "done" /\ cs' = cs /\ last' = e
\* one action per case kind of C14
DoJsonObject == cs.k = "c14" /\ cs.c.cmd \in JsonCmds /\ Done(Ev14(cs.c))
DoJsonNull   == cs.k = "c14" /\ cs.c.cmd = "json_null" /\ Done(Ev14(cs.c))
DoOtherJson  == cs.k = "c14" /\ cs.c.cmd \in OtherJson /\ Done(Ev14(cs.c))
DoLegacy     == cs.k = "c14" /\ cs.c.cmd \in LegCmds /\ Done(Ev14(cs.c))
DoEmpty      == cs.k = "c14" /\ cs.c.cmd = "empty" /\ Done(Ev14(cs.c))
DoGarbage    == cs.k = "c14" /\ cs.c.cmd = "garbage" /\ Done(Ev14(cs.c))
Next14 == DoJsonObject \/ DoJsonNull \/ DoOtherJson \/ DoLegacy \/ DoEmpty \/ DoGarbage
\* ... and of C15
DoRoundTripJson   == cs.k = "rt" /\ cs.c.ifVer >= 7 /\ Done(EvRt(cs.c))
DoRoundTripLegacy == cs.k = "rt" /\ cs.c.ifVer < 7 /\ Done(EvRt(cs.c))
DoLegacyText      == cs.k = "leg" /\ Done(EvLeg(cs.c))
DoDecode          == cs.k = "dec" /\ Done(EvDec(cs.c))
Next15 == DoRoundTripJson \/ DoRoundTripLegacy \/ DoLegacyText \/ DoDecode
Spec14 == Init14 /\ [][Next14]_vars
Spec15 == Init15 /\ [][Next15]_vars

C14_Step == C14_Ev(last')
C15_Step == C15_Ev(last')
P_C14 == [][C14_Step]_vars
P_C15 == [][C15_Step]_vars
P_Strict14 == [][C14_Strict(last')]_vars
P_Strict15 == [][C15_Strict(last')]_vars
\* totality: every case yields a result of the right shape
Total == phase = "done" =>
           \/ last.op = "reqparam" /\ last.res.ok \in BOOLEAN /\ ~last.res.pan /\ (last.res.ok => TidOK(last.res.tidc))
           \/ last.op = "rt" /\ last.enc.ok \in BOOLEAN /\ last.dec.ok \in BOOLEAN
           \/ last.op \in {"declegacy", "decode"} /\ last.res.ok \in BOOLEAN
\* sanity theorems about the model universe (checked by TLC, they guard the formalisation):
\* a legacy round trip of a clean accepted set yields the set; a set with '@' in the user does not
RoundTripSanity == (phase = "done" /\ last.op = "rt" /\ Req(last.a)) =>
                     /\ last.clean => last.dec.ok
                     /\ (Fmt(last.a) = "legacy" /\ ~last.clean) => ~last.dec.ok
=============================================================================
