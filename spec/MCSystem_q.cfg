SPECIFICATION Spec
CONSTANTS
  Scenarios <- ScQuick
  RemovePick <- MCRemovePick
INVARIANT TypeOK ExitClass GoodSucceeds I_E1 I_E2 I_E3 I_E4 I_E5
CONSTRAINT Emit
CHECK_DEADLOCK FALSE
