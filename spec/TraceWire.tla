----------------------------- MODULE TraceWire -----------------------------
(***************************************************************************)
(* Validation of recorded executions of agent/yubiagent against AgentWire. *)
(* Every line of trace.ndjson is                                           *)
(*   {"ev":"reset","fam":"w"|"r","post":S}                                 *)
(*   {"ev":"step","fam":"w","pre":S,"e":L,"post":S'}   one whole stream    *)
(*        served by the real ServeAgent; S = {pos, st, out},               *)
(*        L = {items, nrep, nrel, pan, big}: the items fed, the number of  *)
(*        response frames written, releases of pending waits, panic,       *)
(*        allocation; post.st = how service ended                          *)
(*   {"ev":"step","fam":"r","pre":S,"e":L,"post":S'}   one operation       *)
(*        through the real client <-> ServeAgent; S = {h} (state tag),     *)
(*        L = the rlast record of AgentWire                                *)
(* A step is accepted only if its pre state is the state reached so far;   *)
(* C12_Step / C13_Step are evaluated on every accepted step.               *)
(***************************************************************************)
EXTENDS AgentWire, Json

TraceLog == ndJsonDeserialize("trace.ndjson")
VARIABLE l
tvars == <<vars, l>>
InitLast  == [i |-> 0, it |-> NoItem, nrep |-> 0, rel |-> FALSE, pan |-> FALSE, big |-> FALSE]
InitRLast == [op |-> "init", code |-> -1, method |-> "", ncalls |-> 0, argeq |-> TRUE, reseq |-> TRUE, aerr |-> FALSE,
              cerr |-> FALSE, pan |-> FALSE, remote |-> FALSE, toolran |-> FALSE, lines |-> <<>>, slots |-> <<>>,
              exit |-> 0, steq |-> TRUE, mode |-> "model", shape |-> "normal"]
LoadW(s) == pos' = s.pos /\ status' = s.st /\ out' = s.out /\ stream' = <<>>
SameW(s) == pos = s.pos /\ status = s.st /\ out = s.out
LoadR(s) == ag' = s.h /\ dag' = s.h /\ hist' = 0
SameR(s) == ag = s.h
TraceInit == /\ l = 2 /\ TraceLog[1].ev = "reset"
             /\ stream = <<>> /\ last = InitLast /\ rlast = InitRLast /\ remote = FALSE /\ hist = 0 /\ CFrozen
             /\ IF TraceLog[1].fam = "w"
                THEN pos = TraceLog[1].post.pos /\ status = TraceLog[1].post.st /\ out = TraceLog[1].post.out /\ ag = "" /\ dag = ""
                ELSE pos = 1 /\ status = "ok" /\ out = <<>> /\ ag = TraceLog[1].post.h /\ dag = TraceLog[1].post.h
Reset == /\ l <= Len(TraceLog) /\ TraceLog[l].ev = "reset" /\ l' = l + 1
         /\ last' = InitLast /\ rlast' = InitRLast /\ remote' = FALSE /\ UNCHANGED cvars
         /\ IF TraceLog[l].fam = "w" THEN LoadW(TraceLog[l].post) /\ UNCHANGED <<ag, dag, hist>>
            ELSE LoadR(TraceLog[l].post) /\ UNCHANGED <<stream, pos, out, status>>
StepW == /\ l <= Len(TraceLog) /\ TraceLog[l].ev = "step" /\ TraceLog[l].fam = "w" /\ l' = l + 1
         /\ SameW(TraceLog[l].pre) /\ LoadW(TraceLog[l].post)
         /\ last' = TraceLog[l].e
         /\ UNCHANGED <<ag, dag, hist, remote, rlast>> /\ UNCHANGED cvars
StepR == /\ l <= Len(TraceLog) /\ TraceLog[l].ev = "step" /\ TraceLog[l].fam = "r" /\ l' = l + 1
         /\ SameR(TraceLog[l].pre) /\ LoadR(TraceLog[l].post)
         /\ rlast' = TraceLog[l].e /\ remote' = TraceLog[l].e.remote
         /\ UNCHANGED <<stream, pos, out, status, last>> /\ UNCHANGED cvars
TraceNext == Reset \/ StepW \/ StepR
TraceSpec == TraceInit /\ [][TraceNext]_tvars

IsW == TraceLog[l].ev = "step" /\ TraceLog[l].fam = "w"
IsR == TraceLog[l].ev = "step" /\ TraceLog[l].fam = "r"
\* one served connection: alone (conc <= 1: the stream-level outcome) or next to conc - 1 other connections to the same
\* server (driven in lock step, so kinds[i] is the kind of the response to the i-th frame)
StreamOK == /\ IF last'.conc > 1 THEN C12_Conn(last'.items, last'.kinds, last'.nrep, status', last'.pan, last'.big)
               ELSE C12_Stream(last'.items, last'.nrep, status', last'.pan, last'.big)
            /\ C12_Sized(last'.items, last'.sizedok)
TC12 == [][IsW => StreamOK]_tvars
TC13 == [][IsR => C13_Step]_tvars
Rep(name, P) == P \/ PrintT(<<"REJ", name, l>>)
RepC12 == Rep("TC12", IsW => StreamOK)
RepC13 == Rep("TC13", IsR => C13_Step)
RepStrict == Rep("Strict", TRUE)
TraceAccepted == TLCGet("stats").diameter = Len(TraceLog)
=============================================================================
