SPECIFICATION Spec
CONSTANTS
  MaxN = 2
  Templates <- TplC18e
  Bundles <- Ca1Only
  Ctxs <- Wide
  Reqs <- FullReq
  Calls <- OneCall
  Tries <- One
  Hists <- NoHist
  BackoffCfgs <- NoBoCfgs
  Attempts <- BoAttempts
INVARIANT TypeOK Returned NoLateContact NoEmptySuccess
PROPERTIES P_C17 P_C18
CONSTRAINT EmitCase
CHECK_DEADLOCK FALSE
