----------------------------- MODULE TraceSystem -----------------------------
(***************************************************************************)
(* Validation of recorded executions of the REAL gensign binary against    *)
(* System.  Every line of trace.ndjson is one of                           *)
(*   {"ev":"reset","post":{"ag":[..]}}     a new forwarded agent starts     *)
(*   {"ev":"step","pre":{"ag":[..]},"e":{"op":"run","sc":S,"r":R},"post":{"ag":[..]}}                       *)
(*                                         one process execution           *)
(* with S the scenario (classes chosen by the driver, free text hex-       *)
(* encoded), R the observation record in the shape of System!r and the     *)
(* identity sets of the forwarded agent before / after.  A run is accepted *)
(* only if its pre-state is the post-state reached so far (continuity);    *)
(* the set of key pairs seen so far is accumulated by TLC over a trace     *)
(* (consecutive runs against the same agent).  The predicates E1..E5 of    *)
(* System judge every recorded execution.                                  *)
(***************************************************************************)
EXTENDS System, Json

TraceLog == ndJsonDeserialize("trace.ndjson")
VARIABLES l,       \* next line
          kind,    \* kind of the line consumed last: "reset" | "run"
          seen     \* key pairs seen so far in this trace
tvars == <<vars, l, kind, seen>>
TrRemovePick(T) == T

Rec == TraceLog[l]
Frozen == UNCHANGED <<pc, nreq, dead, hs, ei, certs, todo, expired>>
KeysOf(X) == {x.k : x \in X}
RunKeys(o) == {c.key : c \in AllCsrs(o)}

TraceInit == /\ l = 2 /\ TraceLog[1].ev = "reset" /\ kind = "reset"
             /\ ag = S(TraceLog[1].post.ag) /\ seen = KeysOf(S(TraceLog[1].post.ag))
             /\ pc = "done" /\ sc = [pa |-> "none"] /\ r = [exit |-> 0] /\ pre = [ag |-> {}, seen |-> {}]
             /\ nreq = 0 /\ dead = FALSE /\ hs = <<>> /\ ei = 1 /\ certs = <<>> /\ todo = {} /\ expired = FALSE

Reset == /\ l <= Len(TraceLog) /\ Rec.ev = "reset"
         /\ ag' = S(Rec.post.ag) /\ seen' = KeysOf(S(Rec.post.ag)) /\ kind' = "reset" /\ l' = l + 1
         /\ UNCHANGED <<sc, r, pre>> /\ Frozen

RunStep == /\ l <= Len(TraceLog) /\ Rec.ev = "step" /\ Rec.e.op = "run"
           /\ ag = S(Rec.pre.ag)                       \* continuity with the previous post-state
           /\ ag' = S(Rec.post.ag)
           /\ sc' = Rec.e.sc /\ r' = Rec.e.r
           /\ pre' = [ag |-> ag, seen |-> seen]
           /\ seen' = seen \cup KeysOf(S(Rec.post.ag)) \cup RunKeys(Rec.e.r)
           /\ kind' = "run" /\ l' = l + 1 /\ Frozen

TraceNext == Reset \/ RunStep
TraceSpec == TraceInit /\ [][TraceNext]_tvars

IsRun == kind' = "run"
\* reporting action constraints: one TLC run lists every rejected line
Rep(name, F) == F \/ PrintT(<<"REJ", name, l>>)
RepE1 == Rep("E1", IsRun => E1(sc', r', pre', ag'))
RepE2 == Rep("E2", IsRun => E2(sc', r', pre', ag'))
RepE3 == Rep("E3", IsRun => E3(sc', r', pre', ag'))
RepE4 == Rep("E4", IsRun => E4(sc', r', pre', ag'))
RepE5 == Rep("E5", IsRun => E5(sc', r', pre', ag'))
TraceAccepted == TLCGet("stats").diameter = Len(TraceLog)
=============================================================================
