----------------------------- MODULE ShimConc -----------------------------
(***************************************************************************)
(* Concurrency model of agent/shimagent.Server: N client goroutines (the   *)
(* yubiagent server serves every connection on its own goroutine against   *)
(* one shared shim) each run one operation, split into micro-steps:        *)
(*   acquire Server.mu in mode W / R / none   (LockMode[op], MEASURED on   *)
(*   the real code by the harness and written into the configuration),     *)
(*   then the segments of Prog[op]:                                        *)
(*     "call"  request/reply through the x/crypto agent client (its own    *)
(*             mutex cmu serialises callers)                               *)
(*     "raw"   request/reply written to the shared connection directly     *)
(*             (Forward)                                                   *)
(*     "tw"    write to the shared status (certificate tables, cache,      *)
(*             lock flag)          "tr"  read of it                        *)
(*   release.                                                              *)
(* The single connection to the underlying agent is a FIFO: requests are   *)
(* answered in order, a reader takes the next reply whatever it is.        *)
(***************************************************************************)
EXTENDS Naturals, Sequences, FiniteSets, TLC
CONSTANTS Threads, OpKinds, LockMode, Prog,
          Leaky     \* operation kinds whose ERROR exit was measured to return with Server.mu still held
                    \* (empty for a correct implementation; filled in from probes of the real code)
VARIABLES op, pc, seg, writer, readers, cmu, sub, pending, replyq, got, inTab
vars == <<op, pc, seg, writer, readers, cmu, sub, pending, replyq, got, inTab>>
None == "none"

Init == /\ op \in [Threads -> OpKinds] /\ pc = [t \in Threads |-> "start"]
        /\ seg = [t \in Threads |-> 1] /\ writer = None /\ readers = {} /\ cmu = None
        /\ sub = [t \in Threads |-> "none"] /\ pending = <<>> /\ replyq = <<>>
        /\ got = [t \in Threads |-> <<>>] /\ inTab = [t \in Threads |-> "none"]

Acquire(t) ==
   /\ pc[t] = "start"
   /\ (CASE LockMode[op[t]] = "W" -> writer = None /\ readers = {} /\ writer' = t /\ UNCHANGED readers
         [] LockMode[op[t]] = "R" -> writer = None /\ readers' = readers \cup {t} /\ UNCHANGED writer
         [] OTHER -> UNCHANGED <<writer, readers>>)
   /\ pc' = [pc EXCEPT ![t] = "run"]
   /\ UNCHANGED <<op, seg, cmu, sub, pending, replyq, got, inTab>>

Cur(t) == Prog[op[t]][seg[t]]
Advance(t) == IF seg[t] = Len(Prog[op[t]]) THEN /\ pc' = [pc EXCEPT ![t] = "rel"] /\ UNCHANGED seg
              ELSE /\ seg' = [seg EXCEPT ![t] = seg[t] + 1] /\ UNCHANGED pc

\* a status access is two micro-steps so that overlap is visible
TabEnter(t) == /\ pc[t] = "run" /\ Cur(t) \in {"tw", "tr"} /\ inTab[t] = "none"
               /\ inTab' = [inTab EXCEPT ![t] = Cur(t)]
               /\ UNCHANGED <<op, pc, seg, writer, readers, cmu, sub, pending, replyq, got>>
TabLeave(t) == /\ pc[t] = "run" /\ Cur(t) \in {"tw", "tr"} /\ inTab[t] # "none"
               /\ inTab' = [inTab EXCEPT ![t] = "none"] /\ Advance(t)
               /\ UNCHANGED <<op, writer, readers, cmu, sub, pending, replyq, got>>

CmuTake(t) == /\ pc[t] = "run" /\ Cur(t) = "call" /\ sub[t] = "none" /\ cmu = None
              /\ cmu' = t /\ sub' = [sub EXCEPT ![t] = "held"]
              /\ UNCHANGED <<op, pc, seg, writer, readers, pending, replyq, got, inTab>>
Send(t) == /\ pc[t] = "run"
           /\ \/ Cur(t) = "call" /\ sub[t] = "held"
              \/ Cur(t) = "raw"  /\ sub[t] = "none"
           /\ pending' = Append(pending, t) /\ sub' = [sub EXCEPT ![t] = "sent"]
           /\ UNCHANGED <<op, pc, seg, writer, readers, cmu, replyq, got, inTab>>
ServerReply == /\ pending # <<>> /\ replyq' = Append(replyq, Head(pending)) /\ pending' = Tail(pending)
               /\ UNCHANGED <<op, pc, seg, writer, readers, cmu, sub, got, inTab>>
Recv(t) == /\ pc[t] = "run" /\ sub[t] = "sent" /\ replyq # <<>>
           /\ got' = [got EXCEPT ![t] = Append(got[t], Head(replyq))] /\ replyq' = Tail(replyq)
           /\ sub' = [sub EXCEPT ![t] = "none"]
           /\ cmu' = IF Cur(t) = "call" THEN None ELSE cmu
           /\ Advance(t)
           /\ UNCHANGED <<op, writer, readers, pending, inTab>>
\* The underlying agent answers the exchange with a failure (or the connection breaks): the operation abandons
\* its remaining segments and returns an error.  It must still release the lock - unless its kind is Leaky.
RecvFail(t) == /\ pc[t] = "run" /\ sub[t] = "sent" /\ replyq # <<>>
               /\ got' = [got EXCEPT ![t] = Append(got[t], Head(replyq))] /\ replyq' = Tail(replyq)
               /\ sub' = [sub EXCEPT ![t] = "none"]
               /\ cmu' = IF Cur(t) = "call" THEN None ELSE cmu
               /\ pc' = [pc EXCEPT ![t] = IF op[t] \in Leaky THEN "done" ELSE "rel"]
               /\ UNCHANGED <<op, seg, writer, readers, pending, inTab>>
Release(t) == /\ pc[t] = "rel" /\ pc' = [pc EXCEPT ![t] = "done"]
              /\ writer' = IF writer = t THEN None ELSE writer
              /\ readers' = readers \ {t}
              /\ UNCHANGED <<op, seg, cmu, sub, pending, replyq, got, inTab>>
ThreadStep(t) == Acquire(t) \/ TabEnter(t) \/ TabLeave(t) \/ CmuTake(t) \/ Send(t) \/ Recv(t) \/ RecvFail(t) \/ Release(t)
Next == ServerReply \/ \E t \in Threads : ThreadStep(t)
Fair == WF_vars(ServerReply) /\ \A t \in Threads : WF_vars(ThreadStep(t))
Spec == Init /\ [][Next]_vars /\ Fair

\* C11 on the model
TableExclusion == \A a, b \in Threads : (a # b /\ inTab[a] # "none" /\ inTab[b] # "none") => (inTab[a] = "tr" /\ inTab[b] = "tr")
WireExclusion  == Len(pending) + Len(replyq) <= 1
OwnReply       == \A t \in Threads : \A i \in 1..Len(got[t]) : got[t][i] = t
AllDone        == <>(\A t \in Threads : pc[t] = "done")
\* an operation that has returned (normally or with an error) holds nothing: otherwise nobody else ever completes
NoLeak == \A t \in Threads : pc[t] = "done" => (writer # t /\ t \notin readers)
\* readers-writer lock sanity
RWSane == (writer # None => readers = {})
=============================================================================
