SPECIFICATION Spec
CONSTANTS
  MaxN = 4
  Templates <- TplC18r
  Bundles <- Ca1Only
  Ctxs <- Ample
  Reqs <- FullReq
  Tries <- Three
  Hists <- NoHist
  BackoffCfgs <- NoBoCfgs
  Attempts <- BoAttempts
INVARIANT TypeOK Returned NoLateContact NoEmptySuccess
PROPERTIES P_C17 P_C18
CONSTRAINT EmitCase
CHECK_DEADLOCK FALSE
