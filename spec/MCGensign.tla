----------------------------- MODULE MCGensign -----------------------------
(* Bounded configurations of Gensign: scenario sets per property and tier, initial agents, case export. *)
EXTENDS Gensign, Json

Dir(lp, lb, rp, rb) == [lp |-> lp, lb |-> lb, rp |-> rp, rb |-> rb]
DirU == Dir("U", "none", "none", "none")
IdsBase == <<[a |-> 1, f |-> "lower", id |-> "slot-rsa"], [a |-> 3, f |-> "upper", id |-> "slot-ec"]>>
Base == [hs |-> <<"regular">>, ns |-> "NONS", hard |-> FALSE, ln |-> "ln", ru |-> "ru", rh |-> "rh", ip |-> "ip", tid |-> "t",
         algo |-> 1, val |-> 43200, valx |-> "43200", ids |-> IdsBase, dir |-> DirU, ans |-> "honest",
         ncert |-> 1, ncsr |-> 1, sgen |-> "ok", more |-> FALSE, fok |-> FALSE,
         delay |-> "none",      \* the forwarded agent answers the sign request at once / after 0.5 s ("short") / after more than any
                                \* plausible per-step timeout ("long" = 11.5 s, "vlong" = 35 s)
         vform |-> "num", valx2 |-> "43200",   \* how the configuration writes cert_validity_sec (see Gensign!AcceptableVal)
         crep |-> "cert",       \* representation of the certificates the signer returns: concrete *ssh.Certificate ("cert"),
                                \* *agent.Key holding the certificate blob ("agentkey"), another ssh.PublicKey implementation ("wrapper")
         ctx |-> "bg",          \* request context handed to Run (see Gensign!CtxDone)
         wire |-> "json",       \* request message format: "json", or the text of the legacy HardKey attribute ("absent" = none)
         kalgo |-> "ECCP256"]   \* key algorithm of the stub handler's agent key (the regular handler uses the package default)
\* the legacy message format cannot name a CA key algorithm: algorithm 0 (default) must have a slot
Ids0 == <<[a |-> 0, f |-> "lower", id |-> "slot-default"], [a |-> 1, f |-> "upper", id |-> "slot-rsa"]>>
Malformed == {"absent", "", "yes", "2", "TrUe", "tRUE", "on", "truee"}      \* ParseBool rejects these: not a hardware-key request
LegacyWires == TrueSpellings \cup FalseSpellings \cup Malformed
Legacy(w) == [Base EXCEPT !.wire = w, !.hard = (w \in TrueSpellings), !.algo = 0, !.ids = Ids0]
NsTokens == {"NONS", "NSOK", "nons", "Nons", "nsok", "Nsok", "nsOK", "NSOK1", "NS_OK", "NONS1", "", " NONS", "NONS ", " NSOK"}
KAlgos == {"RSA2048", "ECCP256", "ECCP384", "ECCP521", "ED25519"}

FileCls == {"none", "U", "O", "bad"}
AllDirs == {Dir(a, b, c, "none") : a \in FileCls, b \in FileCls, c \in {"none", "U", "O"}}
         \cup {Dir("none", "none", "none", "U"), Dir("none", "O", "U", "U")}
Ans1 == {"honest", "nokey", "otherkey", "otherdata", "garbage", "empty", "failure", "closed"}
Ans2 == Ans1 \cup {"replay"}
Lists(X, n) == UNION {[1..m -> X] : m \in 0..n}
HL == {hl \in Lists({"regular", "accept", "reject"}, 3) : Cardinality({j \in DOMAIN hl : hl[j] = "regular"}) <= 1}
\* validity classes [x: decimal text of the configured value, n: the number capped at 2^31-1]
VC(x, n) == [x |-> x, n |-> n]
Vals == {VC("1", 1), VC("43200", 43200), VC("315360000", 315360000)}
\* representation boundaries of every type the validity passes through (JSON number = float64 -> uint64 configuration ->
\* uint64 proto field; uint32 agent lifetime next to it): 0, 1, 2^31-1, 2^31, 2^32-1, 2^32, 2^32+43200, 2^53-1, 2^53, 2^63
\* (2^63-1 and 2^64-1 are not exact JSON numbers: the loader itself rounds them, so "the configured value" is not defined)
VBound == Vals \cup {VC("0", 0), VC("2147483647", 2147483647), VC("2147483648", 2147483647), VC("4294967295", 2147483647),
                      VC("4294967296", 2147483647), VC("4295010496", 2147483647), VC("9007199254740991", 2147483647),
                      VC("9007199254740992", 2147483647), VC("9223372036854775808", 2147483647)}

\* initial agents: the user's key; planted identities (foreign certificate, near misses of the handler label, a plain key);
\* certificates left by an earlier generation of the regular handler (R) / of the stub handler (S)
UserKey == Id("U", "key", "U", "-", "user")
Planted == {Id("pF", "cert", "kF", "-", "foreign"), Id("pC", "cert", "kC", "-", "nearcase"),
            Id("pT", "cert", "kT", "-", "neartrunc"), Id("pK", "key", "pK", "-", "plain")}
OldGen == {Id("oR1", "cert", "kOld", "R", "oldgenR"), Id("oR2", "cert", "kOld", "R", "oldgenR"), Id("oS1", "cert", "kOldS", "S", "oldgenS")}
PA_user == {UserKey}
PA_planted == {UserKey} \cup Planted
PA_old == {UserKey} \cup Planted \cup OldGen
Pre1 == {PA_user}
Pre2 == {PA_user, PA_planted}
Pre2o == {PA_user, PA_old}
Pre3 == {PA_user, PA_planted, PA_old}

MCRemovePick(T) == {CHOOSE x \in T : TRUE}     \* one (arbitrary) removal order is enough for the bounded runs

---------------------------------------------------------------------------
\* C01: every directory state x every answer class for the lone regular handler; the refusals; every handler list
\* (<= 3 handlers, <= 1 regular) with an authenticating / a failing regular handler; two-run histories for replay.
C01_Sc1 == {[Base EXCEPT !.dir = d, !.ans = a] : d \in AllDirs, a \in Ans1}
      \cup {[Base EXCEPT !.dir = d, !.fok = TRUE] : d \in {DirU, Dir("none", "U", "none", "none"), Dir("O", "U", "none", "none")}}
      \cup {[Base EXCEPT !.ns = n, !.hard = h, !.dir = d] : n \in {"NONS", "NSOK"}, h \in BOOLEAN, d \in {DirU, Dir("none", "none", "U", "none")}}
      \cup {[Base EXCEPT !.hs = hl, !.ans = a] : hl \in HL, a \in {"honest", "otherkey"}}
      \cup {Legacy(w) : w \in LegacyWires}
      \* namespace-policy TOKENS of the forced command, through the real parameter parser
      \cup {[Base EXCEPT !.ns = t, !.hs = hl] : t \in NsTokens, hl \in {<<"regular">>, <<"regular", "accept">>}}
      \* slow agents x every outcome: whoever does not prove possession gets nothing, however long it takes
      \cup {[Base EXCEPT !.delay = d, !.ans = a, !.dir = dd] : d \in {"short", "long"}, a \in {"honest", "nokey", "garbage", "otherkey", "failure"},
                                                             dd \in {DirU, Dir("O", "none", "none", "none")}}
      \cup {[Base EXCEPT !.delay = "long", !.ans = a, !.hs = <<"regular", "accept">>] : a \in {"honest", "nokey"}}
      \cup {[Legacy(w) EXCEPT !.hs = <<"reject", "regular", "accept">>] : w \in {"1", "T", "0", "absent"}}
      \cup {[Base EXCEPT !.hs = hl, !.fok = TRUE] : hl \in {<<"reject", "accept">>, <<"regular", "accept">>, <<"reject">>}}
      \cup {[Base EXCEPT !.hs = hl, !.more = TRUE] : hl \in {<<"regular">>, <<"reject", "regular">>}}
C01_Sc2(s) == IF s.more THEN {[Base EXCEPT !.ans = a, !.hs = hl] : a \in Ans2, hl \in {<<"regular">>, <<"regular", "accept">>}} ELSE {}
C01t_Sc1 == C01_Sc1 \cup {[Base EXCEPT !.delay = "vlong", !.ans = a, !.dir = dd] : a \in {"honest", "nokey", "garbage", "otherkey", "failure"},
                                                             dd \in {DirU, Dir("O", "none", "none", "none")}} \cup {[Base EXCEPT !.hs = hl, !.ans = a, !.ns = n, !.hard = h, !.fok = TRUE] :
                            hl \in HL, a \in {"honest", "closed", "replay"}, n \in {"NONS", "NSOK"}, h \in BOOLEAN}
                    \cup {[Base EXCEPT !.hs = hl, !.more = TRUE, !.ans = a] : hl \in {<<"regular">>, <<"reject", "regular">>}, a \in {"honest", "otherdata"}}
C01t_Sc2(s) == IF s.more THEN {[Base EXCEPT !.ans = a, !.hs = hl, !.dir = d] : a \in Ans2,
                                 hl \in {<<"regular">>, <<"regular", "accept">>}, d \in {DirU, Dir("none", "U", "none", "none")}}
                           \cup {[Base EXCEPT !.ans = a, !.more = TRUE] : a \in {"honest", "replay", "otherdata"}} ELSE {}

\* C02: CA key algorithm x form of the configured identifier map x validity
Other(a) == (a + 1) % 5
IdMaps(a) == {<<>>, <<[a |-> Other(a), f |-> "lower", id |-> "slot-o"]>>}
        \cup {<<[a |-> a, f |-> f, id |-> "slot-a"], [a |-> Other(a), f |-> "upper", id |-> "slot-o"]>> : f \in {"lower", "upper", "mixed", "num"}}
C02_Sc1 == UNION {{[Base EXCEPT !.algo = a, !.ids = m, !.val = v.n, !.valx = v.x, !.valx2 = v.x] : m \in IdMaps(a), v \in Vals} : a \in 0..4}
       \cup {[Base EXCEPT !.val = v.n, !.valx = v.x, !.valx2 = v.x, !.hs = hl] : v \in VBound, hl \in {<<"regular">>, <<"reject", "regular">>}}
       \cup {[Base EXCEPT !.val = v.n, !.valx = v.x, !.valx2 = v.x, !.more = TRUE] : v \in {VC("4294967296", 2147483647), VC("4295010496", 2147483647)}}
       \* configuration TEXT classes of the numeric field (value 7200; null = the default 43200)
       \cup {[Base EXCEPT !.vform = f, !.val = 7200, !.valx = "7200", !.valx2 = (IF f = "frac" THEN "7201" ELSE "7200"), !.hs = hl] :
               f \in {"num", "float0", "exp", "frac", "neg", "str", "str0", "strhex", "strus", "strsp", "bool"},
               hl \in {<<"regular">>, <<"accept", "regular">>, <<"accept">>}}
       \cup {[Base EXCEPT !.vform = "null", !.hs = hl] : hl \in {<<"regular">>, <<"accept", "regular">>}}
       \cup {[Base EXCEPT !.vform = f, !.val = 7200, !.valx = "7200", !.valx2 = "7200", !.more = TRUE] : f \in {"str0", "neg", "num"}}
       \* CA key algorithm numbers beyond the named ones, configured by number
       \cup UNION {{[Base EXCEPT !.algo = a, !.ids = m] : m \in {<<>>, <<[a |-> a, f |-> "num", id |-> "slot-a"], [a |-> 1, f |-> "lower", id |-> "slot-o"]>>}} : a \in {5, 255, 65536, 2147483647}}
       \cup {[Base EXCEPT !.more = TRUE, !.hs = hl] : hl \in {<<"regular">>, <<"reject", "regular">>}}
       \cup {[Base EXCEPT !.hs = hl] : hl \in {<<"accept", "regular">>, <<"regular", "accept">>}}
C02_Sc2(s) == IF s.more THEN {[Base EXCEPT !.algo = a, !.more = m] : a \in {1, 2, 3}, m \in BOOLEAN} ELSE {}

\* C03: histories of two (thorough: three) runs, success / failure before, during and after signing, 0..3 certificates,
\* validity 1 s .. 10 y, pre-existing identities of every class
C03_Sc1 == {[Base EXCEPT !.hs = hl, !.ncert = n, !.more = TRUE] : hl \in {<<"regular">>, <<"accept">>}, n \in {1, 3}}
      \cup {[Base EXCEPT !.val = v.n, !.valx = v.x, !.valx2 = v.x, !.more = TRUE] : v \in Vals}
      \cup {[Base EXCEPT !.ans = "otherkey", !.more = TRUE]}
      \cup {[Base EXCEPT !.hs = <<"accept">>, !.kalgo = k, !.ncert = 2, !.more = TRUE] : k \in KAlgos}   \* every agent-key algorithm
      \cup {[Base EXCEPT !.hs = hl, !.crep = c, !.ncert = 2] : hl \in {<<"regular">>, <<"accept">>}, c \in {"agentkey", "wrapper"}}
C03_Sc2(s) == IF ~s.more THEN {}
              ELSE IF s.kalgo # "ECCP256" THEN {[Base EXCEPT !.hs = <<"accept">>, !.kalgo = s.kalgo, !.ncert = n, !.fok = (n = 2)] : n \in {1, 2}}
              ELSE {[Base EXCEPT !.hs = hl, !.ncert = n, !.fok = TRUE] : hl \in {<<"regular">>, <<"accept">>}, n \in {0, 2}}
                   \cup {[Base EXCEPT !.ans = "otherkey"], [Base EXCEPT !.algo = 2]}
C03t_Sc1 == {[Base EXCEPT !.hs = hl, !.ncert = n, !.val = v.n, !.valx = v.x, !.valx2 = v.x, !.more = TRUE] : hl \in {<<"regular">>, <<"accept">>}, n \in 1..3, v \in Vals}
       \cup {[Base EXCEPT !.ans = "otherkey", !.more = TRUE]}
       \cup {[Base EXCEPT !.hs = <<"accept">>, !.kalgo = k, !.ncert = 3, !.more = TRUE] : k \in KAlgos}
\* (second runs admit faults; a third run follows a regular second run, without further faults)
C03t_Sc2(s) == IF ~s.more THEN {}
               ELSE IF s.kalgo # "ECCP256" THEN {[Base EXCEPT !.hs = <<"accept">>, !.kalgo = s.kalgo, !.ncert = n, !.fok = TRUE] : n \in {0, 2}}
               ELSE IF s.fok THEN {[Base EXCEPT !.hs = hl] : hl \in {<<"regular">>, <<"accept">>}} \cup {[Base EXCEPT !.ans = "otherkey"]}
               ELSE {[Base EXCEPT !.hs = hl, !.ncert = n, !.fok = TRUE] : hl \in {<<"regular">>, <<"accept">>}, n \in {0, 2}}
                    \cup {[Base EXCEPT !.ncert = n, !.fok = TRUE, !.more = TRUE] : n \in {0, 2}}
                    \cup {[Base EXCEPT !.ans = "otherkey"], [Base EXCEPT !.algo = 2]}

\* C04: every single fault at every agent operation index / CA call / handler method, 1..3 certificates per request,
\* one or two requests, every typed generation error
C04_Sc1 == {[Base EXCEPT !.ncert = n, !.fok = TRUE] : n \in 0..3}         \* 0 = the CA replies OK without a certificate
      \cup {[Base EXCEPT !.hs = <<"accept">>, !.ncert = n, !.ncsr = k, !.fok = TRUE] : n \in 0..3, k \in 1..2}
      \cup {[Base EXCEPT !.hs = <<"accept">>, !.kalgo = k, !.ncert = 2, !.fok = TRUE] : k \in KAlgos}
      \* request-context classes: done before Run, expiring during the agent phase (slow agent), cancelled between two signer calls
      \cup {[Base EXCEPT !.hs = hl, !.ctx = "cancelled", !.ncert = 2] : hl \in {<<"regular">>, <<"accept">>, <<"reject", "regular">>}}
      \cup {[Base EXCEPT !.hs = hl, !.ctx = "deadline", !.delay = "short"] : hl \in {<<"regular">>, <<"regular", "accept">>}}
      \cup {[Base EXCEPT !.hs = <<"accept">>, !.ctx = "between", !.ncsr = 2, !.ncert = n] : n \in {1, 2}}
      \cup {[Base EXCEPT !.hs = <<"accept">>, !.ctx = "between", !.ncsr = 1]}
      \cup {[Base EXCEPT !.hs = hl, !.crep = c, !.ncert = n, !.fok = TRUE] : hl \in {<<"regular">>, <<"accept">>}, c \in {"agentkey", "wrapper"}, n \in {1, 3}}
      \cup {[Base EXCEPT !.hs = <<"accept">>, !.sgen = g, !.fok = TRUE] : g \in {"CSR", "Conf", "Params", "empty"}}
      \cup {[Base EXCEPT !.hs = hl, !.ans = a, !.fok = TRUE] : hl \in {<<"regular", "accept">>, <<"reject", "regular">>}, a \in {"honest", "otherkey", "closed"}}
      \cup {[Base EXCEPT !.hs = hl, !.fok = TRUE] : hl \in {<<>>, <<"reject">>, <<"reject", "reject">>, <<"reject", "accept">>}}
      \cup {[Base EXCEPT !.algo = 2, !.fok = TRUE]}
C04_Sc2(s) == {}
C04t_Sc1 == C04_Sc1 \cup {[Base EXCEPT !.hs = hl, !.ncert = n, !.fok = TRUE, !.more = TRUE] : hl \in {<<"regular">>, <<"accept">>}, n \in {1, 2}}
C04t_Sc2(s) == IF s.more THEN {[Base EXCEPT !.hs = hl, !.ncert = n, !.fok = TRUE] : hl \in {<<"regular">>, <<"accept">>}, n \in {0, 2}} ELSE {}

---------------------------------------------------------------------------
\* export of every finished history as one replayable case (a first run that is going to be continued is not
\* exported on its own: it is the prefix of its continuations)
Emit == (Done /\ ~(sc.more /\ nrun + 1 < MaxRuns)) =>
          PrintT(<<"CASE", ToJson([runs |-> Append(hist, [sc |-> sc, r |-> r, pre |-> pre.ag, post |-> ag])])>>)
=============================================================================
