------------------------------ MODULE MCWait ------------------------------
EXTENDS WaitCond, Json
\* bounded model checking and export of the labelled transition system of WaitCond
Sym == Permutations(Waiters)
St(v, r, cl, rl, rt) == [via |-> v, reg |-> r, called |-> cl, released |-> rl, returned |-> rt]
Cur == St(via, reg, called, released, returned)
Nxt == St(via', reg', called', released', returned')
EmitT == PrintT(<<"TR", ToJson([f |-> Cur, e |-> last', t |-> Nxt])>>)
\* symmetry breaking for the export: waiters are interchangeable, so they register in the order w1, w2, ...
WOrder == <<"w1", "w2", "w3", "w4", "w5", "w6", "w7", "w8">>
Idx(w) == CHOOSE i \in 1 .. 8 : WOrder[i] = w
NewW   == IF last'.op \in {"call", "reg", "race"} THEN last'.ws ELSE {}
OrderedReg == \A w \in NewW : \A i \in 1 .. (Idx(w) - 1) : WOrder[i] \in Waiters => reg[WOrder[i]] # NoCode
EmitOrd == OrderedReg /\ EmitT
\* quotient for the export: what a released waiter asked for, and whether its call has already returned, has no
\* influence on later steps; the number of requests so far has none either (MaxReq is set high in the export cfg)
ViewLts == <<via, waiting, {w \in Waiters : reg[w] # NoCode}>>
ASSUME PrintT(<<"UN", ToJson([waiters |-> Waiters, codes |-> Codes, table |-> TableSize, waitcode |-> WaitCode])>>)
=============================================================================
