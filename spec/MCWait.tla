------------------------------ MODULE MCWait ------------------------------
EXTENDS WaitCond, Json
\* bounded model checking and export of the labelled transition system of WaitCond
Sym == Permutations(Waiters)
St(v, r, cl, rl, rt) == [via |-> v, reg |-> r, called |-> cl, released |-> rl, returned |-> rt]
Cur == St(via, reg, called, released, returned)
Nxt == St(via', reg', called', released', returned')
EmitT == PrintT(<<"TR", ToJson([f |-> Cur, e |-> last', t |-> Nxt])>>)
ASSUME PrintT(<<"UN", ToJson([waiters |-> Waiters, codes |-> Codes, table |-> TableSize, waitcode |-> WaitCode])>>)
=============================================================================
