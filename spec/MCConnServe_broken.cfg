SPECIFICATION Spec
CONSTANTS
  Conns = {1, 2}
  MaxReq = 1
  Shared = TRUE
INVARIANTS OwnReply
CHECK_DEADLOCK FALSE
