------------------------------ MODULE MCShim ------------------------------
EXTENDS ShimAgent, ShimUniverses, Json
UniverseJson == [keys |-> Keys, pass |-> Pass,
                 certs |-> [c \in Certs |-> [key |-> CertKey[c], v0 |-> c \in V0, v1 |-> c \in V1, yss |-> c \in Yss]]]
ASSUME PrintT(<<"UN", ToJson(UniverseJson)>>)

St(u,ul,up,m,c,l,nu,n,d,fv) == [u |-> u, ul |-> ul, up |-> up, m |-> m, c |-> c, l |-> l, nu |-> nu, n |-> n, d |-> d, fv |-> fv]
Cur  == St(under, ulocked, upass, mem, cache, locked, noUp, now, dead, forever)
Nxt  == St(under', ulocked', upass', mem', cache', locked', noUp', now', dead', forever')
\* export of the labelled transition system (fault steps are not exported: they are judged, not replayed)
EmitT == (last'.f.kind = "none" /\ last'.op # "new") => PrintT(<<"TR", ToJson([f |-> Cur, e |-> last', t |-> Nxt])>>)
EmitI == (last.op = "init") => PrintT(<<"IN", ToJson(Cur)>>)
NoForever == forever = {}
=============================================================================
